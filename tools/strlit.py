#!/usr/bin/env python3
"""strlit.py in.v.in out.v : expands «text» into a Coq byte list ([..] (* "text" *) is not
added inside expressions to keep lines short; \\t \\n \\\\ \\' escapes are understood)."""
import re, sys
def conv(m):
    s = m.group(1)
    s = s.replace("\\t", "\t").replace("\\n", "\n").replace("\\0", "\0").replace("\\\\", "\\")
    lit = "[" + "; ".join(str(b) for b in s.encode()) + "]"
    if s and re.fullmatch(r"[A-Za-z0-9 .,:+=<>_/!%@-]+", s):
        lit += " (*" + s + "*)"
    return lit
src = open(sys.argv[1], encoding="utf-8").read()
out = re.sub(r"«(.*?)»", conv, src, flags=re.S)
open(sys.argv[2], "w", encoding="utf-8").write(out)
