(* C13 oracle.  Strings are hex, "-" = empty.  Words over an alphabet are
   enumerated by length, then in alphabet order (the harness does the same).

   pm <pat> <alphabet> <maxlen>
      -> "<c> <malformed> <tricky> <model bits> <spec bits>"
         c = K compiled | E error | P panic | F out of fuel;
         bits: one char per word: 1 0 (P panic, F fuel; spec: N = out of fuel); "-" if not compiled
   ix <p> <q> <alphabet> <maxlen>
      -> "<c> <canmatch> <nstates> <model bits of Intersect(p,q)> <spec bits: str_match p && str_match q> [<tricky>]"
         c = K | E (one does not compile) | P | F
   num <prefix> <alphabet> <k>
      -> "<model bits> <spec bits>" for prefix ^ w, w over alphabet, |w| <= k
   ms <pat> <s1> ... <sn>        like pm, for the given words
   ixs <p> <q> <s1> ... <sn>     like ix, for the given words
   nums <s1> ... <sn>            like num, for the given words
   sm <pat> <s>                  -> spec only: "<malformed> <tricky> <spec bit>"
   both <pat> <alphabet> <k>     -> first word w (hex) over the alphabet, |w| <= k, with
                                    str_match pat w && is_c_number w, or "none"
   mmn <pat> -> "<b> <err>" | "P" | "F"
   cm <pat> -> CanMatch of the compiled pattern: 1 0 E P F
   ixt <expr tokens> -- <s1> ... <sn>
      expr in prefix form: I <expr> <expr> (Intersect) | L<hex pattern> (Compile) | N (Number());
      -> "<c> <canmatch> <nstates> <model bits> <spec bits: conjunction over all leaves>" like ix *)
let words (alpha : n list) (maxlen : int) : n list list =
  let rec go k acc prev =
    if k > maxlen then List.rev acc else
    let next = List.concat_map (fun w -> List.map (fun c -> w @ [c]) alpha) prev in
    go (k + 1) (List.rev_append next acc) next in
  go 1 [[]] [[]]

let bit_res (r : bool res) : char = match r with Ok true -> '1' | Ok false -> '0' | Panic -> 'P' | OutOfFuel -> 'F'
let bit_opt (r : bool option) : char = match r with Some true -> '1' | Some false -> '0' | None -> 'N'
let str_of_chars (l : char list) : string = String.of_seq (List.to_seq l)
let b01 b = if b then "1" else "0"

let pm (p : n list) (ws : n list list) : string =
    let spec = str_of_chars (List.map (fun w -> bit_opt (str_match p w)) ws) in
    let head c = c ^ " " ^ b01 (malformed p) ^ " " ^ b01 (range_to_rbracket p) in
    (match compile p with
     | Ok (Some a) -> head "K" ^ " " ^ str_of_chars (List.map (fun w -> bit_res (matchp a w)) ws) ^ " " ^ spec
     | Ok None -> head "E" ^ " - " ^ spec
     | Panic -> head "P" ^ " - " ^ spec
     | OutOfFuel -> head "F" ^ " - " ^ spec)

let ix (p : n list) (q : n list) (ws : n list list) : string =
    let spec = str_of_chars (List.map (fun w ->
        match str_match p w, str_match q w with
        | Some a, Some b -> if a && b then '1' else '0'
        | _, _ -> 'N') ws) in
    (match compile p, compile q with
     | Ok (Some a), Ok (Some b) ->
       (match intersect a b with
        | Ok i -> "K " ^ String.make 1 (bit_res (can_match i)) ^ " " ^ string_of_int (List.length i) ^ " "
                  ^ str_of_chars (List.map (fun w -> bit_res (matchp i w)) ws) ^ " " ^ spec
                  ^ " " ^ b01 (range_to_rbracket p || range_to_rbracket q)
        | Panic -> "P - 0 - " ^ spec
        | OutOfFuel -> "F - 0 - " ^ spec)
     | Ok None, _ | _, Ok None -> "E - 0 - " ^ spec
     | Panic, _ | _, Panic -> "P - 0 - " ^ spec
     | _, _ -> "F - 0 - " ^ spec)

let num (ws : n list list) : string =
    str_of_chars (List.map (fun w -> bit_res (matchp number w)) ws) ^ " "
    ^ str_of_chars (List.map (fun w -> if is_c_number w then '1' else '0') ws)

(* intersection trees: the operands of Intersect may themselves be products or Number() *)
type itree = IL of n list | IN | II of itree * itree
let rec parse_itree (toks : string list) : itree * string list =
  match toks with
  | "I" :: r -> let (a, r1) = parse_itree r in let (b, r2) = parse_itree r1 in (II (a, b), r2)
  | "N" :: r -> (IN, r)
  | t :: r when String.length t >= 1 && t.[0] = 'L' -> (IL (bytes_of_hex (String.sub t 1 (String.length t - 1))), r)
  | _ -> failwith "bad itree"
type mres = MK of pattern | MErr of char
let rec itree_model (t : itree) : mres =
  match t with
  | IL p -> (match compile p with Ok (Some a) -> MK a | Ok None -> MErr 'E' | Panic -> MErr 'P' | OutOfFuel -> MErr 'F')
  | IN -> MK number
  | II (a, b) ->
    (match itree_model a with
     | MK x ->
       (match itree_model b with
        | MK y -> (match intersect x y with Ok i -> MK i | Panic -> MErr 'P' | OutOfFuel -> MErr 'F')
        | r -> r)
     | r -> r)
let rec itree_spec (t : itree) (w : n list) : bool option =
  match t with
  | IL p -> str_match p w
  | IN -> Some (is_c_number w)
  | II (a, b) -> (match itree_spec a w, itree_spec b w with Some x, Some y -> Some (x && y) | _, _ -> None)
let rec itree_tricky (t : itree) : bool =
  match t with IL p -> range_to_rbracket p | IN -> false | II (a, b) -> itree_tricky a || itree_tricky b
let ixt (t : itree) (ws : n list list) : string =
  let spec = str_of_chars (List.map (fun w -> bit_opt (itree_spec t w)) ws) in
  match itree_model t with
  | MK i ->
    "K " ^ String.make 1 (bit_res (can_match i)) ^ " " ^ string_of_int (List.length i) ^ " "
    ^ str_of_chars (List.map (fun w -> bit_res (matchp i w)) ws) ^ " " ^ spec ^ " " ^ b01 (itree_tricky t)
  | MErr c -> String.make 1 c ^ " - 0 - " ^ spec

let handle (args : string list) : string =
  match args with
  | "ixt" :: rest ->
    let (t, r) = parse_itree rest in
    (match r with
     | "--" :: ws -> ixt t (List.map bytes_of_hex ws)
     | _ -> "ERR:bad ixt request")
  | ["pm"; p; alpha; maxlen] -> pm (bytes_of_hex p) (words (bytes_of_hex alpha) (int_of_string maxlen))
  | "ms" :: p :: ws -> pm (bytes_of_hex p) (List.map bytes_of_hex ws)
  | ["ix"; p; q; alpha; maxlen] -> ix (bytes_of_hex p) (bytes_of_hex q) (words (bytes_of_hex alpha) (int_of_string maxlen))
  | "ixs" :: p :: q :: ws -> ix (bytes_of_hex p) (bytes_of_hex q) (List.map bytes_of_hex ws)
  | ["num"; pre; alpha; k] ->
    let pre = bytes_of_hex pre in
    num (List.map (fun w -> pre @ w) (words (bytes_of_hex alpha) (int_of_string k)))
  | "nums" :: ws -> num (List.map bytes_of_hex ws)
  | ["sm"; p; w] ->
    let p = bytes_of_hex p in
    b01 (malformed p) ^ " " ^ b01 (range_to_rbracket p) ^ " " ^ String.make 1 (bit_opt (str_match p (bytes_of_hex w)))
  | ["both"; p; alpha; k] ->
    let p = bytes_of_hex p in
    (match List.find_opt (fun w -> str_match p w = Some true && is_c_number w) (words (bytes_of_hex alpha) (int_of_string k)) with
     | Some w -> hex_of_bytes w
     | None -> "none")
  | ["mmn"; p] ->
    (match may_match_number (bytes_of_hex p) with
     | Ok (b, e) -> b01 b ^ " " ^ b01 e
     | Panic -> "P"
     | OutOfFuel -> "F")
  | ["cm"; p] ->
    (match compile (bytes_of_hex p) with
     | Ok (Some a) -> String.make 1 (bit_res (can_match a))
     | Ok None -> "E"
     | Panic -> "P"
     | OutOfFuel -> "F")
  | _ -> "ERR:bad request"
let () = serve handle
