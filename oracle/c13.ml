(* C13 oracle.  Strings are hex, "-" = empty.  Words over an alphabet are
   enumerated by length, then in alphabet order (the harness does the same).

   pm <pat> <alphabet> <maxlen>
      -> "<c> <malformed> <tricky> <model bits> <spec bits>"
         c = K compiled | E error | P panic | F out of fuel;
         bits: one char per word: 1 0 (P panic, F fuel; spec: N = out of fuel); "-" if not compiled
   ix <p> <q> <alphabet> <maxlen>
      -> "<c> <canmatch> <nstates> <model bits of Intersect(p,q)> <spec bits: str_match p && str_match q>"
         c = K | E (one does not compile) | P | F
   num <prefix> <alphabet> <k>
      -> "<model bits> <spec bits>" for prefix ^ w, w over alphabet, |w| <= k
   mmn <pat> -> "<b> <err>" | "P" | "F"
   cm <pat> -> CanMatch of the compiled pattern: 1 0 E P F *)
let words (alpha : n list) (maxlen : int) : n list list =
  let rec go k acc prev =
    if k > maxlen then List.rev acc else
    let next = List.concat_map (fun w -> List.map (fun c -> w @ [c]) alpha) prev in
    go (k + 1) (List.rev_append next acc) next in
  go 1 [[]] [[]]

let bit_res (r : bool res) : char = match r with Ok true -> '1' | Ok false -> '0' | Panic -> 'P' | OutOfFuel -> 'F'
let bit_opt (r : bool option) : char = match r with Some true -> '1' | Some false -> '0' | None -> 'N'
let str_of_chars (l : char list) : string = String.of_seq (List.to_seq l)
let b01 b = if b then "1" else "0"

let handle (args : string list) : string =
  match args with
  | ["pm"; p; alpha; maxlen] ->
    let p = bytes_of_hex p and alpha = bytes_of_hex alpha and maxlen = int_of_string maxlen in
    let ws = words alpha maxlen in
    let spec = str_of_chars (List.map (fun w -> bit_opt (str_match p w)) ws) in
    let head c = c ^ " " ^ b01 (malformed p) ^ " " ^ b01 (range_to_rbracket p) in
    (match compile p with
     | Ok (Some a) -> head "K" ^ " " ^ str_of_chars (List.map (fun w -> bit_res (matchp a w)) ws) ^ " " ^ spec
     | Ok None -> head "E" ^ " - " ^ spec
     | Panic -> head "P" ^ " - " ^ spec
     | OutOfFuel -> head "F" ^ " - " ^ spec)
  | ["ix"; p; q; alpha; maxlen] ->
    let p = bytes_of_hex p and q = bytes_of_hex q and alpha = bytes_of_hex alpha and maxlen = int_of_string maxlen in
    let ws = words alpha maxlen in
    let spec = str_of_chars (List.map (fun w ->
        match str_match p w, str_match q w with
        | Some a, Some b -> if a && b then '1' else '0'
        | _, _ -> 'N') ws) in
    (match compile p, compile q with
     | Ok (Some a), Ok (Some b) ->
       (match intersect a b with
        | Ok i -> "K " ^ String.make 1 (bit_res (can_match i)) ^ " " ^ string_of_int (List.length i) ^ " "
                  ^ str_of_chars (List.map (fun w -> bit_res (matchp i w)) ws) ^ " " ^ spec
        | Panic -> "P - 0 - " ^ spec
        | OutOfFuel -> "F - 0 - " ^ spec)
     | Ok None, _ | _, Ok None -> "E - 0 - " ^ spec
     | Panic, _ | _, Panic -> "P - 0 - " ^ spec
     | _, _ -> "F - 0 - " ^ spec)
  | ["num"; pre; alpha; k] ->
    let pre = bytes_of_hex pre and alpha = bytes_of_hex alpha and k = int_of_string k in
    let ws = List.map (fun w -> pre @ w) (words alpha k) in
    str_of_chars (List.map (fun w -> bit_res (matchp number w)) ws) ^ " "
    ^ str_of_chars (List.map (fun w -> if is_c_number w then '1' else '0') ws)
  | ["mmn"; p] ->
    (match may_match_number (bytes_of_hex p) with
     | Ok (b, e) -> b01 b ^ " " ^ b01 e
     | Panic -> "P"
     | OutOfFuel -> "F")
  | ["cm"; p] ->
    (match compile (bytes_of_hex p) with
     | Ok (Some a) -> String.make 1 (bit_res (can_match a))
     | Ok None -> "E"
     | Panic -> "P"
     | OutOfFuel -> "F")
  | _ -> "ERR:bad request"
let () = serve handle
