(* C09 oracle.
   conv <mk> <hex input>                       -> model output:  ok <eof> <lines> | panic | outoffuel
   chk  <mk> <hex input> <eof> <lines>         -> <agree 0/1> <5 spec bits: partition shape numbering grouping text>
   mcl  <hex text>                             -> model parts / spec parts (hex,hex,hex,hex / ...)
   save <lines+fixes>                          -> model: none | some <hex> ; spec <hex>
   <lines> = lineno:hextext:hexraw,hexraw;...   ("-" for no lines; a line without raws has "_" as raws)
   save item = lineno:hextext:raws:F  with F = n (no fix) | <m 0/1>/above/texts/below, each a ","-list or "_" *)
let hexlist (s : string) : n list list =
  if s = "_" then [] else List.map bytes_of_hex (String.split_on_char ',' s)
let show_hexlist (l : n list list) : string =
  if l = [] then "_" else String.concat "," (List.map hex_of_bytes l)
let parse_line (s : string) : (n * n list) * n list list =
  match String.split_on_char ':' s with
  | ln :: t :: r :: _ -> ((n_of_int (int_of_string ln), bytes_of_hex t), hexlist r)
  | _ -> failwith "bad line"
let parse_lines (s : string) : ((n * n list) * n list list) list =
  if s = "-" then [] else List.map parse_line (String.split_on_char ';' s)
let show_line (((ln, t), rs) : (n * n list) * n list list) : string =
  string_of_int (int_of_n ln) ^ ":" ^ hex_of_bytes t ^ ":" ^ show_hexlist rs
let show_lines ls = if ls = [] then "-" else String.concat ";" (List.map show_line ls)
let bit b = if b then "1" else "0"
let show_model mk input =
  match convert_to_logical_lines input mk with
  | Ok (ls, eof) -> "ok " ^ bit eof ^ " " ^ show_lines (List.map obs_of_line ls)
  | Panic -> "panic"
  | OutOfFuel -> "outoffuel"
let parse_fix (s : string) : autofix option =
  if s = "n" then None else
  match String.split_on_char '/' s with
  | [m; a; t; b] -> Some { above = hexlist a; texts = hexlist t; below = hexlist b; modified = (m = "1") }
  | _ -> failwith "bad fix"
let handle (args : string list) : string =
  match args with
  | ["conv"; mk; inp] -> show_model (mk = "1") (bytes_of_hex inp)
  | ["chk"; mk; inp; eof; ls] ->
    let mk = (mk = "1") and input = bytes_of_hex inp in
    let impl = "ok " ^ eof ^ " " ^ ls in
    let agree = (show_model mk input = impl) in
    bit agree ^ " " ^ String.concat "" (List.map bit (spec_check mk input (parse_lines ls)))
  | ["mcl"; t] ->
    let t = bytes_of_hex t in
    let (((a, b), c), d) = match_continuation_line t in
    let p = spec_parts t in
    show_hexlist [a; b; c; d] ^ " " ^ show_hexlist [p.p_indent; p.p_body; p.p_outdent; p.p_cont]
  | "save" :: items ->
    let parse_item s =
      match String.split_on_char ':' s with
      | [ln; t; r; f] -> (((n_of_int (int_of_string ln), bytes_of_hex t), hexlist r), parse_fix f)
      | _ -> failwith "bad save item" in
    let items = List.map parse_item items in
    let flines = List.map (fun (((ln, t), rs), f) -> ({ lineno = ln; text = t; raws = rs }, f)) items in
    let spec_items = List.map (fun (o, f) ->
        (o, match f with
            | None -> None
            | Some fx -> Some (fx.above @ fx.texts @ fx.below))) items in
    (match save_autofix_changes flines with
     | None -> "none"
     | Some s -> "some " ^ hex_of_bytes s) ^ " " ^ hex_of_bytes (spec_saved spec_items)
  | _ -> "ERR:bad request"
let () = serve handle
