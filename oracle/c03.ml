(* C03 oracle.
   cons <reloads> <hexold> <hexnew> <entry>...   -> "1" | "0"
     entry = <lineno>:<kind>[:<hex>[:<hex>]]   kinds R(from,to) A(text) B(text) D S C
   run <autofix 0|1> <show 0|1> <nonly> <hex>... <hexfile> <hexbefore>
       <nlines> { <nraws> <hextext> <hexraw>... } <nevents> { event }
     event = T <line> <hexdiag> <nops> { op } | S | P | X <exec 0|1>
     op    = RA <prefix> <from> <to> | RT <ri> <ti> <from> <to> | IA <t> | IB <t> | D | CC <ri>
     -> "panic" | "<log>;<hexdisk>;<nops>;<lines>;<nchmod>"
        log = entries joined by ","    lines = per line  <hextext>/<hexraw>/...  joined by "," *)
let parse_entry (s : string) : entry =
  match String.split_on_char ':' s with
  | [n; "R"; f; t] -> (n_of_int (int_of_string n), ARepl (bytes_of_hex f, bytes_of_hex t))
  | [n; "A"; t] -> (n_of_int (int_of_string n), AAbove (bytes_of_hex t))
  | [n; "B"; t] -> (n_of_int (int_of_string n), ABelow (bytes_of_hex t))
  | [n; "D"] -> (n_of_int (int_of_string n), ADelete)
  | [n; "S"] -> (n_of_int (int_of_string n), ASort)
  | [n; "C"] -> (n_of_int (int_of_string n), AChmod)
  | _ -> failwith ("bad entry " ^ s)

let show_descr (ln : z) (d : descr) : string =
  let n = string_of_z ln in
  match d with
  | DRepl (f, t) -> n ^ ":R:" ^ hex_of_bytes f ^ ":" ^ hex_of_bytes t
  | DAbove t -> n ^ ":A:" ^ hex_of_bytes t
  | DBelow t -> n ^ ":B:" ^ hex_of_bytes t
  | DDelete -> n ^ ":D"
  | DSort -> n ^ ":S"
  | DChmod -> n ^ ":C"

let run_request (toks : string list) : string =
  let rest = ref toks in
  let next () = match !rest with x :: r -> rest := r; x | [] -> failwith "short request" in
  let nint () = int_of_string (next ()) in
  let nstr () = bytes_of_hex (next ()) in
  let rec times n f = if n <= 0 then [] else let x = f () in x :: times (n - 1) f in
  let a = nint () = 1 in
  let s = nint () = 1 in
  let only = times (nint ()) nstr in
  let file = nstr () in
  let before = nstr () in
  let groups = times (nint ()) (fun () ->
      let nr = nint () in let text = nstr () in let raws = times nr nstr in (raws, text)) in
  let op () = match next () with
    | "RA" -> let p = nstr () in let f = nstr () in let t = nstr () in OReplaceAfter (p, f, t)
    | "RT" -> let ri = nint () in let ti = nint () in let f = nstr () in let t = nstr () in
      OReplaceAt (z_of_int ri, z_of_int ti, f, t)
    | "IA" -> OInsertAbove (nstr ())
    | "IB" -> OInsertBelow (nstr ())
    | "D" -> ODelete
    | "CC" -> OCustom (z_of_int (nint ()))
    | x -> failwith ("bad op " ^ x) in
  let event () = match next () with
    | "T" -> let line = nint () in let diag = nstr () in let ops = times (nint ()) op in
      ETxn { t_line = nat_of_int line; t_diag = diag; t_ops = ops }
    | "S" -> ESave
    | "P" -> ESort
    | "X" -> let x = nint () = 1 in EChmod (file, x, false)
    | x -> failwith ("bad event " ^ x) in
  let evs = times (nint ()) event in
  match run_script a s only file groups evs before with
  | None -> "panic"
  | Some ((((log, disk), nops), lines), nchmod) ->
    String.concat "," (List.map (fun (ln, d) -> show_descr ln d) log) ^ ";" ^
    hex_of_bytes disk ^ ";" ^ string_of_int (int_of_nat nops) ^ ";" ^
    String.concat "," (List.map (fun (raws, text) ->
        String.concat "/" (hex_of_bytes text :: List.map hex_of_bytes raws)) lines) ^
    ";" ^ string_of_int (int_of_nat nchmod)

(* chk <autofix 0|1> <show 0|1> <executable 0|1> <committed 0|1> <hexfile> <hexonly>...
   -> "panic" | "<printed entries joined by ,>;<number of chmod operations>"   (Model.Autofix.check_executable) *)
let chk_request (toks : string list) : string =
  match toks with
  | a :: s :: x :: c :: file :: only ->
    (match check_executable { o_autofix = (a = "1"); o_show = (s = "1"); o_only = List.map bytes_of_hex only }
             (bytes_of_hex file) (x = "1") (c = "1") with
     | Panic -> "panic"
     | Ok (printed, ops) ->
       String.concat "," (List.map (fun (d, ln) -> show_descr ln d) printed) ^ ";" ^ string_of_int (List.length ops))
  | _ -> "ERR:bad chk request"

let handle (args : string list) : string =
  match args with
  | "chk" :: rest -> chk_request rest
  | "cons" :: r :: o :: n :: es ->
    let log = List.map parse_entry es in
    if consistent_hist (nat_of_int (int_of_string r)) (bytes_of_hex o) log (bytes_of_hex n) then "1" else "0"
  | ["lines"; o] -> String.concat "," (List.map hex_of_bytes (phys_lines (bytes_of_hex o)))
  | "run" :: rest -> run_request rest
  | _ -> "ERR:bad request"
let () = serve handle
