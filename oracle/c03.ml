(* C03 oracle.
   cons|lenient <reloads> <hexold> <hexnew> <entry>...   -> "1" | "0"   (lenient: without the line-gluing rules, for classification only)
     entry = <lineno>:<kind>[:<hex>[:<hex>]]   kinds R(from,to) A(text) B(text) D S C *)
let parse_entry (s : string) : entry =
  match String.split_on_char ':' s with
  | [n; "R"; f; t] -> (n_of_int (int_of_string n), ARepl (bytes_of_hex f, bytes_of_hex t))
  | [n; "A"; t] -> (n_of_int (int_of_string n), AAbove (bytes_of_hex t))
  | [n; "B"; t] -> (n_of_int (int_of_string n), ABelow (bytes_of_hex t))
  | [n; "D"] -> (n_of_int (int_of_string n), ADelete)
  | [n; "S"] -> (n_of_int (int_of_string n), ASort)
  | [n; "C"] -> (n_of_int (int_of_string n), AChmod)
  | _ -> failwith ("bad entry " ^ s)

let handle (args : string list) : string =
  match args with
  | ("cons" | "lenient" as k) :: r :: o :: n :: es ->
    let log = List.map parse_entry es in
    if consistent_hist (k = "cons") (nat_of_int (int_of_string r)) (bytes_of_hex o) log (bytes_of_hex n) then "1" else "0"
  | ["lines"; o] -> String.concat "," (List.map hex_of_bytes (phys_lines (bytes_of_hex o)))
  | _ -> "ERR:bad request"
let () = serve handle
