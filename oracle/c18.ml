(* C18 oracle.
   dig  <hex body>                  -> <hex model: bytes hashed> <hex spec: makepatchsum_filter>   ("panic" if the load fails)
   chk  <hex body> <hex distinfo hash> <hex digest of the filtered bytes, computed by the caller>
                                    -> silent | differs <hex old> <hex new>      (H = the caller's digest: constant function)
   repl <hex from> <hex to> <hex text>,<hex text>...   -> texts after Autofix.Replace, ","-separated *)
let handle (args : string list) : string =
  match args with
  | ["dig"; b] ->
    let s = bytes_of_hex b in
    (match convert_to_logical_lines s false with
     | Ok (ls, _) -> hex_of_bytes (hashed_bytes ls) ^ " " ^ hex_of_bytes (makepatchsum_filter s)
     | _ -> "panic")
  | ["chk"; b; d; h] ->
    let h = bytes_of_hex h in
    (match check_patch_sha1 (fun _ -> h) (Some (bytes_of_hex b)) (bytes_of_hex d) with
     | Silent -> "silent"
     | Differs (o, n) -> "differs " ^ hex_of_bytes o ^ " " ^ hex_of_bytes n
     | DoesNotExist -> "missing"
     | LoadPanic -> "panic")
  | ["repl"; f; t; texts] ->
    let texts = List.map bytes_of_hex (String.split_on_char ',' texts) in
    String.concat "," (List.map hex_of_bytes (autofix_replace texts (bytes_of_hex f) (bytes_of_hex t)))
  | _ -> "ERR:bad request"
let () = serve handle
