(* C18 oracle.
   dig  <hex body>                  -> <hex model: bytes hashed> <hex spec: makepatchsum_filter>   ("panic" if the load fails)
   chk  <hex body> <hex distinfo hash> <hex digest of the filtered bytes, computed by the caller>
                                    -> silent | differs <hex old> <hex new>      (H = the caller's digest: constant function)
   repl <hex from> <hex to> <hex text>,<hex text>...   -> texts after Autofix.Replace, ","-separated
   fixl <hex old> <hex new> <hex text>,...             -> texts after fix_distinfo_line texts (Differs old new)
   An optional file is N (cannot be read) or a hex string; a CVS directory is <opt Entries> <opt Entries.Log>.
   com  <dir> <hex base>             -> <keys of load_cvs_entries: nil | hex,hex,... | empty> <is_committed: 0|1>
   hnd  <keys> <add 0|1> <hex text>  -> keys after cvs_handle            (keys: hex,hex,... or "empty")
   logl <keys> <hex text>            -> keys after cvs_log_line
   unc  <distinfoIsCommitted 0|1> <patch dir> <hex base> <hex alg> <opt body> <hex hash> <hex digest>
                                     -> <warned 0|1> <verdict>           (check_uncommitted_patch)
   cvs  <pkg dir> <patch dir> <hex base> <hex alg> <opt body> <hex hash> <hex digest>
                                     -> <warned 0|1> <verdict>           (check_entry_cvs)
   verdict: none | silent | differs <hex old> <hex new> | missing | panic *)
let opt_of (s : string) = if s = "N" then None else Some (bytes_of_hex s)
let keys_of (s : string) = if s = "empty" then [] else List.map bytes_of_hex (String.split_on_char ',' s)
let string_of_keys = function [] -> "empty" | ks -> String.concat "," (List.map hex_of_bytes ks)
let string_of_verdict = function
  | Silent -> "silent"
  | Differs (o, n) -> "differs " ^ hex_of_bytes o ^ " " ^ hex_of_bytes n
  | DoesNotExist -> "missing"
  | LoadPanic -> "panic"
let string_of_gate = function
  | Ok (w, v) -> (if w then "1 " else "0 ") ^ (match v with None -> "none" | Some v -> string_of_verdict v)
  | _ -> "panic"
let handle (args : string list) : string =
  match args with
  | ["dig"; b] ->
    let s = bytes_of_hex b in
    (match convert_to_logical_lines s false with
     | Ok (ls, _) -> hex_of_bytes (hashed_bytes ls) ^ " " ^ hex_of_bytes (makepatchsum_filter s)
     | _ -> "panic")
  | ["chk"; b; d; h] ->
    let h = bytes_of_hex h in
    string_of_verdict (check_patch_sha1 (fun _ -> h) (Some (bytes_of_hex b)) (bytes_of_hex d))
  | ["repl"; f; t; texts] ->
    let texts = List.map bytes_of_hex (String.split_on_char ',' texts) in
    String.concat "," (List.map hex_of_bytes (autofix_replace texts (bytes_of_hex f) (bytes_of_hex t)))
  | ["fixl"; o; n; texts] ->
    let texts = List.map bytes_of_hex (String.split_on_char ',' texts) in
    String.concat "," (List.map hex_of_bytes (fix_distinfo_line texts (Differs (bytes_of_hex o, bytes_of_hex n))))
  | ["com"; e; l; base] ->
    let d = { cvs_entries = opt_of e; cvs_entries_log = opt_of l } in
    (match load_cvs_entries d, is_committed d (bytes_of_hex base) with
     | Ok es, Ok c -> (match es with None -> "nil" | Some ks -> string_of_keys ks) ^ (if c then " 1" else " 0")
     | _ -> "panic")
  | ["hnd"; ks; add; text] -> string_of_keys (cvs_handle (keys_of ks) (add = "1") (bytes_of_hex text))
  | ["logl"; ks; text] -> string_of_keys (cvs_log_line (keys_of ks) (bytes_of_hex text))
  | ["unc"; dc; e; l; base; alg; body; hash; h] ->
    let h = bytes_of_hex h in
    string_of_gate (check_uncommitted_patch (fun _ -> h) (dc = "1") { cvs_entries = opt_of e; cvs_entries_log = opt_of l }
      (bytes_of_hex base) (bytes_of_hex alg) (opt_of body) (bytes_of_hex hash))
  | ["cvs"; e1; l1; e2; l2; base; alg; body; hash; h] ->
    let h = bytes_of_hex h in
    string_of_gate (check_entry_cvs (fun _ -> h) { cvs_entries = opt_of e1; cvs_entries_log = opt_of l1 }
      { cvs_entries = opt_of e2; cvs_entries_log = opt_of l2 }
      (bytes_of_hex base) (bytes_of_hex alg) (opt_of body) (bytes_of_hex hash))
  | _ -> "ERR:bad request"
let () = serve handle
