(* C05 oracle.  Tokens (space separated), sections separated by "/":
     init:  F <hexpath> <hexdata> <mode>   U <umask>      (F regular file, D directory (data = -),
            D <hexpath> - <mode>   L <hexpath> <hexlinktext> <mode>   L symbolic link: lstat view)
     prog:  S <hexpath> <hexdata>          M <hexpath> <mode>
            T <hexpath> <hexdata>  (save only if the latest save succeeded)
            E <hexpath> <hexdata>  (save only if the latest save failed)
     ops:   e <fd> <hexpath> <perm> (exclusive create) | o <fd> <hexpath> <perm> (create/truncate) | w <fd> <hexdata> | c <fd> | r <hexa> <hexb>
            | m <hexpath> <mode> | u <hexpath>
   Requests:
     ops / INIT / PROG               -> the model's operation list from that state
     crash / INIT / PROG / OPS       -> "ok <n>"  |  "bad <i> <hexpath> / <ops of that crash point>"
     state / INIT / OPS              -> "F ..." listing of the file system after OPS
     fault / INIT / PROG / k short e -> "<trace with results> / <stderr entries> / <listing>"  (k = -1: no fault)
     snap / INIT / PROG / CUR        -> "ok" | "bad <hexpath>"   (CUR in init syntax: a snapshot of a real tree)
     tmpfree / INIT / PROG           -> "1" | "0"
     foreign / INIT / PROG / CUR / c -> "ok" | "bad <hexpath>"   (Spec.CrashSpec.foreign_bad; c = 1 complete run, 0 crash snapshot)
   Link-aware model (Model/FsLinks.v; in INIT the data of an L entry is the entry name the link refers to; LPROG: S/T/E, X <hexpath>):
     lfault / INIT / LPROG / N | F k short e | K k n -> as fault, from Model.FsLinks.lrun
     lunnamed / INIT / LPROG / CUR   -> "ok" | "bad <hexpath>"   (Model.FsLinks.l_unnamed_changed)
     errline <kind> <hexpath> <hexdetail> -> hex of Model.SaveLog.error_line *)
let rec split_sections (toks : string list) : string list list =
  let rec go cur acc = function
    | [] -> List.rev (List.rev cur :: acc)
    | "/" :: rest -> go [] (List.rev cur :: acc) rest
    | t :: rest -> go (t :: cur) acc rest in
  go [] [] toks

let parse_init (toks : string list) : state =
  let rec go fs um = function
    | (("F" | "D" | "L") as k) :: p :: d :: m :: rest ->
      let kind = (match k with "F" -> KReg | "D" -> KDir | _ -> KSymlink) in
      go ((bytes_of_hex p, { f_kind = kind; f_data = bytes_of_hex d; f_mode = n_of_int (int_of_string m) }) :: fs) um rest
    | "U" :: m :: rest -> go fs (n_of_int (int_of_string m)) rest
    | [] -> { st_fs = List.rev fs; st_fds = []; st_umask = um }
    | _ -> failwith "bad init" in
  go [] (n_of_int 18) toks

let parse_prog (toks : string list) : action list =
  let rec go acc = function
    | "S" :: p :: d :: rest -> go (ASave (bytes_of_hex p, bytes_of_hex d) :: acc) rest
    | "M" :: p :: m :: rest -> go (AChmod (bytes_of_hex p, n_of_int (int_of_string m)) :: acc) rest
    | "T" :: p :: d :: rest -> go (AIfSaved (true, bytes_of_hex p, bytes_of_hex d) :: acc) rest
    | "E" :: p :: d :: rest -> go (AIfSaved (false, bytes_of_hex p, bytes_of_hex d) :: acc) rest
    | [] -> List.rev acc
    | _ -> failwith "bad prog" in
  go [] toks

(* lprog (Model/FsLinks.v): S/T/E as in prog; X <hexpath> = LCheckExec *)
let parse_lprog (toks : string list) : laction list =
  let rec go acc = function
    | "S" :: p :: d :: rest -> go (LSave (bytes_of_hex p, bytes_of_hex d) :: acc) rest
    | "X" :: p :: rest -> go (LCheckExec (bytes_of_hex p) :: acc) rest
    | "T" :: p :: d :: rest -> go (LIfSaved (true, bytes_of_hex p, bytes_of_hex d) :: acc) rest
    | "E" :: p :: d :: rest -> go (LIfSaved (false, bytes_of_hex p, bytes_of_hex d) :: acc) rest
    | [] -> List.rev acc
    | _ -> failwith "bad lprog" in
  go [] toks

let parse_ops (toks : string list) : op list =
  let rec go acc = function
    | "e" :: fd :: p :: m :: rest -> go (OpenExcl (n_of_int (int_of_string fd), bytes_of_hex p, n_of_int (int_of_string m)) :: acc) rest
    | "o" :: fd :: p :: m :: rest -> go (Open (n_of_int (int_of_string fd), bytes_of_hex p, n_of_int (int_of_string m)) :: acc) rest
    | "w" :: fd :: d :: rest -> go (Write (n_of_int (int_of_string fd), bytes_of_hex d) :: acc) rest
    | "c" :: fd :: rest -> go (Close (n_of_int (int_of_string fd)) :: acc) rest
    | "r" :: a :: b :: rest -> go (Rename (bytes_of_hex a, bytes_of_hex b) :: acc) rest
    | "m" :: p :: m :: rest -> go (Chmod (bytes_of_hex p, n_of_int (int_of_string m)) :: acc) rest
    | "u" :: p :: rest -> go (Unlink (bytes_of_hex p) :: acc) rest
    | [] -> List.rev acc
    | _ -> failwith "bad ops" in
  go [] toks

let show_op (o : op) : string =
  match o with
  | Open (fd, p, m) -> Printf.sprintf "o %d %s %d" (int_of_n fd) (hex_of_bytes p) (int_of_n m)
  | OpenExcl (fd, p, m) -> Printf.sprintf "e %d %s %d" (int_of_n fd) (hex_of_bytes p) (int_of_n m)
  | Write (fd, d) -> Printf.sprintf "w %d %s" (int_of_n fd) (hex_of_bytes d)
  | Close fd -> Printf.sprintf "c %d" (int_of_n fd)
  | Rename (a, b) -> Printf.sprintf "r %s %s" (hex_of_bytes a) (hex_of_bytes b)
  | Chmod (p, m) -> Printf.sprintf "m %s %d" (hex_of_bytes p) (int_of_n m)
  | Unlink p -> Printf.sprintf "u %s" (hex_of_bytes p)

let show_ops (l : op list) : string = String.concat " " (List.map show_op l)

let show_errno (e : errno) : string =
  match e with ENOENT -> "ENOENT" | EBADF -> "EBADF" | ENOSPC -> "ENOSPC" | EIO -> "EIO" | EACCES -> "EACCES" | EXDEV -> "EXDEV" | EEXIST -> "EEXIST" | ELOOP -> "ELOOP"

let parse_errno (s : string) : errno =
  match s with
  | "ENOENT" -> ENOENT | "EBADF" -> EBADF | "ENOSPC" -> ENOSPC | "EIO" -> EIO | "EACCES" -> EACCES | "EXDEV" -> EXDEV | "EEXIST" -> EEXIST | "ELOOP" -> ELOOP
  | _ -> failwith "bad errno"

let show_fs (m : fsmap) : string =
  String.concat " " (List.map (fun (p, f) -> Printf.sprintf "%s %s %s %d" (match f.f_kind with KReg -> "F" | KDir -> "D" | KSymlink -> "L") (hex_of_bytes p) (hex_of_bytes f.f_data) (int_of_n f.f_mode)) m)

let show_kind (k : errkind) : string =
  match k with CannotWrite -> "write" | CannotOverwrite -> "overwrite" | CannotClearExec -> "chmod"

let handle (args : string list) : string =
  match split_sections args with
  | [["ops"]; init; prog] -> show_ops (prog_ops (parse_init init) (parse_prog prog))
  | [["crash"]; init; prog; ops] ->
    let ops = parse_ops ops in
    (match check_crashes (parse_init init) (parse_prog prog) ops with
     | None -> Printf.sprintf "ok %d" (List.length (crash_list ops))
     | Some ((i, c), p) -> Printf.sprintf "bad %d %s / %s" (int_of_nat i) (hex_of_bytes p) (show_ops c))
  | [["state"]; init; ops] -> show_fs (exec (parse_ops ops) (parse_init init)).st_fs
  | [["fault"]; init; prog; [k; short; e]] ->
    let k = int_of_string k in
    let plan = if k < 0 then None else Some (nat_of_int k, { fl_short = nat_of_int (int_of_string short); fl_errno = parse_errno e }) in
    let w = run_plan (parse_init init) (parse_prog prog) plan in
    let tr = String.concat " " (List.map (fun (o, r) ->
        show_op o ^ " =" ^ (match r with None -> "ok" | Some e -> show_errno e)) w.w_trace) in
    let er = String.concat " " (List.map (fun (k, p) -> show_kind k ^ " " ^ hex_of_bytes p) w.w_stderr) in
    tr ^ " / " ^ er ^ " / " ^ show_fs w.w_st.st_fs
  | [["snap"]; init; prog; cur] ->
    let i = (parse_init init).st_fs in
    (match first_bad i i (parse_prog prog) (parse_init cur).st_fs with
     | None -> "ok"
     | Some p -> "bad " ^ hex_of_bytes p)
  | [["foreign"]; init; prog; cur; [c]] ->
    (match foreign_bad (c = "1") (parse_init init).st_fs (parse_prog prog) (parse_init cur).st_fs with
     | None -> "ok"
     | Some p -> "bad " ^ hex_of_bytes p)
  | [["lfault"]; init; prog; plan] ->
    let plan = (match plan with
      | ["N"] -> PNone
      | ["F"; k; short; e] -> PFail (nat_of_int (int_of_string k), { fl_short = nat_of_int (int_of_string short); fl_errno = parse_errno e })
      | ["K"; k; n] -> PKill (nat_of_int (int_of_string k), nat_of_int (int_of_string n))
      | _ -> failwith "bad plan") in
    let w = lrun_plan (parse_init init) (parse_lprog prog) plan in
    let tr = String.concat " " (List.map (fun (o, r) ->
        show_op o ^ " =" ^ (match r with None -> "ok" | Some e -> show_errno e)) w.lw_trace) in
    let er = String.concat " " (List.map (fun (k, p) -> show_kind k ^ " " ^ hex_of_bytes p) w.lw_stderr) in
    tr ^ " / " ^ er ^ " / " ^ show_fs w.lw_st.st_fs
  | [["lunnamed"]; init; prog; cur] ->
    (match l_unnamed_changed (parse_init init).st_fs (parse_lprog prog) (parse_init cur).st_fs with
     | None -> "ok"
     | Some p -> "bad " ^ hex_of_bytes p)
  | ["errline"; k; p; d] :: [] ->
    let kind = (match k with "write" -> CannotWrite | "overwrite" -> CannotOverwrite | "chmod" -> CannotClearExec | _ -> failwith "bad kind") in
    let h = hex_of_bytes (error_line (kind, bytes_of_hex p) (bytes_of_hex d)) in
    if h = "" then "-" else h
  | [["tmpfree"]; init; prog] -> if tmp_freeb (parse_init init).st_fs (parse_prog prog) then "1" else "0"
  | _ -> "ERR:bad request"
let () = serve handle
