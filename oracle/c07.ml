(* C07 oracle: "ks <hex>..." -> sorted keys; "kj <hex>..." -> joined; "fe <hex>..." -> callback order
   pe <hexline>                         -> parse_entry_line: ignored | invalid | entry <5 hex fields>
   le <k> <k hex lines> <hex log lines> -> load_entries: <invalid count> <entries in map order: n:r:t:o:d;...> ("-" if none)
   au <z>                               -> hex of ansic_utc z
   cd <z days>                          -> y m d weekday days_from_civil
   lm <k> <k hex entries lines> <hex name> <none|z> -> is_locally_modified in two environments, and the local-time variant in both: 4 bits *)
let show l = if l = [] then "." else String.concat " " (List.map hex_of_bytes l)
let rec take k l = if k = 0 then [] else match l with [] -> [] | x :: r -> x :: take (k - 1) r
let rec drop k l = if k = 0 then l else match l with [] -> [] | _ :: r -> drop (k - 1) r
let show_entry (e : cvs_entry) =
  String.concat ":" (List.map hex_of_bytes [e.ce_name; e.ce_revision; e.ce_timestamp; e.ce_options; e.ce_tagdate])
let bit b = if b then "1" else "0"
let handle (args : string list) : string =
  match args with
  | "ks" :: ks -> show (keys_sorted_of (List.map bytes_of_hex ks))
  | "kj" :: ks -> hex_of_bytes (keys_joined_of (List.map bytes_of_hex ks))
  | "fe" :: ks -> show (for_each_of (List.map bytes_of_hex ks))
  | ["pe"; l] ->
    (match parse_entry_line (bytes_of_hex l) with
     | PrIgnored -> "ignored" | PrInvalid -> "invalid" | PrEntry e -> "entry " ^ show_entry e)
  | "le" :: k :: rest ->
    let k = int_of_string k in
    let ls = List.map bytes_of_hex rest in
    let (es, inv) = load_entries (take k ls) (drop k ls) in
    string_of_int (int_of_n inv) ^ " " ^ (if es = [] then "-" else String.concat ";" (List.map (fun (_, e) -> show_entry e) es))
  | ["au"; z] -> hex_of_bytes (ansic_utc (z_of_int (int_of_string z)))
  | ["cd"; z] ->
    let d = z_of_int (int_of_string z) in
    let ((y, m), dd) = civil_from_days d in
    String.concat " " [string_of_z y; string_of_z m; string_of_z dd; string_of_z (weekday_of_days d); string_of_z (days_from_civil ((y, m), dd))]
  | "lm" :: k :: rest ->
    let k = int_of_string k in
    let ls = List.map bytes_of_hex (take k rest) in
    (match drop k rest with
     | [name; st] ->
       let (es, _) = load_entries ls [] in
       let st = if st = "none" then None else Some (z_of_int (int_of_string st)) in
       let name = bytes_of_hex name in
       bit (is_locally_modified c07_env_utc es name st) ^ bit (is_locally_modified c07_env_other es name st)
       ^ bit (is_locally_modified_local c07_env_utc es name st) ^ bit (is_locally_modified_local c07_env_other es name st)
     | _ -> "ERR:bad lm request")
  | _ -> "ERR:bad request"
let () = serve handle
