(* C07 oracle: "ks <hex>..." -> sorted keys; "kj <hex>..." -> joined; "fe <hex>..." -> callback order *)
let show l = if l = [] then "." else String.concat " " (List.map hex_of_bytes l)
let handle (args : string list) : string =
  match args with
  | "ks" :: ks -> show (keys_sorted_of (List.map bytes_of_hex ks))
  | "kj" :: ks -> hex_of_bytes (keys_joined_of (List.map bytes_of_hex ks))
  | "fe" :: ks -> show (for_each_of (List.map bytes_of_hex ks))
  | _ -> "ERR:bad request"
let () = serve handle
