(* C20 oracle.
   request : run <d|s|a> <cap> <disk> <op> <op> ...
     disk  : k=hex,k=hex,...   or  -
     op    : L.<key>.<spelling>.<opts>
             X.<view>.<line>.A.<rawIndex>.<textIndex>.<from>.<to>     ReplaceAt
             X.<view>.<line>.R.<prefix>.<from>.<to>                   ReplaceAfter
             X.<view>.<line>.U.<text> | X.<view>.<line>.W.<text>      InsertAbove | InsertBelow
             X.<view>.<line>.D                                        Delete
             S.<view>   |  S.<view>.<key>+<key>...     save; writing the named files fails
             M.<key>.<hex>   |  M.<key>.~                             write | remove, then Evict
   answer  : one token per executed operation, then !index / !assert / !fatal if the run stopped
             L<guard>:<lines>:<fresh lines>   lines = nil | e | <lineno>,<text>,<raw>+<raw>,<fix>;...
             X:<acted>   B   S:<key>=<hex>;...   M
             every token is followed by @<coverage events of the model, see Extract/C20.v> *)
let split_on c s = String.split_on_char c s
let nat_of_string s = nat_of_int (int_of_string s)
let n_of_string s = n_of_int (int_of_string s)

let parse_disk (s : string) : (n * str) list =
  if s = "-" then [] else
  List.map (fun kv -> match split_on '=' kv with
      | [k; v] -> (n_of_string k, bytes_of_hex v)
      | _ -> failwith "bad disk") (split_on ',' s)

let parse_op (s : string) : op =
  match split_on '.' s with
  | ["L"; k; sp; o] -> OLoad ((n_of_string k, n_of_string sp), n_of_string o)
  | ["X"; v; i; "A"; ri; ti; f; t] ->
    OFix (nat_of_string v, nat_of_string i, FReplaceAt (nat_of_string ri, nat_of_string ti, bytes_of_hex f, bytes_of_hex t))
  | ["X"; v; i; "R"; p; f; t] ->
    OFix (nat_of_string v, nat_of_string i, FReplaceAfter (bytes_of_hex p, bytes_of_hex f, bytes_of_hex t))
  | ["X"; v; i; "U"; t] -> OFix (nat_of_string v, nat_of_string i, FInsertAbove (bytes_of_hex t))
  | ["X"; v; i; "W"; t] -> OFix (nat_of_string v, nat_of_string i, FInsertBelow (bytes_of_hex t))
  | ["X"; v; i; "D"] -> OFix (nat_of_string v, nat_of_string i, FDelete)
  | ["S"; v] -> OSave (nat_of_string v, [])
  | ["S"; v; fl] -> OSave (nat_of_string v, List.map n_of_string (split_on '+' fl))
  | ["M"; k; "~"] -> OModify (n_of_string k, None)
  | ["M"; k; c] -> OModify (n_of_string k, Some (bytes_of_hex c))
  | _ -> failwith ("bad op " ^ s)

let show_lines (r : lobs list option) : string =
  match r with
  | None -> "nil"
  | Some [] -> "e"
  | Some ls ->
    String.concat ";" (List.map (fun (((no, text), raw), fix) ->
        string_of_int (int_of_n no) ^ "," ^ hex_of_bytes text ^ "," ^
        String.concat "+" (List.map hex_of_bytes raw) ^ "," ^ (if fix then "1" else "0")) ls)

let show_obs (((g, fr), ob), ev) : string =
  (fun t -> t ^ "@" ^ string_of_int (int_of_n ev)) @@
  match ob with
  | ObsLoad r -> "L" ^ (if g then "1" else "0") ^ ":" ^ show_lines r ^ ":" ^ show_lines fr
  | ObsFix a -> "X:" ^ (if a then "1" else "0")
  | ObsSave w -> "S:" ^ String.concat ";" (List.map (fun (k, c) -> string_of_int (int_of_n k) ^ "=" ^ hex_of_bytes c) w)
  | ObsModify -> "M"
  | ObsBad -> "B"

let handle (args : string list) : string =
  match args with
  | "run" :: md :: cap :: disk :: ops ->
    let md = (match md with "d" -> ModeDefault | "s" -> ModeShowAutofix | "a" -> ModeAutofix | _ -> failwith "mode") in
    let (tr, w) = c20_run md (nat_of_string cap) (parse_disk disk) (List.map parse_op ops) in
    let toks = List.map show_obs tr in
    let toks = toks @ (match w with
        | None -> []
        | Some PanicIndex -> ["!index"] | Some PanicAssert -> ["!assert"] | Some Fatal -> ["!fatal"]) in
    String.concat " " toks
  | _ -> "ERR:bad request"
let () = serve handle
