(* C06log oracle (Logger part of C06): the same "logger" request as oracle/c08.ml, plus
   escape <hex> -> hex of escape_printable. *)
let b01 b = if b then "1" else "0"

(* ---------- Logger scripts ----------
   logger <6 option bits: showautofix autofix explain showsource gcc quiet> o<hex,hex..> <werror 0|1> <event>...
   line   = id/hexfile/lineno/hexraw,hexraw
   events = D:<line>:<E|W|N|A>:<hexformat>:<hexmsg>
            X:<hexlist>
            F:<line>:<hexlist>;<hexlist>;<hexlist>:<lv>:<hexformat>:<hexmsg>:<hexlist>:<hexdescr/lineno,...>
            S:<0|1>    T:<hexloc>:<hexmsg>    Y:<hexlist>
   answer = <panicked> <errors> <warnings> <notes> <explavail> <fixavail> <exit> <hexout> <hexerr> <emitted>;...
            emitted = <lv>/<hexfile>/<hexlinenos>/<hexmsg> *)
let hexlist (s : string) : n list list =
  if s = "" then [] else List.map bytes_of_hex (String.split_on_char ',' s)
let level_of = function "E" -> LError | "W" -> LWarn | "N" -> LNote | "A" -> LAutofix | _ -> failwith "level"
let level_name = function LError -> "E" | LWarn -> "W" | LNote -> "N" | LAutofix -> "A"
let line_of (s : string) : line =
  match String.split_on_char '/' s with
  | [id; f; ln; raws] -> { ln_id = n_of_int (int_of_string id); ln_file = bytes_of_hex f;
                           ln_lineno = z_of_int (int_of_string ln); ln_raws = hexlist raws }
  | _ -> failwith "line"
let event_of (s : string) : event =
  match String.split_on_char ':' s with
  | ["D"; ln; lv; f; m] -> EvDiag (line_of ln, level_of lv, bytes_of_hex f, bytes_of_hex m)
  | ["X"; e] -> EvExplain (hexlist e)
  | ["F"; ln; fv; lv; f; m; e; acts] ->
    let fv = (match String.split_on_char ';' fv with
        | [a; t; b] -> { fv_above = hexlist a; fv_texts = hexlist t; fv_below = hexlist b }
        | _ -> failwith "fixview") in
    let acts = if acts = "" then [] else List.map (fun a ->
        match String.split_on_char '/' a with
        | [d; n] -> (bytes_of_hex d, z_of_int (int_of_string n))
        | _ -> failwith "action") (String.split_on_char ',' acts) in
    EvFix (line_of ln, fv, level_of lv, bytes_of_hex f, bytes_of_hex m, hexlist e, acts)
  | ["S"; m] -> EvSaved (m = "1")
  | ["T"; loc; m] -> EvTechError (bytes_of_hex loc, bytes_of_hex m)
  | ["Y"; a] -> EvSummary (hexlist a)
  | _ -> failwith ("event " ^ s)
let opts_of (bits : string) (only : string) : opts =
  let b i = bits.[i] = '1' in
  { lo_show_autofix = b 0; lo_autofix = b 1; lo_explain = b 2; lo_show_source = b 3; lo_gcc = b 4; lo_quiet = b 5;
    lo_only = hexlist (String.sub only 1 (String.length only - 1)) }
let show_logger (werror : bool) (l : logger) : string =
  String.concat " " [ b01 l.l_panicked; string_of_int (int_of_n l.l_errors); string_of_int (int_of_n l.l_warnings);
                      string_of_int (int_of_n l.l_notes); b01 l.l_expl_avail; b01 l.l_fix_avail;
                      string_of_int (int_of_n (exit_status werror l));
                      hex_of_bytes l.l_out.sw_out; hex_of_bytes l.l_err.sw_out;
                      "e" ^ String.concat ";" (List.map (fun (((lv, f), ln), m) ->
                          String.concat "/" [level_name lv; hex_of_bytes f; hex_of_bytes ln; hex_of_bytes m]) l.l_emitted) ]

let handle (args : string list) : string =
  match args with
  | "logger" :: bits :: only :: werror :: evs ->
    show_logger (werror = "1") (log_run (opts_of bits only) (List.map event_of evs))
  | ["escape"; h] -> hex_of_bytes (escape_printable (bytes_of_hex h))
  | _ -> "ERR:bad request"
let () = serve handle
