(* C01 oracle.
   indent <0|1> <line>...   line = kind,no,guard,comment,cond,forvars
       kind 0..11 (KIf KIfdef KIfndef KIfmake KIfnmake KFor KElif KElse KEndif KEndfor KOther KNone)
       cond = N | C<v.v...>|<f.f...>     v = 2*id+mk      forvars = v.v...
     -> ok e=<expected>,u=<0|1>,L=<level;level...> ... closed=<no.no...>
        level = line:depth:args:guard:cvars:files   (bottom of the stack first)
     -> panic <site> | outoffuel
   sep <ev>...              ev = W<hex> | L<hex> | S | F
     -> ok <state> <hex out> <hex line> <disciplined> | panic <site> <disciplined>
   scope <names> <op>...    names = hex.hex...   op = D:<hexname>:<id>:<kind>:<op>:<hexvalue>
                                                     | F:<hexname>:<hexvalue> | U:<hexname>:<id>:<0|1>
     -> <step>|<step>...   step = obs;obs... (one per name)
        obs = mentioned,defined,definedSimilar,used,usedSimilar,atLoad,first,last,commented,firstUse,<hex value>,found,indet
   resolve <hasExpr 0|1> <ops of mklines.allVars | -> <ops of pkg.vars | -> <hex text>     ops = op+op+...
     -> ok <hex result> passes=<n> fuel=<n> budget=<n> | panic <site> | outoffuel
   defall <names> <ops of other | -> <ops of the target | ->      target.DefineAll(other)
     -> obs;obs... (one per name, in the target) | panic <site> *)
let ints_of (s : string) : int list =
  if s = "" then [] else List.map int_of_string (String.split_on_char '.' s)
let cvar_of (i : int) : cvar = { v_id = n_of_int (i / 2); v_mk = (i land 1 = 1) }
let kind_of (i : int) : dkind =
  match i with
  | 0 -> KIf | 1 -> KIfdef | 2 -> KIfndef | 3 -> KIfmake | 4 -> KIfnmake | 5 -> KFor
  | 6 -> KElif | 7 -> KElse | 8 -> KEndif | 9 -> KEndfor | 10 -> KOther | _ -> KNone
let dline_of (s : string) : dline =
  match String.split_on_char ',' s with
  | [k; no; g; c; cond; fv] ->
    let cond =
      if cond = "N" then None
      else begin
        let body = String.sub cond 1 (String.length cond - 1) in
        match String.split_on_char '|' body with
        | [vs; fs] -> Some (List.map cvar_of (ints_of vs), List.map n_of_int (ints_of fs))
        | _ -> failwith "bad cond"
      end in
    { d_kind = kind_of (int_of_string k); d_no = n_of_int (int_of_string no); d_cond = cond;
      d_guard = (g = "1"); d_forvars = List.map cvar_of (ints_of fv); d_comment = (c = "1") }
  | _ -> failwith "bad line"
let dots (l : n list) : string = String.concat "." (List.map (fun x -> string_of_int (int_of_n x)) l)
let level_str (l : level) : string =
  Printf.sprintf "%d:%s:%d:%d:%s:%s" (int_of_n l.l_line) (string_of_z l.l_depth) (int_of_n l.l_args)
    (if l.l_guard then 1 else 0) (dots l.l_cvars) (dots l.l_files)
let obs_str (o : obs) : string =
  Printf.sprintf "e=%s,u=%d,L=%s" (string_of_z o.o_expected) (if o.o_unmatched then 1 else 0)
    (String.concat ";" (List.map level_str (List.rev o.o_levels)))
let sep_event (s : string) : sw_event =
  let rest = String.sub s 1 (String.length s - 1) in
  match s.[0] with
  | 'W' -> EWrite (bytes_of_hex rest)
  | 'L' -> EWriteLine (bytes_of_hex rest)
  | 'S' -> ESeparate
  | 'F' -> EFlush
  | _ -> failwith "bad event"
let sop_of (s : string) : sop =
  match String.split_on_char ':' s with
  | ["D"; n; id; k; o; v] ->
    ODefine (bytes_of_hex n, { sl_id = n_of_int (int_of_string id); sl_kind = n_of_int (int_of_string k);
                               sl_op = n_of_int (int_of_string o); sl_value = bytes_of_hex v })
  | ["F"; n; v] -> OFallback (bytes_of_hex n, bytes_of_hex v)
  | ["U"; n; id; b] ->
    OUse (bytes_of_hex n, { sl_id = n_of_int (int_of_string id); sl_kind = n_of_int 2; sl_op = N0; sl_value = [] }, b = "1")
  | _ -> failwith "bad scope op"
let sops_of (s : string) : sop list =
  if s = "-" then [] else List.map sop_of (String.split_on_char '+' s)
let lid (o : sline option) : string = match o with None -> "0" | Some l -> string_of_int (int_of_n l.sl_id)
let b01 (b : bool) : string = if b then "1" else "0"
let sobs_str (o : sobs) : string =
  let ((v, found), indet) = o.ob_lvf in
  String.concat "," [lid o.ob_mentioned; b01 o.ob_defined; b01 o.ob_defined_similar; b01 o.ob_used; b01 o.ob_used_similar;
                     b01 o.ob_load; lid o.ob_first; lid o.ob_last; lid o.ob_commented; lid o.ob_first_use;
                     hex_of_bytes v; b01 found; b01 indet]
let handle (args : string list) : string =
  match args with
  | "indent" :: pk :: ls ->
    (match run (pk = "1") (List.map dline_of ls) with
     | Ok (os, closed) -> String.concat " " ("ok" :: List.map obs_str os) ^ " closed=" ^ dots closed
     | Panic s -> "panic " ^ string_of_int (int_of_n s)
     | OutOfFuel -> "outoffuel")
  | "sep" :: evs ->
    let evs = List.map sep_event evs in
    let d = if disciplined [] evs then "1" else "0" in
    (match sw_run evs with
     | Ok w -> Printf.sprintf "ok %d %s %s %s" (int_of_n w.sw_state) (hex_of_bytes w.sw_out) (hex_of_bytes w.sw_line) d
     | Panic s -> "panic " ^ string_of_int (int_of_n s) ^ " " ^ d
     | OutOfFuel -> "outoffuel")
  | "scope" :: names :: ops ->
    let names = List.map bytes_of_hex (String.split_on_char '.' names) in
    let tr = scope_trace [] (List.map sop_of ops) names in
    String.concat "|" (List.map (fun step -> String.concat ";" (List.map sobs_str step)) tr)
  | ["defall"; names; otherops; ops] ->
    let names = List.map bytes_of_hex (String.split_on_char '.' names) in
    (match sdefine_all (scope_run (sops_of ops)) (scope_run (sops_of otherops)) with
     | Ok st -> String.concat ";" (List.map (fun n -> sobs_str (observe st n)) names)
     | Panic s -> "panic " ^ string_of_int (int_of_n s)
     | OutOfFuel -> "outoffuel")
  | ["resolve"; he; allops; pkgops; text] ->
    let sc = scope_bindings (scope_run (sops_of allops)) @ scope_bindings (scope_run (sops_of pkgops)) in
    let text = bytes_of_hex text in
    (match resolve_exprs (he = "1") sc text with
     | Ok r -> Printf.sprintf "ok %s passes=%d fuel=%d budget=%d" (hex_of_bytes r)
                 (if he = "1" then int_of_nat (resolve_passes (resolve_fuel sc) sc [] text) else 0)
                 (int_of_nat (resolve_fuel sc)) (int_of_nat (value_budget sc))
     | Panic s -> "panic " ^ string_of_int (int_of_n s)
     | OutOfFuel -> "outoffuel")
  | _ -> "ERR:bad request"
let () = serve handle
