(* C01 oracle.
   indent <0|1> <line>...   line = kind,no,guard,comment,cond,forvars
       kind 0..11 (KIf KIfdef KIfndef KIfmake KIfnmake KFor KElif KElse KEndif KEndfor KOther KNone)
       cond = N | C<v.v...>|<f.f...>     v = 2*id+mk      forvars = v.v...
     -> ok e=<expected>,u=<0|1>,L=<level;level...> ... closed=<no.no...>
        level = line:depth:args:guard:cvars:files   (bottom of the stack first)
     -> panic <site> | outoffuel
   sep <ev>...              ev = W<hex> | L<hex> | S | F
     -> ok <state> <hex out> <hex line> <disciplined> | panic <site> <disciplined> *)
let ints_of (s : string) : int list =
  if s = "" then [] else List.map int_of_string (String.split_on_char '.' s)
let cvar_of (i : int) : cvar = { v_id = n_of_int (i / 2); v_mk = (i land 1 = 1) }
let kind_of (i : int) : dkind =
  match i with
  | 0 -> KIf | 1 -> KIfdef | 2 -> KIfndef | 3 -> KIfmake | 4 -> KIfnmake | 5 -> KFor
  | 6 -> KElif | 7 -> KElse | 8 -> KEndif | 9 -> KEndfor | 10 -> KOther | _ -> KNone
let dline_of (s : string) : dline =
  match String.split_on_char ',' s with
  | [k; no; g; c; cond; fv] ->
    let cond =
      if cond = "N" then None
      else begin
        let body = String.sub cond 1 (String.length cond - 1) in
        match String.split_on_char '|' body with
        | [vs; fs] -> Some (List.map cvar_of (ints_of vs), List.map n_of_int (ints_of fs))
        | _ -> failwith "bad cond"
      end in
    { d_kind = kind_of (int_of_string k); d_no = n_of_int (int_of_string no); d_cond = cond;
      d_guard = (g = "1"); d_forvars = List.map cvar_of (ints_of fv); d_comment = (c = "1") }
  | _ -> failwith "bad line"
let dots (l : n list) : string = String.concat "." (List.map (fun x -> string_of_int (int_of_n x)) l)
let level_str (l : level) : string =
  Printf.sprintf "%d:%s:%d:%d:%s:%s" (int_of_n l.l_line) (string_of_z l.l_depth) (int_of_n l.l_args)
    (if l.l_guard then 1 else 0) (dots l.l_cvars) (dots l.l_files)
let obs_str (o : obs) : string =
  Printf.sprintf "e=%s,u=%d,L=%s" (string_of_z o.o_expected) (if o.o_unmatched then 1 else 0)
    (String.concat ";" (List.map level_str (List.rev o.o_levels)))
let sep_event (s : string) : sw_event =
  let rest = String.sub s 1 (String.length s - 1) in
  match s.[0] with
  | 'W' -> EWrite (bytes_of_hex rest)
  | 'L' -> EWriteLine (bytes_of_hex rest)
  | 'S' -> ESeparate
  | 'F' -> EFlush
  | _ -> failwith "bad event"
let handle (args : string list) : string =
  match args with
  | "indent" :: pk :: ls ->
    (match run (pk = "1") (List.map dline_of ls) with
     | Ok (os, closed) -> String.concat " " ("ok" :: List.map obs_str os) ^ " closed=" ^ dots closed
     | Panic s -> "panic " ^ string_of_int (int_of_n s)
     | OutOfFuel -> "outoffuel")
  | "sep" :: evs ->
    let evs = List.map sep_event evs in
    let d = if disciplined [] evs then "1" else "0" in
    (match sw_run evs with
     | Ok w -> Printf.sprintf "ok %d %s %s %s" (int_of_n w.sw_state) (hex_of_bytes w.sw_out) (hex_of_bytes w.sw_line) d
     | Panic s -> "panic " ^ string_of_int (int_of_n s) ^ " " ^ d
     | OutOfFuel -> "outoffuel")
  | _ -> "ERR:bad request"
let () = serve handle
