(* C10mk oracle.
   "all <hex>"        -> the sections  mt= ex= vn= tk= tl= uc= s1= s0= v1= v0= va=  (space separated)
   "ra <raw> <parsed>" -> getRawValueAlign
   "uh <hex>"         -> Spec unescape_hash
   In every section: P = the Go code panics, F = the model ran out of fuel. *)
let hx = hex_of_bytes
let show_res (f : 'a -> string) (r : 'a res) : string =
  match r with Ok a -> f a | OutOfFuel -> "F" | Panic -> "P"
let show_tokens (toks : (n list * bool) list) : string =
  String.concat "," (List.map (fun (t, e) -> (if e then "E" else "T") ^ hx t) toks)
let b01 b = if b then "1" else "0"
let show_split (r : split_result) : string =
  String.concat ";" [hx r.sr_main; hx r.sr_space_before_comment; b01 r.sr_has_comment; hx r.sr_comment]
let show_parts (p : varalign_parts) : string =
  String.concat ";" [hx p.vp_leading_comment; hx p.vp_varname_op; hx p.vp_space_before_value;
                     hx p.vp_value; hx p.vp_space_after_value; hx p.vp_continuation]
let show_va (o : varassign option) : string =
  match o with
  | None -> "N"
  | Some a -> String.concat ";" ["M"; b01 a.va_commented; hx a.va_varname; hx a.va_space_after_varname;
                                 hx a.va_op; hx a.va_value; show_split a.va_split; hx a.va_value_align]
let handle (args : string list) : string =
  match args with
  | ["ml"; h] ->
    (* every logical line: <text>:<number of raw lines>:<va section>, joined by "|"; "E" = no line *)
    show_res (fun ls ->
        if ls = [] then "E" else
        String.concat "|" (List.map (fun ((t, n), r) ->
          hx t ^ ":" ^ string_of_int (int_of_nat n) ^ ":" ^ show_res show_va r) ls))
      (c10_varassign_file (bytes_of_hex h))
  | ["all"; h] ->
    let s = bytes_of_hex h in
    String.concat " " [
      "mt=" ^ show_res (fun (toks, rest) -> show_tokens toks ^ ";" ^ hx rest) (c10_mktokens s);
      "ex=" ^ show_res (fun o -> match o with None -> "N" | Some r -> "S" ^ hx r) (c10_expr s);
      "vn=" ^ show_res (fun (v, r) -> hx v ^ ";" ^ hx r) (c10_varname s);
      "tk=" ^ show_res show_tokens (c10_tokenize s);
      "tl=" ^ show_res (fun (r0, (ps, r1)) -> hx r0 ^ ";" ^ show_tokens ps ^ ";" ^ hx r1) (c10_tokenslexer s);
      "uc=" ^ show_res (fun (m, c) -> hx m ^ ";" ^ hx c) (c10_unescape_comment s);
      "s1=" ^ show_res show_split (c10_split s true);
      "s0=" ^ show_res show_split (c10_split s false);
      "v1=" ^ show_res show_parts (c10_varalign s true);
      "v0=" ^ show_res show_parts (c10_varalign s false);
      "va=" ^ show_res (fun o -> match o with
          | None -> "N"
          | Some a -> String.concat ";" ["M"; b01 a.va_commented; hx a.va_varname; hx a.va_space_after_varname;
                                         hx a.va_op; hx a.va_value; show_split a.va_split; hx a.va_value_align])
        (c10_varassign s) ]
  | ["ra"; r; p] -> show_res hx (c10_raw_value_align (bytes_of_hex r) (bytes_of_hex p))
  | ["uh"; h] -> hx (c10_unescape_hash (bytes_of_hex h))
  | _ -> "ERR:bad request"
let () = serve handle
