(* C15 oracle.  Requests (strings hex-encoded, "-" = empty):
     twa <w> <s>            -> <n> | P         tabWidthAppend
     atw <a> <b>            -> <s> | P         alignmentToWidths
     ind <a>                -> <s> | P         indent
     aa <s> <w>             -> <s> | P         alignmentAfter
     aw <s> <t>             -> <s> | P         alignWith
     file <n> { <kind> <nraw> { <text> <lc> <vo> <sbv> <val> <sav> <cont> } }
                            -> ok <nactions> <raw line>... | P
        kind: E | N | O | A<evalOp><lowerName><valueEmpty><hasComment>  (bits 0/1)
     trim <n> <raw>...      -> ok <raw>... | P
     dir <stmtsNil 0|1> <raw0> <indent> <depth>  -> <s> | P
     shell <0|1> <n> <raw>...     -> ok <raw>... | P
     sav <n> <raw>... <varname> <space> <op> <lc> <vo> <sbv> <val> <sav> <cont> -> ok <raw>... | P
     optw <n> { <lc> <vo> <sbv> <val> <sav> <cont> }  -> <n>   optimalWidth of first lines *)
let opt_str o = match o with Some s -> hex_of_bytes s | None -> "P"
let rec take_parts l = match l with
  | a :: b :: c :: d :: e :: f :: rest ->
    ({ lc = bytes_of_hex a; vo = bytes_of_hex b; sbv = bytes_of_hex c; val0 = bytes_of_hex d;
       sav = bytes_of_hex e; cont = bytes_of_hex f }, rest)
  | _ -> failwith "parts"
let rec take_infos n l acc =
  if n = 0 then (List.rev acc, l) else
    match l with
    | t :: rest -> let (p, rest') = take_parts rest in
      take_infos (n - 1) rest' (mk_info (bytes_of_hex t) p :: acc)
    | [] -> failwith "infos"
let kind_of s =
  if s = "E" then KEmpty else if s = "N" then KNeutral else if s = "O" then KOther
  else if String.length s = 5 && s.[0] = 'A' then
    KAssign (s.[1] = '1', s.[2] = '1', s.[3] = '1', s.[4] = '1')
  else failwith "kind"
let rec take_flines n l acc =
  if n = 0 then (List.rev acc, l) else
    match l with
    | k :: nraw :: rest ->
      let (infos, rest') = take_infos (int_of_string nraw) rest [] in
      take_flines (n - 1) rest' ({ fkind = kind_of k; finfos = infos } :: acc)
    | _ -> failwith "flines"
let rec take_n n l acc = if n = 0 then (List.rev acc, l) else
    match l with x :: r -> take_n (n - 1) r (bytes_of_hex x :: acc) | [] -> failwith "take_n"
let ok_lines ls = String.concat " " ("ok" :: List.map hex_of_bytes ls)
let handle (args : string list) : string =
  match args with
  | ["twa"; w; s] ->
    (match tabWidthAppend (z_of_int (int_of_string w)) (bytes_of_hex s) with Some n -> string_of_z n | None -> "P")
  | ["atw"; a; b] -> opt_str (alignmentToWidths (z_of_int (int_of_string a)) (z_of_int (int_of_string b)))
  | ["ind"; a] -> opt_str (indent (z_of_int (int_of_string a)))
  | ["aa"; s; w] -> opt_str (alignmentAfter (bytes_of_hex s) (z_of_int (int_of_string w)))
  | ["aw"; s; t] -> opt_str (alignWith (bytes_of_hex s) (bytes_of_hex t))
  | "file" :: n :: rest ->
    let (fl, _) = take_flines (int_of_string n) rest [] in
    (match process_file fl [] false with
     | Panic -> "P"
     | Ok out ->
       let infos = List.concat (List.map (fun f -> f.finfos) out) in
       let nact = List.fold_left (fun a i -> a + List.length i.log) 0 infos in
       String.concat " " ("ok" :: string_of_int nact :: List.map (fun i -> hex_of_bytes i.text) infos))
  | "optw" :: n :: rest ->
    let rec go n l acc = if n = 0 then List.rev acc else let (p, r) = take_parts l in go (n - 1) r (p :: acc) in
    string_of_z (optimalWidth (go (int_of_string n) rest []))
  | "trim" :: n :: rest ->
    let (ls, _) = take_n (int_of_string n) rest [] in
    (match checkTrailingWhitespace ls with Panic -> "P" | Ok o -> ok_lines o)
  | ["dir"; sn; r0; ind; d] ->
    (match checkDirectiveIndentation (sn = "1") (bytes_of_hex r0) (bytes_of_hex ind) (z_of_int (int_of_string d)) with
     | Panic -> "P" | Ok s -> hex_of_bytes s)
  | "shell" :: flag :: n :: rest ->
    let (ls, _) = take_n (int_of_string n) rest [] in
    (match shellTabs (flag = "1") ls with Panic -> "P" | Ok o -> ok_lines o)
  | "sav" :: n :: rest ->
    let (ls, rest') = take_n (int_of_string n) rest [] in
    (match rest' with
     | vn :: sp :: op :: prest ->
       let (p, _) = take_parts prest in
       (match fixSpaceAfterVarname ls (bytes_of_hex vn) (bytes_of_hex sp) (bytes_of_hex op) p with
        | Panic -> "P" | Ok o -> ok_lines o)
     | _ -> "ERR:sav")
  | _ -> "ERR:bad request"
let () = serve handle
