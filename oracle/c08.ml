(* C08 oracle.
   table <gen|doc|test>                 -> the option table, one field list per option
   parse <gen|test> <hexarg0> <hexarg1>... -> "<status> <settings> <remaining>"
     status   = ok | err:unknownlong | err:ambiguous:<hexlong>:<hexlong> | err:invalidarg:<hexlong>
              | err:requiresarg:<short>:<hexlong> | err:unknownshort:<rune> | err:unknownflag:<hexlong>:<hexflag>
              | panic | fuel
     settings = one value per table entry joined by ';': b0 b1 | s<hex> | l<hex>,<hex> | g0101
     remaining= r<hex>,<hex>...
   logger requests: see below (logger <opts> <events...>) *)
let table_of = function
  | "gen" -> option_table
  | "test" -> test_table
  | _ -> failwith "unknown table"

let kind_name = function KBool -> "bool" | KStr -> "str" | KList -> "list" | KGroup -> "group"
let b01 b = if b then "1" else "0"

let show_table (t : odecl list) : string =
  String.concat "|" (List.map (fun o ->
      String.concat ":" [ string_of_int (int_of_n o.o_short); hex_of_bytes o.o_long; kind_name o.o_kind;
                          b01 o.o_def; hex_of_bytes o.o_defs; hex_of_bytes o.o_target;
                          String.concat "," (List.map (fun f ->
                              String.concat "/" [hex_of_bytes f.gf_name; b01 f.gf_all; b01 f.gf_def; hex_of_bytes f.gf_target]) o.o_flags) ]) t)

let show_doc (t : doc_option list) : string =
  String.concat "|" (List.map (fun ((((sh, lg), k), d), fl) ->
      String.concat ":" [ string_of_int (int_of_n sh); hex_of_bytes lg; kind_name k; b01 d; "-"; "-";
                          String.concat "," (List.map (fun ((n, a), df) ->
                              String.concat "/" [hex_of_bytes n; b01 a; b01 df; "-"]) fl) ]) t)

let show_value = function
  | VBool b -> "b" ^ b01 b
  | VStr s -> "s" ^ hex_of_bytes s
  | VList l -> "l" ^ String.concat "," (List.map hex_of_bytes l)
  | VGroup bs -> "g" ^ String.concat "" (List.map b01 bs)
let show_settings st = if st = [] then "-" else String.concat ";" (List.map show_value st)
let show_rem rem = "r" ^ String.concat "," (List.map hex_of_bytes rem)

let rec nth_opt l i = match l with [] -> None | x :: r -> if i = 0 then Some x else nth_opt r (i - 1)
let long_of t i = match nth_opt t (int_of_nat i) with Some o -> hex_of_bytes o.o_long | None -> "?"
let short_of t i = match nth_opt t (int_of_nat i) with Some o -> string_of_int (int_of_n o.o_short) | None -> "?"

let show_error t = function
  | EUnknownLong -> "err:unknownlong"
  | EAmbiguous (i, j) -> "err:ambiguous:" ^ long_of t i ^ ":" ^ long_of t j
  | EInvalidArg i -> "err:invalidarg:" ^ long_of t i
  | ERequiresArg i -> "err:requiresarg:" ^ short_of t i ^ ":" ^ long_of t i
  | EUnknownShort r -> "err:unknownshort:" ^ string_of_int (int_of_n r)
  | EUnknownFlag (i, f) -> "err:unknownflag:" ^ long_of t i ^ ":" ^ hex_of_bytes f

let show_result t = function
  | ROk (st, rem) -> "ok " ^ show_settings st ^ " " ^ show_rem rem
  | RErr (st, rem, e) -> show_error t e ^ " " ^ show_settings st ^ " " ^ show_rem rem
  | RPanic -> "panic - -"
  | ROutOfFuel -> "fuel - -"

let handle (args : string list) : string =
  match args with
  | ["table"; "doc"] -> show_doc documented_options
  | ["table"; w] -> show_table (table_of w)
  | "parse" :: w :: argv ->
    let t = table_of w in
    show_result t (parse t (List.map bytes_of_hex argv))
  | _ -> "ERR:bad request"
let () = serve handle
