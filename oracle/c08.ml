(* C08 oracle.
   table <gen|doc|test>                 -> the option table, one field list per option
   parse <gen|test> <hexarg0> <hexarg1>... -> "<status> <settings> <remaining>"
     status   = ok | err:unknownlong | err:ambiguous:<hexlong>:<hexlong> | err:invalidarg:<hexlong>
              | err:requiresarg:<short>:<hexlong> | err:unknownshort:<rune> | err:unknownflag:<hexlong>:<hexflag>
              | panic | fuel
     settings = one value per table entry joined by ';': b0 b1 | s<hex> | l<hex>,<hex> | g0101
     remaining= r<hex>,<hex>...
   logger requests: see below (logger <opts> <events...>) *)
let table_of = function
  | "gen" -> option_table
  | "test" -> test_table
  | _ -> failwith "unknown table"

let kind_name = function KBool -> "bool" | KStr -> "str" | KList -> "list" | KGroup -> "group"
let b01 b = if b then "1" else "0"

let show_table (t : odecl list) : string =
  String.concat "|" (List.map (fun o ->
      String.concat ":" [ string_of_int (int_of_n o.o_short); hex_of_bytes o.o_long; kind_name o.o_kind;
                          b01 o.o_def; hex_of_bytes o.o_defs; hex_of_bytes o.o_target;
                          String.concat "," (List.map (fun f ->
                              String.concat "/" [hex_of_bytes f.gf_name; b01 f.gf_all; b01 f.gf_def; hex_of_bytes f.gf_target]) o.o_flags) ]) t)

let show_doc (t : doc_option list) : string =
  String.concat "|" (List.map (fun ((((sh, lg), k), d), fl) ->
      String.concat ":" [ string_of_int (int_of_n sh); hex_of_bytes lg; kind_name k; b01 d; "-"; "-";
                          String.concat "," (List.map (fun ((n, a), df) ->
                              String.concat "/" [hex_of_bytes n; b01 a; b01 df; "-"]) fl) ]) t)

let show_value = function
  | VBool b -> "b" ^ b01 b
  | VStr s -> "s" ^ hex_of_bytes s
  | VList l -> "l" ^ String.concat "," (List.map hex_of_bytes l)
  | VGroup bs -> "g" ^ String.concat "" (List.map b01 bs)
let show_settings st = if st = [] then "-" else String.concat ";" (List.map show_value st)
let show_rem rem = "r" ^ String.concat "," (List.map hex_of_bytes rem)

let rec nth_opt l i = match l with [] -> None | x :: r -> if i = 0 then Some x else nth_opt r (i - 1)
let long_of t i = match nth_opt t (int_of_nat i) with Some o -> hex_of_bytes o.o_long | None -> "?"
let short_of t i = match nth_opt t (int_of_nat i) with Some o -> string_of_int (int_of_n o.o_short) | None -> "?"

let show_error t = function
  | EUnknownLong -> "err:unknownlong"
  | EAmbiguous (i, j) -> "err:ambiguous:" ^ long_of t i ^ ":" ^ long_of t j
  | EInvalidArg i -> "err:invalidarg:" ^ long_of t i
  | ERequiresArg i -> "err:requiresarg:" ^ short_of t i ^ ":" ^ long_of t i
  | EUnknownShort r -> "err:unknownshort:" ^ string_of_int (int_of_n r)
  | EUnknownFlag (i, f) -> "err:unknownflag:" ^ long_of t i ^ ":" ^ hex_of_bytes f

let show_result t = function
  | ROk (st, rem) -> "ok " ^ show_settings st ^ " " ^ show_rem rem
  | RErr (st, rem, e) -> show_error t e ^ " " ^ show_settings st ^ " " ^ show_rem rem
  | RPanic -> "panic - -"
  | ROutOfFuel -> "fuel - -"

(* ---------- Logger scripts ----------
   logger <6 option bits: showautofix autofix explain showsource gcc quiet> o<hex,hex..> <werror 0|1> <event>...
   line   = id/hexfile/lineno/hexraw,hexraw
   events = D:<line>:<E|W|N|A>:<hexformat>:<hexmsg>
            X:<hexlist>
            F:<line>:<hexlist>;<hexlist>;<hexlist>:<lv>:<hexformat>:<hexmsg>:<hexlist>:<hexdescr/lineno,...>
            S:<0|1>    T:<hexloc>:<hexmsg>    Y:<hexlist>
   answer = <panicked> <errors> <warnings> <notes> <explavail> <fixavail> <exit> <hexout> <hexerr> <emitted>;...
            emitted = <lv>/<hexfile>/<hexlinenos>/<hexmsg> *)
let hexlist (s : string) : n list list =
  if s = "" then [] else List.map bytes_of_hex (String.split_on_char ',' s)
let level_of = function "E" -> LError | "W" -> LWarn | "N" -> LNote | "A" -> LAutofix | _ -> failwith "level"
let level_name = function LError -> "E" | LWarn -> "W" | LNote -> "N" | LAutofix -> "A"
let line_of (s : string) : line =
  match String.split_on_char '/' s with
  | [id; f; ln; raws] -> { ln_id = n_of_int (int_of_string id); ln_file = bytes_of_hex f;
                           ln_lineno = z_of_int (int_of_string ln); ln_raws = hexlist raws }
  | _ -> failwith "line"
let event_of (s : string) : event =
  match String.split_on_char ':' s with
  | ["D"; ln; lv; f; m] -> EvDiag (line_of ln, level_of lv, bytes_of_hex f, bytes_of_hex m)
  | ["X"; e] -> EvExplain (hexlist e)
  | ["F"; ln; fv; lv; f; m; e; acts] ->
    let fv = (match String.split_on_char ';' fv with
        | [a; t; b] -> { fv_above = hexlist a; fv_texts = hexlist t; fv_below = hexlist b }
        | _ -> failwith "fixview") in
    let acts = if acts = "" then [] else List.map (fun a ->
        match String.split_on_char '/' a with
        | [d; n] -> (bytes_of_hex d, z_of_int (int_of_string n))
        | _ -> failwith "action") (String.split_on_char ',' acts) in
    EvFix (line_of ln, fv, level_of lv, bytes_of_hex f, bytes_of_hex m, hexlist e, acts)
  | ["S"; m] -> EvSaved (m = "1")
  | ["T"; loc; m] -> EvTechError (bytes_of_hex loc, bytes_of_hex m)
  | ["Y"; a] -> EvSummary (hexlist a)
  | _ -> failwith ("event " ^ s)
let opts_of (bits : string) (only : string) : opts =
  let b i = bits.[i] = '1' in
  { lo_show_autofix = b 0; lo_autofix = b 1; lo_explain = b 2; lo_show_source = b 3; lo_gcc = b 4; lo_quiet = b 5;
    lo_only = hexlist (String.sub only 1 (String.length only - 1)) }
let show_logger (werror : bool) (l : logger) : string =
  String.concat " " [ b01 l.l_panicked; string_of_int (int_of_n l.l_errors); string_of_int (int_of_n l.l_warnings);
                      string_of_int (int_of_n l.l_notes); b01 l.l_expl_avail; b01 l.l_fix_avail;
                      string_of_int (int_of_n (exit_status werror l));
                      hex_of_bytes l.l_out.sw_out; hex_of_bytes l.l_err.sw_out;
                      "e" ^ String.concat ";" (List.map (fun (((lv, f), ln), m) ->
                          String.concat "/" [level_name lv; hex_of_bytes f; hex_of_bytes ln; hex_of_bytes m]) l.l_emitted) ]

let handle (args : string list) : string =
  match args with
  | "logger" :: bits :: only :: werror :: evs ->
    show_logger (werror = "1") (log_run (opts_of bits only) (List.map event_of evs))
  | ["escape"; h] -> hex_of_bytes (escape_printable (bytes_of_hex h))
  | ["table"; "doc"] -> show_doc documented_options
  | ["table"; w] -> show_table (table_of w)
  | "parse" :: w :: argv ->
    let t = table_of w in
    show_result t (parse t (List.map bytes_of_hex argv))
  | _ -> "ERR:bad request"
let () = serve handle
