(* C04 oracle: one script per line.
   run <show> <fix> <nonly> only... <nlines> (file lineno text nraw raw...)... <nev> event...
   event: D line lv format msg | X | F line lv format msg expl nops op... | S | M
   op:    RA prefix from to | RT raw idx from to | IA t | IB t | DL | DS raw msg
   answer: panic|items|autofixAvail|explAvail|e w n|lines *)
let lvl = function "E" -> Error | "W" -> Warn | _ -> Note
let lvl_s = function Error -> "E" | Warn -> "W" | Note -> "N"
let b = bytes_of_hex
let h = hex_of_bytes
let hl (l : n list list) = string_of_int (List.length l) ^ (String.concat "" (List.map (fun x -> "," ^ h x) l))
let rec take k toks = if k = 0 then ([], toks) else
  match toks with [] -> failwith "short" | x :: r -> let (a, r') = take (k-1) r in (x :: a, r')
let rec parse_n k f toks = if k = 0 then ([], toks) else
  let (x, r) = f toks in let (xs, r') = parse_n (k-1) f r in (x :: xs, r')
let parse_line toks = match toks with
  | file :: lineno :: text :: nraw :: r ->
    let (raws, r') = take (int_of_string nraw) r in
    (mk_line (b file) (n_of_int (int_of_string lineno)) (b text) (List.map b raws), r')
  | _ -> failwith "line"
let parse_op toks = match toks with
  | "RA" :: p :: f :: t :: r -> (OReplaceAfter (b p, b f, b t), r)
  | "RT" :: ri :: ti :: f :: t :: r -> (OReplaceAt (n_of_int (int_of_string ri), n_of_int (int_of_string ti), b f, b t), r)
  | "IA" :: t :: r -> (OInsertAbove (b t), r)
  | "IB" :: t :: r -> (OInsertBelow (b t), r)
  | "DL" :: r -> (ODelete, r)
  | "DS" :: ri :: m :: r -> (ODescribe (n_of_int (int_of_string ri), b m), r)
  | _ -> failwith "op"
let parse_event toks = match toks with
  | "D" :: line :: lv :: f :: m :: r -> (EDiag (nat_of_int (int_of_string line), lvl lv, b f, b m), r)
  | "X" :: r -> (EExplain, r)
  | "F" :: line :: lv :: f :: m :: ex :: nops :: r ->
    let (ops, r') = parse_n (int_of_string nops) parse_op r in
    (EFix (nat_of_int (int_of_string line), lvl lv, b f, b m, ex = "1", ops), r')
  | "S" :: r -> (ESave, r)
  | "M" :: r -> (ESummary, r)
  | _ -> failwith "event"
let adesc_s = function
  | AReplace (f, t) -> "R." ^ h f ^ "." ^ h t
  | AInsertAbove t -> "IA." ^ h t ^ ".-"
  | AInsertBelow t -> "IB." ^ h t ^ ".-"
  | ADelete -> "DL.-.-"
  | ACustom m -> "C." ^ h m ^ ".-"
let item_s = function
  | IDiag (lv, file, (l1, l2), msg) -> "D." ^ lvl_s lv ^ "." ^ h file ^ "." ^ string_of_int (int_of_n l1) ^ "." ^ string_of_int (int_of_n l2) ^ "." ^ h msg
  | IFix (file, ln, d) -> "A." ^ h file ^ "." ^ string_of_int (int_of_n ln) ^ "." ^ adesc_s d
  | ISummary (e, w, n) -> "S." ^ string_of_int (int_of_n e) ^ "." ^ string_of_int (int_of_n w) ^ "." ^ string_of_int (int_of_n n)
  | IHintExplain -> "HE" | IHintShow -> "HS" | IHintFix -> "HF"
let bs x = if x then "1" else "0"
let line_s l = hl l.l_texts ^ ";" ^ h l.l_text ^ ";" ^ hl l.l_above ^ ";" ^ hl l.l_below ^ ";" ^ bs l.l_modified
let handle (args : string list) : string =
  match args with
  | "run" :: show :: fix :: nonly :: r ->
    let (only, r) = take (int_of_string nonly) r in
    (match r with
     | nlines :: r ->
       let (ls, r) = parse_n (int_of_string nlines) parse_line r in
       (match r with
        | nev :: r ->
          let (evs, _) = parse_n (int_of_string nev) parse_event r in
          let st = run_script { m_show = (show = "1"); m_fix = (fix = "1") } (List.map b only) ls evs in
          let g = st.s_lg in
          bs st.s_panic ^ "|" ^ String.concat " " (List.map item_s g.g_out) ^ "|" ^ bs g.g_autofixAvail ^ "|" ^ bs g.g_explAvail
          ^ "|" ^ string_of_int (int_of_n g.g_errors) ^ " " ^ string_of_int (int_of_n g.g_warnings) ^ " " ^ string_of_int (int_of_n g.g_notes)
          ^ "|" ^ String.concat "/" (List.map line_s st.s_lines)
        | _ -> "ERR:events")
     | _ -> "ERR:lines")
  (* para <show> <fix> <nlines> text... <nfix> (line from to)...
     answer: <Finish goes on 0/1>|texts of the lines when Finish is called *)
  | "para" :: show :: fix :: nlines :: r ->
    let (ts, r) = take (int_of_string nlines) r in
    (match r with
     | nfix :: r ->
       let (fs, _) = parse_n (int_of_string nfix) (fun toks -> match toks with
         | i :: f :: t :: r -> ((nat_of_int (int_of_string i), (b f, b t)), r)
         | _ -> failwith "fix") r in
       let (go, texts) = para_decision { m_show = (show = "1"); m_fix = (fix = "1") } (List.map b ts) fs in
       bs go ^ "|" ^ String.concat "/" (List.map hl texts)
     | _ -> "ERR:fixes")
  | _ -> "ERR:bad request"
let () = serve handle
