(* C02 oracle: "paths <autofix 0|1> <hexfile> <modified 0|1>" -> the paths the model's save touches *)
let handle (args : string list) : string =
  match args with
  | ["paths"; a; f; m] ->
    String.concat "," (List.map hex_of_bytes (save_paths (a = "1") (bytes_of_hex f) (m = "1")))
  | _ -> "ERR:bad request"
let () = serve handle
