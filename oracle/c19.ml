(* C19 oracle.  Strings are hex ("-" = empty); lists of strings are joined by ",".
   ops  <p> <implClean> <implCleanDot> <implCleanPath>
        -> <parts> <dir> <isabs> <clean> <cleandot> <cleanpath> <den>
           den = 3 digits, one per impl result (Clean, CleanDot, CleanPath): 1 iff
           the result denotes the same as p under both test working directories
   row  <p> <q1> ... <qn>
        -> n characters, chr(48 + bits): bit0 model HasPrefixPath(p,q), bit1 model
           ContainsPath, bit2 model HasSuffixPath, bit3 spec prefix, bit4 spec infix,
           bit5 spec suffix (components q against components p)
   rel  <base> <targ>        -> ok:<hex> | err | hang          (filepath.Rel)
   prel <p> <other>          -> ok:<hex> | panic | hang        (Path.Rel)
   relpath <cwd> <top> <from> <to> <impl: ok:<hex>|panic>
        -> <branch> <model result> <inside> <model denotes> <impl denotes>
   linerel <cwd> <top> <filename> <other> <impl Dir(filename)> <impl>
        -> <model result> <inside(impl dir)> <impl denotes, from the impl dir>
   comps <p> -> spec components;  den <cwd> <p> -> spec denotation *)
let b2s b = if b then "1" else "0"
let hexlist l = if l = [] then "~" else String.concat "," (List.map hex_of_bytes l)
let string_of_res r = match r with Ok s -> "ok:" ^ hex_of_bytes s | Panic -> "panic" | Hang -> "hang"
let res_of_string s : res option =
  if s = "panic" then Some Panic
  else if String.length s >= 3 && String.sub s 0 3 = "ok:" then
    Some (Ok (bytes_of_hex (String.sub s 3 (String.length s - 3))))
  else None
let cwd1 = bytes_of_hex "2f"                       (* "/" *)
let cwd2 = bytes_of_hex "2f612f622f706b67"         (* "/a/b/pkg" *)
let same_both p q = s_same cwd1 p q && s_same cwd2 p q
let denotes_target cwd from r to_ =
  match r with
  | Ok rel -> s_same cwd (s_join from rel) to_
  | _ -> false

let handle (args : string list) : string =
  match args with
  | ["ops"; p; ic; icd; icp] ->
    let p = bytes_of_hex p in
    String.concat " " [
      hexlist (m_parts p); hex_of_bytes (m_dir p); b2s (m_is_abs p);
      hex_of_bytes (m_clean p); hex_of_bytes (m_clean_dot p); hex_of_bytes (m_clean_path p);
      b2s (same_both p (bytes_of_hex ic)) ^ b2s (same_both p (bytes_of_hex icd)) ^ b2s (same_both p (bytes_of_hex icp)) ]
  | "row" :: p :: qs ->
    let p = bytes_of_hex p in
    let buf = Buffer.create 2048 in
    List.iter (fun q ->
        let q = bytes_of_hex q in
        let bit b k = if b then 1 lsl k else 0 in
        let v = bit (m_has_prefix_path p q) 0 + bit (m_contains_path p q) 1 + bit (m_has_suffix_path p q) 2
                + bit (s_prefix q p) 3 + bit (s_infix q p) 4 + bit (s_suffix q p) 5 in
        Buffer.add_char buf (Char.chr (48 + v))) qs;
    Buffer.contents buf
  | ["rel"; b; t] ->
    (match m_rel_go (bytes_of_hex b) (bytes_of_hex t) with
     | RelOk s -> "ok:" ^ hex_of_bytes s | RelErr -> "err" | RelHang -> "hang")
  | ["prel"; b; t] -> string_of_res (m_path_rel (bytes_of_hex b) (bytes_of_hex t))
  | ["relpath"; cwd; top; from; to_; impl] ->
    let cwd = bytes_of_hex cwd and top = bytes_of_hex top and from = bytes_of_hex from and to_ = bytes_of_hex to_ in
    let (br, r) = m_relpath_b cwd top from to_ in
    let ins = s_inside cwd top from in
    let impl_ok = (match res_of_string impl with Some r -> denotes_target cwd from r to_ | None -> false) in
    String.concat " " [ string_of_int (int_of_nat br); string_of_res r; b2s ins;
                        b2s (denotes_target cwd from r to_); b2s impl_ok ]
  | ["linerel"; cwd; top; fn; other; impldir; impl] ->
    let cwd = bytes_of_hex cwd and top = bytes_of_hex top and fn = bytes_of_hex fn and other = bytes_of_hex other in
    let r = m_line_rel cwd top fn other in
    let from = bytes_of_hex impldir in
    let impl_ok = (match res_of_string impl with Some r -> denotes_target cwd from r other | None -> false) in
    String.concat " " [ string_of_res r; b2s (s_inside cwd top from); b2s impl_ok ]
  | ["comps"; p] -> hexlist (s_components (bytes_of_hex p))
  | ["den"; cwd; p] -> hexlist (s_denote (bytes_of_hex cwd) (bytes_of_hex p))
  | _ -> "ERR:bad request"
let () = serve handle
