(* C06run oracle.
   cl <gcc 0|1> <hexline>                         -> one line kind with its fields
   acc <gcc> <nosummary> <werror> <exit> <hex>... -> "<clause> <errors> <warnings> <notes>" (clause 0 = holds)
   ps <e> <w> <n>                                  -> hex of print_summary; "pp <hex>" -> parse_summary *)
let b s = s = "1"
let lv_name = function LError -> "ERROR" | LWarn -> "WARN" | LNote -> "NOTE" | LAutofix -> "AUTOFIX"
let ln_str = function
  | NoLine -> "none 0 0" | LEOF -> "eof 0 0"
  | LNum n -> "num " ^ string_of_int (int_of_n n) ^ " " ^ string_of_int (int_of_n n)
  | LRange (n, m) -> "range " ^ string_of_int (int_of_n n) ^ " " ^ string_of_int (int_of_n m)
let handle (args : string list) : string =
  match args with
  | ["cl"; gcc; line] ->
    (match classify (b gcc) (bytes_of_hex line) with
     | KDiag (lv, path, ln, msg) ->
       "diag " ^ lv_name lv ^ " " ^ (match path with None -> "~" | Some p -> hex_of_bytes p) ^ " " ^ ln_str ln ^ " " ^ hex_of_bytes msg
     | KSource c -> "source " ^ string_of_int (int_of_n c)
     | KIndented -> "indented"
     | KEmpty -> "empty"
     | KSummary (e, w, n) -> Printf.sprintf "summary %d %d %d" (int_of_n e) (int_of_n w) (int_of_n n)
     | KLooksFine -> "looksfine"
     | KHint k -> "hint " ^ string_of_int (int_of_n k)
     | KUnknown -> "unknown")
  | "acc" :: gcc :: nosum :: werror :: exit :: lines ->
    let ls = List.map bytes_of_hex lines in
    let c = tally (b gcc) ls in
    Printf.sprintf "%d %d %d %d %d" (int_of_n (accounting (b gcc) (b nosum) (b werror) ls (n_of_int (int_of_string exit))))
      (int_of_n c.c_err) (int_of_n c.c_warn) (int_of_n c.c_note) (int_of_n (expected_exit (b werror) c))
  | ["ps"; e; w; n] -> hex_of_bytes (print_summary (n_of_int (int_of_string e)) (n_of_int (int_of_string w)) (n_of_int (int_of_string n)))
  | ["pp"; s] -> (match parse_summary (bytes_of_hex s) with
      | None -> "none" | Some ((e, w), n) -> Printf.sprintf "%d %d %d" (int_of_n e) (int_of_n w) (int_of_n n))
  | ["safe"; s] -> if safe_line (bytes_of_hex s) then "1" else "0"
  | _ -> "ERR:bad request"
let () = serve handle
