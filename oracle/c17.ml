(* C17 oracle.
   A program is a list of words, one per line:  <file>:<lineno>:<op>[:<varhex>:<chunks>]
     op: a '='  s '!='  e ':='  p '+='  d '?='  x (not an assignment)
     chunks: comma separated  L<hex> (literal)  R<hex> (reference), "-" = empty value
   chk <fuel> <line>...   -> "panic" | "ok[ wf0] <verdict>..." with
        verdict = <flagged>:<because>:<R|N|O>:<S|U>:<G|g>:<changed varhex,...|->
        (S = deleting the flagged line keeps every final value, G = inside the guard of the partial theorem)
   snd <fuel> <i> <line>... -> "S" | "U:<varhex>,..."     (delete line i, 0-based)
   fin <fuel> <line>...   -> "<varhex>=<valuehex|!>" ...   (final values, ! = make aborts) *)
let parse_chunks (s : string) : chunk list =
  if s = "-" then [] else
  List.map (fun c ->
      let body = String.sub c 1 (String.length c - 1) in
      match c.[0] with
      | 'L' -> Lit (bytes_of_hex body)
      | 'R' -> Ref (bytes_of_hex body)
      | _ -> failwith "bad chunk") (String.split_on_char ',' s)
let parse_op = function
  | "a" -> OpAssign | "s" -> OpShell | "e" -> OpEval | "p" -> OpAppend | "d" -> OpDefault
  | _ -> failwith "bad op"
let parse_line (w : string) : line =
  match String.split_on_char ':' w with
  | [f; n; "x"] -> { l_file = n_of_int (int_of_string f); l_lineno = n_of_int (int_of_string n); l_body = None }
  | [f; n; o; v; cs] ->
    { l_file = n_of_int (int_of_string f); l_lineno = n_of_int (int_of_string n);
      l_body = Some { a_var = bytes_of_hex v; a_op = parse_op o; a_val = parse_chunks cs } }
  | _ -> failwith "bad line"
let uniq l = List.sort_uniq compare l
let handle (args : string list) : string =
  match args with
  | "chk" :: fuel :: ls ->
    let fuel = nat_of_int (int_of_string fuel) in
    let p = List.map parse_line ls in
    (match check p with
     | Panic -> "panic"
     | OutOfFuel -> "outoffuel"
     | Ok vs ->
       let one vd =
         let ch = uniq (changed_vars fuel p vd.vd_flagged) in
         Printf.sprintf "%d:%d:%s:%s:%s:%s" (int_of_nat vd.vd_flagged) (int_of_nat vd.vd_because)
           (match vd.vd_kind with KRedundant -> "R" | KNoEffect -> "N" | KOverwritten -> "O")
           (if ch = [] then "S" else "U")
           (if guard p vd then "G" else "g")
           (if ch = [] then "-" else String.concat "," (List.map hex_of_bytes ch)) in
       String.concat " " (("ok" ^ (if wf_program p then "" else " wf0")) :: List.map one vs))
  | "snd" :: fuel :: i :: ls ->
    let fuel = nat_of_int (int_of_string fuel) in
    let p = List.map parse_line ls in
    let ch = uniq (changed_vars fuel p (nat_of_int (int_of_string i))) in
    if ch = [] then "S" else "U:" ^ String.concat "," (List.map hex_of_bytes ch)
  | "fin" :: fuel :: ls ->
    let fuel = nat_of_int (int_of_string fuel) in
    let p = List.map parse_line ls in
    let sp = to_spec p in
    String.concat " " (List.map (fun x ->
        hex_of_bytes x ^ "=" ^ (match final fuel sp x with None -> "!" | Some v -> hex_of_bytes v))
        (uniq (vars_of p)))
  | _ -> "ERR:bad request"
let () = serve handle
