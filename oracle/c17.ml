(* C17 oracle.
   A program is a list of words, one per line:  <file>:<lineno>:<op>[:<varhex>:<chunks>]
     op: a '='  s '!='  e ':='  p '+='  d '?='  x (not an assignment)
     chunks: comma separated  L<hex> (literal)  R<hex> (reference), "-" = empty value
   chk <fuel> <line>...   -> "panic" | "ok[ wf0] <verdict>..." with
        verdict = <flagged>:<because>:<R|N|O>:<S|U>:<G|g>:<changed varhex,...|->
        (S = deleting the flagged line keeps every final value, G = inside the guard of the partial theorem)
   snd <fuel> <i> <line>... -> "S" | "U:<varhex>,..."     (delete line i, 0-based)
   fin <fuel> <line>...   -> "<varhex>=<valuehex|!>" ...   (final values, ! = make aborts)
   path-labelled programs: the first field of a line word is P<pathhex> instead of the file id
   chkp <fuel> <pline>...  -> as chk, for check_spelled (paths compared as strings, what the Go code does);
                              soundness/guard are computed on the program with interned file ids
   chkd <cwdhex> <fuel> <pline>... -> "panic" | "ok <flagged>:<because>:<R|N|O>..." for check_denoted, followed by
                              " one1" / " one0" (one_spelling_b)
   sndp <fuel> <i> <pline>... -> as snd
   chkc <fuel> <line>...   -> as chk, for check_c; a line word that starts with C is inside a conditional section
   alone <cwdhex> <pkgdirhex> <fragdirhex> <fragbasehex> <dirhex>=<spelledhex>... -> "1" | "0"  (analysed_alone)
   samed <cwdhex> <phex> <qhex> -> "1" | "0" (same_denotation)
   d-programs (makefiles with directives): a line word is <file>:<lineno>:<infra 0|1>:<body> with body
        a|s|e|p|d:<varhex>:<chunks>   assignment          c  comment/empty      n  .include
        u:<varhex,...>  .undef        i:<neg 0|1>:<D<varhex>|E<varhex>|T|F>  .if [!]defined/empty/1/0
        l  .else    f  .endif    r:<n>:<usedhex,...|->  .for with n items    o  .endfor
   chkf <fuel> <dline>... -> "panic" | "ok g<guard index|-> <flagged>:<because>:<R|N|O>:<S|U>:<changed|->..."  (check_file)
   chkk <fuel> <dline>... -> the same for check_pkg
   sndd <fuel> <i,j,..> <dline>... -> "S" | "U:<varhex>,..." (the lines i,j,.. removed; Spec/MakeEvalDir)
   find <fuel> <dline>... -> "<varhex>=<valuehex|!>" ... (final values by Spec/MakeEvalDir)
   incs <i> <dline>... -> "1" | "0" (in_conditional_section (find_guard p) (firstn i p)) *)
let parse_chunks (s : string) : chunk list =
  if s = "-" then [] else
  List.map (fun c ->
      let body = String.sub c 1 (String.length c - 1) in
      match c.[0] with
      | 'L' -> Lit (bytes_of_hex body)
      | 'R' -> Ref (bytes_of_hex body)
      | _ -> failwith "bad chunk") (String.split_on_char ',' s)
let parse_op = function
  | "a" -> OpAssign | "s" -> OpShell | "e" -> OpEval | "p" -> OpAppend | "d" -> OpDefault
  | _ -> failwith "bad op"
(* a leading C on the file id = the line is inside a conditional section (used by chkc only) *)
let is_cond (w : string) : bool = String.length w > 0 && w.[0] = 'C'
let strip_cond (w : string) : string = if is_cond w then String.sub w 1 (String.length w - 1) else w
let parse_line (w : string) : line =
  match String.split_on_char ':' (strip_cond w) with
  | [f; n; "x"] -> { l_file = n_of_int (int_of_string f); l_lineno = n_of_int (int_of_string n); l_body = None }
  | [f; n; o; v; cs] ->
    { l_file = n_of_int (int_of_string f); l_lineno = n_of_int (int_of_string n);
      l_body = Some { a_var = bytes_of_hex v; a_op = parse_op o; a_val = parse_chunks cs } }
  | _ -> failwith "bad line"
let parse_pline (w : string) : pline =
  match String.split_on_char ':' w with
  | [f; n; "x"] when String.length f > 0 && f.[0] = 'P' ->
    { pl_path = bytes_of_hex (String.sub f 1 (String.length f - 1)); pl_lineno = n_of_int (int_of_string n); pl_body = None }
  | [f; n; o; v; cs] when String.length f > 0 && f.[0] = 'P' ->
    { pl_path = bytes_of_hex (String.sub f 1 (String.length f - 1)); pl_lineno = n_of_int (int_of_string n);
      pl_body = Some { a_var = bytes_of_hex v; a_op = parse_op o; a_val = parse_chunks cs } }
  | _ -> failwith "bad pline"
let parse_names (s : string) =
  if s = "-" || s = "" then [] else List.map bytes_of_hex (String.split_on_char ',' s)
let parse_dline (w : string) : dline =
  match String.split_on_char ':' w with
  | f :: n :: infra :: body ->
    let b = match body with
      | ["c"] -> DComment | ["n"] -> DInclude | ["l"] -> DElse | ["f"] -> DEndif | ["o"] -> DEndfor
      | ["u"; xs] -> DUndef (parse_names xs)
      | ["i"; neg; c] ->
        let c' = match c.[0] with
          | 'D' -> DCDefined (bytes_of_hex (String.sub c 1 (String.length c - 1)))
          | 'E' -> DCEmpty (bytes_of_hex (String.sub c 1 (String.length c - 1)))
          | 'T' -> DCConst true | 'F' -> DCConst false | _ -> failwith "bad cond" in
        DIf (neg = "1", c')
      | ["r"; n; used] -> DFor (parse_names used, nat_of_int (int_of_string n))
      | [o; v; cs] -> DAssign { a_var = bytes_of_hex v; a_op = parse_op o; a_val = parse_chunks cs }
      | _ -> failwith "bad dline body" in
    { dl_file = n_of_int (int_of_string f); dl_lineno = n_of_int (int_of_string n); dl_infra = (infra = "1"); dl_body = b }
  | _ -> failwith "bad dline"
let kind_letter k = match k with KRedundant -> "R" | KNoEffect -> "N" | KOverwritten -> "O"
let uniq l = List.sort_uniq compare l
let handle (args : string list) : string =
  match args with
  | ("chk" | "chkp" | "chkc") :: fuel :: ls ->
    let fuel = nat_of_int (int_of_string fuel) in
    let spelled = (List.hd args = "chkp") in
    let p = if spelled then intern_by str_eqb (List.map parse_pline ls) else List.map parse_line ls in
    (match (if spelled then check_spelled (List.map parse_pline ls)
            else if List.hd args = "chkc" then check_c (List.map (fun w -> (is_cond w, parse_line w)) ls)
            else check p) with
     | Panic -> "panic"
     | OutOfFuel -> "outoffuel"
     | Ok vs ->
       let one vd =
         let ch = uniq (changed_vars fuel p vd.vd_flagged) in
         Printf.sprintf "%d:%d:%s:%s:%s:%s" (int_of_nat vd.vd_flagged) (int_of_nat vd.vd_because)
           (match vd.vd_kind with KRedundant -> "R" | KNoEffect -> "N" | KOverwritten -> "O")
           (if ch = [] then "S" else "U")
           (if guard p vd then "G" else "g")
           (if ch = [] then "-" else String.concat "," (List.map hex_of_bytes ch)) in
       String.concat " " (("ok" ^ (if wf_program p then "" else " wf0")) :: List.map one vs))
  | "chkd" :: cwd :: _fuel :: ls ->
    let cwd = bytes_of_hex cwd in
    let pp = List.map parse_pline ls in
    let one = if one_spelling_b cwd pp then " one1" else " one0" in
    (match check_denoted cwd pp with
     | Panic -> "panic" ^ one
     | OutOfFuel -> "outoffuel"
     | Ok vs ->
       String.concat " " ("ok" :: List.map (fun vd ->
           Printf.sprintf "%d:%d:%s" (int_of_nat vd.vd_flagged) (int_of_nat vd.vd_because) (kind_letter vd.vd_kind)) vs) ^ one)
  | "alone" :: cwd :: pkgdir :: fragdir :: fragbase :: incs ->
    let incs = List.map (fun w -> match String.split_on_char '=' w with
        | [d; s] -> (bytes_of_hex d, bytes_of_hex s)
        | _ -> failwith "bad include") incs in
    if analysed_alone (bytes_of_hex cwd) (bytes_of_hex pkgdir) (bytes_of_hex fragdir) (bytes_of_hex fragbase) incs then "1" else "0"
  | ["samed"; cwd; a; b] ->
    if same_denotation (bytes_of_hex cwd) (bytes_of_hex a) (bytes_of_hex b) then "1" else "0"
  | ("snd" | "sndp") :: fuel :: i :: ls ->
    let fuel = nat_of_int (int_of_string fuel) in
    let p = if List.hd args = "sndp" then intern_by str_eqb (List.map parse_pline ls) else List.map parse_line ls in
    let ch = uniq (changed_vars fuel p (nat_of_int (int_of_string i))) in
    if ch = [] then "S" else "U:" ^ String.concat "," (List.map hex_of_bytes ch)
  | "fin" :: fuel :: ls ->
    let fuel = nat_of_int (int_of_string fuel) in
    let p = List.map parse_line ls in
    let sp = to_spec p in
    String.concat " " (List.map (fun x ->
        hex_of_bytes x ^ "=" ^ (match final fuel sp x with None -> "!" | Some v -> hex_of_bytes v))
        (uniq (vars_of p)))
  | ("chkf" | "chkk") :: fuel :: ls ->
    let fuel = nat_of_int (int_of_string fuel) in
    let p = List.map parse_dline ls in
    (match (if List.hd args = "chkf" then check_file p else check_pkg p) with
     | Panic -> "panic"
     | OutOfFuel -> "outoffuel"
     | Ok vs ->
       let one vd =
         let ch = uniq (changed_vars_d fuel p [vd.vd_flagged]) in
         Printf.sprintf "%d:%d:%s:%s:%s" (int_of_nat vd.vd_flagged) (int_of_nat vd.vd_because) (kind_letter vd.vd_kind)
           (if ch = [] then "S" else "U")
           (if ch = [] then "-" else String.concat "," (List.map hex_of_bytes ch)) in
       let g = match find_guard p with Some i -> string_of_int (int_of_nat i) | None -> "-" in
       String.concat " " (("ok g" ^ g) :: List.map one vs))
  | "sndd" :: fuel :: is :: ls ->
    let fuel = nat_of_int (int_of_string fuel) in
    let is = List.map (fun i -> nat_of_int (int_of_string i)) (String.split_on_char ',' is) in
    let ch = uniq (changed_vars_d fuel (List.map parse_dline ls) is) in
    if ch = [] then "S" else "U:" ^ String.concat "," (List.map hex_of_bytes ch)
  | "find" :: fuel :: ls ->
    let fuel = nat_of_int (int_of_string fuel) in
    let p = List.map parse_dline ls in
    let sp = to_spec_d p in
    String.concat " " (List.map (fun x ->
        hex_of_bytes x ^ "=" ^ (match final_d fuel sp x with None -> "!" | Some v -> hex_of_bytes v))
        (uniq (vars_of_d p)))
  | "incs" :: i :: ls ->
    let p = List.map parse_dline ls in
    let rec firstn n l = if n = 0 then [] else match l with [] -> [] | x :: r -> x :: firstn (n - 1) r in
    if in_conditional_section (find_guard p) (firstn (int_of_string i) p) then "1" else "0"
  | _ -> "ERR:bad request"
let () = serve handle
