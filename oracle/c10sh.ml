(* C10sh oracle.
   "d <tbl> <hex>"  -> first 16 hex digits of MD5(line)      (bulk comparison)
   "f <tbl> <hex>"  -> line                                   (details on a mismatch)
   "spec <hex input> <hex rest> <hex piece>..." -> "1"/"0"    (Spec.ShPartition.partition_ok)
   "tspec <hex input> <hex final rest> <hex text> <hex after> ..." -> "1"/"0" (tokens_ok)
   <tbl> = comma-separated byte counts consumed by the real MkLexer.Expr at the
   suffixes text[0:], text[1:], ... text[n:]  (0 = nil).
   line = a0|a1|...|a12|s|t|x ; harness/c10sh.go builds the same line from the real code. *)
let quot_index (q : quoting) : int =
  match q with
  | QPlain -> 0 | QDquot -> 1 | QSquot -> 2 | QBackt -> 3 | QSubsh -> 4 | QDquotBackt -> 5
  | QBacktDquot -> 6 | QBacktSquot -> 7 | QSubshDquot -> 8 | QSubshSquot -> 9 | QSubshBackt -> 10
  | QDquotBacktDquot -> 11 | QDquotBacktSquot -> 12
let all_quotings = [QPlain; QDquot; QSquot; QBackt; QSubsh; QDquotBackt; QBacktDquot; QBacktSquot;
                    QSubshDquot; QSubshSquot; QSubshBackt; QDquotBacktDquot; QDquotBacktSquot]
let atom_str (a : atom) : string = hex_of_bytes a.a_text ^ "." ^ string_of_int (quot_index a.a_quot)
let atoms_section (r : (atom list * state) res) : string =
  match r with
  | Panic -> "!panic"
  | OutOfFuel -> "!fuel"
  | Ok (atoms, (_, rest)) -> String.concat "," (List.map atom_str atoms) ^ ";" ^ hex_of_bytes rest
let token_str ((t, after) : token * str) : string =
  hex_of_bytes t.tok_text ^ "/" ^ hex_of_bytes after ^ "=" ^ String.concat "+" (List.map atom_str t.tok_atoms)
let tokens_section (r : ((token * str) list * state) res) : string =
  match r with
  | Panic -> "!panic"
  | OutOfFuel -> "!fuel"
  | Ok (toks, (_, rest)) -> String.concat "," (List.map token_str toks) ^ ";" ^ hex_of_bytes rest
let split_section (r : (str list * str) res) : string =
  match r with
  | Panic -> "!panic"
  | OutOfFuel -> "!fuel"
  | Ok (toks, rest) -> String.concat "," (List.map hex_of_bytes toks) ^ ";" ^ hex_of_bytes rest
let parse_tbl (t : string) : nat list =
  List.map (fun x -> nat_of_int (int_of_string x)) (String.split_on_char ',' t)
let line (tbl : string) (h : string) : string =
  let s = bytes_of_hex h in
  let expr = table_expr (nat_of_int (List.length s)) (parse_tbl tbl) in
  let secs = List.mapi (fun i q -> "a" ^ string_of_int i ^ ":" ^ atoms_section (sh_atoms_from expr q (false, s))) all_quotings in
  String.concat "|" (secs @ ["s:" ^ atoms_section (sh_atoms expr s); "t:" ^ tokens_section (sh_tokens expr s);
                            "x:" ^ split_section (split_tokens expr s)])
let rec pairs (l : string list) : (str * str) list =
  match l with
  | a :: b :: tl -> (bytes_of_hex a, bytes_of_hex b) :: pairs tl
  | _ -> []
let handle (args : string list) : string =
  match args with
  | ["d"; tbl; h] -> String.sub (Digest.to_hex (Digest.string (line tbl h))) 0 16
  | ["f"; tbl; h] -> line tbl h
  | "spec" :: input :: rest :: pieces ->
    if partition_ok (bytes_of_hex input) (List.map bytes_of_hex pieces) (bytes_of_hex rest) then "1" else "0"
  | "tspec" :: input :: rest :: toks ->
    if tokens_ok (bytes_of_hex input) (pairs toks) (bytes_of_hex rest) then "1" else "0"
  | _ -> "ERR:bad request"
let () = serve handle
