(* Shared driver helpers; textually appended after the extracted module, so the
   extracted types positive / n / z / nat are in scope. *)
let rec pos_of_int (i : int) : positive =
  if i = 1 then XH else if i land 1 = 1 then XI (pos_of_int (i lsr 1)) else XO (pos_of_int (i lsr 1))
let n_of_int (i : int) : n = if i = 0 then N0 else Npos (pos_of_int i)
let rec int_of_pos (p : positive) : int =
  match p with XH -> 1 | XO q -> 2 * int_of_pos q | XI q -> 2 * int_of_pos q + 1
let int_of_n (x : n) : int = match x with N0 -> 0 | Npos p -> int_of_pos p
let int_of_z (x : z) : int = match x with Z0 -> 0 | Zpos p -> int_of_pos p | Zneg p -> - (int_of_pos p)
let z_of_int (i : int) : z = if i = 0 then Z0 else if i > 0 then Zpos (pos_of_int i) else Zneg (pos_of_int (-i))
let rec nat_of_int (i : int) : nat = if i <= 0 then O else S (nat_of_int (i - 1))
let rec int_of_nat (x : nat) : int = match x with O -> 0 | S y -> 1 + int_of_nat y
(* decimal printing of an unbounded z, via repeated division on the positive *)
let rec pos_divmod10 (p : positive) : (positive option * int) =
  (* returns (quotient, remainder) of p / 10 *)
  match p with
  | XH -> (None, 1)
  | XO q | XI q ->
    let bit = (match p with XI _ -> 1 | _ -> 0) in
    let (qq, r) = pos_divmod10 q in
    let v = 2 * r + bit in
    let qd = (match qq with None -> 0 | Some _ -> 1) in
    ignore qd;
    let dbl = (match qq with None -> None | Some x -> Some (XO x)) in
    if v >= 10 then
      ((match dbl with None -> Some XH | Some (XO x) -> Some (XI x) | Some x -> Some x), v - 10)
    else (dbl, v)
let string_of_pos (p : positive) : string =
  let buf = Buffer.create 20 in
  let rec go (p : positive option) acc =
    match p with
    | None -> acc
    | Some p -> let (q, r) = pos_divmod10 p in go q (Char.chr (48 + r) :: acc) in
  List.iter (Buffer.add_char buf) (go (Some p) []);
  Buffer.contents buf
let string_of_z (x : z) : string =
  match x with Z0 -> "0" | Zpos p -> string_of_pos p | Zneg p -> "-" ^ string_of_pos p

(* hex <-> byte list; "-" encodes the empty string *)
let hexval c = match c with
  | '0'..'9' -> Char.code c - 48 | 'a'..'f' -> Char.code c - 87 | 'A'..'F' -> Char.code c - 55
  | _ -> failwith "bad hex"
let bytes_of_hex (h : string) : n list =
  if h = "-" then [] else begin
    let len = String.length h / 2 in
    let rec go i acc = if i < 0 then acc else
        go (i - 1) (n_of_int (hexval h.[2*i] * 16 + hexval h.[2*i+1]) :: acc) in
    go (len - 1) []
  end
let hex_of_bytes (l : n list) : string =
  if l = [] then "-" else begin
    let buf = Buffer.create 64 in
    List.iter (fun b -> Buffer.add_string buf (Printf.sprintf "%02x" (int_of_n b))) l;
    Buffer.contents buf
  end
let split_ws (s : string) : string list =
  List.filter (fun x -> x <> "") (String.split_on_char ' ' s)
(* main loop: handle : string list -> string *)
let serve (handle : string list -> string) : unit =
  let out = Buffer.create 65536 in
  (try
    while true do
      let line = input_line stdin in
      let r = (try handle (split_ws line) with e -> "EXC:" ^ Printexc.to_string e) in
      Buffer.add_string out r; Buffer.add_char out '\n';
      if Buffer.length out > 60000 then (print_string (Buffer.contents out); Buffer.clear out)
    done
  with End_of_file -> ());
  print_string (Buffer.contents out); flush stdout
