(* C11 oracle.
   "ast <prefix-serialised AST>"  -> wf supported (p|-)(f|n) tokens terms lexed lr cert lri   (p = wf_words_posix, f = faithful)
   "toks <hex>:<kind> ..."        -> lexed lr cert
   AST serialisation (prefix, blank separated; words hex-encoded, "-" = empty):
     clist  := CL seq (N|S|A)            seq := Q1 andor | QS seq (S|A) andor
     andor  := A1 b pipe | AA andor b pipe | AO andor b pipe        b := 0|1
     pipe   := P1 cmd | PP pipe cmd
     cmd    := CS n word^n m sitem^m | CC compound redirs | CF word compound redirs
     redirs := n redir^n      redir := (-|hexdigits) op word      sitem := W word | R redir
     op     := lt ltand gt gtand gtgt ltgt gtpipe ltlt ltltdash
     compound := KB clist | KS clist | KF word formode clist | KC word items
               | KI clist clist else | KW clist clist | KU clist clist
     formode := FD | FS | FI n word^n
     else   := EN | EE clist | EI clist clist else
     items  := IN | IL b word n word^n body | IC b word n word^n body items
     body   := BN | BS clist *)
exception Bad of string

let word (h : string) : tok = { t_text = bytes_of_hex h; t_kind = WkPlain }

let next (st : string list ref) : string =
  match !st with
  | [] -> raise (Bad "unexpected end")
  | x :: r -> st := r; x

let p_int st = int_of_string (next st)
let p_bool st = match next st with "0" -> false | "1" -> true | x -> raise (Bad ("bool " ^ x))
let p_word st = word (next st)
let rec p_n st n f = if n <= 0 then [] else let x = f st in x :: p_n st (n - 1) f
let p_list st f = let n = p_int st in p_n st n f
let p_sep st = match next st with "S" -> SepSemi | "A" -> SepAmp | x -> raise (Bad ("sep " ^ x))
let p_op st = match next st with
  | "lt" -> RLt | "ltand" -> RLtAnd | "gt" -> RGt | "gtand" -> RGtAnd | "gtgt" -> RGtGt
  | "ltgt" -> RLtGt | "gtpipe" -> RGtPipe | "ltlt" -> RLtLt | "ltltdash" -> RLtLtDash
  | x -> raise (Bad ("op " ^ x))
let p_redir st =
  let fd = (match next st with "-" -> None | h -> Some (bytes_of_hex h)) in
  let op = p_op st in
  let w = p_word st in
  { r_fd = fd; r_op = op; r_target = w }
let p_sitem st = match next st with
  | "W" -> SWord (p_word st) | "R" -> SRedir (p_redir st) | x -> raise (Bad ("sitem " ^ x))

let rec p_clist st : clist =
  (match next st with "CL" -> () | x -> raise (Bad ("clist " ^ x)));
  let q = p_seq st in
  let last = (match next st with "N" -> None | "S" -> Some SepSemi | "A" -> Some SepAmp | x -> raise (Bad ("last " ^ x))) in
  CL (q, last)
and p_seq st : seq = match next st with
  | "Q1" -> QOne (p_andor st)
  | "QS" -> let q = p_seq st in let s = p_sep st in let a = p_andor st in QSeq (q, s, a)
  | x -> raise (Bad ("seq " ^ x))
and p_andor st : andor = match next st with
  | "A1" -> let b = p_bool st in AOne (b, p_pipe st)
  | "AA" -> let a = p_andor st in let b = p_bool st in AAnd (a, b, p_pipe st)
  | "AO" -> let a = p_andor st in let b = p_bool st in AOr (a, b, p_pipe st)
  | x -> raise (Bad ("andor " ^ x))
and p_pipe st : pipe = match next st with
  | "P1" -> PCmd (p_cmd st)
  | "PP" -> let p = p_pipe st in PPipe (p, p_cmd st)
  | x -> raise (Bad ("pipe " ^ x))
and p_cmd st : cmd = match next st with
  | "CS" -> let a = p_list st p_word in let i = p_list st p_sitem in CSimple (a, i)
  | "CC" -> let k = p_compound st in CCompound (k, p_list st p_redir)
  | "CF" -> let n = p_word st in let k = p_compound st in CFuncDef (n, k, p_list st p_redir)
  | x -> raise (Bad ("cmd " ^ x))
and p_compound st : compound = match next st with
  | "KB" -> KBrace (p_clist st)
  | "KS" -> KSubshell (p_clist st)
  | "KF" -> let n = p_word st in
    let m = (match next st with "FD" -> ForDo | "FS" -> ForSemiDo | "FI" -> ForIn (p_list st p_word)
                               | x -> raise (Bad ("formode " ^ x))) in
    KFor (n, m, p_clist st)
  | "KC" -> let w = p_word st in KCase (w, p_items st)
  | "KI" -> let c = p_clist st in let t = p_clist st in KIf (c, t, p_else st)
  | "KW" -> let c = p_clist st in KWhile (c, p_clist st)
  | "KU" -> let c = p_clist st in KUntil (c, p_clist st)
  | x -> raise (Bad ("compound " ^ x))
and p_else st : elsepart = match next st with
  | "EN" -> ENone
  | "EE" -> EElse (p_clist st)
  | "EI" -> let c = p_clist st in let t = p_clist st in EElif (c, t, p_else st)
  | x -> raise (Bad ("else " ^ x))
and p_items st : caseitems = match next st with
  | "IN" -> CINil
  | "IL" -> let lp = p_bool st in let p = p_word st in let ps = p_list st p_word in CILast (lp, p, ps, p_body st)
  | "IC" -> let lp = p_bool st in let p = p_word st in let ps = p_list st p_word in
    let b = p_body st in CICons (lp, p, ps, b, p_items st)
  | x -> raise (Bad ("items " ^ x))
and p_body st : cbody = match next st with
  | "BN" -> BNone
  | "BS" -> BSome (p_clist st)
  | x -> raise (Bad ("body " ^ x))

let codes (ts : term list) : string =
  if ts = [] then "-" else String.concat "," (List.map (fun t -> string_of_z (tok_code t)) ts)

let lexed_str (l : lexed) : string = match l with
  | Lexed ts -> "L:" ^ codes ts
  | LexedPanic -> "PANIC"
  | LexedOutOfFuel -> "FUEL"

let lr_str (r : lr_result) : string = match r with
  | LrAccept _ -> "A"
  | LrReject n -> "R" ^ string_of_int (int_of_nat n)
  | LrPanic -> "P"
  | LrOutOfFuel -> "F"

let lr_and_cert (ts : term list) : string =
  let r = lr_parse_terms ts in
  let cert = (match r with LrAccept tr -> if check_trace tr ts [] then "1" else "0" | _ -> "-") in
  lr_str r ^ " " ^ cert

let after_lex (l : lexed) : string = match l with
  | Lexed ts -> lr_and_cert ts
  | _ -> "- -"

let kind_of = function "0" -> WkPlain | "1" -> WkLoopExpr | "2" -> WkNil | x -> raise (Bad ("kind " ^ x))

let handle (args : string list) : string =
  match args with
  | "ast" :: rest ->
    (try
      let st = ref rest in
      let p = p_clist st in
      if !st <> [] then raise (Bad "trailing input");
      let toks = tokens p in
      let flow = (if wf_words_posix p then "p" else "-") in
      let l = shell_lex toks in
      let intended = terms p in
      String.concat " " [
        (if wf_words p then "1" else "0");
        (if supported p then "1" else "0");
        flow ^ (if faithful p then "f" else "n");
        String.concat "," (List.map (fun t -> hex_of_bytes t.t_text) toks);
        codes intended;
        lexed_str l;
        (let al = after_lex l in al ^ " " ^
           (match l with
            | Lexed ts when ts = intended -> List.hd (String.split_on_char ' ' al)
            | _ -> lr_str (lr_parse_terms intended))) ]
    with Bad m -> "ERR:" ^ m)
  | "toks" :: rest ->
    (try
      let toks = List.map (fun a ->
        match String.split_on_char ':' a with
        | [h; k] -> { t_text = bytes_of_hex h; t_kind = kind_of k }
        | _ -> raise (Bad ("tok " ^ a))) rest in
      let l = shell_lex toks in
      lexed_str l ^ " " ^ after_lex l
    with Bad m -> "ERR:" ^ m)
  | ["grammar"] ->
    (* start ; lhs:sym,sym ; ...   with sym = T<value returned by Lex> | N<goyacc's nonterminal number> *)
    let sym = function
      | T t -> "T" ^ string_of_z (tok_code t)
      | NT n -> "N" ^ string_of_z (nt_number n) in
    "N" ^ string_of_z (nt_number start_symbol) ^ ";" ^
    String.concat ";" (List.map (fun (lhs, rhs) ->
      "N" ^ string_of_z (nt_number lhs) ^ ":" ^ String.concat "," (List.map sym rhs)) productions)
  | _ -> "ERR:bad request"
let () = serve handle
