(* C14 oracle.
   w <seenprefs 0|1> <line> <nv> (<name> <flags8>)* <nm> (<pattern> <0 err|1 no|2 yes>)* <tree>
       tree := O n t.. | A n t.. | N t | P t | D name | E name k mod.. | T name k mod.. | X
       -> <new line> <offered> <applied n> (<kind> <from> <to> <ast 0|1|2>)*
          ast: 1 = the spec's reader maps both texts to the model's trees, 0 = it does not, 2 = no tree (checkAnd)
   e <orig text> <new text> <name> (U | V<hex>)*   -> one pair of letters per value: T F M X(outside the fragment)
   E <orig text> <new text> <name> <k> (<nested name> <U | V<hex>>)*k (U | V<hex>)*
       -> as e, with the k nested variables bound as given (every other variable undefined)
   x <pattern> <k> (<name> <U | V<hex>>)*k -> the pattern as bmake expands it: S<hex> | N (outside the fragment)
   z <pattern> <word>*   -> "<first index whose word matches and is a number> <first index ... and is zero>" (-1 = none)
   p <text> -> 1 if the text is inside the fragment the spec reads, else 0
   f <hacks 0|1> <nl> <fline>*nl <line> <nv> (<name> <flags8>)* <nm> (<pattern> <code>)* <tree>
       fline := I<hexpath> | A<hexname> | U<hexname> | O0 | O1 | C | X     (Spec/PrefsFile.v fline; flag 5 of flags8 is ignored:
       the model computes vars.IsDefined and SeenPrefs from the lines, Model/CondFile.v check_file_line)
       -> <model SeenPrefs> <spec su_prefs> <spec conditional_prefs_include> <spec: first variable in su_undef> then as w
   l <path> -> "<Model loads_prefs> <Spec really_loads_prefs> <hex path_base>" *)
let flag s i = s.[i] = '1'
let rec take_tree (toks : string list) : mkcond * string list =
  match toks with
  | "O" :: n :: rest -> let (cs, r) = take_trees (int_of_string n) rest in (MOr cs, r)
  | "A" :: n :: rest -> let (cs, r) = take_trees (int_of_string n) rest in (MAnd cs, r)
  | "N" :: rest -> let (c, r) = take_tree rest in (MNot c, r)
  | "P" :: rest -> let (c, r) = take_tree rest in (MParen c, r)
  | "D" :: name :: rest -> (MDefined (bytes_of_hex name), rest)
  | "E" :: name :: k :: rest -> let (ms, r) = take_strs (int_of_string k) rest in (MEmpty (bytes_of_hex name, ms), r)
  | "T" :: name :: k :: rest -> let (ms, r) = take_strs (int_of_string k) rest in (MTerm (bytes_of_hex name, ms), r)
  | "X" :: rest -> (MOther, rest)
  | _ -> failwith "bad tree"
and take_trees n toks =
  if n = 0 then ([], toks) else
    let (c, r) = take_tree toks in let (cs, r2) = take_trees (n - 1) r in (c :: cs, r2)
and take_strs n toks =
  if n = 0 then ([], toks) else
    match toks with
    | s :: r -> let (ss, r2) = take_strs (n - 1) r in (bytes_of_hex s :: ss, r2)
    | [] -> failwith "bad mods"
let rec take_pairs n toks =
  if n = 0 then ([], toks) else
    match toks with
    | a :: b :: r -> let (ps, r2) = take_pairs (n - 1) r in ((a, b) :: ps, r2)
    | _ -> failwith "bad pairs"
let kind_name k = match k with KWord -> "word" | KYesNo -> "yesno" | KMatch -> "match" | KAnd -> "and"
let tri_letter t = match t with Some TTrue -> "T" | Some TFalse -> "F" | Some TMalformed -> "M" | None -> "X"
let value_of tok = if tok = "U" then None else Some (bytes_of_hex (String.sub tok 1 (String.length tok - 1)))
let fline_of tok =
  if tok = "C" then FClose else if tok = "X" then FOther
  else if tok = "O0" then FOpen false else if tok = "O1" then FOpen true
  else match tok.[0] with
    | 'I' -> FInclude (bytes_of_hex (String.sub tok 1 (String.length tok - 1)))
    | 'A' -> FAssign (bytes_of_hex (String.sub tok 1 (String.length tok - 1)))
    | 'U' -> FUndef (bytes_of_hex (String.sub tok 1 (String.length tok - 1)))
    | _ -> failwith "bad fline"
let rec take_n n toks =
  if n = 0 then ([], toks) else
    match toks with
    | a :: r -> let (xs, r2) = take_n (n - 1) r in (a :: xs, r2)
    | [] -> failwith "bad count"
(* the common part of w and f: run is the model function applied to (var_of, mmn_of, line, tree) *)
let check_request run line nv rest =
    let (vars, rest) = take_pairs (int_of_string nv) rest in
    let (nm, rest) = (match rest with n :: r -> (int_of_string n, r) | [] -> failwith "nm") in
    let (mmns, rest) = take_pairs nm rest in
    let (tree, rest) = take_tree rest in
    if rest <> [] then "ERR:trailing tokens" else
    let vars = List.map (fun (n, f) -> (bytes_of_hex n, f)) vars in
    let mmns = List.map (fun (p, r) -> (bytes_of_hex p, r)) mmns in
    let mk a b c d e f g h = { vi_typed = a; vi_bt_unknown = b; vi_list = c; vi_always_in_scope = d;
                               vi_defined_if_in_scope = e; vi_in_file = f; vi_use_loadtime = g;
                               vi_nonempty_if_defined = h } in
    let none = mk false false false false false false false false in
    let var_of name =
      (match List.assoc_opt name vars with
       | Some f -> mk (flag f 0) (flag f 1) (flag f 2) (flag f 3) (flag f 4) (flag f 5) (flag f 6) (flag f 7)
       | None -> none) in
    let mmn_of pat =
      (match List.assoc_opt pat mmns with
       | Some "0" -> MmnErr | Some "1" -> MmnNo | Some "2" -> MmnYes
       | _ -> MmnErr) in
    let (nl, applied) = run var_of mmn_of (bytes_of_hex line) tree in
    let offered = List.length applied in
    let one rw =
      let ast = (match rw.rw_from_c, rw.rw_to_c with
          | Some fc, Some tc ->
            if parse_cond rw.rw_from = Some fc && parse_cond rw.rw_to = Some tc then "1" else "0"
          | _, _ -> "2") in
      kind_name rw.rw_kind ^ " " ^ hex_of_bytes rw.rw_from ^ " " ^ hex_of_bytes rw.rw_to ^ " " ^ ast in
    String.concat " " ([hex_of_bytes nl; string_of_int offered; string_of_int (List.length applied)] @ List.map one applied)
let b01 b = if b then "1" else "0"
let handle (args : string list) : string =
  match args with
  | "w" :: prefs :: line :: nv :: rest ->
    check_request (fun var_of mmn_of l tree ->
        check_line { cx_var = var_of; cx_seen_prefs = (prefs = "1"); cx_mmn = mmn_of } l tree) line nv rest
  | "f" :: hacks :: nl :: rest ->
    let (ltoks, rest) = take_n (int_of_string nl) rest in
    let pre = List.map fline_of ltoks in
    (match rest with
     | line :: nv :: rest ->
       let st = scan (init_state (hacks = "1")) pre in
       b01 st.fs_seen_prefs ^ " " ^ b01 (sure_after pre).su_prefs ^ " "
       ^ b01 (conditional_prefs_include { su_prefs = false; su_assigned = []; su_open = []; su_undef = [] } pre) ^ " "
       ^ (match rest with name :: _ when nv <> "0" -> b01 (in_strs (bytes_of_hex name) (sure_after pre).su_undef) | _ -> "0") ^ " "
       ^ check_request (fun var_of mmn_of l tree -> check_file_line var_of mmn_of (hacks = "1") pre l tree) line nv rest
     | _ -> "ERR:bad f request")
  | ["l"; path] ->
    let p = bytes_of_hex path in
    b01 (loads_prefs p) ^ " " ^ b01 (really_loads_prefs p) ^ " " ^ hex_of_bytes (path_base p)
  | "e" :: orig :: nw :: name :: values ->
    let o = bytes_of_hex orig and n = bytes_of_hex nw and nm = bytes_of_hex name in
    String.concat " " (List.map (fun tok ->
        let v = value_of tok in tri_letter (eval_text o nm v) ^ tri_letter (eval_text n nm v)) values)
  | "E" :: orig :: nw :: name :: k :: rest ->
    let o = bytes_of_hex orig and n = bytes_of_hex nw and nm = bytes_of_hex name in
    let (nested, values) = take_pairs (int_of_string k) rest in
    let nested = List.map (fun (a, b) -> (bytes_of_hex a, value_of b)) nested in
    String.concat " " (List.map (fun tok ->
        let binds = (nm, value_of tok) :: nested in
        tri_letter (eval_text_env o binds) ^ tri_letter (eval_text_env n binds)) values)
  | "x" :: pat :: k :: rest ->
    let (nested, rest) = take_pairs (int_of_string k) rest in
    if rest <> [] then "ERR:trailing tokens" else
    let nested = List.map (fun (a, b) -> (bytes_of_hex a, value_of b)) nested in
    (match expand_pat (env_of nested) (bytes_of_hex pat) with
     | Some q -> "S" ^ hex_of_bytes q
     | None -> "N")
  | "z" :: pat :: ws ->
    let p = bytes_of_hex pat in
    let firstnum = ref (-1) and firstzero = ref (-1) in
    List.iteri (fun i w ->
        let w = bytes_of_hex w in
        if str_match w p then
          (match try_parse_number w with
           | Some n ->
             if !firstnum < 0 then firstnum := i;
             if num_is_zero n && !firstzero < 0 then firstzero := i
           | None -> ())) ws;
    string_of_int !firstnum ^ " " ^ string_of_int !firstzero
  | ["p"; text] -> (match parse_cond (bytes_of_hex text) with Some _ -> "1" | None -> "0")
  | _ -> "ERR:bad request"
let () = serve handle
