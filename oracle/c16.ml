(* C16 oracle.  A file is given as its lines (hex, without newline).
   trim <n> line...            -> the lines after trim_file
   header <prefix> <n> line... -> the lines after fix_header
   sort <n> line...            -> the lines after isort
   cvsid <plain|mk|plist> <n> line...  -> ok <n> line... | panic        (check_cvsid)
   plist <n> line...                   -> ok <n> line... | panic | fuel (plist_pass)
   gzoffered <line>                    -> 0 | 1                          (gz_offered)
   usedby <name> <n> line...           -> ok <n> line... | panic        (used_by)
   load <bytes>                        -> <0|1 last line terminated> <n> line...   (load_file)
   save <0|1> <n> line...              -> bytes                          (save_file) *)
let out ls = string_of_int (List.length ls) ^ String.concat "" (List.map (fun l -> " " ^ hex_of_bytes l) ls)
let handle (args : string list) : string =
  match args with
  | "trim" :: _ :: ls -> out (trim_file (List.map bytes_of_hex ls))
  | "header" :: p :: _ :: ls -> out (fix_header (bytes_of_hex p) (List.map bytes_of_hex ls))
  | "sort" :: _ :: ls -> out (isort (List.map bytes_of_hex ls))
  | "cvsid" :: k :: _ :: ls ->
    let k = (match k with "mk" -> IdMk | "plist" -> IdPlist | _ -> IdPlain) in
    (match check_cvsid k (List.map bytes_of_hex ls) with Some o -> "ok " ^ out o | None -> "panic")
  | "plist" :: _ :: ls ->
    (match plist_pass (List.map bytes_of_hex ls) with POk o -> "ok " ^ out o | PPanic -> "panic" | PFuel -> "fuel")
  | "gzoffered" :: [l] -> if gz_offered (bytes_of_hex l) then "1" else "0"
  | "usedby" :: name :: _ :: ls ->
    (match used_by (bytes_of_hex name) (List.map bytes_of_hex ls) with Some o -> "ok " ^ out o | None -> "panic")
  | "load" :: [bs] ->
    let (ls, t) = load_file (bytes_of_hex bs) in (if t then "1 " else "0 ") ^ out ls
  | "save" :: t :: _ :: ls -> hex_of_bytes (save_file (List.map bytes_of_hex ls) (t = "1"))
  | _ -> "ERR:bad request"
let () = serve handle
