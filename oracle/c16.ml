(* C16 oracle.  A file is given as its lines (hex, without newline).
   trim <n> line...            -> the lines after trim_file
   header <prefix> <n> line... -> the lines after fix_header
   sort <n> line...            -> the lines after isort *)
let out ls = string_of_int (List.length ls) ^ String.concat "" (List.map (fun l -> " " ^ hex_of_bytes l) ls)
let handle (args : string list) : string =
  match args with
  | "trim" :: _ :: ls -> out (trim_file (List.map bytes_of_hex ls))
  | "header" :: p :: _ :: ls -> out (fix_header (bytes_of_hex p) (List.map bytes_of_hex ls))
  | "sort" :: _ :: ls -> out (isort (List.map bytes_of_hex ls))
  | _ -> "ERR:bad request"
let () = serve handle
