(* C12 oracle: "cmp <hexA> <hexB>" -> "<model sign> <dewey sign>"; "nv <hex>" -> fields *)
let handle (args : string list) : string =
  match args with
  | ["cmp"; a; b] ->
    let a = bytes_of_hex a and b = bytes_of_hex b in
    string_of_z (compare_sign a b) ^ " " ^ string_of_z (dewey_sign a b) ^ (if dewey_in_range a b then " 1" else " 0")
  | ["nv"; a] ->
    (match new_version (bytes_of_hex a) with
     | None -> "outoffuel"
     | Some (v, nb) -> String.concat "," (List.map string_of_z v) ^ ";" ^ string_of_z nb)
  | _ -> "ERR:bad request"
let () = serve handle
