package main

import (
	"fmt"
	"go/ast"
	"go/token"
	"os"
	"path/filepath"
	"strconv"
	"strings"
)

// C11: two translators.
//
//	shellgrammar: shell.y (token declarations + rule section, parsed here)
//	              -> Gen/ShellGrammar.v: terminals, nonterminals, the production
//	              list, and one constructor of `derives` per production.
//	shelltables:  shellyacc.go (go/ast: the table literals and constants written
//	              by goyacc) -> Gen/ShellTables.v.
//
// Productions are numbered as goyacc numbers them: 1.. in source order
// (production 0 is the implicit `$accept : start $end`).

type yProd struct {
	lhs  string
	rhs  []string
	line int
}

type yGrammar struct {
	tokens   []string // %token names in declaration order
	nonterms []string // in order of first appearance as a left-hand side
	prods    []yProd
	start    string
}

// ---- shell.y ----

type yTok struct {
	kind string // id colon bar semi mark
	text string
	line int
}

// yScan splits the text of a yacc file into identifiers and punctuation,
// skipping comments, %{ %} blocks, %union bodies and { action } blocks.
func yScan(src string) ([]yTok, error) {
	var toks []yTok
	line := 1
	i := 0
	n := len(src)
	skipBraces := func() error { // src[i] == '{'
		depth := 0
		for i < n {
			c := src[i]
			switch {
			case c == '\n':
				line++
				i++
			case c == '/' && i+1 < n && src[i+1] == '*':
				j := strings.Index(src[i+2:], "*/")
				if j < 0 {
					return fmt.Errorf("line %d: unterminated comment", line)
				}
				line += strings.Count(src[i:i+2+j+2], "\n")
				i += 2 + j + 2
			case c == '/' && i+1 < n && src[i+1] == '/':
				for i < n && src[i] != '\n' {
					i++
				}
			case c == '"' || c == '\'':
				q := c
				i++
				for i < n && src[i] != q {
					if src[i] == '\\' {
						i++
					}
					if i < n && src[i] == '\n' {
						line++
					}
					i++
				}
				i++
			case c == '`':
				i++
				for i < n && src[i] != '`' {
					if src[i] == '\n' {
						line++
					}
					i++
				}
				i++
			case c == '{':
				depth++
				i++
			case c == '}':
				depth--
				i++
				if depth == 0 {
					return nil
				}
			default:
				i++
			}
		}
		return fmt.Errorf("line %d: unterminated { block", line)
	}
	isIdent := func(c byte) bool {
		return c == '_' || c == '.' || c == '$' || c >= '0' && c <= '9' || c >= 'a' && c <= 'z' || c >= 'A' && c <= 'Z'
	}
	for i < n {
		c := src[i]
		switch {
		case c == '\n':
			line++
			i++
		case c == ' ' || c == '\t' || c == '\r':
			i++
		case c == '/' && i+1 < n && src[i+1] == '*':
			j := strings.Index(src[i+2:], "*/")
			if j < 0 {
				return nil, fmt.Errorf("line %d: unterminated comment", line)
			}
			line += strings.Count(src[i:i+2+j+2], "\n")
			i += 2 + j + 2
		case c == '/' && i+1 < n && src[i+1] == '/':
			for i < n && src[i] != '\n' {
				i++
			}
		case c == '%' && i+1 < n && src[i+1] == '{':
			j := strings.Index(src[i:], "%}")
			if j < 0 {
				return nil, fmt.Errorf("line %d: unterminated %%{", line)
			}
			line += strings.Count(src[i:i+j+2], "\n")
			i += j + 2
		case c == '%' && i+1 < n && src[i+1] == '%':
			toks = append(toks, yTok{"mark", "%%", line})
			i += 2
		case c == '%':
			j := i + 1
			for j < n && isIdent(src[j]) {
				j++
			}
			toks = append(toks, yTok{"directive", src[i:j], line})
			i = j
		case c == '<':
			j := strings.IndexByte(src[i:], '>')
			if j < 0 {
				return nil, fmt.Errorf("line %d: unterminated <type>", line)
			}
			toks = append(toks, yTok{"type", src[i : i+j+1], line})
			i += j + 1
		case c == '{':
			l0 := line
			if err := skipBraces(); err != nil {
				return nil, err
			}
			toks = append(toks, yTok{"action", "{}", l0})
		case c == ':':
			toks = append(toks, yTok{"colon", ":", line})
			i++
		case c == '|':
			toks = append(toks, yTok{"bar", "|", line})
			i++
		case c == ';':
			toks = append(toks, yTok{"semi", ";", line})
			i++
		case c == '\'':
			return nil, fmt.Errorf("line %d: character literals as terminals are not supported by this translator", line)
		case isIdent(c):
			j := i
			for j < n && isIdent(src[j]) {
				j++
			}
			toks = append(toks, yTok{"id", src[i:j], line})
			i = j
		default:
			return nil, fmt.Errorf("line %d: unexpected character %q", line, c)
		}
	}
	return toks, nil
}

func parseYacc(path string) (*yGrammar, error) {
	data, err := os.ReadFile(path)
	if err != nil {
		return nil, err
	}
	toks, err := yScan(string(data))
	if err != nil {
		return nil, err
	}
	g := &yGrammar{}
	i := 0
	// declarations
	for i < len(toks) && toks[i].kind != "mark" {
		t := toks[i]
		if t.kind != "directive" {
			return nil, fmt.Errorf("line %d: expected a %%directive, got %q", t.line, t.text)
		}
		i++
		switch t.text {
		case "%token":
			for i < len(toks) && (toks[i].kind == "id" || toks[i].kind == "type") {
				if toks[i].kind == "id" {
					g.tokens = append(g.tokens, toks[i].text)
				}
				i++
			}
		case "%type":
			for i < len(toks) && (toks[i].kind == "id" || toks[i].kind == "type") {
				i++
			}
		case "%union":
			if i >= len(toks) || toks[i].kind != "action" {
				return nil, fmt.Errorf("line %d: %%union without a body", t.line)
			}
			i++
		case "%start":
			if i < len(toks) && toks[i].kind == "id" {
				g.start = toks[i].text
				i++
			}
		default:
			// %left %right %nonassoc %prec would change the tables in ways the
			// Coq side does not model: refuse rather than translate wrongly
			return nil, fmt.Errorf("line %d: directive %s is not supported by this translator", t.line, t.text)
		}
	}
	if i >= len(toks) {
		return nil, fmt.Errorf("no %%%% mark found")
	}
	i++ // the mark
	isTok := map[string]bool{}
	for _, t := range g.tokens {
		if isTok[t] {
			return nil, fmt.Errorf("token %s declared twice", t)
		}
		isTok[t] = true
	}
	seenNT := map[string]bool{}
	for i < len(toks) && toks[i].kind != "mark" {
		if toks[i].kind != "id" || i+1 >= len(toks) || toks[i+1].kind != "colon" {
			return nil, fmt.Errorf("line %d: expected `name :`, got %q", toks[i].line, toks[i].text)
		}
		lhs := toks[i].text
		if isTok[lhs] {
			return nil, fmt.Errorf("line %d: token %s on the left-hand side", toks[i].line, lhs)
		}
		if !seenNT[lhs] {
			seenNT[lhs] = true
			g.nonterms = append(g.nonterms, lhs)
		}
		i += 2
		cur := yProd{lhs: lhs, line: toks[i-2].line}
	alt:
		for {
			switch {
			case i >= len(toks) || toks[i].kind == "mark":
				g.prods = append(g.prods, cur)
				break alt
			case toks[i].kind == "id" && i+1 < len(toks) && toks[i+1].kind == "colon":
				g.prods = append(g.prods, cur)
				break alt
			case toks[i].kind == "id":
				cur.rhs = append(cur.rhs, toks[i].text)
				i++
			case toks[i].kind == "action":
				// a mid-rule action would introduce a hidden empty nonterminal
				if i+1 < len(toks) && (toks[i+1].kind == "id" && !(i+2 < len(toks) && toks[i+2].kind == "colon")) {
					return nil, fmt.Errorf("line %d: mid-rule action is not supported by this translator", toks[i].line)
				}
				i++
			case toks[i].kind == "bar":
				g.prods = append(g.prods, cur)
				cur = yProd{lhs: lhs, line: toks[i].line}
				i++
			case toks[i].kind == "semi":
				g.prods = append(g.prods, cur)
				i++
				break alt
			default:
				return nil, fmt.Errorf("line %d: unexpected %q in a rule", toks[i].line, toks[i].text)
			}
		}
	}
	if g.start == "" && len(g.prods) > 0 {
		g.start = g.prods[0].lhs
	}
	for _, p := range g.prods {
		for _, s := range p.rhs {
			if !isTok[s] && !seenNT[s] {
				return nil, fmt.Errorf("line %d: symbol %s is neither a declared token nor a nonterminal", p.line, s)
			}
		}
	}
	return g, nil
}

func genShellGrammar(src string) (string, string, error) {
	g, err := parseYacc(filepath.Join(src, "shell.y"))
	if err != nil {
		return "", "", err
	}
	if len(g.prods) == 0 || len(g.tokens) == 0 {
		return "", "", fmt.Errorf("shell.y: no productions or no tokens")
	}
	isTok := map[string]bool{}
	for _, t := range g.tokens {
		isTok[t] = true
	}
	var b strings.Builder
	b.WriteString("(* GENERATED by gen/c11.go from v23/shell.y -- do not edit.\n")
	b.WriteString("   Terminals (%token, in declaration order), nonterminals (in order of first\n")
	b.WriteString("   appearance as a left-hand side), the production list in goyacc's numbering\n")
	b.WriteString("   (1.., production 0 = $accept : start $end is implicit), and the derivation\n")
	b.WriteString("   relation with one constructor per production. *)\n")
	b.WriteString("From Coq Require Import List.\nImport ListNotations.\n\n")
	b.WriteString("Inductive term : Set :=\n")
	for _, t := range g.tokens {
		fmt.Fprintf(&b, "| %s\n", t)
	}
	b.WriteString(".\n\nInductive nonterm : Set :=\n")
	for _, n := range g.nonterms {
		fmt.Fprintf(&b, "| nt_%s\n", n)
	}
	b.WriteString(".\n\nScheme Equality for term.\nScheme Equality for nonterm.\n\n")
	b.WriteString("Inductive symbol : Set := T (t : term) | NT (n : nonterm).\n\n")
	fmt.Fprintf(&b, "Definition start_symbol : nonterm := nt_%s.\n\n", g.start)
	b.WriteString("Definition all_terms : list term :=\n  [")
	b.WriteString(strings.Join(g.tokens, "; "))
	b.WriteString("].\n\nDefinition all_nonterms : list nonterm :=\n  [")
	for i, n := range g.nonterms {
		if i > 0 {
			b.WriteString("; ")
		}
		b.WriteString("nt_" + n)
	}
	b.WriteString("].\n\n(* production k of goyacc is the element with index k-1 *)\n")
	b.WriteString("Definition productions : list (nonterm * list symbol) :=\n  [ ")
	for i, p := range g.prods {
		if i > 0 {
			b.WriteString("  ; ")
		}
		var syms []string
		for _, s := range p.rhs {
			if isTok[s] {
				syms = append(syms, "T "+s)
			} else {
				syms = append(syms, "NT nt_"+s)
			}
		}
		fmt.Fprintf(&b, "(nt_%s, [%s]) (* %d, shell.y:%d *)\n", p.lhs, strings.Join(syms, "; "), i+1, p.line)
	}
	b.WriteString("  ].\n\n")
	// constructor D_<lhs>_<k>: the k-th production of that nonterminal in source order
	// (a new production then renames only the later ones of the same nonterminal)
	perLhs := map[string]int{}
	b.WriteString("Inductive derives : nonterm -> list term -> Prop :=\n")
	for _, p := range g.prods {
		var binders, hyps []string
		for k, s := range p.rhs {
			if !isTok[s] {
				binders = append(binders, fmt.Sprintf("w%d", k+1))
				hyps = append(hyps, fmt.Sprintf("derives nt_%s w%d", s, k+1))
			}
		}
		// the yield, right-nested: terminals are consed, nonterminal yields appended
		yield := ""
		for k := len(p.rhs) - 1; k >= 0; k-- {
			s := p.rhs[k]
			switch {
			case isTok[s] && yield == "":
				yield = "[" + s + "]"
			case isTok[s]:
				yield = s + " :: " + yield
			case yield == "":
				yield = fmt.Sprintf("w%d", k+1)
			default:
				yield = fmt.Sprintf("w%d ++ %s", k+1, yield)
			}
		}
		if yield == "" {
			yield = "[]"
		}
		perLhs[p.lhs]++
		fmt.Fprintf(&b, "| D_%s_%d :", p.lhs, perLhs[p.lhs])
		if len(binders) > 0 {
			fmt.Fprintf(&b, " forall %s,", strings.Join(binders, " "))
		}
		for _, h := range hyps {
			fmt.Fprintf(&b, " %s ->", h)
		}
		fmt.Fprintf(&b, "\n    derives nt_%s (%s)\n", p.lhs, yield)
	}
	b.WriteString(".\n")
	return "ShellGrammar.v", b.String(), nil
}

// ---- shellyacc.go ----

func intValue(e ast.Expr) (int, bool) {
	neg := false
	for {
		if p, ok := e.(*ast.ParenExpr); ok {
			e = p.X
			continue
		}
		if u, ok := e.(*ast.UnaryExpr); ok && u.Op == token.SUB {
			neg = !neg
			e = u.X
			continue
		}
		break
	}
	bl, ok := e.(*ast.BasicLit)
	if !ok || bl.Kind != token.INT {
		return 0, false
	}
	n, err := strconv.ParseInt(bl.Value, 0, 64)
	if err != nil {
		return 0, false
	}
	if neg {
		n = -n
	}
	return int(n), true
}

type yaccTables struct {
	consts map[string]int
	tables map[string][]int
	names  []string // shyyToknames
}

func readYaccTables(path string) (*yaccTables, error) {
	_, f, err := parseFile(path)
	if err != nil {
		return nil, err
	}
	yt := &yaccTables{consts: map[string]int{}, tables: map[string][]int{}}
	for _, d := range f.Decls {
		gd, ok := d.(*ast.GenDecl)
		if !ok || (gd.Tok != token.CONST && gd.Tok != token.VAR) {
			continue
		}
		for _, sp := range gd.Specs {
			vs := sp.(*ast.ValueSpec)
			for k, name := range vs.Names {
				if k >= len(vs.Values) {
					continue
				}
				v := vs.Values[k]
				if gd.Tok == token.CONST {
					if n, ok := intValue(v); ok {
						yt.consts[name.Name] = n
					}
					continue
				}
				cl, ok := v.(*ast.CompositeLit)
				if !ok {
					continue
				}
				at, ok := cl.Type.(*ast.ArrayType)
				if !ok {
					continue
				}
				el, _ := at.Elt.(*ast.Ident)
				if el == nil {
					continue
				}
				if el.Name == "string" && name.Name == "shyyToknames" {
					for _, e := range cl.Elts {
						bl, ok := e.(*ast.BasicLit)
						if !ok || bl.Kind != token.STRING {
							return nil, fmt.Errorf("shyyToknames: non-literal element")
						}
						s, err := strconv.Unquote(bl.Value)
						if err != nil {
							return nil, err
						}
						yt.names = append(yt.names, s)
					}
					continue
				}
				if !strings.HasPrefix(el.Name, "int") && !strings.HasPrefix(el.Name, "uint") {
					continue
				}
				var vals []int
				for _, e := range cl.Elts {
					if _, isKV := e.(*ast.KeyValueExpr); isKV {
						return nil, fmt.Errorf("%s: keyed element in a table literal", name.Name)
					}
					n, ok := intValue(e)
					if !ok {
						return nil, fmt.Errorf("%s: non-literal element", name.Name)
					}
					vals = append(vals, n)
				}
				yt.tables[name.Name] = vals
			}
		}
	}
	return yt, nil
}

func coqZList(vals []int) string {
	var b strings.Builder
	b.WriteString("[")
	for i, v := range vals {
		if i > 0 {
			if i%16 == 0 {
				b.WriteString(";\n   ")
			} else {
				b.WriteString("; ")
			}
		}
		if v < 0 {
			fmt.Fprintf(&b, "(%d)", v)
		} else {
			fmt.Fprintf(&b, "%d", v)
		}
	}
	b.WriteString("]")
	return b.String()
}

func genShellTables(src string) (string, string, error) {
	yt, err := readYaccTables(filepath.Join(src, "shellyacc.go"))
	if err != nil {
		return "", "", err
	}
	g, err := parseYacc(filepath.Join(src, "shell.y"))
	if err != nil {
		return "", "", err
	}
	wantT := []string{"shyyExca", "shyyAct", "shyyPact", "shyyPgo", "shyyR1", "shyyR2", "shyyChk", "shyyDef", "shyyTok1", "shyyTok2", "shyyTok3"}
	wantC := []string{"shyyLast", "shyyPrivate", "shyyFlag", "shyyEofCode", "shyyErrCode"}
	for _, n := range wantT {
		if _, ok := yt.tables[n]; !ok {
			return "", "", fmt.Errorf("table %s not found in shellyacc.go", n)
		}
	}
	for _, n := range wantC {
		if _, ok := yt.consts[n]; !ok {
			return "", "", fmt.Errorf("constant %s not found in shellyacc.go", n)
		}
	}
	var b strings.Builder
	b.WriteString("(* GENERATED by gen/c11.go from v23/shellyacc.go (go/ast) -- do not edit.\n")
	b.WriteString("   The tables and constants goyacc wrote, the value Lex returns for every\n")
	b.WriteString("   terminal (the tk* constants), and goyacc's token names. *)\n")
	b.WriteString("From Coq Require Import ZArith List.\nImport ListNotations.\nFrom PV Require Import Gen.ShellGrammar.\nOpen Scope Z_scope.\n\n")
	for _, n := range wantC {
		fmt.Fprintf(&b, "Definition %s : Z := %d.\n", n, yt.consts[n])
	}
	b.WriteString("\n")
	for _, n := range wantT {
		fmt.Fprintf(&b, "Definition %s : list Z :=\n  %s.\n\n", n, coqZList(yt.tables[n]))
	}
	// what Lex returns per terminal
	b.WriteString("(* the value ShellLexer.Lex returns for each terminal *)\nDefinition tok_code (t : term) : Z :=\n  match t with\n")
	for _, t := range g.tokens {
		c, ok := yt.consts[t]
		if !ok {
			return "", "", fmt.Errorf("constant %s (declared %%token in shell.y) not found in shellyacc.go", t)
		}
		fmt.Fprintf(&b, "  | %s => %d\n", t, c)
	}
	b.WriteString("  end.\n\n")
	// goyacc's internal numbering: index in shyyToknames + 1
	b.WriteString("(* goyacc's internal number of each terminal: its position in shyyToknames, from 1 *)\nDefinition tok_internal (t : term) : Z :=\n  match t with\n")
	pos := map[string]int{}
	for i, n := range yt.names {
		pos[n] = i + 1
	}
	for _, t := range g.tokens {
		p, ok := pos[t]
		if !ok {
			return "", "", fmt.Errorf("token %s missing from shyyToknames", t)
		}
		fmt.Fprintf(&b, "  | %s => %d\n", t, p)
	}
	b.WriteString("  end.\n\n")
	// nonterminal numbering as used by shyyR1: derived from the tables, must be consistent
	r1 := yt.tables["shyyR1"]
	if len(r1) != len(g.prods)+1 {
		return "", "", fmt.Errorf("shyyR1 has %d entries, shell.y has %d productions (+1)", len(r1), len(g.prods))
	}
	ntNum := map[string]int{}
	numNt := map[int]string{}
	for i, p := range g.prods {
		n := r1[i+1]
		if old, ok := ntNum[p.lhs]; ok && old != n {
			return "", "", fmt.Errorf("shyyR1 gives nonterminal %s two numbers (%d, %d)", p.lhs, old, n)
		}
		if old, ok := numNt[n]; ok && old != p.lhs {
			return "", "", fmt.Errorf("shyyR1 gives number %d to %s and %s", n, old, p.lhs)
		}
		ntNum[p.lhs] = n
		numNt[n] = p.lhs
	}
	b.WriteString("(* goyacc's number of each nonterminal, read off shyyR1 *)\nDefinition nt_number (n : nonterm) : Z :=\n  match n with\n")
	for _, n := range g.nonterms {
		fmt.Fprintf(&b, "  | nt_%s => %d\n", n, ntNum[n])
	}
	b.WriteString("  end.\n\n")
	b.WriteString("Definition shyyToknames_count : Z := " + strconv.Itoa(len(yt.names)) + ".\n")
	return "ShellTables.v", b.String(), nil
}

func init() {
	generators["shellgrammar"] = genShellGrammar
	generators["shelltables"] = genShellTables
}
