package main

import (
	"fmt"
	"go/ast"
	"go/token"
	"path/filepath"
	"sort"
	"strconv"
	"strings"
)

// condsimp: the literal byte sets and regular expressions that decide which
// condition rewrites pkglint offers (C14) -> Gen/CondSimpSets.v
//
//	mkcondchecker.go    var mkCondStringLiteralUnquoted = textproc.NewByteSet("...")
//	                    var mkCondModifierPatternLiteral = textproc.NewByteSet("...")
//	mktypes.go          MatchMatch: strings.ContainsAny(str[1:], "...")
//	mkcondsimplifier.go simplifyWord:  matches(pattern, `^[\d+\-.]`)         (class expanded, text emitted)
//	                    simplifyMatch: matches(expr.Mod(), `^[...]+$`)      (class expanded)
func genCondSimp(src string) (string, string, error) {
	strLit := func(e ast.Expr) (string, bool) {
		bl, ok := e.(*ast.BasicLit)
		if !ok || bl.Kind != token.STRING {
			return "", false
		}
		s, err := strconv.Unquote(bl.Value)
		return s, err == nil
	}
	// textproc.NewByteSet semantics (lexer.go): "a-b" is a range when a '-' follows
	// and one more byte exists
	byteSet := func(chars string) []int {
		var set [256]bool
		for i := 0; i < len(chars); {
			if i+2 < len(chars) && chars[i+1] == '-' {
				for c := int(chars[i]); c <= int(chars[i+2]); c++ {
					set[c] = true
				}
				i += 3
			} else {
				set[chars[i]] = true
				i++
			}
		}
		var out []int
		for c, b := range set {
			if b {
				out = append(out, c)
			}
		}
		return out
	}
	coqSet := func(xs []int) string {
		sort.Ints(xs)
		parts := make([]string, len(xs))
		for i, x := range xs {
			parts[i] = strconv.Itoa(x)
		}
		return "[" + strings.Join(parts, "; ") + "]"
	}

	// 1. the two byte sets
	_, f, err := parseFile(filepath.Join(src, "mkcondchecker.go"))
	if err != nil {
		return "", "", err
	}
	sets := map[string][]int{}
	for _, d := range f.Decls {
		gd, ok := d.(*ast.GenDecl)
		if !ok || gd.Tok != token.VAR {
			continue
		}
		for _, sp := range gd.Specs {
			vs := sp.(*ast.ValueSpec)
			if len(vs.Names) != 1 || len(vs.Values) != 1 {
				continue
			}
			name := vs.Names[0].Name
			if name != "mkCondStringLiteralUnquoted" && name != "mkCondModifierPatternLiteral" {
				continue
			}
			call, ok := vs.Values[0].(*ast.CallExpr)
			if !ok || len(call.Args) != 1 {
				return "", "", fmt.Errorf("%s is not a NewByteSet(...) call", name)
			}
			sel, ok := call.Fun.(*ast.SelectorExpr)
			if !ok || sel.Sel.Name != "NewByteSet" {
				return "", "", fmt.Errorf("%s is not a NewByteSet(...) call", name)
			}
			s, ok := strLit(call.Args[0])
			if !ok {
				return "", "", fmt.Errorf("%s: argument is not a string literal", name)
			}
			sets[name] = byteSet(s)
		}
	}
	if sets["mkCondStringLiteralUnquoted"] == nil || sets["mkCondModifierPatternLiteral"] == nil {
		return "", "", fmt.Errorf("byte set literals not found in mkcondchecker.go")
	}

	// 2. MatchMatch's ContainsAny set
	_, f2, err := parseFile(filepath.Join(src, "mktypes.go"))
	if err != nil {
		return "", "", err
	}
	mm := findFunc(f2, "MatchMatch")
	if mm == nil {
		return "", "", fmt.Errorf("MatchMatch not found")
	}
	special := ""
	nAny := 0
	ast.Inspect(mm, func(n ast.Node) bool {
		if c, ok := n.(*ast.CallExpr); ok {
			if sel, ok := c.Fun.(*ast.SelectorExpr); ok && sel.Sel.Name == "ContainsAny" && len(c.Args) == 2 {
				if s, ok := strLit(c.Args[1]); ok {
					special = s
					nAny++
				}
			}
		}
		return true
	})
	if nAny != 1 {
		return "", "", fmt.Errorf("MatchMatch: expected exactly one strings.ContainsAny(_, \"...\"), found %d", nAny)
	}
	var specialSet []int
	for i := 0; i < len(special); i++ {
		specialSet = append(specialSet, int(special[i]))
	}

	// 3. the regular expressions in simplifyWord / simplifyMatch
	_, f3, err := parseFile(filepath.Join(src, "mkcondsimplifier.go"))
	if err != nil {
		return "", "", err
	}
	regexesIn := func(fn string) ([]string, error) {
		fd := findFunc(f3, fn)
		if fd == nil {
			return nil, fmt.Errorf("%s not found", fn)
		}
		var res []string
		ast.Inspect(fd, func(n ast.Node) bool {
			if c, ok := n.(*ast.CallExpr); ok {
				if id, ok := c.Fun.(*ast.Ident); ok && id.Name == "matches" && len(c.Args) == 2 {
					if s, ok := strLit(c.Args[1]); ok {
						res = append(res, s)
					} else {
						res = append(res, "<non-literal>")
					}
				}
			}
			return true
		})
		return res, nil
	}
	rw, err := regexesIn("simplifyWord")
	if err != nil {
		return "", "", err
	}
	if len(rw) != 1 {
		return "", "", fmt.Errorf("simplifyWord: expected one matches(_, regex), found %d", len(rw))
	}
	rm, err := regexesIn("simplifyMatch")
	if err != nil {
		return "", "", err
	}
	if len(rm) != 1 {
		return "", "", fmt.Errorf("simplifyMatch: expected one matches(_, regex), found %d", len(rm))
	}
	// a regex character class with the escapes \- \w \d \[ \] ... only
	classSet := func(where, rx, body string) ([]int, error) {
		var set [256]bool
		for i := 0; i < len(body); i++ {
			c := body[i]
			switch {
			case c == '\\' && i+1 < len(body):
				i++
				switch body[i] {
				case 'w':
					for b := 0; b < 256; b++ {
						if b >= '0' && b <= '9' || b >= 'A' && b <= 'Z' || b >= 'a' && b <= 'z' || b == '_' {
							set[b] = true
						}
					}
				case 'd':
					for b := '0'; b <= '9'; b++ {
						set[b] = true
					}
				case '-', '[', ']', '.', '\\', '*', '+', '?', '$', '^', '(', ')', '{', '}', '|', ':':
					set[body[i]] = true
				default:
					return nil, fmt.Errorf("%s: unsupported escape \\%c in %q", where, body[i], rx)
				}
			case c == '^' && i == 0, c == '[', c == ']':
				return nil, fmt.Errorf("%s: unsupported character class syntax in %q", where, rx)
			case i+2 < len(body) && body[i+1] == '-' && body[i+2] != '\\':
				for b := int(c); b <= int(body[i+2]); b++ {
					set[b] = true
				}
				i += 2
			default:
				set[c] = true
			}
		}
		var out []int
		for b, ok := range set {
			if ok {
				out = append(out, b)
			}
		}
		return out, nil
	}
	// simplifyMatch: ^[class]+$
	cls := rm[0]
	if !strings.HasPrefix(cls, "^[") || !strings.HasSuffix(cls, "]+$") {
		return "", "", fmt.Errorf("simplifyMatch: regex %q is not of the shape ^[...]+$", cls)
	}
	simpleSet, err := classSet("simplifyMatch", cls, cls[2:len(cls)-3])
	if err != nil {
		return "", "", err
	}
	// simplifyWord: ^[class] -- the first byte of a pattern that make may read as a number
	num := rw[0]
	if !strings.HasPrefix(num, "^[") || !strings.HasSuffix(num, "]") || strings.Count(num, "]") != 1 {
		return "", "", fmt.Errorf("simplifyWord: regex %q is not of the shape ^[...]", num)
	}
	numericHeadSet, err := classSet("simplifyWord", num, num[2:len(num)-1])
	if err != nil {
		return "", "", err
	}

	// 4. util.go LoadsPrefs: the basenames of the files whose inclusion sets Tools.SeenPrefs, and the
	// directory under which every file is taken to do so.  Required shape:
	//	switch filename.Base() { case "a", "b", ...: return true }
	//	return filename.ContainsPath("mk")
	_, f4, err := parseFile(filepath.Join(src, "util.go"))
	if err != nil {
		return "", "", err
	}
	lp := findFunc(f4, "LoadsPrefs")
	if lp == nil || lp.Body == nil {
		return "", "", fmt.Errorf("LoadsPrefs not found in util.go")
	}
	if lp.Type.Params == nil || len(lp.Type.Params.List) != 1 || len(lp.Type.Params.List[0].Names) != 1 {
		return "", "", fmt.Errorf("LoadsPrefs: expected one parameter")
	}
	lpParam := lp.Type.Params.List[0].Names[0].Name
	isParamCall := func(e ast.Expr, method string, nargs int) (*ast.CallExpr, bool) {
		c, ok := e.(*ast.CallExpr)
		if !ok || len(c.Args) != nargs {
			return nil, false
		}
		sel, ok := c.Fun.(*ast.SelectorExpr)
		if !ok || sel.Sel.Name != method {
			return nil, false
		}
		id, ok := sel.X.(*ast.Ident)
		return c, ok && id.Name == lpParam
	}
	isReturnTrue := func(st ast.Stmt) bool {
		r, ok := st.(*ast.ReturnStmt)
		if !ok || len(r.Results) != 1 {
			return false
		}
		id, ok := r.Results[0].(*ast.Ident)
		return ok && id.Name == "true"
	}
	if len(lp.Body.List) != 2 {
		return "", "", fmt.Errorf("LoadsPrefs: expected `switch filename.Base() {...}; return filename.ContainsPath(...)`, found %d statements", len(lp.Body.List))
	}
	sw, ok := lp.Body.List[0].(*ast.SwitchStmt)
	if !ok || sw.Init != nil || sw.Tag == nil {
		return "", "", fmt.Errorf("LoadsPrefs: first statement is not a plain switch")
	}
	if _, ok := isParamCall(sw.Tag, "Base", 0); !ok {
		return "", "", fmt.Errorf("LoadsPrefs: the switch is not on %s.Base()", lpParam)
	}
	var prefsNames []string
	for _, st := range sw.Body.List {
		cc := st.(*ast.CaseClause)
		if cc.List == nil {
			return "", "", fmt.Errorf("LoadsPrefs: default clause in the switch")
		}
		if len(cc.Body) != 1 || !isReturnTrue(cc.Body[0]) {
			return "", "", fmt.Errorf("LoadsPrefs: a case does something other than `return true`")
		}
		for _, e := range cc.List {
			s, ok := strLit(e)
			if !ok {
				return "", "", fmt.Errorf("LoadsPrefs: case label is not a string literal")
			}
			prefsNames = append(prefsNames, s)
		}
	}
	ret, ok := lp.Body.List[1].(*ast.ReturnStmt)
	if !ok || len(ret.Results) != 1 {
		return "", "", fmt.Errorf("LoadsPrefs: second statement is not a return")
	}
	cp, ok := isParamCall(ret.Results[0], "ContainsPath", 1)
	if !ok {
		return "", "", fmt.Errorf("LoadsPrefs: the final return is not %s.ContainsPath(\"...\")", lpParam)
	}
	prefsDir, ok := strLit(cp.Args[0])
	if !ok || prefsDir == "" || strings.ContainsAny(prefsDir, "./") {
		return "", "", fmt.Errorf("LoadsPrefs: ContainsPath argument is not a plain component literal")
	}
	sort.Strings(prefsNames)
	prefsNamesCoq := make([]string, len(prefsNames))
	for i, n := range prefsNames {
		prefsNamesCoq[i] = coqBytes(n) + " (* " + n + " *)"
	}

	var sb strings.Builder
	sb.WriteString("(* GENERATED by gen/ from /repo/v23/{mkcondchecker,mktypes,mkcondsimplifier,util}.go -- do not edit *)\n")
	sb.WriteString("From PV Require Import Lib.Bytes.\nOpen Scope N_scope.\n")
	sb.WriteString("(* mkCondStringLiteralUnquoted *)\n")
	sb.WriteString("Definition lit_unquoted_set : list N := " + coqSet(sets["mkCondStringLiteralUnquoted"]) + ".\n")
	sb.WriteString("(* mkCondModifierPatternLiteral *)\n")
	sb.WriteString("Definition lit_pattern_set : list N := " + coqSet(sets["mkCondModifierPatternLiteral"]) + ".\n")
	sb.WriteString("(* MatchMatch: strings.ContainsAny(str[1:], ...) *)\n")
	sb.WriteString("Definition match_special_set : list N := " + coqSet(specialSet) + ".\n")
	sb.WriteString("(* simplifyMatch: the character class of the regex on expr.Mod() *)\n")
	sb.WriteString("Definition simple_mod_set : list N := " + coqSet(simpleSet) + ".\n")
	sb.WriteString("(* simplifyWord: the first byte of a pattern that is treated as a number (character class of the regex) *)\n")
	sb.WriteString("Definition numeric_head_set : list N := " + coqSet(numericHeadSet) + ".\n")
	sb.WriteString("(* simplifyWord: that regex, as bytes *)\n")
	sb.WriteString("Definition needs_quotes_regex : str := " + coqBytes(rw[0]) + ".\n")
	sb.WriteString("(* util.go LoadsPrefs: switch filename.Base() { case ...: return true } *)\n")
	sb.WriteString("Definition loads_prefs_names : list str :=\n  [" + strings.Join(prefsNamesCoq, ";\n   ") + "].\n")
	sb.WriteString("(* util.go LoadsPrefs: return filename.ContainsPath(...) *)\n")
	sb.WriteString("Definition loads_prefs_dir : str := " + coqBytes(prefsDir) + ".\n")
	return "CondSimpSets.v", sb.String(), nil
}

func init() { generators["condsimp"] = genCondSimp }
