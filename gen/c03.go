package main

import (
	"fmt"
	"go/ast"
	"go/parser"
	"go/token"
	"go/types"
	"os"
	"path/filepath"
	"sort"
	"strconv"
	"strings"
)

// replaceargs (C03): the theorem about histories that end with the PLIST sorter
// carries the guard "no argument of Replace / ReplaceAfter / ReplaceAt contains
// a newline".  This audit lists every call of these three Autofix methods in the
// non-test code of /repo/v23 and classifies each argument:
//
//	literal        a string literal (or a concatenation of literals); those that
//	               contain "\n" are listed in replace_newline_literal_sites, and
//	               Props/C03.v pins that list (today: the CR fix of patch hunks,
//	               which is never followed by the PLIST sorter), so that a new one
//	               breaks a proof obligation
//	non-literal    anything else: reported, per call site, as the residual
//	               assumption (values computed at run time from line texts, which
//	               pkglint takes from Line.Text / RawText, i.e. without "\n")
//
// Output: Gen/ReplaceArgs.v with the number of newline literals (0) and the
// list of call sites with their non-literal arguments.

type replaceSite struct {
	file, fn, method string
	nonLiteral      []string
}

// literalValue returns the value of a string literal or a + concatenation of literals.
func literalValue(e ast.Expr) (string, bool) {
	switch x := e.(type) {
	case *ast.BasicLit:
		if x.Kind == token.STRING {
			s, err := strconv.Unquote(x.Value)
			return s, err == nil
		}
	case *ast.BinaryExpr:
		if x.Op == token.ADD {
			a, ok1 := literalValue(x.X)
			b, ok2 := literalValue(x.Y)
			return a + b, ok1 && ok2
		}
	case *ast.ParenExpr:
		return literalValue(x.X)
	}
	return "", false
}

// literalParts collects the literal pieces of a concatenation that is not fully literal.
func literalParts(e ast.Expr, out *[]string) {
	switch x := e.(type) {
	case *ast.BasicLit:
		if s, ok := literalValue(x); ok {
			*out = append(*out, s)
		}
	case *ast.BinaryExpr:
		literalParts(x.X, out)
		literalParts(x.Y, out)
	case *ast.ParenExpr:
		literalParts(x.X, out)
	}
}

func genReplaceArgs(src string) (string, string, error) {
	fset := token.NewFileSet()
	ents, err := os.ReadDir(src)
	if err != nil {
		return "", "", err
	}
	var files []*ast.File
	names := map[*ast.File]string{}
	for _, e := range ents {
		n := e.Name()
		if e.IsDir() || !strings.HasSuffix(n, ".go") || strings.HasSuffix(n, "_test.go") {
			continue
		}
		f, err := parser.ParseFile(fset, filepath.Join(src, n), nil, 0)
		if err != nil {
			return "", "", err
		}
		files = append(files, f)
		names[f] = n
	}
	info := &types.Info{Types: map[ast.Expr]types.TypeAndValue{}}
	conf := types.Config{Importer: &stubImporter{map[string]*types.Package{}}, Error: func(error) {}, FakeImportC: true}
	conf.Check(src, fset, files, info)

	methods := map[string]int{"Replace": 2, "ReplaceAfter": 3, "ReplaceAt": 4}
	var sites []replaceSite
	var bad []string
	for _, f := range files {
		for _, d := range f.Decls {
			fd, ok := d.(*ast.FuncDecl)
			if !ok || fd.Body == nil {
				continue
			}
			fname := fd.Name.Name
			if fd.Recv != nil && len(fd.Recv.List) == 1 {
				t := fd.Recv.List[0].Type
				if st, ok := t.(*ast.StarExpr); ok {
					t = st.X
				}
				if id, ok := t.(*ast.Ident); ok {
					fname = id.Name + "." + fname
				}
			}
			ast.Inspect(fd.Body, func(n ast.Node) bool {
				call, ok := n.(*ast.CallExpr)
				if !ok {
					return true
				}
				sel, ok := call.Fun.(*ast.SelectorExpr)
				if !ok {
					return true
				}
				nargs, ok := methods[sel.Sel.Name]
				if !ok || len(call.Args) != nargs {
					return true
				}
				// the receiver must be an *Autofix (or of unknown type: counted, to stay on the safe side)
				recv := "?"
				if tv, ok := info.Types[sel.X]; ok && tv.Type != nil {
					t := tv.Type
					if p, ok := t.(*types.Pointer); ok {
						t = p.Elem()
					}
					if nt, ok := t.(*types.Named); ok {
						recv = nt.Obj().Name()
					} else if b, ok := t.(*types.Basic); !ok || b.Kind() != types.Invalid {
						recv = t.String()
					}
				}
				if recv != "Autofix" && recv != "?" {
					return true
				}
				if id, ok := sel.X.(*ast.Ident); ok && (id.Name == "strings" || id.Name == "bytes") {
					return true
				}
				site := replaceSite{file: names[f], fn: fname, method: sel.Sel.Name}
				args := call.Args
				if sel.Sel.Name == "ReplaceAt" {
					args = args[2:] // rawIndex, textIndex are ints
				}
				for _, a := range args {
					if v, ok := literalValue(a); ok {
						if strings.Contains(v, "\n") {
							bad = append(bad, fmt.Sprintf("%s %s %s(%q)", names[f], fname, sel.Sel.Name, v))
						}
						continue
					}
					var parts []string
					literalParts(a, &parts)
					for _, p := range parts {
						if strings.Contains(p, "\n") {
							bad = append(bad, fmt.Sprintf("%s %s %s(... %q ...)", names[f], fname, sel.Sel.Name, p))
						}
					}
					pos := fset.Position(a.Pos())
					end := fset.Position(a.End())
					srcText := ""
					if data, err := os.ReadFile(pos.Filename); err == nil && end.Offset <= len(data) {
						srcText = string(data[pos.Offset:end.Offset])
					}
					site.nonLiteral = append(site.nonLiteral, srcText)
				}
				if recv == "?" {
					site.method += " (receiver type unresolved)"
				}
				sites = append(sites, site)
				return true
			})
		}
	}
	sort.Slice(sites, func(i, j int) bool {
		a, b := sites[i], sites[j]
		if a.file != b.file {
			return a.file < b.file
		}
		if a.fn != b.fn {
			return a.fn < b.fn
		}
		return a.method+strings.Join(a.nonLiteral, ",") < b.method+strings.Join(b.nonLiteral, ",")
	})
	sort.Strings(bad)
	if len(sites) == 0 {
		return "", "", fmt.Errorf("no call of Autofix.Replace/ReplaceAfter/ReplaceAt found (scanner broken?)")
	}
	var sb strings.Builder
	sb.WriteString("(* Generated by gen/c03.go from the source of /repo/v23: every call of\n   Autofix.Replace / ReplaceAfter / ReplaceAt in non-test code.  The string literals\n   that contain a newline are listed (Props/C03.v pins the list); the arguments that\n   are not literals are the residual assumption of the guard [no_newline_args]. *)\n")
	sb.WriteString("From Coq Require Import String List.\nImport ListNotations.\nOpen Scope string_scope.\n\n")
	sb.WriteString("(* call sites with a string literal that contains a newline (Go-quoted); Props/C03.v pins this list *)\n")
	sb.WriteString("Definition replace_newline_literal_sites : list string :=\n  [")
	for i, b := range bad {
		if i > 0 {
			sb.WriteString(";\n   ")
		}
		sb.WriteString(coqString(b))
	}
	sb.WriteString("].\n\n")
	sb.WriteString("(* file, enclosing function, method, source text of the non-literal arguments *)\n")
	sb.WriteString("Definition replace_call_sites : list (string * string * string * list string) :=\n  [")
	nonlit := 0
	for i, s := range sites {
		if i > 0 {
			sb.WriteString(";\n   ")
		}
		var qs []string
		for _, a := range s.nonLiteral {
			qs = append(qs, coqString(a))
			nonlit++
		}
		fmt.Fprintf(&sb, "(%s, %s, %s, [%s])", coqString(s.file), coqString(s.fn), coqString(s.method), strings.Join(qs, "; "))
	}
	sb.WriteString("].\n\n")
	fmt.Fprintf(&sb, "Definition replace_call_count : nat := %d.\nDefinition replace_nonliteral_arguments : nat := %d.\n", len(sites), nonlit)
	return "ReplaceArgs.v", sb.String(), nil
}

// coqString renders a Go string as a Coq string literal (only " needs doubling; newlines are kept out).
func coqString(s string) string {
	s = strings.ReplaceAll(s, "\"", "\"\"")
	s = strings.ReplaceAll(s, "\n", " ")
	s = strings.ReplaceAll(s, "\t", " ")
	return "\"" + s + "\""
}

func init() { generators["replaceargs"] = genReplaceArgs }
