package main

// globals: the third static tie of C07 (determinism): state that outlives a run.
//
// C07 says that the output is a function of tree and arguments and does not
// depend on "what an earlier run in the same process looked at".  In Go the
// only storage that survives `G = NewPkglint(...)` is a package-level variable
// (a closure cache `var f = func() func(..).. { cache := ..; return .. }()`
// and a sync.Once-guarded lazy are package-level variables too).
//
// The generator lists EVERY package-level `var` of the non-test code of all
// packages of /repo/v23 (go/parser + go/types, same loader as maprange), with
//   - the sha256 prefix of its re-printed declaration (the ValueSpec), and
//   - the set of functions that WRITE to it, each with the hash of its source:
//       assignment / op-assignment / ++ / -- whose left side is rooted at the variable
//         (x = .., x.f = .., x[k] = .., *x = .., x.f[k].g = ..), range with `=`,
//       delete(x..), clear(x..), copy(x.., ..), append(x.., ..) rooted at the variable,
//       &x, &x.f.. (address taken),
//       a method call x.M(..) or x.f.M(..) (receiver path without a call in it)
//         where M is MUTATING: a method of the module whose body writes through its
//         receiver (assignment/delete/&/mutating call rooted at the receiver; fixpoint),
//         or a pointer-receiver method of another package (sync.Once.Do, Mutex.Lock, ..).
//     For the two variables that ARE the run state (`G`, `trace`: c07RunStateVars below) only
//     assignments are listed, not method calls; marked "through_pointer_ignored" in the facts
//     (name kept short: "method calls ignored"), class must be reset-per-run.
// Not tracked: aliasing (a pointer-typed value copied out of the variable and written
// through the copy); the in-process layers of the run check are the net below that.
//
// The list must equal the committed, hand-classified audit/globals.json: a new
// variable, a removed one, a changed declaration, a changed writer set or a changed
// writer function => error (GENFAIL -> "correspondence broken") and class code 0 in
// coq/Gen/GlobalsAudit.v.  The structured list of problems is written to
// $VERIF_C07_GLOBALS_PROBLEMS (harness/c07globals.go turns each into a Violation with
// a narrow key C07/globals-audit/<kind>/<pkg>.<name>).
// VERIF_C07_DUMP_GLOBALS=<file> writes the facts found in the audit file's format
// (class/why copied from the audit where the item exists).

import (
	"bytes"
	"encoding/json"
	"fmt"
	"go/ast"
	"go/importer"
	"go/token"
	"go/types"
	"os"
	"path/filepath"
	"sort"
	"strings"
)

type globalWriter struct {
	File string `json:"file"`
	Func string `json:"func"`
	Hash string `json:"src_sha256"`
	How  string `json:"how,omitempty"` // informative, not compared
}

type globalItem struct {
	Pkg      string         `json:"pkg"` // directory below v23, "." = package pkglint
	Name     string         `json:"name"`
	File     string         `json:"file"`           // informative, not compared
	Line     int            `json:"line,omitempty"` // informative, not compared
	Type     string         `json:"type"`           // informative, not compared (part of the declaration hash when spelled out)
	DeclHash string         `json:"decl_sha256"`
	PtrIgn   bool           `json:"through_pointer_ignored,omitempty"`
	Writers  []globalWriter `json:"writers"`
	Pins     []globalWriter `json:"pins,omitempty"` // functions the classification relies on (pure-cache: the function computing the value)
	Class    string         `json:"class"`
	Why      string         `json:"why"`
}

func (g globalItem) id() string {
	if g.Pkg == "." {
		return "pkglint." + g.Name
	}
	return g.Pkg + "." + g.Name
}

// c07RunStateVars: the variables that ARE the state of the current run by design: `G` (everything a run
// knows; the embedding -- cmd/pkglint: one run per process; the tests and the shim: `G = NewPkglint(..)`
// or Tester.Main -- replaces or resets it) and `trace` (the tracer: Out set by NewPkglint, Tracing set by every
// option parse, depth unwound by defers).  Nearly every function calls a method on them; listing those
// as writers would make the audit fire on every commit.  For these two only the functions that ASSIGN
// the variable or a field of it are listed; their class must be reset-per-run, and what survives in them
// between runs is the business of the in-process layers of the run check.
var c07RunStateVars = map[string]bool{"pkglint.G": true, "pkglint.trace": true}

var c07GlobalClasses = map[string]int{
	"constant-table":   1, // never written after package initialisation (writer set empty or init-only), content does not depend on a run
	"reset-per-run":    2, // replaced as a whole / reset at the start of every run (say where)
	"pure-cache":       3, // cache whose value is a function of the key alone (say which function computes it and that it reads no global)
	"process-constant": 4, // written, but to a value that does not depend on tree or arguments of an earlier run (hook, flag of the binary)
	"test-only":        5, // only written by tests / behind G.Testing
	"per-call-scratch": 6, // parser scratch state that every call initialises before reading (yacc)
	"finding":          7, // survives a run and reaches the output of a later one: a defect
}

type c07GlobalProblem struct {
	Kind   string `json:"kind"` // new-item, removed-item, changed-decl, changed-writers, changed-writer-func, unclassified
	Name   string `json:"name"` // pkg.name
	Detail string `json:"detail"`
}

func c07GlobalsLoad(src string) (*c07Importer, []string, error) {
	fset := token.NewFileSet()
	im := &c07Importer{src: src, fset: fset, std: importer.ForCompiler(fset, "source", nil),
		pkgs: map[string]*types.Package{}, infos: map[string]*types.Info{}, files: map[string][]*ast.File{}}
	var dirs []string
	err := filepath.Walk(src, func(p string, fi os.FileInfo, err error) error {
		if err != nil {
			return err
		}
		if fi.IsDir() {
			if n := fi.Name(); p != src && (strings.HasPrefix(n, ".") || n == "testdata" || n == "vendor") {
				return filepath.SkipDir
			}
			return nil
		}
		if strings.HasSuffix(p, ".go") && !strings.HasSuffix(p, "_test.go") {
			d := filepath.Dir(p)
			if len(dirs) == 0 || dirs[len(dirs)-1] != d {
				dirs = append(dirs, d)
			}
		}
		return nil
	})
	if err != nil {
		return nil, nil, err
	}
	var paths []string
	seen := map[string]bool{}
	for _, d := range dirs {
		if seen[d] {
			continue
		}
		seen[d] = true
		rel, _ := filepath.Rel(src, d)
		path := c07Module
		if rel != "." {
			path += "/" + filepath.ToSlash(rel)
		}
		if _, err := im.Import(path); err != nil {
			return nil, nil, fmt.Errorf("package %s: %v", path, err)
		}
		paths = append(paths, path)
	}
	return im, paths, nil
}

// c07Root: the identifier an lvalue / receiver path is rooted at (nil when a call or literal is on the way);
// deref = the path goes through a pointer (x.f with x a pointer, *x, x[i] with x a pointer to array).
func c07Root(info *types.Info, e ast.Expr) (id *ast.Ident, deref bool) {
	for {
		switch x := e.(type) {
		case *ast.Ident:
			return x, deref
		case *ast.ParenExpr:
			e = x.X
		case *ast.StarExpr:
			deref = true
			e = x.X
		case *ast.SelectorExpr:
			if tv, ok := info.Types[x.X]; ok && tv.Type != nil {
				if _, isPtr := tv.Type.Underlying().(*types.Pointer); isPtr {
					deref = true
				}
			} else if _, isIdent := x.X.(*ast.Ident); !isIdent {
				deref = true
			}
			if id, ok := x.X.(*ast.Ident); ok {
				if _, isPkg := info.Uses[id].(*types.PkgName); isPkg {
					return x.Sel, deref // pkg.Var
				}
			}
			e = x.X
		case *ast.IndexExpr:
			if tv, ok := info.Types[x.X]; ok && tv.Type != nil {
				switch tv.Type.Underlying().(type) {
				case *types.Pointer, *types.Slice, *types.Map:
					// an element of a map/slice belongs to the variable's content: not a "through pointer" write
					if _, isPtr := tv.Type.Underlying().(*types.Pointer); isPtr {
						deref = true
					}
				}
			}
			e = x.X
		case *ast.SliceExpr:
			e = x.X
		case *ast.TypeAssertExpr:
			e = x.X
		default:
			return nil, deref
		}
	}
}

type c07Write struct {
	obj   types.Object
	deref bool
	how   string
}

// c07Writes lists the writes inside root, rooted at any object (receiver, global, local): the caller filters.
func c07Writes(info *types.Info, root ast.Node, mutating func(*types.Func) bool) []c07Write {
	var out []c07Write
	add := func(e ast.Expr, how string, forceDeref bool) {
		id, deref := c07Root(info, e)
		if id == nil || id.Name == "_" {
			return
		}
		obj := info.Uses[id]
		if obj == nil {
			return
		}
		if _, isVar := obj.(*types.Var); !isVar {
			return
		}
		out = append(out, c07Write{obj, deref || forceDeref, how})
	}
	ast.Inspect(root, func(n ast.Node) bool {
		switch x := n.(type) {
		case *ast.AssignStmt:
			if x.Tok != token.DEFINE {
				for _, l := range x.Lhs {
					how := "assign"
					if _, bare := l.(*ast.Ident); !bare {
						how = "assign " + c07ShortExpr(l)
					}
					add(l, how, false)
				}
			}
		case *ast.IncDecStmt:
			add(x.X, "incdec", false)
		case *ast.RangeStmt:
			if x.Tok == token.ASSIGN {
				if x.Key != nil {
					add(x.Key, "range-assign", false)
				}
				if x.Value != nil {
					add(x.Value, "range-assign", false)
				}
			}
		case *ast.UnaryExpr:
			if x.Op == token.AND {
				if _, lit := x.X.(*ast.CompositeLit); !lit {
					add(x.X, "address-of", false)
				}
			}
		case *ast.CallExpr:
			switch f := x.Fun.(type) {
			case *ast.Ident:
				if _, isBuiltin := info.Uses[f].(*types.Builtin); isBuiltin && len(x.Args) > 0 {
					switch f.Name {
					case "delete", "clear", "copy", "append":
						add(x.Args[0], f.Name, false)
					}
				}
			case *ast.SelectorExpr:
				fn, _ := info.Uses[f.Sel].(*types.Func)
				if fn == nil {
					break
				}
				sig, _ := fn.Type().(*types.Signature)
				if sig == nil || sig.Recv() == nil {
					break
				}
				if mutating(fn) {
					// the receiver path: a write into what the path denotes
					_, recvIsPtr := sig.Recv().Type().(*types.Pointer)
					force := false
					if tv, ok := info.Types[f.X]; ok && tv.Type != nil {
						if _, isPtr := tv.Type.Underlying().(*types.Pointer); isPtr && recvIsPtr {
							force = true // called through a pointer value
						}
					}
					add(f.X, "method "+fn.Name(), force)
				}
			}
		}
		return true
	})
	return out
}

func c07ShortExpr(e ast.Expr) string {
	var b bytes.Buffer
	fset := token.NewFileSet()
	_ = fset
	switch x := e.(type) {
	case *ast.SelectorExpr:
		return c07ShortExpr(x.X) + "." + x.Sel.Name
	case *ast.Ident:
		return x.Name
	case *ast.IndexExpr:
		return c07ShortExpr(x.X) + "[..]"
	case *ast.StarExpr:
		return "*" + c07ShortExpr(x.X)
	case *ast.ParenExpr:
		return c07ShortExpr(x.X)
	}
	return b.String() + "?"
}

// filled by c07GlobalsScan: "file|func" -> source hash; "file|func" -> package-level variables of the module the function mentions
var c07GlobalsFuncHash = map[string]string{}
var c07GlobalsFuncReads = map[string][]string{}

// c07GlobalsScan returns the facts (no class / why).
func c07GlobalsScan(src string) ([]globalItem, int, error) {
	im, paths, err := c07GlobalsLoad(src)
	if err != nil {
		return nil, 0, err
	}
	fset := im.fset
	type fnInfo struct {
		decl *ast.FuncDecl
		info *types.Info
		file string
		obj  *types.Func
	}
	var funcs []*fnInfo
	byObj := map[*types.Func]*fnInfo{}
	nfiles := 0
	for _, path := range paths {
		info := im.infos[path]
		for _, f := range im.files[path] {
			nfiles++
			fname, _ := filepath.Rel(src, fset.Position(f.Pos()).Filename)
			fname = filepath.ToSlash(fname)
			for _, decl := range f.Decls {
				if d, ok := decl.(*ast.FuncDecl); ok && d.Body != nil {
					fi := &fnInfo{decl: d, info: info, file: fname}
					if o, ok := info.Defs[d.Name].(*types.Func); ok {
						fi.obj = o
						byObj[o] = fi
					}
					funcs = append(funcs, fi)
				}
			}
		}
	}
	// mutating methods: fixpoint
	mut := map[*types.Func]bool{}
	isMut := func(fn *types.Func) bool {
		if fn == nil {
			return false
		}
		if o := fn.Origin(); o != nil {
			fn = o
		}
		if mut[fn] {
			return true
		}
		if _, ours := byObj[fn]; ours {
			return false
		}
		if fn.Pkg() != nil && (fn.Pkg().Path() == c07Module || strings.HasPrefix(fn.Pkg().Path(), c07Module+"/")) {
			return false // interface method of the module etc.: not known to mutate
		}
		sig, _ := fn.Type().(*types.Signature)
		if sig == nil || sig.Recv() == nil {
			return false
		}
		_, ptr := sig.Recv().Type().(*types.Pointer)
		return ptr // pointer-receiver method of another package: conservatively mutating
	}
	for changed := true; changed; {
		changed = false
		for _, fi := range funcs {
			if fi.obj == nil || mut[fi.obj] || fi.decl.Recv == nil || len(fi.decl.Recv.List) == 0 || len(fi.decl.Recv.List[0].Names) == 0 {
				continue
			}
			recv := fi.info.Defs[fi.decl.Recv.List[0].Names[0]]
			if recv == nil {
				continue
			}
			for _, w := range c07Writes(fi.info, fi.decl.Body, isMut) {
				if w.obj == recv && w.how != "assign" && w.how != "address-of" {
					mut[fi.obj] = true
					changed = true
					break
				}
			}
		}
	}

	var items []globalItem
	index := map[types.Object]int{}
	for _, path := range paths {
		info := im.infos[path]
		pkgRel := strings.TrimPrefix(strings.TrimPrefix(path, c07Module), "/")
		if pkgRel == "" {
			pkgRel = "."
		}
		for _, f := range im.files[path] {
			fname, _ := filepath.Rel(src, fset.Position(f.Pos()).Filename)
			fname = filepath.ToSlash(fname)
			for _, decl := range f.Decls {
				gd, ok := decl.(*ast.GenDecl)
				if !ok || gd.Tok != token.VAR {
					continue
				}
				for _, spec := range gd.Specs {
					vs := spec.(*ast.ValueSpec)
					doc, cm := vs.Doc, vs.Comment
					vs.Doc, vs.Comment = nil, nil
					text := c07NodeText(fset, vs)
					vs.Doc, vs.Comment = doc, cm
					for _, name := range vs.Names {
						if name.Name == "_" {
							continue
						}
						obj := info.Defs[name]
						typ := "?"
						if obj != nil && obj.Type() != nil {
							typ = types.TypeString(obj.Type(), func(p *types.Package) string { return p.Name() })
						}
						it := globalItem{Pkg: pkgRel, Name: name.Name, File: fname, Line: fset.Position(name.Pos()).Line, Type: typ,
							DeclHash: c07Hash12(text), Writers: []globalWriter{}}
						if obj != nil {
							index[obj] = len(items)
						}
						items = append(items, it)
					}
				}
			}
		}
	}
	// writers
	type wkey struct {
		item       int
		file, fn   string
		throughPtr bool
	}
	seen := map[wkey]int{}
	type wrec struct {
		w          globalWriter
		throughPtr bool
		bare       bool
	}
	recs := map[int][]wrec{}
	note := func(ws []c07Write, file, fn, hash string) {
		for _, w := range ws {
			i, ok := index[w.obj]
			if !ok {
				continue
			}
			k := wkey{i, file, fn, w.deref}
			if j, dup := seen[k]; dup {
				if !strings.Contains(recs[i][j].w.How, w.how) && len(recs[i][j].w.How) < 120 {
					recs[i][j].w.How += "; " + w.how
				}
				if w.how == "assign" {
					recs[i][j].bare = true
				}
				continue
			}
			seen[k] = len(recs[i])
			recs[i] = append(recs[i], wrec{globalWriter{File: file, Func: fn, Hash: hash, How: w.how}, w.deref, w.how == "assign"})
		}
	}
	for _, fi := range funcs {
		text := c07NodeText(fset, fi.decl.Type) + " " + c07NodeText(fset, fi.decl.Body)
		h := c07Hash12(c07FuncName(fi.decl) + " " + text)
		note(c07Writes(fi.info, fi.decl.Body, isMut), fi.file, c07FuncName(fi.decl), h)
		k := fi.file + "|" + c07FuncName(fi.decl)
		c07GlobalsFuncHash[k] = h
		ast.Inspect(fi.decl.Body, func(n ast.Node) bool {
			if id, ok := n.(*ast.Ident); ok {
				if i, ok := index[fi.info.Uses[id]]; ok {
					c07GlobalsFuncReads[k] = append(c07GlobalsFuncReads[k], items[i].id())
				}
			}
			return true
		})
	}
	for _, path := range paths {
		info := im.infos[path]
		for _, f := range im.files[path] {
			fname, _ := filepath.Rel(src, fset.Position(f.Pos()).Filename)
			fname = filepath.ToSlash(fname)
			for _, decl := range f.Decls {
				if gd, ok := decl.(*ast.GenDecl); ok && gd.Tok == token.VAR {
					for _, spec := range gd.Specs {
						vs := spec.(*ast.ValueSpec)
						if len(vs.Values) == 0 {
							continue
						}
						names := make([]string, len(vs.Names))
						for i, n := range vs.Names {
							names[i] = n.Name
						}
						var ws []c07Write
						for _, v := range vs.Values {
							ws = append(ws, c07Writes(info, v, isMut)...)
						}
						note(ws, fname, "<initialiser of "+strings.Join(names, ",")+">", c07Hash12(c07NodeText(fset, vs)))
					}
				}
			}
		}
	}
	for i := range items {
		rs := recs[i]
		// the run state itself (see c07RunStateVars): only assignments are listed, not the method calls
		wholesale := c07RunStateVars[items[i].id()]
		merged := map[string]int{}
		for _, r := range rs {
			if wholesale && !strings.Contains(r.w.How, "assign") && !strings.Contains(r.w.How, "incdec") && !strings.Contains(r.w.How, "delete") {
				continue
			}
			k := r.w.File + "|" + r.w.Func
			if j, ok := merged[k]; ok {
				if !strings.Contains(items[i].Writers[j].How, r.w.How) {
					items[i].Writers[j].How += "; " + r.w.How
				}
				continue
			}
			merged[k] = len(items[i].Writers)
			items[i].Writers = append(items[i].Writers, r.w)
		}
		items[i].PtrIgn = wholesale
		sort.Slice(items[i].Writers, func(a, b int) bool {
			x, y := items[i].Writers[a], items[i].Writers[b]
			return x.File+"|"+x.Func < y.File+"|"+y.Func
		})
	}
	sort.SliceStable(items, func(i, j int) bool { return items[i].id() < items[j].id() })
	return items, nfiles, nil
}

func c07WriterSet(ws []globalWriter) string {
	var s []string
	for _, w := range ws {
		s = append(s, w.File+" "+w.Func)
	}
	return strings.Join(s, ", ")
}

func genGlobals(src string) (string, string, error) {
	found, nfiles, err := c07GlobalsScan(src)
	if err != nil {
		return "", "", err
	}
	auditDir := os.Getenv("VERIF_AUDIT_DIR")
	if auditDir == "" {
		auditDir = filepath.Join(os.Args[2], "..", "..", "audit")
	}
	var audit struct {
		Comment string       `json:"comment"`
		Items   []globalItem `json:"items"`
	}
	var problems []c07GlobalProblem
	data, rerr := os.ReadFile(filepath.Join(auditDir, "globals.json"))
	if rerr != nil {
		problems = append(problems, c07GlobalProblem{"audit-file", "globals.json", rerr.Error()})
	} else if jerr := json.Unmarshal(data, &audit); jerr != nil {
		return "", "", fmt.Errorf("audit/globals.json: %v", jerr)
	}
	byID := map[string]globalItem{}
	for _, a := range audit.Items {
		if _, dup := byID[a.id()]; dup {
			problems = append(problems, c07GlobalProblem{"audit-file", a.id(), "listed twice in audit/globals.json"})
		}
		byID[a.id()] = a
	}
	matched := map[string]bool{}
	var codes []string
	for i := range found {
		f := &found[i]
		a, ok := byID[f.id()]
		code := 0
		where := fmt.Sprintf("%s (%s:%d, %s)", f.id(), f.File, f.Line, f.Type)
		switch {
		case !ok:
			problems = append(problems, c07GlobalProblem{"new-item", f.id(), "new package-level variable " + where + "; writers: " + c07WriterSet(f.Writers)})
		default:
			matched[f.id()] = true
			f.Class, f.Why = a.Class, a.Why
			bad := false
			if a.DeclHash != f.DeclHash {
				bad = true
				problems = append(problems, c07GlobalProblem{"changed-decl", f.id(), fmt.Sprintf("declaration of %s changed (%s, audited %s)", where, f.DeclHash, a.DeclHash)})
			}
			if a.PtrIgn != f.PtrIgn {
				bad = true
				problems = append(problems, c07GlobalProblem{"changed-writers", f.id(), fmt.Sprintf("%s: replaced-as-a-whole status changed (now %v)", where, f.PtrIgn)})
			}
			if c07WriterSet(a.Writers) != c07WriterSet(f.Writers) {
				bad = true
				problems = append(problems, c07GlobalProblem{"changed-writers", f.id(), fmt.Sprintf("the set of functions writing %s changed: now [%s], audited [%s]", where, c07WriterSet(f.Writers), c07WriterSet(a.Writers))})
			} else {
				for j, w := range f.Writers {
					if a.Writers[j].Hash != w.Hash {
						bad = true
						problems = append(problems, c07GlobalProblem{"changed-writer-func", f.id(), fmt.Sprintf("%s %s, which writes %s, changed (%s, audited %s)", w.File, w.Func, f.id(), w.Hash, a.Writers[j].Hash)})
					}
				}
			}
			f.Pins = a.Pins
			for _, pin := range a.Pins {
				k := pin.File + "|" + pin.Func
				switch h, ok := c07GlobalsFuncHash[k]; {
				case !ok:
					bad = true
					problems = append(problems, c07GlobalProblem{"changed-writer-func", f.id(), fmt.Sprintf("pinned function %s %s of %s is gone", pin.File, pin.Func, f.id())})
				case h != pin.Hash:
					bad = true
					problems = append(problems, c07GlobalProblem{"changed-writer-func", f.id(), fmt.Sprintf("pinned function %s %s of %s changed (%s, audited %s)", pin.File, pin.Func, f.id(), h, pin.Hash)})
				case a.Class == "pure-cache" && len(c07GlobalsFuncReads[k]) > 0:
					bad = true
					problems = append(problems, c07GlobalProblem{"unclassified", f.id(), fmt.Sprintf("%s is classified pure-cache but the computing function %s mentions package-level variables %v", f.id(), pin.Func, c07GlobalsFuncReads[k])})
				}
			}
			if a.Class == "pure-cache" && len(a.Pins) == 0 {
				bad = true
				problems = append(problems, c07GlobalProblem{"unclassified", f.id(), f.id() + " is classified pure-cache without pinning the function that computes the cached value"})
			}
			if !bad {
				switch {
				case c07GlobalClasses[a.Class] == 0:
					problems = append(problems, c07GlobalProblem{"unclassified", f.id(), "no valid class for " + where})
				case strings.TrimSpace(a.Why) == "":
					problems = append(problems, c07GlobalProblem{"unclassified", f.id(), "no justification for " + where})
				case f.PtrIgn && a.Class != "reset-per-run":
					problems = append(problems, c07GlobalProblem{"unclassified", f.id(), where + " is run state (method calls not listed), which is only sound for class reset-per-run"})
				case a.Class == "constant-table" && c07HasRuntimeWriter(f.Writers):
					problems = append(problems, c07GlobalProblem{"unclassified", f.id(), where + " is classified constant-table but has a writer that is neither init nor an initialiser"})
				default:
					code = c07GlobalClasses[a.Class]
				}
			}
		}
		codes = append(codes, fmt.Sprintf("  (* %s *) %d", c07CoqComment(f.id()), code))
	}
	for _, a := range audit.Items {
		if !matched[a.id()] {
			problems = append(problems, c07GlobalProblem{"removed-item", a.id(), "audited package-level variable is gone: " + a.id()})
		}
	}
	if dump := os.Getenv("VERIF_C07_DUMP_GLOBALS"); dump != "" {
		var bb bytes.Buffer
		enc := json.NewEncoder(&bb)
		enc.SetEscapeHTML(false)
		enc.SetIndent("", " ")
		enc.Encode(map[string]any{"comment": audit.Comment, "items": found})
		os.WriteFile(dump, bb.Bytes(), 0o644)
	}
	if pf := os.Getenv("VERIF_C07_GLOBALS_PROBLEMS"); pf != "" {
		if problems == nil {
			problems = []c07GlobalProblem{}
		}
		nclass := map[string]int{}
		for _, f := range found {
			nclass[f.Class]++
		}
		out, _ := json.Marshal(map[string]any{"problems": problems, "items": len(found), "files": nfiles, "classes": nclass})
		os.WriteFile(pf, out, 0o644)
	}
	var sb strings.Builder
	sb.WriteString("(* GENERATED by gen/c07globals.go from /repo/v23 and audit/globals.json -- do not edit.\n")
	sb.WriteString("   One class code per package-level variable of the non-test code (all packages):\n")
	sb.WriteString("   1 constant table (no writer after initialisation), 2 reset at the start of every run,\n")
	sb.WriteString("   3 pure cache (value = function of the key alone), 4 process constant (hook/flag, independent of any run),\n")
	sb.WriteString("   5 only written by tests, 6 per-call scratch state (yacc), 7 survives a run and reaches a later output\n")
	sb.WriteString("   (recorded finding), 0 = not (or no longer) covered by the audit. *)\n")
	sb.WriteString("From Coq Require Import List NArith.\nImport ListNotations.\nOpen Scope N_scope.\n")
	if len(codes) == 0 {
		sb.WriteString("Definition global_classes : list N := [].\n")
	} else {
		sb.WriteString("Definition global_classes : list N := [\n" + strings.Join(codes, ";\n") + "\n].\n")
	}
	sb.WriteString(fmt.Sprintf("Definition global_count : N := %d.\n", len(found)))
	sb.WriteString(fmt.Sprintf("Definition global_files_scanned : N := %d.\n", nfiles))
	if len(problems) > 0 {
		if os.Getenv("VERIF_C07_GLOBALS_PROBLEMS") == "" {
			path := filepath.Join(os.Args[2], "GlobalsAudit.v")
			old, _ := os.ReadFile(path)
			if string(old) != sb.String() {
				os.WriteFile(path, []byte(sb.String()), 0o644)
			}
		}
		var msgs []string
		for _, p := range problems {
			msgs = append(msgs, p.Kind+": "+p.Detail)
		}
		if len(msgs) > 6 {
			msgs = append(msgs[:6], fmt.Sprintf("... and %d more", len(msgs)-6))
		}
		return "", "", fmt.Errorf("audit/globals.json no longer matches the source: %s", strings.Join(msgs, "; "))
	}
	return "GlobalsAudit.v", sb.String(), nil
}

func c07HasRuntimeWriter(ws []globalWriter) bool {
	for _, w := range ws {
		if w.Func != "init" && !strings.HasPrefix(w.Func, "<initialiser of ") {
			return true
		}
	}
	return false
}

func init() { generators["globals"] = genGlobals }
