package main

import (
	"fmt"
	"go/ast"
	"go/token"
	"path/filepath"
	"strconv"
	"strings"
)

// number: translates the automaton literal in makepat.Number() into
// Gen/NumberAutomaton.v.  The shape the model is written against is checked:
//
//	func Number() *Pattern {
//		const ( name0 stateID = iota; name1; ... )
//		return &Pattern{states: []state{ name: { []transition{ {min, max, to}, ... }, end }, ... }}
//	}
//
// Every state name must be used as a key exactly once; the table is emitted in
// the order of the state numbers.
func genNumber(src string) (string, string, error) {
	_, f, err := parseFile(filepath.Join(src, "makepat", "pat.go"))
	if err != nil {
		return "", "", err
	}
	fd := findFunc(f, "Number")
	if fd == nil || fd.Recv != nil {
		return "", "", fmt.Errorf("func Number not found")
	}
	if len(fd.Body.List) != 2 {
		return "", "", fmt.Errorf("Number: body has %d statements, expected const block + return", len(fd.Body.List))
	}
	ds, ok := fd.Body.List[0].(*ast.DeclStmt)
	if !ok {
		return "", "", fmt.Errorf("Number: first statement is not a declaration")
	}
	gd, ok := ds.Decl.(*ast.GenDecl)
	if !ok || gd.Tok != token.CONST {
		return "", "", fmt.Errorf("Number: first statement is not a const block")
	}
	ids := map[string]int{}
	var names []string
	for i, sp := range gd.Specs {
		vs := sp.(*ast.ValueSpec)
		if len(vs.Names) != 1 {
			return "", "", fmt.Errorf("Number: const spec with %d names", len(vs.Names))
		}
		if i == 0 {
			id, ok := vs.Type.(*ast.Ident)
			if !ok || id.Name != "stateID" || len(vs.Values) != 1 {
				return "", "", fmt.Errorf("Number: first constant is not 'stateID = iota'")
			}
			if v, ok := vs.Values[0].(*ast.Ident); !ok || v.Name != "iota" {
				return "", "", fmt.Errorf("Number: first constant is not 'stateID = iota'")
			}
		} else if vs.Type != nil || len(vs.Values) != 0 {
			return "", "", fmt.Errorf("Number: constant %s has an explicit type or value", vs.Names[0].Name)
		}
		if _, dup := ids[vs.Names[0].Name]; dup {
			return "", "", fmt.Errorf("Number: duplicate constant %s", vs.Names[0].Name)
		}
		ids[vs.Names[0].Name] = i
		names = append(names, vs.Names[0].Name)
	}
	ret, ok := fd.Body.List[1].(*ast.ReturnStmt)
	if !ok || len(ret.Results) != 1 {
		return "", "", fmt.Errorf("Number: second statement is not a return of one value")
	}
	un, ok := ret.Results[0].(*ast.UnaryExpr)
	if !ok || un.Op != token.AND {
		return "", "", fmt.Errorf("Number: does not return &Pattern{...}")
	}
	pl, ok := un.X.(*ast.CompositeLit)
	if !ok || len(pl.Elts) != 1 {
		return "", "", fmt.Errorf("Number: does not return &Pattern{states: ...}")
	}
	if id, ok := pl.Type.(*ast.Ident); !ok || id.Name != "Pattern" {
		return "", "", fmt.Errorf("Number: does not return &Pattern{...}")
	}
	kv, ok := pl.Elts[0].(*ast.KeyValueExpr)
	if !ok {
		return "", "", fmt.Errorf("Number: Pattern literal without field name")
	}
	if k, ok := kv.Key.(*ast.Ident); !ok || k.Name != "states" {
		return "", "", fmt.Errorf("Number: Pattern literal does not set 'states'")
	}
	sl, ok := kv.Value.(*ast.CompositeLit)
	if !ok {
		return "", "", fmt.Errorf("Number: states is not a literal")
	}
	if at, ok := sl.Type.(*ast.ArrayType); !ok || at.Len != nil {
		return "", "", fmt.Errorf("Number: states is not a slice literal")
	} else if id, ok := at.Elt.(*ast.Ident); !ok || id.Name != "state" {
		return "", "", fmt.Errorf("Number: states is not []state")
	}
	byteLit := func(e ast.Expr) (int, error) {
		bl, ok := e.(*ast.BasicLit)
		if !ok {
			return 0, fmt.Errorf("transition bound is not a literal")
		}
		switch bl.Kind {
		case token.CHAR:
			ch, _, _, err := strconv.UnquoteChar(bl.Value[1:len(bl.Value)-1], '\'')
			if err != nil {
				return 0, err
			}
			if ch < 0 || ch > 255 {
				return 0, fmt.Errorf("transition bound %s is not a byte", bl.Value)
			}
			return int(ch), nil
		case token.INT:
			n, err := strconv.ParseInt(bl.Value, 0, 32)
			if err != nil || n < 0 || n > 255 {
				return 0, fmt.Errorf("transition bound %s is not a byte", bl.Value)
			}
			return int(n), nil
		}
		return 0, fmt.Errorf("transition bound %s is not a byte literal", bl.Value)
	}
	rows := make([]string, len(names))
	seen := make([]bool, len(names))
	if len(sl.Elts) != len(names) {
		return "", "", fmt.Errorf("Number: %d states in the literal, %d state constants", len(sl.Elts), len(names))
	}
	for _, e := range sl.Elts {
		kv, ok := e.(*ast.KeyValueExpr)
		if !ok {
			return "", "", fmt.Errorf("Number: state without key")
		}
		k, ok := kv.Key.(*ast.Ident)
		if !ok {
			return "", "", fmt.Errorf("Number: state key is not a constant name")
		}
		idx, ok := ids[k.Name]
		if !ok {
			return "", "", fmt.Errorf("Number: unknown state key %s", k.Name)
		}
		if seen[idx] {
			return "", "", fmt.Errorf("Number: state %s defined twice", k.Name)
		}
		seen[idx] = true
		st, ok := kv.Value.(*ast.CompositeLit)
		if !ok || len(st.Elts) != 2 {
			return "", "", fmt.Errorf("Number: state %s is not {transitions, end}", k.Name)
		}
		tl, ok := st.Elts[0].(*ast.CompositeLit)
		if !ok {
			return "", "", fmt.Errorf("Number: state %s: first field is not a []transition literal", k.Name)
		}
		if at, ok := tl.Type.(*ast.ArrayType); !ok || at.Len != nil {
			return "", "", fmt.Errorf("Number: state %s: first field is not a []transition literal", k.Name)
		} else if id, ok := at.Elt.(*ast.Ident); !ok || id.Name != "transition" {
			return "", "", fmt.Errorf("Number: state %s: first field is not a []transition literal", k.Name)
		}
		endId, ok := st.Elts[1].(*ast.Ident)
		if !ok || (endId.Name != "true" && endId.Name != "false") {
			return "", "", fmt.Errorf("Number: state %s: end is not true/false", k.Name)
		}
		var ts []string
		for _, te := range tl.Elts {
			t, ok := te.(*ast.CompositeLit)
			if !ok || len(t.Elts) != 3 {
				return "", "", fmt.Errorf("Number: state %s: transition is not {min, max, to}", k.Name)
			}
			lo, err := byteLit(t.Elts[0])
			if err != nil {
				return "", "", fmt.Errorf("Number: state %s: %v", k.Name, err)
			}
			hi, err := byteLit(t.Elts[1])
			if err != nil {
				return "", "", fmt.Errorf("Number: state %s: %v", k.Name, err)
			}
			toId, ok := t.Elts[2].(*ast.Ident)
			if !ok {
				return "", "", fmt.Errorf("Number: state %s: transition target is not a state name", k.Name)
			}
			to, ok := ids[toId.Name]
			if !ok {
				return "", "", fmt.Errorf("Number: state %s: unknown target %s", k.Name, toId.Name)
			}
			ts = append(ts, fmt.Sprintf("(%d, %d, %d)", lo, hi, to))
		}
		rows[idx] = fmt.Sprintf("(* %2d %-8s *) ([%s], %s)", idx, k.Name, strings.Join(ts, "; "), endId.Name)
	}
	var sb strings.Builder
	sb.WriteString("(* GENERATED by gen/ from /repo/v23/makepat/pat.go (literal in Number()) -- do not edit *)\n")
	sb.WriteString("From PV Require Import Lib.Bytes.\nOpen Scope N_scope.\n")
	sb.WriteString("(* one row per state, in state-number order: ([(min, max, to); ...], end) *)\n")
	sb.WriteString("Definition number_table : list (list (N * N * N) * bool) :=\n  [ " + strings.Join(rows, ";\n    ") + " ].\n")
	return "NumberAutomaton.v", sb.String(), nil
}

func init() { generators["number"] = genNumber }
