package main

// envreads: the second static tie of C07 (determinism): the environment.
//
// Lists EVERY syntactic use, in the non-test code of /repo/v23 (all packages),
// of an API that reads something which is neither the pkgsrc tree nor the
// command line: environment variables, host/user/process identity, the working
// directory, the clock and the local time zone, the number of CPUs, random
// numbers; every import of a package that talks to the outside (os/user,
// math/rand, crypto/rand, os/exec, os/signal, net, net/http, syscall, unsafe)
// and every selector on such a package (so that a new http.Get in a file that
// already imports net/http is a new item); every `go` and every `select`
// statement (scheduling).
//
// The scan is purely syntactic (go/parser, no types): a selector expression
// `p.Name` counts when `p` is the local name under which the file imports the
// package (renamed imports are resolved per file; a dot import or blank import
// of one of the packages is itself a listed use, since its uses cannot be seen
// as selectors). Method calls `x.Local()`, `x.In(...)`, `x.Zone()` are listed
// for any receiver (over-approximation of time.Time's zone-dependent methods).
//
// The list is compared with the committed, hand-classified audit/envreads.json
// (identity: file|func|api|ordinal; compared: sha256 prefix of the re-printed
// innermost enclosing statement, and of the bodies of the pinned functions the
// classification relies on).
//
// Output: coq/Gen/EnvReadAudit.v holding the class code of every use found
// (0 = not in the audit / statement changed / unclassified), re-checked by
// Proofs/EnvReadAudit.v, and an error (-> GENFAIL -> "correspondence broken")
// when the lists differ.
//
// An independent, purely textual pass over the same tree (own directory walk,
// no parser) guards against a scanner that silently skips files: every line
// that textually matches one of the most important API names, outside string
// literals and line comments, must be the line of some item that was found.
//
// VERIF_C07_DUMP_ENV=<file> additionally writes the list that was found, in the
// audit file's format (classes copied from the audit where the entry matches;
// pins with an empty hash get the current hash filled in).

import (
	"bytes"
	"crypto/sha256"
	"encoding/json"
	"fmt"
	"go/ast"
	"go/parser"
	"go/token"
	"io/fs"
	"os"
	"path/filepath"
	"regexp"
	"sort"
	"strconv"
	"strings"
)

type envRead struct {
	File     string   `json:"file"`
	Func     string   `json:"func"`
	API      string   `json:"api"`
	Ordinal  int      `json:"ordinal"` // n-th use of API inside Func, from 1
	Kind     string   `json:"kind"`    // selector, method-call, import, go-stmt, select-stmt
	StmtHash string   `json:"stmt_sha256"`
	Line     int      `json:"line,omitempty"` // informative only, not compared
	Stmt     string   `json:"stmt,omitempty"` // informative only, not compared (first line of the statement)
	Class    string   `json:"class"`
	Why      string   `json:"why"`
	Pins     []c07Pin `json:"pins,omitempty"`
}

func (e envRead) id() string {
	return fmt.Sprintf("%s|%s|%s|%d", e.File, e.Func, e.API, e.Ordinal)
}

var c07EnvClasses = map[string]int{
	"documented-input": 1, // part of pkglint's documented interface and held fixed by the check
	"profiling-only":   2, // only reached with -p/--profiling, or only affects timing figures printed there
	"irrelevant":       3, // does not reach stdout/stderr/exit/files, or is a pure function of tree+args
	"test-only":        4, // only reachable from tests / G.Testing
	"user-identity":    5, // the login name for the OWNER/MAINTAINER check: an input the property text does not list
	"finding":          6, // reaches the output and is not tree/args: a defect
}

// package path -> (short name used in the api string, set of listed names; nil = every name)
type c07EnvPkg struct {
	short string
	names map[string]bool
	all   bool // every selector on the package is listed
	imp   bool // the import itself is listed
}

func c07set(names ...string) map[string]bool {
	m := map[string]bool{}
	for _, n := range names {
		m[n] = true
	}
	return m
}

var c07EnvPkgs = map[string]*c07EnvPkg{
	"os": {short: "os", names: c07set("Getenv", "LookupEnv", "Environ", "ExpandEnv", "Hostname", "Getpid", "Getppid",
		"Getuid", "Geteuid", "Getgid", "Getegid", "Getgroups", "Getwd", "TempDir", "UserHomeDir", "UserCacheDir", "UserConfigDir", "Executable")},
	"time": {short: "time", names: c07set("Now", "Since", "Until", "Local", "LoadLocation", "ParseInLocation",
		"Tick", "After", "AfterFunc", "Sleep", "NewTimer", "NewTicker")},
	"path/filepath": {short: "filepath", names: c07set("Abs", "EvalSymlinks")},
	"runtime":       {short: "runtime", names: c07set("NumCPU", "GOOS", "GOARCH", "NumGoroutine", "GOMAXPROCS", "Version")},
	"os/user":       {short: "user", all: true, imp: true},
	"math/rand":     {short: "rand", all: true, imp: true},
	"math/rand/v2":  {short: "randv2", all: true, imp: true},
	"crypto/rand":   {short: "cryptorand", all: true, imp: true},
	"os/exec":       {short: "exec", all: true, imp: true},
	"os/signal":     {short: "signal", all: true, imp: true},
	"net":           {short: "net", all: true, imp: true},
	"net/http":      {short: "http", all: true, imp: true},
	"syscall":       {short: "syscall", all: true, imp: true},
	"unsafe":        {short: "unsafe", all: true, imp: true},
}

var c07EnvMethods = c07set("Local", "In", "Zone")

// c07DefaultImportName: the package name assumed for an import without explicit name
// (last path element; for a major-version suffix the element before it).
func c07DefaultImportName(path string) string {
	parts := strings.Split(path, "/")
	last := parts[len(parts)-1]
	if len(parts) > 1 && len(last) > 1 && last[0] == 'v' {
		if _, err := strconv.Atoi(last[1:]); err == nil {
			return parts[len(parts)-2]
		}
	}
	return last
}

func c07Hash12(s string) string {
	sum := sha256.Sum256([]byte(s))
	return fmt.Sprintf("%x", sum[:12])
}

func c07FirstLine(s string) string {
	if i := strings.IndexByte(s, '\n'); i >= 0 {
		s = s[:i] + " ..."
	}
	if len(s) > 160 {
		s = s[:160] + " ..."
	}
	return s
}

// c07EnvGoFiles: the non-test Go files of the module, in the same way as c07Scan walks.
func c07EnvGoFiles(src string) ([]string, error) {
	var files []string
	err := filepath.Walk(src, func(p string, fi os.FileInfo, err error) error {
		if err != nil {
			return err
		}
		if fi.IsDir() {
			if n := fi.Name(); p != src && (strings.HasPrefix(n, ".") || n == "testdata" || n == "vendor") {
				return filepath.SkipDir
			}
			return nil
		}
		if strings.HasSuffix(p, ".go") && !strings.HasSuffix(p, "_test.go") {
			files = append(files, p)
		}
		return nil
	})
	sort.Strings(files)
	return files, err
}

// c07EnvScan lists all environment reads of the module rooted at src; also returns the number of
// files parsed and "file|func" -> hash of the re-printed body of every function.
func c07EnvScan(src string) ([]envRead, int, map[string]string, error) {
	files, err := c07EnvGoFiles(src)
	if err != nil {
		return nil, 0, nil, err
	}
	funcHashes := map[string]string{}
	var out []envRead
	for _, full := range files {
		fset := token.NewFileSet()
		f, err := parser.ParseFile(fset, full, nil, parser.ParseComments)
		if err != nil {
			return nil, 0, nil, err
		}
		fname, _ := filepath.Rel(src, full)
		fname = filepath.ToSlash(fname)
		ords := map[string]int{} // func|api -> count
		add := func(fn, api, kind string, at ast.Node, stmt ast.Node) {
			ords[fn+"|"+api]++
			text := c07NodeText(fset, stmt)
			out = append(out, envRead{File: fname, Func: fn, API: api, Ordinal: ords[fn+"|"+api], Kind: kind,
				StmtHash: c07Hash12(text), Line: fset.Position(at.Pos()).Line, Stmt: c07FirstLine(text)})
		}

		// imports: local name -> path
		local := map[string]string{}
		allLocal := map[string]bool{}
		for _, is := range f.Imports {
			path, err := strconv.Unquote(is.Path.Value)
			if err != nil {
				path = strings.Trim(is.Path.Value, "\"`")
			}
			name := c07DefaultImportName(path)
			if is.Name != nil {
				name = is.Name.Name
			}
			pk := c07EnvPkgs[path]
			if name != "." && name != "_" {
				allLocal[name] = true
			}
			if pk == nil {
				continue
			}
			switch {
			case name == ".":
				add("<package-level>", "dot-import "+path, "import", is, is)
			case name == "_":
				add("<package-level>", "blank-import "+path, "import", is, is)
			default:
				local[name] = path
			}
			if pk.imp {
				add("<package-level>", "import "+path, "import", is, is)
			}
		}

		scan := func(fn string, root ast.Node, fallback ast.Node) {
			var stack []ast.Node
			enclosing := func() ast.Node {
				for i := len(stack) - 1; i >= 0; i-- {
					switch s := stack[i].(type) {
					case ast.Stmt:
						return s
					case ast.Spec:
						return s
					}
				}
				return fallback
			}
			ast.Inspect(root, func(n ast.Node) bool {
				if n == nil {
					stack = stack[:len(stack)-1]
					return true
				}
				stack = append(stack, n)
				switch x := n.(type) {
				case *ast.GoStmt:
					add(fn, "go-stmt", "go-stmt", x, x)
				case *ast.SelectStmt:
					add(fn, "select-stmt", "select-stmt", x, x)
				case *ast.SelectorExpr:
					id, ok := x.X.(*ast.Ident)
					if !ok {
						break
					}
					path, ok := local[id.Name]
					if !ok {
						break
					}
					pk := c07EnvPkgs[path]
					if pk.all || pk.names[x.Sel.Name] {
						add(fn, pk.short+"."+x.Sel.Name, "selector", x, enclosing())
					}
				case *ast.CallExpr:
					sel, ok := x.Fun.(*ast.SelectorExpr)
					if !ok || !c07EnvMethods[sel.Sel.Name] {
						break
					}
					if id, ok := sel.X.(*ast.Ident); ok && id.Obj == nil && allLocal[id.Name] {
						break // a function of an imported package, not a method
					}
					add(fn, "method ."+sel.Sel.Name+"(", "method-call", x, enclosing())
				}
				return true
			})
		}
		for _, decl := range f.Decls {
			switch d := decl.(type) {
			case *ast.FuncDecl:
				fn := c07FuncName(d)
				scan(fn, d, d.Type)
				if d.Body != nil {
					funcHashes[fname+"|"+fn] = c07Hash12(c07NodeText(fset, d.Body))
				}
			case *ast.GenDecl:
				if d.Tok == token.IMPORT {
					continue
				}
				scan("<package-level>", d, d)
			}
		}
	}
	sort.SliceStable(out, func(i, j int) bool { return out[i].id() < out[j].id() })
	return out, len(files), funcHashes, nil
}

var c07EnvTextRe = regexp.MustCompile(`\b(os\.(Getenv|LookupEnv|Environ|Hostname|Getpid|Getuid|Getwd|TempDir)|time\.(Now|Since|Local|LoadLocation|ParseInLocation)|filepath\.Abs|runtime\.(NumCPU|GOOS|GOARCH)|user\.Current)\b`)
var c07EnvStringRe = regexp.MustCompile(`"(\\.|[^"\\])*"|'(\\.|[^'\\])*'`)

// c07EnvTextual: "file:line" -> matched text, of every line of a non-test .go file below src that
// mentions one of the API names outside interpreted string literals and line comments. Independent
// of go/parser and of the walk used by the scanner.
func c07EnvTextual(src string) (map[string]string, int, error) {
	res := map[string]string{}
	nfiles := 0
	err := filepath.WalkDir(src, func(p string, d fs.DirEntry, err error) error {
		if err != nil {
			return err
		}
		n := d.Name()
		if d.IsDir() {
			if p != src && (strings.HasPrefix(n, ".") || n == "testdata" || n == "vendor") {
				return fs.SkipDir
			}
			return nil
		}
		if !strings.HasSuffix(n, ".go") || strings.HasSuffix(n, "_test.go") {
			return nil
		}
		data, err := os.ReadFile(p)
		if err != nil {
			return err
		}
		nfiles++
		rel, _ := filepath.Rel(src, p)
		rel = filepath.ToSlash(rel)
		for i, line := range strings.Split(string(data), "\n") {
			line = c07EnvStringRe.ReplaceAllString(line, `""`)
			if j := strings.Index(line, "//"); j >= 0 {
				line = line[:j]
			}
			if m := c07EnvTextRe.FindString(line); m != "" {
				res[fmt.Sprintf("%s:%d", rel, i+1)] = m
			}
		}
		return nil
	})
	return res, nfiles, err
}

func genEnvReads(src string) (string, string, error) {
	found, nfiles, funcHashes, err := c07EnvScan(src)
	if err != nil {
		return "", "", err
	}
	auditPath := filepath.Join(os.Args[2], "..", "..", "audit", "envreads.json")
	var audit struct {
		Comment string    `json:"comment"`
		Uses    []envRead `json:"uses"`
	}
	data, rerr := os.ReadFile(auditPath)
	if rerr == nil {
		if jerr := json.Unmarshal(data, &audit); jerr != nil {
			return "", "", fmt.Errorf("audit/envreads.json: %v", jerr)
		}
	}
	byID := map[string]envRead{}
	var problems []string
	for _, a := range audit.Uses {
		if _, dup := byID[a.id()]; dup {
			problems = append(problems, fmt.Sprintf("audit/envreads.json lists %s twice", a.id()))
		}
		byID[a.id()] = a
	}
	if rerr != nil {
		problems = append(problems, fmt.Sprintf("audit/envreads.json cannot be read: %v", rerr))
	}
	pinsChanged := func(a envRead) string {
		for _, p := range a.Pins {
			h, ok := funcHashes[p.File+"|"+p.Func]
			if !ok {
				return fmt.Sprintf("pinned function %s %s is gone", p.File, p.Func)
			}
			if h != p.BodyHash {
				return fmt.Sprintf("pinned function %s %s changed (body %s, audited %s)", p.File, p.Func, h, p.BodyHash)
			}
		}
		return ""
	}
	var codes []string
	matched := map[string]bool{}
	pinSeen := map[string]bool{}
	lines := map[string]bool{}
	for i := range found {
		f := &found[i]
		lines[fmt.Sprintf("%s:%d", f.File, f.Line)] = true
		a, ok := byID[f.id()]
		code := 0
		where := fmt.Sprintf("%s:%d %s %s", f.File, f.Line, f.Func, f.API)
		if f.Ordinal > 1 {
			where += fmt.Sprintf(" #%d", f.Ordinal)
		}
		switch {
		case !ok:
			problems = append(problems, "new environment read "+where)
		case a.StmtHash != f.StmtHash:
			matched[f.id()] = true
			problems = append(problems, fmt.Sprintf("changed environment read %s (statement %s, audited %s)", where, f.StmtHash, a.StmtHash))
		case pinsChanged(a) != "":
			matched[f.id()] = true
			if msg := pinsChanged(a); !pinSeen[msg] { // reported once, every item relying on it gets code 0
				pinSeen[msg] = true
				problems = append(problems, fmt.Sprintf("environment read %s: %s", where, msg))
			}
		case c07EnvClasses[a.Class] == 0:
			matched[f.id()] = true
			problems = append(problems, "unclassified environment read "+where)
		case strings.TrimSpace(a.Why) == "":
			matched[f.id()] = true
			problems = append(problems, "environment read "+where+" has no justification")
		default:
			matched[f.id()] = true
			code = c07EnvClasses[a.Class]
		}
		if ok {
			f.Class, f.Why, f.Pins = a.Class, a.Why, a.Pins
		}
		codes = append(codes, fmt.Sprintf("  (* %s *) %d", c07CoqComment(fmt.Sprintf("%s %s %s #%d", f.File, f.Func, f.API, f.Ordinal)), code))
	}
	for _, a := range audit.Uses {
		if !matched[a.id()] {
			problems = append(problems, fmt.Sprintf("audited environment read is gone: %s %s %s #%d", a.File, a.Func, a.API, a.Ordinal))
		}
	}
	textual, ntext, err := c07EnvTextual(src)
	if err != nil {
		return "", "", err
	}
	if ntext != nfiles {
		problems = append(problems, fmt.Sprintf("the scanner parsed %d files, the textual pass read %d", nfiles, ntext))
	}
	tkeys := make([]string, 0, len(textual))
	for k := range textual {
		tkeys = append(tkeys, k)
	}
	sort.Strings(tkeys)
	for _, k := range tkeys {
		if !lines[k] {
			problems = append(problems, fmt.Sprintf("textual match not found by the scanner: %s %s", k, textual[k]))
		}
	}
	if dump := os.Getenv("VERIF_C07_DUMP_ENV"); dump != "" {
		for i := range found {
			if len(found[i].Pins) == 0 {
				continue
			}
			pins := append([]c07Pin(nil), found[i].Pins...)
			for j := range pins {
				if pins[j].BodyHash == "" {
					pins[j].BodyHash = funcHashes[pins[j].File+"|"+pins[j].Func]
				}
			}
			found[i].Pins = pins
		}
		o := map[string]any{"comment": audit.Comment, "uses": found}
		var bb bytes.Buffer
		enc := json.NewEncoder(&bb)
		enc.SetEscapeHTML(false)
		enc.SetIndent("", " ")
		enc.Encode(o)
		os.WriteFile(dump, bb.Bytes(), 0o644)
	}
	var sb strings.Builder
	sb.WriteString("(* GENERATED by gen/c07env.go from /repo/v23 and audit/envreads.json -- do not edit.\n")
	sb.WriteString("   One class code per use, in non-test code, of an API that reads the environment (environment\n")
	sb.WriteString("   variables, host/user/process identity, working directory, clock, time zone, CPU count, random\n")
	sb.WriteString("   numbers, imports of os/user math/rand crypto/rand os/exec os/signal net net/http syscall unsafe,\n")
	sb.WriteString("   go and select statements):\n")
	sb.WriteString("   1 documented input held fixed by the check, 2 profiling only (-p), 3 irrelevant (does not reach\n")
	sb.WriteString("   stdout/stderr/exit/files, or a pure function of tree+args), 4 only reachable from tests,\n")
	sb.WriteString("   5 user identity (login name for the OWNER/MAINTAINER check), 6 reaches the output and is not\n")
	sb.WriteString("   tree/args (recorded finding), 0 = not (or no longer) covered by the audit. *)\n")
	sb.WriteString("From Coq Require Import List NArith.\nImport ListNotations.\nOpen Scope N_scope.\n")
	if len(codes) == 0 {
		sb.WriteString("Definition envread_classes : list N := [].\n")
	} else {
		sb.WriteString("Definition envread_classes : list N := [\n")
		sb.WriteString(strings.Join(codes, ";\n"))
		sb.WriteString("\n].\n")
	}
	sb.WriteString(fmt.Sprintf("Definition envread_count : N := %d.\n", len(found)))
	sb.WriteString(fmt.Sprintf("Definition envread_files_scanned : N := %d.\n", nfiles))
	if len(problems) > 0 {
		// the Gen file is still written by hand here, so that Proofs/EnvReadAudit.v fails on its own too
		path := filepath.Join(os.Args[2], "EnvReadAudit.v")
		old, _ := os.ReadFile(path)
		if string(old) != sb.String() {
			os.WriteFile(path, []byte(sb.String()), 0o644)
		}
		if len(problems) > 6 {
			problems = append(problems[:6], fmt.Sprintf("... and %d more", len(problems)-6))
		}
		return "", "", fmt.Errorf("audit/envreads.json no longer matches the source: %s", strings.Join(problems, "; "))
	}
	return "EnvReadAudit.v", sb.String(), nil
}

func init() { generators["envreads"] = genEnvReads }
