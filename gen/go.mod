module verifgen

go 1.19
