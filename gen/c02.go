package main

import (
	"encoding/json"
	"fmt"
	"go/ast"
	"go/parser"
	"go/token"
	"go/types"
	"os"
	"path/filepath"
	"sort"
	"strings"
)

// writesites (C02): lists every call of a file-mutating primitive in the
// non-test code of /repo/v23 (all packages below it):
//
//	os.WriteFile Rename Chmod Chown Create CreateTemp Remove RemoveAll Mkdir
//	   MkdirAll MkdirTemp OpenFile Symlink Link Truncate, ioutil.WriteFile
//	   TempFile TempDir
//	every call of the methods WriteString / Rename / Chmod on a CurrPath
//	   (receiver type resolved by go/types with imports stubbed out; a receiver
//	   of unknown type counts for Rename/Chmod, to stay on the safe side)
//
// A site is (file, enclosing function, callee) with a count; line numbers are
// not part of it, so that unrelated edits do not move it.  The list must be
// equal to the committed, hand-classified audit/writesites.json; otherwise the
// generator fails (the model's assumption "these are the only writes" is no
// longer tied to the source).  It also writes Gen/WriteSites.v for Props/C02.v.

type writeSite struct {
	File  string `json:"file"`
	Func  string `json:"func"`
	Call  string `json:"call"`
	Count int    `json:"count"`
	Class string `json:"class,omitempty"`
	Why   string `json:"why,omitempty"`
}

type stubImporter struct{ pkgs map[string]*types.Package }

func (s *stubImporter) Import(path string) (*types.Package, error) {
	if p, ok := s.pkgs[path]; ok {
		return p, nil
	}
	name := path[strings.LastIndex(path, "/")+1:]
	p := types.NewPackage(path, name)
	p.MarkComplete()
	s.pkgs[path] = p
	return p, nil
}

var osMutators = map[string]bool{"WriteFile": true, "Rename": true, "Chmod": true, "Chown": true, "Lchown": true, "Create": true, "CreateTemp": true,
	"Remove": true, "RemoveAll": true, "Mkdir": true, "MkdirAll": true, "MkdirTemp": true, "OpenFile": true, "Symlink": true, "Link": true, "Truncate": true, "Chtimes": true}
var ioutilMutators = map[string]bool{"WriteFile": true, "TempFile": true, "TempDir": true}
var pathMethods = map[string]bool{"WriteString": true, "Rename": true, "Chmod": true}

func scanWriteSites(src string) ([]writeSite, error) {
	counts := map[[3]string]int{}
	var dirs []string
	err := filepath.Walk(src, func(p string, info os.FileInfo, err error) error {
		if err != nil {
			return err
		}
		if info.IsDir() {
			if strings.HasPrefix(info.Name(), ".") && p != src || info.Name() == "testdata" {
				return filepath.SkipDir
			}
			dirs = append(dirs, p)
		}
		return nil
	})
	if err != nil {
		return nil, err
	}
	for _, dir := range dirs {
		fset := token.NewFileSet()
		ents, _ := os.ReadDir(dir)
		byPkg := map[string][]*ast.File{}
		names := map[*ast.File]string{}
		for _, e := range ents {
			n := e.Name()
			if e.IsDir() || !strings.HasSuffix(n, ".go") || strings.HasSuffix(n, "_test.go") {
				continue
			}
			f, err := parser.ParseFile(fset, filepath.Join(dir, n), nil, 0)
			if err != nil {
				return nil, err
			}
			rel, _ := filepath.Rel(src, filepath.Join(dir, n))
			names[f] = rel
			byPkg[f.Name.Name] = append(byPkg[f.Name.Name], f)
		}
		for _, files := range byPkg {
			info := &types.Info{Types: map[ast.Expr]types.TypeAndValue{}, Selections: map[*ast.SelectorExpr]*types.Selection{}, Uses: map[*ast.Ident]types.Object{}}
			conf := types.Config{Importer: &stubImporter{map[string]*types.Package{}}, Error: func(error) {}, FakeImportC: true}
			conf.Check(dir, fset, files, info) // errors are expected: imports are stubs
			for _, f := range files {
				for _, d := range f.Decls {
					fd, ok := d.(*ast.FuncDecl)
					fname := "<init>"
					var body ast.Node = d
					if ok {
						fname = fd.Name.Name
						if fd.Recv != nil && len(fd.Recv.List) == 1 {
							t := fd.Recv.List[0].Type
							if st, ok := t.(*ast.StarExpr); ok {
								t = st.X
							}
							if id, ok := t.(*ast.Ident); ok {
								fname = id.Name + "." + fname
							}
						}
						if fd.Body == nil {
							continue
						}
						body = fd.Body
					}
					ast.Inspect(body, func(n ast.Node) bool {
						call, ok := n.(*ast.CallExpr)
						if !ok {
							return true
						}
						sel, ok := call.Fun.(*ast.SelectorExpr)
						if !ok {
							return true
						}
						if id, ok := sel.X.(*ast.Ident); ok {
							if pn, ok := info.Uses[id].(*types.PkgName); ok {
								ip := pn.Imported().Path()
								if ip == "os" && osMutators[sel.Sel.Name] || ip == "io/ioutil" && ioutilMutators[sel.Sel.Name] {
									counts[[3]string{names[f], fname, pn.Imported().Name() + "." + sel.Sel.Name}]++
								}
								return true
							}
						}
						if !pathMethods[sel.Sel.Name] {
							return true
						}
						tv, known := info.Types[sel.X]
						recv := ""
						if known && tv.Type != nil {
							t := tv.Type
							if p, ok := t.(*types.Pointer); ok {
								t = p.Elem()
							}
							if nt, ok := t.(*types.Named); ok {
								recv = nt.Obj().Name()
							} else if b, ok := t.(*types.Basic); ok && b.Kind() == types.Invalid {
								recv = "?"
							} else {
								recv = t.String()
							}
						} else {
							recv = "?"
						}
						switch {
						case recv == "CurrPath":
							counts[[3]string{names[f], fname, "CurrPath." + sel.Sel.Name}]++
						case recv == "?" && sel.Sel.Name != "WriteString":
							counts[[3]string{names[f], fname, "?." + sel.Sel.Name}]++
						}
						return true
					})
				}
			}
		}
	}
	var sites []writeSite
	for k, c := range counts {
		sites = append(sites, writeSite{File: k[0], Func: k[1], Call: k[2], Count: c})
	}
	sort.Slice(sites, func(i, j int) bool {
		a, b := sites[i], sites[j]
		if a.File != b.File {
			return a.File < b.File
		}
		if a.Func != b.Func {
			return a.Func < b.Func
		}
		return a.Call < b.Call
	})
	return sites, nil
}

func genWriteSites(src string) (string, string, error) {
	sites, err := scanWriteSites(src)
	if err != nil {
		return "", "", err
	}
	// the committed classification lives next to coq/: <outdir>/../../audit/writesites.json
	auditPath := filepath.Join(os.Args[2], "..", "..", "audit", "writesites.json")
	data, err := os.ReadFile(auditPath)
	if err != nil {
		return "", "", fmt.Errorf("cannot read %s: %v", auditPath, err)
	}
	var audit struct {
		Sites []writeSite `json:"sites"`
	}
	if err := json.Unmarshal(data, &audit); err != nil {
		return "", "", fmt.Errorf("%s: %v", auditPath, err)
	}
	key := func(s writeSite) string { return fmt.Sprintf("%s|%s|%s|%d", s.File, s.Func, s.Call, s.Count) }
	have := map[string]bool{}
	for _, s := range sites {
		have[key(s)] = true
	}
	want := map[string]bool{}
	var diffs []string
	for _, s := range audit.Sites {
		want[key(s)] = true
		if !have[key(s)] {
			diffs = append(diffs, "gone: "+key(s))
		}
		if s.Class == "" {
			diffs = append(diffs, "unclassified: "+key(s))
		}
	}
	for _, s := range sites {
		if !want[key(s)] {
			diffs = append(diffs, "new: "+key(s))
		}
	}
	var sb strings.Builder
	sb.WriteString("(* Generated by gen/c02.go from the source of /repo/v23: every call of a\n   file-mutating primitive in non-test code (file, enclosing function, callee, count). *)\n")
	sb.WriteString("From Coq Require Import String List.\nImport ListNotations.\nOpen Scope string_scope.\n\n")
	sb.WriteString("Definition write_sites : list (string * string * string * nat) :=\n  [")
	for i, s := range sites {
		if i > 0 {
			sb.WriteString(";\n   ")
		}
		fmt.Fprintf(&sb, "(%q, %q, %q, %d)", s.File, s.Func, s.Call, s.Count)
	}
	sb.WriteString("].\n")
	if len(diffs) > 0 {
		if os.Getenv("VERIF_PRINT_WRITESITES") != "" {
			out, _ := json.MarshalIndent(map[string]any{"sites": sites}, "", " ")
			fmt.Fprintln(os.Stderr, string(out))
		}
		return "", "", fmt.Errorf("write sites differ from audit/writesites.json (the run model's assumption about where pkglint writes is no longer tied to the source): %s", strings.Join(diffs, "; "))
	}
	return "WriteSites.v", sb.String(), nil
}

func init() { generators["writesites"] = genWriteSites }
