package main

// maprange: the static tie of C07 (determinism).
//
// Lists EVERY `range` statement over a Go map in the non-test code of
// /repo/v23 (all packages), with file, enclosing function, ordinal inside the
// function, the ranged expression, its type and a hash of the loop body's
// (re-printed, hence whitespace-insensitive) source text, and compares the
// list with the committed, hand-classified audit/maprange.json.
//
// Types come from go/types. Imports are resolved by a small importer of my
// own: packages of the module itself are parsed and type-checked from the
// mirror (recursively), the standard library comes from go/importer in
// "source" mode (GOROOT only, works offline), anything else (third-party
// modules) becomes an empty fake package -- type errors are collected, not
// fatal. A `range` whose operand has no resolved type is listed with type
// "?unresolved" and is never accepted silently: it is a map range as far as
// the audit is concerned, unless the audit file classifies it.
//
// Output: coq/Gen/MapRangeAudit.v holding the class code of every loop found
// (0 = not in the audit / body changed), which Props/C07.v re-checks, and an
// error (-> GENFAIL -> "correspondence broken") when the lists differ.
//
// VERIF_C07_DUMP=<file> additionally writes the list that was found, in the
// audit file's format (classes copied from the audit where the entry matches).

import (
	"bytes"
	"crypto/sha256"
	"encoding/json"
	"fmt"
	"go/ast"
	"go/build"
	"go/importer"
	"go/parser"
	"go/printer"
	"go/token"
	"go/types"
	"os"
	"path/filepath"
	"sort"
	"strings"
)

const c07Module = "github.com/rillig/pkglint/v23"

type mapRange struct {
	File     string `json:"file"`
	Func     string `json:"func"`
	Ordinal  int    `json:"ordinal"` // n-th map range inside Func, from 1
	Expr     string `json:"expr"`
	Type     string `json:"type"`
	Vars     string `json:"vars"` // "k", "k,v", "_,v", "" ...
	BodyHash string `json:"body_sha256"`
	Line     int    `json:"line,omitempty"` // informative only, not compared
	Class    string `json:"class"`
	Why      string `json:"why"`
	// Pins: other functions the classification relies on (e.g. the less function of a
	// later sort); their re-printed bodies are hashed and compared as well.
	Pins []c07Pin `json:"pins,omitempty"`
}

type c07Pin struct {
	File     string `json:"file"`
	Func     string `json:"func"`
	BodyHash string `json:"body_sha256"`
}

// c07FuncHashes: "file|func" -> hash of the re-printed body, for every function of the module (filled by c07Scan).
var c07FuncHashes = map[string]string{}

func (m mapRange) id() string {
	return fmt.Sprintf("%s|%s|%d", m.File, m.Func, m.Ordinal)
}

var c07Classes = map[string]int{
	"sorted":      1, // keys (or results) are sorted before any use that reaches the output
	"commutative": 2, // commutative/associative accumulation (counting, max, set union, map copy)
	"lookup":      3, // existence test / lookup / set insertion only
	"irrelevant":  4, // order dependent, but provably not reaching stdout/stderr/exit/files (see why)
	"finding":     5, // order dependent AND reaching the output: a recorded defect (known-findings.json)
}

type c07Importer struct {
	src   string
	fset  *token.FileSet
	std   types.Importer
	pkgs  map[string]*types.Package
	infos map[string]*types.Info
	files map[string][]*ast.File
	errs  []string
}

func (im *c07Importer) Import(path string) (*types.Package, error) {
	if p, ok := im.pkgs[path]; ok {
		return p, nil
	}
	if path == c07Module || strings.HasPrefix(path, c07Module+"/") {
		rel := strings.TrimPrefix(strings.TrimPrefix(path, c07Module), "/")
		return im.check(path, filepath.Join(im.src, rel))
	}
	if !strings.Contains(strings.SplitN(path, "/", 2)[0], ".") {
		p, err := im.std.Import(path)
		if err == nil {
			im.pkgs[path] = p
			return p, nil
		}
		im.errs = append(im.errs, "std import "+path+": "+err.Error())
	}
	// third-party module: an empty, complete package; uses become type errors, which are collected
	p := types.NewPackage(path, filepath.Base(path))
	p.MarkComplete()
	im.pkgs[path] = p
	return p, nil
}

func (im *c07Importer) check(path, dir string) (*types.Package, error) {
	ents, err := os.ReadDir(dir)
	if err != nil {
		return nil, err
	}
	var files []*ast.File
	for _, e := range ents {
		n := e.Name()
		if e.IsDir() || !strings.HasSuffix(n, ".go") || strings.HasSuffix(n, "_test.go") {
			continue
		}
		full := filepath.Join(dir, n)
		if ok, _ := build.Default.MatchFile(dir, n); !ok {
			// build-constrained file (e.g. another OS): still audited syntactically below? No:
			// parse and type-check it too, errors are tolerated
			_ = ok
		}
		f, err := parser.ParseFile(im.fset, full, nil, parser.ParseComments)
		if err != nil {
			return nil, err
		}
		files = append(files, f)
	}
	info := &types.Info{Types: map[ast.Expr]types.TypeAndValue{}, Defs: map[*ast.Ident]types.Object{}, Uses: map[*ast.Ident]types.Object{}}
	conf := types.Config{Importer: im, Error: func(err error) { im.errs = append(im.errs, err.Error()) }, FakeImportC: true}
	// several files may belong to different packages (package main vs. pkglint): group by name
	byName := map[string][]*ast.File{}
	for _, f := range files {
		byName[f.Name.Name] = append(byName[f.Name.Name], f)
	}
	var first *types.Package
	names := make([]string, 0, len(byName))
	for n := range byName {
		names = append(names, n)
	}
	sort.Strings(names)
	for _, n := range names {
		p, _ := conf.Check(path, im.fset, byName[n], info)
		if first == nil || n != "main" {
			first = p
		}
	}
	im.pkgs[path] = first
	im.infos[path] = info
	im.files[path] = files
	return first, nil
}

func c07NodeText(fset *token.FileSet, n ast.Node) string {
	var b bytes.Buffer
	(&printer.Config{Mode: printer.UseSpaces, Tabwidth: 1}).Fprint(&b, fset, n)
	return b.String()
}

func c07FuncName(fd *ast.FuncDecl) string {
	if fd.Recv == nil || len(fd.Recv.List) == 0 {
		return fd.Name.Name
	}
	t := fd.Recv.List[0].Type
	star := ""
	if s, ok := t.(*ast.StarExpr); ok {
		t, star = s.X, "*"
	}
	if ix, ok := t.(*ast.IndexExpr); ok {
		t = ix.X
	}
	name := "?"
	if id, ok := t.(*ast.Ident); ok {
		name = id.Name
	}
	return "(" + star + name + ")." + fd.Name.Name
}

// c07Scan lists all map ranges of the module rooted at src.
func c07Scan(src string) ([]mapRange, []string, error) {
	fset := token.NewFileSet()
	im := &c07Importer{src: src, fset: fset, std: importer.ForCompiler(fset, "source", nil),
		pkgs: map[string]*types.Package{}, infos: map[string]*types.Info{}, files: map[string][]*ast.File{}}
	// every directory with non-test Go files is a package of the module
	var dirs []string
	err := filepath.Walk(src, func(p string, fi os.FileInfo, err error) error {
		if err != nil {
			return err
		}
		if fi.IsDir() {
			if n := fi.Name(); p != src && (strings.HasPrefix(n, ".") || n == "testdata" || n == "vendor") {
				return filepath.SkipDir
			}
			return nil
		}
		if strings.HasSuffix(p, ".go") && !strings.HasSuffix(p, "_test.go") {
			d := filepath.Dir(p)
			if len(dirs) == 0 || dirs[len(dirs)-1] != d {
				dirs = append(dirs, d)
			}
		}
		return nil
	})
	if err != nil {
		return nil, nil, err
	}
	seen := map[string]bool{}
	var out []mapRange
	for _, d := range dirs {
		if seen[d] {
			continue
		}
		seen[d] = true
		rel, _ := filepath.Rel(src, d)
		path := c07Module
		if rel != "." {
			path += "/" + filepath.ToSlash(rel)
		}
		if _, err := im.Import(path); err != nil {
			return nil, nil, fmt.Errorf("package %s: %v", path, err)
		}
		info := im.infos[path]
		for _, f := range im.files[path] {
			fname, _ := filepath.Rel(src, fset.Position(f.Pos()).Filename)
			fname = filepath.ToSlash(fname)
			scanBody := func(fn string, root ast.Node, ord *int) {
				ast.Inspect(root, func(n ast.Node) bool {
					rs, ok := n.(*ast.RangeStmt)
					if !ok {
						return true
					}
					tv, known := info.Types[rs.X]
					typ := "?unresolved"
					isMap := false
					if known && tv.Type != nil {
						if b, ok := tv.Type.Underlying().(*types.Basic); ok && b.Kind() == types.Invalid {
							isMap = true // unresolved: conservatively a candidate
						} else {
							typ = types.TypeString(tv.Type, func(p *types.Package) string { return p.Name() })
							switch u := tv.Type.Underlying().(type) {
							case *types.Map:
								isMap = true
							case *types.TypeParam:
								isMap = true // could be instantiated with a map
								_ = u
							case *types.Interface:
								isMap = true
							}
						}
					} else {
						isMap = true
					}
					if !isMap {
						return true
					}
					*ord++
					vars := ""
					if rs.Key != nil {
						vars = c07NodeText(fset, rs.Key)
						if rs.Value != nil {
							vars += "," + c07NodeText(fset, rs.Value)
						}
					}
					sum := sha256.Sum256([]byte(c07NodeText(fset, rs.Body)))
					out = append(out, mapRange{File: fname, Func: fn, Ordinal: *ord, Expr: c07NodeText(fset, rs.X), Type: typ, Vars: vars,
						BodyHash: fmt.Sprintf("%x", sum[:12]), Line: fset.Position(rs.Pos()).Line})
					return true
				})
			}
			for _, decl := range f.Decls {
				switch d := decl.(type) {
				case *ast.FuncDecl:
					if d.Body != nil {
						ord := 0
						scanBody(c07FuncName(d), d.Body, &ord)
						fsum := sha256.Sum256([]byte(c07NodeText(fset, d.Body)))
						c07FuncHashes[fname+"|"+c07FuncName(d)] = fmt.Sprintf("%x", fsum[:12])
					}
				case *ast.GenDecl: // function literals in package-level variable initialisers
					ord := 0
					scanBody("<package-level>", d, &ord)
				}
			}
		}
	}
	sort.SliceStable(out, func(i, j int) bool { return out[i].id() < out[j].id() })
	return out, im.errs, nil
}

// c07CountRangeStmts: an independent, purely syntactic count of `range`
// statements, so that a scanner that silently stopped visiting files is noticed.
func c07CountRangeStmts(src string) (int, error) {
	n := 0
	err := filepath.Walk(src, func(p string, fi os.FileInfo, err error) error {
		if err != nil || fi.IsDir() || !strings.HasSuffix(p, ".go") || strings.HasSuffix(p, "_test.go") {
			return err
		}
		fset := token.NewFileSet()
		f, err := parser.ParseFile(fset, p, nil, 0)
		if err != nil {
			return err
		}
		ast.Inspect(f, func(x ast.Node) bool {
			if _, ok := x.(*ast.RangeStmt); ok {
				n++
			}
			return true
		})
		return nil
	})
	return n, err
}

func c07PinsChanged(a mapRange) string {
	for _, p := range a.Pins {
		h, ok := c07FuncHashes[p.File+"|"+p.Func]
		if !ok {
			return fmt.Sprintf("pinned function %s %s is gone", p.File, p.Func)
		}
		if h != p.BodyHash {
			return fmt.Sprintf("pinned function %s %s changed (body %s, audited %s)", p.File, p.Func, h, p.BodyHash)
		}
	}
	return ""
}

func c07CoqComment(s string) string {
	s = strings.ReplaceAll(s, "(*", "( *")
	s = strings.ReplaceAll(s, "*)", "* )")
	return strings.ReplaceAll(s, "\"", "'")
}

func genMapRange(src string) (string, string, error) {
	found, typeErrs, err := c07Scan(src)
	if err != nil {
		return "", "", err
	}
	auditPath := filepath.Join(os.Args[2], "..", "..", "audit", "maprange.json")
	var audit struct {
		Comment    string     `json:"comment"`
		RangeStmts int        `json:"range_stmts_total"`
		Loops      []mapRange `json:"loops"`
	}
	data, rerr := os.ReadFile(auditPath)
	if rerr == nil {
		if jerr := json.Unmarshal(data, &audit); jerr != nil {
			return "", "", fmt.Errorf("audit/maprange.json: %v", jerr)
		}
	}
	byID := map[string]mapRange{}
	for _, a := range audit.Loops {
		byID[a.id()] = a
	}
	var problems []string
	var codes []string
	matched := map[string]bool{}
	for i := range found {
		f := &found[i]
		a, ok := byID[f.id()]
		code := 0
		switch {
		case !ok:
			problems = append(problems, fmt.Sprintf("new map range %s:%d %s #%d over %s (%s)", f.File, f.Line, f.Func, f.Ordinal, f.Expr, f.Type))
		case c07PinsChanged(a) != "":
			matched[f.id()] = true
			problems = append(problems, fmt.Sprintf("map range %s %s #%d: %s", f.File, f.Func, f.Ordinal, c07PinsChanged(a)))
		case a.BodyHash != f.BodyHash || a.Expr != f.Expr || a.Vars != f.Vars:
			matched[f.id()] = true
			problems = append(problems, fmt.Sprintf("changed map range %s:%d %s #%d over %s (body %s, audited %s over %s)", f.File, f.Line, f.Func, f.Ordinal, f.Expr, f.BodyHash, a.BodyHash, a.Expr))
		case c07Classes[a.Class] == 0:
			matched[f.id()] = true
			problems = append(problems, fmt.Sprintf("unclassified map range %s %s #%d", f.File, f.Func, f.Ordinal))
		case strings.TrimSpace(a.Why) == "":
			matched[f.id()] = true
			problems = append(problems, fmt.Sprintf("map range %s %s #%d has no justification", f.File, f.Func, f.Ordinal))
		default:
			matched[f.id()] = true
			code = c07Classes[a.Class]
			f.Class, f.Why, f.Pins = a.Class, a.Why, a.Pins
		}
		codes = append(codes, fmt.Sprintf("  (* %s *) %d", c07CoqComment(fmt.Sprintf("%s %s #%d: %s", f.File, f.Func, f.Ordinal, f.Expr)), code))
	}
	for _, a := range audit.Loops {
		if !matched[a.id()] {
			problems = append(problems, fmt.Sprintf("audited map range is gone: %s %s #%d over %s", a.File, a.Func, a.Ordinal, a.Expr))
		}
	}
	nRange, err := c07CountRangeStmts(src)
	if err != nil {
		return "", "", err
	}
	if audit.RangeStmts != nRange {
		// not a failure by itself (slices come and go); but every range statement must have been typed
		_ = nRange
	}
	unresolved := 0
	for _, f := range found {
		if f.Type == "?unresolved" {
			unresolved++
		}
	}
	if dump := os.Getenv("VERIF_C07_DUMP"); dump != "" {
		o := map[string]any{"comment": audit.Comment, "range_stmts_total": nRange, "loops": found, "type_errors": typeErrs, "IsAbove_hash": c07FuncHashes["changes.go|(*Change).IsAbove"]}
		b, _ := json.MarshalIndent(o, "", " ")
		os.WriteFile(dump, append(b, '\n'), 0o644)
	}
	var sb strings.Builder
	sb.WriteString("(* GENERATED by gen/c07.go from /repo/v23 and audit/maprange.json -- do not edit.\n")
	sb.WriteString("   One class code per `range` over a map in non-test code:\n")
	sb.WriteString("   1 sorted before use, 2 commutative accumulation, 3 existence/lookup/set-insert,\n")
	sb.WriteString("   4 order dependent but output-irrelevant, 5 order dependent and reaching the output (recorded\n")
	sb.WriteString("   finding), 0 = not (or no longer) covered by the audit. *)\n")
	sb.WriteString("From Coq Require Import List NArith.\nImport ListNotations.\nOpen Scope N_scope.\n")
	sb.WriteString("Definition maprange_classes : list N := [\n")
	sb.WriteString(strings.Join(codes, ";\n"))
	sb.WriteString("\n].\n")
	sb.WriteString(fmt.Sprintf("Definition maprange_count : N := %d.\n", len(found)))
	sb.WriteString(fmt.Sprintf("Definition range_stmts_total : N := %d.\n", nRange))
	sb.WriteString(fmt.Sprintf("Definition maprange_unresolved : N := %d.\n", unresolved))
	if len(problems) > 0 {
		// the Gen file is still written by hand here, so that Props/C07.v fails on its own too
		path := filepath.Join(os.Args[2], "MapRangeAudit.v")
		old, _ := os.ReadFile(path)
		if string(old) != sb.String() {
			os.WriteFile(path, []byte(sb.String()), 0o644)
		}
		if len(problems) > 6 {
			problems = append(problems[:6], fmt.Sprintf("... and %d more", len(problems)-6))
		}
		return "", "", fmt.Errorf("audit/maprange.json no longer matches the source: %s", strings.Join(problems, "; "))
	}
	return "MapRangeAudit.v", sb.String(), nil
}

func init() { generators["maprange"] = genMapRange }
