package main

import (
	"bytes"
	"encoding/json"
	"fmt"
	"go/ast"
	"go/printer"
	"go/token"
	"os"
	"path/filepath"
	"sort"
	"strconv"
	"strings"
)

// options: translates the option table built in Pkglint.ParseCommandLine
// (pkglint.go) into Gen/Options.v.  The shape the model (Model/Getopt.v) is
// written against is checked here:
//
//	opts := getopt.NewOptions()
//	g := opts.AddFlagGroup('C', "check", argsName, descr)      -> KGroup
//	opts.AddFlagVar('d', "debug", &target, false, descr)       -> KBool
//	opts.AddStrVar('x', "long", &target, "default", descr)     -> KStr
//	opts.AddStrList('o', "only", &target, descr)               -> KList
//	g.AddFlagVar("global", &target, false, descr)              -> flag, affected by all/none
//	g.AddFlagVarNoAll("error", &target, false, descr)          -> flag, not affected
//	... = opts.Parse(args)
//
// Every other method call on `opts` or on a group variable before Parse is an
// error (the translator would otherwise silently drop a table entry).

type c08Flag struct {
	name, target string
	all, def     bool
}

type c08Opt struct {
	short          rune
	long, kind     string
	def            bool
	defs, target   string
	flags          []c08Flag
	groupVar       string
	addOrder, line int
}

func exprString(fset *token.FileSet, e ast.Expr) string {
	var b bytes.Buffer
	_ = printer.Fprint(&b, fset, e)
	return b.String()
}

func c08ParseTable(src string) ([]*c08Opt, error) {
	fset, f, err := parseFile(filepath.Join(src, "pkglint.go"))
	if err != nil {
		return nil, err
	}
	fd := findFunc(f, "ParseCommandLine")
	if fd == nil || fd.Body == nil {
		return nil, fmt.Errorf("ParseCommandLine not found in pkglint.go")
	}
	optsVar := ""
	var opts []*c08Opt
	groups := map[string]*c08Opt{}
	parsed := false

	charLit := func(e ast.Expr) (rune, error) {
		bl, ok := e.(*ast.BasicLit)
		if !ok {
			return 0, fmt.Errorf("short name is not a literal")
		}
		switch bl.Kind {
		case token.CHAR:
			ch, _, _, err := strconv.UnquoteChar(bl.Value[1:len(bl.Value)-1], '\'')
			return ch, err
		case token.INT:
			n, err := strconv.Atoi(bl.Value)
			return rune(n), err
		}
		return 0, fmt.Errorf("short name is not a char literal")
	}
	strLit := func(e ast.Expr) (string, error) {
		bl, ok := e.(*ast.BasicLit)
		if !ok || bl.Kind != token.STRING {
			return "", fmt.Errorf("expected a string literal")
		}
		return strconv.Unquote(bl.Value)
	}
	boolLit := func(e ast.Expr) (bool, error) {
		id, ok := e.(*ast.Ident)
		if !ok || (id.Name != "true" && id.Name != "false") {
			return false, fmt.Errorf("expected true or false")
		}
		return id.Name == "true", nil
	}
	addrOf := func(e ast.Expr) (string, error) {
		u, ok := e.(*ast.UnaryExpr)
		if !ok || u.Op != token.AND {
			return "", fmt.Errorf("expected &target")
		}
		return exprString(fset, u.X), nil
	}
	methodCall := func(e ast.Expr) (recv, name string, args []ast.Expr, ok bool) {
		c, ok1 := e.(*ast.CallExpr)
		if !ok1 {
			return
		}
		sel, ok2 := c.Fun.(*ast.SelectorExpr)
		if !ok2 {
			return
		}
		id, ok3 := sel.X.(*ast.Ident)
		if !ok3 {
			return
		}
		return id.Name, sel.Sel.Name, c.Args, true
	}

	handleCall := func(lhs string, call ast.Expr, pos token.Pos) error {
		recv, name, args, ok := methodCall(call)
		if !ok {
			return nil
		}
		line := fset.Position(pos).Line
		if recv == "getopt" && name == "NewOptions" {
			if optsVar != "" {
				return fmt.Errorf("line %d: second getopt.NewOptions()", line)
			}
			optsVar = lhs
			return nil
		}
		if optsVar != "" && recv == optsVar {
			if parsed {
				if name == "Help" {
					return nil
				}
				return fmt.Errorf("line %d: %s.%s after Parse", line, recv, name)
			}
			switch name {
			case "Parse":
				parsed = true
				return nil
			case "AddFlagGroup":
				if len(args) != 4 || lhs == "" {
					return fmt.Errorf("line %d: AddFlagGroup shape", line)
				}
				sh, err := charLit(args[0])
				if err != nil {
					return fmt.Errorf("line %d: %v", line, err)
				}
				lg, err := strLit(args[1])
				if err != nil {
					return fmt.Errorf("line %d: %v", line, err)
				}
				o := &c08Opt{short: sh, long: lg, kind: "KGroup", target: lhs, groupVar: lhs, line: line}
				opts = append(opts, o)
				groups[lhs] = o
				return nil
			case "AddFlagVar":
				if len(args) != 5 {
					return fmt.Errorf("line %d: AddFlagVar shape", line)
				}
				sh, err1 := charLit(args[0])
				lg, err2 := strLit(args[1])
				tg, err3 := addrOf(args[2])
				df, err4 := boolLit(args[3])
				for _, e := range []error{err1, err2, err3, err4} {
					if e != nil {
						return fmt.Errorf("line %d: %v", line, e)
					}
				}
				opts = append(opts, &c08Opt{short: sh, long: lg, kind: "KBool", def: df, target: tg, line: line})
				return nil
			case "AddStrVar":
				if len(args) != 5 {
					return fmt.Errorf("line %d: AddStrVar shape", line)
				}
				sh, err1 := charLit(args[0])
				lg, err2 := strLit(args[1])
				tg, err3 := addrOf(args[2])
				df, err4 := strLit(args[3])
				for _, e := range []error{err1, err2, err3, err4} {
					if e != nil {
						return fmt.Errorf("line %d: %v", line, e)
					}
				}
				opts = append(opts, &c08Opt{short: sh, long: lg, kind: "KStr", defs: df, target: tg, line: line})
				return nil
			case "AddStrList":
				if len(args) != 4 {
					return fmt.Errorf("line %d: AddStrList shape", line)
				}
				sh, err1 := charLit(args[0])
				lg, err2 := strLit(args[1])
				tg, err3 := addrOf(args[2])
				for _, e := range []error{err1, err2, err3} {
					if e != nil {
						return fmt.Errorf("line %d: %v", line, e)
					}
				}
				opts = append(opts, &c08Opt{short: sh, long: lg, kind: "KList", target: tg, line: line})
				return nil
			default:
				return fmt.Errorf("line %d: unknown method %s.%s in the option table", line, recv, name)
			}
		}
		if g, ok := groups[recv]; ok {
			if parsed {
				return fmt.Errorf("line %d: %s.%s after Parse", line, recv, name)
			}
			if (name != "AddFlagVar" && name != "AddFlagVarNoAll") || len(args) != 4 {
				return fmt.Errorf("line %d: unknown method %s.%s on a flag group", line, recv, name)
			}
			nm, err1 := strLit(args[0])
			tg, err2 := addrOf(args[1])
			df, err3 := boolLit(args[2])
			for _, e := range []error{err1, err2, err3} {
				if e != nil {
					return fmt.Errorf("line %d: %v", line, e)
				}
			}
			g.flags = append(g.flags, c08Flag{name: nm, target: tg, all: name == "AddFlagVar", def: df})
		}
		return nil
	}

	for _, st := range fd.Body.List {
		var err error
		switch s := st.(type) {
		case *ast.AssignStmt:
			if len(s.Rhs) == 1 {
				lhs := ""
				if len(s.Lhs) == 1 {
					if id, ok := s.Lhs[0].(*ast.Ident); ok {
						lhs = id.Name
					}
				}
				err = handleCall(lhs, s.Rhs[0], s.Pos())
			}
		case *ast.ExprStmt:
			err = handleCall("", s.X, s.Pos())
		}
		if err != nil {
			return nil, err
		}
	}
	if optsVar == "" || !parsed {
		return nil, fmt.Errorf("ParseCommandLine: getopt.NewOptions() ... Parse(args) not found at the top level of the function")
	}
	if len(opts) == 0 {
		return nil, fmt.Errorf("empty option table")
	}
	seen := map[string]bool{}
	for _, o := range opts {
		ts := []string{o.target}
		for _, fl := range o.flags {
			ts = append(ts, fl.target)
		}
		for _, t := range ts {
			if seen[t] {
				return nil, fmt.Errorf("two table entries store into %s (pointer aliasing is not modelled)", t)
			}
			seen[t] = true
		}
	}
	return opts, nil
}

func coqBool(b bool) string {
	if b {
		return "true"
	}
	return "false"
}

func genOptions(src string) (string, string, error) {
	opts, err := c08ParseTable(src)
	if err != nil {
		return "", "", err
	}
	var sb strings.Builder
	sb.WriteString("(* GENERATED by gen/c08.go from /repo/v23/pkglint.go (Pkglint.ParseCommandLine) -- do not edit *)\n")
	sb.WriteString("From PV Require Import Lib.Bytes Model.Getopt.\nOpen Scope N_scope.\n")
	sb.WriteString("Definition option_table : table :=\n  [ ")
	for i, o := range opts {
		if i > 0 {
			sb.WriteString(";\n    ")
		}
		short := "0"
		shortDoc := "(none)"
		if o.short != 0 {
			short = strconv.Itoa(int(o.short))
			shortDoc = "-" + string(o.short)
		}
		fmt.Fprintf(&sb, "(* %s --%s -> %s *)\n    mk_odecl %s %s %s %s %s\n      [", shortDoc, o.long, o.target,
			short, coqBytes(o.long), o.kind, coqBool(o.def), coqBytes(o.defs))
		for j, fl := range o.flags {
			if j > 0 {
				sb.WriteString(";\n       ")
			}
			fmt.Fprintf(&sb, " (* %s -> %s *) mk_gflag %s %s %s %s", fl.name, fl.target, coqBytes(fl.name), coqBool(fl.all), coqBool(fl.def), coqBytes(fl.target))
		}
		sb.WriteString(" ]\n      " + coqBytes(o.target))
	}
	sb.WriteString(" ].\n")
	return "Options.v", sb.String(), nil
}

// optionreads: the static audit for C08.  Lists every use of one of the
// presentation options (LoggerOpts.Explain / ShowSource / GccOutput / Quiet) in
// package pkglint outside logging.go, and every use of a whole `Opts` struct.
// Without type information the scan is syntactic and errs on the side of
// listing too much: a selector `x.Explain` etc. that is not being called, and
// a selector `x.Opts` that is not itself further selected.
// Line numbers are informational; the harness compares (file, func, field, access, expr).

type optionRead struct {
	File   string `json:"file"`
	Func   string `json:"func"`
	Field  string `json:"field"`
	Access string `json:"access"` // read | addr | write | struct
	Expr   string `json:"expr"`
	Line   int    `json:"line"`
}

func genOptionReads(src string) (string, string, error) {
	names, err := filepath.Glob(filepath.Join(src, "*.go"))
	if err != nil {
		return "", "", err
	}
	sort.Strings(names)
	fields := map[string]bool{"Explain": true, "ShowSource": true, "GccOutput": true, "Quiet": true}
	var reads []optionRead
	sawLogging := false
	for _, name := range names {
		base := filepath.Base(name)
		if strings.HasSuffix(base, "_test.go") {
			continue
		}
		if data, err := os.ReadFile(name); err == nil && bytes.HasPrefix(bytes.TrimSpace(data), []byte("//go:build verif")) {
			continue
		}
		fset, f, err := parseFile(name)
		if err != nil {
			return "", "", err
		}
		if base == "logging.go" {
			sawLogging = true
			continue
		}
		for _, d := range f.Decls {
			fd, ok := d.(*ast.FuncDecl)
			fname := "(package level)"
			var node ast.Node = d
			if ok {
				fname = fd.Name.Name
				if fd.Recv != nil && len(fd.Recv.List) == 1 {
					fname = strings.TrimPrefix(exprString(fset, fd.Recv.List[0].Type), "*") + "." + fname
				}
			}
			called := map[ast.Expr]bool{}
			inner := map[ast.Expr]bool{}
			addr := map[ast.Expr]bool{}
			written := map[ast.Expr]bool{}
			ast.Inspect(node, func(n ast.Node) bool {
				switch x := n.(type) {
				case *ast.CallExpr:
					called[x.Fun] = true
				case *ast.SelectorExpr:
					inner[x.X] = true
				case *ast.UnaryExpr:
					if x.Op == token.AND {
						addr[x.X] = true
					}
				case *ast.AssignStmt:
					for _, l := range x.Lhs {
						written[l] = true
					}
				}
				return true
			})
			ast.Inspect(node, func(n ast.Node) bool {
				sel, ok := n.(*ast.SelectorExpr)
				if !ok {
					return true
				}
				access := "read"
				if addr[sel] {
					access = "addr"
				} else if written[sel] {
					access = "write"
				}
				switch {
				case fields[sel.Sel.Name] && !called[sel]:
					reads = append(reads, optionRead{base, fname, sel.Sel.Name, access, exprString(fset, sel), fset.Position(sel.Pos()).Line})
				case sel.Sel.Name == "Opts" && !inner[sel]:
					if access == "read" {
						access = "struct"
					}
					reads = append(reads, optionRead{base, fname, "Opts", access, exprString(fset, sel), fset.Position(sel.Pos()).Line})
				}
				return true
			})
		}
	}
	if !sawLogging {
		return "", "", fmt.Errorf("logging.go not found")
	}
	sort.SliceStable(reads, func(i, j int) bool {
		a, b := reads[i], reads[j]
		if a.File != b.File {
			return a.File < b.File
		}
		return a.Line < b.Line
	})
	if reads == nil {
		reads = []optionRead{}
	}
	data, err := json.MarshalIndent(reads, "", " ")
	if err != nil {
		return "", "", err
	}
	return "OptionReads.json", string(data) + "\n", nil
}

func init() {
	generators["options"] = genOptions
	generators["optionreads"] = genOptionReads
}
