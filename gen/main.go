// verifgen regenerates coq/Gen/*.v (tables) and audit lists from /repo's
// current source.  Usage: verifgen <repo/v23> <outdir> <name>...
// Each generator writes <outdir>/<File>.v only when its content changed.
package main

import (
	"fmt"
	"go/ast"
	"go/parser"
	"go/token"
	"os"
	"path/filepath"
	"strconv"
	"strings"
)

type generator func(src string) (file string, content string, err error)

var generators = map[string]generator{}

func parseFile(path string) (*token.FileSet, *ast.File, error) {
	fset := token.NewFileSet()
	f, err := parser.ParseFile(fset, path, nil, parser.ParseComments)
	return fset, f, err
}

func findFunc(f *ast.File, name string) *ast.FuncDecl {
	for _, d := range f.Decls {
		if fd, ok := d.(*ast.FuncDecl); ok && fd.Name.Name == name {
			return fd
		}
	}
	return nil
}

func coqBytes(s string) string {
	parts := make([]string, len(s))
	for i := 0; i < len(s); i++ {
		parts[i] = strconv.Itoa(int(s[i]))
	}
	return "[" + strings.Join(parts, "; ") + "]"
}

func main() {
	if len(os.Args) < 4 {
		fmt.Fprintln(os.Stderr, "usage: verifgen <repo/v23> <outdir> <name>...")
		os.Exit(2)
	}
	src, out := os.Args[1], os.Args[2]
	rc := 0
	for _, name := range os.Args[3:] {
		g, ok := generators[name]
		if !ok {
			fmt.Fprintf(os.Stderr, "verifgen: unknown generator %s\n", name)
			rc = 2
			continue
		}
		file, content, err := g(src)
		if err != nil {
			fmt.Fprintf(os.Stderr, "verifgen: %s: %v\n", name, err)
			fmt.Printf("GENFAIL %s %v\n", name, err)
			rc = 1
			continue
		}
		path := filepath.Join(out, file)
		old, _ := os.ReadFile(path)
		if string(old) != content {
			if err := os.WriteFile(path, []byte(content), 0o644); err != nil {
				fmt.Fprintln(os.Stderr, err)
				rc = 2
			}
			fmt.Printf("GENCHANGED %s\n", file)
		}
	}
	os.Exit(rc)
}
