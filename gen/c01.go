package main

// c01dict: source-derived dictionaries for C01's tree generator, regenerated from
// /repo on every run into audit/c01dict.json (committed, like coq/Gen/*.v):
//
//	varnames   every string literal used as the variable name in a call of a Scope
//	           query (IsDefined, LastDefinition, FirstDefinition, LastValue, Mentioned, ...)
//	filenames  every file-name-like string literal passed to Load, LoadMk, File,
//	           JoinNoClean, NewRelPathString, ... (or joined by such a call)
//	tokens     per checker file the literal tokens of its prefix/suffix/contains tests,
//	           strings.Replace patterns and regular expressions
//	deref      every call site that selects a field/method of the result of
//	           LastDefinition/FirstDefinition directly or through a variable that is
//	           never compared with nil in the same function; compared with the
//	           hand-classified audit/scopederef.json (a new site fails the translator)
import (
	"encoding/json"
	"fmt"
	"go/ast"
	"go/parser"
	"go/token"
	"os"
	"path/filepath"
	"sort"
	"strconv"
	"strings"
)

var c01ScopeQueries = map[string]bool{"IsDefined": true, "IsDefinedSimilar": true, "LastDefinition": true, "FirstDefinition": true,
	"LastValue": true, "LastValueFound": true, "Mentioned": true, "IsUsed": true, "IsUsedSimilar": true, "FirstUse": true, "Commented": true,
	"Fallback": true, "IsUsedAtLoadTime": true}

var c01FileFuncs = map[string]bool{"Load": true, "LoadMk": true, "File": true, "JoinNoClean": true, "JoinClean": true, "NewRelPathString": true,
	"NewRelPath": true, "NewPath": true, "NewCurrPathString": true, "NewCurrPath": true, "NewPkgsrcPath": true, "NewPackagePathString": true,
	"LoadExistingLines": true, "HasBase": true, "HasSuffixPath": true, "IsFile": true, "IsDir": true, "Exists": true, "checkFileExists": true}

var c01TokenFuncs = map[string]bool{"hasPrefix": true, "hasSuffix": true, "contains": true, "HasPrefix": true, "HasSuffix": true, "Contains": true,
	"HasPrefixText": true, "HasPrefixPath": true, "ContainsText": true, "ContainsPath": true, "Replace": true, "ReplaceAll": true, "TrimPrefix": true, "TrimSuffix": true,
	"trimHspace": true, "Split": true, "SplitN": true, "Index": true, "Fields": true, "SkipString": true, "SkipByte": true, "NextString": true, "TestByteSet": true}

var c01RegexFuncs = map[string]bool{"matches": true, "match": true, "match1": true, "match2": true, "match3": true, "match4": true, "match5": true,
	"replaceAll": true, "replaceAllFunc": true, "replaceOnce": true, "MustCompile": true, "Compile": true, "SkipRegexp": true, "NextRegexp": true, "TestRegexp": true, "matchn": true}

var c01CheckerFiles = []string{"alternatives.go", "plist.go", "distinfo.go", "buildlink3.go", "category.go", "toplevel.go", "options.go", "pkglint.go", "patches.go", "package.go", "vardefs.go", "pkgsrc.go", "tools.go"}

func c01Lit(e ast.Expr) (string, bool) {
	switch x := e.(type) {
	case *ast.BasicLit:
		if x.Kind == token.STRING {
			s, err := strconv.Unquote(x.Value)
			return s, err == nil
		}
		if x.Kind == token.CHAR {
			s, err := strconv.Unquote(x.Value)
			return s, err == nil
		}
	case *ast.BinaryExpr: // "a" + "b"
		if x.Op == token.ADD {
			a, ok1 := c01Lit(x.X)
			b, ok2 := c01Lit(x.Y)
			if ok1 && ok2 {
				return a + b, true
			}
		}
	}
	return "", false
}

func c01CallName(c *ast.CallExpr) string {
	switch f := c.Fun.(type) {
	case *ast.Ident:
		return f.Name
	case *ast.SelectorExpr:
		return f.Sel.Name
	}
	return ""
}

func c01FileLike(s string) bool {
	if s == "" || len(s) > 60 || strings.ContainsAny(s, " \t\n%*?$()[]{}\\\"'<>|=,;:") {
		return false
	}
	if s == "." || s == ".." || s == "/" || strings.HasPrefix(s, "/") || strings.HasPrefix(s, "../") {
		return false
	}
	for _, c := range s {
		if c >= 'A' && c <= 'Z' || c >= 'a' && c <= 'z' {
			return true
		}
	}
	return false
}

// literal runs of a regular expression: maximal sequences of ordinary characters
// (escaped punctuation counts as the character)
func c01RegexTokens(re string) []string {
	var out []string
	cur := ""
	flush := func() {
		if cur != "" {
			out = append(out, cur)
		}
		cur = ""
	}
	depth := 0 // inside [...]
	for i := 0; i < len(re); i++ {
		c := re[i]
		switch {
		case depth > 0:
			if c == '\\' {
				i++
			} else if c == ']' {
				depth--
			}
		case c == '[':
			flush()
			depth++
			if i+1 < len(re) && re[i+1] == '^' {
				i++
			}
			if i+1 < len(re) && re[i+1] == ']' {
				i++
			}
		case c == '\\' && i+1 < len(re):
			n := re[i+1]
			i++
			if strings.IndexByte(`.$^*+?()[]{}|\/-@#"'`, n) >= 0 {
				cur += string(n)
			} else if n == 't' {
				cur += "\t"
			} else {
				flush()
			}
		case strings.IndexByte(".^$*+?()|{}", c) >= 0:
			if c == '*' || c == '?' || c == '{' {
				// the quantified character is not a fixed part
				if len(cur) > 0 {
					cur = cur[:len(cur)-1]
				}
			}
			flush()
			if c == '{' {
				for i < len(re) && re[i] != '}' {
					i++
				}
			}
		default:
			cur += string(c)
		}
	}
	flush()
	return out
}

type c01Deref struct {
	File string `json:"file"`
	Func string `json:"func"`
	Expr string `json:"expr"`
	How  string `json:"how"` // direct | variable
}

type c01Dict struct {
	Varnames  []string            `json:"varnames"`
	Filenames []string            `json:"filenames"`
	Tokens    map[string][]string `json:"tokens"`
	Deref     []c01Deref          `json:"deref"`
}

func c01ExprString(e ast.Expr) string {
	switch x := e.(type) {
	case *ast.Ident:
		return x.Name
	case *ast.SelectorExpr:
		return c01ExprString(x.X) + "." + x.Sel.Name
	case *ast.CallExpr:
		var args []string
		for _, a := range x.Args {
			args = append(args, c01ExprString(a))
		}
		return c01ExprString(x.Fun) + "(" + strings.Join(args, ", ") + ")"
	case *ast.BasicLit:
		return x.Value
	case *ast.UnaryExpr:
		return x.Op.String() + c01ExprString(x.X)
	case *ast.StarExpr:
		return "*" + c01ExprString(x.X)
	case *ast.ParenExpr:
		return "(" + c01ExprString(x.X) + ")"
	}
	return "_"
}

func genC01Dict(src string) (string, string, error) {
	entries, err := os.ReadDir(src)
	if err != nil {
		return "", "", err
	}
	vars, files := map[string]bool{}, map[string]bool{}
	tokens := map[string]map[string]bool{}
	var deref []c01Deref
	isChecker := map[string]bool{}
	for _, f := range c01CheckerFiles {
		isChecker[f] = true
	}
	for _, e := range entries {
		name := e.Name()
		if e.IsDir() || !strings.HasSuffix(name, ".go") || strings.HasSuffix(name, "_test.go") {
			continue
		}
		fset := token.NewFileSet()
		f, err := parser.ParseFile(fset, filepath.Join(src, name), nil, 0)
		if err != nil {
			return "", "", err
		}
		for _, d := range f.Decls {
			fd, ok := d.(*ast.FuncDecl)
			if !ok || fd.Body == nil {
				continue
			}
			fname := fd.Name.Name
			if fd.Recv != nil && len(fd.Recv.List) == 1 {
				fname = strings.TrimPrefix(c01ExprString(fd.Recv.List[0].Type), "*") + "." + fname
			}
			// variables assigned from LastDefinition/FirstDefinition and nil tests in this function
			assigned := map[string]string{}
			nilTested := map[string]bool{}
			ast.Inspect(fd.Body, func(n ast.Node) bool {
				switch x := n.(type) {
				case *ast.AssignStmt:
					if len(x.Lhs) == 1 && len(x.Rhs) == 1 {
						if c, ok := x.Rhs[0].(*ast.CallExpr); ok {
							if nm := c01CallName(c); nm == "LastDefinition" || nm == "FirstDefinition" {
								if id, ok := x.Lhs[0].(*ast.Ident); ok {
									assigned[id.Name] = c01ExprString(c)
								}
							}
						}
					}
				case *ast.BinaryExpr:
					if x.Op == token.EQL || x.Op == token.NEQ {
						for _, pair := range [][2]ast.Expr{{x.X, x.Y}, {x.Y, x.X}} {
							if id, ok := pair[1].(*ast.Ident); ok && id.Name == "nil" {
								nilTested[c01ExprString(pair[0])] = true
							}
						}
					}
				}
				return true
			})
			ast.Inspect(fd.Body, func(n ast.Node) bool {
				switch x := n.(type) {
				case *ast.SelectorExpr:
					if c, ok := x.X.(*ast.CallExpr); ok {
						if nm := c01CallName(c); nm == "LastDefinition" || nm == "FirstDefinition" {
							deref = append(deref, c01Deref{name, fname, c01ExprString(x), "direct"})
						}
					}
					if id, ok := x.X.(*ast.Ident); ok {
						if from, ok := assigned[id.Name]; ok && !nilTested[id.Name] {
							deref = append(deref, c01Deref{name, fname, id.Name + " := " + from + "; " + c01ExprString(x), "variable"})
						}
					}
				case *ast.CaseClause:
					// `case basename == "X"` / `case "X":` in the dispatchers of pkglint.go, package.go
					if name == "pkglint.go" || name == "package.go" {
						for _, e := range x.List {
							if s, ok := c01Lit(e); ok && c01FileLike(s) {
								files[s] = true
							}
							if b, ok := e.(*ast.BinaryExpr); ok && b.Op == token.EQL {
								if s, ok := c01Lit(b.Y); ok && c01FileLike(s) {
									files[s] = true
								}
							}
						}
					}
				case *ast.CallExpr:
					nm := c01CallName(x)
					if c01ScopeQueries[nm] && len(x.Args) >= 1 {
						if s, ok := c01Lit(x.Args[0]); ok && s != "" {
							vars[s] = true
						}
					}
					if c01FileFuncs[nm] {
						for _, a := range x.Args {
							if s, ok := c01Lit(a); ok && c01FileLike(s) {
								files[s] = true
							}
						}
					}
					if isChecker[name] {
						add := func(s string) {
							if s == "" || len(s) > 24 || strings.ContainsAny(s, "\n") {
								return
							}
							if tokens[name] == nil {
								tokens[name] = map[string]bool{}
							}
							tokens[name][s] = true
						}
						if c01TokenFuncs[nm] {
							for _, a := range x.Args {
								if s, ok := c01Lit(a); ok {
									add(s)
								}
							}
						}
						if c01RegexFuncs[nm] {
							for _, a := range x.Args {
								if s, ok := c01Lit(a); ok {
									for _, t := range c01RegexTokens(s) {
										add(t)
									}
								}
							}
						}
					}
				}
				return true
			})
		}
	}
	dict := c01Dict{Tokens: map[string][]string{}}
	for v := range vars {
		dict.Varnames = append(dict.Varnames, v)
	}
	for v := range files {
		dict.Filenames = append(dict.Filenames, v)
	}
	sort.Strings(dict.Varnames)
	sort.Strings(dict.Filenames)
	for f, m := range tokens {
		for t := range m {
			dict.Tokens[f] = append(dict.Tokens[f], t)
		}
		sort.Strings(dict.Tokens[f])
	}
	sort.Slice(deref, func(i, j int) bool {
		a, b := deref[i], deref[j]
		return a.File+"\x00"+a.Func+"\x00"+a.Expr < b.File+"\x00"+b.Func+"\x00"+b.Expr
	})
	// drop duplicates
	for i, d := range deref {
		if i == 0 || d != deref[i-1] {
			dict.Deref = append(dict.Deref, d)
		}
	}
	if len(dict.Varnames) < 30 || len(dict.Filenames) < 20 || len(dict.Tokens["alternatives.go"]) < 3 || len(dict.Tokens["pkglint.go"]) < 3 {
		return "", "", fmt.Errorf("dictionaries implausibly small: %d variable names, %d file names", len(dict.Varnames), len(dict.Filenames))
	}

	// the dereference sites must all be classified by hand
	auditPath := filepath.Join(os.Args[2], "..", "..", "audit", "scopederef.json")
	var audit struct {
		Sites []struct {
			File, Func, Expr, Class, Why string
		} `json:"sites"`
	}
	data, err := os.ReadFile(auditPath)
	if err != nil {
		return "", "", fmt.Errorf("cannot read %s: %v", auditPath, err)
	}
	if err := json.Unmarshal(data, &audit); err != nil {
		return "", "", fmt.Errorf("%s: %v", auditPath, err)
	}
	classified := map[string]string{}
	for _, s := range audit.Sites {
		classified[s.File+"|"+s.Func+"|"+s.Expr] = s.Class
	}
	var missing []string
	for _, d := range dict.Deref {
		cl := classified[d.File+"|"+d.Func+"|"+d.Expr]
		if cl != "only-real-assignments" && cl != "nil-tested" && cl != "firstdef-under-isdefined" {
			missing = append(missing, d.File+" "+d.Func+": "+d.Expr)
		}
	}
	if len(missing) > 0 {
		return "", "", fmt.Errorf("unclassified dereference of LastDefinition/FirstDefinition (audit/scopederef.json): %s", strings.Join(missing, "; "))
	}
	out, _ := json.MarshalIndent(dict, "", " ")
	return filepath.Join("..", "..", "audit", "c01dict.json"), string(out) + "\n", nil
}

func init() { generators["c01dict"] = genC01Dict }
