#!/usr/bin/env python3
# Follow-up for the verification framework once /repo has fix 09 (conditional prefs include):
# usage: python3 09-verif-followup.py <verif worktree>
# - Model/CondFile.v: an include counts only outside conditional blocks (as the repaired ParseToolLine)
# - Proofs/CondFileB.v, Props/C14.v: the guard "no prefs include inside a conditional block" disappears
#   (C14_is_defined_sound_in_file / C14_rewrite_sound_in_file become full in that respect), the refutation
#   C14_rewrite_sound_in_file_refuted is replaced by Example C14_conditional_include_keeps_U
# - known-findings.json: the three C14/*/undefined/conditional-include entries are removed
import sys, json
W = sys.argv[1].rstrip('/') + '/'
def sub(path, old, new, must=True):
    s = open(W + path).read()
    if old not in s:
        if must: raise SystemExit("pattern not found in %s: %r" % (path, old[:60]))
        return
    open(W + path, 'w').write(s.replace(old, new))
sub('coq/Model/CondFile.v', '''  | FInclude p =>
    if loads_prefs p then mkfstate true (fs_defined st) (fs_levels st) else st''', '''  | FInclude p =>
    (* only an include that is guaranteed to happen counts (fix 09) *)
    if loads_prefs p && negb (is_conditional st) then mkfstate true (fs_defined st) (fs_levels st) else st''')
p = 'coq/Proofs/CondFileB.v'; s = open(W + p).read()
a = s.index('Lemma scan_line_inv st s l :'); b = s.index('Lemma scan_inv_init')
s = s[:a] + '''Lemma scan_line_inv st s l :
  scan_inv st s -> scan_inv (scan_line st l) (sure_step s l).
Proof.
  intros (Hl & Hp & Hd). destruct l as [p|v|g| |u|]; unfold scan_inv; simpl.
  - unfold is_conditional, executed_for_sure. rewrite Hl, conditional_not_sure, negb_involutive.
    destruct (loads_prefs p) eqn:Elp; simpl.
    + destruct (forallb (fun g : bool => g) (su_open s)) eqn:Ex; simpl.
      * repeat split; auto. intros _. apply loads_prefs_sound in Elp. rewrite Elp. apply orb_true_r.
      * repeat split; auto. intros H. rewrite (Hp H). reflexivity.
    + repeat split; auto. intros H. rewrite (Hp H). reflexivity.
  - unfold is_conditional, executed_for_sure. rewrite Hl, conditional_not_sure.
    destruct (forallb (fun g : bool => g) (su_open s)); simpl.
    + repeat split; auto. intros w. unfold in_file, in_strs. simpl.
      intros H. apply orb_true_iff in H as [H|H].
      * rewrite H. reflexivity.
      * apply orb_true_iff. right. apply (Hd w). exact H.
    + repeat split; auto.
  - repeat split; auto. simpl. rewrite Hl. reflexivity.
  - repeat split; auto. simpl. rewrite Hl. reflexivity.
  - repeat split; auto.
  - repeat split; auto.
Qed.

Lemma scan_inv_all : forall ls st s,
  scan_inv st s -> scan_inv (fold_left scan_line ls st) (fold_left sure_step ls s).
Proof.
  induction ls as [|l ls IH]; intros st s Hi; simpl; auto.
  apply IH. apply scan_line_inv; auto.
Qed.

''' + s[b:]
s = s.replace('''  decl_right decl always by_prefs ->
  conditional_prefs_include sure0 pre = false ->
  possible_env always by_prefs pre e ->
  in_strs v (su_undef (sure_after pre)) = false ->
  let cx''', '''  decl_right decl always by_prefs ->
  possible_env always by_prefs pre e ->
  in_strs v (su_undef (sure_after pre)) = false ->
  let cx''')
s = s.replace('intros decl mmn always by_prefs pre e v Hd Hc He Hu cx.', 'intros decl mmn always by_prefs pre e v Hd He Hu cx.')
s = s.replace('(scan_inv_all pre _ _ scan_inv_init Hc)', '(scan_inv_all pre _ _ scan_inv_init)')
s = s.replace('  Hypothesis Hcond : conditional_prefs_include sure0 pre = false.\n', '')
s = s.replace('pre e v Hdecl Hcond He Hu)', 'pre e v Hdecl He Hu)')
a = s.index('(* ---------- without the guard it is false'); b = s.index('(* the guard is satisfiable and the theorem has content')
s = s[:a] + '''(* .if defined(OTHER) / .include "bsd.prefs.mk" / .endif : SeenPrefs stays false (fix 09), ':U' is kept *)
Definition ex_bsd_prefs : str := [98; 115; 100; 46; 112; 114; 101; 102; 115; 46; 109; 107].
Definition ex_cond_pre : list fline := [FOpen false; FInclude ex_bsd_prefs; FClose].
Definition ex_decl_P : str -> varinfo := fun _ => mkvarinfo true false false false true false true false.
Definition ex_mmn : str -> mmn := fun _ => MmnNo.
Definition ex_undef_env : env := fun _ => None.
Example cond_include_keeps_U :
  fs_seen_prefs (scan (init_state false) ex_cond_pre) = false /\\
  exists rw f t,
    simplify_word (file_ctx ex_decl_P ex_mmn (scan (init_state false) ex_cond_pre)) ex_var ex_Malpha_mods true true = [rw] /\\
    rw_from_c rw = Some f /\\ rw_to_c rw = Some t /\\
    eval ex_undef_env f = Some TFalse /\\ eval ex_undef_env t = Some TFalse.
Proof. split; [reflexivity|]. apply rewrite_values_sound. vm_compute. reflexivity. Qed.

''' + s[b:]
s = s.replace('''Example in_file_example :
  conditional_prefs_include sure0 ex_sure_pre = false /\\
  su_prefs''', '''Example in_file_example :
  su_prefs''')
# the .undef refutation and the satisfiability example lose the include guard
s = s.replace('''    decl_right decl always by_prefs ->
    conditional_prefs_include sure0 pre = false ->
    In rw (simplify_word''', '''    decl_right decl always by_prefs ->
    In rw (simplify_word''')
s = s.replace('''  - intros v. split; discriminate.
  - reflexivity.
  - rewrite Hl. left. reflexivity.''', '''  - intros v. split; discriminate.
  - rewrite Hl. left. reflexivity.''')
s = s.replace('''  decl_right ex_decl_one (fun _ => false) (fun n => str_eqb n ex_var) /\\
  conditional_prefs_include sure0 ex_sure_pre = false /\\
  possible_env''', '''  decl_right ex_decl_one (fun _ => false) (fun n => str_eqb n ex_var) /\\
  possible_env''')
open(W + p, 'w').write(s)
p = 'coq/Props/C14.v'; s = open(W + p).read()
s = s.replace('''  decl_right decl always by_prefs ->
  conditional_prefs_include sure0 pre = false ->
  possible_env always by_prefs pre e ->''', '''  decl_right decl always by_prefs ->
  possible_env always by_prefs pre e ->''')
s = s.replace('''  decl_right decl always by_prefs ->
  conditional_prefs_include sure0 pre = false ->
  let cx := file_ctx''', '''  decl_right decl always by_prefs ->
  let cx := file_ctx''')
s = s.replace('''  exact (fun decl mmn always by_prefs pre Hd Hc =>
    conj (word_M_sound_in_file decl mmn always by_prefs pre Hd Hc)
      (conj (yesno_sound_in_file decl mmn always by_prefs pre Hd Hc)
            (match_sound_in_file decl mmn always by_prefs pre Hd Hc))).''', '''  exact (fun decl mmn always by_prefs pre Hd =>
    conj (word_M_sound_in_file decl mmn always by_prefs pre Hd)
      (conj (yesno_sound_in_file decl mmn always by_prefs pre Hd)
            (match_sound_in_file decl mmn always by_prefs pre Hd))).''')
a = s.index('(* without the guard "no prefs include inside a conditional block"'); b = s.index('(* ... and without the guard "no .undef of the variable since"')
s = s[:a] + '''(* since fix 09 an include inside a conditional block no longer sets SeenPrefs: the ':U' stays *)
Example C14_conditional_include_keeps_U :
  fs_seen_prefs (scan (init_state false) ex_cond_pre) = false /\\
  exists rw f t,
    simplify_word (file_ctx ex_decl_P ex_mmn (scan (init_state false) ex_cond_pre)) ex_var ex_Malpha_mods true true = [rw] /\\
    rw_from_c rw = Some f /\\ rw_to_c rw = Some t /\\
    eval ex_undef_env f = Some TFalse /\\ eval ex_undef_env t = Some TFalse.
Proof. exact cond_include_keeps_U. Qed.

''' + s[b:]
s = s.replace('(* ... and without the guard "no .undef of the variable since"', '(* without the guard "no .undef of the variable since" the statement is false')
s = s.replace('''  decl_right ex_decl_one (fun _ => false) (fun n => str_eqb n ex_var) /\\
  conditional_prefs_include sure0 ex_sure_pre = false /\\
  possible_env''', '''  decl_right ex_decl_one (fun _ => false) (fun n => str_eqb n ex_var) /\\
  possible_env''')
s = s.replace('''Example C14_in_file_example :
  conditional_prefs_include sure0 ex_sure_pre = false /\\
  su_prefs''', '''Example C14_in_file_example :
  su_prefs''')
s = s.replace(" without\n   a prefs include inside a conditional block and without an .undef of the variable,", " without\n   an .undef of the variable,")
open(W + p, 'w').write(s)
p = 'known-findings.json'; d = json.load(open(W + p)); k = list(d.keys())[0]
d[k] = [x for x in d[k] if not (x.get('property') == 'C14' and 'conditional-include' in x.get('key', ''))]
open(W + p, 'w').write(json.dumps(d, indent=1, ensure_ascii=False) + "\n")
print("done; now: bin/coqbuild Props/C14.vo && bin/check C14 quick")
