package main

import (
	"fmt"
	"path/filepath"
	"sort"
	"strings"
	"time"
)

// `vharness run tool-gentree work=<dir> seed=N tier=quick`: generator statistics.
func init() {
	register("tool-gentree", func(ctx *Ctx) *Result {
		rng := NewRng(ctx.Seed)
		kinds := map[string]int{}
		fixes := map[string]int{}
		feats := map[string]int{}
		bad := 0
		n := 40
		for i := 0; i < n; i++ {
			root := filepath.Join(ctx.Work, fmt.Sprintf("t%d", i))
			g := GenerateTree(rng.Fork(), root, GenOpts{Packages: 1 + i%3, Hostile: i%4 == 3, Rich: i%5 == 4})
			for k, v := range g.Features {
				feats[k] += v
			}
			r := RunPkglint(ctx, root, 20*time.Second, "-Wall", "-f", "-r", ".")
			if r.Exit != 0 && r.Exit != 1 || r.TimedOut {
				bad++
				fmt.Printf("BAD exit=%d sig=%s timeout=%v tree=%s\n%s\n", r.Exit, r.Signal, r.TimedOut, root, firstLines(r.Stderr, 8))
			}
			for _, d := range ParseDiags(r.Stdout) {
				if d.Level == "AUTOFIX" {
					fixes[MsgKind(d.Msg)]++
				} else {
					kinds[d.Level+" "+MsgKind(d.Msg)]++
				}
			}
		}
		pr := func(title string, m map[string]int) {
			fmt.Printf("== %s (%d kinds)\n", title, len(m))
			ks := sortedKeys(m)
			sort.Slice(ks, func(i, j int) bool { return m[ks[i]] > m[ks[j]] })
			for _, k := range ks {
				fmt.Printf("%5d %s\n", m[k], k)
			}
		}
		pr("features", feats)
		pr("autofix kinds", fixes)
		pr("diag kinds", kinds)
		fmt.Printf("bad runs: %d of %d\n", bad, n)
		return &Result{}
	}, nil)
}

func firstLines(s string, n int) string {
	ls := strings.Split(s, "\n")
	if len(ls) > n {
		ls = ls[:n]
	}
	return strings.Join(ls, "\n")
}
