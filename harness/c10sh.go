package main

// C10sh: the shell half of property C10 (shtokenizer.go).
//
// For every generated input the real ShTokenizer is run (through
// shim/verif_c10sh.go) from each of the 13 quoting states (loop of ShAtom),
// through ShAtoms() and through repeated ShToken(); the same is computed by the
// extracted model (Model/ShTok.v), whose expression lexer is a lookup in the
// table of byte counts that the real MkLexer.Expr consumes at every suffix of the
// input.  Compared: atom texts, quoting states, rest (token texts, their atoms,
// the rest after every call).  Independently of the model the partition law is
// evaluated on what the implementation returned.
//
// The real code is run in worker subprocesses (`vharness run C10sh c10shworker=1`):
// pkglint's regex registry is a plain map, so the tokenizer must not be used from
// several goroutines, and a subprocess can be killed when it hangs.

import (
	"bufio"
	"bytes"
	"crypto/md5"
	"encoding/hex"
	"fmt"
	"os"
	"os/exec"
	"path/filepath"
	"runtime"
	"sort"
	"strconv"
	"strings"
	"sync"
	"sync/atomic"
	"syscall"
	"time"

	pkglint "github.com/rillig/pkglint/v23"
)

var c10shQuotNames = []string{"plain", "d", "s", "b", "S", "db", "bd", "bs", "Sd", "Ss", "Sb", "dbd", "dbs"}
var c10shTypeNames = []string{"space", "expr", "shexpr", "text", "operator", "comment", "subshell"}

const c10shUlimit = "${_ULIMIT_CMD}"

// ---------- the implementation's answer for one input ----------

type c10shImpl struct {
	line     string // canonical line, same format as the oracle's
	tbl      string // Expr table for the oracle
	bad      []c10shBad
	quotMask int // quoting states reached from the plain start state
	typeMask int // atom types seen in any run
	flags    int // 1: non-trivial  2: ShToken returned a token  4: expr atom seen  8: ShToken stopped before the end
}

type c10shBad struct {
	key, what string
}

func c10shAtomStr(a pkglint.VerifC10shAtom) string {
	return hx(a.Text) + "." + strconv.Itoa(a.Quoting)
}

func c10shAtomsSection(atoms []pkglint.VerifC10shAtom, rest, panicked string) string {
	if panicked != "" {
		return "!panic"
	}
	parts := make([]string, len(atoms))
	for i, a := range atoms {
		parts[i] = c10shAtomStr(a)
	}
	return strings.Join(parts, ",") + ";" + hx(rest)
}

// the partition law on one atom list (Spec/ShPartition.v: partition_ok)
func c10shCheckAtoms(im *c10shImpl, what, input string, atoms []pkglint.VerifC10shAtom, rest string) {
	var sb strings.Builder
	for _, a := range atoms {
		if a.Text == "" {
			im.bad = append(im.bad, c10shBad{"C10/sh/empty-atom", fmt.Sprintf("%s on %q returns an atom with empty text", what, input)})
		}
		sb.WriteString(a.Text)
	}
	sb.WriteString(rest)
	if sb.String() != input {
		im.bad = append(im.bad, c10shBad{"C10/sh/atoms-not-a-partition",
			fmt.Sprintf("%s on %q: atom texts + rest = %q", what, input, sb.String())})
	}
}

func c10shOnlySkipped(s string) bool {
	for s != "" {
		switch {
		case s[0] == ' ' || s[0] == '\t':
			s = s[1:]
		case strings.HasPrefix(s, c10shUlimit):
			s = s[len(c10shUlimit):]
		default:
			return false
		}
	}
	return true
}

// Spec/ShPartition.v: tokens_ok
func c10shCheckTokens(im *c10shImpl, input string, toks []pkglint.VerifC10shToken, rest string) {
	before := input
	fail := func(key, f string, a ...any) {
		im.bad = append(im.bad, c10shBad{key, fmt.Sprintf("ShToken on %q: ", input) + fmt.Sprintf(f, a...)})
	}
	for i, t := range toks {
		if t.Text == "" || len(t.Atoms) == 0 {
			fail("C10/sh/empty-token", "token %d is empty", i)
			return
		}
		var sb strings.Builder
		for _, a := range t.Atoms {
			if a.Text == "" {
				fail("C10/sh/empty-atom", "token %d has an atom with empty text", i)
			}
			sb.WriteString(a.Text)
		}
		if sb.String() != t.Text {
			fail("C10/sh/token-text-differs-from-atoms", "token %d has text %q but atoms %q", i, t.Text, sb.String())
		}
		tail := t.Text + t.Rest
		if !strings.HasSuffix(before, tail) || !c10shOnlySkipped(before[:len(before)-len(tail)]) {
			fail("C10/sh/tokens-not-a-partition", "before token %d the rest was %q, the token is %q, afterwards the rest is %q", i, before, t.Text, t.Rest)
			return
		}
		before = t.Rest
	}
	if !strings.HasSuffix(before, rest) || !c10shOnlySkipped(before[:len(before)-len(rest)]) {
		fail("C10/sh/tokens-not-a-partition", "the final call changes the rest from %q to %q", before, rest)
	}
}

func c10shRunImpl(input string) *c10shImpl {
	im := &c10shImpl{}
	lens, bad, pan := pkglint.VerifC10shExprLens(input)
	if pan != "" {
		im.bad = append(im.bad, c10shBad{"C10/sh/expr-panic", fmt.Sprintf("MkLexer.Expr panics on a suffix of %q: %s", input, pan)})
		lens = make([]int, len(input)+1)
	}
	if bad != "" {
		im.bad = append(im.bad, c10shBad{"C10/sh/expr-contract", bad})
	}
	ls := make([]string, len(lens))
	for i, n := range lens {
		ls[i] = strconv.Itoa(n)
	}
	im.tbl = strings.Join(ls, ",")

	var secs []string
	note := func(atoms []pkglint.VerifC10shAtom) {
		for _, a := range atoms {
			if a.Type >= 0 && a.Type < 7 {
				im.typeMask |= 1 << a.Type
			}
			if a.Type == 1 {
				im.flags |= 4
			}
		}
	}
	noProgress := false
	for q := 0; q < 13; q++ {
		atoms, rest, pan := pkglint.VerifC10shAtomsFrom(q, input)
		secs = append(secs, "a"+strconv.Itoa(q)+":"+c10shAtomsSection(atoms, rest, pan))
		what := "ShAtom from state " + c10shQuotNames[q]
		if strings.HasPrefix(pan, "panic:verif:") {
			// the guard of the shim's loop: atoms keep coming although the input is used up
			im.bad = append(im.bad, c10shBad{"C10/sh/no-progress", fmt.Sprintf("%s on %q returns atoms without consuming input", what, input)})
			noProgress = true
			continue
		}
		if pan != "" {
			im.bad = append(im.bad, c10shBad{"C10/sh/panic", fmt.Sprintf("%s on %q: %s", what, input, pan)})
			continue
		}
		c10shCheckAtoms(im, what, input, atoms, rest)
		note(atoms)
		if q == 0 {
			im.quotMask |= 1
			for _, a := range atoms {
				if a.Quoting >= 0 && a.Quoting < 13 {
					im.quotMask |= 1 << a.Quoting
				}
			}
			if len(atoms) >= 2 || im.quotMask != 1 {
				im.flags |= 1
			}
		}
	}
	if noProgress {
		// ShAtoms() and ShToken() have no guard: they would not return
		secs = append(secs, "s:!skipped", "t:!skipped", "x:!skipped")
		im.line = strings.Join(secs, "|")
		return im
	}
	{
		atoms, rest, pan := pkglint.VerifC10shAtoms(input)
		secs = append(secs, "s:"+c10shAtomsSection(atoms, rest, pan))
		if pan != "" {
			im.bad = append(im.bad, c10shBad{"C10/sh/panic", fmt.Sprintf("ShAtoms on %q: %s", input, pan)})
		} else {
			c10shCheckAtoms(im, "ShAtoms", input, atoms, rest)
		}
	}
	{
		toks, rest, pan := pkglint.VerifC10shTokens(input)
		if pan != "" {
			secs = append(secs, "t:!panic")
			im.bad = append(im.bad, c10shBad{"C10/sh/panic", fmt.Sprintf("ShToken on %q: %s", input, pan)})
		} else {
			parts := make([]string, len(toks))
			for i, t := range toks {
				as := make([]string, len(t.Atoms))
				for j, a := range t.Atoms {
					as[j] = c10shAtomStr(a)
				}
				parts[i] = hx(t.Text) + "/" + hx(t.Rest) + "=" + strings.Join(as, "+")
				note(t.Atoms)
			}
			secs = append(secs, "t:"+strings.Join(parts, ",")+";"+hx(rest))
			c10shCheckTokens(im, input, toks, rest)
			if len(toks) > 0 {
				im.flags |= 2
			}
			if rest != "" {
				im.flags |= 8
			}
			// splitIntoShellTokens: the token strings are the texts of these tokens, the rest is this rest
			stoks, srest, span := pkglint.VerifC10shSplit(input)
			if span != "" {
				secs = append(secs, "x:!panic")
				im.bad = append(im.bad, c10shBad{"C10/sh/panic", fmt.Sprintf("splitIntoShellTokens on %q: %s", input, span)})
			} else {
				hs := make([]string, len(stoks))
				same := len(stoks) == len(toks) && srest == rest
				for i, t := range stoks {
					hs[i] = hx(t)
					if same && t != toks[i].Text {
						same = false
					}
				}
				secs = append(secs, "x:"+strings.Join(hs, ",")+";"+hx(srest))
				if !same {
					im.bad = append(im.bad, c10shBad{"C10/sh/split-differs-from-shtoken",
						fmt.Sprintf("splitIntoShellTokens(%q) = %q rest %q, but repeated ShToken gives %d tokens and rest %q", input, stoks, srest, len(toks), rest)})
				}
			}
		}
	}
	if len(secs) == 15 {
		secs = append(secs, "x:!skipped") // ShToken panicked
	}
	im.line = strings.Join(secs, "|")
	return im
}

func c10shDigest(line string) string {
	sum := md5.Sum([]byte(line))
	return hex.EncodeToString(sum[:])[:16]
}

// ---------- worker subprocess: one hex input per line -> one answer per line ----------

func c10shIsWorker() bool {
	for _, a := range os.Args {
		if a == "c10shworker=1" {
			return true
		}
	}
	return false
}

// The worker watches itself: when one input takes longer than the limit (or the heap
// explodes, which is what a non-advancing loop that appends does) it answers HANG for
// that input and exits; the parent starts a new worker for the remaining inputs.
func c10shWorker() {
	limit := 10 * time.Second
	for _, a := range os.Args {
		if v, ok := strings.CutPrefix(a, "c10shlimit="); ok {
			if d, err := time.ParseDuration(v); err == nil {
				limit = d
			}
		}
	}
	in := bufio.NewScanner(os.Stdin)
	in.Buffer(make([]byte, 1<<16), 1<<24)
	out := bufio.NewWriter(os.Stdout)
	var mu sync.Mutex
	// The limit is on CPU time of this process since the input was started (a non-returning
	// loop burns CPU), so that a loaded machine cannot raise the alarm; wall time only as a
	// distant fallback.
	cpu := func() int64 {
		var ru syscall.Rusage
		if syscall.Getrusage(syscall.RUSAGE_SELF, &ru) != nil {
			return 0
		}
		return ru.Utime.Nano() + ru.Stime.Nano()
	}
	var started, startedCPU atomic.Int64
	go func() {
		var ms runtime.MemStats
		for {
			time.Sleep(50 * time.Millisecond)
			t0 := started.Load()
			if t0 == 0 {
				continue
			}
			c0 := startedCPU.Load()
			runtime.ReadMemStats(&ms)
			if time.Duration(cpu()-c0) > limit || time.Since(time.Unix(0, t0)) > 30*limit || ms.HeapAlloc > 3<<30 {
				if started.Load() != t0 {
					continue // that input has just finished
				}
				mu.Lock()
				out.WriteString("HANG\n")
				out.Flush()
				os.Exit(0)
			}
		}
	}()
	n := 0
	for in.Scan() {
		input := unhx(strings.TrimSpace(in.Text()))
		startedCPU.Store(cpu())
		started.Store(time.Now().UnixNano())
		im := c10shRunImpl(input)
		started.Store(0)
		ok := "ok"
		if len(im.bad) > 0 {
			ok = "bad"
		}
		mu.Lock()
		fmt.Fprintf(out, "%s %s %s %d %d %d\n", c10shDigest(im.line), im.tbl, ok, im.quotMask, im.typeMask, im.flags)
		n++
		if n%64 == 0 {
			out.Flush()
		}
		mu.Unlock()
	}
	mu.Lock()
	out.Flush()
	os.Exit(0)
}

type c10shAnswer struct {
	digest, tbl string
	bad         bool
	quotMask    int
	typeMask    int
	flags       int
	hung        bool // the worker gave up on this input
	skipped     bool // not run: the run was stopped after several hangs
}

var c10shHangs atomic.Int64 // inputs on which a worker gave up, in this run

const c10shMaxHangs = 3

// c10shRunWorkers runs the real code on the inputs in nproc subprocesses.
func c10shRunWorkers(inputs []string, nproc int, limit time.Duration) ([]c10shAnswer, error) {
	out := make([]c10shAnswer, len(inputs))
	if len(inputs) == 0 {
		return out, nil
	}
	if nproc > len(inputs) {
		nproc = len(inputs)
	}
	per := (len(inputs) + nproc - 1) / nproc
	errs := make([]error, nproc)
	var wg sync.WaitGroup
	for w := 0; w < nproc; w++ {
		lo, hi := w*per, (w+1)*per
		if hi > len(inputs) {
			hi = len(inputs)
		}
		if lo >= hi {
			continue
		}
		wg.Add(1)
		go func(w, lo, hi int) {
			defer wg.Done()
			errs[w] = c10shOneWorker(inputs[lo:hi], out[lo:hi], limit)
		}(w, lo, hi)
	}
	wg.Wait()
	for _, e := range errs {
		if e != nil {
			return nil, e
		}
	}
	return out, nil
}

func c10shOneWorker(inputs []string, out []c10shAnswer, limit time.Duration) error {
	start := 0
	for start < len(inputs) {
		if c10shHangs.Load() >= c10shMaxHangs {
			for k := start; k < len(inputs); k++ {
				out[k].skipped = true
			}
			return nil
		}
		n, err := c10shWorkerRun(inputs[start:], out[start:], limit)
		if err != nil {
			return err
		}
		if n == 0 {
			return fmt.Errorf("c10sh worker made no progress on %q", inputs[start])
		}
		start += n
		if out[start-1].hung {
			c10shHangs.Add(1)
		}
	}
	return nil
}

// runs one worker process; returns how many inputs it answered (the last answer may be HANG)
func c10shWorkerRun(inputs []string, out []c10shAnswer, limit time.Duration) (int, error) {
	cmd := exec.Command(os.Args[0], "run", "C10sh", "c10shworker=1", "c10shlimit="+limit.String())
	var sb strings.Builder
	for _, s := range inputs {
		sb.WriteString(hx(s))
		sb.WriteByte('\n')
	}
	cmd.Stdin = strings.NewReader(sb.String())
	var eb bytes.Buffer
	cmd.Stderr = &eb
	pipe, err := cmd.StdoutPipe()
	if err != nil {
		return 0, err
	}
	if err := cmd.Start(); err != nil {
		return 0, err
	}
	// a worker that neither answers nor gives up is a broken harness, not a finding
	timer := time.AfterFunc(30*time.Minute, func() { cmd.Process.Kill() })
	defer timer.Stop()
	sc := bufio.NewScanner(pipe)
	sc.Buffer(make([]byte, 1<<16), 1<<24)
	n := 0
	for sc.Scan() {
		line := sc.Text()
		if line == "HANG" && n < len(out) {
			out[n].hung = true
			n++
			break
		}
		f := strings.Fields(line)
		if len(f) != 6 || n >= len(out) {
			cmd.Process.Kill()
			cmd.Wait()
			return n, fmt.Errorf("c10sh worker: unexpected answer %q", line)
		}
		a := c10shAnswer{digest: f[0], tbl: f[1], bad: f[2] != "ok"}
		a.quotMask, _ = strconv.Atoi(f[3])
		a.typeMask, _ = strconv.Atoi(f[4])
		a.flags, _ = strconv.Atoi(f[5])
		out[n] = a
		n++
	}
	for sc.Scan() {
	}
	werr := cmd.Wait()
	if n < len(inputs) && !(n > 0 && out[n-1].hung) {
		return n, fmt.Errorf("c10sh worker died after %d answers: %v: %s", n, werr, eb.String())
	}
	return n, nil
}

// c10shOraclePool: like runOracle but with a fixed number of evenly loaded processes.
func c10shOraclePool(ctx *Ctx, reqs []string, nproc int) ([]string, error) {
	out := make([]string, len(reqs))
	if len(reqs) == 0 {
		return out, nil
	}
	if nproc > len(reqs) {
		nproc = len(reqs)
	}
	per := (len(reqs) + nproc - 1) / nproc
	errs := make([]error, nproc)
	var wg sync.WaitGroup
	for w := 0; w < nproc; w++ {
		lo, hi := w*per, (w+1)*per
		if hi > len(reqs) {
			hi = len(reqs)
		}
		if lo >= hi {
			continue
		}
		wg.Add(1)
		go func(w, lo, hi int) {
			defer wg.Done()
			cmd := exec.Command(filepath.Join(ctx.Oracle, "c10sh"))
			cmd.Stdin = strings.NewReader(strings.Join(reqs[lo:hi], "\n") + "\n")
			var ob, eb bytes.Buffer
			cmd.Stdout, cmd.Stderr = &ob, &eb
			if err := cmd.Run(); err != nil {
				errs[w] = fmt.Errorf("oracle c10sh: %v: %s", err, eb.String())
				return
			}
			sc := bufio.NewScanner(&ob)
			sc.Buffer(make([]byte, 1<<16), 1<<26)
			i := lo
			for sc.Scan() {
				if i < hi {
					out[i] = sc.Text()
				}
				i++
			}
			if i != hi {
				errs[w] = fmt.Errorf("oracle c10sh: %d answers for %d requests", i-lo, hi-lo)
			}
		}(w, lo, hi)
	}
	wg.Wait()
	for _, e := range errs {
		if e != nil {
			return nil, e
		}
	}
	return out, nil
}

// ---------- comparison ----------

func c10shSectionName(sec string) (key, broken string) {
	name, _, _ := strings.Cut(sec, ":")
	switch {
	case name == "s":
		return "shatoms", "correspondence ShTokenizer.ShAtoms = Model.ShTok.sh_atoms"
	case name == "t":
		return "shtoken", "correspondence repeated ShTokenizer.ShToken = Model.ShTok.sh_tokens"
	case name == "x":
		return "split", "correspondence splitIntoShellTokens = Model.ShTok.split_tokens"
	case strings.HasPrefix(name, "a"):
		q, _ := strconv.Atoi(name[1:])
		if q >= 0 && q < 13 {
			return "shatom-" + c10shQuotNames[q], "correspondence ShTokenizer.ShAtom (loop from state " + c10shQuotNames[q] + ") = Model.ShTok.sh_atoms_from"
		}
	}
	return "line", "correspondence of the answer line"
}

// c10shSpecOnImpl evaluates the extracted specification on what the implementation returned
// for one atoms section ("a<q>:..." or "s:..."); true = the partition law holds.
func c10shSpecOnImpl(ctx *Ctx, input, sec string) (bool, bool) {
	_, body, _ := strings.Cut(sec, ":")
	if strings.HasPrefix(body, "!") {
		return false, true
	}
	atoms, rest, ok := strings.Cut(body, ";")
	if !ok {
		return false, false
	}
	req := "spec " + hx(input) + " " + rest
	if atoms != "" {
		for _, a := range strings.Split(atoms, ",") {
			t, _, _ := strings.Cut(a, ".")
			req += " " + t
		}
	}
	ans, err := c10shOraclePool(ctx, []string{req}, 1)
	if err != nil {
		return false, false
	}
	return ans[0] == "1", true
}

func c10shTokenSpecOnImpl(ctx *Ctx, input, sec string) (bool, bool) {
	_, body, _ := strings.Cut(sec, ":")
	if strings.HasPrefix(body, "!") {
		return false, true
	}
	toks, rest, ok := strings.Cut(body, ";")
	if !ok {
		return false, false
	}
	req := "tspec " + hx(input) + " " + rest
	if toks != "" {
		for _, t := range strings.Split(toks, ",") {
			head, _, _ := strings.Cut(t, "=")
			text, after, _ := strings.Cut(head, "/")
			req += " " + text + " " + after
		}
	}
	ans, err := c10shOraclePool(ctx, []string{req}, 1)
	if err != nil {
		return false, false
	}
	return ans[0] == "1", true
}

// c10shExplain is called for an input whose digests differ or whose property check failed:
// it recomputes both sides in full and files the violations.
func c10shExplain(ctx *Ctx, res *Result, input, family string) {
	im := c10shRunImpl(input)
	rep := func(extra map[string]any) map[string]any {
		m := map[string]any{"input": hx(input), "input_quoted": q(input), "family": family}
		for k, v := range extra {
			m[k] = v
		}
		return m
	}
	for _, b := range im.bad {
		res.AddViolation(Violation{Key: b.key, What: b.what, FoundInput: true, Size: 1 + len(input),
			Replay: rep(map[string]any{"impl": im.line})})
	}
	ans, err := c10shOraclePool(ctx, []string{"f " + im.tbl + " " + hx(input)}, 1)
	if err != nil {
		res.Broken = err.Error()
		return
	}
	model := ans[0]
	if model == im.line {
		return
	}
	ms, is := strings.Split(model, "|"), strings.Split(im.line, "|")
	if len(ms) != len(is) {
		res.AddViolation(Violation{Key: "C10/sh/correspondence/line", What: fmt.Sprintf("model and implementation answers for %q have different shapes", input),
			Size: 1 + len(input), Replay: rep(map[string]any{"impl": im.line, "model": model, "broken": "correspondence of the answer line"})})
		return
	}
	for i := range ms {
		if ms[i] == is[i] {
			continue
		}
		name, broken := c10shSectionName(is[i])
		var holds, decided bool
		if strings.HasPrefix(is[i], "x:") {
			holds, decided = len(im.bad) == 0, true // judged by the harness' own comparison with the ShToken loop
		} else if strings.HasPrefix(is[i], "t:") {
			holds, decided = c10shTokenSpecOnImpl(ctx, input, is[i])
		} else {
			holds, decided = c10shSpecOnImpl(ctx, input, is[i])
		}
		if decided && !holds && len(im.bad) == 0 {
			// the harness' own check passed but the extracted specification rejects the output
			res.AddViolation(Violation{Key: "C10/sh/spec-rejects-impl/" + name, What: fmt.Sprintf("on %q the extracted partition specification rejects the implementation's output %s", input, is[i]),
				FoundInput: true, Size: 1 + len(input), Replay: rep(map[string]any{"impl": is[i], "model": ms[i]})})
			continue
		}
		res.AddViolation(Violation{Key: "C10/sh/correspondence/" + name,
			What:       fmt.Sprintf("model and implementation disagree on %q (the partition law %s on the implementation's output): impl %s, model %s", input, map[bool]string{true: "holds", false: "fails"}[holds], is[i], ms[i]),
			FoundInput: false, Size: 1 + len(input),
			Replay: rep(map[string]any{"impl": is[i], "model": ms[i], "broken": broken, "spec_holds_on_impl": holds})})
	}
}

type c10shRun struct {
	ctx      *Ctx
	res      *Result
	seenNT   map[string]struct{}
	inputs   int
	mismatch int
	quotHits [13]int
	typeHits [7]int
	exprHits int
	tokHits  int
	samples  int

	hangReported bool
	explained    map[string]int
}

// process one chunk of inputs of one family
func (r *c10shRun) process(family string, inputs []string, distinctByConstruction bool) {
	if r.res.Broken != "" || len(inputs) == 0 {
		return
	}
	if c10shHangs.Load() >= c10shMaxHangs {
		return // enough failing inputs; every further hang would only cost time
	}
	ans, err := c10shRunWorkers(inputs, 16, r.limit())
	if err != nil {
		r.res.Broken = err.Error()
		return
	}
	reqs := make([]string, 0, len(inputs))
	idx := make([]int, 0, len(inputs))
	done := 0
	var hung []string
	for i, a := range ans {
		if a.skipped {
			continue
		}
		done++
		if a.hung {
			hung = append(hung, inputs[i])
			continue
		}
		reqs = append(reqs, "d "+a.tbl+" "+hx(inputs[i]))
		idx = append(idx, i)
	}
	// confirm the shortest hanging inputs, one replay is all that is needed
	sort.SliceStable(hung, func(i, j int) bool { return len(hung[i]) < len(hung[j]) })
	for i, h := range hung {
		if i >= 2 || r.hangReported {
			break
		}
		if c10shReportHang(r.res, h, family, r.limit()) {
			r.hangReported = true
		}
	}
	dig, err := c10shOraclePool(r.ctx, reqs, 16)
	if err != nil {
		r.res.Broken = err.Error()
		return
	}
	for k, i := range idx {
		a := ans[i]
		if a.bad || dig[k] != a.digest {
			r.mismatch++
			// Each one is recomputed in full, so only some: per family (they go from short to
			// long inputs), and separately for inputs on which the property itself fails.
			slot := family + "/digest"
			if a.bad {
				slot = family + "/property"
			}
			if r.explained[slot] < 25 {
				r.explained[slot]++
				c10shExplain(r.ctx, r.res, inputs[i], family)
			}
		}
		for qi := 0; qi < 13; qi++ {
			if a.quotMask&(1<<qi) != 0 {
				r.quotHits[qi]++
			}
		}
		for t := 0; t < 7; t++ {
			if a.typeMask&(1<<t) != 0 {
				r.typeHits[t]++
			}
		}
		if a.flags&4 != 0 {
			r.exprHits++
		}
		if a.flags&2 != 0 {
			r.tokHits++
		}
		if a.flags&1 != 0 {
			if distinctByConstruction {
				r.res.DistinctNontrivial++
			} else if _, ok := r.seenNT[inputs[i]]; !ok && !c10shInExhaustive(inputs[i], r.exhLen()) {
				r.seenNT[inputs[i]] = struct{}{}
				r.res.DistinctNontrivial++
			}
		}
	}
	r.inputs += done
	r.res.Count("inputs."+family, done)
	if r.samples < 6 && len(inputs) > 3 {
		i := len(inputs) / 3
		im := c10shRunImpl(inputs[i])
		r.res.Sample(map[string]any{"family": family, "input": inputs[i], "impl_line": im.line, "expr_table": im.tbl})
		r.samples++
	}
}

func (r *c10shRun) limit() time.Duration {
	if r.ctx.Tier == "thorough" {
		return 30 * time.Second
	}
	return 10 * time.Second
}

// a worker gave up on the input: run it once more, alone and with twice the time, before reporting
func c10shReportHang(res *Result, input, family string, limit time.Duration) bool {
	out := make([]c10shAnswer, 1)
	n, err := c10shWorkerRun([]string{input}, out, 2*limit)
	if err != nil || n != 1 {
		res.Broken = fmt.Sprintf("could not re-run %q after a worker gave up on it: %v", input, err)
		return false
	}
	if !out[0].hung {
		return false // slow machine, not a hang
	}
	res.AddViolation(Violation{Key: "C10/sh/hang", What: fmt.Sprintf("the tokenizers do not return within %v of CPU time on %q (or allocate more than 3 GB)", 2*limit, input),
		FoundInput: true, Size: 1 + len(input),
		Replay: map[string]any{"input": hx(input), "input_quoted": q(input), "family": family, "kind": "hang"}})
	return true
}

func (r *c10shRun) exhLen() int {
	if r.ctx.Tier == "thorough" {
		return 5
	}
	return 4
}

// ---------- second evaluation path: the extracted oracle against vm_compute ----------

var c10shQuotCtors = []string{"QPlain", "QDquot", "QSquot", "QBackt", "QSubsh", "QDquotBackt", "QBacktDquot", "QBacktSquot",
	"QSubshDquot", "QSubshSquot", "QSubshBackt", "QDquotBacktDquot", "QDquotBacktSquot"}

func c10shCoqStr(s string) string {
	if s == "" {
		return "(@nil N)"
	}
	parts := make([]string, len(s))
	for i := 0; i < len(s); i++ {
		parts[i] = strconv.Itoa(int(s[i]))
	}
	return "[" + strings.Join(parts, "; ") + "]"
}

// c10shCrossCheck lets coqc evaluate the model (vm_compute) on a sample of the cases and
// compares with what the extracted OCaml oracle answered.
func c10shCrossCheck(ctx *Ctx, res *Result, inputs []string) {
	if len(inputs) == 0 || res.Broken != "" {
		return
	}
	ans, err := c10shRunWorkers(inputs, 4, 10*time.Second)
	if err != nil {
		res.Broken = err.Error()
		return
	}
	var reqs []string
	var ins []string
	var tbls []string
	for i, a := range ans {
		if a.hung || a.skipped {
			continue
		}
		reqs = append(reqs, "f "+a.tbl+" "+hx(inputs[i]))
		ins = append(ins, inputs[i])
		tbls = append(tbls, a.tbl)
	}
	lines, err := c10shOraclePool(ctx, reqs, 4)
	if err != nil {
		res.Broken = err.Error()
		return
	}
	var sb strings.Builder
	sb.WriteString("From PV Require Import Lib.Bytes Model.ShTok.\nOpen Scope N_scope.\n")
	sb.WriteString("Definition view (r : res (list atom * state)) := match r with Ok (l, (_, rest)) => Some (map a_text l, map a_quot l, rest) | _ => None end.\n")
	n := 0
	for i, line := range lines {
		secs := strings.Split(line, "|")
		for _, qi := range []int{0, 1 + (i % 12)} {
			if qi >= len(secs) {
				continue
			}
			_, body, _ := strings.Cut(secs[qi], ":")
			if strings.HasPrefix(body, "!") {
				fmt.Fprintf(&sb, "Example c%d : view (sh_atoms_from (table_expr %d [%s]%%nat) %s (false, %s)) = None.\nProof. vm_compute. reflexivity. Qed.\n",
					n, len(ins[i]), strings.ReplaceAll(tbls[i], ",", "; "), c10shQuotCtors[qi], c10shCoqStr(ins[i]))
				n++
				continue
			}
			atoms, rest, _ := strings.Cut(body, ";")
			var texts, quots []string
			if atoms != "" {
				for _, a := range strings.Split(atoms, ",") {
					t, qs, _ := strings.Cut(a, ".")
					k, _ := strconv.Atoi(qs)
					texts = append(texts, c10shCoqStr(unhx(t)))
					quots = append(quots, c10shQuotCtors[k%13])
				}
			}
			tl, ql := "(@nil str)", "(@nil quoting)"
			if len(texts) > 0 {
				tl, ql = "["+strings.Join(texts, "; ")+"]", "["+strings.Join(quots, "; ")+"]"
			}
			fmt.Fprintf(&sb, "Example c%d : view (sh_atoms_from (table_expr %d [%s]%%nat) %s (false, %s)) = Some (%s, %s, %s).\nProof. vm_compute. reflexivity. Qed.\n",
				n, len(ins[i]), strings.ReplaceAll(tbls[i], ",", "; "), c10shQuotCtors[qi], c10shCoqStr(ins[i]), tl, ql, c10shCoqStr(unhx(rest)))
			n++
		}
	}
	file := filepath.Join(ctx.Work, "c10sh_cases.v")
	if err := os.WriteFile(file, []byte(sb.String()), 0o644); err != nil {
		res.Broken = err.Error()
		return
	}
	cmd := exec.Command("timeout", "300", "coqc", "-Q", filepath.Join(ctx.Verif, "coq"), "PV", file)
	cmd.Dir = ctx.Work
	out, err := cmd.CombinedOutput()
	if err != nil {
		msg := string(out)
		if len(msg) > 600 {
			msg = msg[:600]
		}
		res.AddViolation(Violation{Key: "C10/sh/extraction-differs-from-vm_compute",
			What:   "coqc (vm_compute) does not reproduce the extracted oracle's answers on the sampled cases: " + strings.Join(strings.Fields(msg), " "),
			Replay: map[string]any{"broken": "cross-check extracted OCaml model = vm_compute", "coqc": msg}})
		return
	}
	res.Count("cases_rechecked_by_vm_compute", n)
}

// ---------- generators ----------

// one representative per class of bytes that shtokenizer.go distinguishes (see docs/C10sh.md)
var c10shAlphabet = []byte{' ', '\n', '"', '\'', '`', '#', '$', '(', ')', '&', '|', ';', '<', '>', '\\', '{', '}',
	'!', '?', '=', '%', ':', '1', 'a', ',', 0x01, 0xC3, 0xA9}

// a second representative of every class (single-member classes repeat their member)
var c10shAlphabet2 = []byte{'\t', '\n', '"', '\'', '`', '#', '$', '(', ')', '&', '|', ';', '<', '>', '\\', '{', '}',
	'@', '-', '+', '%', ':', '7', 'Z', '[', 0x7f, 0xE2, 0x82}

var c10shInAlphabet = func() (m [256]bool) {
	for _, b := range c10shAlphabet {
		m[b] = true
	}
	return
}()

func c10shInExhaustive(s string, maxLen int) bool {
	if len(s) > maxLen {
		return false
	}
	for i := 0; i < len(s); i++ {
		if !c10shInAlphabet[s[i]] {
			return false
		}
	}
	return true
}

// all strings of exactly n bytes over alpha that start with prefix
func c10shAllStrings(alpha []byte, prefix string, n int, emit func(string)) {
	if n == 0 {
		emit(prefix)
		return
	}
	buf := make([]byte, len(prefix)+n)
	copy(buf, prefix)
	var rec func(pos int)
	rec = func(pos int) {
		if pos == len(buf) {
			emit(string(buf))
			return
		}
		for _, b := range alpha {
			buf[pos] = b
			rec(pos + 1)
		}
	}
	rec(len(prefix))
}

var c10shFragments = []string{
	"echo", "a", "b1", "file.c", "-o", "--x=y", "/usr/bin", "*.[ch]", "~", "%", "a,b", "x:y", "^", "!", "@", "{", "}", "{a,b}",
	" ", "  ", "\t", "\n", ";", ";;", "&", "&&", "|", "||", "(", ")", "<", ">", ">>", "<<", "<<-", "<&", ">&", "<>", ">|", "2>", "2>&1", "10<", "1>|",
	"\"", "'", "`", "#", "# c", "#!", "\\", "\\\\", "\\\"", "\\'", "\\`", "\\n", "\\$$", "\\$", "\\\xc3\xa9", "\\\xe2\x82\xac", "\\\xf0\x9f\x98\x80", "\\\xc3", "\xc3\xa9",
	"$$", "$$$$", "$$x", "$$1", "$$12", "$$?", "$$!", "$$#", "$$*", "$$@", "$$-", "$$_a1", "$${x}", "$${x:-d}", "$${x:=d e}", "$${x##*/}", "$${x%%.*}", "$${x#a}", "$${x%b}",
	"$${x:+y}", "$${x?}", "$${x:?m}", "$${#}", "$${#x}", "$${1}", "$${12}", "$${$$}", "$${x", "$${x:-$$y}", "$${x:-\\}}", "$${x:-{}", "$${", "$$(", "$$((", "$$,", "$$ ", "$$\\", "$$\"", "$",
	"${V}", "${V:Q}", "${V:M*.c}", "${V:S,a,b,}", "${V:S,a,b,:Q}", "${V:C/x/y/g}", "${V:@i@${i}@}", "${V:!echo!}", "${V:!e $$x!}", "${V:U}", "${V:Ua b}", "${V:D\"}", "${V:ts,}", "${V:[1]}",
	"${V:tl:tu}", "${V:L}", "${V:?a:b}", "${V:=x}", "${V:%.c=%.o}", "${${V}}", "${V${W}}", "${V:U${W:Q}}", "${.TARGET}", "${V.p}", "$(V)", "$(V:Q)", "${V", "${V:", "${V:Q", "${", "$(",
	"$@", "$<", "$>", "$*", "$?", "$%", "$!", "$x", "$xy", "$1", "$,", "$ ", "$\"", "$\\", "$;", c10shUlimit, c10shUlimit + " ", " " + c10shUlimit,
	"if", "then", "fi", "for", "in", "do", "done", "case", "esac", "*)", "a)", "[", "]", "test", "-f", "=", "!=", "cd", "&&:", ":", "{ ", "; }", "<<EOF",
}

func c10shGrammar(rng *Rng) string {
	var sb strings.Builder
	n := 1 + rng.Intn(12)
	for i := 0; i < n && sb.Len() < 60; i++ {
		switch {
		case rng.Chance(4):
			sb.WriteByte(byte(rng.Intn(256)))
		case rng.Chance(6):
			sb.WriteByte(Pick(rng, c10shAlphabet))
		default:
			sb.WriteString(Pick(rng, c10shFragments))
		}
	}
	s := sb.String()
	if len(s) > 60 {
		s = s[:60]
	}
	return s
}

func c10shRandom(rng *Rng) string {
	n := rng.Intn(61)
	b := make([]byte, n)
	for i := range b {
		switch {
		case rng.Chance(15):
			b[i] = byte(rng.Intn(256))
		case rng.Chance(30):
			b[i] = Pick(rng, c10shAlphabet2)
		default:
			b[i] = Pick(rng, c10shAlphabet)
		}
	}
	return string(b)
}

// ---------- run ----------

func runC10sh(ctx *Ctx) *Result {
	if c10shIsWorker() {
		c10shWorker()
	}
	res := &Result{Rule: "inputs: all byte strings of length <= L (quick 4, thorough 5) over 28 bytes, one per class of bytes the shell tokenizer distinguishes; " +
		"all strings <= 3 over a second representative of every class; all strings <= 2 over all 256 bytes; every byte in 3 x 14 contexts; " +
		"backslash + all strings <= 4 over 17 UTF-8 structure bytes; seeded grammar-guided and random strings up to 60 bytes. " +
		"Each input is run from all 13 quoting states (ShAtom loop), through ShAtoms() and through repeated ShToken() and splitIntoShellTokens = 16 traces per input. " +
		"distinct_nontrivial = distinct inputs for which the ShAtom loop from the plain state returns at least two atoms or leaves the plain state"}
	r := &c10shRun{ctx: ctx, res: res, seenNT: map[string]struct{}{}, explained: map[string]int{}}
	rng := NewRng(ctx.Seed)
	exh, ngram, nrand := 4, 30000, 30000
	if ctx.Tier == "thorough" {
		exh, ngram, nrand = 5, 600000, 600000
	}
	const chunk = 240000

	// 1. exhaustive over the class representatives
	var buf []string
	flush := func(family string, distinct bool) {
		r.process(family, buf, distinct)
		buf = buf[:0]
	}
	for n := 0; n <= exh; n++ {
		fam := fmt.Sprintf("exhaustive_len%d", n)
		c10shAllStrings(c10shAlphabet, "", n, func(s string) {
			buf = append(buf, s)
			if len(buf) >= chunk {
				flush(fam, true)
			}
		})
		flush(fam, true)
	}
	// 2. second representatives, <= 3
	for n := 1; n <= 3; n++ {
		c10shAllStrings(c10shAlphabet2, "", n, func(s string) { buf = append(buf, s) })
	}
	flush("second_representatives_len<=3", false)
	// 3. all 256 bytes: strings <= 2, and every byte in contexts that reach the deeper byte classes
	all := make([]byte, 256)
	for i := range all {
		all[i] = byte(i)
	}
	c10shAllStrings(all, "", 1, func(s string) { buf = append(buf, s) })
	c10shAllStrings(all, "", 2, func(s string) { buf = append(buf, s) })
	flush("all_bytes_len<=2", false)
	for _, pre := range []string{"$$", "$${", "$${a", "$${a:-", "$${a#", "$${a:", "$$a", "$$1", "#", "1", "1>", "\\", "a", "'"} {
		for _, suf := range []string{"", "}", "a}"} {
			for b := 0; b < 256; b++ {
				buf = append(buf, pre+string([]byte{byte(b)})+suf)
			}
		}
	}
	flush("byte_in_context", false)
	// 4. `\` + UTF-8 structure (the rune-wise regular expression `^\\[^$]`)
	u8 := []byte{'$', 'a', 0x80, 0x8F, 0x90, 0x9F, 0xA0, 0xBF, 0xC1, 0xC2, 0xE0, 0xE1, 0xED, 0xF0, 0xF1, 0xF4, 0xF5}
	for n := 1; n <= 4; n++ {
		c10shAllStrings(u8, "\\", n, func(s string) {
			buf = append(buf, s)
			if len(buf) >= chunk {
				flush("backslash_utf8", false)
			}
		})
	}
	flush("backslash_utf8", false)
	// 5. grammar-guided and random
	for i := 0; i < ngram; i++ {
		buf = append(buf, c10shGrammar(rng))
		if len(buf) >= chunk {
			flush("grammar_guided", false)
		}
	}
	flush("grammar_guided", false)
	for i := 0; i < nrand; i++ {
		buf = append(buf, c10shRandom(rng))
		if len(buf) >= chunk {
			flush("random", false)
		}
	}
	flush("random", false)

	// second evaluation path for the model itself
	var sample []string
	for i := 0; i < 60; i++ {
		switch i % 3 {
		case 0:
			sample = append(sample, c10shGrammar(rng))
		case 1:
			sample = append(sample, c10shRandom(rng))
		default:
			b := make([]byte, 1+rng.Intn(5))
			for j := range b {
				b[j] = Pick(rng, c10shAlphabet)
			}
			sample = append(sample, string(b))
		}
	}
	c10shCrossCheck(ctx, res, sample)

	res.Evaluations = r.inputs * 16
	res.TracesValidated = r.inputs * 16
	res.Exhaustive = false
	for i, n := range r.quotHits {
		res.Count("reached_from_plain."+c10shQuotNames[i], n)
	}
	for i, n := range r.typeHits {
		res.Count("atom_type."+c10shTypeNames[i], n)
	}
	res.Count("inputs_with_expr_atom", r.exprHits)
	res.Count("inputs_with_shtoken", r.tokHits)
	res.Count("inputs_total", r.inputs)
	res.Count("inputs_disagreeing_or_failing", r.mismatch)
	if res.Broken == "" {
		for i, n := range r.quotHits {
			if n < 5 {
				res.Broken = fmt.Sprintf("generator no longer reaches quoting state %s from the plain state (%d inputs)", c10shQuotNames[i], n)
			}
		}
		for i, n := range r.typeHits {
			if n < 50 {
				res.Broken = fmt.Sprintf("generator no longer produces atoms of type %s (%d inputs)", c10shTypeNames[i], n)
			}
		}
		if r.exprHits < 500 || r.tokHits < 1000 {
			res.Broken = fmt.Sprintf("generator coverage too low: %d inputs with an expression atom, %d with a token", r.exprHits, r.tokHits)
		}
		if res.Broken != "" && len(res.Violations) > 0 {
			// on a changed tree a missed floor is a correspondence that could not be established, not a broken check
			res.Broken = ""
		}
	}
	res.Assumptions = []string{
		"MkLexer.Expr is not part of this model (part C10mk): it enters as a per-input table of consumed lengths measured on the real code; its advance contract is validated on every suffix of every input",
		"diagnostics (Warnf) of the tokenizer are not modelled; the tokenizer is run without a diagnostics sink, as ShAtoms/ShToken callers may do",
	}
	return res
}

func replayC10sh(ctx *Ctx, rep map[string]any) *Result {
	if c10shIsWorker() {
		c10shWorker()
	}
	res := &Result{Rule: "replay"}
	in, _ := rep["input"].(string)
	input := unhx(in)
	ans, err := c10shRunWorkers([]string{input}, 1, 10*time.Second)
	if err != nil {
		res.Broken = err.Error()
		return res
	}
	if ans[0].hung {
		c10shReportHang(res, input, "replay", 10*time.Second)
		return res
	}
	c10shExplain(ctx, res, input, "replay")
	res.Evaluations = 15
	return res
}

func init() { register("C10sh", runC10sh, replayC10sh) }
