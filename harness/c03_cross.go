package main

// C03 extraction cross-check: the executable-bit fix (Autofix.Custom under --only,
// Model.Autofix.check_executable) over its whole small domain -- option records
// {autofix, show} x four --only lists x executable x committed = 64 cases -- is
// evaluated by the extracted oracle and by coqc with vm_compute; the answers must agree.

import (
	"fmt"
	"os"
	"os/exec"
	"path/filepath"
	"strings"
)

func c03CrossCheckExtraction(ctx *Ctx, res *Result) {
	if res.Broken != "" {
		return
	}
	file := "cat/pkg/DESCR"
	onlys := [][]string{nil, {"executable"}, {"Trailing whitespace"}, {"zzz", "Should not be executable."}}
	type cs struct {
		a, s, x, c bool
		only       []string
	}
	var cases []cs
	var reqs []string
	for _, a := range []bool{false, true} {
		for _, s := range []bool{false, true} {
			for _, o := range onlys {
				for _, x := range []bool{false, true} {
					for _, c := range []bool{false, true} {
						cases = append(cases, cs{a, s, x, c, o})
						r := fmt.Sprintf("chk %d %d %d %d %s", c03b(a), c03b(s), c03b(x), c03b(c), hx(file))
						for _, p := range o {
							r += " " + hx(p)
						}
						reqs = append(reqs, r)
					}
				}
			}
		}
	}
	ans, err := runOracle(ctx, "c03", reqs)
	if err != nil {
		res.Broken = err.Error()
		return
	}
	var sb strings.Builder
	sb.WriteString("From PV Require Import Lib.Bytes Model.Autofix.\nOpen Scope Z_scope.\n")
	for i, c := range cases {
		var only []string
		for _, p := range c.only {
			only = append(only, c09CoqStr(p)+"%N")
		}
		want := ""
		switch ans[i] {
		case ";0":
			want = "Ok ([], [])"
		case "0:C;0":
			want = "Ok ([(DChmod, 0)], [])"
		case "0:C;1":
			want = fmt.Sprintf("Ok ([(DChmod, 0)], [OpChmod %s%%N])", c09CoqStr(file))
		case ";1":
			want = fmt.Sprintf("Ok ([], [OpChmod %s%%N])", c09CoqStr(file))
		default:
			res.Broken = "oracle answer " + q(ans[i])
			return
		}
		fmt.Fprintf(&sb, "Example chk_%d : check_executable (Opts %v %v [%s]) %s%%N %v %v = %s.\nProof. vm_compute. reflexivity. Qed.\n",
			i, c.a, c.s, strings.Join(only, "; "), c09CoqStr(file), c.x, c.c, want)
	}
	vfile := filepath.Join(ctx.Work, "c03cases.v")
	if err := os.WriteFile(vfile, []byte(sb.String()), 0o644); err != nil {
		res.Broken = err.Error()
		return
	}
	cmd := exec.Command("timeout", "300", "coqc", "-Q", filepath.Join(ctx.Verif, "coq"), "PV", vfile)
	cmd.Dir = ctx.Work
	out, err := cmd.CombinedOutput()
	if err != nil {
		msg := string(out)
		if len(msg) > 600 {
			msg = msg[:600]
		}
		res.AddViolation(Violation{Key: "C03/extraction-vs-vm_compute",
			What:       "the extracted oracle and coqc's vm_compute disagree on check_executable (or coqc failed): " + msg,
			FoundInput: false, Replay: map[string]any{"broken": "extraction cross-check", "detail": msg}})
		return
	}
	res.Count("vm_compute_cross_checked", len(cases))
}

func c03b(b bool) int {
	if b {
		return 1
	}
	return 0
}
