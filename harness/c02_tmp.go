package main

// C02 (round 4): trees that already contain entries named F.pkglint.tmp.  The save
// protocol creates its temporary file exclusively, so such an entry -- whatever it is --
// does not belong to pkglint: the run must leave it exactly as it is (Props/C02.v
// C02_create_fails_untouched, Props/C05.v C05_foreign_entries_untouched); the save of F
// is refused with an ERROR line.  c02PlantTmps puts entries of every kind next to files
// for which the probe run announced a fix; c02Judge then compares them like every other
// entry of the snapshot, under the narrow keys C02/preexisting-tmp/{removed,modified}.

import (
	"fmt"
	"os"
	"path/filepath"
	"strings"
)

// c02PlantTmps plants 1-3 entries <file>.pkglint.tmp next to files named in the AUTOFIX
// lines of the probe run (pkglint -f); it returns the kinds planted.
func c02PlantTmps(r *Rng, root, probeStdout string) []string {
	logs, _ := groupAutofix(probeStdout, root, root)
	var files []string
	for _, rel := range sortedKeys(logs) {
		if st, err := os.Lstat(filepath.Join(root, rel)); err == nil && st.Mode().IsRegular() && !strings.HasSuffix(rel, ".pkglint.tmp") {
			files = append(files, rel)
		}
	}
	if len(files) == 0 {
		return nil
	}
	var kinds []string
	n := 1 + r.Intn(3)
	for i := 0; i < n; i++ {
		rel := files[r.Intn(len(files))]
		tmp := filepath.Join(root, rel+".pkglint.tmp")
		if _, err := os.Lstat(tmp); err == nil {
			continue
		}
		b := filepath.Base(rel)
		// pkglint reads every Makefile.* / PLIST.* of a package directory and ends with FATAL
		// "Cannot be read" on a directory or a dangling link: only readable entries there
		readableOnly := strings.HasPrefix(b, "Makefile") || strings.HasPrefix(b, "PLIST")
		k := Pick(r, []string{"empty", "nonempty", "dir", "dir-nonempty", "symlink-file", "symlink-dangling"})
		if readableOnly && (strings.HasPrefix(k, "dir") || k == "symlink-dangling") {
			k = Pick(r, []string{"empty", "nonempty", "symlink-file"})
		}
		switch k {
		case "empty":
			os.WriteFile(tmp, nil, 0o644)
			os.Chmod(tmp, Pick(r, []os.FileMode{0o644, 0o600, 0o444}))
		case "nonempty":
			os.WriteFile(tmp, []byte(strings.Repeat(fmt.Sprintf("# precious backup %d\n", r.Intn(1000)), 1+r.Intn(40))), 0o644)
			os.Chmod(tmp, Pick(r, []os.FileMode{0o644, 0o600, 0o444, 0o755}))
		case "dir":
			os.Mkdir(tmp, 0o755)
		case "dir-nonempty":
			os.Mkdir(tmp, 0o755)
			os.WriteFile(filepath.Join(tmp, "keep"), []byte("kept\n"), 0o644)
		case "symlink-file":
			os.Symlink(b, tmp) // to the file itself, next to it
		case "symlink-dangling":
			os.Symlink("/nonexistent/"+b, tmp)
		}
		kinds = append(kinds, k)
	}
	return kinds
}

// c02TmpProblem: a pre-existing *.pkglint.tmp entry differs after the run.
func c02TmpProblem(rel string, before fileState, after *fileState) c02Problem {
	desc := func(s fileState) string {
		switch s.Kind {
		case "d":
			return fmt.Sprintf("directory (mode %o)", s.Mode)
		case "l":
			return fmt.Sprintf("symbolic link to %q", s.Link)
		}
		return fmt.Sprintf("regular file of %d bytes (mode %o)", len(s.Data), s.Mode)
	}
	if after == nil {
		return c02Problem{"C02/preexisting-tmp/removed", fmt.Sprintf("%s (a %s) existed before the run, was not created by pkglint and is named in no AUTOFIX line, but has disappeared", rel, desc(before)), rel}
	}
	return c02Problem{"C02/preexisting-tmp/modified", fmt.Sprintf("%s existed before the run (a %s), was not created by pkglint and is named in no AUTOFIX line, but is now a %s", rel, desc(before), desc(*after)), rel}
}
