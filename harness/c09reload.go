package main

// C09, round 5: the same *.mk file loaded twice in one run, under different
// LoadOptions -- through the REAL file cache. The property's clauses are stated
// for the mode a load asks for: "a logical line spans exactly the physical lines
// joined by continuation" in Makefile mode, "one logical line per physical line"
// in plain mode. A Makefile-mode load (LoadMk: CheckFileMk, .include,
// Pkgsrc.LoadMk) followed by a plain-mode load of the same file (patches.go
// linesAfter, distinfo.go checkPatchSha1) -- and the reverse order -- must each
// give the lines of their own mode. The second result is judged by the
// executable specification (oracle request `chk`, Spec/LinesSpec.v) for the
// REQUESTED mode; the model is not needed for the verdict.

import (
	"fmt"
	"path/filepath"
	"strings"

	pkglint "github.com/rillig/pkglint/v23"
)

// fixed contents: continuation lines of every shape the property names, and controls
var c09ReloadFixed = []string{
	"VAR=\tfirst \\\n\tsecond \\\n\tthird\n# end\n",
	"A= \\\n b\n",
	"# c \\\n d\nX=y\n",
	"X= \\\n",
	"a\\\\\nb\n",
	"A= \\\n b",
	"A=1\nB=2\n",
	"",
}

type c09ReloadCase struct {
	input         string
	first, second int
	viaLoadMk     bool
}

func c09ReloadDirection(c c09ReloadCase) string {
	f, s := c.first&4 != 0 || c.viaLoadMk, c.second&4 != 0
	switch {
	case f && !s:
		return "plain-after-makefile"
	case !f && s:
		return "makefile-after-plain"
	}
	return "same-mode"
}

func c09ReloadRep(c c09ReloadCase) map[string]any {
	return map[string]any{"kind": "reload", "input": hx(c.input), "first": c.first, "second": c.second, "via_loadmk": c.viaLoadMk}
}

// c09ReloadRun runs the cases on the real code and judges every second load.
func c09ReloadRun(ctx *Ctx, res *Result, cases []c09ReloadCase) {
	dir := filepath.Dir(c09LoadPath)
	path := filepath.Join(dir, "reload.mk")
	var reqs []string
	var judged []c09ReloadCase
	var shownOf []string
	for _, c := range cases {
		empty := c.input == ""
		if empty && c.second&2 != 0 && c.second&1 != 0 {
			continue // NotEmpty|MustSucceed on an empty file: a fatal error, nothing to judge
		}
		lines, isNil, hits, firstPanicked, panicked := pkglint.VerifC09Reload(path, c.input, c.first, c.second, c.viaLoadMk)
		res.Evaluations++
		dirn := c09ReloadDirection(c)
		if firstPanicked != "" {
			res.Count("reload.first_load_stopped", 1)
		}
		if panicked != "" {
			rep := c09ReloadRep(c)
			rep["impl"] = panicked
			res.AddViolation(Violation{Key: "C09/reload/" + dirn + "/panic",
				What:       fmt.Sprintf("Load(f, %d) after a load of the same file with options %d (LoadMk: %v) on %q panics: %s", c.second, c.first, c.viaLoadMk, c.input, panicked),
				FoundInput: true, Size: 2 + len(c.input), Replay: rep})
			continue
		}
		wantNil := empty && c.second&2 != 0
		if isNil != wantNil {
			rep := c09ReloadRep(c)
			rep["impl"] = fmt.Sprintf("nil=%v", isNil)
			res.AddViolation(Violation{Key: "C09/reload/" + dirn + "/nil",
				What:       fmt.Sprintf("Load(f, %d) after a load of the same file with options %d on %q: nil = %v, expected %v (nil exactly for an empty file with NotEmpty)", c.second, c.first, c.input, isNil, wantNil),
				FoundInput: true, Size: 2 + len(c.input), Replay: rep})
			continue
		}
		if isNil {
			res.Count("reload.nil", 1)
			continue
		}
		res.Count("reload."+dirn, 1)
		if strings.Contains(c.input, "\\\n") {
			res.Count("reload."+dirn+"_on_continuation_file", 1)
		}
		if hits > 0 {
			res.Count("reload.cache_hits", 1)
		} else if firstPanicked == "" && !(empty && c.first&2 != 0) {
			res.Count("reload.miss_other_options", 1)
		}
		if hits > 0 && c.first|b2i(c.viaLoadMk)*4 != c.second {
			// observable through FileCache.hits: a hit for options other than the stored ones
			res.Count("reload.hit_with_other_options", 1)
		}
		// the EOF diagnostic is not logged again on a cache hit: not part of this check
		eof := c.input != "" && !strings.HasSuffix(c.input, "\n")
		shown := bit(eof) + " " + c09ShowLines(lines)
		reqs = append(reqs, "chk "+bit(c.second&4 != 0)+" "+hx(c.input)+" "+shown)
		judged = append(judged, c)
		shownOf = append(shownOf, shown)
	}
	if len(reqs) == 0 {
		return
	}
	ans, err := runOracle(ctx, "c09", reqs)
	if err != nil {
		res.Broken = err.Error()
		return
	}
	for i, c := range judged {
		res.TracesValidated++
		if ans[i] == "1 11111" {
			continue
		}
		dirn := c09ReloadDirection(c)
		f := strings.Fields(ans[i])
		if len(f) != 2 || len(f[1]) != len(c09Clauses) {
			res.Broken = "oracle answer " + q(ans[i])
			return
		}
		rep := c09ReloadRep(c)
		rep["impl"] = shownOf[i]
		failed := ""
		for k, cl := range c09Clauses {
			if f[1][k] != '1' && failed == "" {
				failed = cl
			}
		}
		mode := c09Mode(c.second&4 != 0)
		if failed != "" {
			res.AddViolation(Violation{Key: "C09/reload/" + dirn + "/" + failed,
				What: fmt.Sprintf("%q loaded with options %d (LoadMk: %v) and then with Load(f, %d) in the same run: the second load (%s mode) violates the %s clause of the specification for %s mode: lines %s",
					c.input, c.first, c.viaLoadMk, c.second, mode, failed, mode, shownOf[i]),
				FoundInput: true, Size: 2 + len(c.input), Replay: rep})
			continue
		}
		rep["broken"] = "correspondence Load(second options) after an earlier load = Model.Lines.convert_to_logical_lines in the requested mode; every clause of the specification still holds of the implementation's output"
		res.AddViolation(Violation{Key: "C09/reload/" + dirn + "/correspondence",
			What:       fmt.Sprintf("model and implementation disagree on the second load of %q (options %d then %d): impl %s", c.input, c.first, c.second, shownOf[i]),
			FoundInput: false, Size: 2 + len(c.input), Replay: rep})
	}
}

func b2i(b bool) int {
	if b {
		return 1
	}
	return 0
}

// c09ReloadRuns: the fixed contents under EVERY ordered pair of the 16 option
// sets (first load through Load; and through LoadMk for every first set), then n
// generated contents with continuation lines under every pair (Makefile-mode
// set, plain set) in both orders plus same-mode controls.
func c09ReloadRuns(ctx *Ctx, res *Result, rng *Rng, n int) {
	var cases []c09ReloadCase
	for _, in := range c09ReloadFixed {
		for a := 0; a < 16; a++ {
			for b := 0; b < 16; b++ {
				cases = append(cases, c09ReloadCase{in, a, b, false})
				if a&4 != 0 && a&1 == 0 {
					cases = append(cases, c09ReloadCase{in, a &^ 4, b, true})
				}
			}
		}
	}
	res.Count("reload.fixed_contents_all_256_pairs", len(c09ReloadFixed))
	plain := []int{0, 1, 2, 3, 8, 9, 10, 11}
	mk := []int{4, 5, 6, 7, 12, 13, 14, 15}
	for i := 0; i < n; {
		in := c09RandomText(rng, 80)
		if !strings.Contains(in, "\\\n") {
			continue
		}
		i++
		for _, p := range plain {
			for _, m := range []int{4, 14, 6} {
				cases = append(cases, c09ReloadCase{in, m, p, false}, c09ReloadCase{in, m &^ 4, p, true})
			}
		}
		for _, m := range mk {
			for _, p := range []int{0, 2, 10} {
				cases = append(cases, c09ReloadCase{in, p, m, false})
			}
		}
		for _, pr := range [][2]int{{4, 4}, {0, 0}, {14, 14}, {14, 4}, {2, 0}, {0, 2}} {
			cases = append(cases, c09ReloadCase{in, pr[0], pr[1], false})
		}
	}
	c09ReloadRun(ctx, res, cases)
	res.Count("reload.cases", len(cases))
}
