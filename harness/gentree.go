package main

// Grammar-guided generator of pkgsrc trees on top of the base fixture
// (tree.go). Every "feature" is designed to reach one or more of pkglint's
// diagnostics / fix sites; which ones a tree contains is recorded in
// GenTree.Features so that the evidence can show the distribution, and the
// AUTOFIX message kinds that really fired are measured by the callers.

import (
	"crypto/sha1"
	"fmt"
	"os"
	"path/filepath"
	"regexp"
	"sort"
	"strings"
)

type GenOpts struct {
	Packages int  // number of extra packages in category "cat" (>=1)
	Hostile  bool // add hostile bytes (control, ESC, invalid UTF-8, NUL, CR, long lines)
	Rich     bool // many variables, tools, options, licenses, SUBST classes (for determinism runs)
	Density  int  // percent chance for each feature, default 35
	Only     []string
}

type GenTree struct {
	*Tree
	Pkgs     []string // package directories relative to the root, e.g. cat/p0
	Features map[string]int
	Files    []string // files written by the generator (relative)
}

func (g *GenTree) feat(name string) { g.Features[name]++ }

var genVarnames = []string{"FOO", "BAR_BAZ", "X", "LONG_VARIABLE_NAME_1", "CONFIGURE_ARGS", "CFLAGS", "MY_FILES", "A_B", "PKG_SOMETHING_LONGER_THAN_USUAL", "V9"}
var genValues = []string{"value", "a b c", "${PREFIX}/bin", "-DFOO=1 -DBAR", "yes", "no", "1.2.3", "# none", "", "${FOO:Q}", "a\\ b", "'single quoted'", "\"double quoted\"", "$$shellvar", "word#notcomment", "value # comment"}
var genOps = []string{"=", "+=", "?=", ":=", "!="}
var genBlanks = []string{"\t", " ", "", "\t\t", "  ", " \t", "\t ", "   \t"}

func genAssign(r *Rng) string {
	name := Pick(r, genVarnames)
	op := Pick(r, genOps)
	val := Pick(r, genValues)
	if op == "!=" {
		val = "echo " + val
	}
	sp := ""
	if r.Chance(10) {
		sp = " "
	}
	return name + sp + op + Pick(r, genBlanks) + val
}

// genParagraph: a block of assignments with assorted alignment, sometimes with
// continuation lines and commented-out assignments.
func genParagraph(r *Rng, g *GenTree) []string {
	n := 1 + r.Intn(4)
	var ls []string
	for i := 0; i < n; i++ {
		a := genAssign(r)
		switch {
		case r.Chance(12):
			g.feat("para.commented")
			a = "#" + a
		case r.Chance(15):
			g.feat("para.continuation")
			a = a + " \\\n" + Pick(r, genBlanks) + "more" + Pick(r, []string{"", " \\\n\t\teven more", " \\\n   x"})
		}
		ls = append(ls, a)
	}
	g.feat("para")
	return ls
}

func genCond(r *Rng, g *GenTree) []string {
	conds := []string{
		"!empty(OPSYS:MNetBSD)", "empty(OPSYS:MNetBSD)", "${OPSYS:MNetBSD}", "${OPSYS} == NetBSD", "!empty(MACHINE_ARCH:Mx86_64)",
		"defined(FOO) && !empty(FOO)", "!empty(PKG_OPTIONS:Mfoo)", "${PKGSRC_COMPILER} == gcc", "!empty(USE_LANGUAGES:Mc++)",
		"${OPSYS:M*BSD} != \"\"", "!empty(FOO:M[yY][eE][sS])", "defined(BAR_BAZ)", "${X:U} == yes", "exists(/usr/include/x.h)",
		"${MACHINE_ARCH:Mi386} || ${MACHINE_ARCH:Mx86_64}",
	}
	ind := Pick(r, []string{"", " ", "  ", "\t", "    "})
	ind2 := Pick(r, []string{"", " ", "  ", "\t"})
	ls := []string{"." + ind + "if " + Pick(r, conds)}
	ls = append(ls, genAssign(r))
	if r.Chance(30) {
		ls = append(ls, "."+ind2+"elif "+Pick(r, conds), genAssign(r))
	}
	if r.Chance(30) {
		ls = append(ls, "."+ind+"else", genAssign(r))
	}
	if r.Chance(25) { // nested
		ls = append(ls, "."+ind2+"if "+Pick(r, conds), genAssign(r), "."+ind+"endif")
		g.feat("cond.nested")
	}
	ls = append(ls, "."+ind2+"endif"+Pick(r, []string{"", " # comment", " # OPSYS"}))
	g.feat("cond")
	return ls
}

var genShellLines = []string{
	"${ECHO} hello;", "${ECHO} hello", "cd ${WRKSRC} && ${MAKE} all", "for f in a b c; do echo $$f; done",
	"if [ -f foo ]; then ${RM} -f foo; fi", "${INSTALL_DATA} ${WRKSRC}/doc.txt ${DESTDIR}${PREFIX}/share/doc/", "@${ECHO} 'quoted $$x'",
	"${SED} -e 's,@PREFIX@,${PREFIX},g' < in > out", "case $$x in a) echo a;; *) echo other;; esac;", "-${RM} -f \"$$file\"", "${RUN} cd ${WRKSRC}; ls",
	"echo `date`", "echo $$(date)", "echo ${FOO:Q}", "(cd dir && tar cf - .) | (cd ${DESTDIR} && tar xf -)", "  ${ECHO} spaces-indented",
}

func genTarget(r *Rng, g *GenTree) []string {
	t := Pick(r, []string{"do-install", "post-install", "pre-configure", "do-build", "post-extract"})
	ls := []string{t + ":"}
	for i := 0; i < 1+r.Intn(3); i++ {
		ls = append(ls, "\t"+Pick(r, genShellLines))
	}
	g.feat("target")
	return ls
}

func genSubst(r *Rng, g *GenTree) []string {
	c := Pick(r, []string{"fix", "paths", "prefix"})
	ls := []string{"SUBST_CLASSES+=\t" + c, "SUBST_STAGE." + c + "=\tpre-configure", "SUBST_FILES." + c + "=\tMakefile"}
	if r.Chance(50) {
		ls = append(ls, "SUBST_SED."+c+"=\t-e 's,@PREFIX@,${PREFIX},g'")
		if r.Chance(60) {
			ls = append(ls, "SUBST_SED."+c+"=\t-e s,a,b,")
			g.feat("subst.second-assign")
		}
	} else {
		ls = append(ls, "SUBST_SED."+c+"=\t-e s,@PREFIX@,${PREFIX},g")
		g.feat("subst.sed-vars")
	}
	g.feat("subst")
	return ls
}

func hostileString(r *Rng) string {
	pool := []string{"\x1b[31mRED\x1b[0m", "\x00", "\r", "\xff\xfe", "\xc3", "\xe2\x82", "caf\xc3\xa9", "\x07bell", "\x7f", "\xef\xbf\xbd", "\xf0\x9f\x98\x80", "\x1b]0;title\x07", "\t\t", strings.Repeat("x", 300), "\\", "$", "${", "${A:", "#", "'", "\"", "`", "\x0b", "\x0c"}
	n := 1 + r.Intn(3)
	var sb strings.Builder
	for i := 0; i < n; i++ {
		sb.WriteString(Pick(r, pool))
	}
	return sb.String()
}

// genMakefileBody returns the lines between the header block and the final include.
func genMakefileBody(r *Rng, g *GenTree, o GenOpts) []string {
	d := o.Density
	if d == 0 {
		d = 35
	}
	var ls []string
	add := func(block []string) {
		if len(ls) > 0 && !r.Chance(8) { // sometimes forget the empty line between paragraphs
			ls = append(ls, "")
		}
		ls = append(ls, block...)
	}
	if r.Chance(d) {
		add([]string{".include \"../../mk/bsd.prefs.mk\""})
		g.feat("prefs.include")
	}
	for i := 0; i < 1+r.Intn(3); i++ {
		if r.Chance(d + 20) {
			add(genParagraph(r, g))
		}
	}
	if r.Chance(d) {
		add(genCond(r, g))
	}
	if r.Chance(d) {
		add(genSubst(r, g))
	}
	if r.Chance(d) {
		add([]string{"WRKSRC=\t${WRKDIR}/" + Pick(r, []string{"${DISTNAME}", "${PKGNAME_NOREV}", "src"})})
		g.feat("wrksrc")
	}
	if r.Chance(d) {
		add([]string{"CONFIGURE_ARGS+=\t--with-x=$(PREFIX) --libdir=${LOCALBASE}/lib"})
		g.feat("parens+localbase")
	}
	if r.Chance(d) {
		add([]string{"USE_TOOLS+=\tgmake perl:run", "USE_LANGUAGES=\tc c++"})
		g.feat("tools")
	}
	if r.Chance(d / 2) {
		add([]string{"FOO=\tfirst", "FOO=\tsecond", "BAR_BAZ?=\tdefault", "BAR_BAZ?=\tdefault"})
		g.feat("redundant")
	}
	if r.Chance(d) {
		add([]string{"TRAILING=\tvalue" + Pick(r, []string{" ", "\t", "  \t"})})
		g.feat("trailing-ws")
	}
	if r.Chance(d) {
		add(genTarget(r, g))
	}
	if o.Rich {
		add([]string{"PKG_OPTIONS_VAR=\tPKG_OPTIONS.pkg", "PKG_SUPPORTED_OPTIONS=\tfoo bar baz qux", "PKG_SUGGESTED_OPTIONS=\tfoo"})
		add([]string{"PLIST_VARS+=\tfoo bar baz", "PLIST.foo=\tyes", "PLIST.baz=\tyes"})
		add([]string{"USE_TOOLS+=\tawk sed grep tar gzip bison flex pkg-config msgfmt", "TOOLS_CREATE+=\tmytool"})
		add([]string{"SUBST_CLASSES+=\ta b c d", "SUBST_STAGE.a=\tpre-configure", "SUBST_FILES.b=\tx", "SUBST_SED.c=\t-e s,x,y,", "SUBST_VARS.d=\tPREFIX"})
		for i := 0; i < 6; i++ {
			add([]string{fmt.Sprintf("UNUSED_VAR_%d=\t${UNDEFINED_VAR_%d} ${OTHER_UNDEF_%d}", i, i, 9-i)})
		}
		g.feat("rich")
	}
	if o.Hostile {
		for i := 0; i < 1+r.Intn(3); i++ {
			switch r.Intn(5) {
			case 0:
				add([]string{"HOSTILE_" + fmt.Sprint(i) + "=\t" + hostileString(r)})
			case 1:
				add([]string{"# comment " + hostileString(r)})
			case 2:
				add([]string{hostileString(r)})
			case 3:
				add([]string{".if " + hostileString(r), ".endif"})
			case 4:
				add([]string{"do-hostile:", "\t" + hostileString(r)})
			}
		}
		g.feat("hostile.makefile")
	}
	return ls
}

func patchBody(r *Rng, g *GenTree, o GenOpts) string {
	tagLine := "$" + "NetBSD: patch-aa,v 1.1 2020/01/01 00:00:00 user Exp $"
	var ls []string
	ls = append(ls, tagLine, "", "Description of the patch.", "")
	ls = append(ls, "--- a/file.c", "+++ b/file.c", "@@ -1,3 +1,3 @@", " context", "-old line", "+new line", " context")
	if r.Chance(20) {
		ls = append(ls, "+$"+"NetBSD$ in the middle")
		g.feat("patch.tag-in-body")
	}
	s := strings.Join(ls, "\n")
	switch {
	case r.Chance(10):
		g.feat("patch.no-final-nl")
	default:
		s += "\n"
	}
	if o.Hostile && r.Chance(40) {
		s += "+" + hostileString(r) + "\n"
	}
	return s
}

func netbsdFilteredSha1(content string) string {
	h := sha1.New()
	for _, l := range strings.SplitAfter(content, "\n") {
		if !strings.Contains(l, "$"+"NetBSD") {
			h.Write([]byte(l))
		}
	}
	return fmt.Sprintf("%x", h.Sum(nil))
}

func (g *GenTree) genPackage(r *Rng, dir string, o GenOpts) {
	d := o.Density
	if d == 0 {
		d = 35
	}
	name := filepath.Base(dir)
	hdr := []string{cvsID, ""}
	if r.Chance(d / 3) {
		hdr = []string{""} // missing CVS id
		g.feat("cvsid.missing")
	} else if r.Chance(d / 3) {
		hdr = []string{cvsID} // missing empty line after the id
		g.feat("emptyline.missing")
	}
	home := "# none"
	if r.Chance(d) {
		home = Pick(r, []string{"http://www.gnu.org/software/hello/", "http://www.netbsd.org/", "https://example.org/", "http://sourceforge.net/projects/x/", "ftp://ftp.example.org/pub/"})
		g.feat("homepage")
	}
	cat := filepath.Base(filepath.Dir(dir))
	cats := cat
	if r.Chance(d / 2) {
		cats = "devel " + cat
		g.feat("categories.primary")
	}
	sp := func() string {
		if r.Chance(d / 2) {
			g.feat("align.header")
			return Pick(r, genBlanks)
		}
		return "\t"
	}
	mk := append([]string{}, hdr...)
	mk = append(mk, "DISTNAME="+sp()+name+"-1.0", "CATEGORIES="+sp()+cats, "MASTER_SITES="+sp()+"# none", "",
		"MAINTAINER="+sp()+"pkgsrc-users@NetBSD.org", "HOMEPAGE="+sp()+home, "COMMENT="+sp()+"Dummy package", "LICENSE="+sp()+Pick(r, []string{"2-clause-bsd", "gnu-gpl-v2", "2-clause-bsd AND gnu-gpl-v2"}), "")
	body := genMakefileBody(r, g, o)
	if len(body) > 0 {
		mk = append(mk, body...)
		mk = append(mk, "")
	}
	mk = append(mk, ".include \"../../mk/bsd.pkg.mk\"")
	text := strings.Join(mk, "\n") + "\n"
	if r.Chance(4) {
		text = strings.TrimSuffix(text, "\n")
		g.feat("makefile.no-final-nl")
	}
	g.put(dir+"/Makefile", text)
	g.put(dir+"/DESCR", "Package description\n")

	// PLIST
	pl := []string{"@comment $" + "NetBSD$"}
	if r.Chance(d / 3) {
		pl = nil
		g.feat("plist.cvsid.missing")
	}
	files := []string{"bin/program", "bin/another", "lib/libfoo.so", "man/man1/program.1", "share/doc/pkg/README", "share/pkg/data.txt", "include/foo.h"}
	n := 1 + r.Intn(len(files))
	chosen := append([]string{}, files[:n]...)
	sort.Strings(chosen)
	if r.Chance(d) && n > 1 {
		i := r.Intn(n - 1)
		chosen[i], chosen[i+1] = chosen[i+1], chosen[i]
		g.feat("plist.unsorted")
	}
	if r.Chance(d / 2) {
		chosen = append(chosen, chosen[r.Intn(len(chosen))])
		g.feat("plist.duplicate")
	}
	if r.Chance(d / 2) {
		chosen = append(chosen, "man/man1/zz.1.gz")
		g.feat("plist.gz")
	}
	if r.Chance(d / 3) {
		chosen = append(chosen, "")
		g.feat("plist.emptyline")
	}
	if r.Chance(d / 3) {
		chosen = append(chosen, "${PKGMANDIR}/man3/x.3")
		g.feat("plist.pkgmandir")
	}
	if r.Chance(d / 3) {
		chosen = append(chosen, "${PLIST.foo}bin/cond-program", "@pkgdir share/emptydir")
		g.feat("plist.cond")
	}
	if o.Hostile && r.Chance(50) {
		chosen = append(chosen, "bin/"+hostileString(r))
		g.feat("hostile.plist")
	}
	pl = append(pl, chosen...)
	g.put(dir+"/PLIST", strings.Join(pl, "\n")+"\n")

	// distinfo + patches
	di := []string{"$" + "NetBSD$", "", "BLAKE2s (" + name + "-1.0.tar.gz) = 1234", "SHA512 (" + name + "-1.0.tar.gz) = 1234", "Size (" + name + "-1.0.tar.gz) = 1234 bytes"}
	if r.Chance(d + 10) {
		np := 1 + r.Intn(3)
		for i := 0; i < np; i++ {
			pn := fmt.Sprintf("patch-a%c", 'a'+i)
			body := patchBody(r, g, o)
			g.put(dir+"/patches/"+pn, body)
			sum := netbsdFilteredSha1(body)
			switch {
			case r.Chance(25):
				sum = strings.Repeat("0", 40)
				g.feat("distinfo.wrong-sha1")
			case r.Chance(10):
				sum = netbsdFilteredSha1(body + "stale\n")
				g.feat("distinfo.stale-sha1")
			}
			di = append(di, "SHA1 ("+pn+") = "+sum)
		}
		g.feat("patches")
	}
	g.put(dir+"/distinfo", strings.Join(di, "\n")+"\n")

	if r.Chance(d / 2) {
		alt := []string{"bin/prog @PREFIX@/bin/prog-1.0"}
		if r.Chance(50) {
			alt = append(alt, "bin/other bin/other-1.0")
			g.feat("alternatives.relative")
		}
		g.put(dir+"/ALTERNATIVES", strings.Join(alt, "\n")+"\n")
		g.feat("alternatives")
	}
	if r.Chance(d / 2) {
		g.put(dir+"/buildlink3.mk", lines(cvsID, "", "BUILDLINK_TREE+=\t"+name, "", ".if !defined("+strings.ToUpper(name)+"_BUILDLINK3_MK)", strings.ToUpper(name)+"_BUILDLINK3_MK:=", "",
			"BUILDLINK_API_DEPENDS."+name+"+=\t"+name+">=1.0", "BUILDLINK_PKGSRCDIR."+name+"?=\t../../"+dir, ".endif # "+strings.ToUpper(name)+"_BUILDLINK3_MK", "", "BUILDLINK_TREE+=\t-"+name))
		g.feat("buildlink3")
	}
	if r.Chance(d / 2) {
		g.put(dir+"/options.mk", lines(cvsID, "", "PKG_OPTIONS_VAR=\tPKG_OPTIONS."+name, "PKG_SUPPORTED_OPTIONS=\tfoo bar", "", ".include \"../../mk/bsd.options.mk\"", "",
			".if !empty(PKG_OPTIONS:Mfoo)", "CONFIGURE_ARGS+=\t--enable-foo", ".endif"))
		g.feat("options.mk")
	}
	if r.Chance(d / 2) {
		// an included *.mk shared between packages
		g.put(dir+"/Makefile.common", lines(cvsID, "", "# used by "+dir+"/Makefile", "", "COMMON_VAR= value", "OTHER=\tx"))
		g.feat("makefile.common")
	}
	g.Pkgs = append(g.Pkgs, dir)
}

func (g *GenTree) put(rel, content string) {
	g.Write(rel, content)
	g.Files = append(g.Files, rel)
}

// GenerateTree writes a generated tree below root.
func GenerateTree(r *Rng, root string, o GenOpts) *GenTree {
	g := &GenTree{Tree: NewBaseTree(root), Features: map[string]int{}}
	g.Write("mk/bsd.options.mk", cvsID+"\n")
	if o.Packages < 1 {
		o.Packages = 1
	}
	os.RemoveAll(g.Path("cat/pkg"))
	var subdirs []string
	for i := 0; i < o.Packages; i++ {
		d := fmt.Sprintf("cat/p%d", i)
		g.genPackage(r, d, o)
		subdirs = append(subdirs, fmt.Sprintf("p%d", i))
	}
	if r.Chance(30) && len(subdirs) > 1 {
		subdirs[0], subdirs[1] = subdirs[1], subdirs[0]
		g.feat("category.unsorted")
	}
	if r.Chance(20) {
		subdirs = subdirs[:len(subdirs)-1]
		g.feat("category.missing-pkg")
	}
	cm := []string{cvsID, "", "COMMENT=\tComment for the category", ""}
	for _, s := range subdirs {
		cm = append(cm, "SUBDIR+=\t"+s)
	}
	cm = append(cm, "", ".include \"../mk/misc/category.mk\"")
	g.put("cat/Makefile", strings.Join(cm, "\n")+"\n")
	g.put("Makefile", lines(cvsID, "", "SUBDIR+=\tcat", ""))
	return g
}

var reAutofixKind = regexp.MustCompile(`"(?:[^"\\]|\\.)*"|\d+`)

// AutofixKind abstracts an AUTOFIX/diagnostic message to its kind (quoted strings and numbers removed).
func MsgKind(msg string) string { return reAutofixKind.ReplaceAllString(msg, "_") }
