package main

// C08, whole-run layer: presentation options on diagnostics whose file is reached through an include
// from another directory, with the target spelled in different ways (relative, "./", through "..",
// absolute, "." from inside the package). The file of such a diagnostic goes through the path
// normalisation of the logger; a presentation option must not change it.

import (
	"fmt"
	"os"
	"path/filepath"
	"strings"
	"time"
)

func c08WritePathsTree(root string) *Tree {
	t := NewBaseTree(root)
	t.WritePackage("cat/pkg", []string{
		"BAR = baz",
		".include \"../../cat/dep/Makefile.common\"",
		".include \"../dep/../../cat/dep/module.mk\"",
		".include \"../../devel/lib/../lib/version.mk\"",
	})
	t.WritePackage("cat/dep", []string{"FOO = bar"})
	t.Write("cat/dep/Makefile.common", lines(cvsID, "", "# used by cat/pkg/Makefile", "", "COMMON_VAR = value", "CFLAGS+= -O2 ${UNDEFINED_COMMON}", ".include \"../../devel/lib/lib.mk\""))
	t.Write("cat/dep/module.mk", lines(cvsID, "", "MODULE_VAR =\tvalue", "USE_LANGUAGES=\tc c++ fortran99"))
	t.Write("devel/lib/lib.mk", lines(cvsID, "", "LIB_VAR =\tvalue", "CONFIGURE_ARGS+=\t--prefix=/usr/pkg"))
	t.Write("devel/lib/version.mk", lines(cvsID, "", "VERSION_VAR = 1", "PKGNAME=\t${DISTNAME}"))
	t.Write("devel/lib/Makefile", lines(cvsID, "", "COMMENT=\tnot a package"))
	t.Write("devel/Makefile", lines(cvsID, "", "COMMENT=\tComment for the category", "", "SUBDIR+=\tlib", "", ".include \"../mk/misc/category.mk\""))
	t.Write("cat/Makefile", lines(cvsID, "", "COMMENT=\tComment for the category", "", "SUBDIR+=\tdep", "SUBDIR+=\tpkg", "", ".include \"../mk/misc/category.mk\""))
	return t
}

type c08PathCase struct {
	Cwd    string   // relative to the root
	Target []string // "@ROOT@" is replaced by the absolute root
}

var c08PathCases = []c08PathCase{
	{".", []string{"cat/pkg"}},
	{".", []string{"./cat/pkg"}},
	{".", []string{"cat/../cat/pkg"}},
	{".", []string{"@ROOT@/cat/pkg"}},
	{".", []string{"@ROOT@/cat/../cat/pkg/"}},
	{"cat/pkg", []string{"."}},
	{"cat/pkg", nil},
	{"cat/pkg", []string{"../pkg"}},
	{"cat/pkg", []string{"../../cat/pkg/Makefile"}},
	{"cat", []string{"pkg"}},
	{"cat", []string{"-r", "."}},
	{"cat/dep", []string{"../pkg"}},
	{".", []string{"cat/dep/module.mk", "devel/lib/../lib/version.mk"}},
	{"devel/lib", []string{"../../cat/pkg", "./version.mk"}},
}

func c08PathsRun(ctx *Ctx, root string, c c08PathCase, opts []string) RunResult {
	args := append([]string{}, opts...)
	for _, t := range c.Target {
		args = append(args, strings.ReplaceAll(t, "@ROOT@", root))
	}
	return RunPkglint(ctx, filepath.Join(root, c.Cwd), 60*time.Second, args...)
}

func c08CheckPaths(ctx *Ctx, res *Result, dir string, only int) {
	root := filepath.Join(dir, "paths")
	if _, err := os.Stat(root); err != nil {
		c08WritePathsTree(root)
	}
	presOpts := [][]string{{"-g"}, {"-q"}, {"-s"}, {"-e"}, {"-gs"}, {"-g", "-e", "-q"}}
	bases := [][]string{{"-Wall"}, {"-Wall", "-Werror"}, {}}
	type job struct {
		c    c08PathCase
		base []string
		pres []string
		id   int
	}
	var jobs []job
	id := 0
	for _, c := range c08PathCases {
		for bi, base := range bases {
			for pi, pres := range presOpts {
				if bi > 0 && pi > 1 { // the other bases only with -g and -q
					continue
				}
				jobs = append(jobs, job{c, base, pres, id})
				id++
			}
		}
	}
	type outcome struct {
		d                 string
		nd, nIncludedFile int
	}
	outs := make([]outcome, len(jobs))
	parallelFor(len(jobs), func(i int) {
		j := jobs[i]
		if only >= 0 && j.id != only {
			return
		}
		rb := c08PathsRun(ctx, root, j.c, j.base)
		rp := c08PathsRun(ctx, root, j.c, append(append([]string{}, j.pres...), j.base...))
		gcc := false
		for _, p := range j.pres {
			gcc = gcc || strings.Contains(p, "g")
		}
		kb, kp := c08DiagSet(rb.Stdout, false), c08DiagSet(rp.Stdout, gcc)
		o := outcome{nd: len(kb)}
		for _, d := range ParseDiags(rb.Stdout) {
			if strings.Contains(d.Path, "dep/") || strings.Contains(d.Path, "lib/") {
				o.nIncludedFile++
			}
		}
		switch {
		case rb.TimedOut || rp.TimedOut:
			o.d = "timeout"
		case rb.Exit != rp.Exit:
			o.d = fmt.Sprintf("exit status %d without, %d with %v", rb.Exit, rp.Exit, j.pres)
		case strings.Join(kb, "\n") != strings.Join(kp, "\n"):
			if m, ok := c08Subset(kb, kp); !ok {
				o.d = "diagnostic lost or changed with " + strings.Join(j.pres, " ") + ": " + m
			} else if m, ok := c08Subset(kp, kb); !ok {
				o.d = "diagnostic added or changed with " + strings.Join(j.pres, " ") + ": " + m
			}
		}
		outs[i] = o
	})
	for i, j := range jobs {
		if only >= 0 && j.id != only {
			continue
		}
		o := outs[i]
		res.Count("run.paths", 1)
		res.Count("run.paths.diagnostics", o.nd)
		if o.nIncludedFile > 0 {
			res.Count("run.paths.with-diagnostics-in-included-files", 1)
		}
		res.Evaluations += 2
		res.TracesValidated += 2
		if o.d != "" {
			res.AddViolation(Violation{
				Key:        "C08/run/presentation/paths",
				What:       fmt.Sprintf("presentation options change what is found (cwd %q, targets %q, base %q): %s", j.c.Cwd, j.c.Target, j.base, o.d),
				FoundInput: true, Size: 10 + len(j.c.Target) + len(j.base) + len(j.pres),
				Replay: map[string]any{"kind": "runpaths", "id": j.id, "cwd": j.c.Cwd, "targets": j.c.Target, "base": j.base, "pres": j.pres},
			})
		}
	}
	if only < 0 {
		c08Floor(res, "run.paths.with-diagnostics-in-included-files", 60)
	}
}
