package main

// C01 development aids (not part of the check).

import (
	"fmt"
	"sort"
	"strings"
	"time"
)

// `vharness run tool-c01-huge ...`: every (file, prefix, unit) combination of the huge-line
// attack as a single 100 kB line in an otherwise clean package; prints the slow ones.
func init() {
	register("tool-c01-huge", func(ctx *Ctx) *Result {
		defer c01ScratchCleanup()
		type job struct {
			file, prefix, unit string
			cpu                time.Duration
			out                bool
			size               int
		}
		var jobs []*job
		for _, f := range c01HugeFiles {
			for _, p := range c01HugePrefixes {
				for _, u := range c01HugeUnits {
					jobs = append(jobs, &job{file: f, prefix: p, unit: u})
				}
			}
		}
		parallelFor(len(jobs), func(i int) {
			j := jobs[i]
			pr := c01Probe{name: "huge", path: "cat/pkg/" + j.file, gen: func(n int) string { return j.prefix + strings.Repeat(j.unit, n/len(j.unit)) + "\n" }}
			if j.file == "Makefile" || j.file == "options.mk" {
				pr.path = ""
			}
			c := c01ProbeCase(ctx, pr, 100000)
			if j.file == "options.mk" {
				c.Spec.Put("cat/pkg/options.mk", 'f', cvsID+"\n\n"+pr.gen(100000))
			}
			r := c01RunCaseOnce(ctx, c, 20*time.Minute, 40)
			j.cpu, j.out, j.size = r.CPU, r.TimedOut, c.Spec.Size()
			if v := c01Judge(r, j.size); v.Bad() && v.Kind != "time" && v.Kind != "hang" {
				fmt.Printf("BAD %s %s: %q %q %q\n", v.Kind, v.Site, j.file, j.prefix, j.unit)
			}
		})
		sort.Slice(jobs, func(a, b int) bool { return jobs[a].cpu > jobs[b].cpu })
		for _, j := range jobs {
			if j.cpu > 2*time.Second || j.out {
				fmt.Printf("%7.2fs out=%v limit=%.1fs  file=%q prefix=%q unit=%q\n", j.cpu.Seconds(), j.out, c01CPULimit(j.size).Seconds(), j.file, j.prefix, j.unit)
			}
		}
		return &Result{}
	}, nil)
}

// development aid: only the Scope/resolveExprs unit correspondence
func init() {
	register("tool-c01-unit2", func(ctx *Ctx) *Result {
		res := &Result{}
		defer c01ScratchCleanup()
		cross := c01UnitScope(ctx, res)
		if res.Broken == "" {
			cross = append(cross, c01UnitDefineAll(ctx, res)...)
		}
		if res.Broken == "" {
			cross = append(cross, c01UnitResolve(ctx, res)...)
		}
		if res.Broken == "" {
			c01CrossCheckExtraction(ctx, res, cross)
		}
		c01ScopeFloors(res)
		return res
	}, nil)
}

func init() {
	register("tool-c01-dict", func(ctx *Ctx) *Result {
		res := &Result{}
		defer c01ScratchCleanup()
		c01RunDict(ctx, res)
		return res
	}, nil)
}

func init() {
	register("tool-c01-kinds", func(ctx *Ctx) *Result {
		res := &Result{}
		defer c01ScratchCleanup()
		c01RunKinds(ctx, res)
		return res
	}, nil)
}
