package main

// C13: Intersect applied to operands that are themselves products or Number()
// (theorem intersect_exact is stated for ALL well-formed automata, not only for the
// chains that Compile builds; this layer ties that generality to the implementation).

import (
	"fmt"
	"strings"

	"github.com/rillig/pkglint/v23/makepat"
)

type c13Tree struct {
	leaf string // pattern text of a Compile leaf
	num  bool   // Number() leaf
	l, r *c13Tree
}

func (t *c13Tree) tokens(sb *strings.Builder) {
	switch {
	case t.l != nil:
		sb.WriteString("I ")
		t.l.tokens(sb)
		t.r.tokens(sb)
	case t.num:
		sb.WriteString("N ")
	default:
		sb.WriteString("L" + hx0(t.leaf) + " ")
	}
}

// hx0: hex without the "-" convention (the token is prefixed by L, so the empty pattern is just "L")
func hx0(s string) string {
	if s == "" {
		return ""
	}
	return hx(s)
}

func (t *c13Tree) String() string {
	switch {
	case t.l != nil:
		return "Intersect(" + t.l.String() + ", " + t.r.String() + ")"
	case t.num:
		return "Number()"
	}
	return fmt.Sprintf("Compile(%q)", t.leaf)
}

func (t *c13Tree) size() int {
	switch {
	case t.l != nil:
		return 1 + t.l.size() + t.r.size()
	case t.num:
		return 1
	}
	return 1 + len(t.leaf)
}

func (t *c13Tree) replay() any {
	switch {
	case t.l != nil:
		return []any{t.l.replay(), t.r.replay()}
	case t.num:
		return "N"
	}
	return "L" + hx0(t.leaf)
}

func c13TreeFromReplay(x any) *c13Tree {
	switch v := x.(type) {
	case string:
		if v == "N" {
			return &c13Tree{num: true}
		}
		if strings.HasPrefix(v, "L") {
			if v == "L" {
				return &c13Tree{}
			}
			return &c13Tree{leaf: unhx(v[1:])}
		}
	case []any:
		if len(v) == 2 {
			l, r := c13TreeFromReplay(v[0]), c13TreeFromReplay(v[1])
			if l != nil && r != nil {
				return &c13Tree{l: l, r: r}
			}
		}
	}
	return nil
}

// build evaluates the tree on the implementation: status K (built), E (a leaf does not compile), P (panic)
func (t *c13Tree) build() (*makepat.Pattern, byte) {
	switch {
	case t.l != nil:
		a, sa := t.l.build()
		if sa != 'K' {
			return nil, sa
		}
		b, sb := t.r.build()
		if sb != 'K' {
			return nil, sb
		}
		return c13Intersect(a, b)
	case t.num:
		return makepat.Number(), 'K'
	}
	return c13Compile(t.leaf)
}

type c13TreeCase struct {
	t  *c13Tree
	ws []string
}

func c13CheckTrees(ctx *Ctx, res *Result, cases []c13TreeCase, kind string) {
	reqs := make([]string, len(cases))
	status := make([]byte, len(cases))
	bits := make([]string, len(cases))
	can := make([]byte, len(cases))
	parallelFor(16, func(w int) {
		for i := w; i < len(cases); i += 16 {
			c := &cases[i]
			var sb strings.Builder
			sb.WriteString("ixt ")
			c.t.tokens(&sb)
			sb.WriteString("-- " + hxs(c.ws))
			reqs[i] = sb.String()
			pat, st := c.t.build()
			status[i] = st
			if st == 'K' {
				bits[i] = c13Bits(pat, c.ws)
				can[i] = c13CanMatch(pat)
			}
		}
	})
	ans, err := runOracle(ctx, "c13", reqs)
	if err != nil {
		res.Broken = err.Error()
		return
	}
	for i := range cases {
		c := &cases[i]
		f := strings.Fields(ans[i])
		if len(f) < 5 || len(f[0]) != 1 || len(f[1]) != 1 {
			res.Broken = "oracle answer " + q(ans[i]) + " to " + q(reqs[i])
			return
		}
		mstatus, mcan, mbits, sbits := f[0][0], f[1][0], f[3], f[4]
		tricky := len(f) > 5 && f[5] == "1"
		res.Evaluations++
		rep := func(extra map[string]any) map[string]any {
			m := map[string]any{"kind": "tree", "tree": c.t.replay(), "expr": c.t.String()}
			for k, v := range extra {
				m[k] = v
			}
			return m
		}
		if status[i] != mstatus {
			res.AddViolation(Violation{
				Key:        "C13/correspondence/intersect-tree-status-" + kind,
				What:       fmt.Sprintf("%s: implementation %c, model %c", c.t, status[i], mstatus),
				FoundInput: status[i] == 'P', Size: c.t.size(),
				Replay: rep(map[string]any{"s": []string{"-"}, "impl": string(status[i]), "model": string(mstatus),
					"broken": "correspondence makepat.Intersect = Model.Makepat.intersect on operands that are products"}),
			})
			continue
		}
		if status[i] != 'K' {
			res.Count("trees_not_built_"+kind, 1)
			continue
		}
		if len(mbits) != len(c.ws) || len(sbits) != len(c.ws) {
			res.Broken = fmt.Sprintf("oracle answered %d/%d bits for %d words", len(mbits), len(sbits), len(c.ws))
			return
		}
		witness, haveWitness := "", false
		for j, w := range c.ws {
			ib := bits[i][j]
			if sbits[j] == '1' {
				res.Count("tree_matches_true", 1)
				if !haveWitness {
					witness, haveWitness = w, true
				}
			}
			if ib != sbits[j] && sbits[j] != 'N' {
				key := c13KeyIsect
				if tricky {
					key = c13KeyTricky
				}
				res.AddViolation(Violation{
					Key:        key,
					What:       fmt.Sprintf("%s.Match(%q) = %c, but the conjunction of Str_Match / C99 over the leaves is %c", c.t, w, ib, sbits[j]),
					FoundInput: true, Size: c.t.size() + len(w),
					Replay:     rep(map[string]any{"s": []string{hx(w)}, "impl": string(ib), "all_leaves_match": string(sbits[j])}),
				})
			}
			if ib != mbits[j] {
				res.AddViolation(Violation{
					Key:        "C13/correspondence/intersect-tree-match-" + kind,
					What:       fmt.Sprintf("%s.Match(%q) = %c, model %c", c.t, w, ib, mbits[j]),
					FoundInput: false, Size: c.t.size() + len(w),
					Replay: rep(map[string]any{"s": []string{hx(w)}, "impl": string(ib), "model": string(mbits[j]),
						"broken": "correspondence Intersect(..).Match = Model.Makepat.matchp (intersect ..) on operands that are products"}),
				})
			}
		}
		ckey := c13KeyCanMatch
		if tricky {
			ckey = c13KeyTricky
		}
		if haveWitness && can[i] != '1' {
			res.AddViolation(Violation{
				Key:        ckey,
				What:       fmt.Sprintf("%s.CanMatch() = %c although every leaf matches %q", c.t, can[i], witness),
				FoundInput: true, Size: c.t.size() + len(witness),
				Replay:     rep(map[string]any{"s": []string{hx(witness)}, "impl_canmatch": string(can[i])}),
			})
		}
		if can[i] != mcan {
			res.AddViolation(Violation{
				Key:        "C13/correspondence/canmatch-tree-" + kind,
				What:       fmt.Sprintf("%s.CanMatch() = %c, model %c", c.t, can[i], mcan),
				FoundInput: false, Size: c.t.size(),
				Replay: rep(map[string]any{"s": []string{"-"}, "impl": string(can[i]), "model": string(mcan),
					"broken": "correspondence Pattern.CanMatch = Model.Makepat.can_match on products of products"}),
			})
		}
		if mcan == '1' {
			res.Count("tree_canmatch_true", 1)
		} else {
			res.Count("tree_canmatch_false", 1)
		}
		res.Evaluations += len(c.ws)
		res.TracesValidated += len(c.ws) + 1
		res.DistinctNontrivial += len(c.ws)
	}
	res.Count("trees_"+kind, len(cases))
}

// c13ExhaustiveTrees: all ordered triples of the given leaves, in both association orders
func c13ExhaustiveTrees(leaves []string, ws []string) []c13TreeCase {
	var out []c13TreeCase
	lf := make([]*c13Tree, len(leaves))
	for i, p := range leaves {
		lf[i] = &c13Tree{leaf: p}
	}
	for _, a := range lf {
		for _, b := range lf {
			ab := &c13Tree{l: a, r: b}
			for _, c := range lf {
				out = append(out, c13TreeCase{t: &c13Tree{l: ab, r: c}, ws: ws})
				out = append(out, c13TreeCase{t: &c13Tree{l: c, r: ab}, ws: ws})
			}
		}
	}
	return out
}

func c13RandomTree(rng *Rng, leaves int, pool []string) *c13Tree {
	if leaves <= 1 {
		if rng.Chance(8) {
			return &c13Tree{num: true}
		}
		if rng.Chance(70) {
			return &c13Tree{leaf: pool[rng.Intn(len(pool))]}
		}
		for {
			c := c13RandomCase(rng)
			if _, st := c13Compile(c.p); st == 'K' {
				return &c13Tree{leaf: c.p}
			}
		}
	}
	k := 1 + rng.Intn(leaves-1)
	return &c13Tree{l: c13RandomTree(rng, k, pool), r: c13RandomTree(rng, leaves-k, pool)}
}

// words for a tree: words over the literal bytes of its leaves (short: exhaustive, longer: random),
// and, when a Number() leaf is present, number-like words
func c13TreeWords(rng *Rng, t *c13Tree) []string {
	var lits []byte
	hasNum := false
	var walk func(t *c13Tree)
	walk = func(t *c13Tree) {
		switch {
		case t.l != nil:
			walk(t.l)
			walk(t.r)
		case t.num:
			hasNum = true
		default:
			for i := 0; i < len(t.leaf); i++ {
				if strings.IndexByte("*?[]^-\\", t.leaf[i]) < 0 && strings.IndexByte(string(lits), t.leaf[i]) < 0 {
					lits = append(lits, t.leaf[i])
				}
			}
		}
	}
	walk(t)
	if len(lits) == 0 {
		lits = []byte("a")
	}
	if len(lits) > 3 {
		lits = lits[:3]
	}
	ws := c13Words(string(lits), 3)
	for i := 0; i < 24; i++ {
		n := 4 + rng.Intn(6)
		b := make([]byte, n)
		for j := range b {
			b[j] = lits[rng.Intn(len(lits))]
		}
		ws = append(ws, string(b))
	}
	if hasNum {
		for i := 0; i < 16; i++ {
			ws = append(ws, c13RandomNumberish(rng))
		}
	}
	return ws
}

// c13SweepTriples: the rare-shape search. A defect of Intersect that only shows when an operand is itself a
// product with a particular shape (a backward edge, an unreachable pair, ...) has a density of 1e-4 and less among
// triples of short patterns, far below what the oracle-backed layers can enumerate. This sweep therefore evaluates the
// clause "Intersect(Intersect(a,b),c) and Intersect(c,Intersect(a,b)) match w iff a, b and c match w" on the
// implementation alone (the leaves' Match is tied to Str_Match and to the model by the layers above), over all / a
// seeded 1/stride sample of the ordered triples of all patterns of <= 4 bytes over {a b *} and all words of <= 6 bytes
// over {a b}; every disagreeing triple is then handed to c13CheckTrees, which asks the model and the spec.
func c13SweepTriples(ctx *Ctx, res *Result, rng *Rng, stride int) {
	pool := c13Words("ab*", 4)[1:]
	ws := c13Words("ab", 6)
	nw := len(ws)
	type bv [2]uint64
	pats := make([]*makepat.Pattern, len(pool))
	lb := make([]bv, len(pool))
	bitsOf := func(p *makepat.Pattern) (v bv, ok bool) {
		defer func() {
			if recover() != nil {
				ok = false
			}
		}()
		for i, w := range ws {
			if p.Match(w) {
				v[i>>6] |= 1 << (uint(i) & 63)
			}
		}
		return v, true
	}
	for i, p := range pool {
		pat, st := c13Compile(p)
		if st != 'K' {
			res.AddViolation(Violation{Key: "C13/correspondence/sweep-leaf", What: fmt.Sprintf("Compile(%q) failed in the triple sweep", p), FoundInput: false, Size: len(p),
				Replay: map[string]any{"kind": "pattern", "p": hx(p), "s": []string{"-"}, "broken": "every pattern over {a b *} compiles"}})
			return
		}
		pats[i] = pat
		lb[i], _ = bitsOf(pat)
	}
	_ = nw
	off := rng.Intn(stride)
	type hit struct{ i, j, k int }
	hits := make([][]hit, 16)
	counts := make([]int, 16)
	parallelFor(16, func(w int) {
		for i := w; i < len(pool); i += 16 {
			for j := range pool {
				ab, st := c13Intersect(pats[i], pats[j])
				if st != 'K' {
					hits[w] = append(hits[w], hit{i, j, 0})
					continue
				}
				for k := (i*7 + j*3 + off) % stride; k < len(pool); k += stride {
					counts[w]++
					want := bv{lb[i][0] & lb[j][0] & lb[k][0], lb[i][1] & lb[j][1] & lb[k][1]}
					bad := false
					for _, order := range [2]bool{false, true} {
						var x *makepat.Pattern
						var sx byte
						if order {
							x, sx = c13Intersect(pats[k], ab)
						} else {
							x, sx = c13Intersect(ab, pats[k])
						}
						if sx != 'K' {
							bad = true
							break
						}
						got, ok := bitsOf(x)
						if !ok || got != want {
							bad = true
							break
						}
						if want != (bv{}) && c13CanMatch(x) != '1' {
							bad = true
							break
						}
					}
					if bad && len(hits[w]) < 50 {
						hits[w] = append(hits[w], hit{i, j, k})
					}
				}
			}
		}
	})
	total := 0
	var cases []c13TreeCase
	for w := range hits {
		total += counts[w]
		for _, h := range hits[w] {
			a, b, c := &c13Tree{leaf: pool[h.i]}, &c13Tree{leaf: pool[h.j]}, &c13Tree{leaf: pool[h.k]}
			ab := &c13Tree{l: a, r: b}
			cases = append(cases, c13TreeCase{t: &c13Tree{l: ab, r: c}, ws: ws}, c13TreeCase{t: &c13Tree{l: c, r: ab}, ws: ws})
		}
	}
	res.Count("sweep_triples", total)
	res.Count("sweep_disagreeing_triples", len(cases)/2)
	res.Evaluations += total * 2 * len(ws)
	if len(cases) > 0 {
		if len(cases) > 40 {
			cases = cases[:40]
		}
		c13CheckTrees(ctx, res, cases, "sweep")
	}
}

func c13RunTrees(ctx *Ctx, res *Result, rng *Rng) {
	// (a) all ordered triples of patterns of <= 2 bytes over {a b * ?}, both association orders,
	//     x all words of <= 4 bytes over {a b}
	alpha := "a*?" // quick: 12 patterns + the empty one, 4 394 trees; thorough: {a b * ?}, 18 522 trees
	if ctx.Tier == "thorough" {
		alpha = "ab*?"
	}
	small := c13Words(alpha, 2)[1:] // without the empty pattern
	small = append(small, "")
	c13CheckTrees(ctx, res, c13ExhaustiveTrees(small, c13Words("ab", 4)), "exhaustive")
	if res.Broken != "" {
		return
	}
	// (b) seeded random trees of 3-5 leaves; leaves mostly from all patterns of <= 4 bytes over {a b *}
	n := 1500
	if ctx.Tier == "thorough" {
		n = 120000
	}
	pool := c13Words("ab*", 4)[1:]
	cases := make([]c13TreeCase, n)
	for i := range cases {
		t := c13RandomTree(rng, 3+rng.Intn(3), pool)
		cases[i] = c13TreeCase{t: t, ws: c13TreeWords(rng, t)}
	}
	c13CheckTrees(ctx, res, cases, "random")
	if res.Broken != "" {
		return
	}
	// (c) the rare-shape sweep on the implementation, disagreements go to the model and the spec
	stride := 8
	if ctx.Tier == "thorough" {
		stride = 1
	}
	c13SweepTriples(ctx, res, rng, stride)
}
