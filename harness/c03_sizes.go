package main

// C03 size classes: replaced / replacement / inserted texts of 0 … 65536 bytes.
//
// The AUTOFIX line is the only account of a fix, so it has to carry the exact
// bytes whatever their length (the printed %q has no length limit).  The
// ordinary generators only produce texts of a few bytes; this file adds
//   U: "sized" fix scripts (a fixed share of the unit scripts): one operation
//      whose from / to / inserted text has exactly a boundary length, on a line
//      that is built around that text so that the replacement really happens;
//   W: helpers for gentree_c03.go (long trailing white-space, long indentation
//      in front of a value, long $(VAR) values) and the counters of AUTOFIX
//      lines with long texts in real runs;
// and the coverage floors of both.
//
// Cost: Model.Autofix.last_index and Spec.ApplyLog.replace_each are quadratic
// on a run of one repeated byte (every suffix of the run is a partial match):
// measured 0.3 s + 0.5 s (model + spec) for 4096 blanks, 5 s + 2.5 s for 16384,
// 69 s + 34 s for 65536.  On texts without long self-overlaps they are linear
// (65536 bytes: 0.46 s + 0.15 s).  So runs of one byte go up to 4096, the
// 65536 class always uses a varied text.

import (
	"fmt"
	"strings"
	"sync"

	pkglint "github.com/rillig/pkglint/v23"
)

var c03SizeClasses = []int{0, 1, 199, 200, 201, 255, 256, 1023, 1024, 4096, 65536}

// c03SizeBucket names the size class of a length (the boundary lengths exactly, ranges in between).
func c03SizeBucket(n int) string {
	prev := -1
	for _, c := range c03SizeClasses {
		if n == c {
			return fmt.Sprint(c)
		}
		if n < c {
			return fmt.Sprintf("%d-%d", prev+1, c-1)
		}
		prev = c
	}
	return ">65536"
}

const c03VariedAlphabet = "abcdefghijklmnopqrstuvwxyz0123456789/._-+,:ABCXYZ"

// c03LongText returns a text of exactly n bytes. shape: "blank", "tab", "x" (a run of one byte),
// "varied" (no long self-overlap), "quoted" (varied, with bytes that %q has to escape).
func c03LongText(r *Rng, n int, shape string) string {
	switch shape {
	case "blank":
		return strings.Repeat(" ", n)
	case "tab":
		return strings.Repeat("\t", n)
	case "x":
		return strings.Repeat("x", n)
	}
	b := make([]byte, n)
	for i := range b {
		b[i] = c03VariedAlphabet[r.Intn(len(c03VariedAlphabet))]
		if shape == "quoted" && i > 0 && i+1 < n && r.Chance(6) {
			b[i] = "\"\\'\x01\x7f"[r.Intn(5)]
		}
	}
	return string(b)
}

type c03Sized struct {
	K        int // running number of the sized script
	Class    int
	Kind     int
	Shape    string
	Long     string
	Plist    bool
	LongLine string // without terminator
	Pre      string
}

const c03SizedKinds = 6

// c03NewSized draws the k-th sized script. Class and kind rotate with k, so that every
// class × kind is reached whatever the seed; the 65536 class only in every 3rd (quick)
// or 12th (thorough) round, because one such case costs ≈ 0.6 s of oracle time.
func c03NewSized(r *Rng, k int, plist bool, tier string) *c03Sized {
	round := k / len(c03SizeClasses)
	s := &c03Sized{K: k, Class: c03SizeClasses[k%len(c03SizeClasses)], Kind: round % c03SizedKinds, Plist: plist}
	switch s.Class {
	case 65536:
		every := 3
		if tier == "thorough" {
			every = 12
		}
		if round%every != 0 {
			s.Class = Pick(r, []int{201, 256, 1024})
		} else {
			// no "to" of 65536 bytes (kind 1): see SkipMode
			s.Kind = []int{0, 4, 2, 4, 3, 5}[(round/every)%6]
		}
	case 4096:
		if round%2 != 0 {
			s.Class = Pick(r, []int{201, 256, 1024})
		} else {
			s.Kind = (round / 2) % c03SizedKinds
		}
	}
	switch {
	case s.Class > 4096:
		s.Shape = "varied"
	case s.Class == 4096:
		s.Shape = Pick(r, []string{"blank", "varied", "varied", "varied", "varied", "varied", "quoted"})
	default:
		s.Shape = Pick(r, []string{"blank", "blank", "blank", "tab", "x", "varied", "varied", "varied", "varied", "quoted"})
	}
	if plist && s.Shape == "quoted" {
		s.Shape = "varied"
	}
	s.Long = c03LongText(r, s.Class, s.Shape)
	// the line around the text: the neighbours differ from the bytes of a run
	pre := Pick(r, []string{"VAR=", "VAR=value", "# c:", "V+=-"})
	post := Pick(r, []string{"", "", "=tail", "#"})
	if plist {
		pre = Pick(r, []string{"bin/", "lib/=", "@comment_"})
		post = Pick(r, []string{"", "", ".so"})
	}
	if s.Shape == "x" {
		post = strings.TrimSuffix(post, "x")
	}
	s.Pre = pre
	switch s.Kind {
	case 1: // short marker -> long text
		s.LongLine = pre + "MARK" + post
	case 4: // insertion next to a short line
		s.LongLine = pre + "here" + post
	default:
		s.LongLine = pre + s.Long + post
	}
	return s
}

// SkipMode: a line of 65536 bytes that is still there at the end of the script costs more than
// a minute of oracle time (trim_nl of Extract/C03.v and ends_nl of Spec/ApplyLog.v go through
// Coq's quadratic List.rev). So scripts of the 65536 class that replace the long text run only
// in the modes that really replace it (-f, -F), and there is no script with a 65536-byte
// replacement text; inserted lines of 65536 bytes never enter Line.raw and run in all modes.
func (s *c03Sized) SkipMode(autofix, show bool) bool {
	return s.Class == 65536 && s.Kind != 4 && !autofix && !show
}

// Content appends the line of the sized operation to a short generated file.
func (s *c03Sized) Content(r *Rng, short string) string {
	ls := strings.SplitAfter(short, "\n")
	if len(ls) > 4 {
		ls = ls[:4]
	}
	c := strings.Join(ls, "")
	if c != "" && !strings.HasSuffix(c, "\n") {
		c += "\n"
	}
	c += s.LongLine
	if !r.Chance(12) {
		c += "\n"
	}
	return c
}

// Events places the sized transaction among ordinary events on the other lines.
// lines = the file as loaded; the sized line is (part of) the last logical line, which the
// ordinary events leave alone: a one-byte replacement inside a run of 4096 equal bytes has
// 4096 candidate results of 4096 bytes each in Spec.ApplyLog.replace_each.
func (s *c03Sized) Events(r *Rng, lines []pkglint.VerifC03Line, plist bool, mode uint32) []pkglint.VerifC03Event {
	if len(lines) == 0 {
		return nil
	}
	last := len(lines) - 1
	var evs []pkglint.VerifC03Event
	if last > 0 {
		for _, ev := range c03GenEvents(r, lines[:last], plist, mode) {
			if ev.Kind == "txn" && ev.Line >= last {
				continue
			}
			if ev.Kind == "sort" && s.Class > 4096 {
				ev.Kind = "save" // the sorter's spec (match_perm) calls the quadratic ends_nl on every line
			}
			evs = append(evs, ev)
		}
	}
	raws := lines[last].Raws
	ri := len(raws) - 1
	raw := ""
	if ri >= 0 {
		raw = raws[ri]
	}
	short := func() string { return Pick(r, []string{"", "x", "value", " ", "\t", "a b"}) }
	var op pkglint.VerifC03Op
	switch s.Kind {
	case 0:
		op = pkglint.VerifC03Op{Kind: "replaceafter", From: s.Long, To: short()}
	case 1:
		op = pkglint.VerifC03Op{Kind: "replaceafter", From: "MARK", To: s.Long}
	case 2:
		to := short()
		if r.Chance(40) {
			to = c03LongText(r, Pick(r, []int{201, 256, 1024}), "varied")
		}
		op = pkglint.VerifC03Op{Kind: "replaceat", RawIndex: ri, TextIndex: strings.Index(raw, s.Long), From: s.Long, To: to}
		if op.TextIndex < 0 || op.From == op.To {
			op = pkglint.VerifC03Op{Kind: "replaceafter", From: s.Long, To: to}
		}
	case 3:
		p := s.Pre[r.Intn(len(s.Pre)):]
		op = pkglint.VerifC03Op{Kind: "replaceafter", Prefix: p, From: s.Long, To: short()}
	case 4:
		op = pkglint.VerifC03Op{Kind: Pick(r, []string{"above", "below"}), From: s.Long}
	default:
		op = pkglint.VerifC03Op{Kind: "replaceafter", From: s.Long, To: c03LongText(r, Pick(r, []int{200, 201, 255, 1023, 4096}), "varied")}
	}
	txn := pkglint.VerifC03Event{Kind: "txn", Line: last, Diag: c03Diags[r.Intn(2)], Ops: []pkglint.VerifC03Op{op}}
	if r.Chance(30) && s.Class <= 4096 {
		switch r.Intn(3) {
		case 0:
			txn.Ops = append(txn.Ops, pkglint.VerifC03Op{Kind: "below", From: c03GenLine(r, plist)})
		case 1:
			txn.Ops = append(txn.Ops, pkglint.VerifC03Op{Kind: "above", From: c03GenLine(r, plist)})
		default:
			txn.Ops = append(txn.Ops, pkglint.VerifC03Op{Kind: "delete"})
		}
	}
	// before the final save / sort, if there is one
	pos := len(evs)
	if pos > 0 && (evs[pos-1].Kind == "save" || evs[pos-1].Kind == "sort") {
		pos = r.Intn(pos)
		for pos > 0 && evs[pos-1].Kind == "chmod" {
			pos--
		}
		if len(evs) > 0 && evs[0].Kind == "chmod" && pos == 0 {
			pos = 1
		}
	}
	out := append([]pkglint.VerifC03Event{}, evs[:pos]...)
	out = append(out, txn)
	if r.Chance(25) {
		out = append(out, pkglint.VerifC03Event{Kind: "save"})
	}
	out = append(out, evs[pos:]...)
	if !c03EndsWithSave(c03Case{Events: out}) && r.Chance(85) {
		out = append(out, pkglint.VerifC03Event{Kind: "save"})
	}
	return out
}

// c03CountSizes counts the logged actions of one case per size class of their texts.
func c03CountSizes(res *Result, prefix string, entries []logEntry) {
	for _, e := range entries {
		switch e.Kind {
		case 'R':
			res.Count(prefix+".size.replace.from="+c03SizeBucket(len(e.A)), 1)
			res.Count(prefix+".size.replace.to="+c03SizeBucket(len(e.B)), 1)
			if len(e.A) > 200 || len(e.B) > 200 {
				res.Count(prefix+".size.replace.over200", 1)
			}
		case 'A', 'B':
			res.Count(prefix+".size.insert="+c03SizeBucket(len(e.A)), 1)
			if len(e.A) > 200 {
				res.Count(prefix+".size.insert.over200", 1)
			}
		}
	}
}

// c03SizeFloorViolation reports a missed floor of the long-text classes. What is counted is
// what the program under test PRINTED (parsed AUTOFIX lines), so a miss is a fact about the
// program (it stopped logging long texts as such), not about the harness: a broken
// correspondence, not a broken check.  The generator's own share is checked separately
// (res.Broken) by the caller.
func c03SizeFloorViolation(res *Result, layer, key string, got, min int) {
	res.AddViolation(Violation{Key: "C03/coverage/" + layer + "-long-texts",
		What:       fmt.Sprintf("%s: the generated inputs contain fixes with texts of this size class, but only %d (need %d) printed AUTOFIX lines carry a text of that size: %s", layer, got, min, key),
		FoundInput: false,
		Replay:     map[string]any{"broken": "coverage floor " + key + " (long texts are generated but do not arrive in the AUTOFIX log with their length)", "counter": key, "got": got, "need": min}})
}

// c03UnitSizeFloors: every class above the 200-byte boundary (and the boundary itself) must
// have been logged for from, to and inserted lines.
func c03UnitSizeFloors(ctx *Ctx, res *Result, generated map[int]int) {
	for _, c := range c03SizeClasses {
		min := 1
		if c >= 4096 {
			min = 3
		} else if c >= 199 {
			min = 6
		}
		if generated[c] < min {
			res.Broken = fmt.Sprintf("unit generator lost its coverage: %d sized scripts of class %d (need %d)", generated[c], c, min)
			return
		}
	}
	for _, c := range []int{199, 200, 201, 255, 256, 1023, 1024, 4096, 65536} {
		min := 4
		if c >= 4096 {
			min = 2
		}
		for _, what := range []string{"U.size.replace.from=", "U.size.replace.to=", "U.size.insert="} {
			if c == 65536 && what == "U.size.replace.to=" {
				continue // not generated, see SkipMode
			}
			k := what + fmt.Sprint(c)
			if got, _ := res.Distribution[k].(int); got < min {
				c03SizeFloorViolation(res, "unit", k, got, min)
				return
			}
		}
	}
}

// c03RunOracle = runOracle, but requests with long texts (each may take 0.1 … 1 s) are
// spread over 16 processes instead of running one after the other in one chunk.
func c03RunOracle(ctx *Ctx, reqs []string) ([]string, error) {
	const heavyLen = 3000
	var light, heavy []int
	for i, q := range reqs {
		if len(q) > heavyLen {
			heavy = append(heavy, i)
		} else {
			light = append(light, i)
		}
	}
	if len(heavy) == 0 {
		return runOracle(ctx, "c03", reqs)
	}
	out := make([]string, len(reqs))
	const shards = 16
	groups := make([][]int, shards+1)
	groups[shards] = light
	for k, i := range heavy {
		groups[k%shards] = append(groups[k%shards], i)
	}
	errs := make([]error, len(groups))
	var wg sync.WaitGroup
	for g, idx := range groups {
		if len(idx) == 0 {
			continue
		}
		wg.Add(1)
		go func(g int, idx []int) {
			defer wg.Done()
			sub := make([]string, len(idx))
			for k, i := range idx {
				sub[k] = reqs[i]
			}
			ans, err := runOracle(ctx, "c03", sub)
			if err != nil {
				errs[g] = err
				return
			}
			for k, i := range idx {
				out[i] = ans[k]
			}
		}(g, idx)
	}
	wg.Wait()
	for _, e := range errs {
		if e != nil {
			return nil, e
		}
	}
	return out, nil
}

// Only: a sized script is never silenced by --only (its floors count printed lines); in 10 %
// of them --only is given with a pattern that matches the diagnostic of the sized transaction.
func (s *c03Sized) Only(r *Rng, evs []pkglint.VerifC03Event) []string {
	if !r.Chance(10) {
		return nil
	}
	for _, ev := range evs {
		if ev.Kind != "txn" || len(ev.Ops) == 0 {
			continue
		}
		op := ev.Ops[0]
		if op.From == s.Long || op.To == s.Long {
			only := []string{Pick(r, []string{"Diag one", "one."})}
			if ev.Diag != c03Diags[0] {
				only = []string{Pick(r, []string{"Other", "thing"})}
			}
			if r.Chance(30) {
				only = append(only, "zzz")
			}
			return only
		}
	}
	return nil
}

func init() {
	// unit part only (debug aid): vharness run tool-c03-unit tier=... seed=...
	register("tool-c03-unit", func(ctx *Ctx) *Result {
		res := &Result{}
		c03Unit(ctx, res, NewRng(ctx.Seed).Fork())
		return res
	}, nil)
}

// ---------- W: long texts in generated trees ----------

// c03LongTexts gives the package lines whose fix replaces a text of more than 200 bytes
// (all of them seen with the real binary): trailing white-space in DESCR / Makefile / *.mk
// (LineChecker.CheckTrailingWhitespace -> ReplaceAt), a value that is indented by hundreds of
// blanks (VaralignBlock -> "Replacing <blanks> with <tabs>"), and a $(VAR) reference with a
// very long name (from and to both long).
func (g *GenTree) c03LongTexts(r *Rng, dir string) {
	size := func() int {
		if r.Chance(6) {
			return 4096
		}
		return Pick(r, []int{201, 201, 250, 255, 256, 1023, 1024})
	}
	ws := func() string { return strings.Repeat(Pick(r, []string{" ", " ", "\t"}), size()) }
	appendTo := func(rel string, ok func(string) bool) bool {
		return g.rewrite(rel, func(s string) string {
			ls := strings.Split(s, "\n")
			var cand []int
			for i, l := range ls {
				if l != "" && !strings.HasSuffix(l, "\\") && !strings.HasSuffix(l, " ") && !strings.HasSuffix(l, "\t") && ok(l) {
					cand = append(cand, i)
				}
			}
			if len(cand) == 0 {
				return s
			}
			ls[Pick(r, cand)] += ws()
			return strings.Join(ls, "\n")
		})
	}
	isVar := func(l string) bool {
		return l[0] >= 'A' && l[0] <= 'Z' && strings.Contains(l, "=\t") && !strings.Contains(l, "$")
	}
	for n := 1 + r.Intn(2); n > 0; n-- {
		switch r.Intn(5) {
		case 0:
			if appendTo(dir+"/DESCR", func(string) bool { return true }) {
				g.feat("c03.long-text.trailing-ws.DESCR")
			}
		case 1:
			if appendTo(dir+"/Makefile", isVar) {
				g.feat("c03.long-text.trailing-ws.Makefile")
			}
		case 2:
			line := "CONFIGURE_ARGS+=" + strings.Repeat(" ", size()) + "--with-long-indent"
			if g.rewrite(dir+"/Makefile", func(s string) string {
				return strings.Replace(s, ".include \"../../mk/bsd.pkg.mk\"", line+"\n\n.include \"../../mk/bsd.pkg.mk\"", 1)
			}) {
				g.feat("c03.long-text.indent.Makefile")
			}
		case 3:
			name := "LONG_" + strings.Repeat("V", size())
			ls := []string{cvsID, "", "LONG_DIR=\t$(" + name + ")/share", "LONG_FLAG=\tvalue" + ws(), "# a comment" + ws()}
			g.put(dir+"/long.mk", strings.Join(ls, "\n")+"\n")
			g.feat("c03.long-text.fragment-mk")
		default:
			for _, f := range []string{"options.mk", "buildlink3.mk", "Makefile.common"} {
				if appendTo(dir+"/"+f, func(l string) bool { return isVar(l) || strings.HasPrefix(l, "#") }) {
					g.feat("c03.long-text.trailing-ws." + f)
					break
				}
			}
		}
	}
}

// c03WholeSizeFloor: real runs must have printed "Replacing" lines with a text of more than
// 200 bytes. Missed while the trees contain such lines = the program no longer prints them.
func c03WholeSizeFloor(ctx *Ctx, res *Result) {
	min := 3
	if got, _ := res.Distribution["W.size.replace.over200"].(int); got < min {
		c03SizeFloorViolation(res, "whole-run", "W.size.replace.over200", got, min)
	}
}
