package main

// C03 unit correspondence: random fix scripts through the real Autofix code
// (shim VerifAutofixScript) and through the extracted model (oracle `run`).

import (
	"fmt"
	"strconv"
	"strings"

	pkglint "github.com/rillig/pkglint/v23"
)

type c03Case struct {
	Autofix, Show bool
	Only          []string
	Base          string // Makefile | PLIST
	Mode          uint32
	Content       string
	Events        []pkglint.VerifC03Event
}

var c03Words = []string{"a", "b", "ab", "aa", "x", "foo", "bin/", "=", "\t", " ", "VAR", "value", ".", "\\", "${X}", "@"}
var c03Diags = []string{"Diag one.", "Other thing %s.", ""} // "" = fix.Silent()

func c03GenLine(r *Rng, plist bool) string {
	if plist {
		switch r.Intn(8) {
		case 0:
			return "@comment " + Pick(r, c03Words)
		case 1:
			return "@exec " + Pick(r, c03Words)
		case 2:
			return "${PLIST.foo}bin/" + Pick(r, c03Words)
		case 3:
			return "bin/${X}"
		}
		return Pick(r, []string{"bin/", "lib/", "man/", ""}) + Pick(r, []string{"a", "b", "ab", "aa", "x", "foo", "c"})
	}
	n := 1 + r.Intn(4)
	var sb strings.Builder
	for i := 0; i < n; i++ {
		sb.WriteString(Pick(r, c03Words))
	}
	return sb.String()
}

func c03GenFile(r *Rng, plist bool) string {
	n := 1 + r.Intn(8)
	var sb strings.Builder
	for i := 0; i < n; i++ {
		l := c03GenLine(r, plist)
		if !plist {
			for r.Chance(25) { // continuation lines
				l += Pick(r, []string{" \\", "\\", "\t\\"}) + "\n" + Pick(r, []string{"", "\t", "  "}) + c03GenLine(r, false)
			}
			if strings.HasSuffix(l, "\\") && r.Chance(70) {
				l += " "
			}
		}
		sb.WriteString(l)
		sb.WriteString("\n")
	}
	s := sb.String()
	if r.Chance(12) {
		s = strings.TrimSuffix(s, "\n")
	}
	if r.Chance(3) {
		s = ""
	}
	return s
}

// c03GenEvents draws 1-12 operations grouped into transactions, with save / sort events in between.
func c03GenEvents(r *Rng, lines []pkglint.VerifC03Line, plist bool, mode uint32) []pkglint.VerifC03Event {
	var evs []pkglint.VerifC03Event
	if mode&0o111 != 0 && r.Chance(70) {
		evs = append(evs, pkglint.VerifC03Event{Kind: "chmod"})
	}
	nops := 1 + r.Intn(12)
	sub := func(s string) string {
		if s == "" || r.Chance(15) {
			return Pick(r, c03Words)
		}
		i := r.Intn(len(s))
		j := i + 1 + r.Intn(3)
		if j > len(s) {
			j = len(s)
		}
		return s[i:j]
	}
	for nops > 0 {
		if len(lines) == 0 {
			evs = append(evs, pkglint.VerifC03Event{Kind: "txn", Line: r.Intn(2)})
			break
		}
		li := r.Intn(len(lines))
		if r.Chance(3) {
			li = len(lines) // no such line
		}
		ev := pkglint.VerifC03Event{Kind: "txn", Line: li, Diag: Pick(r, c03Diags)}
		k := 1 + r.Intn(3)
		if r.Chance(5) {
			k = 0
		}
		for ; k > 0 && nops > 0; k, nops = k-1, nops-1 {
			var raws []string
			if li < len(lines) {
				raws = lines[li].Raws
			}
			ri := 0
			raw := ""
			if len(raws) > 0 {
				ri = r.Intn(len(raws))
				raw = raws[ri]
			}
			var op pkglint.VerifC03Op
			switch r.Intn(13) {
			case 0, 1:
				op = pkglint.VerifC03Op{Kind: "replaceafter", From: sub(strings.TrimSuffix(raw, "\n")), To: Pick(r, c03Words)}
			case 2, 3:
				from := sub(strings.TrimSuffix(raw, "\n"))
				pre := ""
				if i := strings.Index(raw, from); i > 0 {
					pre = raw[r.Intn(i):i]
				} else {
					pre = Pick(r, c03Words)
				}
				op = pkglint.VerifC03Op{Kind: "replaceafter", Prefix: pre, From: from, To: Pick(r, c03Words)}
			case 4, 5, 6:
				op = pkglint.VerifC03Op{Kind: "replaceat", RawIndex: ri, To: Pick(r, c03Words)}
				span := raw
				if plist { // not the line terminator, see below
					span = strings.TrimSuffix(raw, "\n")
				}
				if span != "" {
					op.TextIndex = r.Intn(len(span))
					e := op.TextIndex + r.Intn(3)
					if e > len(span) {
						e = len(span)
					}
					op.From = span[op.TextIndex:e]
				}
				if r.Chance(6) {
					op.RawIndex = ri + 1 + r.Intn(2) // perhaps out of range
				}
				if r.Chance(4) {
					op.TextIndex = len(raw) + r.Intn(2) // out of range
				}
				if r.Chance(4) {
					op.From = Pick(r, c03Words) // perhaps not at that position
				}
				if r.Chance(3) {
					op.To = op.From // assert(from != to)
				}
			case 7:
				op = pkglint.VerifC03Op{Kind: "above", From: c03GenLine(r, plist)}
			case 8, 9:
				op = pkglint.VerifC03Op{Kind: "below", From: c03GenLine(r, plist)}
			case 10:
				op = pkglint.VerifC03Op{Kind: "delete"}
			case 11:
				// replacing a line terminator; not in PLISTs: the sorter relies on whole lines
				// (no fix site passes a newline; Props C03_sort_* carry this guard)
				if plist {
					op = pkglint.VerifC03Op{Kind: "delete"}
				} else {
					op = pkglint.VerifC03Op{Kind: "replaceafter", From: "\n", To: Pick(r, []string{"", " \\\n", "\n\n"})}
				}
			default:
				// Custom() with a fixer that only describes (the shape of the chmod fix)
				op = pkglint.VerifC03Op{Kind: "custom-chmod", RawIndex: r.Intn(2)}
			}
			ev.Ops = append(ev.Ops, op)
		}
		evs = append(evs, ev)
		if r.Chance(20) {
			evs = append(evs, pkglint.VerifC03Event{Kind: "save"})
		}
	}
	if plist && r.Chance(70) {
		// as in PlistChecker.Check: the sorter runs once, after all other checks
		// (it permutes the PlistLine slice in place, a second sorter would see the sorted order)
		evs = append(evs, pkglint.VerifC03Event{Kind: "sort"})
	} else if r.Chance(75) {
		evs = append(evs, pkglint.VerifC03Event{Kind: "save"})
	}
	return evs
}

func c03EncodeCase(c c03Case, path string, lines []pkglint.VerifC03Line) string {
	b2i := func(b bool) int {
		if b {
			return 1
		}
		return 0
	}
	var sb strings.Builder
	fmt.Fprintf(&sb, "run %d %d %d", b2i(c.Autofix), b2i(c.Show), len(c.Only))
	for _, o := range c.Only {
		sb.WriteString(" " + hx(o))
	}
	fmt.Fprintf(&sb, " %s %s %d", hx(path), hx(c.Content), len(lines))
	for _, l := range lines {
		fmt.Fprintf(&sb, " %d %s", len(l.Raws), hx(l.Text))
		for _, r := range l.Raws {
			sb.WriteString(" " + hx(r))
		}
	}
	fmt.Fprintf(&sb, " %d", len(c.Events))
	for _, ev := range c.Events {
		switch ev.Kind {
		case "save":
			sb.WriteString(" S")
		case "sort":
			sb.WriteString(" P")
		case "chmod":
			fmt.Fprintf(&sb, " X %d", b2i(c.Mode&0o111 != 0))
		case "txn":
			diag := ev.Diag
			if diag == "" {
				diag = "SilentAutofixFormat"
			}
			fmt.Fprintf(&sb, " T %d %s %d", ev.Line, hx(diag), len(ev.Ops))
			for _, op := range ev.Ops {
				switch op.Kind {
				case "replaceafter":
					fmt.Fprintf(&sb, " RA %s %s %s", hx(op.Prefix), hx(op.From), hx(op.To))
				case "replaceat":
					fmt.Fprintf(&sb, " RT %d %d %s %s", op.RawIndex, op.TextIndex, hx(op.From), hx(op.To))
				case "above":
					sb.WriteString(" IA " + hx(op.From))
				case "below":
					sb.WriteString(" IB " + hx(op.From))
				case "delete":
					sb.WriteString(" D")
				case "custom-sort":
					fmt.Fprintf(&sb, " CS %d", op.RawIndex)
				case "custom-chmod":
					fmt.Fprintf(&sb, " CC %d", op.RawIndex)
				}
			}
		}
	}
	return sb.String()
}

type c03Obs struct {
	Panic  bool
	Log    []string // encoded entries
	Disk   string
	State  string
	Chmods int // model only: number of chmod operations (Custom fixer of checkExecutable with autofix = true)
}

// c03ObserveImpl runs the case on the real code; returns the observation and the loaded lines.
func c03ObserveImpl(c c03Case) (c03Obs, pkglint.VerifC03Result, []logEntry) {
	r := pkglint.VerifAutofixScript(c.Autofix, c.Show, c.Only, c.Base, c.Mode, c.Content, c.Events)
	o := c03Obs{Panic: r.Panic != "", Disk: r.Disk}
	var entries []logEntry
	for _, d := range ParseDiags(r.Stdout) {
		if d.Level != "AUTOFIX" {
			continue
		}
		e, ok := parseAutofixMsg(unescapeOutput(d.Msg))
		if !ok {
			o.Log = append(o.Log, "unparsed:"+d.Raw)
			continue
		}
		e.Line = d.Line1
		entries = append(entries, e)
		o.Log = append(o.Log, e.enc())
	}
	var st []string
	for _, l := range r.Final {
		parts := []string{hx(l.Text)}
		for _, raw := range l.Raws {
			parts = append(parts, hx(raw))
		}
		st = append(st, strings.Join(parts, "/"))
	}
	o.State = strings.Join(st, ",")
	return o, r, entries
}

func c03ParseModel(ans string) (c03Obs, int, error) {
	if ans == "panic" {
		return c03Obs{Panic: true}, 0, nil
	}
	f := strings.Split(ans, ";")
	if len(f) != 5 {
		return c03Obs{}, 0, fmt.Errorf("oracle answer %q", ans)
	}
	o := c03Obs{Disk: unhx(f[1]), State: f[3]}
	o.Chmods, _ = strconv.Atoi(f[4])
	if f[0] != "" {
		o.Log = strings.Split(f[0], ",")
	}
	n, _ := strconv.Atoi(f[2])
	return o, n, nil
}

func c03CaseReplay(c c03Case) map[string]any {
	var evs []any
	for _, ev := range c.Events {
		var ops []any
		for _, op := range ev.Ops {
			ops = append(ops, map[string]any{"kind": op.Kind, "prefix": hx(op.Prefix), "from": hx(op.From), "to": hx(op.To), "raw": op.RawIndex, "text": op.TextIndex})
		}
		evs = append(evs, map[string]any{"kind": ev.Kind, "line": ev.Line, "diag": hx(ev.Diag), "ops": ops})
	}
	var only []any
	for _, o := range c.Only {
		only = append(only, hx(o))
	}
	return map[string]any{"kind": "script", "autofix": c.Autofix, "show": c.Show, "only": only, "base": c.Base, "mode": int(c.Mode), "content": hx(c.Content), "events": evs}
}

func c03CaseFromReplay(rep map[string]any) c03Case {
	c := c03Case{}
	c.Autofix, _ = rep["autofix"].(bool)
	c.Show, _ = rep["show"].(bool)
	c.Base, _ = rep["base"].(string)
	if m, ok := rep["mode"].(float64); ok {
		c.Mode = uint32(m)
	}
	s, _ := rep["content"].(string)
	c.Content = unhx(s)
	if os, ok := rep["only"].([]any); ok {
		for _, o := range os {
			s, _ := o.(string)
			c.Only = append(c.Only, unhx(s))
		}
	}
	if evs, ok := rep["events"].([]any); ok {
		for _, e := range evs {
			em, _ := e.(map[string]any)
			ev := pkglint.VerifC03Event{}
			ev.Kind, _ = em["kind"].(string)
			if l, ok := em["line"].(float64); ok {
				ev.Line = int(l)
			}
			d, _ := em["diag"].(string)
			ev.Diag = unhx(d)
			if ops, ok := em["ops"].([]any); ok {
				for _, o := range ops {
					om, _ := o.(map[string]any)
					op := pkglint.VerifC03Op{}
					op.Kind, _ = om["kind"].(string)
					p, _ := om["prefix"].(string)
					f, _ := om["from"].(string)
					t, _ := om["to"].(string)
					op.Prefix, op.From, op.To = unhx(p), unhx(f), unhx(t)
					if x, ok := om["raw"].(float64); ok {
						op.RawIndex = int(x)
					}
					if x, ok := om["text"].(float64); ok {
						op.TextIndex = int(x)
					}
					ev.Ops = append(ev.Ops, op)
				}
			}
			c.Events = append(c.Events, ev)
		}
	}
	return c
}

func c03CaseSize(c c03Case) int {
	n := len(c.Content) + 1
	for _, ev := range c.Events {
		n += 2 + 4*len(ev.Ops)
	}
	return n
}

// endsWithSave: the last transaction is followed by a save (or a sort, which saves)
func c03EndsWithSave(c c03Case) bool {
	for i := len(c.Events) - 1; i >= 0; i-- {
		switch c.Events[i].Kind {
		case "save", "sort":
			return true
		case "txn":
			return false
		}
	}
	return false
}

// c03CheckCases runs the cases on implementation, model and specification.
func c03CheckCases(ctx *Ctx, res *Result, cases []c03Case, count bool) {
	type implRun struct {
		obs     c03Obs
		r       pkglint.VerifC03Result
		entries []logEntry
	}
	impl := make([]implRun, len(cases))
	reqs := make([]string, len(cases))
	for i, c := range cases {
		o, r, es := c03ObserveImpl(c)
		impl[i] = implRun{o, r, es}
		// the model gets the lines as the real loader produced them (C09 is about the loader)
		path := "/tmp/" + c.Base
		reqs[i] = c03EncodeCase(c, path, r.Lines)
	}
	ans, err := c03RunOracle(ctx, reqs) // = runOracle, long requests in parallel (c03_sizes.go)
	if err != nil {
		res.Broken = err.Error()
		return
	}
	// the specification, evaluated on what the implementation printed and wrote
	var sreq []string
	var sidx []int
	for i, c := range cases {
		if impl[i].obs.Panic || !c.Autofix || !c03EndsWithSave(c) {
			continue
		}
		sreq = append(sreq, consRequest(0, c.Content, impl[i].entries, impl[i].r.Disk))
		sidx = append(sidx, i)
	}
	sans, err := c03RunOracle(ctx, sreq)
	if err != nil {
		res.Broken = err.Error()
		return
	}
	specBad := map[int]bool{}
	for k, i := range sidx {
		if sans[k] != "1" {
			specBad[i] = true
		}
	}
	seen := map[string]bool{}
	for i, c := range cases {
		res.Evaluations++
		res.TracesValidated++
		im := impl[i]
		m, nops, err := c03ParseModel(ans[i])
		if err != nil {
			res.Broken = err.Error()
			return
		}
		mode := "default"
		switch {
		case c.Autofix && c.Show:
			mode = "autofix+show"
		case c.Autofix:
			mode = "autofix"
		case c.Show:
			mode = "show"
		}
		if count {
			res.Count("U.mode."+mode, 1)
			if im.obs.Panic {
				res.Count("U.panics", 1)
			}
			if len(im.obs.Log) > 0 {
				if !seen[reqs[i]] {
					seen[reqs[i]] = true
					res.DistinctNontrivial++
				}
				for _, e := range im.entries {
					res.Count("U.logged."+string(e.Kind), 1)
				}
				c03CountSizes(res, "U", im.entries)
			}
			if im.r.Disk != c.Content {
				res.Count("U.files_rewritten", 1)
			}
			if len(c.Only) > 0 {
				res.Count("U.with_only", 1)
			}
			for _, l := range im.r.Lines {
				if len(l.Raws) > 1 {
					res.Count("U.cases_with_continuation_lines", 1)
					break
				}
			}
			for _, ev := range c.Events {
				for _, op := range ev.Ops {
					res.Count("U.op."+op.Kind, 1)
				}
				if ev.Kind != "txn" {
					res.Count("U.event."+ev.Kind, 1)
				}
			}
		}
		rep := c03CaseReplay(c)
		// 1. the property itself on the implementation's output
		if specBad[i] {
			res.AddViolation(Violation{Key: "C03/unit/log-mismatch",
				What:       fmt.Sprintf("Autofix script (%s): the file written by SaveAutofixChanges is not the old file with the logged actions applied: old %q, log %v, new %q", mode, c.Content, im.obs.Log, im.r.Disk),
				FoundInput: true, Size: c03CaseSize(c), Replay: rep})
			continue
		}
		if !c.Autofix && !im.obs.Panic && im.r.Disk != c.Content {
			res.AddViolation(Violation{Key: "C03/unit/written-without-autofix",
				What:       fmt.Sprintf("Autofix script (%s): the file changed on disk without --autofix: %q -> %q", mode, c.Content, im.r.Disk),
				FoundInput: true, Size: c03CaseSize(c), Replay: rep})
			continue
		}
		if len(im.r.Entries) != 1 {
			res.AddViolation(Violation{Key: "C03/unit/extra-directory-entries",
				What:       fmt.Sprintf("Autofix script (%s): directory entries afterwards: %v", mode, im.r.Entries),
				FoundInput: true, Size: c03CaseSize(c), Replay: rep})
			continue
		}
		// mode changes are changes: the executable bits may only be cleared by a logged
		// "Clearing executable bits" (the Custom fixer of checkExecutable), and with --autofix a
		// logged one must have been done
		if !im.obs.Panic && im.r.Mode != 0 {
			chmodLogged := false
			for _, e := range im.entries {
				if e.Kind == 'C' {
					chmodLogged = true
				}
			}
			if count && c.Mode&0o111 != 0 && c03HasEvent(c, "chmod") {
				switch {
				case im.r.Mode != c.Mode:
					res.Count("U.chmod_done", 1)
				case len(c.Only) > 0 && c.Autofix:
					res.Count("U.chmod_skipped_under_only", 1)
				}
			}
			if im.r.Mode != c.Mode && !(chmodLogged && c.Autofix && im.r.Mode == c.Mode&^0o111) {
				res.AddViolation(Violation{Key: "C03/unit/unlogged-mode-change",
					What:       fmt.Sprintf("Autofix script (%s, --only %q): the mode of the file changed from %o to %o, AUTOFIX lines %v", mode, c.Only, c.Mode, im.r.Mode, im.obs.Log),
					FoundInput: true, Size: c03CaseSize(c), Replay: rep})
				continue
			}
			// (a script's own Custom fixer "custom-chmod" only describes: its line is no promise)
			if chmodLogged && c.Autofix && im.r.Mode&0o111 != 0 && !c03HasOp(c, "custom-chmod") {
				res.AddViolation(Violation{Key: "C03/unit/chmod-logged-not-done",
					What:       fmt.Sprintf("Autofix script (%s): \"Clearing executable bits\" was logged but the mode is still %o", mode, im.r.Mode),
					FoundInput: true, Size: c03CaseSize(c), Replay: rep})
				continue
			}
		}
		// 2. model = implementation on the observables
		diff := ""
		switch {
		case im.obs.Panic != m.Panic:
			diff = fmt.Sprintf("panic: impl %v (%s), model %v", im.obs.Panic, im.r.Panic, m.Panic)
		case im.obs.Panic:
		case strings.Join(im.obs.Log, ",") != strings.Join(m.Log, ","):
			diff = fmt.Sprintf("AUTOFIX lines: impl %v, model %v", im.obs.Log, m.Log)
		case im.obs.Disk != m.Disk:
			diff = fmt.Sprintf("bytes on disk: impl %q, model %q", im.obs.Disk, m.Disk)
		case im.obs.State != m.State:
			diff = fmt.Sprintf("RawText/Text afterwards: impl %s, model %s", im.obs.State, m.State)
		case !c.Autofix && nops != 0:
			diff = "model performs file operations without --autofix"
		case im.r.Mode != 0 && (im.r.Mode != c.Mode) != (m.Chmods > 0):
			diff = fmt.Sprintf("mode of the file: impl %o -> %o, model performs %d chmod operations", c.Mode, im.r.Mode, m.Chmods)
		}
		if diff != "" {
			what := "state"
			switch {
			case strings.HasPrefix(diff, "panic"):
				what = "panic"
			case strings.HasPrefix(diff, "AUTOFIX"):
				what = "log"
			case strings.HasPrefix(diff, "bytes"):
				what = "disk"
			case strings.HasPrefix(diff, "mode"):
				what = "mode"
			}
			rep["broken"] = "correspondence Autofix script = Model.Autofix.run (" + what + ")"
			rep["diff"] = diff
			res.AddViolation(Violation{Key: "C03/correspondence/autofix-script/" + what,
				What: "model and implementation disagree on a fix script (" + mode + "): " + diff, FoundInput: false, Size: c03CaseSize(c), Replay: rep})
		}
	}
}

func c03Unit(ctx *Ctx, res *Result, rng *Rng) {
	n := 3000
	if ctx.Tier == "thorough" {
		n = 100000
	}
	var cases []c03Case
	sizedGenerated := map[int]int{}
	for i := 0; i < n; i++ {
		r := rng.Fork()
		plist := r.Chance(35)
		base := "Makefile"
		if plist {
			base = "PLIST"
		}
		content := c03GenFile(r, plist)
		// 10 % of the scripts: one operation with a text of a boundary length (c03_sizes.go)
		var sized *c03Sized
		if r.Chance(10) {
			sized = c03NewSized(r, sizedGenerated[-1], plist, ctx.Tier)
			sizedGenerated[-1]++
			sizedGenerated[sized.Class]++
			content = sized.Content(r, content)
		}
		mode := uint32(0o644)
		if r.Chance(15) {
			mode = 0o755
		}
		// the lines as the real loader sees them, to aim the operations
		probe := pkglint.VerifAutofixScript(false, false, nil, base, mode, content, nil)
		var evs []pkglint.VerifC03Event
		if sized != nil {
			evs = sized.Events(r, probe.Lines, plist, mode)
		} else {
			evs = c03GenEvents(r, probe.Lines, plist, mode)
		}
		var only []string
		if sized != nil {
			only = sized.Only(r, evs)
		} else if r.Chance(20) {
			only = []string{Pick(r, []string{"Diag one", "Other", "thing", "sorted before", "Silent", "nothing matches", "executable", "Should not be"})}
			if r.Chance(30) {
				only = append(only, Pick(r, []string{"Diag", "SilentAutofixFormat", "zzz"}))
			}
		}
		for _, m := range [][2]bool{{false, false}, {false, true}, {true, false}, {true, true}} {
			if m[0] && m[1] && !r.Chance(30) {
				continue
			}
			if sized != nil && sized.SkipMode(m[0], m[1]) {
				continue
			}
			cases = append(cases, c03Case{Autofix: m[0], Show: m[1], Only: only, Base: base, Mode: mode, Content: content, Events: evs})
		}
	}
	c03CheckCases(ctx, res, cases, true)
	if res.Broken != "" || len(res.Violations) > 0 {
		return
	}
	// the generator must keep reaching every operation kind with a logged effect
	need := map[string]int{"U.logged.R": 200, "U.logged.A": 50, "U.logged.B": 50, "U.logged.D": 50, "U.logged.S": 20, "U.logged.C": 10,
		"U.op.replaceafter": 200, "U.op.replaceat": 200, "U.event.save": 200, "U.event.sort": 50, "U.cases_with_continuation_lines": 200, "U.files_rewritten": 200, "U.with_only": 100, "U.panics": 20}
	for k, min := range need {
		if c, _ := res.Distribution[k].(int); c < min {
			res.Broken = fmt.Sprintf("unit generator lost its coverage: %s = %d < %d", k, c, min)
			return
		}
	}
	// assertions about the implementation (not about the generator): the executable-bit fix is
	// performed when selected and skipped under a non-matching --only; if the real code stops doing
	// either, the correspondence of Custom / --only is gone -> a violation without input, not a broken check
	for k, min := range map[string]int{"U.chmod_done": 20, "U.chmod_skipped_under_only": 5} {
		if c, _ := res.Distribution[k].(int); c < min {
			res.AddViolation(Violation{Key: "C03/coverage/unit-custom-only", FoundInput: false,
				What:   fmt.Sprintf("unit scripts: %s = %d < %d: the executable-bit fix is no longer observed both done and skipped under --only", k, c, min),
				Replay: map[string]any{"broken": "coverage floor " + k + " (correspondence of Autofix.Custom under --only)"}})
			return
		}
	}
	c03UnitSizeFloors(ctx, res, sizedGenerated)
}

func c03HasEvent(c c03Case, kind string) bool {
	for _, ev := range c.Events {
		if ev.Kind == kind {
			return true
		}
	}
	return false
}

func c03HasOp(c c03Case, kind string) bool {
	for _, ev := range c.Events {
		for _, op := range ev.Ops {
			if op.Kind == kind {
				return true
			}
		}
	}
	return false
}

func c03ReplayScript(ctx *Ctx, res *Result, rep map[string]any) {
	c03CheckCases(ctx, res, []c03Case{c03CaseFromReplay(rep)}, false)
}
