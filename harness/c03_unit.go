package main

func c03Unit(ctx *Ctx, res *Result, rng *Rng)                       {}
func c03ReplayScript(ctx *Ctx, res *Result, rep map[string]any) {}
