package main

// More generator features for C04/C16 (second round): fix sites that the
// first generators did not reach, and the shapes on which fixes used to be
// logged without being written.
//
//  snippet.*        one-paragraph Makefile snippets, one per fix site
//  plist.cond-dup   the same path twice under the same ${PLIST.x} condition
//  plist.unexec     @unexec ${RMDIR} line; plist.egg: an egg-info entry
//  omf              omf-scrollkeeper.mk included, no .omf file in the PLIST
//  common.usedby-*  Makefile.common whose "# used by" line is missing or sits
//                   inside a paragraph of other comments
//  bl3.*            buildlink3.mk with fixable problems, also with a
//                   malformed rest (the checker used to return before saving)
//  patch.*          context diffs, missing empty line, CR in the hunk header,
//                   missing CVS id
//  category.tail-*  category Makefile tails: no empty line before the final
//                   .include, no .include, text after it, stale SUBDIR

import (
	"fmt"
	"path/filepath"
	"regexp"
	"strings"
)

var reHashish = regexp.MustCompile(`[0-9a-f_]{12,}`)
var rePatchName = regexp.MustCompile(`patch-[a-z]{2}`)

type c04Snippet struct {
	name  string
	lines []string
}

var c04Snippets = []c04Snippet{
	{"cond-parens", []string{".if (${OPSYS} == NetBSD)", ".endif"}},
	{"python-version", []string{".if ${_PYTHON_VERSION} < 38", ".endif"}},
	{"shell-two-tabs", []string{"pre-build:", "\t\t${ECHO} indented twice"}},
	{"subst-patch-phase", []string{"SUBST_CLASSES+=\tpp", "SUBST_STAGE.pp=\tpre-patch", "SUBST_FILES.pp=\t${WRKSRC}/Makefile.in", "SUBST_SED.pp=\t-e s,aaa,bbb,"}},
	{"abi-depends", []string{"BUILDLINK_ABI_DEPENDS.foo+=\tfoo>=1.0"}},
	{"gcc-reqd", []string{"GCC_REQD+=\t4.8.5"}},
	{"special-perms", []string{"SPECIAL_PERMS+=\tbin/program ${ROOT_USER} ${ROOT_GROUP} 4555"}},
	{"configure-dirs", []string{"CONFIGURE_DIRS=\t${WRKSRC}/src"}},
	{"modifier-loop", []string{"SRCS=\t${MY_FILES:@f@${f}.c@}"}},
	{"modifier-range", []string{"FIRST=\t${MY_FILES:S,^,__magic__,1:M__magic__*:S,^__magic__,,}"}},
	{"x11-links", []string{".include \"../../pkgtools/x11-links/buildlink3.mk\""}},
	{"jpeg", []string{".include \"../../graphics/jpeg/buildlink3.mk\""}},
	{"builtin-direct", []string{".include \"../../devel/zlib/builtin.mk\""}},
	{"wrksrc-redundant", []string{"WRKSRC=\t${WRKDIR}/${DISTNAME}"}},
	{"q-needed", []string{"CONFIGURE_ARGS+=\t--with-comment=${COMMENT}"}},
	{"homepage-master-sites", nil}, // handled below: rewrites the header
	{"installation-dirs", []string{"AUTO_MKDIRS=\tyes", "INSTALLATION_DIRS=\tbin man/man1"}},
	{"conf-files", []string{"OWN_DIRS+=\tman/man3"}},
	{"empty-cond", []string{".if !empty(PKG_OPTIONS:Mfoo:Mbar)", ".endif"}},
	{"match-to-eq", []string{".if ${MACHINE_ARCH:Mx86_64} == \"x86_64\"", ".endif"}},
	{"semicolon", []string{"post-build:", "\t${ECHO} one; ${ECHO} two;"}},
}

func c04ContextDiff(name string, variant int) string {
	tag := "$" + "NetBSD: " + name + ",v 1.1 2020/01/01 00:00:00 user Exp $"
	unified := []string{"--- a/file.c", "+++ b/file.c", "@@ -1,3 +1,3 @@", " context", "-old line", "+new line", " context"}
	switch variant {
	case 0: // context diff
		return lines(tag, "", "Description.", "", "*** a/file.c", "--- b/file.c", "***************", "*** 1,3 ****", " context", "! old line", " context", "--- 1,3 ----", " context", "! new line", " context")
	case 1: // context diff without the CVS id and the empty line
		return lines("Description.", "*** a/file.c", "--- b/file.c", "***************", "*** 1,3 ****", " context", "! old", "--- 1,3 ----", " context", "! new")
	case 2: // no empty line between the description and the diff
		return lines(append([]string{tag, "", "Description."}, unified...)...)
	case 3: // CR at the end of the hunk header
		u := append([]string{}, unified...)
		u[2] += "\r"
		return lines(append([]string{tag, "", "Description.", ""}, u...)...)
	case 4: // no CVS id
		return lines(append([]string{"Description.", ""}, unified...)...)
	}
	return lines(append([]string{tag, "Description.", ""}, unified...)...) // no empty line after the id
}

func c04Augment2(r *Rng, tf c04Files, pkgs []string, density int, feats map[string]int) {
	if density == 0 {
		density = 35
	}
	d := density
	feat := func(n string) { feats[n]++ }
	ensure := func(path, content string) {
		if _, ok := tf[path]; !ok {
			tf[path] = content
		}
	}
	for _, p := range pkgs {
		mk, ok := tf[p+"/Makefile"]
		if !ok {
			continue
		}
		name := filepath.Base(p)
		// Makefile snippets
		for i := 0; i < 1+r.Intn(3); i++ {
			if !r.Chance(d + 25) {
				continue
			}
			sn := Pick(r, c04Snippets)
			switch sn.name {
			case "homepage-master-sites":
				var ls []string
				for _, l := range strings.Split(mk, "\n") {
					switch {
					case strings.HasPrefix(l, "MASTER_SITES="):
						l = "MASTER_SITES=\thttps://example.org/pub/" + name + "/"
					case strings.HasPrefix(l, "HOMEPAGE="):
						l = "HOMEPAGE=\t${MASTER_SITES}"
					}
					ls = append(ls, l)
				}
				mk = strings.Join(ls, "\n")
			case "x11-links":
				ensure("pkgtools/x11-links/buildlink3.mk", cvsID+"\n")
				ensure("mk/x11.buildlink3.mk", cvsID+"\n")
				mk = c04InsertBeforeFinalInclude(mk, sn.lines...)
			case "jpeg":
				ensure("graphics/jpeg/buildlink3.mk", cvsID+"\n")
				ensure("mk/jpeg.buildlink3.mk", cvsID+"\n")
				mk = c04InsertBeforeFinalInclude(mk, sn.lines...)
			case "builtin-direct":
				ensure("devel/zlib/builtin.mk", cvsID+"\n")
				ensure("devel/zlib/buildlink3.mk", cvsID+"\n")
				mk = c04InsertBeforeFinalInclude(mk, sn.lines...)
			default:
				mk = c04InsertBeforeFinalInclude(mk, append(append([]string{}, sn.lines...), "")...)
			}
			feat("snippet." + sn.name)
		}
		// PLIST
		if pl, ok := tf[p+"/PLIST"]; ok {
			if r.Chance(d / 2) {
				pl += "${PLIST.foo}bin/cond-twice\n${PLIST.foo}bin/cond-twice\n"
				feat("plist.cond-dup")
			}
			if r.Chance(d / 3) {
				pl += "@unexec ${RMDIR} %D/share/" + name + "\n"
				feat("plist.unexec")
			}
			if r.Chance(d / 3) {
				pl += "${PYSITELIB}/" + name + "-1.0-py${PYVERSSUFFIX}.egg-info/PKG-INFO\n"
				feat("plist.egg")
			}
			tf[p+"/PLIST"] = pl
		}
		if r.Chance(d / 3) {
			ensure("mk/omf-scrollkeeper.mk", cvsID+"\n")
			mk = c04InsertBeforeFinalInclude(mk, ".include \"../../mk/omf-scrollkeeper.mk\"")
			feat("omf")
		}
		// Makefile.common and its "used by" line
		if r.Chance(d / 2) {
			usedby := "# used by " + p + "/Makefile"
			switch r.Intn(3) {
			case 0:
				tf[p+"/Makefile.common"] = lines(cvsID, "", "# This file is shared.", usedby, "# It defines common variables.", "", "COMMON_VAR=\tvalue")
				feat("common.usedby-in-paragraph")
			case 1:
				tf[p+"/Makefile.common"] = lines(cvsID, "", "COMMON_VAR=\tvalue")
				feat("common.usedby-missing")
			case 2:
				tf[p+"/Makefile.common"] = lines(cvsID, "#", "# A header comment.", "", "COMMON_VAR=\tvalue")
				feat("common.usedby-missing-after-comment")
			}
			if !strings.Contains(mk, ".include \"Makefile.common\"") {
				mk = c04InsertBeforeFinalInclude(mk, ".include \"Makefile.common\"")
			}
		}
		// buildlink3.mk
		if r.Chance(d / 2) {
			up := strings.ToUpper(name)
			good := []string{cvsID, "", "BUILDLINK_TREE+=\t" + name, "", ".if !defined(" + up + "_BUILDLINK3_MK)", up + "_BUILDLINK3_MK:=", "",
				"BUILDLINK_API_DEPENDS." + name + "+=\t" + name + ">=1.0", "BUILDLINK_PKGSRCDIR." + name + "?=\t../../" + p, ".endif # " + up + "_BUILDLINK3_MK", "", "BUILDLINK_TREE+=\t-" + name}
			var ls []string
			switch r.Intn(5) {
			case 0: // no CVS id
				ls = good[1:]
				feat("bl3.no-cvsid")
			case 1: // no empty line after the id
				ls = append([]string{good[0]}, good[2:]...)
				feat("bl3.no-empty-line")
			case 2: // no CVS id and a malformed rest
				ls = []string{"BUILDLINK_TREE+=\t" + name, "X=\ty", "BUILDLINK_TREE+=\t-" + name}
				feat("bl3.no-cvsid+malformed")
			case 3: // no empty line below the first BUILDLINK_TREE line, malformed rest
				ls = []string{cvsID, "", "BUILDLINK_TREE+=\t" + name, "X=\ty"}
				feat("bl3.malformed")
			case 4: // bsd.prefs.mk instead of bsd.fast.prefs.mk
				ls = append(append([]string{}, good[:7]...), ".include \"../../mk/bsd.prefs.mk\"", "")
				ls = append(ls, good[7:]...)
				feat("bl3.prefs")
			}
			tf[p+"/buildlink3.mk"] = lines(ls...)
		}
		// patches
		if r.Chance(d / 2) {
			pn := fmt.Sprintf("patch-b%c", 'a'+r.Intn(3))
			v := r.Intn(6)
			body := c04ContextDiff(pn, v)
			tf[p+"/patches/"+pn] = body
			if di, ok := tf[p+"/distinfo"]; ok {
				tf[p+"/distinfo"] = di + "SHA1 (" + pn + ") = " + netbsdFilteredSha1(body) + "\n"
			}
			feat(fmt.Sprintf("patch.variant-%d", v))
		}
		tf[p+"/Makefile"] = mk
	}
	// a Makefile.common that another package includes: its "used by" line is
	// checked (CheckUsedBy), also when it shares a paragraph with other comments
	if len(pkgs) >= 2 && r.Chance(d+10) {
		owner, user := pkgs[0], pkgs[1]
		usedby := "# used by " + user + "/Makefile"
		switch r.Intn(4) {
		case 0:
			tf[owner+"/Makefile.common"] = lines(cvsID, "# This file is shared.", usedby, "", "COMMON_VAR=\tvalue")
			feat("common.foreign-usedby-in-first-paragraph")
		case 1:
			tf[owner+"/Makefile.common"] = lines(cvsID, "", "# This file is shared.", usedby, "", "COMMON_VAR=\tvalue")
			feat("common.foreign-usedby-in-paragraph")
		case 2:
			tf[owner+"/Makefile.common"] = lines(cvsID, "# A header comment.", "", "COMMON_VAR=\tvalue")
			feat("common.foreign-usedby-missing")
		case 3:
			tf[owner+"/Makefile.common"] = lines(cvsID, "", usedby, "", "COMMON_VAR=\tvalue")
			feat("common.foreign-usedby-ok")
		}
		if mk, ok := tf[user+"/Makefile"]; ok {
			tf[user+"/Makefile"] = c04InsertBeforeFinalInclude(mk, ".include \"../../"+owner+"/Makefile.common\"")
		}
	}
	// category Makefile tails
	if cm, ok := tf["cat/Makefile"]; ok && r.Chance(d+10) {
		const incl = ".include \"../mk/misc/category.mk\"\n"
		switch r.Intn(6) {
		case 5:
			cm = strings.Replace(cm, "\n\n"+incl, "\n", 1)
			feat("category.ends-after-subdir-block")
		case 0:
			cm = strings.Replace(cm, "\n\n"+incl, "\n"+incl, 1)
			feat("category.tail-no-empty-line")
		case 1:
			cm = strings.Replace(cm, "\n"+incl, "\n", 1)
			feat("category.tail-no-include")
		case 2:
			cm += "# text after the include\n"
			feat("category.tail-text-after")
		case 3:
			cm = strings.Replace(cm, "\n\n"+incl, "\nSUBDIR+=\tzz-no-such-package\n\n"+incl, 1)
			feat("category.stale-subdir")
		case 4:
			cm = strings.Replace(cm, "\n\n"+incl, "\n"+incl, 1)
			cm = strings.Replace(cm, "\nCOMMENT=", "\nCOMMENT =", 1)
			feat("category.tail-no-empty-line+space")
		}
		tf["cat/Makefile"] = cm
	}
}

// c04FixKind: the kind of a diagnostic that comes with a fix, for counting fix
// sites (file names and hashes in the message are abstracted away).
func c04FixKind(msg string) string {
	k := MsgKind(msg)
	k = reHashish.ReplaceAllString(k, "_")
	k = rePatchName.ReplaceAllString(k, "patch-_")
	return k
}
