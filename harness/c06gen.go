package main

// C06run's additions to the shared tree generator (gentree.go is unchanged):
// hostile content in EVERY file kind and hostile file/directory NAMES
// (portable filename characters plus space, non-ASCII letters, invalid UTF-8
// and ESC).

import (
	"fmt"
	"os"
	"path/filepath"
	"strings"
)

type c06Tree struct {
	*GenTree
	HostileFiles []string // relative paths with hostile names (files)
	HostilePkg   string   // a package directory with a hostile name ("" if none)
}

var c06Names = []string{
	"my file", "caf\xc3\xa9", "esc\x1b[31mred", "na\xc3\xafve name", "\xff\xfebad-utf8", "sp  ace", "uml\xc3\xa4ut-\xc3\xb6", "a+b,c=d@e", "tilde~name", "\xe2\x82\xaceuro",
	"bell\x07", "%percent", "-dash", "x\xc3", "plain-name_1.2",
}

func c06FileKind(rel string) string {
	base := filepath.Base(rel)
	switch {
	case strings.Contains(rel, "/patches/"):
		return "patch"
	case base == "Makefile" && strings.Count(rel, "/") == 2:
		return "pkg-Makefile"
	case base == "Makefile":
		return "other-Makefile"
	case base == "PLIST", base == "DESCR", base == "distinfo", base == "ALTERNATIVES", base == "buildlink3.mk", base == "options.mk", base == "Makefile.common":
		return base
	case strings.HasPrefix(rel, "doc/"):
		return "doc"
	case strings.HasPrefix(rel, "mk/"):
		return "mk-infra"
	case strings.HasSuffix(base, ".mk"):
		return "other-mk"
	}
	return "other"
}

// c06HostileLine: a line of the given file kind that carries hostile bytes where the kind's checks look.
func c06HostileLine(r *Rng, kind string) string {
	h := hostileString(r)
	h = strings.ReplaceAll(h, "\n", "") // a line, not several
	switch kind {
	case "pkg-Makefile", "other-mk", "Makefile.common", "buildlink3.mk", "options.mk", "other-Makefile", "mk-infra":
		return Pick(r, []string{"HOSTILE=\t" + h, "# " + h, h, ".if " + h, "CONFIGURE_ARGS+=\t--x=" + h + " \\", "\t${ECHO} " + h, ".include \"" + h + "\"", "SUBST_CLASSES+=\t" + h, "LICENSE=\t" + h, "USE_TOOLS+=\t" + h})
	case "PLIST":
		return Pick(r, []string{"bin/" + h, h, "@comment " + h, "${PLIST." + h + "}bin/x", "@exec " + h, "man/man1/" + h + ".1"})
	case "distinfo":
		return Pick(r, []string{"SHA1 (patch-" + h + ") = 1234", h, "SHA512 (" + h + ".tar.gz) = abcd", "Size (x.tar.gz) = " + h + " bytes"})
	case "patch":
		return Pick(r, []string{"+" + h, "-" + h, " " + h, h, "--- " + h, "@@ " + h})
	case "ALTERNATIVES":
		return Pick(r, []string{"bin/" + h + " @PREFIX@/bin/x", h, "bin/x " + h})
	case "doc":
		return Pick(r, []string{"\tUpdated cat/" + h + " to 1.0 [user 2018-01-01]", "\t" + h, h, "\tAdded " + h + " version " + h + " [" + h + " 2018-02-02]"})
	}
	return h
}

func c06Corrupt(r *Rng, g *GenTree, rel string) {
	kind := c06FileKind(rel)
	text := g.Read(rel)
	ls := strings.SplitAfter(text, "\n")
	if len(ls) > 0 && ls[len(ls)-1] == "" {
		ls = ls[:len(ls)-1]
	}
	for n := 1 + r.Intn(2); n > 0; n-- {
		switch r.Intn(8) {
		case 0, 1, 2: // a hostile line somewhere
			at := r.Intn(len(ls) + 1)
			ls = append(ls[:at], append([]string{c06HostileLine(r, kind) + "\n"}, ls[at:]...)...)
			g.feat("c06.line." + kind)
		case 3: // hostile bytes at the end of an existing line
			if len(ls) > 0 {
				at := r.Intn(len(ls))
				ls[at] = strings.TrimSuffix(ls[at], "\n") + strings.ReplaceAll(hostileString(r), "\n", "") + "\n"
				g.feat("c06.append." + kind)
			}
		case 4: // no final newline, after a hostile last line
			ls = append(ls, c06HostileLine(r, kind))
			g.feat("c06.nofinalnl." + kind)
		case 5: // CRLF
			for i := range ls {
				if r.Chance(50) && strings.HasSuffix(ls[i], "\n") {
					ls[i] = strings.TrimSuffix(ls[i], "\n") + "\r\n"
				}
			}
			g.feat("c06.crlf." + kind)
		case 6: // a continuation that runs into hostile lines / EOF
			ls = append(ls, "CONT=\tvalue \\\n", "\t"+strings.ReplaceAll(hostileString(r), "\n", "")+" \\\n", "\tlast"+Pick(r, []string{"\n", "", " \\\n", " \\"}))
			g.feat("c06.continuation." + kind)
		case 7:
			if r.Chance(30) {
				ls = nil // empty file
				g.feat("c06.empty." + kind)
			}
		}
	}
	g.Write(rel, strings.Join(ls, ""))
}

func c06MkBody(r *Rng) string {
	return lines(cvsID, "", "HOSTILE_VAR= value ", "CONT=\tfirst \\", "\tsecond \\", "\tthird", "CFLAGS+=\t-I$(PREFIX)/include", "UNUSED_"+fmt.Sprint(r.Intn(100))+"=\t${UNDEFINED_THING}",
		".if ${OPSYS} == NetBSD", "X=\ty", ".endif", "do-something:", "\techo "+strings.ReplaceAll(hostileString(r), "\n", "")) +
		Pick(r, []string{"", "NO_FINAL_NEWLINE=\tyes", "LAST=\tvalue \\"})
}

func c06GenTree(r *Rng, root string, index int) *c06Tree {
	g := GenerateTree(r, root, GenOpts{Packages: 1 + index%3, Hostile: true, Rich: index%5 == 0, Density: 30 + 10*(index%3)})
	t := &c06Tree{GenTree: g}
	if index%2 == 0 {
		// diagnostics in files that pkglint reaches through include chains over sibling directories: the printed
		// path is the normalised form of a raw path like cat/p0/../other/../../devel/lib/version.mk and must
		// still name the file (clause "the path names an existing file")
		if raws := addIncludeChainsC02(r, g); len(raws) > 0 {
			g.feat("c06.include-chain")
		}
	}
	// more file kinds: doc/CHANGES with entries, a license with hostile content, mk.conf
	g.put("doc/CHANGES-2018", lines("$"+"NetBSD$", "", "Changes to the packages collection and infrastructure in 2018:", "", "\tUpdated cat/p0 to 1.0 [user 2018-01-05]", "\tAdded cat/gone version 1 [user 2018-01-06]"))
	g.put("mk/defaults/mk.conf", lines(cvsID, "", "USER_A?=\tvalue", "#USER_B?=\tother"))
	g.put("mk/fetch/sites.mk", lines(cvsID, "", "MASTER_SITE_GNU+=\thttp://ftp.gnu.org/pub/gnu/"))
	// hostile content in every file kind
	files := append([]string{}, g.Files...)
	for _, rel := range files {
		kind := c06FileKind(rel)
		p := 45
		if kind == "mk-infra" || kind == "doc" {
			p = 15 // these can stop the run with FATAL; keep most runs alive
		}
		if r.Chance(p) {
			c06Corrupt(r, g, rel)
		}
	}
	// hostile names
	pick := func() string { return Pick(r, c06Names) }
	for _, p := range g.Pkgs {
		for n := 1 + r.Intn(3); n > 0; n-- {
			switch r.Intn(5) {
			case 0, 1:
				rel := p + "/" + pick() + ".mk"
				g.put(rel, c06MkBody(r))
				t.HostileFiles = append(t.HostileFiles, rel)
				g.feat("c06.name.mk")
			case 2:
				rel := p + "/patches/patch-" + pick()
				g.put(rel, patchBody(r, g, GenOpts{Hostile: true}))
				t.HostileFiles = append(t.HostileFiles, rel)
				g.feat("c06.name.patch")
			case 3:
				rel := p + "/files/" + pick()
				g.put(rel, "content "+hostileString(r)+"\n")
				g.feat("c06.name.files")
			case 4:
				rel := p + "/" + pick()
				g.put(rel, "unexpected file\n")
				t.HostileFiles = append(t.HostileFiles, rel)
				g.feat("c06.name.other")
			}
		}
	}
	if r.Chance(60) && len(g.Pkgs) > 0 {
		// a whole package under a hostile directory name
		src := g.Pkgs[r.Intn(len(g.Pkgs))]
		dst := "cat/" + pick()
		if err := CopyTree(g.Path(src), g.Path(dst)); err == nil {
			t.HostilePkg = dst
			g.put(dst+"/extra file.mk", c06MkBody(r))
			g.feat("c06.name.pkgdir")
		}
	}
	return t
}

// c06CountLines counts physical lines as pkglint does (files.go convertToLogicalLines:
// the non-empty pieces of strings.SplitAfter(text, "\n")).
func c06CountLines(path string) (int, bool) {
	b, err := os.ReadFile(path)
	if err != nil {
		return 0, false
	}
	n := strings.Count(string(b), "\n")
	if len(b) > 0 && b[len(b)-1] != '\n' {
		n++
	}
	return n, true
}
