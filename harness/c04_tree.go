package main

// In-memory trees for the whole-run checks of C04 and C16: a tree is a map
// path -> content (all regular files have mode 0644 in the generated trees),
// which can be written to a fresh directory any number of times ("identical
// copies"), hashed, put into a replay file and shrunk.

import (
	"crypto/sha256"
	"encoding/hex"
	"io/fs"
	"os"
	"path/filepath"
	"sort"
	"strings"
)

type c04Files map[string]string

func c04ReadTree(root string) c04Files {
	tf := c04Files{}
	filepath.Walk(root, func(p string, info fs.FileInfo, err error) error {
		if err != nil || !info.Mode().IsRegular() {
			return nil
		}
		rel, _ := filepath.Rel(root, p)
		b, err := os.ReadFile(p)
		if err == nil {
			tf[rel] = string(b)
		}
		return nil
	})
	return tf
}

func (tf c04Files) Materialize(root string) {
	os.RemoveAll(root)
	t := &Tree{Root: root}
	for rel, c := range tf {
		t.Write(rel, c)
	}
}

func (tf c04Files) Clone() c04Files {
	c := make(c04Files, len(tf))
	for k, v := range tf {
		c[k] = v
	}
	return c
}

func (tf c04Files) Hash() string {
	h := sha256.New()
	for _, k := range sortedKeys(tf) {
		h.Write([]byte(k))
		h.Write([]byte{0})
		h.Write([]byte(tf[k]))
		h.Write([]byte{0})
	}
	return hex.EncodeToString(h.Sum(nil))[:16]
}

func (tf c04Files) Size() int {
	n := 0
	for _, v := range tf {
		n += len(v)
	}
	return n
}

// Diff lists the paths whose content differs, was removed or was created.
func (tf c04Files) Diff(o c04Files) []string {
	var d []string
	for k, v := range tf {
		if w, ok := o[k]; !ok || w != v {
			d = append(d, k)
		}
	}
	for k := range o {
		if _, ok := tf[k]; !ok {
			d = append(d, k)
		}
	}
	sort.Strings(d)
	return d
}

// ToReplay / FromReplay: only the files that differ from the base fixture are
// stored (hex), plus the list of base files that were removed.
func (tf c04Files) ToReplay(base c04Files) map[string]any {
	files := map[string]any{}
	for k, v := range tf {
		if b, ok := base[k]; !ok || b != v {
			files[k] = hx(v)
		}
	}
	var removed []any
	for k := range base {
		if _, ok := tf[k]; !ok {
			removed = append(removed, k)
		}
	}
	return map[string]any{"files": files, "removed_from_base": removed}
}

func c04TreeFromReplay(base c04Files, rep map[string]any) c04Files {
	tf := base.Clone()
	if rm, ok := rep["removed_from_base"].([]any); ok {
		for _, k := range rm {
			if s, ok := k.(string); ok {
				delete(tf, s)
			}
		}
	}
	if files, ok := rep["files"].(map[string]any); ok {
		for k, v := range files {
			if s, ok := v.(string); ok {
				tf[k] = unhx(s)
			}
		}
	}
	return tf
}

// c04BaseTree: the fixture of tree.go plus what GenerateTree always adds.
func c04BaseTree(scratch string) c04Files {
	root := filepath.Join(scratch, "basefixture")
	NewBaseTree(root)
	tf := c04ReadTree(root)
	os.RemoveAll(root)
	return tf
}

// c04ShrinkTree greedily removes packages, files and lines as long as bad() stays
// true; budget = maximal number of evaluations of bad.
func c04ShrinkTree(tf c04Files, base c04Files, budget int, bad func(c04Files) bool) c04Files {
	cur := tf.Clone()
	try := func(c c04Files) bool {
		if budget <= 0 {
			return false
		}
		budget--
		if bad(c) {
			cur = c
			return true
		}
		return false
	}
	// 1. packages: every directory cat/<x> that is not part of the base fixture
	pkgs := map[string]bool{}
	for k := range cur {
		parts := strings.Split(k, "/")
		if len(parts) >= 3 && parts[0] == "cat" {
			pkgs[parts[0]+"/"+parts[1]] = true
		}
	}
	for _, p := range sortedKeys(pkgs) {
		c := cur.Clone()
		for k := range c {
			if strings.HasPrefix(k, p+"/") {
				delete(c, k)
			}
		}
		if mk, ok := c["cat/Makefile"]; ok {
			var ls []string
			for _, l := range strings.SplitAfter(mk, "\n") {
				if strings.TrimRight(l, "\n") != "SUBDIR+=\t"+filepath.Base(p) {
					ls = append(ls, l)
				}
			}
			c["cat/Makefile"] = strings.Join(ls, "")
		}
		if len(pkgs) > 1 {
			try(c)
		}
	}
	// 2. files that are not in the base fixture
	for _, k := range sortedKeys(cur) {
		if _, inBase := base[k]; inBase {
			continue
		}
		c := cur.Clone()
		delete(c, k)
		try(c)
	}
	// 3. lines of the files that differ from the base fixture: halves, then single lines
	for _, k := range sortedKeys(cur) {
		if b, inBase := base[k]; inBase && b == cur[k] {
			continue
		}
		for chunk := 8; chunk >= 1; chunk /= 2 {
			i := 0
			for {
				ls := strings.SplitAfter(cur[k], "\n")
				if len(ls) > 0 && ls[len(ls)-1] == "" {
					ls = ls[:len(ls)-1]
				}
				if i >= len(ls) || budget <= 0 {
					break
				}
				j := i + chunk
				if j > len(ls) {
					j = len(ls)
				}
				c := cur.Clone()
				c[k] = strings.Join(append(append([]string{}, ls[:i]...), ls[j:]...), "")
				if !try(c) {
					i += chunk
				}
			}
		}
	}
	return cur
}
