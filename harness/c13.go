package main

import (
	"fmt"
	"strings"

	pkglint "github.com/rillig/pkglint/v23"
	"github.com/rillig/pkglint/v23/makepat"
)

// C13: makepat.Compile/Match/Intersect/CanMatch/Number and mayMatchNumber
// against the extracted model (Model/Makepat.v) and the extracted
// specifications (Spec/StrMatch.v: bmake's Str_Match and `malformed`;
// Spec/CNumber.v: the C99 number grammar).  The implementation is compared
// with both, so that a disagreement can be classified: implementation != spec
// is a failing input for the property, implementation != model with the spec
// still satisfied is a broken correspondence.

const c13Alphabet = "ab09*?[]^-\\."
const c13Others = "5Q" // '5' lies inside 0-9, 'Q' between '9'/'?' and '['/'a'
const c13NumAlphabet = "+-019.eExXafp"

const (
	c13KeyMatch     = "C13/match/differs-from-strmatch"
	c13KeyTricky    = "C13/match/list-range-ending-in-rbracket"
	c13KeyOverflow  = "C13/compile/stateid-wraps-at-65536"
	c13KeyOverflowI = "C13/intersect/stateid-wraps-at-65536"
	c13KeyCompile   = "C13/compile/error-iff-malformed"
	c13KeyIsect     = "C13/intersect/not-the-conjunction"
	c13KeyCanMatch  = "C13/canmatch/not-exact"
	c13KeyNumber    = "C13/number/differs-from-c99"
	c13KeyMMN       = "C13/mayMatchNumber/unsound"
)

// ---------- the implementation, with panics as observations ----------

func c13Compile(p string) (pat *makepat.Pattern, status byte) {
	defer func() {
		if r := recover(); r != nil {
			pat, status = nil, 'P'
		}
	}()
	pat, err := makepat.Compile(p)
	if err != nil {
		return nil, 'E'
	}
	return pat, 'K'
}

func c13Match(pat *makepat.Pattern, s string) (b byte) {
	defer func() {
		if r := recover(); r != nil {
			b = 'P'
		}
	}()
	if pat.Match(s) {
		return '1'
	}
	return '0'
}

func c13CanMatch(pat *makepat.Pattern) (b byte) {
	defer func() {
		if r := recover(); r != nil {
			b = 'P'
		}
	}()
	if pat.CanMatch() {
		return '1'
	}
	return '0'
}

func c13Intersect(p, q *makepat.Pattern) (res *makepat.Pattern, status byte) {
	defer func() {
		if r := recover(); r != nil {
			res, status = nil, 'P'
		}
	}()
	return makepat.Intersect(p, q), 'K'
}

func c13Bits(pat *makepat.Pattern, ws []string) string {
	b := make([]byte, len(ws))
	for i, w := range ws {
		b[i] = c13Match(pat, w)
	}
	return string(b)
}

// ---------- word enumeration (same order as oracle/c13.ml) ----------

func c13Words(alpha string, maxlen int) []string {
	out := []string{""}
	prev := []string{""}
	for k := 1; k <= maxlen; k++ {
		next := make([]string, 0, len(prev)*len(alpha))
		for _, w := range prev {
			for i := 0; i < len(alpha); i++ {
				next = append(next, w+alpha[i:i+1])
			}
		}
		out = append(out, next...)
		prev = next
	}
	return out
}

func c13AlphaFor(ps ...string) string {
	var sb strings.Builder
	seen := [256]bool{}
	for _, p := range ps {
		for i := 0; i < len(p); i++ {
			if !seen[p[i]] {
				seen[p[i]] = true
				sb.WriteByte(p[i])
			}
		}
	}
	for i := 0; i < len(c13Others); i++ {
		if !seen[c13Others[i]] {
			sb.WriteByte(c13Others[i])
		}
	}
	return sb.String()
}

func hxs(ws []string) string {
	hs := make([]string, len(ws))
	for i, w := range ws {
		hs[i] = hx(w)
	}
	return strings.Join(hs, " ")
}

// ---------- pattern features (for the measured distribution only) ----------

// (driven by the spec's verdict, not by the implementation's: the coverage
// floors measure the generators, a mutated implementation must not move them)
func c13Features(res *Result, p string, malformed bool) {
	if malformed {
		res.Count("patterns_rejected", 1)
		return
	}
	res.Count("patterns_compiled", 1)
	if strings.Contains(p, "*") {
		res.Count("patterns_with_star", 1)
	}
	if strings.Contains(p, "?") {
		res.Count("patterns_with_question", 1)
	}
	if strings.Contains(p, "\\") {
		res.Count("patterns_with_backslash", 1)
	}
	if strings.Contains(p, "[") && strings.Contains(p, "]") {
		res.Count("patterns_with_bracket", 1)
	}
	if strings.Contains(p, "[^") {
		res.Count("patterns_with_caret_list", 1)
	}
	for i := 1; i+1 < len(p); i++ {
		if p[i] == '-' && p[i-1] > p[i+1] && strings.LastIndexByte(p[:i], '[') >= 0 {
			res.Count("patterns_with_reversed_range_text", 1)
			break
		}
	}
}

func c13Nontrivial(p string) bool { return strings.ContainsAny(p, "*?[\\") }

// ---------- single patterns ----------

type c13Case struct {
	p  string
	ws []string // nil: enumerate alpha/maxlen
	// enumeration
	alpha  string
	maxlen int
}

func (c *c13Case) words() []string {
	if c.ws != nil {
		return c.ws
	}
	return c13Words(c.alpha, c.maxlen)
}

func (c *c13Case) request() string {
	if c.ws != nil {
		return "ms " + hx(c.p) + " " + hxs(c.ws)
	}
	return fmt.Sprintf("pm %s %s %d", hx(c.p), hx(c.alpha), c.maxlen)
}

// c13CheckPatterns: Compile and Match of the implementation against model and spec.
func c13CheckPatterns(ctx *Ctx, res *Result, cases []c13Case, kind string) {
	reqs := make([]string, len(cases))
	status := make([]byte, len(cases))
	bits := make([]string, len(cases))
	parallelFor(16, func(w int) {
		for i := w; i < len(cases); i += 16 {
			c := &cases[i]
			reqs[i] = c.request()
			pat, st := c13Compile(c.p)
			status[i] = st
			if st == 'K' {
				bits[i] = c13Bits(pat, c.words())
			}
		}
	})
	ans, err := runOracle(ctx, "c13", reqs)
	if err != nil {
		res.Broken = err.Error()
		return
	}
	nontrivial := 0
	for i := range cases {
		c := &cases[i]
		f := strings.Fields(ans[i])
		if len(f) != 5 || len(f[0]) != 1 {
			res.Broken = "oracle answer " + q(ans[i]) + " to " + q(reqs[i])
			return
		}
		mstatus, malformed, tricky, mbits, sbits := f[0][0], f[1] == "1", f[2] == "1", f[3], f[4]
		c13Features(res, c.p, malformed)
		res.Evaluations++
		// (1) Compile: error iff malformed
		if (status[i] == 'E') != malformed || status[i] == 'P' {
			res.AddViolation(Violation{
				Key:        c13KeyCompile,
				What:       fmt.Sprintf("Compile(%q): implementation %c, but bmake calls the pattern %s", c.p, status[i], map[bool]string{true: "malformed", false: "well-formed"}[malformed]),
				FoundInput: true, Size: len(c.p),
				Replay: map[string]any{"kind": "pattern", "p": hx(c.p), "s": []string{"-"}, "impl": string(status[i]), "malformed": malformed},
			})
		}
		if status[i] != mstatus {
			res.AddViolation(Violation{
				Key:        "C13/correspondence/compile-" + kind,
				What:       fmt.Sprintf("Compile(%q): implementation %c, model %c", c.p, status[i], mstatus),
				FoundInput: false, Size: len(c.p),
				Replay: map[string]any{"kind": "pattern", "p": hx(c.p), "s": []string{"-"}, "impl": string(status[i]), "model": string(mstatus),
					"broken": "correspondence makepat.Compile = Model.Makepat.compile"},
			})
		}
		if status[i] != 'K' || mstatus != 'K' {
			continue
		}
		ws := c.words()
		if len(mbits) != len(ws) || len(sbits) != len(ws) {
			res.Broken = fmt.Sprintf("oracle answered %d/%d bits for %d words", len(mbits), len(sbits), len(ws))
			return
		}
		nt := c13Nontrivial(c.p)
		nTrue := 0
		for j, w := range ws {
			ib := bits[i][j]
			if sbits[j] == '1' {
				nTrue++
			}
			if ib != sbits[j] {
				key := c13KeyMatch
				if tricky {
					key = c13KeyTricky
				}
				res.AddViolation(Violation{
					Key:        key,
					What:       fmt.Sprintf("Compile(%q).Match(%q) = %c, but bmake's Str_Match gives %c", c.p, w, ib, sbits[j]),
					FoundInput: true, Size: len(c.p) + len(w),
					Replay: map[string]any{"kind": "pattern", "p": hx(c.p), "s": []string{hx(w)}, "impl": string(ib), "str_match": string(sbits[j])},
				})
			}
			if ib != mbits[j] {
				res.AddViolation(Violation{
					Key:        "C13/correspondence/match-" + kind,
					What:       fmt.Sprintf("Compile(%q).Match(%q) = %c, model %c (Str_Match %c)", c.p, w, ib, mbits[j], sbits[j]),
					FoundInput: false, Size: len(c.p) + len(w),
					Replay: map[string]any{"kind": "pattern", "p": hx(c.p), "s": []string{hx(w)}, "impl": string(ib), "model": string(mbits[j]),
						"broken": "correspondence Pattern.Match = Model.Makepat.matchp"},
				})
			}
		}
		res.Count("matches_true", nTrue)
		res.Evaluations += len(ws)
		res.TracesValidated += len(ws)
		if nt {
			nontrivial += len(ws)
		}
	}
	res.DistinctNontrivial += nontrivial
	res.Count("cases_"+kind, len(cases))
}

// ---------- pairs: Intersect and CanMatch ----------

type c13Pair struct {
	p, q   string
	ws     []string
	alpha  string
	maxlen int
	exact  bool // the enumerated words decide "some string is matched by both"
}

func (c *c13Pair) words() []string {
	if c.ws != nil {
		return c.ws
	}
	return c13Words(c.alpha, c.maxlen)
}

func c13CheckPairs(ctx *Ctx, res *Result, pairs []c13Pair, kind string) {
	reqs := make([]string, len(pairs))
	status := make([]byte, len(pairs))
	bits := make([]string, len(pairs))
	can := make([]byte, len(pairs))
	parallelFor(16, func(w int) {
		for i := w; i < len(pairs); i += 16 {
			c := &pairs[i]
			if c.ws != nil {
				reqs[i] = "ixs " + hx(c.p) + " " + hx(c.q) + " " + hxs(c.ws)
			} else {
				reqs[i] = fmt.Sprintf("ix %s %s %s %d", hx(c.p), hx(c.q), hx(c.alpha), c.maxlen)
			}
			p1, s1 := c13Compile(c.p)
			p2, s2 := c13Compile(c.q)
			if s1 != 'K' || s2 != 'K' {
				status[i] = 'E'
				continue
			}
			both, st := c13Intersect(p1, p2)
			status[i] = st
			if st == 'K' {
				bits[i] = c13Bits(both, c.words())
				can[i] = c13CanMatch(both)
			}
		}
	})
	ans, err := runOracle(ctx, "c13", reqs)
	if err != nil {
		res.Broken = err.Error()
		return
	}
	for i := range pairs {
		c := &pairs[i]
		f := strings.Fields(ans[i])
		if len(f) < 5 || len(f[0]) != 1 || len(f[1]) != 1 {
			res.Broken = "oracle answer " + q(ans[i]) + " to " + q(reqs[i])
			return
		}
		mstatus, mcan, mbits, sbits := f[0][0], f[1][0], f[3], f[4]
		tricky := len(f) > 5 && f[5] == "1"
		res.Evaluations++
		if mstatus == 'K' && mcan == '1' {
			res.Count("canmatch_true", 1)
		} else if mstatus == 'K' {
			res.Count("canmatch_false", 1)
		}
		if status[i] != mstatus {
			res.AddViolation(Violation{
				Key:        "C13/correspondence/intersect-status-" + kind,
				What:       fmt.Sprintf("Intersect(%q, %q): implementation %c, model %c", c.p, c.q, status[i], mstatus),
				FoundInput: status[i] == 'P', Size: len(c.p) + len(c.q),
				Replay: map[string]any{"kind": "pair", "p": hx(c.p), "q": hx(c.q), "s": []string{"-"}, "impl": string(status[i]), "model": string(mstatus),
					"broken": "correspondence makepat.Intersect = Model.Makepat.intersect"},
			})
			continue
		}
		if status[i] != 'K' {
			continue
		}
		ws := c.words()
		if len(mbits) != len(ws) || len(sbits) != len(ws) {
			res.Broken = fmt.Sprintf("oracle answered %d/%d bits for %d words", len(mbits), len(sbits), len(ws))
			return
		}
		witness := ""
		haveWitness := false
		for j, w := range ws {
			ib := bits[i][j]
			if sbits[j] == '1' && !haveWitness {
				witness, haveWitness = w, true
			}
			if ib != sbits[j] {
				key := c13KeyIsect
				if tricky { // Match itself deviates there, see c13KeyTricky
					key = c13KeyTricky
				}
				res.AddViolation(Violation{
					Key:        key,
					What:       fmt.Sprintf("Intersect(%q, %q).Match(%q) = %c, but Str_Match says both match: %c", c.p, c.q, w, ib, sbits[j]),
					FoundInput: true, Size: len(c.p) + len(c.q) + len(w),
					Replay: map[string]any{"kind": "pair", "p": hx(c.p), "q": hx(c.q), "s": []string{hx(w)}, "impl": string(ib), "both_str_match": string(sbits[j])},
				})
			}
			if ib != mbits[j] {
				res.AddViolation(Violation{
					Key:        "C13/correspondence/intersect-match-" + kind,
					What:       fmt.Sprintf("Intersect(%q, %q).Match(%q) = %c, model %c", c.p, c.q, w, ib, mbits[j]),
					FoundInput: false, Size: len(c.p) + len(c.q) + len(w),
					Replay: map[string]any{"kind": "pair", "p": hx(c.p), "q": hx(c.q), "s": []string{hx(w)}, "impl": string(ib), "model": string(mbits[j]),
						"broken": "correspondence Intersect(p,q).Match = Model.Makepat.matchp (intersect p q)"},
				})
			}
		}
		// CanMatch against the spec: some word is matched by both
		ckey := c13KeyCanMatch
		if tricky {
			ckey = c13KeyTricky
		}
		if haveWitness && can[i] != '1' {
			res.AddViolation(Violation{
				Key:        ckey,
				What:       fmt.Sprintf("Intersect(%q, %q).CanMatch() = %c although both match %q", c.p, c.q, can[i], witness),
				FoundInput: true, Size: len(c.p) + len(c.q) + len(witness),
				Replay: map[string]any{"kind": "pair", "p": hx(c.p), "q": hx(c.q), "s": []string{hx(witness)}, "impl_canmatch": string(can[i])},
			})
		} else if !haveWitness && c.exact && can[i] != '0' {
			res.AddViolation(Violation{
				Key:        ckey,
				What:       fmt.Sprintf("Intersect(%q, %q).CanMatch() = %c although no string is matched by both (all words up to length %d over %q)", c.p, c.q, can[i], c.maxlen, c.alpha),
				FoundInput: true, Size: len(c.p) + len(c.q),
				Replay: map[string]any{"kind": "pair", "p": hx(c.p), "q": hx(c.q), "alpha": hx(c.alpha), "maxlen": c.maxlen, "exact": true, "impl_canmatch": string(can[i])},
			})
		}
		if can[i] != mcan {
			res.AddViolation(Violation{
				Key:        "C13/correspondence/canmatch-" + kind,
				What:       fmt.Sprintf("Intersect(%q, %q).CanMatch() = %c, model %c", c.p, c.q, can[i], mcan),
				FoundInput: false, Size: len(c.p) + len(c.q),
				Replay: map[string]any{"kind": "pair", "p": hx(c.p), "q": hx(c.q), "s": []string{"-"}, "impl": string(can[i]), "model": string(mcan),
					"broken": "correspondence Pattern.CanMatch = Model.Makepat.can_match"},
			})
		}
		res.Evaluations += len(ws)
		res.TracesValidated += len(ws) + 1
		res.DistinctNontrivial += len(ws)
	}
	res.Count("pairs_"+kind, len(pairs))
}

// ---------- Number() ----------

func c13CheckNumber(ctx *Ctx, res *Result, reqs []string, words [][]string, kind string) {
	num := makepat.Number()
	ans, err := runOracle(ctx, "c13", reqs)
	if err != nil {
		res.Broken = err.Error()
		return
	}
	for i, ws := range words {
		f := strings.Fields(ans[i])
		if len(f) != 2 || len(f[0]) != len(ws) || len(f[1]) != len(ws) {
			res.Broken = "oracle answer " + q(ans[i]) + " to " + q(reqs[i])
			return
		}
		ibits := c13Bits(num, ws)
		for j, w := range ws {
			if f[1][j] == '1' {
				res.Count("number_true", 1)
			}
			if ibits[j] != f[1][j] {
				res.AddViolation(Violation{
					Key:        c13KeyNumber,
					What:       fmt.Sprintf("Number().Match(%q) = %c, but the C99 grammar says %c", w, ibits[j], f[1][j]),
					FoundInput: true, Size: len(w),
					Replay: map[string]any{"kind": "number", "s": []string{hx(w)}, "impl": string(ibits[j]), "c99": string(f[1][j])},
				})
			}
			if ibits[j] != f[0][j] {
				res.AddViolation(Violation{
					Key:        "C13/correspondence/number-" + kind,
					What:       fmt.Sprintf("Number().Match(%q) = %c, model (regenerated table) %c", w, ibits[j], f[0][j]),
					FoundInput: false, Size: len(w),
					Replay: map[string]any{"kind": "number", "s": []string{hx(w)}, "impl": string(ibits[j]), "model": string(f[0][j]),
						"broken": "correspondence Number().Match = matchp Gen.number_table"},
				})
			}
		}
		res.Evaluations += len(ws)
		res.TracesValidated += len(ws)
		res.DistinctNontrivial += len(ws)
	}
	res.Count("number_words_"+kind, func() int {
		n := 0
		for _, ws := range words {
			n += len(ws)
		}
		return n
	}())
}

// ---------- mayMatchNumber ----------

const c13MMNWitnessAlpha = "+01.ex"

func c13CheckMMN(ctx *Ctx, res *Result, pats []string, kind string) {
	type obs struct {
		may, isErr bool
		panicked   string
	}
	impl := make([]obs, len(pats))
	reqs := make([]string, len(pats))
	parallelFor(16, func(w int) {
		for i := w; i < len(pats); i += 16 {
			m, e, p := pkglint.VerifMayMatchNumber(pats[i])
			impl[i] = obs{m, e, p}
			reqs[i] = "mmn " + hx(pats[i])
		}
	})
	ans, err := runOracle(ctx, "c13", reqs)
	if err != nil {
		res.Broken = err.Error()
		return
	}
	var sreqs []string
	var sidx []int
	for i, p := range pats {
		got := "P"
		if impl[i].panicked == "" {
			got = map[bool]string{true: "1", false: "0"}[impl[i].may] + " " + map[bool]string{true: "1", false: "0"}[impl[i].isErr]
		}
		switch ans[i] {
		case "1 0":
			res.Count("mmn_true", 1)
		case "0 0":
			res.Count("mmn_false", 1)
		case "1 1":
			res.Count("mmn_error", 1)
		}
		if got != ans[i] {
			res.AddViolation(Violation{
				Key:        "C13/correspondence/mayMatchNumber-" + kind,
				What:       fmt.Sprintf("mayMatchNumber(%q) = %s, model %s", p, got, ans[i]),
				FoundInput: got == "P", Size: len(p),
				Replay: map[string]any{"kind": "mmn", "p": hx(p), "impl": got, "model": ans[i],
					"broken": "correspondence mayMatchNumber = Model.Makepat.may_match_number"},
			})
		}
		if got == "0 0" {
			sreqs = append(sreqs, fmt.Sprintf("both %s %s 4", hx(p), hx(c13MMNWitnessAlpha)))
			sidx = append(sidx, i)
		}
		res.Evaluations++
		res.TracesValidated++
	}
	sans, err := runOracle(ctx, "c13", sreqs)
	if err != nil {
		res.Broken = err.Error()
		return
	}
	for k, a := range sans {
		if a != "none" {
			p := pats[sidx[k]]
			res.AddViolation(Violation{
				Key:        c13KeyMMN,
				What:       fmt.Sprintf("mayMatchNumber(%q) = false, but the pattern matches the number %q", p, unhx(a)),
				FoundInput: true, Size: len(p) + len(unhx(a)),
				Replay: map[string]any{"kind": "mmn", "p": hx(p), "witness": a},
			})
		}
		res.Evaluations += 1555
	}
	res.Count("mmn_"+kind, len(pats))
}

// ---------- very long patterns and large products (stateID was a uint16 until the fix
// "makepat: do not let state numbers wrap around at 65536"): implementation against the
// spec only, the list-based model is quadratic ----------

func c13CheckOverflow(ctx *Ctx, res *Result) {
	big := strings.Repeat("a", 65536)
	pat, st := c13Compile(big)
	ans, err := runOracle(ctx, "c13", []string{"sm " + hx(big) + " -", "sm " + hx(big) + " " + hx(big)})
	if err != nil {
		res.Broken = err.Error()
		return
	}
	for i, w := range []string{"", big} {
		f := strings.Fields(ans[i])
		if len(f) != 3 {
			res.Broken = "oracle answer " + q(ans[i])
			return
		}
		ib := byte('E')
		if st == 'K' {
			ib = c13Match(pat, w)
		}
		if string(ib) != f[2] {
			res.AddViolation(Violation{
				Key:        c13KeyOverflow,
				What:       fmt.Sprintf("Compile(\"a\" x 65536).Match(\"a\" x %d) = %c, but Str_Match gives %s: stateID is a uint16 and wraps around", len(w), ib, f[2]),
				FoundInput: true, Size: 65536 + len(w),
				Replay: map[string]any{"kind": "overflow", "n": 65536, "slen": len(w), "impl": string(ib), "str_match": f[2]},
			})
		}
		res.Evaluations++
	}
	// Intersect of two patterns with 257 states each: more than 65536 product states
	qs := strings.Repeat("?", 256)
	p1, s1 := c13Compile(qs)
	p2, s2 := c13Compile(qs)
	if s1 == 'K' && s2 == 'K' {
		both, st := c13Intersect(p1, p2)
		if st == 'K' {
			m := c13Match(both, qs)
			cm := c13CanMatch(both)
			if m != '1' || cm != '1' {
				res.AddViolation(Violation{
					Key:        c13KeyOverflowI,
					What:       fmt.Sprintf("Intersect(\"?\" x 256, \"?\" x 256).Match(\"?\" x 256) = %c, CanMatch = %c, but both patterns match that string: the product has more than 65536 states and stateID wraps around", m, cm),
					FoundInput: true, Size: 3 * 256,
					Replay: map[string]any{"kind": "overflow-intersect", "n": 256, "impl_match": string(m), "impl_canmatch": string(cm)},
				})
			}
		}
		res.Evaluations++
	}
}

// ---------- generators ----------

func c13AllStrings(alpha string, maxlen int) []string { return c13Words(alpha, maxlen) }

// corpus: always run first
var c13Corpus = []struct {
	p  string
	ws []string
}{
	{"[a-]]", []string{"a", "]", "a]", "]]", "^", "^]", "x", ""}},
	{"[^a-]]", []string{"a", "]", "a]", "x", "x]", "^", ""}},
	{"*[a-]]*", []string{"a", "xa]y", "]", "]]", "x"}},
	{"[\\-]]", []string{"{", "\\", "]", "^", "\\]", "]]"}},
	{"[[-]]", []string{"[", "]", "\\", "[]", "\\]", "]]"}},
	{"[9-0]", []string{"0", "5", "9", ":", "/"}},
	{"[^]", []string{"", "a", "]", "ab"}},
	{"[]", []string{"", "a", "]"}},
	{"[]a]", []string{"a", "]", "a]", "]a"}},
	{"[^]a]", []string{"xa]", "a", "]"}},
	{"[a-]", []string{"a"}},
	{"[a-", []string{"a"}},
	{"a\\", []string{"a", "a\\"}},
	{"\\\\", []string{"\\", "\\\\"}},
	{"[\\]]", []string{"\\]", "]", "\\"}},
	{"[\x00-\xff]", []string{"\x00", "\xff", "a", ""}},
	{"[^\x00-\xff]", []string{"\x00", "\xff", "a", ""}},
	{"[\xff-\x00]", []string{"\x00", "\xff", "a"}},
	{"\xc3\xa4*", []string{"\xc3\xa4", "\xc3", "\xc3\xa4\xc3\xa4", "\xa4"}},
	{"[\xc3\xa4]", []string{"\xc3", "\xa4", "\xc3\xa4"}},
	{"***", []string{"", "a", "abc"}},
	{"*a*b*", []string{"ab", "ba", "xaxbx", "aab", "b"}},
	{"*.[ch]", []string{"a.c", "a.h", ".c", "a.x", "a.c.h", "a.ch"}},
	{"NetBSD-??.[^0-9]", []string{"NetBSD-10.x", "NetBSD-10.9", "NetBSD-1.x"}},
	{"[-a]", []string{"-", "a", "b"}},
	{"[a-]b", []string{"ab"}},
	{"[--0]", []string{"-", ".", "/", "0", "1", ","}},
	{"[a-c-e]", []string{"a", "b", "c", "d", "e", "-"}},
	{"[^^]", []string{"^", "a"}},
	{"[a^]", []string{"^", "a", "b"}},
	{"?*?", []string{"", "a", "ab", "abc"}},
}

// a random pattern together with words that are likely to match
func c13RandomCase(rng *Rng) c13Case {
	lits := "ab0159.-]^xz_"
	var pat strings.Builder
	type elem struct {
		kind  byte // l literal, q ?, s *, c class
		lit   byte
		neg   bool
		chars [256]bool
	}
	var elems []elem
	n := 3 + rng.Intn(8)
	anyByte := func() byte {
		switch {
		case rng.Chance(8):
			return byte(128 + rng.Intn(128))
		case rng.Chance(4):
			return byte(1 + rng.Intn(255))
		default:
			return lits[rng.Intn(len(lits))]
		}
	}
	for i := 0; i < n; i++ {
		switch r := rng.Intn(100); {
		case r < 18:
			pat.WriteByte('*')
			elems = append(elems, elem{kind: 's'})
		case r < 28:
			pat.WriteByte('?')
			elems = append(elems, elem{kind: 'q'})
		case r < 36:
			c := anyByte()
			if rng.Chance(30) {
				c = "*?[\\]"[rng.Intn(5)]
			}
			pat.WriteByte('\\')
			pat.WriteByte(c)
			elems = append(elems, elem{kind: 'l', lit: c})
		case r < 62:
			var e elem
			e.kind = 'c'
			pat.WriteByte('[')
			if rng.Chance(35) {
				e.neg = true
				pat.WriteByte('^')
			}
			k := rng.Intn(4)
			for j := 0; j < k; j++ {
				c := anyByte()
				for c == ']' {
					c = anyByte()
				}
				if rng.Chance(45) {
					d := anyByte()
					if d == ']' && !rng.Chance(25) { // ranges ending in ']' are the known finding: keep them rare
						d = 'z'
					}
					pat.WriteByte(c)
					pat.WriteByte('-')
					pat.WriteByte(d)
					lo, hi := c, d
					if lo > hi {
						lo, hi = hi, lo
					}
					for x := int(lo); x <= int(hi); x++ {
						e.chars[x] = true
					}
				} else {
					pat.WriteByte(c)
					e.chars[c] = true
				}
			}
			pat.WriteByte(']')
			elems = append(elems, e)
		default:
			c := anyByte()
			for strings.IndexByte("*?[\\", c) >= 0 {
				c = anyByte()
			}
			pat.WriteByte(c)
			elems = append(elems, elem{kind: 'l', lit: c})
		}
	}
	p := pat.String()
	if rng.Chance(6) && len(p) > 1 { // malformed stream: cut the pattern somewhere
		p = p[:1+rng.Intn(len(p)-1)]
	}
	if rng.Chance(3) {
		p += "\\"
	}
	gen := func() string {
		var sb strings.Builder
		for _, e := range elems {
			switch e.kind {
			case 's':
				for k := rng.Intn(3); k > 0; k-- {
					sb.WriteByte(anyByte())
				}
			case 'q':
				sb.WriteByte(anyByte())
			case 'l':
				if rng.Chance(92) {
					sb.WriteByte(e.lit)
				} else {
					sb.WriteByte(anyByte())
				}
			case 'c':
				want := !e.neg
				if rng.Chance(8) {
					want = !want
				}
				start := rng.Intn(256)
				found := false
				for d := 0; d < 256; d++ {
					x := (start + d*37) % 256
					if e.chars[x] == want {
						sb.WriteByte(byte(x))
						found = true
						break
					}
				}
				if !found {
					sb.WriteByte(anyByte())
				}
			}
		}
		s := sb.String()
		if rng.Chance(10) && len(s) > 0 {
			s = s[:rng.Intn(len(s))]
		}
		if rng.Chance(10) {
			s += string([]byte{anyByte()})
		}
		return s
	}
	ws := make([]string, 0, 12)
	for k := 0; k < 12; k++ {
		ws = append(ws, gen())
	}
	return c13Case{p: p, ws: ws}
}

func c13RandomNumberish(rng *Rng) string {
	var sb strings.Builder
	pick := func(s string) { sb.WriteByte(s[rng.Intn(len(s))]) }
	digits := func(set string, min int) {
		for k := min + rng.Intn(4); k > 0; k-- {
			pick(set)
		}
	}
	if rng.Chance(30) {
		pick("+-")
	}
	hexa := rng.Chance(40)
	set := "0123456789"
	if hexa {
		sb.WriteByte('0')
		pick("xX")
		set = "0123456789abcdefABCDEF"
	}
	digits(set, 0)
	if rng.Chance(50) {
		sb.WriteByte('.')
		digits(set, 0)
	}
	if rng.Chance(50) {
		if hexa {
			pick("pPpPe")
		} else {
			pick("eEeEp")
		}
		if rng.Chance(40) {
			pick("+-")
		}
		digits("0123456789", 0)
	}
	s := sb.String()
	if rng.Chance(15) && len(s) > 0 { // one byte mutated
		b := []byte(s)
		b[rng.Intn(len(b))] = c13NumAlphabet[rng.Intn(len(c13NumAlphabet))]
		s = string(b)
	}
	if rng.Chance(5) {
		s += string([]byte{byte(rng.Intn(256))})
	}
	return s
}

// ---------- run ----------

func runC13(ctx *Ctx) *Result {
	res := &Result{Rule: "a case is (pattern, word) for Compile+Match, (p, q, word) for Intersect/CanMatch, a word for Number(), a pattern for mayMatchNumber; " +
		"Intersect trees: all ordered triples of patterns of <=2 bytes over {a * ?} (thorough: {a b * ?}) in both association orders x all words of <=4 bytes over {a b}, then seeded random trees of 3-5 leaves (leaves: patterns of <=4 bytes over {a b *}, random patterns, Number()); exhaustive: all patterns of <=L bytes over {a b 0 9 * ? [ ] ^ - \\ .} x all words of <=3 bytes over the bytes of the pattern plus '5' and 'Q'; all ordered pairs of compilable patterns of <=M bytes x the same words; all words of <=5 bytes over {+ - 0 1 9 . e E x X a f p} for Number(); all patterns of <=3 bytes over {0 1 . e x + - * ? [ ] ^ a \\} for mayMatchNumber; " +
		"then a fixed corpus and seeded random patterns of 3-10 elements (lists, ranges in both orders, bytes >= 0x80, cut-off patterns) with 12 words each derived from the pattern; " +
		"non-trivial = the pattern contains one of * ? [ \\ (single patterns), every (p, q, word) and every Number() word; counted per distinct case"}
	rng := NewRng(ctx.Seed)
	patLen, pairLen, nrand, nrandPairs, nrandNum, mmnLen := 4, 2, 30000, 5000, 50000, 3
	wordLen := 3
	if ctx.Tier == "thorough" {
		patLen, pairLen, nrand, nrandPairs, nrandNum = 5, 3, 300000, 30000, 300000
	}

	// (0) corpus and the two overflow cases
	var corpus []c13Case
	for _, c := range c13Corpus {
		corpus = append(corpus, c13Case{p: c.p, ws: c.ws})
	}
	c13CheckPatterns(ctx, res, corpus, "corpus")
	c13CheckOverflow(ctx, res)
	if res.Broken != "" {
		return res
	}

	// (1) all short patterns x all short words
	pats := c13AllStrings(c13Alphabet, patLen)
	cases := make([]c13Case, len(pats))
	for i, p := range pats {
		wl := wordLen
		if len(p) == 5 { // thorough: keep the product in bounds
			wl = 3
		} else if ctx.Tier == "thorough" {
			wl = 4
		}
		cases[i] = c13Case{p: p, alpha: c13AlphaFor(p), maxlen: wl}
	}
	c13CheckPatterns(ctx, res, cases, "exhaustive")
	if res.Broken != "" {
		return res
	}

	// (2) all ordered pairs of short compilable patterns
	var small []string
	for _, p := range c13AllStrings(c13Alphabet, pairLen) {
		if _, st := c13Compile(p); st == 'K' {
			small = append(small, p)
		}
	}
	var pairs []c13Pair
	for _, p := range small {
		for _, q2 := range small {
			// a shortest common word has at most as many bytes as both patterns have non-star elements
			// (with a star in both; otherwise as many as the star-free pattern has bytes)
			np, nq := len(p)-strings.Count(p, "*"), len(q2)-strings.Count(q2, "*")
			need := np + nq
			if np == len(p) {
				need = np
			} else if nq == len(q2) {
				need = nq
			}
			pairs = append(pairs, c13Pair{p: p, q: q2, alpha: c13AlphaFor(p, q2), maxlen: 3, exact: need <= 3})
		}
	}
	c13CheckPairs(ctx, res, pairs, "exhaustive")
	if res.Broken != "" {
		return res
	}

	// (3) random larger patterns, and random pairs of them
	rcases := make([]c13Case, nrand)
	for i := range rcases {
		rcases[i] = c13RandomCase(rng)
	}
	c13CheckPatterns(ctx, res, rcases, "random")
	var rpairs []c13Pair
	for len(rpairs) < nrandPairs {
		a, b := c13RandomCase(rng), c13RandomCase(rng)
		if rng.Chance(40) { // related patterns intersect more often
			b.p = a.p
			if len(b.p) > 0 {
				bb := []byte(b.p)
				if i := rng.Intn(len(bb)); strings.IndexByte("[]\\^-", bb[i]) < 0 {
					bb[i] = "*?ab"[rng.Intn(4)]
				}
				b.p = string(bb)
			}
		}
		if _, st := c13Compile(a.p); st != 'K' {
			continue
		}
		if _, st := c13Compile(b.p); st != 'K' {
			continue
		}
		rpairs = append(rpairs, c13Pair{p: a.p, q: b.p, ws: append(append([]string{}, a.ws...), b.ws...)})
	}
	c13CheckPairs(ctx, res, rpairs, "random")
	if res.Broken != "" {
		return res
	}

	// (3b) Intersect whose operands are themselves products (or Number()): triples and deeper trees
	c13RunTrees(ctx, res, rng)
	if res.Broken != "" {
		return res
	}

	// (4) Number(): all words of <= 5 bytes over its alphabet, then random number-like words
	var nreqs []string
	var nwords [][]string
	nreqs = append(nreqs, fmt.Sprintf("num - %s 1", hx(c13NumAlphabet)))
	nwords = append(nwords, c13Words(c13NumAlphabet, 1))
	tails := c13Words(c13NumAlphabet, 3)
	for i := 0; i < len(c13NumAlphabet); i++ {
		for j := 0; j < len(c13NumAlphabet); j++ {
			pre := c13NumAlphabet[i:i+1] + c13NumAlphabet[j:j+1]
			ws := make([]string, len(tails))
			for k, t := range tails {
				ws[k] = pre + t
			}
			nreqs = append(nreqs, fmt.Sprintf("num %s %s 3", hx(pre), hx(c13NumAlphabet)))
			nwords = append(nwords, ws)
		}
	}
	c13CheckNumber(ctx, res, nreqs, nwords, "exhaustive")
	nreqs, nwords = nil, nil
	for i := 0; i < nrandNum; i += 50 {
		ws := make([]string, 50)
		for k := range ws {
			ws[k] = c13RandomNumberish(rng)
		}
		nreqs = append(nreqs, "nums "+hxs(ws))
		nwords = append(nwords, ws)
	}
	c13CheckNumber(ctx, res, nreqs, nwords, "random")
	if res.Broken != "" {
		return res
	}

	// (5) mayMatchNumber
	mp := c13AllStrings("01.ex+-*?[]^a\\", mmnLen)
	for i := 0; i < nrand/10; i++ {
		mp = append(mp, c13RandomCase(rng).p)
	}
	c13CheckMMN(ctx, res, mp, "all")

	// coverage floors: a generator that stopped reaching a branch makes the check vacuous
	floor := func(key string, min int) {
		c, _ := res.Distribution[key].(int)
		if c < min && res.Broken == "" {
			res.Broken = fmt.Sprintf("coverage floor missed: %s = %d < %d", key, c, min)
		}
	}
	floor("patterns_rejected", 1000)
	floor("patterns_compiled", 1000)
	floor("patterns_with_star", 1000)
	floor("patterns_with_question", 1000)
	floor("patterns_with_backslash", 500)
	floor("patterns_with_bracket", 500)
	floor("patterns_with_caret_list", 200)
	floor("patterns_with_reversed_range_text", 100)
	floor("matches_true", 10000)
	floor("canmatch_true", 1000)
	floor("canmatch_false", 1000)
	floor("number_true", 1000)
	floor("sweep_triples", 100000)
	floor("tree_matches_true", 5000)
	floor("tree_canmatch_true", 500)
	floor("tree_canmatch_false", 500)
	floor("mmn_true", 100)
	floor("mmn_false", 100)
	floor("mmn_error", 100)

	res.Exhaustive = false
	for _, i := range []int{3, 9} {
		c := c13Corpus[i]
		pat, _ := c13Compile(c.p)
		res.Sample(map[string]any{"pattern": c.p, "words": c.ws, "impl": c13Bits(pat, c.ws)})
	}
	for _, i := range []int{7, 4000} {
		if i < len(rcases) {
			if pat, st := c13Compile(rcases[i].p); st == 'K' {
				res.Sample(map[string]any{"pattern": rcases[i].p, "words": rcases[i].ws, "impl": c13Bits(pat, rcases[i].ws)})
			}
		}
	}
	res.Assumptions = []string{"strings contain no NUL byte (bmake's C strings end there); the spec treats NUL as an ordinary byte"}
	return res
}

// ---------- replay ----------

func replayC13(ctx *Ctx, rep map[string]any) *Result {
	res := &Result{Rule: "replay"}
	str := func(k string) string {
		s, _ := rep[k].(string)
		if s == "" {
			return ""
		}
		return unhx(s)
	}
	var ws []string
	if l, ok := rep["s"].([]any); ok {
		for _, x := range l {
			if s, ok := x.(string); ok {
				ws = append(ws, unhx(s))
			}
		}
	}
	if ws == nil {
		ws = []string{""}
	}
	switch rep["kind"] {
	case "pattern":
		c13CheckPatterns(ctx, res, []c13Case{{p: str("p"), ws: ws}}, "replay")
	case "pair":
		if ex, _ := rep["exact"].(bool); ex {
			ml, _ := rep["maxlen"].(float64)
			c13CheckPairs(ctx, res, []c13Pair{{p: str("p"), q: str("q"), alpha: str("alpha"), maxlen: int(ml), exact: true}}, "replay")
		} else {
			c13CheckPairs(ctx, res, []c13Pair{{p: str("p"), q: str("q"), ws: ws}}, "replay")
		}
	case "tree":
		if t := c13TreeFromReplay(rep["tree"]); t != nil {
			c13CheckTrees(ctx, res, []c13TreeCase{{t: t, ws: ws}}, "replay")
		}
	case "number":
		c13CheckNumber(ctx, res, []string{"nums " + hxs(ws)}, [][]string{ws}, "replay")
	case "mmn":
		c13CheckMMN(ctx, res, []string{str("p")}, "replay")
	case "overflow", "overflow-intersect":
		c13CheckOverflow(ctx, res)
	}
	return res
}

func init() { register("C13", runC13, replayC13) }
