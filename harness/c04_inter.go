package main

// Generator features for C04 (round 5): fixes that INTERACT inside one aligned
// paragraph. VaralignBlock.Process splits a line when the line is checked,
// other checkers of the same round (SubstContext.Process) then apply
// Replace-based fixes to it, and VaralignBlock.Finish runs at the end of the
// paragraph. Replace/ReplaceAfter update the raw texts only with -f/-F, so
// Finish sees changed lines only in the autofix modes; as coded it gives the
// paragraph up (coq/Model/Modes.v: para_finish, C04_para_finish_adds_nothing).
//
//  inter.subst-dup-assign   a second `SUBST_FILES.id=` / `SUBST_SED.id=` (fixed to `+=`)
//  inter.subst-sed-to-vars  `SUBST_SED.id= -e s,@VAR@,${VAR},g` (fixed to SUBST_VARS.id= VAR)
//  inter.subst-patch-stage  `SUBST_STAGE.id= pre-patch` (value replaced)
//  inter.space-after-varname `VAR =` inside the paragraph (parse-time fix, before the split)
//  inter.crossing           the paragraph is correctly aligned as it stands and the
//                           widest `varname+op` is one short of a tab stop, so that the
//                           fix moves the value column of the whole paragraph
//
// The paragraphs are written correctly aligned (with tabs), so that the default
// run has no alignment notes for them.

import (
	"fmt"
	"strings"
)

func c04TabWidth(s string) int {
	w := 0
	for _, c := range s {
		if c == '\t' {
			w = w/8*8 + 8
		} else {
			w++
		}
	}
	return w
}

// c04AlignPara aligns "varname+op" / value pairs with tabs to the smallest
// common tab stop.
func c04AlignPara(pairs [][2]string) []string {
	max := 0
	for _, p := range pairs {
		if len(p[0]) > max {
			max = len(p[0])
		}
	}
	col := max/8*8 + 8
	var out []string
	for _, p := range pairs {
		if p[0] == "" {
			out = append(out, p[1])
			continue
		}
		s := p[0]
		for c04TabWidth(s) < col {
			s += "\t"
		}
		out = append(out, s+p[1])
	}
	return out
}

func c04InterBlock(r *Rng, feats map[string]int) []string {
	feat := func(n string) { feats[n]++ }
	// the class id decides the width of "SUBST_FILES.<id>=": 15 for a 2-letter
	// id, 23 for a 10-letter id (one short of a tab stop)
	idLen := Pick(r, []int{2, 2, 2, 4, 10, 1, 3, 5, 6})
	id := "abcdefghijklmnop"[:idLen]
	type ln = [2]string
	var classes, stage, files, sed, extra []ln
	classes = append(classes, ln{"SUBST_CLASSES+=", id})
	stageVal := "pre-configure"
	if r.Chance(25) {
		stageVal = Pick(r, []string{"pre-patch", "post-patch"})
		feat("inter.subst-patch-stage")
	}
	stage = append(stage, ln{"SUBST_STAGE." + id + "=", stageVal})
	files = append(files, ln{"SUBST_FILES." + id + "=", "Makefile.in"})
	dupFiles := r.Chance(60)
	if dupFiles {
		files = append(files, ln{"SUBST_FILES." + id + "=", "configure"})
		feat("inter.subst-dup-assign")
	}
	switch r.Intn(4) {
	case 0:
		sed = append(sed, ln{"SUBST_SED." + id + "=", "-e s,@PREFIX@,${PREFIX},g"})
		feat("inter.subst-sed-to-vars")
	case 1:
		sed = append(sed, ln{"SUBST_SED." + id + "=", "-e s,aaa,bbb,"}, ln{"SUBST_SED." + id + "=", "-e s,ccc,ddd,"})
		feat("inter.subst-dup-assign")
	case 2:
		sed = append(sed, ln{"SUBST_VARS." + id + "=", "PREFIX"}, ln{"SUBST_VARS." + id + "=", "LOCALBASE"})
		feat("inter.subst-dup-assign")
	default:
		sed = append(sed, ln{"SUBST_SED." + id + "=", "-e s,aaa,bbb,"})
	}
	if r.Chance(20) {
		extra = append(extra, ln{"INTER_VAR =", "value"})
		feat("inter.space-after-varname")
	}
	if r.Chance(20) {
		extra = append(extra, ln{Pick(r, []string{"V=", "INTER_LONGER_VARIABLE_NAME=", "INTER_VAR15____="}), "value"})
	}
	// split into paragraphs: the SUBST block continues across empty lines
	groups := [][]ln{classes, stage, files, sed, extra}
	var paras [][]ln
	cur := []ln{}
	for gi, g := range groups {
		if len(g) == 0 {
			continue
		}
		if gi > 0 && len(cur) > 0 && r.Chance(35) {
			paras = append(paras, cur)
			cur = []ln{}
		}
		cur = append(cur, g...)
	}
	if len(cur) > 0 {
		paras = append(paras, cur)
	}
	var out []string
	for pi, p := range paras {
		if pi > 0 {
			out = append(out, "")
		}
		pairs := make([][2]string, len(p))
		max := 0
		for i, l := range p {
			pairs[i] = l
			if len(l[0]) > max {
				max = len(l[0])
			}
		}
		if max%8 == 7 {
			feat("inter.crossing")
		}
		if r.Chance(12) {
			// not aligned as it stands: one tab everywhere
			for _, l := range p {
				out = append(out, l[0]+"\t"+l[1])
			}
			feat("inter.misaligned")
		} else {
			out = append(out, c04AlignPara(pairs)...)
		}
	}
	return out
}

// c04Augment3 puts one interacting block into the Makefile of some packages or
// into a fragment of its own (checked as a *.mk target as well).
func c04Augment3(r *Rng, tf c04Files, pkgs []string, feats map[string]int) {
	for pi, p := range pkgs {
		mk, ok := tf[p+"/Makefile"]
		if !ok || (pi > 0 && !r.Chance(50)) {
			continue
		}
		block := c04InterBlock(r, feats)
		if r.Chance(50) {
			name := fmt.Sprintf("subst%d.mk", pi)
			tf[p+"/"+name] = lines(append([]string{cvsID, ""}, block...)...)
			mk = c04InsertBeforeFinalInclude(mk, ".include \""+name+"\"")
			feats["inter.in-fragment"]++
		} else {
			mk = c04InsertBeforeFinalInclude(mk, strings.Join(block, "\n"), "")
			feats["inter.in-makefile"]++
		}
		tf[p+"/Makefile"] = mk
	}
}
