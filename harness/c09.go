package main

import (
	"fmt"
	"os"
	"os/exec"
	"path/filepath"
	"regexp"
	"strconv"
	"strings"
	"sync"

	pkglint "github.com/rillig/pkglint/v23"
)

// C09: convertToLogicalLines (through the shim) against the extracted model
// (Model/Lines.v) and the extracted executable specification
// (Spec/LinesSpec.v, spec_check); SaveAutofixChanges' write-back against the
// model and spec_saved.

var c09Alphabet = []byte{'\\', '\n', '\r', ' ', '\t', '#', 'a'}
var c09Clauses = []string{"partition", "raw-shape", "numbering", "grouping", "text"}

func c09Mode(mk bool) string {
	if mk {
		return "mk"
	}
	return "plain"
}

func c09ShowLines(ls []pkglint.VerifLine) string {
	if len(ls) == 0 {
		return "-"
	}
	var sb strings.Builder
	for i, l := range ls {
		if i > 0 {
			sb.WriteByte(';')
		}
		sb.WriteString(strconv.Itoa(l.Lineno))
		sb.WriteByte(':')
		sb.WriteString(hx(l.Text))
		sb.WriteByte(':')
		sb.WriteString(c09HexList(l.Raws))
	}
	return sb.String()
}

func c09HexList(xs []string) string {
	if len(xs) == 0 {
		return "_"
	}
	hs := make([]string, len(xs))
	for i, x := range xs {
		hs[i] = hx(x)
	}
	return strings.Join(hs, ",")
}

func bit(b bool) string {
	if b {
		return "1"
	}
	return "0"
}

type c09Case struct {
	input   string
	mk      bool
	viaLoad bool // through Load(file, options) instead of convertToLogicalLines directly
}

var c09LoadPath string // scratch file for viaLoad cases

// c09Impl runs the real function once and renders the observation in the oracle's format.
func c09Impl(c c09Case) (lines []pkglint.VerifLine, shown string, panicked string) {
	var eof bool
	if c.viaLoad {
		lines, eof, panicked = pkglint.VerifLoadLines(c09LoadPath, c.input, c.mk)
	} else {
		lines, eof, panicked = pkglint.VerifConvertToLogicalLines(c.input, c.mk)
	}
	if panicked != "" {
		return nil, "", panicked
	}
	return lines, bit(eof) + " " + c09ShowLines(lines), ""
}

func c09SetLoadPath(ctx *Ctx) func() {
	if d, err := os.MkdirTemp("/dev/shm", "verif-c09load-"); err == nil {
		c09LoadPath = filepath.Join(d, "Makefile")
		return func() { os.RemoveAll(d) }
	}
	d := filepath.Join(ctx.Work, "c09load")
	os.MkdirAll(d, 0o755)
	c09LoadPath = filepath.Join(d, "Makefile")
	return func() {}
}

// hostile bytes at position 0 and at line starts, loaded through Load
var c09Hostile = []string{"\xef\xbb\xbf", "\xc3\xbc", "\x00", "\f", "\\", "\n", "a"}

func c09HostileCases(maxTok int) []c09Case {
	var out []c09Case
	cur := []string{""}
	seen := map[string]bool{}
	for n := 0; ; n++ {
		for _, s := range cur {
			if !seen[s] {
				seen[s] = true
				out = append(out, c09Case{s, true, true}, c09Case{s, false, true})
			}
		}
		if n == maxTok {
			return out
		}
		var next []string
		for _, s := range cur {
			for _, t := range c09Hostile {
				next = append(next, s+t)
			}
		}
		cur = next
	}
}

// c09Stats measures which branches of the loader an input reached, from the
// implementation's own output.
func c09Stats(res *Result, c c09Case, lines []pkglint.VerifLine) (nontrivial bool) {
	if !c.mk {
		if strings.Contains(c.input, "\r\n") {
			res.Count("plain.crlf", 1)
		}
		if c.input != "" && !strings.HasSuffix(c.input, "\n") {
			res.Count("plain.no_final_newline", 1)
			return true
		}
		return len(lines) > 1
	}
	for i, l := range lines {
		if len(l.Raws) > 1 {
			nontrivial = true
			res.Count("mk.multi_raw_lines", 1)
			if len(l.Raws) > 2 {
				res.Count("mk.three_or_more_raws", 1)
			}
			prevHash := false
			for k, r := range l.Raws {
				body := strings.TrimLeft(strings.TrimSuffix(r, "\n"), " \t")
				h := strings.HasPrefix(body, "#")
				if k > 0 && h && prevHash {
					res.Count("mk.comment_marker_dropped", 1)
				}
				if k > 0 && body != strings.TrimSuffix(r, "\n") {
					res.Count("mk.continuation_indent_dropped", 1)
				}
				prevHash = h
				// a byte that unicode.IsSpace accepts but isHspace does not, next to the join
				t := strings.TrimSuffix(r, "\n")
				if k < len(l.Raws)-1 {
					t = strings.TrimRight(strings.TrimSuffix(t, "\\"), " \t")
					if c09EndsInOtherSpace(t) {
						res.Count("mk.other_space_before_continuation", 1)
					}
				}
				if k > 0 && c09StartsWithOtherSpace(strings.TrimLeft(t, " \t")) {
					res.Count("mk.other_space_starts_continuation_line", 1)
				}
			}
			if strings.HasSuffix(strings.TrimSuffix(l.Raws[0], "\n"), " \\") || strings.HasSuffix(strings.TrimSuffix(l.Raws[0], "\n"), "\t\\") {
				res.Count("mk.outdent_dropped", 1)
			}
		}
		last := strings.TrimSuffix(l.Raws[len(l.Raws)-1], "\n")
		if strings.HasSuffix(last, "\\") {
			n := len(last) - len(strings.TrimRight(last, "\\"))
			if n%2 == 0 {
				res.Count("mk.even_backslashes_end_line", 1)
				nontrivial = true
			} else if i == len(lines)-1 {
				res.Count("mk.continuation_at_eof", 1)
				nontrivial = true
			}
		}
		if strings.HasSuffix(last, "\\\r") {
			res.Count("mk.backslash_cr", 1)
		}
	}
	if c.input != "" && !strings.HasSuffix(c.input, "\n") {
		res.Count("mk.no_final_newline", 1)
	}
	return
}

func c09EndsInOtherSpace(t string) bool {
	for _, sp := range []string{"\f", "\v", "\r", "\xc2\xa0", "\xc2\x85", "\xe2\x80\x80", "\xe3\x80\x80"} {
		if strings.HasSuffix(t, sp) {
			return true
		}
	}
	return false
}

func c09StartsWithOtherSpace(t string) bool {
	for _, sp := range []string{"\f", "\v", "\r", "\xc2\xa0", "\xc2\x85", "\xe2\x80\x80", "\xe3\x80\x80"} {
		if strings.HasPrefix(t, sp) {
			return true
		}
	}
	return false
}

// c09Judge turns one oracle verdict into violations.
func c09Judge(ctx *Ctx, res *Result, c c09Case, shown, panicked, verdict string) {
	mode := c09Mode(c.mk)
	rep := map[string]any{"kind": "conv", "input": hx(c.input), "mk": c.mk, "via_load": c.viaLoad}
	if panicked != "" {
		rep["impl"] = panicked
		res.AddViolation(Violation{Key: "C09/panic/" + mode,
			What:       fmt.Sprintf("convertToLogicalLines(%q, %s) panics: %s", c.input, mode, panicked),
			FoundInput: true, Size: 1 + len(c.input), Replay: rep})
		return
	}
	f := strings.Fields(verdict)
	if len(f) != 2 || len(f[1]) != len(c09Clauses) {
		res.Broken = "oracle answer " + q(verdict)
		return
	}
	rep["impl"] = shown
	failed := ""
	for i, cl := range c09Clauses {
		if f[1][i] != '1' && failed == "" {
			failed = cl
		}
	}
	if failed != "" {
		// the implementation's own output contradicts the specification
		res.AddViolation(Violation{Key: "C09/" + failed + "/" + mode,
			What:       fmt.Sprintf("loading %q in %s mode violates the %s clause: lines %s", c.input, mode, failed, shown),
			FoundInput: true, Size: 1 + len(c.input), Replay: rep})
		return
	}
	if f[0] != "1" {
		model := ""
		if ans, err := runOracle(ctx, "c09", []string{"conv " + bit(c.mk) + " " + hx(c.input)}); err == nil {
			model = ans[0]
		}
		rep["model"] = model
		what := "lines"
		if strings.HasPrefix(model, "ok ") && len(model) > 4 && len(shown) > 1 && model[5:] == shown[2:] {
			what = "eof-diagnostic"
		}
		rep["broken"] = "correspondence convertToLogicalLines = Model.Lines.convert_to_logical_lines (" + what + "); every clause of the specification still holds of the implementation's output"
		res.AddViolation(Violation{Key: "C09/correspondence/" + what + "/" + mode,
			What:       fmt.Sprintf("model and implementation disagree on %q (%s mode): impl %s, model %s", c.input, mode, shown, model),
			FoundInput: false, Size: 1 + len(c.input), Replay: rep})
	}
}

// c09Run checks a batch of cases: the implementation runs sequentially (G is a
// global), the oracle in parallel processes.
func c09Run(ctx *Ctx, res *Result, cases []c09Case, kind string, distinct map[c09Case]bool) {
	c09RunGen(ctx, res, len(cases), func(i int) c09Case { return cases[i] }, kind, distinct)
}

// c09RunGen is c09Run over cases given by index (the exhaustive domain is not materialised).
// Nontrivial cases are counted into res.DistinctNontrivial: directly when distinct == nil
// (the caller guarantees the cases are pairwise distinct), else via the map.
func c09RunGen(ctx *Ctx, res *Result, ncases int, get func(int) c09Case, kind string, distinct map[c09Case]bool) {
	const block = 100000
	type job struct {
		lo, hi   int
		reqs     []string
		shown    []string
		panicked []string
	}
	jobs := make(chan job, 2)
	var wg sync.WaitGroup
	for w := 0; w < 3; w++ {
		wg.Add(1)
		go func() {
			defer wg.Done()
			for j := range jobs {
				ans, err := runOracle(ctx, "c09", j.reqs)
				if err != nil {
					res.mu.Lock()
					res.Broken = err.Error()
					res.mu.Unlock()
					continue
				}
				for i := range j.reqs {
					if j.panicked[i] != "" || ans[i] != "1 11111" {
						c09Judge(ctx, res, get(j.lo+i), j.shown[i], j.panicked[i], ans[i])
					}
				}
			}
		}()
	}
	nontrivial := 0
	for lo := 0; lo < ncases; lo += block {
		hi := lo + block
		if hi > ncases {
			hi = ncases
		}
		j := job{lo, hi, make([]string, hi-lo), make([]string, hi-lo), make([]string, hi-lo)}
		for i := lo; i < hi; i++ {
			c := get(i)
			lines, shown, panicked := c09Impl(c)
			j.shown[i-lo], j.panicked[i-lo] = shown, panicked
			if panicked != "" {
				j.reqs[i-lo] = "conv " + bit(c.mk) + " " + hx(c.input)
			} else {
				j.reqs[i-lo] = "chk " + bit(c.mk) + " " + hx(c.input) + " " + shown
			}
			if c09Stats(res, c, lines) {
				if distinct == nil {
					nontrivial++
				} else if !distinct[c] {
					distinct[c] = true
					nontrivial++
				}
			}
			if (i == 12345 || i == 700001 || i == ncases-3) && panicked == "" {
				res.Sample(map[string]any{"input": q(c.input), "mode": c09Mode(c.mk), "impl": shown, "kind": kind})
			}
		}
		jobs <- j
	}
	close(jobs)
	wg.Wait()
	res.Evaluations += ncases
	res.TracesValidated += ncases
	res.DistinctNontrivial += nontrivial
	res.Count(kind+"_cases", ncases)
}

// c09Exhaustive enumerates (string, mode) for all strings of length <= maxLen
// over the alphabet, by index: strings ordered by length, then as base-7 numbers;
// even index = makefile mode, odd = plain mode.
func c09Exhaustive(maxLen int) (int, func(int) c09Case) {
	return c09ExhaustiveOver(c09Alphabet, maxLen)
}

// c09Alphabet2 (round 4): what Unicode calls white space but make does not --
// FF, VT, CR, NBSP (C2 A0), NEL (C2 85) -- next to the continuation bytes. Only
// space and tab are blanks for the joining rule (isHspace).
var c09Alphabet2 = []byte{'\\', '\n', ' ', '\f', '\v', '\r', 0xC2, 0xA0, 0x85, 'a'}

func c09ExhaustiveOver(alphabet []byte, maxLen int) (int, func(int) c09Case) {
	c09Alphabet := alphabet
	k := len(c09Alphabet)
	start := []int{0} // start[n] = index of the first string of length n
	pow := 1
	for n := 0; n <= maxLen; n++ {
		start = append(start, start[n]+pow)
		pow *= k
	}
	total := start[maxLen+1]
	return 2 * total, func(i int) c09Case {
		mk := i%2 == 0
		i /= 2
		n := 0
		for start[n+1] <= i {
			n++
		}
		i -= start[n]
		b := make([]byte, n)
		for p := n - 1; p >= 0; p-- {
			b[p] = c09Alphabet[i%k]
			i /= k
		}
		return c09Case{string(b), mk, false}
	}
}

// c09RandomText: three streams - the property's alphabet, line-structured
// makefile-like text, arbitrary bytes.
func c09RandomText(rng *Rng, maxLen int) string {
	var sb strings.Builder
	n := rng.Intn(maxLen + 1)
	switch rng.Intn(3) {
	case 0:
		for sb.Len() < n {
			sb.WriteByte(Pick(rng, c09Alphabet))
		}
	case 1:
		words := []string{"VAR=", "value", "#", "# comment", "a", "\\", "\\\\", "$$", "${X}", "\t", " ", "  ", "\r", ".if", "ab c",
			"\f", "\v", "\xc2\xa0", "\xc2\x85", "\xe2\x80\x80", "\xe3\x80\x80"}
		for sb.Len() < n {
			k := rng.Intn(5)
			for i := 0; i < k; i++ {
				sb.WriteString(Pick(rng, words))
			}
			switch {
			case rng.Chance(45):
				sb.WriteString(Pick(rng, []string{"\\", " \\", "\t\\", "\\\\\\", " \t \\",
					"\f\\", "\v \\", "\xc2\xa0\\", " \r \\", "\xc2\x85\t\\", "\xe2\x80\x80\\"}))
			case rng.Chance(10):
				sb.WriteString("\\\\")
			}
			if rng.Chance(8) {
				sb.WriteString("\r")
			}
			sb.WriteString("\n")
			if rng.Chance(40) {
				sb.WriteString(Pick(rng, []string{"\t", "  ", "\t#", " # ", "#", "\t\t",
					"\f", "\t\v", "\xc2\xa0", " \r", "\xc2\x85#", "\t\xe3\x80\x80"}))
			}
		}
	default:
		for sb.Len() < n {
			switch {
			case rng.Chance(15):
				sb.WriteByte('\n')
			case rng.Chance(15):
				sb.WriteByte('\\')
			case rng.Chance(30):
				sb.WriteByte(byte(rng.Intn(256)))
			default:
				sb.WriteByte(Pick(rng, c09Alphabet))
			}
		}
	}
	s := sb.String()
	if len(s) > maxLen {
		s = s[:maxLen]
	}
	if rng.Chance(50) {
		s = strings.TrimRight(s, "\n")
	} else if s != "" && !strings.HasSuffix(s, "\n") && rng.Chance(70) {
		s += "\n"
	}
	return s
}

// ---- the extraction itself: vm_compute in coqc against the extracted oracle ----

func c09CoqStr(s string) string {
	parts := make([]string, len(s))
	for i := 0; i < len(s); i++ {
		parts[i] = strconv.Itoa(int(s[i]))
	}
	return "[" + strings.Join(parts, ";") + "]"
}

// c09CoqValue renders an oracle answer "ok <eof> <lines>" as the Gallina value of
// convert_to_logical_lines.
func c09CoqValue(ans string) (string, bool) {
	f := strings.Fields(ans)
	if len(f) != 3 || f[0] != "ok" {
		return "", false
	}
	var ls []string
	if f[2] != "-" {
		for _, l := range strings.Split(f[2], ";") {
			p := strings.Split(l, ":")
			if len(p) != 3 {
				return "", false
			}
			var raws []string
			if p[2] != "_" {
				for _, r := range strings.Split(p[2], ",") {
					raws = append(raws, c09CoqStr(unhx(r)))
				}
			}
			ls = append(ls, fmt.Sprintf("mk_line %s %s [%s]", p[0], c09CoqStr(unhx(p[1])), strings.Join(raws, ";")))
		}
	}
	return fmt.Sprintf("Ok ([%s], %v)", strings.Join(ls, "; "), f[1] == "1"), true
}

func c09CrossCheckExtraction(ctx *Ctx, res *Result, cases []c09Case) {
	reqs := make([]string, len(cases))
	for i, c := range cases {
		reqs[i] = "conv " + bit(c.mk) + " " + hx(c.input)
	}
	ans, err := runOracle(ctx, "c09", reqs)
	if err != nil {
		res.Broken = err.Error()
		return
	}
	var sb strings.Builder
	sb.WriteString("From PV Require Import Lib.Bytes Model.Lines.\nOpen Scope N_scope.\n")
	for i, c := range cases {
		v, ok := c09CoqValue(ans[i])
		if !ok {
			res.Broken = "oracle answer " + q(ans[i])
			return
		}
		fmt.Fprintf(&sb, "Example case_%d : convert_to_logical_lines %s %v = %s.\nProof. vm_compute. reflexivity. Qed.\n", i, c09CoqStr(c.input), c.mk, v)
	}
	file := filepath.Join(ctx.Work, "c09cases.v")
	if err := os.WriteFile(file, []byte(sb.String()), 0o644); err != nil {
		res.Broken = err.Error()
		return
	}
	// generous limit: other builders load the machine; a coqc killed by the limit is counted, not judged
	cmd := exec.Command("timeout", "1200", "coqc", "-Q", filepath.Join(ctx.Verif, "coq"), "PV", file)
	cmd.Dir = ctx.Work
	out, err := cmd.CombinedOutput()
	if ee, ok := err.(*exec.ExitError); ok && ee.ExitCode() == 124 {
		res.Count("vm_compute_cross_check_timed_out", 1)
		return
	}
	if err != nil {
		msg := string(out)
		if len(msg) > 600 {
			msg = msg[:600]
		}
		res.AddViolation(Violation{Key: "C09/extraction-vs-vm_compute",
			What:       "the extracted oracle and coqc's vm_compute disagree on the model (or coqc failed): " + msg,
			FoundInput: false, Replay: map[string]any{"broken": "extraction cross-check", "detail": msg}})
		return
	}
	res.Count("vm_compute_cross_checked", len(cases))
}

// ---- write-back ----

type c09SaveCase struct {
	input string
	mk    bool
	ops   []pkglint.VerifFixOp
}

func c09SaveRequest(lines []pkglint.VerifLine, fixes []pkglint.VerifFixState) string {
	var sb strings.Builder
	sb.WriteString("save")
	for i, l := range lines {
		f := "n"
		if fx := fixes[i]; fx.HasFix {
			f = bit(fx.Modified) + "/" + c09HexList(fx.Above) + "/" + c09HexList(fx.Texts) + "/" + c09HexList(fx.Below)
		}
		fmt.Fprintf(&sb, " %d:%s:%s:%s", l.Lineno, hx(l.Text), c09HexList(l.Raws), f)
	}
	return sb.String()
}

// c09ExpectedSave is the specification applied directly in Go: every line that
// has no modified fix is written back as its physical lines.
func c09ExpectedSave(lines []pkglint.VerifLine, fixes []pkglint.VerifFixState) (string, bool) {
	var sb strings.Builder
	any := false
	for i, l := range lines {
		fx := fixes[i]
		if fx.HasFix && fx.Modified {
			any = true
			sb.WriteString(strings.Join(fx.Above, "") + strings.Join(fx.Texts, "") + strings.Join(fx.Below, ""))
		} else {
			sb.WriteString(strings.Join(l.Raws, ""))
		}
	}
	return sb.String(), any
}

func c09RunSave(ctx *Ctx, res *Result, cases []c09SaveCase) {
	dir := filepath.Join(ctx.Work, "c09save")
	if err := os.MkdirAll(dir, 0o755); err != nil {
		res.Broken = err.Error()
		return
	}
	path := filepath.Join(dir, "file.mk")
	reqs := make([]string, 0, len(cases))
	type obs struct {
		c      c09SaveCase
		saved  bool
		after  string
		expect string
		any    bool
	}
	var observed []obs
	for _, c := range cases {
		lines, fixes, saved, after, panicked := pkglint.VerifSaveScript(path, c.input, c.mk, c.ops)
		rep := map[string]any{"kind": "save", "input": hx(c.input), "mk": c.mk, "ops": c09OpsToReplay(c.ops)}
		if panicked != "" {
			rep["impl"] = panicked
			res.AddViolation(Violation{Key: "C09/save/panic", What: fmt.Sprintf("fix script on %q panics: %s", c.input, panicked),
				FoundInput: true, Size: 1 + len(c.input) + 10*len(c.ops), Replay: rep})
			continue
		}
		expect, any := c09ExpectedSave(lines, fixes)
		touched := 0
		for _, fx := range fixes {
			if fx.HasFix && fx.Modified {
				touched++
			}
		}
		switch {
		case touched == 0:
			res.Count("save.nothing_modified", 1)
		case touched < len(lines):
			res.Count("save.partial", 1)
		default:
			res.Count("save.all_lines_modified", 1)
		}
		reqs = append(reqs, c09SaveRequest(lines, fixes))
		observed = append(observed, obs{c, saved, after, expect, any})
	}
	ans, err := runOracle(ctx, "c09", reqs)
	if err != nil {
		res.Broken = err.Error()
		return
	}
	for i, o := range observed {
		rep := map[string]any{"kind": "save", "input": hx(o.c.input), "mk": o.c.mk, "ops": c09OpsToReplay(o.c.ops), "after": hx(o.after)}
		size := 1 + len(o.c.input) + 10*len(o.c.ops)
		want := o.c.input
		if o.any {
			want = o.expect
		}
		if o.after != want {
			res.AddViolation(Violation{Key: "C09/save/untouched-lines-not-reproduced",
				What:       fmt.Sprintf("after saving %q with ops %v the file is %q, expected %q (untouched lines byte for byte)", o.c.input, o.c.ops, o.after, want),
				FoundInput: true, Size: size, Replay: rep})
			continue
		}
		// model: none | some <hex>, then spec_saved
		f := strings.Fields(ans[i])
		modelAfter, modelSaved := o.c.input, false
		if len(f) == 3 && f[0] == "some" {
			modelAfter, modelSaved = unhx(f[1]), true
		} else if !(len(f) == 2 && f[0] == "none") {
			res.Broken = "oracle answer " + q(ans[i])
			return
		}
		if modelAfter != o.after || modelSaved != o.saved {
			rep["broken"] = "correspondence SaveAutofixChanges = Model.Lines.save_autofix_changes; the untouched lines are still reproduced"
			rep["model"] = ans[i]
			res.AddViolation(Violation{Key: "C09/correspondence/save",
				What:       fmt.Sprintf("model and implementation disagree on saving %q ops %v: impl saved=%v %q, model %s", o.c.input, o.c.ops, o.saved, o.after, ans[i]),
				FoundInput: false, Size: size, Replay: rep})
		}
	}
	res.Evaluations += len(cases)
	res.TracesValidated += len(cases)
	res.Count("save_scripts", len(cases))
}

func c09OpsToReplay(ops []pkglint.VerifFixOp) []any {
	var out []any
	for _, op := range ops {
		out = append(out, map[string]any{"line": op.Line, "kind": op.Kind, "from": hx(op.From), "to": hx(op.To)})
	}
	return out
}

func c09RandomSave(rng *Rng) c09SaveCase {
	c := c09SaveCase{input: c09RandomText(rng, 80), mk: rng.Chance(70)}
	nlines := strings.Count(c.input, "\n") + 1
	nops := rng.Intn(4)
	if rng.Chance(10) {
		nops = 0
	}
	for i := 0; i < nops; i++ {
		op := pkglint.VerifFixOp{Line: rng.Intn(nlines), Kind: Pick(rng, []string{"touch", "replace", "replace", "above", "below", "delete"})}
		op.From = Pick(rng, []string{"a", "#", "\\", " ", "VAR", "value", "\t"})
		op.To = Pick(rng, []string{"b", "", "xyz", "# c", "\\\\"})
		c.ops = append(c.ops, op)
	}
	return c
}

// ---- whole runs: pkglint -F on a generated package Makefile ----

var c09AutofixRe = regexp.MustCompile(`(?m)^AUTOFIX: cat/pkg/Makefile:(\d+)(?:--(\d+))?: `)

const c09MakefileHead = "# $NetBSD$\n\nDISTNAME=\tpkg-1.0\nCATEGORIES=\tcat\nMASTER_SITES=\t# none\n\nMAINTAINER=\tpkgsrc-users@NetBSD.org\nHOMEPAGE=\t# none\nCOMMENT=\tDummy package\nLICENSE=\t2-clause-bsd\n\n"

// c09RandomMakefile: the fixture's Makefile with extra paragraphs: continuation
// lines of all shapes (left alone by pkglint), and lines pkglint likes to fix.
func c09RandomMakefile(rng *Rng) string {
	var sb strings.Builder
	sb.WriteString(c09MakefileHead)
	n := 1 + rng.Intn(5)
	for i := 0; i < n; i++ {
		switch rng.Intn(7) {
		case 0:
			sb.WriteString("CONFIGURE_ARGS+=\t--first \\\n\t\t--second \\\n\t\t--third\n")
		case 1:
			sb.WriteString("# a comment \\\n# continued \\\n\t#and more\n")
		case 2:
			sb.WriteString("CFLAGS+= -O2\n") // misaligned: varalign fixes it
		case 3:
			sb.WriteString("USE_TOOLS+=\tgmake  \\\n  \t  perl \\\n\n")
		case 4:
			sb.WriteString("BUILD_DEFS+=\tVARBASE \\\\\n")
		case 5:
			sb.WriteString("SUBST_CLASSES+=\tfix\nSUBST_STAGE.fix=\tpre-configure\nSUBST_FILES.fix=\t*.c\nSUBST_SED.fix=\t-e s,a,b,\n")
		default:
			sb.WriteString("#" + c09RandomText(rng, 30) + "\n")
		}
		if rng.Chance(60) {
			sb.WriteString("\n")
		}
	}
	sb.WriteString(".include \"../../mk/bsd.pkg.mk\"")
	if !rng.Chance(15) {
		sb.WriteString("\n")
	} else if rng.Chance(50) {
		sb.WriteString(" \\")
	}
	return sb.String()
}

func c09WholeRuns(ctx *Ctx, res *Result, rng *Rng, n int) {
	root := filepath.Join(ctx.Work, "c09tree")
	if err := c18WriteTree(root); err != nil {
		res.Broken = err.Error()
		return
	}
	if out, exit, err := c18RunPkglint(ctx, root, "cat/pkg"); err != nil || exit != 0 || !strings.Contains(out, "Looks fine.") {
		res.AddViolation(Violation{Key: "C09/fixture", What: "the base fixture no longer passes pkglint: " + out, FoundInput: false,
			Replay: map[string]any{"broken": "whole-run fixture (DESIGN.md Appendix A)", "output": q(out)}})
		return
	}
	path := filepath.Join(root, "cat/pkg/Makefile")
	for i := 0; i < n; i++ {
		old := c09RandomMakefile(rng)
		c09WholeRun(ctx, res, root, path, old)
		if res.Broken != "" {
			return
		}
	}
}

func c09WholeRun(ctx *Ctx, res *Result, root, path, old string) {
	if err := os.WriteFile(path, []byte(old), 0o644); err != nil {
		res.Broken = err.Error()
		return
	}
	out, exit, err := c18RunPkglint(ctx, root, "-F", "cat/pkg")
	if err != nil || exit < 0 || exit > 1 {
		res.Count("w.run_failed", 1)
		return
	}
	nb, err := os.ReadFile(path)
	if err != nil {
		res.Broken = err.Error()
		return
	}
	now := string(nb)
	rep := map[string]any{"kind": "wholerun", "makefile": hx(old), "after": hx(now), "output": q(out)}
	fixes := c09AutofixRe.FindAllStringSubmatch(out, -1)
	if len(fixes) == 0 {
		res.Count("w.noop_runs", 1)
		if now != old {
			res.AddViolation(Violation{Key: "C09/whole-run/no-op-save-changed-file",
				What:       fmt.Sprintf("pkglint -F logged no AUTOFIX for the Makefile but the file changed: %q -> %q", old, now),
				FoundInput: true, Size: len(old), Replay: rep})
		}
		res.Evaluations++
		res.TracesValidated++
		return
	}
	res.Count("w.partial_runs", 1)
	touched := map[int]bool{} // physical line numbers named in the AUTOFIX log
	for _, g := range fixes {
		a, _ := strconv.Atoi(g[1])
		b := a
		if g[2] != "" {
			b, _ = strconv.Atoi(g[2])
		}
		for k := a; k <= b; k++ {
			touched[k] = true
		}
	}
	lines, _, panicked := pkglint.VerifConvertToLogicalLines(old, true)
	if panicked != "" {
		return // reported by the unit layer
	}
	// the physical lines of every logical line none of whose physical lines was named
	var untouched []string
	for _, l := range lines {
		hit := false
		for k := range l.Raws {
			if touched[l.Lineno+k] {
				hit = true
			}
		}
		if !hit {
			untouched = append(untouched, l.Raws...)
			if len(l.Raws) > 1 {
				res.Count("w.untouched_multi_raw_lines", 1)
			}
		}
	}
	// they must occur in the new file, in order, byte for byte
	newRaws := strings.SplitAfter(now, "\n")
	j := 0
	for _, u := range untouched {
		for j < len(newRaws) && newRaws[j] != u {
			j++
		}
		if j == len(newRaws) {
			res.AddViolation(Violation{Key: "C09/whole-run/untouched-line-not-reproduced",
				What:       fmt.Sprintf("pkglint -F: the physical line %q, not named in any AUTOFIX line, is not reproduced (in order) in the saved Makefile %q", u, now),
				FoundInput: true, Size: len(old), Replay: rep})
			break
		}
		j++
	}
	res.Evaluations++
	res.TracesValidated++
}

// ---- entry points ----

func runC09(ctx *Ctx) *Result {
	res := &Result{Rule: "cases = (byte string, mode); exhaustive: every string of length <= L over {backslash, LF, CR, space, tab, #, a} in makefile and plain mode, every string of length <= L2 over {backslash, LF, space, FF, VT, CR, 0xC2, 0xA0, 0x85, a} in both modes, then every string of <= 4 tokens over {BOM, U+00FC, NUL, FF, backslash, LF, a} loaded through Load(file, options), then seeded random strings (all through Load) up to 200 bytes (property alphabet / line-structured makefile text / arbitrary bytes incl. NUL and non-ASCII), with and without final newline; non-trivial = makefile mode: some logical line has >= 2 physical lines, or ends in an even backslash run, or a continuation meets EOF; plain mode: >= 2 lines or no final newline; distinct by (string, mode). Save scripts: random text <= 80 bytes with 0-3 Autofix operations on random lines. Whole runs: pkglint -F (real binary) on the fixture package with a generated Makefile; physical lines of logical lines not named in the AUTOFIX log must be reproduced in order, a run without AUTOFIX must leave the file alone. Named twice: pkglint -F with a *.mk fragment of the package given next to its package (or twice) against one fresh process per argument: same files afterwards, also after a second round. Reload (round 5): one *.mk file loaded twice in one run through the real file cache, 8 fixed contents x every ordered pair of the 16 LoadOptions sets (first load through Load and through LoadMk), generated contents with continuation lines x (Makefile-mode set, plain set) in both orders: the second load is judged by the specification for the mode it asks for."}
	rng := NewRng(ctx.Seed)
	maxLen, nrand, nsave, nwhole := 7, 30000, 5000, 80
	if ctx.Tier == "thorough" {
		maxLen, nrand, nsave, nwhole = 8, 1000000, 100000, 2000
	}
	defer c09SetLoadPath(ctx)()
	nexh, getExh := c09Exhaustive(maxLen)
	c09RunGen(ctx, res, nexh, getExh, "exhaustive", nil)
	if res.Broken != "" {
		return res
	}
	// round 4: second exhaustive alphabet (FF VT CR NBSP NEL next to the continuation bytes)
	maxLen2 := 5
	if ctx.Tier == "thorough" {
		maxLen2 = 6
	}
	nexh2, getExh2 := c09ExhaustiveOver(c09Alphabet2, maxLen2)
	onlyBase := func(s string) bool { return strings.Trim(s, string(c09Alphabet)) == "" }
	// the strings that the first domain contains already are not counted again
	var exh2 []c09Case
	for i := 0; i < nexh2; i++ {
		if c := getExh2(i); !(len(c.input) <= maxLen && onlyBase(c.input)) {
			exh2 = append(exh2, c)
		}
	}
	c09Run(ctx, res, exh2, "exhaustive2", nil)
	if res.Broken != "" {
		return res
	}
	res.Count("exhaustive2_max_len", maxLen2)
	// second domain, through Load: BOM, other multi-byte sequences, NUL, FF at position 0 and at line starts
	hostileTok := 4
	if ctx.Tier == "thorough" {
		hostileTok = 6
	}
	c09Run(ctx, res, c09HostileCases(hostileTok), "hostile_via_load", nil)
	if res.Broken != "" {
		return res
	}
	// random cases: distinct among themselves; the few that repeat an exhaustive case (length <= maxLen
	// over the alphabet) are not counted again
	distinct := map[c09Case]bool{}
	var rnd []c09Case
	for len(rnd) < nrand {
		c := c09Case{c09RandomText(rng, 200), rng.Chance(70), true}
		if len(c.input) <= maxLen && strings.Trim(c.input, string(c09Alphabet)) == "" {
			continue // already in the exhaustive part
		}
		rnd = append(rnd, c)
	}
	c09Run(ctx, res, rnd, "random", distinct)
	if res.Broken != "" {
		return res
	}
	// a sample of the same cases through coqc (guards extraction and the OCaml driver)
	var cross []c09Case
	for i := 0; i < 60; i++ {
		cross = append(cross, getExh(rng.Intn(nexh)))
	}
	for i := 0; i < 40 && i < len(rnd); i++ {
		cross = append(cross, rnd[i])
	}
	c09CrossCheckExtraction(ctx, res, cross)
	if res.Broken != "" {
		return res
	}
	var saves []c09SaveCase
	for i := 0; i < nsave; i++ {
		saves = append(saves, c09RandomSave(rng))
	}
	c09RunSave(ctx, res, saves)
	if res.Broken != "" {
		return res
	}
	c09WholeRuns(ctx, res, rng, nwhole)
	if res.Broken != "" {
		return res
	}
	c09NamedTwiceRuns(ctx, res, rng, nwhole/6+1)
	if res.Broken != "" {
		return res
	}
	// round 5: the same *.mk file loaded twice under different LoadOptions, through the real cache
	nreload := 150
	if ctx.Tier == "thorough" {
		nreload = 5000
	}
	c09ReloadRuns(ctx, res, NewRng(ctx.Seed^0xc09c20), nreload)
	res.Exhaustive = false
	res.Count("exhaustive_max_len", maxLen)

	// the generator must keep reaching the branches the property names
	floors := map[string]int{
		"mk.multi_raw_lines": 1000, "mk.three_or_more_raws": 100, "mk.comment_marker_dropped": 100,
		"mk.continuation_indent_dropped": 100, "mk.outdent_dropped": 100, "mk.even_backslashes_end_line": 100,
		"mk.continuation_at_eof": 100, "mk.backslash_cr": 100, "mk.no_final_newline": 1000,
		"plain.no_final_newline": 1000, "plain.crlf": 100,
		"save.nothing_modified": 50, "save.partial": 200, "save.all_lines_modified": 20,
		"w.noop_runs": 3, "w.partial_runs": 20, "w.untouched_multi_raw_lines": 20,
		"mk.other_space_before_continuation": 1000, "mk.other_space_starts_continuation_line": 1000,
		"reload.plain-after-makefile_on_continuation_file": 2000, "reload.makefile-after-plain_on_continuation_file": 1500,
		"reload.cache_hits": 300, "reload.miss_other_options": 3000,
		"w2.combined_runs": 10, "w2.runs_with_text_and_raw_detected_fixes": 3, "w2.second_check_saw_fixed_file": 5,
	}
	for _, k := range sortedKeys(floors) {
		if n, _ := res.Distribution[k].(int); n < floors[k] && res.Broken == "" && len(res.Violations) == 0 {
			// the implementation keeps the generator from reaching a branch the property
			// names: a broken correspondence, not a broken check
			res.AddViolation(Violation{Key: "C09/coverage-floor/" + k,
				What:       fmt.Sprintf("coverage floor missed: %s = %d < %d", k, n, floors[k]),
				FoundInput: false, Size: 1,
				Replay:     map[string]any{"kind": "floor", "broken": "the generated cases no longer reach " + k + " on this implementation"}})
		}
	}
	res.Assumptions = []string{
		"the file name does not influence the lines (the shim always passes verif.mk)",
		"Line.fix fields (above, texts, below, modified) are read from the implementation after the fix script; how the Autofix operations compute them is C03's subject",
	}
	return res
}

func replayC09(ctx *Ctx, rep map[string]any) *Result {
	res := &Result{Rule: "replay"}
	input, _ := rep["input"].(string)
	mk, _ := rep["mk"].(bool)
	switch rep["kind"] {
	case "conv":
		via, _ := rep["via_load"].(bool)
		c09SetLoadPath(ctx)
		c09Run(ctx, res, []c09Case{{unhx(input), mk, via}}, "replay", nil)
	case "wholerun":
		mf, _ := rep["makefile"].(string)
		root := filepath.Join(ctx.Work, "c09tree")
		if err := c18WriteTree(root); err != nil {
			res.Broken = err.Error()
			return res
		}
		c09WholeRun(ctx, res, root, filepath.Join(root, "cat/pkg/Makefile"), unhx(mf))
	case "reload":
		first, _ := rep["first"].(float64)
		second, _ := rep["second"].(float64)
		via, _ := rep["via_loadmk"].(bool)
		c09SetLoadPath(ctx)
		c09ReloadRun(ctx, res, []c09ReloadCase{{unhx(input), int(first), int(second), via}})
	case "namedtwice":
		mod, _ := rep["module"].(string)
		args, _ := rep["args"].(string)
		c09NamedTwice(ctx, res, unhx(mod), strings.Fields(args))
	case "save":
		c := c09SaveCase{input: unhx(input), mk: mk}
		if ops, ok := rep["ops"].([]any); ok {
			for _, o := range ops {
				m, _ := o.(map[string]any)
				ln, _ := m["line"].(float64)
				kind, _ := m["kind"].(string)
				from, _ := m["from"].(string)
				to, _ := m["to"].(string)
				c.ops = append(c.ops, pkglint.VerifFixOp{Line: int(ln), Kind: kind, From: unhx(from), To: unhx(to)})
			}
		}
		c09RunSave(ctx, res, []c09SaveCase{c})
	}
	return res
}

func init() { register("C09", runC09, replayC09) }
