package main

// C02 only (C03's trees stay as GenerateTreeC03 makes them): include chains
// through sibling directories, and what the C02 judge needs to tell whether
// the path PRINTED in an AUTOFIX line names the file that was WRITTEN.
//
// pkglint loads and saves an included makefile under its raw path
// (dirname.JoinNoClean(includedFile), e.g.
// "cat/p0/../other/../../devel/lib/version.mk") but prints
// Path.CleanPath() of it (Logger.Logf).  Only if CleanPath keeps the
// denotation does the AUTOFIX line name the file that changes on disk
// (Coq: C02_printed_path_denotes_written on top of C19_clean_path_denotes).
// The generator below makes such raw paths appear in -F runs:
//
//   two-step   cat/p0/Makefile -> ../other/Makefile.common -> ../../devel/lib/version.mk
//              raw: cat/p0/../other/../../devel/lib/version.mk
//   three-step ... -> ../../devel/lib/lib.mk -> ../../net/core/version.mk
//              raw: cat/p0/../other/../../devel/lib/../../net/core/version.mk
//              (CleanPath really collapses "devel/lib/../..")
//   direct     cat/p0/Makefile -> ../../devel/lib/../core/version.mk
//              cat/p0/Makefile -> ../../devel/lib/files/../version.mk
//              cat/p0/Makefile -> ../other/../base/version.mk
//   far-first  cat/p0/Makefile -> ../../devel/lib/Makefile.common -> ../../cat/other/version.mk
//              raw: cat/p0/../../devel/lib/../../cat/other/version.mk (collapsed by CleanPath)
//              cat/p0/Makefile -> ../../devel/lib/Makefile.common -> files/../version.mk
//
// The innermost file always has at least one fix that pkglint applies while
// parsing ("VAR =<tab>value": LoadMk saves it for every loaded makefile).

import (
	"fmt"
	"os"
	"path"
	"path/filepath"
	"strings"
	"time"
)

var c02SiblingNames = []string{"other", "common", "base", "shared-files", "lib", "p-common", "Other"}
var c02FarCats = []string{"devel", "net", "x11", "textproc", "www"}
var c02LibNames = []string{"lib", "core", "libfoo", "py-helper", "base", "q5"}
var c02InnerNames = []string{"version.mk", "Makefile.version", "defs.mk", "Makefile.common", "vars.mk"}

// c02InnerLines returns the body of an innermost file: 1-4 assignments, at least one of
// them with a fix that is applied while the file is parsed.
func c02InnerLines(r *Rng, prefix string) []string {
	must := []string{
		prefix + "_VERSION =\t1.0",
		prefix + "_FLAGS +=\t-I${LOCALBASE}/include",
		prefix + "_VERSION  =\t2",
	}
	may := []string{
		prefix + "_ARGS=\t--prefix=$(PREFIX)",
		prefix + "_OK=\tyes",
		prefix + "_LONG_NAME=  two spaces",
		prefix + "_DIR=\t$(PREFIX)/share/" + strings.ToLower(prefix),
		prefix + "_CONT=\tfirst \\\n  $(" + prefix + "_OK) \\\n\tlast",
		prefix + "_TRAIL=\tvalue ",
		"# a comment",
	}
	var ls []string
	n := r.Intn(4)
	for k := 0; k < n; k++ {
		ls = append(ls, Pick(r, may))
	}
	at := r.Intn(len(ls) + 1)
	ls = append(ls[:at], append([]string{Pick(r, must)}, ls[at:]...)...)
	return ls
}

func (g *GenTree) c02FreeDir(r *Rng, parent string, names []string) string {
	for try := 0; try < 20; try++ {
		n := Pick(r, names)
		if try >= 10 {
			n = fmt.Sprintf("%s%d", n, r.Intn(90))
		}
		d := n
		if parent != "" {
			d = parent + "/" + n
		}
		if _, err := os.Lstat(g.Path(d)); err != nil {
			return d
		}
	}
	return ""
}

func (g *GenTree) c02Include(pkgdir, target string) bool {
	inc := ".include \"" + target + "\"\n"
	return g.rewrite(pkgdir+"/Makefile", func(s string) string {
		return strings.Replace(s, ".include \"../../mk/bsd.pkg.mk\"", inc+".include \"../../mk/bsd.pkg.mk\"", 1)
	})
}

// c02Middle writes an intermediate makefile that includes next (relative to its own directory).
func (g *GenTree) c02Middle(r *Rng, rel, usedBy, prefix, next string) {
	ls := []string{cvsID}
	if r.Chance(70) {
		ls = append(ls, "#", "# used by "+usedBy)
	}
	ls = append(ls, "")
	for k := r.Intn(3); k > 0; k-- {
		ls = append(ls, Pick(r, []string{prefix + "_MID=\tyes", prefix + "_MID_ARGS=\t--with-x", prefix + "_MID_DIR=\t${PREFIX}/lib", prefix + "_MID_V =\t3"}))
	}
	if len(ls) > 0 && ls[len(ls)-1] != "" {
		ls = append(ls, "")
	}
	ls = append(ls, ".include \""+next+"\"")
	g.put(rel, strings.Join(ls, "\n")+"\n")
}

// addIncludeChainsC02 adds to some packages of the tree an include chain through sibling
// directories; it returns the raw paths (relative to the root, as pkglint builds them when it is
// run from the root) of the innermost files.
func addIncludeChainsC02(r *Rng, g *GenTree) []string {
	var raws []string
	for _, pkg := range g.Pkgs {
		if !r.Chance(50) {
			continue
		}
		cat := path.Dir(pkg) // "cat"
		prefix := strings.ToUpper(strings.NewReplacer("-", "_", ".", "_").Replace(path.Base(pkg))) + Pick(r, []string{"_LIB", "_COMMON", "_X"})
		inner := Pick(r, c02InnerNames)
		body := strings.Join(append([]string{cvsID, ""}, c02InnerLines(r, prefix)...), "\n") + "\n"
		if r.Chance(6) {
			body = strings.TrimSuffix(body, "\n")
		}
		shape := r.Intn(10)
		switch {
		case shape < 4: // two-step: ../sib/Makefile.common -> ../../far/lib/inner
			sib := g.c02FreeDir(r, cat, c02SiblingNames)
			far := g.c02FreeDir(r, "", c02FarCats)
			if sib == "" || far == "" {
				continue
			}
			lib := far + "/" + Pick(r, c02LibNames)
			mid := Pick(r, []string{"Makefile.common", "Makefile.common", "common.mk", "Makefile.inc"})
			g.put(lib+"/"+inner, body)
			g.c02Middle(r, sib+"/"+mid, pkg+"/Makefile", prefix, "../../"+lib+"/"+inner)
			if !g.c02Include(pkg, "../"+path.Base(sib)+"/"+mid) {
				continue
			}
			raws = append(raws, pkg+"/../"+path.Base(sib)+"/../../"+lib+"/"+inner)
			g.feat("c02.chain.two-step")
		case shape < 6: // three-step: ../sib/mid -> ../../far/lib/lib.mk -> ../../far2/lib2/inner  (or ../lib2/inner)
			sib := g.c02FreeDir(r, cat, c02SiblingNames)
			far := g.c02FreeDir(r, "", c02FarCats)
			if sib == "" || far == "" {
				continue
			}
			lib := far + "/" + Pick(r, c02LibNames)
			mid := Pick(r, []string{"Makefile.common", "common.mk"})
			mid2 := Pick(r, []string{"lib.mk", "Makefile.common", "Makefile.lib"})
			var lib2, step3 string
			if r.Bool() {
				far2 := far
				for far2 == far {
					far2 = g.c02FreeDir(r, "", c02FarCats)
				}
				if far2 == "" {
					continue
				}
				lib2 = far2 + "/" + Pick(r, c02LibNames)
				step3 = "../../" + lib2 + "/" + inner
			} else {
				l2 := path.Base(lib)
				for l2 == path.Base(lib) {
					l2 = Pick(r, c02LibNames)
				}
				lib2 = far + "/" + l2
				step3 = "../" + l2 + "/" + inner
			}
			g.put(lib2+"/"+inner, body)
			g.c02Middle(r, lib+"/"+mid2, sib+"/"+mid, prefix+"2", step3)
			g.c02Middle(r, sib+"/"+mid, pkg+"/Makefile", prefix, "../../"+lib+"/"+mid2)
			if !g.c02Include(pkg, "../"+path.Base(sib)+"/"+mid) {
				continue
			}
			raws = append(raws, pkg+"/../"+path.Base(sib)+"/../../"+lib+"/"+step3)
			g.feat("c02.chain.three-step")
		case shape < 7: // direct: ../../far/lib/../lib2/inner
			far := g.c02FreeDir(r, "", c02FarCats)
			if far == "" {
				continue
			}
			l1 := Pick(r, c02LibNames)
			l2 := l1
			for l2 == l1 {
				l2 = Pick(r, c02LibNames)
			}
			g.put(far+"/"+l1+"/Makefile.common", cvsID+"\n")
			t := "../../" + far + "/" + l1 + "/../" + l2 + "/" + inner
			if r.Chance(40) {
				// through a subdirectory and back: ../../far/l1/files/../inner
				sub := Pick(r, []string{"files", "patches", "sub"})
				g.put(far+"/"+l1+"/"+sub+"/README", "nothing\n")
				l2 = l1
				t = "../../" + far + "/" + l1 + "/" + sub + "/../" + inner
				g.feat("c02.chain.direct-far-subdir-updown")
			}
			g.put(far+"/"+l2+"/"+inner, body)
			if !g.c02Include(pkg, t) {
				continue
			}
			raws = append(raws, pkg+"/"+t)
			g.feat("c02.chain.direct-far-updown")
		case shape < 8: // direct: ../sib/../sib2/inner
			sib := g.c02FreeDir(r, cat, c02SiblingNames)
			if sib == "" {
				continue
			}
			g.put(sib+"/Makefile.common", cvsID+"\n")
			sib2 := g.c02FreeDir(r, cat, c02SiblingNames)
			if sib2 == "" {
				continue
			}
			g.put(sib2+"/"+inner, body)
			t := "../" + path.Base(sib) + "/../" + path.Base(sib2) + "/" + inner
			if !g.c02Include(pkg, t) {
				continue
			}
			raws = append(raws, pkg+"/"+t)
			g.feat("c02.chain.direct-sibling-updown")
		default: // far first: ../../far/lib/mid -> ../../cat/sib/inner
			sib := g.c02FreeDir(r, cat, c02SiblingNames)
			far := g.c02FreeDir(r, "", c02FarCats)
			if sib == "" || far == "" {
				continue
			}
			lib := far + "/" + Pick(r, c02LibNames)
			mid := Pick(r, []string{"Makefile.common", "common.mk"})
			if r.Chance(35) {
				// the far file includes a file of its own directory through a subdirectory and back:
				// raw cat/p0/../../far/lib/files/../inner
				sub := Pick(r, []string{"files", "patches", "sub"})
				if inner == mid {
					inner = "version.mk"
				}
				g.put(lib+"/"+sub+"/README", "nothing\n")
				g.put(lib+"/"+inner, body)
				g.c02Middle(r, lib+"/"+mid, pkg+"/Makefile", prefix, sub+"/../"+inner)
				if !g.c02Include(pkg, "../../"+lib+"/"+mid) {
					continue
				}
				raws = append(raws, pkg+"/../../"+lib+"/"+sub+"/../"+inner)
				g.feat("c02.chain.far-first-subdir-updown")
				break
			}
			g.put(sib+"/"+inner, body)
			g.c02Middle(r, lib+"/"+mid, pkg+"/Makefile", prefix, "../../"+sib+"/"+inner)
			if !g.c02Include(pkg, "../../"+lib+"/"+mid) {
				continue
			}
			raws = append(raws, pkg+"/../../"+lib+"/../../"+sib+"/"+inner)
			g.feat("c02.chain.far-first")
		}
		g.feat("c02.chain")
	}
	if len(raws) > 0 {
		g.feat("c02.tree-with-chain")
	}
	return raws
}

// ---------- what a printed path names ----------

// resolveInTree walks the printed path component by component through the snapshot `tree`
// (paths relative to the root; cwdRel is the working directory of the run relative to the root):
// "a/b/../c" goes through the directory a/b, which must exist; symbolic links are followed.
// It returns the path of the entry that is reached (relative to the root) and whether it exists.
func resolveInTree(tree map[string]fileState, root, cwdRel, printed string) (string, bool) {
	p := printed
	if filepath.IsAbs(p) {
		rel, err := filepath.Rel(root, filepath.Clean(p))
		if err != nil || rel == ".." || strings.HasPrefix(rel, "../") {
			// outside the snapshot: nothing to walk through
			return "<outside>/" + printed, false
		}
		// the root itself may be spelled in any way; only what is below it is walked
		if !strings.HasPrefix(p, root+"/") {
			return rel, tree[rel].Kind != ""
		}
		p, cwdRel = p[len(root)+1:], "."
	}
	var cur []string
	if c := filepath.Clean(cwdRel); c != "." {
		cur = strings.Split(c, "/")
	}
	links := 0
	var walk func(comps []string) bool
	walk = func(comps []string) bool {
		for i, c := range comps {
			switch c {
			case "", ".":
				continue
			case "..":
				if len(cur) == 0 {
					return false // leaves the snapshot
				}
				cur = cur[:len(cur)-1]
				continue
			}
			cur = append(cur, c)
			st, ok := tree[strings.Join(cur, "/")]
			if !ok {
				cur = append(cur, comps[i+1:]...)
				return false
			}
			switch st.Kind {
			case "l":
				// the LAST component is the entry the line names (lstat view: a save renames a
				// new file over the link itself, it does not write through it); only links on
				// the way are followed
				last := true
				for _, x := range comps[i+1:] {
					if x != "" && x != "." {
						last = false
					}
				}
				if last {
					continue
				}
				links++
				if links > 20 {
					return false
				}
				cur = cur[:len(cur)-1]
				if filepath.IsAbs(st.Link) {
					return false
				}
				if !walk(strings.Split(st.Link, "/")) {
					cur = append(cur, comps[i+1:]...)
					return false
				}
			case "d":
			default:
				if rest := comps[i+1:]; len(rest) > 0 {
					for _, x := range rest {
						if x != "" && x != "." {
							cur = append(cur, rest...)
							return false // a file is not a directory
						}
					}
				}
			}
		}
		return true
	}
	ok := walk(strings.Split(p, "/"))
	if len(cur) == 0 {
		return ".", ok
	}
	return strings.Join(cur, "/"), ok
}

// c02PrintedPaths judges the paths printed in the AUTOFIX lines of one -F run: each must lead,
// walked through the tree as it was before the run, to the entry that its lexical reading
// (path.Clean(cwd/printed), the denotation that C19's clean_path theorem preserves) names, and
// that entry must exist before or after the run.
func c02PrintedPaths(root string, cfg wrConfig, before, after map[string]fileState, stdout string) []c02Problem {
	var ps []c02Problem
	seen := map[string]bool{}
	for _, d := range ParseDiags(stdout) {
		if d.Level != "AUTOFIX" || seen[d.Path] {
			continue
		}
		seen[d.Path] = true
		lex := resolvePrinted(root, filepath.Join(root, cfg.Cwd), d.Path)
		phys, ok := resolveInTree(before, root, cfg.Cwd, d.Path)
		// the lexical reading, with the directory links on its way followed as well (c02_links.go:
		// "cat/linked/PLIST" with cat/linked -> p0 names cat/p0/PLIST under both readings)
		lexPhys := lex
		if lp, lok := resolveInTree(before, root, ".", lex); lok && !strings.HasPrefix(lex, "..") && !strings.HasPrefix(lex, "<outside>") {
			lexPhys = lp
		}
		_, inBefore := before[lexPhys]
		_, inAfter := after[lexPhys]
		switch {
		case ok && phys == lexPhys:
		case !ok && !inBefore && !inAfter:
			ps = append(ps, c02Problem{"C02/autofix-line-names-nonexistent-file/" + fileClass(lex),
				fmt.Sprintf("the AUTOFIX line %q names %s, which exists neither before nor after the run", d.Raw, lex), lex})
		case !ok && inAfter && !inBefore:
			// created by the run: reported as C02/new-entry by the snapshot comparison
		default:
			ps = append(ps, c02Problem{"C02/autofix-line-names-nonexistent-file/" + fileClass(lex),
				fmt.Sprintf("the path of the AUTOFIX line %q read lexically is %s, but walked through the directories that exist before the run it leads to %s (exists: %v)", d.Raw, lex, phys, ok), lex})
		}
	}
	return ps
}

// c02PathShape classifies the paths printed in the AUTOFIX lines of a run: some path contains
// a ".." component; some contains "../.."; some goes up, down and up again ("../name/..").
func c02PathShape(stdout string) (dotdot, twoUp, upDownUp bool) {
	for _, d := range ParseDiags(stdout) {
		if d.Level != "AUTOFIX" {
			continue
		}
		cs := strings.Split(d.Path, "/")
		for i, c := range cs {
			if c != ".." {
				continue
			}
			dotdot = true
			if i+1 < len(cs) && cs[i+1] == ".." {
				twoUp = true
			}
			for j := i + 2; j < len(cs); j++ {
				if cs[j] == ".." && cs[j-1] != ".." {
					upDownUp = true
				}
			}
		}
	}
	return
}

// `vharness run tool-c02chains work=<dir> seed=N`: the include-chain generator by itself;
// prints the raw paths and the AUTOFIX lines with ".." of a -F run from the root; the trees are kept.
func init() {
	register("tool-c02chains", func(ctx *Ctx) *Result {
		rng := NewRng(ctx.Seed)
		with, n := 0, 40
		for i := 0; i < n; i++ {
			r := rng.Fork()
			root := filepath.Join(ctx.Work, fmt.Sprintf("t%d", i))
			g := GenerateTreeC03(r, root, GenOpts{Packages: 1 + i%3, Hostile: i%7 == 6, Rich: i%9 == 8, Density: 25 + 10*(i%4)})
			raws := addIncludeChainsC02(r.Fork(), g)
			if len(raws) == 0 {
				continue
			}
			with++
			run := RunPkglint(ctx, root, 30*time.Second, "-F", "-r", ".")
			fmt.Printf("== %s exit=%d\n", root, run.Exit)
			for _, raw := range raws {
				fmt.Printf("   raw %s\n", raw)
			}
			for _, d := range ParseDiags(run.Stdout) {
				if d.Level == "AUTOFIX" && strings.Contains(d.Path, "..") {
					fmt.Printf("   %s\n", d.Raw)
				}
			}
		}
		fmt.Printf("%d of %d trees with chains\n", with, n)
		return &Result{}
	}, nil)
}

// c02PathFloor is the least number of -F runs that must print an AUTOFIX line with "..", with
// "../.." and with "../name/.." in its path.
func c02PathFloor(tier string) int {
	if tier == "thorough" {
		return 100
	}
	return 5
}
