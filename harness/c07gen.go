package main

// C07's additions to the shared tree generator (gentree.go is not changed):
// infrastructure and inter-package content that fills the maps listed in
// audit/maprange.json with >= 3 keys each, so that an iteration order that
// reaches the output has something to permute.
//
//   c07.tools        mk/tools/replace.mk (12 tools), tools.{NetBSD,Linux,SunOS,Darwin}.mk with
//                    TOOLS_PLATFORM.* (some missing, some conditional) and uses of
//                    ${TOOLS_PLATFORM.x} in packages          -> Pkgsrc.loadToolsPlatform (4 loops), Tools.Trace
//   c07.mastersites  mk/fetch/sites.mk with 7 MASTER_SITE_* and MASTER_SITES= literal URLs
//                                                              -> UrlChecker.CheckFetchURL
//   c07.changes      doc/CHANGES-2018..2020 with a freeze and entries for packages that do not exist
//                                                              -> Changes.checkRemovedAfterLastFreeze
//   c07.licenses     8 license files, most unused             -> (ReadDir order) checkToplevelUnusedLicenses
//   c07.bl3          devel/lib{a,b,c,d}/buildlink3.mk included by the packages
//                                                              -> Package.checkPkgConfig, checkLinesBuildlink3Inclusion, checkMesonPython
//   c07.options      options.mk with 5 declared options, a pattern condition (:Mfoo*) and unhandled ones
//                                                              -> OptionsLinesChecker.handleLowerCondition
//   c07.enum         a condition with a pattern on an enum     -> VartypeCheck.Enum
//   c07.mkconf       mk/defaults/mk.conf with user-settable variables used by the packages
//                                                              -> Scope.varnames / forEach, BUILD_DEFS checks
//   c07.shared-distfile  the same distfile with different hashes in all packages (-Cglobal)
//   c07.plist        PLIST with many files, directories and conditions -> Package.loadPlistDirs
//   c07.vargroups    a *.mk file with a _VARGROUPS section that lists undefined/unused variables
//                                                              -> forEachStringMkLine, copyStringMkLine, VargroupsChecker.ignore
//   c07.subst        two SUBST blocks with foreign variables   -> substScope.finish
//
// Regressions: the triggers of the three order dependences that were found with
// this check and repaired in /repo (37e2b2f, 37d1fd9, 7d8fe86; docs/C07.md) are
// written into every second tree:
//   c07.regress.mastersites-overlap, c07.regress.changes-tie, c07.regress.bl3-trace

import (
	"fmt"
	"os"
	"strings"
)

var c07Tools = []string{"awk", "sed", "grep", "tar", "gzip", "bison", "flex", "pkg-config", "msgfmt", "gmake", "perl", "install"}

// c07Regress: what a tree carries of the regression triggers.
type c07Regress struct {
	On     bool
	Bl3Pkg string // a package with its own buildlink3.mk and >= 2 foreign buildlink3 includes ("" if none)
}

func c07GenTree(r *Rng, root string, index int) (*GenTree, c07Regress) {
	known := index%2 == 1 // carries the master-site and CHANGES regression triggers
	reg := c07Regress{On: known}
	g := GenerateTree(r, root, GenOpts{Packages: 2 + index%2, Rich: true, Density: 25 + 10*(index%3)})

	// ---- tools
	var rep []string
	rep = append(rep, cvsID, "")
	for _, t := range c07Tools {
		rep = append(rep, fmt.Sprintf("_TOOLS_VARNAME.%s=\t%s", t, strings.ToUpper(strings.ReplaceAll(t, "-", "_"))))
	}
	rep = append(rep, "TOOLS_CREATE+=\tmytool othertool")
	g.put("mk/tools/replace.mk", lines(rep...))
	g.put("mk/tools/bsd.tools.mk", lines(cvsID, "", ".include \"defaults.mk\"", ".include \"replace.mk\""))
	for oi, opsys := range []string{"NetBSD", "Linux", "SunOS", "Darwin"} {
		ls := []string{cvsID, ""}
		for ti, t := range c07Tools {
			switch (ti + oi + r.Intn(3)) % 5 {
			case 0: // missing on this platform
			case 1:
				ls = append(ls, ".if exists(/usr/bin/"+t+")", "TOOLS_PLATFORM."+t+"?=\t/usr/bin/"+t, ".endif")
			default:
				ls = append(ls, "TOOLS_PLATFORM."+t+"?=\t/usr/bin/"+t)
			}
		}
		g.put("mk/tools/tools."+opsys+".mk", lines(ls...))
	}
	g.feat("c07.tools")

	// ---- master sites
	sites := []string{cvsID, "",
		"MASTER_SITE_GNU+=\thttp://ftp.gnu.org/pub/gnu/ \\", "\thttps://ftpmirror.gnu.org/gnu/",
		"MASTER_SITE_SOURCEFORGE+=\thttp://downloads.sourceforge.net/sourceforge/",
		"MASTER_SITE_GITHUB+=\thttps://github.com/",
		"MASTER_SITE_PERL_CPAN+=\thttp://cpan.example.org/modules/by-module/",
		"MASTER_SITE_PYPI+=\thttps://files.pythonhosted.org/packages/source/",
		"MASTER_SITE_XORG+=\thttp://xorg.example.org/pub/individual/",
		"MASTER_SITE_BACKUP+=\thttp://backup.example.org/pub/",
	}
	urls := []string{"http://ftp.gnu.org/pub/gnu/hello/", "https://github.com/example/project/", "http://downloads.sourceforge.net/sourceforge/proj/",
		"https://files.pythonhosted.org/packages/source/p/pkg/", "http://xorg.example.org/pub/individual/lib/", "http://unlisted.example.org/dist/", "-http://cpan.example.org/modules/by-module/Foo/Foo-1.0.tar.gz"}
	if known {
		// two variables whose URLs are prefixes of each other: regression for 37e2b2f (urlchecker.go)
		sites = append(sites, "MASTER_SITE_MIRROR_A+=\thttp://mirror.example.org/pub/", "MASTER_SITE_MIRROR_B+=\thttp://mirror.example.org/pub/b/", "MASTER_SITE_MIRROR_C+=\thttp://mirror.example.org/")
		urls = append(urls, "http://mirror.example.org/pub/b/dist/")
		g.feat("c07.regress.mastersites-overlap")
	}
	g.put("mk/fetch/sites.mk", lines(sites...))
	g.feat("c07.mastersites")

	// ---- licenses
	for _, l := range []string{"apache-2.0", "mit", "isc", "zlib", "gnu-lgpl-v2.1", "mpl-2.0"} {
		g.put("licenses/"+l, "The "+l+" license\n")
	}
	g.feat("c07.licenses")

	// ---- user-settable variables
	g.put("mk/defaults/mk.conf", lines(cvsID, "", "#USER_SETTABLE_A?=\tdefault", "USER_SETTABLE_B?=\tdefault", "#USER_SETTABLE_C?=\tyes", "USER_SETTABLE_D?=\tno", "PKG_SYSCONFBASE?=\t/etc"))
	g.feat("c07.mkconf")

	// ---- buildlink3 providers
	libs := []string{"liba", "libb", "libc", "libd"}
	for _, l := range libs {
		u := strings.ToUpper(l)
		g.put("devel/"+l+"/buildlink3.mk", lines(cvsID, "", "BUILDLINK_TREE+=\t"+l, "", ".if !defined("+u+"_BUILDLINK3_MK)", u+"_BUILDLINK3_MK:=", "",
			"BUILDLINK_API_DEPENDS."+l+"+=\t"+l+">=1.0", "BUILDLINK_PKGSRCDIR."+l+"?=\t../../devel/"+l, ".endif # "+u+"_BUILDLINK3_MK", "", "BUILDLINK_TREE+=\t-"+l))
		g.put("devel/"+l+"/Makefile", cvsID+"\n")
	}
	g.put("devel/Makefile", lines(cvsID, "", "COMMENT=\tDevelopment", "", "SUBDIR+=\tliba", "SUBDIR+=\tlibb", "SUBDIR+=\tlibc", "SUBDIR+=\tlibd", "", ".include \"../mk/misc/category.mk\""))

	// ---- doc/CHANGES
	year := func(y int, extra []string) {
		ls := []string{"$" + "NetBSD$", "", fmt.Sprintf("Changes to the packages collection and infrastructure in %d:", y), ""}
		ls = append(ls, extra...)
		g.put(fmt.Sprintf("doc/CHANGES-%d", y), lines(ls...))
	}
	var c18, c19, c20 []string
	for i, p := range g.Pkgs {
		c18 = append(c18, fmt.Sprintf("\tAdded %s version 0.9 [user 2018-01-%02d]", p, 2+i))
		c19 = append(c19, fmt.Sprintf("\tUpdated %s to 1.0 [user 2019-02-%02d]", p, 3+i))
	}
	c18 = append(c18, "\tAdded cat/vanished1 version 1.0 [user 2018-03-01]", "\tAdded devel/vanished2 version 2.0 [user 2018-03-01]", "\tRemoved cat/oldpkg [user 2018-04-01]")
	c19 = append(c19, "\tmk/bsd.pkg.mk: started freeze for pkgsrc-2019Q4 branch [user 2019-12-10]",
		"\tUpdated cat/vanished3 to 3.0 [user 2019-12-11]", "\tAdded cat/vanished4 version 1 [user 2019-12-11]", "\tRenamed cat/old to cat/p0 [user 2019-12-12]",
		"\tmk/bsd.pkg.mk: freeze ended for pkgsrc-2019Q4 branch [user 2019-12-28]")
	c20 = append(c20, "\tAdded cat/vanished5 version 1.0 [user 2020-01-03]", "\tUpdated cat/vanished6 to 1.1 [user 2020-01-03]", "\tDowngraded cat/vanished7 to 0.9 [user 2020-01-02]")
	if known {
		// same date and same line number in two files: IsAbove cannot order them (regression for 37d1fd9, changes.go)
		for n := 0; len(c20) < len(c19); n++ {
			c20 = append(c20, fmt.Sprintf("\tUpdated cat/p0 to 1.0.%d [user 2020-01-%02d]", n, 4+n))
		}
		for n := 0; len(c19) < len(c20); n++ {
			c19 = append(c19, fmt.Sprintf("\tUpdated cat/p1 to 1.0.%d [user 2019-12-%02d]", n, 29))
		}
		c19 = append(c19, "\tAdded cat/vanished9 version 1.0 [user 2020-02-01]")
		c20 = append(c20, "\tAdded cat/vanished8 version 1.0 [user 2020-02-01]")
		g.feat("c07.regress.changes-tie")
	}
	year(2018, c18)
	year(2019, c19)
	year(2020, c20)
	g.feat("c07.changes")

	// ---- per package
	for pi, p := range g.Pkgs {
		mk := g.Read(p + "/Makefile")
		final := ".include \"../../mk/bsd.pkg.mk\""
		var add []string
		add = append(add, "MASTER_SITES+=\t"+urls[(pi+index)%len(urls)]+" \\", "\t\t"+urls[(pi+index+3)%len(urls)], "")
		if known && pi == 0 {
			add = append(add, "MASTER_SITES+=\thttp://mirror.example.org/pub/b/dist/", "")
		}
		t1, t2 := c07Tools[(pi+index)%len(c07Tools)], c07Tools[(pi+index+5)%len(c07Tools)]
		add = append(add, "MY_AWK=\t${TOOLS_PLATFORM."+t1+"} ${TOOLS_PLATFORM."+t2+"}", "USE_TOOLS+=\t"+t1+" "+t2+" unknown-tool", "")
		add = append(add, ".if !empty(PKGSRC_COMPILER:Mzz*) || ${USER_SETTABLE_B} == yes || ${USER_SETTABLE_D:Uno} == no", "CFLAGS+=\t-DZZ ${USER_SETTABLE_A}", ".endif", "")
		add = append(add, "SUBST_CLASSES+=\tone two", "SUBST_STAGE.one=\tpre-configure", "SUBST_FILES.one=\tfile", "SUBST_SED.one=\t-e s,a,b,", "FOREIGN_1=\tx",
			"SUBST_STAGE.two=\tpost-build", "SUBST_FILES.two=\tfile2", "FOREIGN_2=\ty", "SUBST_VARS.two=\tFOREIGN_1 PREFIX", "")
		g.feat("c07.subst")
		g.feat("c07.enum")
		// a package with its own buildlink3.mk that does not include what the Makefile includes:
		// regression for 7d8fe86 (package.go, --debug trace lines)
		_, err := os.Stat(g.Path(p + "/buildlink3.mk"))
		ownBl3 := err == nil
		n := 2 + r.Intn(3)
		if ownBl3 {
			g.feat("c07.regress.bl3-trace")
			reg.Bl3Pkg = p
		}
		for k := 0; k < n; k++ {
			add = append(add, ".include \"../../devel/"+libs[(pi+k+index)%len(libs)]+"/buildlink3.mk\"")
		}
		g.feat("c07.bl3")
		// options.mk
		g.put(p+"/options.mk", lines(cvsID, "", "PKG_OPTIONS_VAR=\tPKG_OPTIONS."+fmt.Sprint("p", pi), "PKG_SUPPORTED_OPTIONS=\tfoo1 foo2 foo3 zeta alpha", "PKG_SUGGESTED_OPTIONS=\tfoo1", "",
			".include \"../../mk/bsd.options.mk\"", "", ".if !empty(PKG_OPTIONS:Mfoo*)", "CONFIGURE_ARGS+=\t--enable-foo", ".endif", "",
			".if !empty(PKG_OPTIONS:Mundeclared)", "CONFIGURE_ARGS+=\t--enable-undeclared", ".endif"))
		add = append(add, ".include \"options.mk\"")
		g.feat("c07.options")
		mk = strings.Replace(mk, final, strings.Join(add, "\n")+"\n"+final, 1)
		g.Write(p+"/Makefile", mk)

		// a _VARGROUPS section whose declarations do not match the file (vargroups.go: forEachStringMkLine, ignore)
		g.put(p+"/vargroup.mk", lines(cvsID, "", "_VARGROUPS+=\t\tc07grp", "_USER_VARS.c07grp=\tC07_USER_A C07_USER_B", "_PKG_VARS.c07grp=\tC07_PKG_A",
			"_DEF_VARS.c07grp=\tC07_DEF_Z C07_DEF_A C07_DEF_M C07_DEF_B", "_USE_VARS.c07grp=\tC07_USE_Z C07_USE_A C07_USE_M", "_IGN_VARS.c07grp=\tC07_IGN_* C07_OTHER_* C07_X?",
			"", "C07_PKG_A?=\t${C07_USER_A} ${C07_USER_B} ${C07_IGN_1} ${C07_OTHER_2} ${C07_UNLISTED_Z} ${C07_UNLISTED_A}", "C07_UNLISTED_DEF=\tyes"))
		g.feat("c07.vargroups")

		// the same distfile with another hash in every package
		di := g.Read(p + "/distinfo")
		di += fmt.Sprintf("BLAKE2s (shared-1.0.tar.gz) = %04d\nSHA512 (shared-1.0.tar.gz) = %04d\nSize (shared-1.0.tar.gz) = 1234 bytes\n", 1000+pi, 2000+pi)
		g.Write(p+"/distinfo", di)
		g.feat("c07.shared-distfile")

		// a big PLIST
		pl := g.Read(p + "/PLIST")
		pl += "share/zz/a\nshare/zz/sub/b\nshare/yy/c\n${PLIST.foo}share/xx/d\n${PLIST.bar}share/xx/e\n@pkgdir share/emptydir1\n@pkgdir share/emptydir2\nshare/examples/rc.d/daemon\n"
		g.Write(p+"/PLIST", pl)
		g.feat("c07.plist")
	}
	g.put("Makefile", lines(cvsID, "", "SUBDIR+=\tcat", "SUBDIR+=\tdevel", ""))
	return g, reg
}

// ---------- registry pairs (in-process history) ----------
//
// Diagnostics that depend on a per-run registry: a name is registered by one
// file (a .PHONY target, a created tool, a defined variable, a used license, a
// declared option, a SUBST class, a PLIST variable, a _VARGROUPS entry, a
// BUILD_DEFS entry, a distfile hash) and its absence is reported elsewhere.
// Two trees with identical layout: in tree A every package cat/reg-<feature>
// REGISTERS the name, in tree B the same package USES it unregistered. Run in
// one process in the orders A,B,A and B,A,B, every run must print what a fresh
// process prints: a registry that survives `G = NewPkglint(...)` makes the
// later "use" runs lose (or gain) diagnostics.

var c07RegistryFeatures = []string{"target", "target2", "tool", "variable", "license", "option", "subst", "plistvar", "vargroup", "builddefs", "distfile", "pkgname"}

// c07RegistryPackage writes cat/reg-<feature> into t; register selects the variant.
func c07RegistryPackage(t *Tree, feature string, register bool) {
	dir := "cat/reg-" + feature
	var extra []string
	either := func(reg, use []string) {
		if register {
			extra = append(extra, reg...)
		} else {
			extra = append(extra, use...)
		}
	}
	switch feature {
	case "target":
		either([]string{".PHONY: regen", "regen:", "\t${RUN} ${ECHO} regenerating"}, []string{"regen:", "\t${RUN} ${ECHO} regenerating"})
	case "target2":
		either([]string{"gen-docs: .PHONY", "\t${RUN} ${ECHO} docs", "", "c07-extra: .PHONY", "\t${RUN} ${ECHO} extra"}, []string{"gen-docs:", "\t${RUN} ${ECHO} docs", "", "c07-extra:", "\t${RUN} ${ECHO} extra"})
	case "tool":
		either([]string{"TOOLS_CREATE+=\tc07tool", "TOOLS_PATH.c07tool=\t${PREFIX}/bin/c07tool", "USE_TOOLS+=\tc07tool", "", "do-build:", "\t${RUN} c07tool --version"},
			[]string{"USE_TOOLS+=\tc07tool", "", "do-build:", "\t${RUN} c07tool --version"})
	case "variable":
		either([]string{"C07_SHARED_VAR=\tvalue", "C07_OTHER_DIRS=\tdir", "CFLAGS+=\t${C07_SHARED_VAR} ${C07_OTHER_DIRS}"}, []string{"CFLAGS+=\t${C07_SHARED_VAR} ${C07_OTHER_DIRS}"})
	case "license":
		// registers the use of licenses/isc (checked by -Cglobal -r from the top) / uses another one
	case "option":
		t.Write(dir+"/options.mk", lines(cvsID, "", "PKG_OPTIONS_VAR=\tPKG_OPTIONS.reg-option",
			condStrGo(register, "PKG_SUPPORTED_OPTIONS=\tc07opt other", "PKG_SUPPORTED_OPTIONS=\tother"), "", ".include \"../../mk/bsd.options.mk\"", "",
			".if !empty(PKG_OPTIONS:Mc07opt)", "CONFIGURE_ARGS+=\t--enable-c07", ".endif", "", ".if !empty(PKG_OPTIONS:Mother)", "CONFIGURE_ARGS+=\t--enable-other", ".endif"))
		extra = append(extra, ".include \"options.mk\"")
	case "subst":
		either([]string{"SUBST_CLASSES+=\tc07cls", "SUBST_STAGE.c07cls=\tpre-configure", "SUBST_FILES.c07cls=\tfile", "SUBST_SED.c07cls=\t-e s,a,b,"},
			[]string{"SUBST_STAGE.c07cls=\tpre-configure", "SUBST_FILES.c07cls=\tfile", "SUBST_SED.c07cls=\t-e s,a,b,"})
	case "plistvar":
		either([]string{"PLIST_VARS+=\tc07cond", "PLIST.c07cond=\tyes"}, []string{"C07_NOTHING=\tyes"})
	case "vargroup":
		t.Write(dir+"/module.mk", lines(cvsID, "", "_VARGROUPS+=\t\tc07reg", "_PKG_VARS.c07reg=\tC07_VG_A",
			condStrGo(register, "_USE_VARS.c07reg=\tC07_VG_USED", "_USE_VARS.c07reg=\tC07_VG_USED C07_VG_B"), "", "C07_VG_A?=\t${C07_VG_USED}"))
	case "builddefs":
		either([]string{"BUILD_DEFS+=\tUSER_SETTABLE_B", "CFLAGS+=\t-DX=${USER_SETTABLE_B}"}, []string{"CFLAGS+=\t-DX=${USER_SETTABLE_B}"})
	case "distfile", "pkgname":
	}
	t.WritePackage(dir, extra)
	switch feature {
	case "license":
		mk := t.Read(dir + "/Makefile")
		t.Write(dir+"/Makefile", strings.Replace(mk, "LICENSE=\t2-clause-bsd", condStrGo(register, "LICENSE=\tisc", "LICENSE=\tmit"), 1))
	case "plistvar":
		t.Write(dir+"/PLIST", lines("@comment $"+"NetBSD$", "bin/program", "${PLIST.c07cond}bin/conditional"))
	case "distfile":
		// the same distfile as cat/reg-pkgname, with an equal (register) or a different (use) hash: -Cglobal
		t.Write(dir+"/distinfo", lines("$"+"NetBSD$", "", "BLAKE2s (c07-shared-1.0.tar.gz) = "+condStrGo(register, "aaaa", "bbbb"), "SHA512 (c07-shared-1.0.tar.gz) = "+condStrGo(register, "aaaa", "bbbb"), "Size (c07-shared-1.0.tar.gz) = 1234 bytes"))
	case "pkgname":
		t.Write(dir+"/distinfo", lines("$"+"NetBSD$", "", "BLAKE2s (c07-shared-1.0.tar.gz) = aaaa", "SHA512 (c07-shared-1.0.tar.gz) = aaaa", "Size (c07-shared-1.0.tar.gz) = 1234 bytes"))
	}
}

func condStrGo(c bool, a, b string) string {
	if c {
		return a
	}
	return b
}

// c07GenRegistryPair writes the two trees; the rest of the trees (infrastructure, other packages) is identical.
func c07GenRegistryPair(r *Rng, rootA, rootB string, index int) (*GenTree, *GenTree) {
	ga, _ := c07GenTree(r, rootA, 2*index) // even index: without the regression triggers
	if err := CopyTree(rootA, rootB); err != nil {
		panic(err)
	}
	gb := &GenTree{Tree: &Tree{Root: rootB}, Pkgs: ga.Pkgs, Features: map[string]int{}}
	var subdirs []string
	for _, f := range c07RegistryFeatures {
		c07RegistryPackage(ga.Tree, f, true)
		c07RegistryPackage(gb.Tree, f, false)
		subdirs = append(subdirs, "SUBDIR+=\treg-"+f)
	}
	for _, t := range []*Tree{ga.Tree, gb.Tree} {
		cm := t.Read("cat/Makefile")
		t.Write("cat/Makefile", strings.Replace(cm, "\n.include \"../mk/misc/category.mk\"", strings.Join(subdirs, "\n")+"\n\n.include \"../mk/misc/category.mk\"", 1))
	}
	return ga, gb
}
