package main

// C01: re-evaluation of <= 200 oracle requests of the Scope and resolveExprs
// models by coqc's vm_compute (the extracted OCaml against the Coq kernel's
// own evaluation).

import (
	"fmt"
	"os"
	"os/exec"
	"path/filepath"
	"strings"
)

func c01CoqOp(s string) (string, bool) {
	f := strings.Split(s, ":")
	switch {
	case len(f) == 6 && f[0] == "D":
		return fmt.Sprintf("ODefine %s {| sl_id := %s; sl_kind := %s; sl_op := %s; sl_value := %s |}", c09CoqStr(unhx(f[1])), f[2], f[3], f[4], c09CoqStr(unhx(f[5]))), true
	case len(f) == 3 && f[0] == "F":
		return fmt.Sprintf("OFallback %s %s", c09CoqStr(unhx(f[1])), c09CoqStr(unhx(f[2]))), true
	case len(f) == 4 && f[0] == "U":
		b := "false"
		if f[3] == "1" {
			b = "true"
		}
		return fmt.Sprintf("OUse %s {| sl_id := %s; sl_kind := 2; sl_op := 0; sl_value := [] |} %s", c09CoqStr(unhx(f[1])), f[2], b), true
	}
	return "", false
}

func c01CoqOps(parts []string) (string, bool) {
	var out []string
	for _, p := range parts {
		if p == "-" {
			continue
		}
		t, ok := c01CoqOp(p)
		if !ok {
			return "", false
		}
		out = append(out, t)
	}
	return "[" + strings.Join(out, "; ") + "]", true
}

func c01CoqBool(s string) string {
	if s == "1" {
		return "true"
	}
	return "false"
}

// obs = mentioned,defined,definedSimilar,used,usedSimilar,atLoad,first,last,commented,firstUse,<hex value>,found,indet
func c01CoqObs(s string) (string, bool) {
	f := strings.Split(s, ",")
	if len(f) != 13 {
		return "", false
	}
	return fmt.Sprintf("(%s, %s, %s, %s, %s, %s, %s, %s, %s, %s, (%s, %s, %s))", f[0], c01CoqBool(f[1]), c01CoqBool(f[2]), c01CoqBool(f[3]), c01CoqBool(f[4]), c01CoqBool(f[5]),
		f[6], f[7], f[8], f[9], c09CoqStr(unhx(f[10])), c01CoqBool(f[11]), c01CoqBool(f[12])), true
}

func c01CrossCheckExtraction(ctx *Ctx, res *Result, reqs []string) {
	if len(reqs) > 200 {
		reqs = reqs[:200]
	}
	ans, err := runOracle(ctx, "c01", reqs)
	if err != nil {
		res.Broken = err.Error()
		return
	}
	var sb strings.Builder
	sb.WriteString("From Coq Require Import List NArith Bool.\nFrom PV Require Import Lib.Bytes Lib.PanicRes Model.Resolve Spec.ResolveSpec Model.Scope.\nImport ListNotations.\nOpen Scope N_scope.\n")
	sb.WriteString("Definition lid (o : option sline) : N := match o with Some l => sl_id l | None => 0 end.\n")
	sb.WriteString("Definition okey (o : sobs) := (lid (ob_mentioned o), ob_defined o, ob_defined_similar o, ob_used o, ob_used_similar o, ob_load o, lid (ob_first o), lid (ob_last o), lid (ob_commented o), lid (ob_first_use o), ob_lvf o).\n")
	n := 0
	for i, rq := range reqs {
		f := strings.Fields(rq)
		switch {
		case len(f) >= 3 && f[0] == "scope":
			ops, ok := c01CoqOps(f[2:])
			var names []string
			for _, h := range strings.Split(f[1], ".") {
				names = append(names, c09CoqStr(unhx(h)))
			}
			var steps []string
			for _, st := range strings.Split(ans[i], "|") {
				var obs []string
				for _, o := range strings.Split(st, ";") {
					t, ok2 := c01CoqObs(o)
					ok = ok && ok2
					obs = append(obs, t)
				}
				steps = append(steps, "["+strings.Join(obs, "; ")+"]")
			}
			if !ok {
				res.Broken = "cross-check: cannot render " + q(rq) + " -> " + q(ans[i])
				return
			}
			fmt.Fprintf(&sb, "Example case_%d : map (map okey) (scope_trace [] %s [%s]) = [%s].\nProof. vm_compute. reflexivity. Qed.\n", i, ops, strings.Join(names, "; "), strings.Join(steps, "; "))
			n++
		case len(f) == 4 && f[0] == "defall":
			o, ok1 := c01CoqOps(strings.Split(f[2], "+"))
			t, ok2 := c01CoqOps(strings.Split(f[3], "+"))
			var names, obs []string
			for _, h := range strings.Split(f[1], ".") {
				names = append(names, c09CoqStr(unhx(h)))
			}
			ok := ok1 && ok2
			for _, ob := range strings.Split(ans[i], ";") {
				x, ok3 := c01CoqObs(ob)
				ok = ok && ok3
				obs = append(obs, x)
			}
			if !ok {
				res.Broken = "cross-check: cannot render " + q(rq) + " -> " + q(ans[i])
				return
			}
			fmt.Fprintf(&sb, "Example case_%d : match sdefine_all (scope_run %s) (scope_run %s) with Ok st => map okey (map (observe st) [%s]) | _ => [] end = [%s].\nProof. vm_compute. reflexivity. Qed.\n",
				i, t, o, strings.Join(names, "; "), strings.Join(obs, "; "))
			n++
		case len(f) == 5 && f[0] == "resolve":
			a, ok1 := c01CoqOps(strings.Split(f[2], "+"))
			p, ok2 := c01CoqOps(strings.Split(f[3], "+"))
			var mres string
			var passes, fuel, budget int
			if k, _ := fmt.Sscanf(ans[i], "ok %s passes=%d fuel=%d budget=%d", &mres, &passes, &fuel, &budget); k != 4 || !ok1 || !ok2 {
				res.Broken = "cross-check: cannot render " + q(rq) + " -> " + q(ans[i])
				return
			}
			fmt.Fprintf(&sb, "Example case_%d : let sc := scope_bindings (scope_run %s) ++ scope_bindings (scope_run %s) in (resolve_exprs %s sc %s, resolve_fuel sc, value_budget sc) = (Ok %s, %d%%nat, %d%%nat).\nProof. vm_compute. reflexivity. Qed.\n",
				i, a, p, c01CoqBool(f[1]), c09CoqStr(unhx(f[4])), c09CoqStr(unhx(mres)), fuel, budget)
			n++
		}
	}
	file := filepath.Join(ctx.Work, "c01cases.v")
	if err := os.WriteFile(file, []byte(sb.String()), 0o644); err != nil {
		res.Broken = err.Error()
		return
	}
	cmd := exec.Command("timeout", "600", "coqc", "-Q", filepath.Join(ctx.Verif, "coq"), "PV", file)
	cmd.Dir = ctx.Work
	out, err := cmd.CombinedOutput()
	if err != nil {
		msg := string(out)
		if len(msg) > 600 {
			msg = msg[:600]
		}
		res.AddViolation(Violation{Key: "C01/extraction-vs-vm_compute",
			What:       "the extracted oracle and coqc's vm_compute disagree on the Scope/resolveExprs model (or coqc failed): " + msg,
			FoundInput: false, Replay: map[string]any{"broken": "extraction cross-check", "detail": msg}})
		return
	}
	res.Count("vm_compute_cross_checked", n)
}
