package main

// C20: the extraction itself.  A sample of the oracle requests (random scripts
// and words of the exhaustive sweeps, incl. failing saves) is re-evaluated by
// coqc with vm_compute on the Gallina definition c20_run (Extract/C20.v) and
// compared with what the extracted OCaml oracle answered.  Guards the
// extraction and the OCaml driver (parsing of requests, printing of answers).

import (
	"fmt"
	"os"
	"os/exec"
	"path/filepath"
	"strconv"
	"strings"

	pkglint "github.com/rillig/pkglint/v23"
)

func c20CoqNat(n int) string { return fmt.Sprintf("%d%%nat", n) }

func c20CoqOp(op pkglint.VerifC20Op) string {
	switch op.Kind {
	case "L":
		return fmt.Sprintf("OLoad (%d, %d) %d", op.Key, op.Spelling, op.Opts)
	case "X":
		var f string
		switch op.Fix {
		case "A":
			f = fmt.Sprintf("(FReplaceAt %s %s %s %s)", c20CoqNat(op.RawIndex), c20CoqNat(op.TextIndex), c09CoqStr(op.From), c09CoqStr(op.To))
		case "R":
			f = fmt.Sprintf("(FReplaceAfter %s %s %s)", c09CoqStr(op.Prefix), c09CoqStr(op.From), c09CoqStr(op.To))
		case "U":
			f = fmt.Sprintf("(FInsertAbove %s)", c09CoqStr(op.To))
		case "W":
			f = fmt.Sprintf("(FInsertBelow %s)", c09CoqStr(op.To))
		default:
			f = "FDelete"
		}
		return fmt.Sprintf("OFix %s %s %s", c20CoqNat(op.View), c20CoqNat(op.Line), f)
	case "S":
		ks := make([]string, len(op.Fail))
		for i, k := range op.Fail {
			ks[i] = strconv.Itoa(k)
		}
		return fmt.Sprintf("OSave %s [%s]", c20CoqNat(op.View), strings.Join(ks, ";"))
	case "M":
		if op.Remove {
			return fmt.Sprintf("OModify %d None", op.Key)
		}
		return fmt.Sprintf("OModify %d (Some %s)", op.Key, c09CoqStr(op.Content))
	}
	return "?"
}

func c20CoqLines(s string) (string, bool) {
	switch s {
	case "nil":
		return "None", true
	case "e":
		return "(Some [])", true
	}
	var ls []string
	for _, l := range strings.Split(s, ";") {
		p := strings.Split(l, ",")
		if len(p) != 4 {
			return "", false
		}
		var raws []string
		for _, r := range strings.Split(p[2], "+") {
			raws = append(raws, c09CoqStr(unhx(r)))
		}
		ls = append(ls, fmt.Sprintf("(%s, %s, [%s], %v)", p[0], c09CoqStr(unhx(p[1])), strings.Join(raws, ";"), p[3] == "1"))
	}
	return "(Some [" + strings.Join(ls, "; ") + "])", true
}

// c20CoqAnswer renders the oracle's answer as the Gallina value of c20_run.
func c20CoqAnswer(ans string) (string, bool) {
	var items []string
	stop := "None"
	for _, tok := range strings.Fields(ans) {
		switch tok {
		case "!index":
			stop = "(Some PanicIndex)"
			continue
		case "!assert":
			stop = "(Some PanicAssert)"
			continue
		case "!fatal":
			stop = "(Some Fatal)"
			continue
		}
		at := strings.LastIndexByte(tok, '@')
		if at < 0 {
			return "", false
		}
		ev, body := tok[at+1:], tok[:at]
		switch {
		case strings.HasPrefix(body, "L") && len(body) > 2:
			f := strings.Split(body[3:], ":")
			if len(f) != 2 || body[2] != ':' {
				return "", false
			}
			r, ok1 := c20CoqLines(f[0])
			fr, ok2 := c20CoqLines(f[1])
			if !ok1 || !ok2 {
				return "", false
			}
			items = append(items, fmt.Sprintf("(%v, %s, ObsLoad %s, %s)", body[1] == '1', fr, r, ev))
		case strings.HasPrefix(body, "X:"):
			items = append(items, fmt.Sprintf("(true, None, ObsFix %v, %s)", body[2:] == "1", ev))
		case strings.HasPrefix(body, "S:"):
			var ws []string
			if body[2:] != "" {
				for _, kv := range strings.Split(body[2:], ";") {
					k, v, ok := strings.Cut(kv, "=")
					if !ok {
						return "", false
					}
					ws = append(ws, fmt.Sprintf("(%s, %s)", k, c09CoqStr(unhx(v))))
				}
			}
			items = append(items, fmt.Sprintf("(true, None, ObsSave [%s], %s)", strings.Join(ws, "; "), ev))
		case body == "M":
			items = append(items, fmt.Sprintf("(true, None, ObsModify, %s)", ev))
		case body == "B":
			items = append(items, fmt.Sprintf("(true, None, ObsBad, %s)", ev))
		default:
			return "", false
		}
	}
	return fmt.Sprintf("([%s], %s)", strings.Join(items, "; "), stop), true
}

func c20CrossCheckExtraction(ctx *Ctx, res *Result, tally *c20Tally) {
	rng := NewRng(ctx.Seed ^ 0xc20c20)
	var scripts []*c20Script
	for len(scripts) < 90 {
		scripts = append(scripts, c20RandomScript(rng, 14))
	}
	// words of the two exhaustive sweeps, incl. failing saves
	for _, ext := range []bool{false, true} {
		n := 0
		c20EnumerateExt(5, int(rng.Intn(16)), 16, ext, func(word []int) {
			if n < 30 && rng.Chance(2) {
				if s, ok := c20Concrete(word, Pick(rng, []string{"d", "s", "a", "a"}), 2+rng.Intn(2)); ok {
					scripts = append(scripts, s)
					n++
				}
			}
		})
	}
	// round 5: scripts of the mixed-mode sweep (the model runs convert_lines = the C09 model)
	nm := 0
	c20ModesScripts(int(rng.Intn(16)), func(sc *c20Script) {
		if nm < 30 && rng.Chance(3) {
			scripts = append(scripts, sc)
			nm++
		}
	})
	tally.add("vm_compute_cross_checked_mixed_modes", nm)
	reqs := make([]string, len(scripts))
	for i, s := range scripts {
		reqs[i] = s.request()
	}
	ans, err := runOracle(ctx, "c20", reqs)
	if err != nil {
		res.Broken = err.Error()
		return
	}
	modes := map[string]string{"d": "ModeDefault", "s": "ModeShowAutofix", "a": "ModeAutofix"}
	var sb strings.Builder
	sb.WriteString("From PV Require Import Lib.Bytes Model.FileCache Model.FileCacheLines Spec.FreshLoad Extract.C20.\nImport ListNotations.\nOpen Scope N_scope.\n")
	nfail := 0
	for i, s := range scripts {
		v, ok := c20CoqAnswer(ans[i])
		if !ok {
			res.Broken = "oracle answer " + q(ans[i])
			return
		}
		var disk, ops []string
		for _, k := range s.Keys {
			if c, ok := s.Files[k]; ok {
				disk = append(disk, fmt.Sprintf("(%d, %s)", k, c09CoqStr(c)))
			}
		}
		for _, op := range s.Ops {
			ops = append(ops, c20CoqOp(op))
			if op.Kind == "S" && len(op.Fail) > 0 {
				nfail++
			}
		}
		fmt.Fprintf(&sb, "Example case_%d : c20_run %s %s [%s] [%s] = %s.\nProof. vm_compute. reflexivity. Qed.\n",
			i, modes[s.Mode], c20CoqNat(s.Cap), strings.Join(disk, "; "), strings.Join(ops, "; "), v)
	}
	file := filepath.Join(ctx.Work, "c20cases.v")
	if err := os.WriteFile(file, []byte(sb.String()), 0o644); err != nil {
		res.Broken = err.Error()
		return
	}
	// generous limit: other builders load the machine; a timeout is not a verdict
	cmd := exec.Command("timeout", "1200", "coqc", "-Q", filepath.Join(ctx.Verif, "coq"), "PV", file)
	cmd.Dir = ctx.Work
	out, err := cmd.CombinedOutput()
	if err != nil {
		if ee, ok := err.(*exec.ExitError); ok && ee.ExitCode() == 124 {
			tally.add("vm_compute_cross_check_timed_out", 1)
			return
		}
		msg := string(out)
		if len(msg) > 900 {
			msg = msg[:900]
		}
		res.AddViolation(Violation{Key: "C20/extraction-vs-vm_compute",
			What:       "the extracted oracle and coqc's vm_compute disagree on the model (or coqc failed): " + msg,
			FoundInput: false, Replay: map[string]any{"kind": "crosscheck", "broken": "extraction cross-check", "detail": msg}})
		return
	}
	tally.add("vm_compute_cross_checked", len(scripts))
	tally.add("vm_compute_cross_checked_failing_saves", nfail)
}
