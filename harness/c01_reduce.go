package main

// C01: reduction of a crashing / hanging tree: arguments, then file by file,
// then line by line, then byte by byte (ddmin), while the same verdict
// (same panic site / still a timeout / still above the CPU floor) persists.

import (
	"sort"
	"strings"
	"sync"
)

type c01Reducer struct {
	test   func(c *c01Case) bool // does the candidate still show the same failure?
	budget int                   // remaining test runs
	par    int
	coarse bool // stop after the argv and file-by-file steps
	mu     sync.Mutex
}

func (rd *c01Reducer) take(n int) int {
	rd.mu.Lock()
	defer rd.mu.Unlock()
	if n > rd.budget {
		n = rd.budget
	}
	rd.budget -= n
	return n
}

// firstTrue evaluates the candidates in parallel batches and returns the lowest index that passes.
func (rd *c01Reducer) firstTrue(cands []*c01Case) int {
	for lo := 0; lo < len(cands); lo += rd.par {
		hi := lo + rd.par
		if hi > len(cands) {
			hi = len(cands)
		}
		n := rd.take(hi - lo)
		if n == 0 {
			return -1
		}
		hi = lo + n
		ok := make([]bool, hi-lo)
		var wg sync.WaitGroup
		for i := lo; i < hi; i++ {
			wg.Add(1)
			go func(i int) {
				defer wg.Done()
				ok[i-lo] = rd.test(cands[i])
			}(i)
		}
		wg.Wait()
		for i, b := range ok {
			if b {
				return lo + i
			}
		}
	}
	return -1
}

func c01With(c *c01Case, f func(n *c01Case)) *c01Case {
	n := &c01Case{ID: c.ID, Stream: c.Stream, Spec: c.Spec.Clone(), Args: append([]string(nil), c.Args...), Cwd: c.Cwd, Feats: c.Feats, Opts: c.Opts}
	f(n)
	return n
}

// ddmin over a list of chunks of one file
func (rd *c01Reducer) ddmin(c *c01Case, path string, items []string) (*c01Case, []string) {
	build := func(it []string) *c01Case {
		return c01With(c, func(n *c01Case) {
			i := n.Spec.find(path)
			n.Spec.Entries[i].Data = strings.Join(it, "")
			n.Spec.Entries[i].Base = false
		})
	}
	n := 2
	for len(items) >= 2 && rd.budget > 0 {
		if n > len(items) {
			n = len(items)
		}
		size := (len(items) + n - 1) / n
		var cands []*c01Case
		var kept [][]string
		for lo := 0; lo < len(items); lo += size {
			hi := lo + size
			if hi > len(items) {
				hi = len(items)
			}
			it := append(append([]string(nil), items[:lo]...), items[hi:]...)
			kept = append(kept, it)
			cands = append(cands, build(it))
		}
		if i := rd.firstTrue(cands); i >= 0 {
			items = kept[i]
			c = cands[i]
			if n > 2 {
				n--
			}
			continue
		}
		if n >= len(items) {
			break
		}
		n *= 2
	}
	if len(items) == 1 && rd.budget > 0 {
		if cand := build(nil); rd.firstTrue([]*c01Case{cand}) == 0 {
			return cand, nil
		}
	}
	return c, items
}

func (rd *c01Reducer) reduce(c *c01Case) *c01Case {
	// 1. arguments: drop options one at a time (targets are the trailing non-option words)
	for changed := true; changed && rd.budget > 0; {
		changed = false
		var cands []*c01Case
		for i := range c.Args {
			i := i
			if len(c.Args) <= 1 {
				break
			}
			cands = append(cands, c01With(c, func(n *c01Case) { n.Args = append(n.Args[:i:i], n.Args[i+1:]...) }))
		}
		if i := rd.firstTrue(cands); i >= 0 {
			c = cands[i]
			changed = true
		}
	}
	// 2. files: remove entries, the non-base ones first, whole directories before single files
	for changed := true; changed && rd.budget > 0; {
		changed = false
		seen := map[string]bool{}
		var paths []string
		for _, e := range c.Spec.Entries {
			parts := strings.Split(e.Path, "/")
			for k := 1; k <= len(parts); k++ {
				p := strings.Join(parts[:k], "/")
				if !seen[p] {
					seen[p] = true
					paths = append(paths, p)
				}
			}
		}
		sort.SliceStable(paths, func(i, j int) bool { return strings.Count(paths[i], "/") < strings.Count(paths[j], "/") })
		for len(paths) > 0 && rd.budget > 0 {
			var cands []*c01Case
			for _, p := range paths {
				p := p
				cands = append(cands, c01With(c, func(n *c01Case) { n.Spec.Remove(p) }))
			}
			i := rd.firstTrue(cands)
			if i < 0 {
				break
			}
			c = cands[i]
			changed = true
			removed := paths[i]
			var rest []string
			for _, p := range paths[i+1:] {
				if p != removed && !strings.HasPrefix(p, removed+"/") {
					rest = append(rest, p)
				}
			}
			paths = rest
		}
	}
	if rd.coarse {
		return c
	}
	// 3. + 4. contents of the files that are not the unchanged base fixture
	for _, e := range c.Spec.Entries {
		if e.Kind != 'f' || e.Base || e.Data == "" || rd.budget <= 0 {
			continue
		}
		var items []string
		c, items = rd.ddmin(c, e.Path, strings.SplitAfter(e.Data, "\n"))
		data := strings.Join(items, "")
		if len(data) > 0 && len(data) <= 1500 && rd.budget > 0 {
			bs := make([]string, len(data))
			for i := 0; i < len(data); i++ {
				bs[i] = data[i : i+1]
			}
			c, _ = rd.ddmin(c, e.Path, bs)
		}
	}
	return c
}
