package main

// C07, unit correspondence for coq/Model/CvsEntries.v:
//
//   ansic_utc          = time.Unix(s, 0).UTC().Format(time.ANSIC)            (the expression inside isLocallyModified)
//   civil_from_days    = time.Time.Date / Weekday of the same instant
//   load_entries       = Pkglint.loadCvsEntries on CVS/Entries + CVS/Entries.Log written to a scratch directory
//                        (which contains parse_entry_line = the closure `handle`)
//   is_locally_modified = util.go isLocallyModified on a scratch file whose mtime is set with os.Chtimes
//
// and the cross-check of the extracted oracle against coqc's vm_compute.

import (
	"fmt"
	"os"
	"os/exec"
	"path/filepath"
	"sort"
	"strings"
	"time"

	pkglint "github.com/rillig/pkglint/v23"
)

func c07CoqStr(s string) string {
	if s == "" {
		return "[]"
	}
	parts := make([]string, len(s))
	for i := 0; i < len(s); i++ {
		parts[i] = fmt.Sprintf("%d", s[i])
	}
	return "[" + strings.Join(parts, "; ") + "]"
}

func c07CoqStrList(l []string) string {
	parts := make([]string, len(l))
	for i, s := range l {
		parts[i] = c07CoqStr(s)
	}
	return "[" + strings.Join(parts, "; ") + "]"
}

func c07CoqZ(z int64) string { return fmt.Sprintf("(%d)%%Z", z) }

func c07HexArgs(l []string) string {
	var sb strings.Builder
	for _, s := range l {
		sb.WriteString(" " + hx(s))
	}
	return sb.String()
}

func c07CvsBroken(res *Result, what, detail, request string) {
	res.AddViolation(Violation{Key: "C07/correspondence/cvs-entries/" + what, FoundInput: false, Size: len(request), What: detail,
		Replay: map[string]any{"broken": "correspondence " + what + " = Model.CvsEntries", "kind": "unit", "request": request}})
}

// c07InterestingSeconds: month, year, leap-day and padding boundaries 1970..2099 and far outside.
func c07InterestingSeconds(rng *Rng, nRandom int) []int64 {
	var ss []int64
	for y := 1970; y <= 2099; y++ {
		for m := time.January; m <= time.December; m++ {
			first := time.Date(y, m, 1, 0, 0, 0, 0, time.UTC).Unix()
			ss = append(ss, first, first-1)
		}
	}
	for d := 1; d <= 31; d++ { // `_2` padding of every day of the month, every weekday
		ss = append(ss, time.Date(2018, time.January, d, 1+d%23, d, 59-d, 0, time.UTC).Unix())
	}
	for h := 0; h < 24; h++ {
		ss = append(ss, time.Date(2020, time.February, 29, h, 59-h, h, 0, time.UTC).Unix())
	}
	for _, y := range []int{-1, 0, 1, 4, 99, 100, 400, 999, 1000, 1582, 1600, 1700, 1800, 1900, 1969, 2000, 2100, 2200, 2300, 2400, 9999, 10000, 10001, 99999} {
		for _, md := range [][2]int{{1, 1}, {2, 28}, {3, 1}, {12, 31}} {
			t := time.Date(y, time.Month(md[0]), md[1], 0, 0, 0, 0, time.UTC).Unix()
			ss = append(ss, t-1, t, t+86399, t+86400)
		}
	}
	ss = append(ss, 0, -1, 1, 86399, 86400, -86400, -86401, 1<<31-1, 1<<31, 1<<32, -62167219200, -62167219201, 253402300799, 253402300800)
	for i := 0; i < nRandom; i++ {
		switch i % 3 {
		case 0:
			ss = append(ss, int64(rng.Intn(4102444800))) // 1970..2099
		case 1:
			ss = append(ss, -62167219200+int64(rng.Next()%315569520000)) // years 0..9999
		case 2:
			ss = append(ss, -70000000000+int64(rng.Next()%400000000000)) // a little beyond on both sides
		}
	}
	return ss
}

func c07CvsUnit(ctx *Ctx, res *Result, rng *Rng) {
	// ---- (a) formatting and calendar
	secs := c07InterestingSeconds(rng, 6000)
	var reqs []string
	for _, s := range secs {
		reqs = append(reqs, fmt.Sprintf("au %d", s), fmt.Sprintf("cd %d", floorDiv(s, 86400)))
	}
	ans, err := runOracle(ctx, "c07", reqs)
	if err != nil {
		res.Broken = err.Error()
		return
	}
	modelAnsic := map[int64]string{}
	pad := 0
	for i, s := range secs {
		t := time.Unix(s, 0).UTC()
		got := t.Format(time.ANSIC)
		modelAnsic[s] = unhx(ans[2*i])
		res.Evaluations += 2
		res.TracesValidated += 2
		if t.Day() < 10 {
			pad++
		}
		if hx(got) != ans[2*i] && !(got == "" && ans[2*i] == "-") {
			c07CvsBroken(res, "ansic-utc", fmt.Sprintf("time.Unix(%d,0).UTC().Format(time.ANSIC) = %q, model ansic_utc %q", s, got, unhx(ans[2*i])), reqs[2*i])
		}
		days := floorDiv(s, 86400)
		cd := fmt.Sprintf("%d %d %d %d %d", t.Year(), int(t.Month()), t.Day(), int(t.Weekday()), days)
		if cd != ans[2*i+1] {
			c07CvsBroken(res, "civil-from-days", fmt.Sprintf("day %d since the epoch is %s (year month day weekday, round trip) by package time, model: %s", days, cd, ans[2*i+1]), reqs[2*i+1])
		}
	}
	res.Count("cvs.ansic.instants", len(secs))
	res.Count("cvs.ansic.day-below-10", pad)

	// ---- (b) CVS/Entries and CVS/Entries.Log
	dir := filepath.Join(ctx.Work, "c07cvs")
	if err := os.MkdirAll(dir, 0o755); err != nil {
		res.Broken = err.Error()
		return
	}
	type loadCase struct {
		entries, log []string
		noEntries    bool
		noLog        bool
	}
	var lcs []loadCase
	// exhaustive: every line over {"/", "a", "D", " "} up to length 7, 40 lines per file (and each short one alone)
	tokens := []string{"/", "a", "D", " "}
	var all []string
	var gen func(prefix string, n int)
	gen = func(prefix string, n int) {
		all = append(all, prefix)
		if n == 0 {
			return
		}
		for _, t := range tokens {
			gen(prefix+t, n-1)
		}
	}
	gen("", 7)
	res.Count("cvs.lines.exhaustive", len(all))
	for _, l := range all {
		if len(l) <= 4 {
			lcs = append(lcs, loadCase{entries: []string{l}, noLog: true})
		}
	}
	perm := make([]int, len(all))
	for i := range perm {
		perm[i] = i
	}
	for i := len(perm) - 1; i > 0; i-- {
		j := rng.Intn(i + 1)
		perm[i], perm[j] = perm[j], perm[i]
	}
	for i := 0; i < len(perm); i += 40 {
		var ls []string
		for _, k := range perm[i:imin(i+40, len(perm))] {
			ls = append(ls, all[k])
		}
		lcs = append(lcs, loadCase{entries: ls, noLog: true})
	}
	fields := []string{"", "", "a", "b", "Makefile", "1.1", "D", "dummy timestamp", "Thu Jan  1 00:00:00 1970", "Result of merge", "-kb", "T1.2", "\xc3\xa9", "A ", "R ", " ", "\t", "#", "\\"}
	randLine := func() string {
		n := []int{6, 6, 6, 6, 5, 7, 4, 8, 1, 2, 3}[rng.Intn(11)]
		var fs []string
		for i := 0; i < n; i++ {
			fs = append(fs, Pick(rng, fields))
		}
		if rng.Chance(80) {
			fs[0] = ""
		}
		if n > 1 && rng.Chance(60) {
			fs[1] = Pick(rng, []string{"a", "b", "Makefile", "D"})
		}
		return strings.Join(fs, "/")
	}
	for i := 0; i < 2500; i++ {
		var c loadCase
		for k := rng.Intn(7); k > 0; k-- {
			c.entries = append(c.entries, randLine())
		}
		for k := rng.Intn(6); k > 0; k-- {
			c.log = append(c.log, Pick(rng, []string{"A ", "A ", "R ", "R ", "X ", "", "A", "R", "a ", " A "})+randLine())
		}
		c.noLog = len(c.log) == 0 && rng.Bool()
		c.noEntries = rng.Chance(4)
		lcs = append(lcs, c)
	}
	reqs = reqs[:0]
	for _, c := range lcs {
		if c.noEntries {
			reqs = append(reqs, "le 0") // without CVS/Entries nothing is read
		} else {
			reqs = append(reqs, fmt.Sprintf("le %d%s%s", len(c.entries), c07HexArgs(c.entries), c07HexArgs(c.log)))
		}
	}
	ans, err = runOracle(ctx, "c07", reqs)
	if err != nil {
		res.Broken = err.Error()
		return
	}
	content := func(ls []string) *string {
		s := strings.Join(ls, "\n") + "\n"
		if len(ls) == 0 {
			s = ""
		}
		return &s
	}
	for i, c := range lcs {
		var e, l *string
		if !c.noEntries {
			e = content(c.entries)
		}
		if !c.noLog {
			l = content(c.log)
		}
		r := pkglint.VerifLoadCvsEntries(dir, e, l)
		res.Evaluations++
		res.TracesValidated++
		var shown []string
		for _, en := range r.Entries {
			shown = append(shown, strings.Join([]string{hx(en.Name), hx(en.Revision), hx(en.Timestamp), hx(en.Options), hx(en.TagDate)}, ":"))
		}
		sort.Strings(shown)
		inv, list, _ := strings.Cut(ans[i], " ")
		var want []string
		if list != "-" && list != "" {
			want = strings.Split(list, ";")
		}
		sort.Strings(want)
		got := fmt.Sprintf("%d %s", r.Invalid, strings.Join(shown, ";"))
		exp := fmt.Sprintf("%s %s", inv, strings.Join(want, ";"))
		if r.Panic != "" || got != exp {
			c07CvsBroken(res, "load-entries", fmt.Sprintf("loadCvsEntries on Entries %q, Entries.Log %q (absent: %v %v): invalid lines and map = %s %s, model: %s", c.entries, c.log, c.noEntries, c.noLog, got, r.Panic, exp), reqs[i])
		}
		if r.Nil != c.noEntries {
			c07CvsBroken(res, "load-entries-nil", fmt.Sprintf("loadCvsEntries returned nil map: %v, CVS/Entries absent: %v", r.Nil, c.noEntries), reqs[i])
		}
		res.Count("cvs.load.invalid-lines", r.Invalid)
		res.Count("cvs.load.entries", len(r.Entries))
	}
	res.Count("cvs.load.cases", len(lcs))

	// ---- (c) isLocallyModified
	type lmCase struct {
		lines    []string
		name     string
		present  bool
		sec      int64
		nanos    int64
		actual   int64
		got      bool
		panicked string
	}
	var lms []lmCase
	special := []string{"Result of merge", "dummy timestamp", "modified", "", "Thu Jan 01 00:00:00 1970", "Thu Jan  1 00:00:00 1970 "}
	n := 1500
	if ctx.Tier == "thorough" {
		n = 8000
	}
	for i := 0; i < n; i++ {
		s := secs[rng.Intn(len(secs))]
		if s < -2000000000 || s > 15000000000 || i%4 == 0 { // what ext4 can store, mostly 1970..2099
			s = int64(rng.Intn(4102444800))
			if i%8 == 0 {
				s = secs[rng.Intn(12*2*130)]
			}
		}
		c := lmCase{name: Pick(rng, []string{"f", "Makefile", "g h"}), present: !rng.Chance(12), sec: s}
		if rng.Chance(40) {
			c.nanos = int64(rng.Intn(1000000000))
		}
		var ts string
		switch rng.Intn(10) {
		case 0, 1, 2, 3:
			ts = c07ModelAnsic(ctx, modelAnsic, s)
		case 4:
			ts = c07ModelAnsic(ctx, modelAnsic, s+[]int64{1, -1, 60, -3600, 86400}[rng.Intn(5)])
		case 5:
			ts = c07ModelAnsic(ctx, modelAnsic, s+Pick(rng, c07ZoneOffsets))
		case 6:
			ts = Pick(rng, special)
		case 7:
			ts = strings.Replace(c07ModelAnsic(ctx, modelAnsic, s), "  ", " 0", 1)
		default:
			ts = c07ModelAnsic(ctx, modelAnsic, s)
		}
		listedAs := c.name
		if rng.Chance(15) {
			listedAs = "other"
		}
		c.lines = append(c.lines, "/x/1.1/dummy timestamp//", fmt.Sprintf("/%s/1.%d/%s/%s/", listedAs, i, ts, Pick(rng, []string{"", "-kb"})))
		if rng.Chance(10) { // a later line for the same name wins
			c.lines = append(c.lines, fmt.Sprintf("/%s/1.9/%s//", listedAs, c07ModelAnsic(ctx, modelAnsic, s)))
		}
		if rng.Chance(10) {
			c.lines = append(c.lines, "/"+listedAs+"/too/few/")
		}
		lms = append(lms, c)
	}
	reqs = reqs[:0]
	for i := range lms {
		c := &lms[i]
		p := filepath.Join(dir, c.name)
		os.Remove(p)
		st := "none"
		if c.present {
			if err := os.WriteFile(p, []byte("x\n"), 0o644); err != nil {
				res.Broken = err.Error()
				return
			}
			mt := time.Unix(c.sec, c.nanos)
			if err := os.Chtimes(p, mt, mt); err != nil {
				res.Broken = err.Error()
				return
			}
			fi, err := os.Stat(p)
			if err != nil {
				res.Broken = err.Error()
				return
			}
			c.actual = fi.ModTime().Unix()
			if c.actual != c.sec {
				res.Count("cvs.lm.mtime-clamped-by-the-file-system", 1)
			}
			st = fmt.Sprintf("%d", c.actual)
		}
		e := strings.Join(c.lines, "\n") + "\n"
		c.got, c.panicked = pkglint.VerifIsLocallyModified(dir, c.name, &e, nil)
		reqs = append(reqs, fmt.Sprintf("lm %d%s %s %s", len(c.lines), c07HexArgs(c.lines), hx(c.name), st))
	}
	ans, err = runOracle(ctx, "c07", reqs)
	if err != nil {
		res.Broken = err.Error()
		return
	}
	for i, c := range lms {
		res.Evaluations++
		res.TracesValidated++
		a := ans[i]
		if len(a) != 4 {
			res.Broken = "oracle answer " + q(a) + " to " + reqs[i]
			return
		}
		if c.panicked != "" || bit(c.got) != a[:1] {
			c07CvsBroken(res, "is-locally-modified", fmt.Sprintf("isLocallyModified(%q) with CVS/Entries %q, file present %v, mtime %d: %v %s, model %s", c.name, c.lines, c.present, c.actual, c.got, c.panicked, a[:1]), reqs[i])
		}
		if a[0] != a[1] {
			c07CvsBroken(res, "model-env-independent", "the model of isLocallyModified answers differently in two environments: "+a, reqs[i])
		}
		switch {
		case !c.present:
			res.Count("cvs.lm.stat-fails", 1)
		case c.got:
			res.Count("cvs.lm.modified", 1)
		default:
			res.Count("cvs.lm.not-modified-or-unlisted", 1)
		}
		if a[2] != a[3] {
			res.Count("cvs.lm.local-time-variant-depends-on-env", 1)
		}
		if a[0] != a[2] {
			res.Count("cvs.lm.local-time-variant-differs-in-utc", 1) // must stay 0: in UTC the variant is the model
		}
	}
	if len(res.Violations) == 0 {
		for k, floor := range map[string]int{"cvs.lm.modified": n / 8, "cvs.lm.not-modified-or-unlisted": n / 8, "cvs.lm.stat-fails": n / 20, "cvs.lm.local-time-variant-depends-on-env": n / 8,
			"cvs.load.invalid-lines": 1000, "cvs.load.entries": 1000, "cvs.ansic.day-below-10": 500} {
			if v, _ := res.Distribution[k].(int); v < floor {
				c07CvsBroken(res, "floor/"+k, fmt.Sprintf("the unit generator reached %q only %d times (floor %d)", k, v, floor), k)
			}
		}
		if v, _ := res.Distribution["cvs.lm.local-time-variant-differs-in-utc"].(int); v != 0 {
			c07CvsBroken(res, "local-variant-in-utc", "the local-time variant of the model differs from the model in UTC", "")
		}
	}

	// ---- (d) extraction cross-check
	c07CrossCheckExtraction(ctx, res, rng, secs, all, lms[:imin(len(lms), 40)], func(i int) []string { return lms[i].lines }, func(i int) (string, bool, int64) { return lms[i].name, lms[i].present, lms[i].actual })
	os.RemoveAll(dir)
}

func c07ModelAnsic(ctx *Ctx, cache map[int64]string, s int64) string {
	if v, ok := cache[s]; ok {
		return v
	}
	ans, err := runOracle(ctx, "c07", []string{fmt.Sprintf("au %d", s)})
	if err != nil || len(ans) != 1 {
		return "oracle failed"
	}
	cache[s] = unhx(ans[0])
	return cache[s]
}

func floorDiv(a, b int64) int64 {
	q := a / b
	if (a%b != 0) && ((a < 0) != (b < 0)) {
		q--
	}
	return q
}

// c07CrossCheckExtraction: <= 200 oracle requests re-evaluated by coqc with vm_compute.
func c07CrossCheckExtraction(ctx *Ctx, res *Result, rng *Rng, secs []int64, lines []string, lms any, lmLines func(int) []string, lmArgs func(int) (string, bool, int64)) {
	var reqs, stmts []string
	for i := 0; i < 70; i++ {
		s := secs[rng.Intn(len(secs))]
		reqs = append(reqs, fmt.Sprintf("au %d", s))
		stmts = append(stmts, "ansic_utc "+c07CoqZ(s))
	}
	for i := 0; i < 70; i++ {
		l := lines[rng.Intn(len(lines))]
		if i%3 == 0 {
			l = "/" + strings.ReplaceAll(l, " ", "/")
		}
		reqs = append(reqs, "pe "+hx(l))
		stmts = append(stmts, "parse_entry_line "+c07CoqStr(l))
	}
	for i := 0; i < 40; i++ {
		ls := lmLines(i)
		name, present, actual := lmArgs(i)
		st, cst := "none", "None"
		if present {
			st, cst = fmt.Sprintf("%d", actual), "(Some "+c07CoqZ(actual)+")"
		}
		reqs = append(reqs, fmt.Sprintf("lm %d%s %s %s", len(ls), c07HexArgs(ls), hx(name), st))
		stmts = append(stmts, "is_locally_modified (mk_env (fun _ => 0%Z) [] [] [] [] 0) (fst (load_entries "+c07CoqStrList(ls)+" [])) "+c07CoqStr(name)+" "+cst)
	}
	ans, err := runOracle(ctx, "c07", reqs)
	if err != nil {
		res.Broken = err.Error()
		return
	}
	var sb strings.Builder
	sb.WriteString("From PV Require Import Lib.Bytes Model.CvsEntries.\nOpen Scope N_scope.\n")
	for i, a := range ans {
		var v string
		switch {
		case strings.HasPrefix(reqs[i], "au "):
			v = c07CoqStr(unhx(a))
		case strings.HasPrefix(reqs[i], "pe "):
			switch {
			case a == "ignored":
				v = "PrIgnored"
			case a == "invalid":
				v = "PrInvalid"
			case strings.HasPrefix(a, "entry "):
				f := strings.Split(strings.TrimPrefix(a, "entry "), ":")
				if len(f) != 5 {
					res.Broken = "oracle answer " + q(a)
					return
				}
				v = "PrEntry (mk_cvs_entry"
				for _, x := range f {
					v += " " + c07CoqStr(unhx(x))
				}
				v += ")"
			default:
				res.Broken = "oracle answer " + q(a)
				return
			}
		default:
			if len(a) != 4 {
				res.Broken = "oracle answer " + q(a)
				return
			}
			v = map[byte]string{'0': "false", '1': "true"}[a[0]]
		}
		fmt.Fprintf(&sb, "Example case_%d : %s = %s.\nProof. vm_compute. reflexivity. Qed.\n", i, stmts[i], v)
	}
	file := filepath.Join(ctx.Work, "c07cases.v")
	if err := os.WriteFile(file, []byte(sb.String()), 0o644); err != nil {
		res.Broken = err.Error()
		return
	}
	// generous limit: other builders load the machine; a coqc killed by the limit is counted, not judged
	cmd := exec.Command("timeout", "1200", "coqc", "-Q", filepath.Join(ctx.Verif, "coq"), "PV", file)
	cmd.Dir = ctx.Work
	out, err := cmd.CombinedOutput()
	if ee, ok := err.(*exec.ExitError); ok && ee.ExitCode() == 124 {
		res.Count("vm_compute_cross_check_timed_out", 1)
		return
	}
	if err != nil {
		msg := string(out)
		if len(msg) > 600 {
			msg = msg[:600]
		}
		res.AddViolation(Violation{Key: "C07/extraction-vs-vm_compute",
			What:       "the extracted oracle and coqc's vm_compute disagree on the model (or coqc failed): " + msg,
			FoundInput: false, Replay: map[string]any{"broken": "extraction cross-check", "detail": msg}})
		return
	}
	res.Count("vm_compute_cross_checked", len(reqs))
}
