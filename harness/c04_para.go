package main

// C04, paragraph-level check between other fixes (coq/Model/ModesPara.v):
// the real VaralignBlock sees every line of a generated paragraph (Process),
// then Replace-based fixes are applied to some of the lines, then Finish runs
// -- in each of the four modes. Compared with the extracted model
// (para_decision): the texts of the lines when Finish is called, and whether
// Finish goes on to realign (as coded: only if no line has changed since it
// was split). Every paragraph contains two untouched lines with different
// value columns, so that a Finish that goes on always prints something.
// The property is evaluated on the implementation itself as well: every
// diagnostic that Finish prints with -f must be printed by the default run.

import (
	"fmt"
	"os"
	"os/exec"
	"path/filepath"
	"strings"

	pkglint "github.com/rillig/pkglint/v23"
)

type c04Para struct {
	Lines []string
	Fixes []pkglint.VerifParaFix
}

func (p c04Para) Request(show, fix bool) string {
	b := func(x bool) string {
		if x {
			return "1"
		}
		return "0"
	}
	parts := []string{"para", b(show), b(fix), fmt.Sprint(len(p.Lines))}
	for _, l := range p.Lines {
		parts = append(parts, hx(l))
	}
	parts = append(parts, fmt.Sprint(len(p.Fixes)))
	for _, f := range p.Fixes {
		parts = append(parts, fmt.Sprint(f.Line), hx(f.From), hx(f.To))
	}
	return strings.Join(parts, " ")
}

func (p c04Para) Replay() map[string]any {
	var ls, fs []any
	for _, l := range p.Lines {
		ls = append(ls, hx(l))
	}
	for _, f := range p.Fixes {
		fs = append(fs, map[string]any{"line": f.Line, "from": hx(f.From), "to": hx(f.To)})
	}
	return map[string]any{"kind": "para", "lines": ls, "fixes": fs}
}

func c04ParaFromReplay(rep map[string]any) c04Para {
	var p c04Para
	if ls, ok := rep["lines"].([]any); ok {
		for _, l := range ls {
			s, _ := l.(string)
			p.Lines = append(p.Lines, unhx(s))
		}
	}
	if fs, ok := rep["fixes"].([]any); ok {
		for _, f := range fs {
			m, _ := f.(map[string]any)
			ln, _ := m["line"].(float64)
			from, _ := m["from"].(string)
			to, _ := m["to"].(string)
			p.Fixes = append(p.Fixes, pkglint.VerifParaFix{Line: int(ln), From: unhx(from), To: unhx(to)})
		}
	}
	return p
}

// c04GenPara: 1-5 single-line assignments that are aligned with each other
// (the widest name is often one short of a tab stop), the two sentinel lines,
// and 0-3 fixes: operator "=" -> "+=", a longer or shorter variable name, a
// changed value, a tab replaced by a space, a pattern that does not occur, a
// pattern that occurs twice (Replace does nothing then).
func c04GenPara(r *Rng) c04Para {
	var p c04Para
	n := 1 + r.Intn(5)
	widths := []int{6, 7, 7, 14, 15, 15, 22, 23}
	maxw := Pick(r, widths)
	var pairs [][2]string
	for i := 0; i < n; i++ {
		w := maxw
		if i > 0 && r.Chance(60) {
			w = 3 + r.Intn(maxw-2)
		}
		name := fmt.Sprintf("V%d", i)
		for len(name)+1 < w {
			name += "_X"[len(name)%2 : len(name)%2+1]
		}
		pairs = append(pairs, [2]string{name + "=", Pick(r, []string{"value", "a b", "${PREFIX}/x", "v=w"})})
	}
	p.Lines = c04AlignPara(pairs)
	// sentinels: never touched, never aligned with each other
	p.Lines = append(p.Lines, "S=\tsentinel", "SENTINEL_2=\tsentinel")
	nf := r.Intn(4)
	for k := 0; k < nf; k++ {
		i := r.Intn(n)
		name := strings.SplitN(pairs[i][0], "=", 2)[0]
		var f pkglint.VerifParaFix
		f.Line = i
		switch r.Intn(8) {
		case 0, 1:
			f.From, f.To = name+"=", name+"+="
		case 2:
			f.From, f.To = name, name+"_LONGER"
		case 3:
			f.From, f.To = name, "W"
		case 4:
			f.From, f.To = pairs[i][1], "other"
		case 5:
			f.From, f.To = "\t", " "
		case 6:
			f.From, f.To = "does-not-occur", "x"
		case 7:
			f.From, f.To = "+=", "=" // undoes an earlier "=" -> "+="
		}
		p.Fixes = append(p.Fixes, f)
	}
	return p
}

func c04CheckParas(ctx *Ctx, res *Result, paras []c04Para) {
	var reqs []string
	for _, p := range paras {
		for _, m := range c04UnitModes {
			reqs = append(reqs, p.Request(m.show, m.fix))
		}
	}
	ans, err := runOracle(ctx, "c04", reqs)
	if err != nil {
		res.Broken = err.Error()
		return
	}
	for pi, p := range paras {
		reals := make([]pkglint.VerifParaResult, len(c04UnitModes))
		for mi, m := range c04UnitModes {
			real := pkglint.VerifPara(m.show, m.fix, p.Lines, p.Fixes)
			reals[mi] = real
			a := ans[pi*len(c04UnitModes)+mi]
			parts := strings.SplitN(a, "|", 2)
			if len(parts) != 2 || strings.HasPrefix(a, "ERR") {
				res.Broken = "c04 oracle: bad answer to a para request: " + a
				return
			}
			modelGo := parts[0] == "1"
			var modelTexts []string
			if parts[1] != "" {
				for _, l := range strings.Split(parts[1], "/") {
					hs := c04HexList(l)
					t := ""
					if len(hs) > 0 {
						t = hs[0]
					}
					modelTexts = append(modelTexts, t)
				}
			}
			res.TracesValidated++
			realGo := len(real.FinishOut) > 0
			res.Count(fmt.Sprintf("para.mode %s finish-goes-on=%v", m.name, realGo), 1)
			changed := false
			for i, t := range real.TextsBefore {
				if i < len(p.Lines) && t != p.Lines[i]+"\n" {
					changed = true
				}
			}
			if changed {
				res.Count("para.mode "+m.name+" a line changed between Process and Finish", 1)
			}
			same := real.Panic == "" && realGo == modelGo && strings.Join(real.TextsBefore, "") == strings.Join(modelTexts, "")
			if !same {
				rep := p.Replay()
				rep["mode"] = m.name
				rep["broken"] = "correspondence VaralignBlock.Process/Finish between Replace fixes (varalignblock.go, autofix.go) = Model/ModesPara.v para_decision"
				rep["real"] = map[string]any{"panic": real.Panic, "finish_goes_on": realGo, "finish_output": real.FinishOut, "texts": real.TextsBefore}
				rep["model"] = map[string]any{"finish_goes_on": modelGo, "texts": modelTexts}
				res.AddViolation(Violation{Key: "C04/correspondence/para-finish/" + m.name, FoundInput: false, Size: len(p.Lines)*10 + len(p.Fixes),
					What:   fmt.Sprintf("mode %s: the model says Finish goes on = %v, VaralignBlock.Finish printed %d lines; texts equal = %v", m.name, modelGo, len(real.FinishOut), strings.Join(real.TextsBefore, "") == strings.Join(modelTexts, "")),
					Replay: rep})
			}
		}
		// the property on the implementation: what Finish prints with -f, the default run prints
		if reals[0].Panic == "" && reals[1].Panic == "" {
			def := map[string]bool{}
			for _, l := range reals[0].Output {
				def[l] = true
			}
			for _, l := range reals[1].FinishOut {
				if strings.HasPrefix(l, "AUTOFIX:") || def[l] {
					continue
				}
				rep := p.Replay()
				res.AddViolation(Violation{Key: "C04/unit/para-finish-f-diag-not-in-default", FoundInput: true, Size: len(p.Lines)*10 + len(p.Fixes),
					What:   fmt.Sprintf("VaralignBlock.Finish prints %q with -f after %d Replace fixes in the paragraph; the default run of the same script never prints it", l, len(p.Fixes)),
					Replay: rep})
				break
			}
		}
		res.Evaluations++
	}
}

func c04ParaUnit(ctx *Ctx, res *Result, rng *Rng, n int) {
	paras := []c04Para{
		// the shape of seeded C04-r5m1 in miniature, and its neighbours
		{Lines: []string{"SUBST_FILES.id=\ta", "SUBST_FILES.id=\tb", "S=\tsentinel", "SENTINEL_2=\tsentinel"},
			Fixes: []pkglint.VerifParaFix{{Line: 1, From: "SUBST_FILES.id=", To: "SUBST_FILES.id+="}}},
		{Lines: []string{"V0=\ta", "S=\tsentinel", "SENTINEL_2=\tsentinel"}},
	}
	for i := 0; i < n; i++ {
		paras = append(paras, c04GenPara(rng))
	}
	c04CheckParas(ctx, res, paras)
	c04ParaCrossCheckExtraction(ctx, res, paras)
}

// c04ParaCrossCheckExtraction re-evaluates up to 200 of the oracle's answers to
// `para` requests with coqc's vm_compute on Model/ModesPara.v (the extraction
// itself is otherwise trusted).
func c04ParaCrossCheckExtraction(ctx *Ctx, res *Result, paras []c04Para) {
	if len(paras) > 50 {
		paras = paras[:50]
	}
	coqStr := func(s string) string {
		parts := make([]string, len(s))
		for i := 0; i < len(s); i++ {
			parts[i] = fmt.Sprint(s[i])
		}
		return "[" + strings.Join(parts, ";") + "]"
	}
	var reqs []string
	for _, p := range paras {
		for _, m := range c04UnitModes {
			reqs = append(reqs, p.Request(m.show, m.fix))
		}
	}
	ans, err := runOracle(ctx, "c04", reqs)
	if err != nil {
		res.Broken = err.Error()
		return
	}
	var sb strings.Builder
	sb.WriteString("From PV Require Import Lib.Bytes Model.Modes Model.ModesPara.\nOpen Scope N_scope.\n")
	k := 0
	for pi, p := range paras {
		var ls, fs []string
		for _, l := range p.Lines {
			ls = append(ls, coqStr(l))
		}
		for _, f := range p.Fixes {
			fs = append(fs, fmt.Sprintf("(%d%%nat, (%s, %s))", f.Line, coqStr(f.From), coqStr(f.To)))
		}
		for mi, m := range c04UnitModes {
			a := ans[pi*len(c04UnitModes)+mi]
			parts := strings.SplitN(a, "|", 2)
			if len(parts) != 2 {
				res.Broken = "c04 oracle: bad answer to a para request: " + a
				return
			}
			var texts []string
			if parts[1] != "" {
				for _, l := range strings.Split(parts[1], "/") {
					var raws []string
					for _, t := range c04HexList(l) {
						raws = append(raws, coqStr(t))
					}
					texts = append(texts, "["+strings.Join(raws, ";")+"]")
				}
			}
			fmt.Fprintf(&sb, "Example case_%d : para_decision {| m_show := %v; m_fix := %v |} [%s] [%s] = (%v, [%s]).\nProof. vm_compute. reflexivity. Qed.\n",
				k, m.show, m.fix, strings.Join(ls, ";"), strings.Join(fs, ";"), parts[0] == "1", strings.Join(texts, ";"))
			k++
		}
	}
	file := filepath.Join(ctx.Work, "c04paracases.v")
	if err := os.WriteFile(file, []byte(sb.String()), 0o644); err != nil {
		res.Broken = err.Error()
		return
	}
	// generous limit: other builders load the machine; a coqc killed by the limit is counted, not judged
	cmd := exec.Command("timeout", "1200", "coqc", "-Q", filepath.Join(ctx.Verif, "coq"), "PV", file)
	cmd.Dir = ctx.Work
	out, err := cmd.CombinedOutput()
	if ee, ok := err.(*exec.ExitError); ok && ee.ExitCode() == 124 {
		res.Count("para.vm_compute_cross_check_timed_out", 1)
		return
	}
	if err != nil {
		msg := string(out)
		if len(msg) > 600 {
			msg = msg[:600]
		}
		res.AddViolation(Violation{Key: "C04/extraction-vs-vm_compute/para",
			What:       "the extracted oracle and coqc's vm_compute disagree on para_decision (or coqc failed): " + msg,
			FoundInput: false, Replay: map[string]any{"broken": "extraction cross-check", "detail": msg}})
		return
	}
	res.Count("para.vm_compute_cross_checked", k)
}
