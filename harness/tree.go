package main

// Shared whole-run layer: the base pkgsrc fixture (DESIGN.md Appendix A), a
// runner for the real binary with watchdog and rusage, tree snapshots, and a
// parser for pkglint's output lines.

import (
	"bytes"
	"context"
	"crypto/sha256"
	"encoding/hex"
	"fmt"
	"io/fs"
	"os"
	"os/exec"
	"path/filepath"
	"regexp"
	"sort"
	"strconv"
	"strings"
	"syscall"
	"time"
)

type Tree struct {
	Root string
}

func (t *Tree) Path(rel string) string { return filepath.Join(t.Root, rel) }

func (t *Tree) Write(rel, content string) {
	p := t.Path(rel)
	if err := os.MkdirAll(filepath.Dir(p), 0o755); err != nil {
		panic(err)
	}
	if err := os.WriteFile(p, []byte(content), 0o644); err != nil {
		panic(err)
	}
}

func (t *Tree) Read(rel string) string {
	b, err := os.ReadFile(t.Path(rel))
	if err != nil {
		return "<unreadable: " + err.Error() + ">"
	}
	return string(b)
}

func lines(ls ...string) string { return strings.Join(ls, "\n") + "\n" }

const cvsID = "# $" + "NetBSD$"

// NewBaseTree writes the minimal pkgsrc tree on which the real binary prints
// "Looks fine." for `pkglint -Wall cat/pkg` (cwd = root).
func NewBaseTree(root string) *Tree {
	t := &Tree{Root: root}
	for _, f := range []string{"mk/bsd.pkg.mk", "mk/bsd.prefs.mk", "mk/bsd.fast.prefs.mk", "mk/fetch/sites.mk",
		"mk/fetch/fetch.mk", "mk/defaults/mk.conf", "mk/tools/defaults.mk", "mk/platform/NetBSD.mk", "mk/platform/Linux.mk"} {
		t.Write(f, cvsID+"\n")
	}
	t.Write("mk/tools/bsd.tools.mk", lines(cvsID, "", ".include \"defaults.mk\""))
	t.Write("mk/misc/category.mk", cvsID+"\n")
	t.Write("mk/defaults/options.description", "example-option   Description\n")
	t.Write("mk/compiler.mk", lines(cvsID, "", "_CXX_STD_VERSIONS=\tc++ c++14",
		".if ${USE_LANGUAGES:Mada} || ${USE_LANGUAGES:Mc} || ${USE_LANGUAGES:Mc99}", ".endif",
		"_COMPILERS=\tgcc clang", "_PSEUDO_COMPILERS=\tccache"))
	t.Write("mk/compiler/gcc.mk", lines(cvsID, "", ".if ${_PKGSRC_USE_FORTIFY:Mweak}", ".endif"))
	t.Write("mk/java-vm.mk", lines(cvsID, "", "_PKG_JVMS.8=\topenjdk8 oracle-jdk8"))
	t.Write("mk/mysql.buildlink3.mk", lines(cvsID, "", "MYSQL_VERSIONS_ACCEPTED=\t57 56"))
	t.Write("mk/pgsql.buildlink3.mk", lines(cvsID, "", "PGSQL_VERSIONS_ACCEPTED=\t10 96", "PGSQL_TYPE?=\tpostgresql11-client"))
	t.Write("editors/emacs/modules.mk", lines(cvsID, "", "_EMACS_VERSIONS_ALL=\temacs25 emacs21"))
	t.Write("doc/CHANGES-2018", "$"+"NetBSD$\n")
	t.Write("doc/TODO", "$"+"NetBSD$\n")
	t.Write("licenses/2-clause-bsd", "The 2-clause BSD license\n")
	t.Write("licenses/gnu-gpl-v2", "The GNU GPL v2\n")
	for _, d := range []string{"lang/lua54", "lang/nodejs20", "lang/php82", "lang/python312", "lang/ruby32", "emulators/suse131_base"} {
		t.Write(d+"/Makefile", cvsID+"\n")
	}
	t.Write("cat/Makefile", lines(cvsID, "", "COMMENT=\tComment for the category", "", "SUBDIR+=\tpkg", "", ".include \"../mk/misc/category.mk\""))
	t.WritePackage("cat/pkg", nil)
	return t
}

// WritePackage writes a clean package; extra lines go between LICENSE and the final include.
func (t *Tree) WritePackage(dir string, extra []string) {
	name := filepath.Base(dir)
	mk := []string{cvsID, "", "DISTNAME=\t" + name + "-1.0", "CATEGORIES=\t" + filepath.Base(filepath.Dir(dir)), "MASTER_SITES=\t# none", "",
		"MAINTAINER=\tpkgsrc-users@NetBSD.org", "HOMEPAGE=\t# none", "COMMENT=\tDummy package", "LICENSE=\t2-clause-bsd", ""}
	if len(extra) > 0 {
		mk = append(mk, extra...)
		mk = append(mk, "")
	}
	mk = append(mk, ".include \"../../mk/bsd.pkg.mk\"")
	t.Write(dir+"/Makefile", lines(mk...))
	t.Write(dir+"/DESCR", "Package description\n")
	t.Write(dir+"/PLIST", lines("@comment $"+"NetBSD$", "bin/program"))
	t.Write(dir+"/distinfo", lines("$"+"NetBSD$", "", "BLAKE2s (distfile-1.0.tar.gz) = 12341234", "SHA512 (distfile-1.0.tar.gz) = 12341234", "Size (distfile-1.0.tar.gz) = 12341234 bytes"))
}

// ---------- running the real binary ----------

type RunResult struct {
	Stdout, Stderr string
	Exit           int // -1 when killed by a signal
	Signal         string
	TimedOut       bool
	CPU            time.Duration
	Wall           time.Duration
}

func RunPkglint(ctx *Ctx, cwd string, timeout time.Duration, args ...string) RunResult {
	c, cancel := context.WithTimeout(context.Background(), timeout)
	defer cancel()
	cmd := exec.CommandContext(c, ctx.Pkglint, args...)
	cmd.Dir = cwd
	cmd.Env = append(os.Environ(), "PKGSRCDIR=", "HOME="+cwd, "GOMAXPROCS=2", "GOMEMLIMIT=2GiB")
	var ob, eb bytes.Buffer
	cmd.Stdout, cmd.Stderr = &limitedWriter{b: &ob, max: 64 << 20}, &limitedWriter{b: &eb, max: 16 << 20}
	t0 := time.Now()
	err := cmd.Run()
	r := RunResult{Stdout: ob.String(), Stderr: eb.String(), Wall: time.Since(t0)}
	if cmd.ProcessState != nil {
		r.CPU = cmd.ProcessState.UserTime() + cmd.ProcessState.SystemTime()
		if ws, ok := cmd.ProcessState.Sys().(syscall.WaitStatus); ok && ws.Signaled() {
			r.Signal = ws.Signal().String()
			r.Exit = -1
		} else {
			r.Exit = cmd.ProcessState.ExitCode()
		}
	} else if err != nil {
		r.Exit = -2
		r.Stderr += "\n<exec error: " + err.Error() + ">"
	}
	if c.Err() == context.DeadlineExceeded {
		r.TimedOut = true
	}
	return r
}

type limitedWriter struct {
	b   *bytes.Buffer
	max int
}

func (w *limitedWriter) Write(p []byte) (int, error) {
	if w.b.Len() < w.max {
		w.b.Write(p)
	}
	return len(p), nil
}

// ---------- snapshots ----------

type Entry struct {
	Kind string // f d l o
	Mode fs.FileMode
	Size int64
	Sum  string
	Link string
}

func Snapshot(root string) map[string]Entry {
	m := map[string]Entry{}
	filepath.Walk(root, func(p string, info fs.FileInfo, err error) error {
		rel, _ := filepath.Rel(root, p)
		if err != nil {
			m[rel] = Entry{Kind: "err:" + err.Error()}
			return nil
		}
		e := Entry{Mode: info.Mode().Perm(), Size: info.Size()}
		switch {
		case info.Mode().IsRegular():
			e.Kind = "f"
			b, err := os.ReadFile(p)
			if err != nil {
				e.Sum = "unreadable"
			} else {
				s := sha256.Sum256(b)
				e.Sum = hex.EncodeToString(s[:])
			}
		case info.IsDir():
			e.Kind = "d"
			e.Size = 0
		case info.Mode()&fs.ModeSymlink != 0:
			e.Kind = "l"
			e.Link, _ = os.Readlink(p)
			e.Size = 0
		default:
			e.Kind = "o"
		}
		m[rel] = e
		return nil
	})
	return m
}

// DiffSnapshots lists the paths that differ in any respect, sorted.
func DiffSnapshots(a, b map[string]Entry) []string {
	var d []string
	for p, ea := range a {
		if eb, ok := b[p]; !ok {
			d = append(d, p+" (removed)")
		} else if ea != eb {
			what := "content"
			if ea.Sum == eb.Sum && ea.Kind == eb.Kind && ea.Link == eb.Link {
				what = "mode"
			}
			d = append(d, p+" ("+what+")")
		}
	}
	for p := range b {
		if _, ok := a[p]; !ok {
			d = append(d, p+" (created)")
		}
	}
	sort.Strings(d)
	return d
}

func CopyTree(src, dst string) error {
	return filepath.Walk(src, func(p string, info fs.FileInfo, err error) error {
		if err != nil {
			return err
		}
		rel, _ := filepath.Rel(src, p)
		q := filepath.Join(dst, rel)
		switch {
		case info.IsDir():
			return os.MkdirAll(q, info.Mode().Perm()|0o700)
		case info.Mode()&fs.ModeSymlink != 0:
			l, _ := os.Readlink(p)
			return os.Symlink(l, q)
		case info.Mode().IsRegular():
			b, err := os.ReadFile(p)
			if err != nil {
				return err
			}
			if err := os.WriteFile(q, b, info.Mode().Perm()); err != nil {
				return err
			}
			return os.Chmod(q, info.Mode().Perm())
		}
		return nil
	})
}

// ---------- output lines ----------

type Diag struct {
	Level   string // ERROR WARN NOTE AUTOFIX FATAL
	Path    string
	Line1   int // 0 = no line number
	Line2   int // = Line1 unless a range
	Msg     string
	Raw     string
	GccForm bool
}

var reDiagTrad = regexp.MustCompile(`^(ERROR|WARN|NOTE|AUTOFIX|FATAL): (.*?)(?::(\d+)(?:--(\d+))?)?: (.*)$`)
var reDiagGcc = regexp.MustCompile(`^(.*?)(?::(\d+)(?:--(\d+))?)?: (error|warning|note|autofix|fatal): (.*)$`)

// ParseDiag recognises one diagnostic line in traditional or gcc form.
func ParseDiag(line string) (Diag, bool) {
	if m := reDiagTrad.FindStringSubmatch(line); m != nil {
		d := Diag{Level: m[1], Path: m[2], Msg: m[5], Raw: line}
		if m[3] != "" {
			d.Line1, _ = strconv.Atoi(m[3])
			d.Line2 = d.Line1
			if m[4] != "" {
				d.Line2, _ = strconv.Atoi(m[4])
			}
		}
		return d, true
	}
	if m := reDiagGcc.FindStringSubmatch(line); m != nil {
		lv := map[string]string{"error": "ERROR", "warning": "WARN", "note": "NOTE", "autofix": "AUTOFIX", "fatal": "FATAL"}[m[4]]
		d := Diag{Level: lv, Path: m[1], Msg: m[5], Raw: line, GccForm: true}
		if m[2] != "" {
			d.Line1, _ = strconv.Atoi(m[2])
			d.Line2 = d.Line1
			if m[3] != "" {
				d.Line2, _ = strconv.Atoi(m[3])
			}
		}
		return d, true
	}
	return Diag{}, false
}

func ParseDiags(out string) []Diag {
	var ds []Diag
	for _, l := range strings.Split(out, "\n") {
		if d, ok := ParseDiag(l); ok {
			ds = append(ds, d)
		}
	}
	return ds
}

func (d Diag) Key() string {
	return fmt.Sprintf("%s|%s|%d|%d|%s", d.Level, d.Path, d.Line1, d.Line2, d.Msg)
}

func init() {
	// `vharness run tool-basetree work=<dir>` writes the fixture and runs the binary once
	register("tool-basetree", func(ctx *Ctx) *Result {
		t := NewBaseTree(filepath.Join(ctx.Work, "pkgsrc"))
		r := RunPkglint(ctx, t.Root, 20*time.Second, "-Wall", "cat/pkg")
		fmt.Printf("exit=%d\nstdout=%s\nstderr=%s\n", r.Exit, r.Stdout, r.Stderr)
		return &Result{}
	}, nil)
}
