package main

// C01 unit correspondence: the Indentation machine (through
// shim/verif_c01.go: VerifIndentScript) and SeparatorWriter
// (VerifSepWriterScript) against the extracted models.

import (
	"bufio"
	"fmt"
	"os"
	"os/exec"
	"path/filepath"
	"strings"
	"sync"

	pkglint "github.com/rillig/pkglint/v23"
)

// One concrete makefile line together with its abstraction for Model/Indent.v.
type c01Sym struct {
	text           string
	kind           int    // index into dkind (0 KIf .. 10 KOther, 11 KNone)
	cond           string // "N" or "C<vars>|<files>"; only looked at for .if/.elif
	forvars        string
	comment        bool
	bl3            bool // a guard when the file is called buildlink3.mk
	mayBeGuardLine bool
}

// variable ids: A=1 B=2 C=3 i=4 j=5 X_MK=6 FOO_BUILDLINK3_MK=7; encoded as 2*id+mk
var c01VarIDs = map[string]int{"A": 1, "B": 2, "C": 3, "i": 4, "j": 5, "X_MK": 6, "FOO_BUILDLINK3_MK": 7, "A_MK": 8, "x": 9}
var c01FileIDs = map[string]int{"cat/pkg/f1.mk": 1, "cat/pkg/f2.mk": 2}

var c01Alphabet = []c01Sym{
	{text: ".if ${A} == a", kind: 0, cond: "C2|"},
	{text: ".if exists(f1.mk) && defined(B)", kind: 0, cond: "C4|1"},
	{text: ".for i j in a b", kind: 5, forvars: "8.10"},
	{text: ".elif ${B} || ${A}", kind: 6, cond: "C4.2|"},
	{text: ".else", kind: 7},
	{text: ".endif # A", kind: 8, comment: true},
	{text: ".endfor", kind: 9},
	{text: ".ifdef A", kind: 1},
	{text: "A=\t1", kind: 11},
}

var c01ExtraSyms = []c01Sym{
	{text: ".if !defined(X_MK)", kind: 0, cond: "C13|", bl3: true, mayBeGuardLine: true},
	{text: ".if !defined(FOO_BUILDLINK3_MK)", kind: 0, cond: "C15|", bl3: true, mayBeGuardLine: true},
	{text: ".if !defined(A)", kind: 0, cond: "C2|", mayBeGuardLine: true},
	{text: ".if ${A_MK}", kind: 0, cond: "C17|"},
	{text: ".if ${A} == a && ${A} != b && ${C}", kind: 0, cond: "C2.2.6|"},
	{text: ".if !empty(C:Mx) || exists(f2.mk) || exists(/abs/f.mk)", kind: 0, cond: "C6|2"},
	{text: ".if 1", kind: 0, cond: "C|"},
	{text: ".if", kind: 0, cond: "N"},
	{text: ".ifndef A", kind: 2},
	{text: ".ifmake all", kind: 3},
	{text: ".ifnmake all", kind: 4},
	{text: ".for x", kind: 5},
	{text: ".for", kind: 5},
	{text: ".for x in ${A}", kind: 5, forvars: "18"},
	{text: ".elif exists(f2.mk)", kind: 6, cond: "C|2"},
	{text: ".elif", kind: 6, cond: "N"},
	{text: ".else # c", kind: 7, comment: true},
	{text: ".endif", kind: 8},
	{text: ".endfor # i", kind: 9, comment: true},
	{text: ".elifdef A", kind: 10},
	{text: ".undef A", kind: 10},
	{text: ".info x", kind: 10},
	{text: ".include \"x.mk\"", kind: 11},
	{text: "# comment", kind: 11},
	{text: "", kind: 11},
	{text: "t:", kind: 11},
	{text: "\techo", kind: 11},
	{text: "X_MK:=\t# defined", kind: 11},
}

type c01Script struct {
	syms     []c01Sym
	basename string
	pkgsrc   bool
}

func (s c01Script) text() string {
	var sb strings.Builder
	for _, y := range s.syms {
		sb.WriteString(y.text)
		sb.WriteString("\n")
	}
	return sb.String()
}

func (s c01Script) request(guardLine int) string {
	var sb strings.Builder
	sb.WriteString("indent ")
	if s.pkgsrc {
		sb.WriteString("1")
	} else {
		sb.WriteString("0")
	}
	for i, y := range s.syms {
		g := 0
		if (y.bl3 && s.basename == "buildlink3.mk") || (guardLine == i+1) {
			g = 1
		}
		c := 0
		if y.comment {
			c = 1
		}
		cond := y.cond
		if cond == "" {
			cond = "N"
		}
		fmt.Fprintf(&sb, " %d,%d,%d,%d,%s,%s", y.kind, i+1, g, c, cond, y.forvars)
	}
	return sb.String()
}

func c01Dots(names []string, ids map[string]int) string {
	var ps []string
	for _, n := range names {
		id, ok := ids[n]
		if !ok {
			id = 99
		}
		ps = append(ps, fmt.Sprint(id))
	}
	return strings.Join(ps, ".")
}

// c01IndentAnswer renders the observation of the real code in the oracle's answer format.
func c01IndentAnswer(r pkglint.VerifIndentResult) string {
	if r.Panic != "" {
		return "panic " + r.Panic
	}
	var sb strings.Builder
	sb.WriteString("ok")
	var last []pkglint.VerifIndentLevel
	for _, st := range r.Steps {
		u := 0
		if st.Unmatched {
			u = 1
		}
		e := st.Expected
		if st.Directive == "" {
			e = 0
		}
		var ls []string
		for _, l := range st.Levels {
			g := 0
			if l.Guard {
				g = 1
			}
			ls = append(ls, fmt.Sprintf("%d:%d:%d:%d:%s:%s", l.Line, l.Depth, l.ArgsLine, g, c01Dots(l.Vars, c01VarIDs), c01Dots(l.Files, c01FileIDs)))
		}
		fmt.Fprintf(&sb, " e=%d,u=%d,L=%s", e, u, strings.Join(ls, ";"))
		last = st.Levels
	}
	if r.Closed != len(last) || r.LeftOpen != 0 {
		fmt.Fprintf(&sb, " closed=MISMATCH(%d reported, %d left open, %d were open)", r.Closed, r.LeftOpen, len(last))
		return sb.String()
	}
	var cl []string
	for i := len(last) - 1; i >= 0; i-- {
		cl = append(cl, fmt.Sprint(last[i].Line))
	}
	sb.WriteString(" closed=" + strings.Join(cl, "."))
	return sb.String()
}

// worker process: G is global state of package pkglint, so the scripts of one
// shard run sequentially in a process of their own.
// jobs.txt: "<pkgsrc 0|1> <basename> <hex text>" per line; results.txt: "<guardLine>\t<answer>".
func init() {
	register("tool-c01-indent", func(ctx *Ctx) *Result {
		in, err := os.Open(filepath.Join(ctx.Work, "jobs.txt"))
		if err != nil {
			return &Result{Broken: err.Error()}
		}
		defer in.Close()
		out, _ := os.Create(filepath.Join(ctx.Work, "results.txt"))
		w := bufio.NewWriter(out)
		sc := bufio.NewScanner(in)
		sc.Buffer(make([]byte, 1<<20), 1<<26)
		mode := ""
		for sc.Scan() {
			f := strings.Fields(sc.Text())
			if len(f) != 3 {
				continue
			}
			if f[0] != mode {
				mode = f[0]
				root := ""
				if mode == "1" {
					root = ctx.Repo
				}
				if p := pkglint.VerifIndentSetup(root); p != "" {
					return &Result{Broken: "VerifIndentSetup: " + p}
				}
			}
			r := pkglint.VerifIndentScript(filepath.Join(ctx.Repo, "cat/pkg"), f[1], unhx(f[2]))
			fmt.Fprintf(w, "%d\t%s\n", r.GuardLine, c01IndentAnswer(r))
		}
		w.Flush()
		out.Close()
		return &Result{}
	}, nil)
}

func c01RunIndentScripts(ctx *Ctx, scripts []c01Script) (guard []int, impl []string, err error) {
	root := filepath.Join(ctx.Work, "c01unit-tree")
	NewBaseTree(root)
	const shards = 16
	base := filepath.Join(ctx.Work, "c01unit")
	files := make([]*bufio.Writer, shards)
	closers := make([]*os.File, shards)
	for s := 0; s < shards; s++ {
		d := filepath.Join(base, fmt.Sprint(s))
		os.MkdirAll(d, 0o755)
		f, e := os.Create(filepath.Join(d, "jobs.txt"))
		if e != nil {
			return nil, nil, e
		}
		closers[s], files[s] = f, bufio.NewWriter(f)
	}
	// shard by position within the two pkgsrc modes so that every worker switches mode once
	for pass := 0; pass < 2; pass++ {
		for i, sc := range scripts {
			if sc.pkgsrc != (pass == 1) {
				continue
			}
			fmt.Fprintf(files[i%shards], "%d %s %s\n", pass, sc.basename, hx(sc.text()))
		}
	}
	for s := 0; s < shards; s++ {
		files[s].Flush()
		closers[s].Close()
	}
	errs := make([]error, shards)
	var wg sync.WaitGroup
	for s := 0; s < shards; s++ {
		wg.Add(1)
		go func(s int) {
			defer wg.Done()
			cmd := exec.Command(os.Args[0], "run", "tool-c01-indent", "work="+filepath.Join(base, fmt.Sprint(s)), "repo="+root, "out="+filepath.Join(base, fmt.Sprint(s), "res.json"))
			if out, e := cmd.CombinedOutput(); e != nil {
				errs[s] = fmt.Errorf("indent worker %d: %v: %s", s, e, firstLines(string(out), 10))
			}
		}(s)
	}
	wg.Wait()
	for _, e := range errs {
		if e != nil {
			return nil, nil, e
		}
	}
	guard = make([]int, len(scripts))
	impl = make([]string, len(scripts))
	for s := 0; s < shards; s++ {
		f, e := os.Open(filepath.Join(base, fmt.Sprint(s), "results.txt"))
		if e != nil {
			return nil, nil, e
		}
		sc := bufio.NewScanner(f)
		sc.Buffer(make([]byte, 1<<20), 1<<26)
		var idx []int
		for pass := 0; pass < 2; pass++ {
			for i, scr := range scripts {
				if scr.pkgsrc == (pass == 1) && i%shards == s {
					idx = append(idx, i)
				}
			}
		}
		k := 0
		for sc.Scan() {
			g, a, _ := strings.Cut(sc.Text(), "\t")
			if k < len(idx) {
				fmt.Sscan(g, &guard[idx[k]])
				impl[idx[k]] = a
			}
			k++
		}
		f.Close()
		if k != len(idx) {
			return nil, nil, fmt.Errorf("indent worker %d: %d answers for %d scripts", s, k, len(idx))
		}
	}
	os.RemoveAll(base)
	return guard, impl, nil
}

func c01CompareIndent(ctx *Ctx, res *Result, scripts []c01Script, kind string) {
	guard, impl, err := c01RunIndentScripts(ctx, scripts)
	if err != nil {
		res.Broken = err.Error()
		return
	}
	reqs := make([]string, len(scripts))
	for i, s := range scripts {
		reqs[i] = s.request(guard[i])
	}
	ans, err := runOracle(ctx, "c01", reqs)
	if err != nil {
		res.Broken = err.Error()
		return
	}
	ndis := 0
	for i, s := range scripts {
		res.Count("indent."+kind, 1)
		if strings.HasPrefix(impl[i], "panic") {
			res.Count("indent.impl-panics", 1)
		}
		if guard[i] > 0 {
			res.Count("indent.with-guard-line", 1)
		}
		if strings.Contains(ans[i], "u=1") {
			res.Count("indent.unmatched-end", 1)
		}
		if !strings.HasSuffix(ans[i], "closed=") {
			res.Count("indent.left-open-at-eof", 1)
		}
		if ans[i] == impl[i] {
			continue
		}
		res.Count("indent.disagreements", 1)
		if ndis++; ndis <= 3 { // scripts come shortest first; one replay per key is kept anyway
			c01IndentDisagreement(ctx, res, s, ans[i], impl[i])
		}
	}
	res.Evaluations += len(scripts)
	res.TracesValidated += len(scripts)
}

func c01IndentDisagreement(ctx *Ctx, res *Result, s c01Script, model, impl string) {
	rep := map[string]any{"kind": "indent", "text": hx(s.text()), "basename": s.basename, "pkgsrc": s.pkgsrc, "model": model, "impl": impl, "readable": s.text()}
	if strings.HasPrefix(impl, "panic") {
		// does the real binary crash on this file? then it is a finding of the property itself
		dir := filepath.Join(c01Scratch(ctx), "gen", "unit-repro")
		NewBaseTree(dir)
		spec := CaptureTree(dir, ctx.Work)
		os.RemoveAll(dir)
		spec.Put("cat/pkg/"+s.basename, 'f', s.text())
		c := &c01Case{Stream: "unit", Spec: spec, Args: []string{"-Wall", "cat/pkg/" + s.basename}, Cwd: "."}
		r := c01RunCase(ctx, c, c01Timeout(ctx, c))
		if v := c01Judge(r, spec.Size()); v.Bad() {
			if viol := c01Process(ctx, res, c01Bad{c, v, r}, true); viol != nil {
				res.AddViolation(*viol)
				return
			}
		}
	}
	rep["broken"] = "correspondence Indentation (mkline.go) = Model/Indent.v on " + fmt.Sprintf("%q", s.text())
	res.AddViolation(Violation{Key: "C01/correspondence/indent", What: fmt.Sprintf("Indentation machine: model and code disagree on %q (%s, pkgsrc=%v): model %q, code %q", s.text(), s.basename, s.pkgsrc, model, impl),
		FoundInput: false, Size: len(s.text()), Replay: rep})
}

func c01UnitIndent(ctx *Ctx, res *Result) {
	maxLen, nrand := 5, 6000
	if ctx.Tier == "thorough" {
		maxLen, nrand = 6, 100000
	}
	var scripts []c01Script
	// exhaustive: all sequences of <= maxLen symbols, alternating with/without pkgsrc on the longest
	var rec func(prefix []c01Sym)
	rec = func(prefix []c01Sym) {
		if len(prefix) > 0 {
			cp := append([]c01Sym(nil), prefix...)
			scripts = append(scripts, c01Script{syms: cp, basename: "x.mk", pkgsrc: true})
			if len(prefix) < maxLen { // the mode without a pkgsrc tree only differs in AddCheckedFile
				scripts = append(scripts, c01Script{syms: cp, basename: "x.mk", pkgsrc: false})
			}
		}
		if len(prefix) == maxLen {
			return
		}
		for _, y := range c01Alphabet {
			rec(append(prefix, y))
		}
	}
	rec(nil)
	// ... and all sequences of length maxLen+1 over the 7 core symbols (without `.if exists` and `.ifdef`)
	core := []c01Sym{c01Alphabet[0], c01Alphabet[2], c01Alphabet[3], c01Alphabet[4], c01Alphabet[5], c01Alphabet[6], c01Alphabet[8]}
	var rec2 func(prefix []c01Sym)
	rec2 = func(prefix []c01Sym) {
		if len(prefix) == maxLen+1 {
			scripts = append(scripts, c01Script{syms: append([]c01Sym(nil), prefix...), basename: "x.mk", pkgsrc: true})
			return
		}
		for _, y := range core {
			rec2(append(prefix, y))
		}
	}
	rec2(nil)
	nexh := len(scripts)
	rng := NewRng(ctx.Seed + 101)
	all := append(append([]c01Sym(nil), c01Alphabet...), c01ExtraSyms...)
	for i := 0; i < nrand; i++ {
		n := 1 + rng.Intn(40)
		s := c01Script{basename: Pick(rng, []string{"x.mk", "buildlink3.mk", "Makefile", "options.mk"}), pkgsrc: rng.Chance(70)}
		if rng.Chance(30) { // a file wrapped in a multiple-inclusion guard: one balanced .if around everything
			s.syms = append(s.syms, Pick(rng, c01ExtraSyms[:3]))
			s.syms = append(s.syms, c01Balanced(rng, 3)...)
			s.syms = append(s.syms, c01ExtraSyms[17]) // .endif
			if rng.Chance(25) {                       // ... or not quite
				s.syms = append(s.syms, Pick(rng, all))
			}
		} else {
			for j := 0; j < n; j++ {
				s.syms = append(s.syms, Pick(rng, all))
			}
			if rng.Chance(40) {
				s.syms = append(s.syms, c01ExtraSyms[17]) // .endif
			}
		}
		scripts = append(scripts, s)
	}
	c01CompareIndent(ctx, res, scripts[:nexh], "exhaustive")
	c01CompareIndent(ctx, res, scripts[nexh:], "random")
	res.Count("indent.exhaustive-max-len", maxLen)
	res.mu.Lock()
	d := res.Distribution
	res.mu.Unlock()
	for _, k := range []string{"indent.unmatched-end", "indent.left-open-at-eof", "indent.with-guard-line"} {
		if n, _ := d[k].(int); n < 20 && res.Broken == "" && len(res.Violations) == 0 {
			res.Broken = "unit coverage: " + k + " reached too rarely"
		}
	}
}

// c01Balanced: a balanced sequence of lines and blocks.
func c01Balanced(rng *Rng, depth int) []c01Sym {
	ifs := []c01Sym{c01Alphabet[0], c01Alphabet[1], c01Alphabet[7], c01ExtraSyms[3], c01ExtraSyms[4], c01ExtraSyms[5], c01ExtraSyms[8], c01ExtraSyms[9]}
	plain := []c01Sym{c01Alphabet[8], c01ExtraSyms[22], c01ExtraSyms[23], c01ExtraSyms[21], c01ExtraSyms[27]}
	var out []c01Sym
	for i, n := 0, rng.Intn(4); i < n; i++ {
		switch {
		case depth > 0 && rng.Chance(35):
			out = append(out, Pick(rng, ifs))
			out = append(out, c01Balanced(rng, depth-1)...)
			if rng.Chance(40) {
				out = append(out, Pick(rng, []c01Sym{c01Alphabet[3], c01ExtraSyms[14]}))
				out = append(out, c01Balanced(rng, depth-1)...)
			}
			if rng.Chance(40) {
				out = append(out, c01Alphabet[4])
				out = append(out, c01Balanced(rng, depth-1)...)
			}
			out = append(out, Pick(rng, []c01Sym{c01Alphabet[5], c01ExtraSyms[17]}))
		case depth > 0 && rng.Chance(25):
			out = append(out, Pick(rng, []c01Sym{c01Alphabet[2], c01ExtraSyms[13]}))
			out = append(out, c01Balanced(rng, depth-1)...)
			out = append(out, Pick(rng, []c01Sym{c01Alphabet[6], c01ExtraSyms[18]}))
		default:
			out = append(out, Pick(rng, plain))
		}
	}
	return out
}

// ---------- SeparatorWriter ----------

var c01SepAlphabet = []pkglint.VerifSepEvent{{Kind: 'W', Text: ""}, {Kind: 'W', Text: "a"}, {Kind: 'W', Text: "\n"}, {Kind: 'W', Text: "a\n"}, {Kind: 'L', Text: ""}, {Kind: 'L', Text: "a"}, {Kind: 'S'}, {Kind: 'F'}}

func c01SepRequest(evs []pkglint.VerifSepEvent) string {
	var sb strings.Builder
	sb.WriteString("sep")
	for _, e := range evs {
		sb.WriteString(" " + string(e.Kind))
		if e.Kind == 'W' || e.Kind == 'L' {
			sb.WriteString(hx(e.Text))
		}
	}
	return sb.String()
}

// the specification evaluated directly on what the implementation produced
func c01SepSpec(evs []pkglint.VerifSepEvent, r pkglint.VerifSepResult) (disciplined bool, bytesOK bool) {
	written := ""
	disciplined = true
	seps := 0
	for _, e := range evs {
		switch e.Kind {
		case 'W':
			written += e.Text
		case 'L':
			written += e.Text + "\n"
		case 'S':
			seps++
			if written != "" && !strings.HasSuffix(written, "\n") {
				disciplined = false
			}
		}
	}
	got := r.Out + r.Line
	// got must be written with newlines inserted: greedy subsequence check that only skips '\n'
	i := 0
	bytesOK = true
	for j := 0; j < len(got); j++ {
		if i < len(written) && got[j] == written[i] {
			i++
		} else if got[j] != '\n' {
			bytesOK = false
		}
	}
	if i != len(written) || len(got) > len(written)+seps {
		bytesOK = false
	}
	return
}

func c01CompareSep(ctx *Ctx, res *Result, seqs [][]pkglint.VerifSepEvent, kind string) {
	reqs := make([]string, len(seqs))
	impl := make([]pkglint.VerifSepResult, len(seqs))
	parallelFor(16, func(w int) {
		for i := w; i < len(seqs); i += 16 {
			reqs[i] = c01SepRequest(seqs[i])
			impl[i] = pkglint.VerifSepWriterScript(seqs[i])
		}
	})
	ans, err := runOracle(ctx, "c01", reqs)
	if err != nil {
		res.Broken = err.Error()
		return
	}
	for i, evs := range seqs {
		r := impl[i]
		disc, bytesOK := c01SepSpec(evs, r)
		got := ""
		d := "0"
		if disc {
			d = "1"
		}
		if r.Panic != "" {
			got = "panic 5 " + d
			res.Count("sep.panics", 1)
		} else {
			got = fmt.Sprintf("ok %d %s %s %s", r.State, hx(r.Out), hx(r.Line), d)
		}
		res.Count("sep."+kind, 1)
		if disc {
			res.Count("sep.disciplined", 1)
		}
		if got == ans[i] {
			continue
		}
		rep := map[string]any{"kind": "sep", "events": reqs[i], "model": ans[i], "impl": got}
		switch {
		case disc && r.Panic != "":
			res.AddViolation(Violation{Key: "C01/sepwriter/panic-on-disciplined-calls", What: fmt.Sprintf("SeparatorWriter panics (%s) although every Separate() came at a line start: %s", r.Panic, reqs[i]), FoundInput: true, Size: len(reqs[i]), Replay: rep})
		case r.Panic == "" && !bytesOK:
			res.AddViolation(Violation{Key: "C01/sepwriter/bytes-lost-or-invented", What: fmt.Sprintf("SeparatorWriter output %q is not the written text with newlines inserted: %s", r.Out+r.Line, reqs[i]), FoundInput: true, Size: len(reqs[i]), Replay: rep})
		default:
			rep["broken"] = "correspondence SeparatorWriter (logging.go) = Model/SepWriter.v"
			res.AddViolation(Violation{Key: "C01/correspondence/sepwriter", What: fmt.Sprintf("SeparatorWriter: model %q, code %q on %s", ans[i], got, reqs[i]), FoundInput: false, Size: len(reqs[i]), Replay: rep})
		}
	}
	res.Evaluations += len(seqs)
	res.TracesValidated += len(seqs)
}

func c01UnitSep(ctx *Ctx, res *Result) {
	maxLen, nrand := 6, 20000
	if ctx.Tier == "thorough" {
		maxLen, nrand = 7, 300000
	}
	var seqs [][]pkglint.VerifSepEvent
	var rec func(prefix []pkglint.VerifSepEvent)
	rec = func(prefix []pkglint.VerifSepEvent) {
		if len(prefix) > 0 {
			seqs = append(seqs, append([]pkglint.VerifSepEvent(nil), prefix...))
		}
		if len(prefix) == maxLen {
			return
		}
		for _, e := range c01SepAlphabet {
			rec(append(prefix, e))
		}
	}
	rec(nil)
	c01CompareSep(ctx, res, seqs, "exhaustive")
	rng := NewRng(ctx.Seed + 202)
	texts := []string{"", "a", "\n", "a\n", "a\nb", "\n\n", "\na", "abc\n\ndef\n", "\t", "\x00\n", "\r\n", "\xff"}
	var rnd [][]pkglint.VerifSepEvent
	for i := 0; i < nrand; i++ {
		n := 1 + rng.Intn(25)
		var evs []pkglint.VerifSepEvent
		for j := 0; j < n; j++ {
			switch rng.Intn(6) {
			case 0, 1:
				evs = append(evs, pkglint.VerifSepEvent{Kind: 'W', Text: Pick(rng, texts)})
			case 2, 3:
				evs = append(evs, pkglint.VerifSepEvent{Kind: 'L', Text: Pick(rng, texts)})
			case 4:
				evs = append(evs, pkglint.VerifSepEvent{Kind: 'S'})
			default:
				evs = append(evs, pkglint.VerifSepEvent{Kind: 'F'})
			}
		}
		rnd = append(rnd, evs)
	}
	c01CompareSep(ctx, res, rnd, "random")
	res.Count("sep.exhaustive-max-len", maxLen)
}

// ---------- unit replays ----------

func c01ReplayIndent(ctx *Ctx, res *Result, rep map[string]any) {
	// the abstraction of an arbitrary text is not known; replay re-runs the real code and reports what it does
	text, _ := rep["text"].(string)
	bn, _ := rep["basename"].(string)
	pk, _ := rep["pkgsrc"].(bool)
	root := ""
	if pk {
		root = filepath.Join(ctx.Work, "c01unit-tree")
		NewBaseTree(root)
	}
	if p := pkglint.VerifIndentSetup(root); p != "" {
		res.Broken = p
		return
	}
	dir := filepath.Join(root, "cat/pkg")
	r := pkglint.VerifIndentScript(dir, bn, unhx(text))
	impl := c01IndentAnswer(r)
	model, _ := rep["model"].(string)
	res.Evaluations = 1
	res.Sample(map[string]any{"impl": impl, "model_at_record_time": model})
	if impl != model {
		res.AddViolation(Violation{Key: "C01/correspondence/indent", What: fmt.Sprintf("Indentation machine: recorded model answer %q, code now %q", model, impl), FoundInput: false, Replay: rep})
	}
}

func c01ReplaySep(ctx *Ctx, res *Result, rep map[string]any) {
	req, _ := rep["events"].(string)
	var evs []pkglint.VerifSepEvent
	for _, f := range strings.Fields(req)[1:] {
		e := pkglint.VerifSepEvent{Kind: f[0]}
		if len(f) > 1 {
			e.Text = unhx(f[1:])
		}
		evs = append(evs, e)
	}
	c01CompareSep(ctx, res, [][]pkglint.VerifSepEvent{evs}, "replay")
}
