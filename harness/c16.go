package main

// C16: repeated --autofix converges to a fixed point where nothing more is
// offered.
//
// Whole-run part (the property itself): up to 8 passes of `pkglint -F -Wall
// -r .` on a generated tree; the tree must become byte-identical under a
// further pass after at most 5 changing passes, no state may repeat before
// that (oscillation), no file may grow beyond start + passes*constant; on the
// final tree -f must print no AUTOFIX line and the default run no fix hint.
// Unit part (c16_unit.go): two fixer models of coq/Model/Settle.v against the
// real binary on one-file experiments.

import (
	"fmt"
	"os"
	"path/filepath"
	"regexp"
	"sort"
	"strconv"
	"strings"
	"time"
)

const c16MaxPasses = 8
const c16MaxChangingPasses = 5
const c16GrowthPerPass = 2048 // bytes per file and pass

type c16Pass struct {
	Fixes   []Diag
	Changed []string
	After   c04Files
	Res     RunResult
}

type c16Obs struct {
	Passes       []c16Pass
	Changing     int // number of passes that changed the tree
	Converged    bool
	Kinds1       []string // diagnostics that came with a fix in pass 1 (from -f on the start tree)
	FinalShow    *c04Out
	FinalDefault *c04Out
	Crashed      bool
	CrashOut     string // output of the run that crashed (replay aid)
	// criterion "one pass fixes all instances of a kind": actions of a pass N+1 whose exact text
	// pass N had logged in the same file, and how many of them fell under the alignment exception
	RepeatedActions, RepeatedAlignment int
}

func c16Crashed(r RunResult) bool {
	return r.TimedOut || r.Signal != "" || (r.Exit != 0 && r.Exit != 1)
}

func c16Kinds(ds []Diag) []string {
	m := map[string]bool{}
	for _, d := range ds {
		m[c04FixKind(d.Msg)] = true
	}
	return sortedKeys(m)
}

// c16Evaluate iterates -F and judges the outcome.
func c16Evaluate(ctx *Ctx, dir string, tf c04Files, targets []string) ([]c04Finding, *c16Obs) {
	cfg := c04Cfg{Targets: targets}
	obs := &c16Obs{}
	var fs []c04Finding
	add := func(key, what string) { fs = append(fs, c04Finding{key, what}) }

	probe := c04Run(ctx, filepath.Join(dir, "probe"), tf, cfg, "show")
	if probe.crashed() {
		obs.Crashed = true
		return nil, obs
	}
	obs.Kinds1 = c16Kinds(probe.Diags)

	work := filepath.Join(dir, "iter")
	tf.Materialize(work)
	cur := tf
	inputs := []c04Files{tf} // inputs[p-1] = the tree pass p started from
	states := []string{tf.Hash()}
	for p := 1; p <= c16MaxPasses; p++ {
		r := RunPkglint(ctx, work, 20*time.Second, cfg.Args("fix")...)
		if c16Crashed(r) {
			obs.Crashed = true
			obs.CrashOut = fmt.Sprintf("pass %d: exit %d signal %q\n%s%s", p, r.Exit, r.Signal, r.Stdout, firstLines(r.Stderr, 12))
			return nil, obs
		}
		after := c04ReadTree(work)
		pass := c16Pass{Res: r, After: after, Changed: cur.Diff(after)}
		for _, d := range ParseDiags(r.Stdout) {
			if d.Level == "AUTOFIX" {
				pass.Fixes = append(pass.Fixes, d)
			}
		}
		pass.Fixes = c04Canon(pass.Fixes)
		obs.Passes = append(obs.Passes, pass)
		// growth
		for k, v := range after {
			if old, ok := tf[k]; ok && len(v) > len(old)+p*c16GrowthPerPass {
				add("C16/unbounded-growth/"+c04FileKind(k), fmt.Sprintf("%s grew from %d to %d bytes in %d passes", k, len(old), len(v), p))
			}
		}
		inputs = append(inputs, after)
		// (b) monotone growth: a file that is longer after each of three consecutive passes
		if p >= 3 {
			for k, v := range after {
				a, b, c := inputs[p-3][k], inputs[p-2][k], inputs[p-1][k]
				if _, ok := inputs[p-3][k]; ok && len(v) > len(c) && len(c) > len(b) && len(b) > len(a) &&
					strings.Count(v, "\n") > strings.Count(c, "\n") && strings.Count(c, "\n") > strings.Count(b, "\n") && strings.Count(b, "\n") > strings.Count(a, "\n") {
					add("C16/monotone-growth/"+c16FileKind(k)+"/"+strings.Join(c16KindsOf(pass.Fixes, k), "+"),
						fmt.Sprintf("[%s] %s got longer in each of the passes %d, %d, %d of pkglint -F: %d -> %d -> %d -> %d bytes (%d -> %d lines); last pass logged %q",
							cfg, k, p-2, p-1, p, len(a), len(b), len(c), len(v), strings.Count(a, "\n"), strings.Count(v, "\n"), c16FirstOf(pass.Fixes, k)))
				}
			}
		}
		// (c) one pass fixes all instances of a kind
		if p >= 2 {
			for _, f := range c16RepeatedFixes(cfg, inputs[p-2], inputs[p-1], obs.Passes[p-2], pass, p) {
				fs = append(fs, f)
			}
			had := map[string]bool{}
			for _, d := range obs.Passes[p-2].Fixes {
				had[filepath.Clean(d.Path)+"\x00"+d.Msg] = true
			}
			for _, d := range pass.Fixes {
				if had[filepath.Clean(d.Path)+"\x00"+d.Msg] {
					obs.RepeatedActions++
					if c16AlignmentAction(d.Msg) {
						obs.RepeatedAlignment++
					}
				}
			}
		}
		for k := range after {
			if _, ok := tf[k]; !ok {
				add("C16/file-created/"+c04FileKind(k), fmt.Sprintf("pass %d created %s", p, k))
			}
		}
		if len(pass.Changed) == 0 {
			obs.Converged = true
			break
		}
		obs.Changing++
		h := after.Hash()
		for j, s := range states {
			if s == h {
				add("C16/oscillation/"+strings.Join(c16Kinds(pass.Fixes), "+"),
					fmt.Sprintf("the tree after pass %d equals the tree after pass %d (files that keep changing: %v)", p, j, pass.Changed))
				return fs, obs
			}
		}
		states = append(states, h)
		cur = after
	}
	last := obs.Passes[len(obs.Passes)-1]
	if !obs.Converged {
		// narrow keys: one per file that keeps changing, with the actions logged for it
		for _, p := range last.Changed {
			acts := map[string]bool{}
			for _, d := range last.Fixes {
				if filepath.Clean(d.Path) == p {
					acts[c04FixKind(d.Msg)] = true
				}
			}
			add("C16/no-fixed-point/"+c16FileKind(p)+"/"+strings.Join(sortedKeys(acts), "+"),
				fmt.Sprintf("[%s] after %d passes of pkglint -F the tree still changes: pass %d rewrote %v (%d AUTOFIX lines, e.g. %q); %s grew from %d to %d bytes",
					cfg, c16MaxPasses, c16MaxPasses, last.Changed, len(last.Fixes), c16First(last.Fixes), p, len(tf[p]), len(last.After[p])))
		}
		return fs, obs
	}
	if obs.Changing > c16MaxChangingPasses {
		add("C16/too-many-passes/"+strings.Join(c16FixSites(ctx, dir, obs.Passes[obs.Changing-1].After, cfg), "+"),
			fmt.Sprintf("%d passes of pkglint -F changed the tree before it settled", obs.Changing))
	}
	// the fixed point is quiet
	final := last.After
	obs.FinalShow = c04Run(ctx, filepath.Join(dir, "final-show"), final, cfg, "show")
	obs.FinalDefault = c04Run(ctx, filepath.Join(dir, "final-default"), final, cfg, "default")
	if obs.FinalShow.crashed() || obs.FinalDefault.crashed() {
		obs.Crashed = true
		return nil, obs
	}
	// one finding per (file kind, diagnostic that owns the stuck action): narrow keys
	stuck := c16Owners(obs.FinalShow.Res.Stdout)
	seenKey := map[string]bool{}
	for _, st := range stuck {
		lineText := ""
		if ls := c16FileLines(final[filepath.Clean(st.fix.Path)]); st.fix.Line1 >= 1 && st.fix.Line1 <= len(ls) {
			lineText = ls[st.fix.Line1-1]
		}
		key := "C16/fixed-point-not-quiet/" + c16FileKind(st.fix.Path) + "/" + st.owner + c16ActionShape(st.fix.Msg, lineText)
		if seenKey[key] {
			continue
		}
		seenKey[key] = true
		add(key, fmt.Sprintf("[%s] a further pkglint -F leaves the tree unchanged after %d passes, but pkglint -f still prints %q (for %q; %d AUTOFIX lines in all)",
			cfg, obs.Changing, st.fix.Raw, st.diag, len(obs.FinalShow.Fixes)))
	}
	if (obs.FinalDefault.HintFix || obs.FinalDefault.HintShow) && len(stuck) == 0 {
		add("C16/fixed-point-not-quiet/hint-only",
			fmt.Sprintf("[%s] a further pkglint -F leaves the tree unchanged after %d passes, -f shows nothing, but the default run still offers automatic fixing", cfg, obs.Changing))
	}
	if len(last.Fixes) > 0 && len(stuck) == 0 {
		add("C16/fixed-point-not-quiet/-F-logs-without-changing/"+c04FileKind(last.Fixes[0].Path)+"/"+c04FixKind(last.Fixes[0].Msg),
			fmt.Sprintf("[%s] pass %d of pkglint -F printed %d AUTOFIX lines (e.g. %q) and changed nothing, while -f prints none", cfg, len(obs.Passes), len(last.Fixes), last.Fixes[0].Raw))
	}
	return fs, obs
}

// c16AlignmentAction: the documented exception to "one pass fixes all instances
// of a kind".  The alignment of a paragraph (varalignblock.go) depends on the
// other lines of the paragraph, so a line that pass N left alone may have to be
// re-indented in pass N+1 after its neighbours changed.  The exception is
// narrow: an action "Replacing a with b." in which a and b consist of nothing
// but spaces, tabs (and the backslash of a continuation line).
func c16AlignmentAction(msg string) bool {
	if !strings.HasPrefix(msg, "Replacing ") {
		return false
	}
	m := reGoQuoted.FindAllString(msg, -1)
	if len(m) != 2 {
		return false
	}
	for _, q := range m {
		u, err := strconv.Unquote(q)
		if err != nil {
			return false
		}
		if strings.Trim(u, " \t\\") != "" {
			return false
		}
	}
	return true
}

// c16LineShape makes the keys of inserting and deleting actions narrow: the fix site is
// named by what the inserted (or deleted) line starts with -- the text up to the first
// tab, else its first two words, digits abstracted -- and an assignment whose value
// contains '#' (which make(1) reads as the start of a comment) is a class of its own.
func c16LineShape(text string) string {
	head, value := text, ""
	if i := strings.IndexByte(text, '\t'); i >= 0 {
		head, value = text[:i], text[i+1:]
	} else if f := strings.Fields(text); len(f) > 2 {
		head = strings.Join(f[:2], " ")
	}
	head = regexp.MustCompile(`[0-9]+`).ReplaceAllString(strings.TrimRight(head, "\r"), "N")
	if len(head) > 24 {
		head = head[:24]
	}
	if strings.Contains(value, "#") {
		head += " value containing #"
	}
	return head
}

// c16ActionShape: " [shape]" for "Inserting a line …" (the inserted text) and "Deleting this line." (the line)
func c16ActionShape(msg, lineText string) string {
	switch {
	case strings.HasPrefix(msg, "Inserting a line "):
		if m := reGoQuoted.FindString(msg); m != "" {
			if u, err := strconv.Unquote(m); err == nil {
				return " [" + c16LineShape(u) + "]"
			}
		}
	case strings.HasPrefix(msg, "Deleting this line"):
		return " [" + c16LineShape(lineText) + "]"
	}
	return ""
}

// c16WholeFileAction: actions that are logged for one line but rewrite the file as a whole
func c16WholeFileAction(msg string) bool { return msg == "Sorting the whole file." }

func c16FileLines(content string) []string {
	return strings.Split(strings.TrimSuffix(content, "\n"), "\n")
}

// c16RepeatedFixes: pass N+1 (cur, started from curIn) logs an action with
// exactly the same text in the same file as pass N (prev, started from
// prevIn), on a line that was there, with the same text, when pass N ran.
// Pass N fixed other instances of that kind in the file and left this one.
func c16RepeatedFixes(cfg c04Cfg, prevIn, curIn c04Files, prev, cur c16Pass, p int) []c04Finding {
	var out []c04Finding
	prevHas := map[string]Diag{}
	for _, d := range prev.Fixes {
		prevHas[filepath.Clean(d.Path)+"\x00"+d.Msg] = d
	}
	seen := map[string]bool{}
	for _, d := range cur.Fixes {
		file := filepath.Clean(d.Path)
		pd, ok := prevHas[file+"\x00"+d.Msg]
		if !ok || c16AlignmentAction(d.Msg) || c04NoopAction(d.Msg) {
			continue
		}
		if c16WholeFileAction(d.Msg) {
			// the action concerns the file, not the line it is logged for: repeating it is a
			// violation iff the pass before had the same lines to work on (sorting is
			// idempotent on a multiset of lines; after a fix that changed a line, the
			// order may legitimately change again)
			a, b := c16FileLines(prevIn[file]), c16FileLines(curIn[file])
			sort.Strings(a)
			sort.Strings(b)
			if strings.Join(a, "\n") != strings.Join(b, "\n") {
				continue
			}
			key := "C16/same-fix-in-consecutive-passes/" + c16FileKind(file) + "/" + c04FixKind(d.Msg)
			if !seen[key] {
				seen[key] = true
				out = append(out, c04Finding{key, fmt.Sprintf("[%s] pass %d of pkglint -F logs %q although pass %d logged %q for a file with exactly the same lines", cfg, p, d.Raw, p-1, pd.Raw)})
			}
			continue
		}
		ls := c16FileLines(curIn[file])
		if d.Line1 < 1 || d.Line2 > len(ls) || d.Line2 < d.Line1 {
			continue
		}
		text := strings.Join(ls[d.Line1-1:d.Line2], "\n")
		old := "\n" + strings.Join(c16FileLines(prevIn[file]), "\n") + "\n"
		if !strings.Contains(old, "\n"+text+"\n") {
			continue // the line did not exist (or had another text) when the previous pass ran
		}
		key := "C16/same-fix-in-consecutive-passes/" + c16FileKind(file) + "/" + c04FixKind(d.Msg) + c16ActionShape(d.Msg, text)
		if seen[key] {
			continue
		}
		seen[key] = true
		out = append(out, c04Finding{key, fmt.Sprintf("[%s] pass %d of pkglint -F logs %q for a line (%q) that was already there when pass %d logged %q: one pass does not fix all instances of this kind",
			cfg, p, d.Raw, text, p-1, pd.Raw)})
	}
	return out
}

func c16KindsOf(ds []Diag, file string) []string {
	m := map[string]bool{}
	for _, d := range ds {
		if filepath.Clean(d.Path) == file {
			m[c04FixKind(d.Msg)] = true
		}
	}
	return sortedKeys(m)
}

func c16FirstOf(ds []Diag, file string) string {
	for _, d := range ds {
		if filepath.Clean(d.Path) == file {
			return d.Raw
		}
	}
	return ""
}

// c16FileKind: like c04FileKind, but buildlink3.mk and options.mk are kinds of their own
func c16FileKind(p string) string {
	switch b := filepath.Base(p); b {
	case "buildlink3.mk", "options.mk", "Makefile.common":
		return b
	case "Makefile":
		if strings.Count(filepath.Clean(p), "/") == 1 {
			return "category Makefile"
		}
	}
	return c04FileKind(p)
}

type c16Stuck struct {
	fix   Diag
	owner string // kind of the diagnostic the action belongs to
	diag  string
}

// c16Owners pairs every AUTOFIX line of a -f output with the diagnostic printed before it.
func c16Owners(stdout string) []c16Stuck {
	var out []c16Stuck
	var owner *Diag
	for _, l := range strings.Split(stdout, "\n") {
		d, ok := ParseDiag(l)
		if !ok {
			continue
		}
		d.Path = filepath.Clean(d.Path)
		if d.Level != "AUTOFIX" {
			x := d
			owner = &x
			continue
		}
		// a silent fix has no diagnostic of its own: the line before it belongs to something else
		if owner != nil && owner.Path == d.Path && (owner.Line1 == 0 || (d.Line1 >= owner.Line1 && d.Line1 <= owner.Line2)) {
			out = append(out, c16Stuck{d, c04FixKind(owner.Msg), owner.Raw})
		} else {
			out = append(out, c16Stuck{d, "(silent) " + c04FixKind(d.Msg), ""})
		}
	}
	return out
}

func c16First(ds []Diag) string {
	if len(ds) == 0 {
		return ""
	}
	return ds[0].Raw
}

// the diagnostics that still come with a fix on tree tf (names the fix sites in a key)
func c16FixSites(ctx *Ctx, dir string, tf c04Files, cfg c04Cfg) []string {
	o := c04Run(ctx, filepath.Join(dir, "sites"), tf, cfg, "show")
	return c16Kinds(o.Diags)
}

func c16WholeRun(ctx *Ctx, res *Result, rng *Rng, ntrees int) {
	base := c04BaseTree(ctx.Work)
	type outcome struct {
		findings []c04Finding
		tree     c04Files
		targets  []string
	}
	rngs := make([]*Rng, ntrees)
	for i := range rngs {
		rngs[i] = rng.Fork()
	}
	outcomes := make([][]outcome, ntrees)
	parallelFor(ntrees, func(i int) {
		r := rngs[i]
		dir := filepath.Join(ctx.Work, fmt.Sprintf("c16w%d", i))
		defer os.RemoveAll(dir)
		opts := GenOpts{Packages: 1 + i%3, Density: 35 + 5*(i%8)}
		g := GenerateTree(r.Fork(), filepath.Join(dir, "gen"), opts)
		tf := c04ReadTree(g.Root)
		os.RemoveAll(g.Root)
		if i%4 != 0 {
			c04Augment(r.Fork(), tf, g.Pkgs, opts.Density, g.Features)
			c04Augment2(r.Fork(), tf, g.Pkgs, opts.Density, g.Features)
		}
		if i%5 != 0 {
			c16Augment(r.Fork(), tf, g.Pkgs, opts.Density, g.Features)
		}
		if i%3 == 1 {
			c16Terminators(r.Fork(), tf, g.Features)
		}
		if i%8 == 3 {
			c16MetaDirs(r.Fork(), tf, g.Pkgs, g.Features)
		}
		fs, obs := c16Evaluate(ctx, dir, tf, nil)
		res.mu.Lock()
		res.Evaluations++
		res.TracesValidated += len(obs.Passes) + 3
		res.mu.Unlock()
		if obs.Crashed {
			res.Count("whole.crashed-runs(skipped)", 1)
			return
		}
		if len(obs.Kinds1) >= 2 {
			res.mu.Lock()
			res.DistinctNontrivial++
			res.mu.Unlock()
		}
		res.Count(fmt.Sprintf("whole.distinct-fix-kinds-in-pass-1=%s", c16Bucket(len(obs.Kinds1))), 1)
		if obs.Converged {
			res.Count(fmt.Sprintf("whole.passes-needed=%d", obs.Changing), 1)
		} else {
			res.Count("whole.not-converged", 1)
		}
		for _, k := range obs.Kinds1 {
			res.Count("whole.fixsite "+k, 1)
		}
		for p, pass := range obs.Passes {
			// fix kinds fired per pass (action kinds: with -F only the AUTOFIX lines are printed)
			for _, k := range c16Kinds(pass.Fixes) {
				res.Count(fmt.Sprintf("whole.pass%d-action %s", p+1, k), 1)
			}
		}
		res.Count("whole.actions repeated verbatim by the next pass in the same file", obs.RepeatedActions)
		res.Count("whole.actions repeated verbatim … of these: white-space only (alignment, exempt)", obs.RepeatedAlignment)
		for k, n := range g.Features {
			if strings.HasPrefix(k, "c16.") {
				res.Count("gen."+k, n)
			}
		}
		maxGrowth := 0
		if len(obs.Passes) > 0 {
			last := obs.Passes[len(obs.Passes)-1].After
			for k, v := range last {
				if d := len(v) - len(tf[k]); d > maxGrowth {
					maxGrowth = d
				}
			}
		}
		res.Count(fmt.Sprintf("whole.max-file-growth<=%d", c16Pow2(maxGrowth)), 1)
		if i < 4 {
			res.Sample(map[string]any{"tree": tf.Hash(), "features": g.Features, "fix_kinds_pass1": obs.Kinds1, "changing_passes": obs.Changing,
				"autofix_lines_per_pass": c16Counts(obs.Passes)})
		}
		if len(fs) > 0 {
			outcomes[i] = append(outcomes[i], outcome{fs, tf, nil})
		}
		// the same start tree with other command-line targets: one package
		// directory, single files of every kind, several targets at once
		for _, cfg := range c04TargetConfigs(r.Fork(), tf, i) {
			fs, obs := c16Evaluate(ctx, dir, tf, cfg.Targets)
			res.mu.Lock()
			res.Evaluations++
			res.TracesValidated += len(obs.Passes) + 3
			res.mu.Unlock()
			if obs.Crashed {
				res.Count("whole.crashed-runs(skipped)", 1)
				continue
			}
			tk := cfg.TargetKind(tf)
			res.Count("whole.target "+tk, 1)
			if len(obs.Kinds1) > 0 {
				res.Count("whole.target-with-fix "+tk, 1)
			}
			if obs.Converged {
				res.Count(fmt.Sprintf("whole.target-runs passes-needed=%d", obs.Changing), 1)
			}
			if len(fs) > 0 {
				outcomes[i] = append(outcomes[i], outcome{fs, tf, cfg.Targets})
			}
		}
	})
	doneKeys := map[string]bool{}
	// shrinking is sequential and every evaluation is up to 11 runs of the binary: a change that
	// breaks many fix sites at once (e.g. every inserting fix on CR LF files) must not push the
	// run over its time limit -- at most 360 shrink evaluations per run, 120 per key
	shrinkLeft := 360
	for i := range outcomes {
		for _, oc := range outcomes[i] {
			for _, f := range oc.findings {
				if doneKeys[f.Key] {
					continue
				}
				doneKeys[f.Key] = true
				dir := filepath.Join(ctx.Work, "c16shrink")
				what := f.What
				has := func(t c04Files) bool {
					for _, tg := range oc.targets { // a target must still exist
						if _, isFile := oc.tree[tg]; isFile {
							if _, still := t[tg]; !still {
								return false
							}
						}
					}
					shrinkLeft--
					fs, _ := c16Evaluate(ctx, dir, t, oc.targets)
					for _, g := range fs {
						if g.Key == f.Key {
							what = g.What
							return true
						}
					}
					return false
				}
				budget := 120
				if shrinkLeft < budget {
					budget = shrinkLeft
				}
				small := oc.tree
				if budget > 0 {
					small = c04ShrinkTree(oc.tree, base, budget, has)
				}
				has(small)
				os.RemoveAll(dir)
				rep := small.ToReplay(base)
				rep["kind"] = "whole"
				tg := []any{}
				for _, t := range oc.targets {
					tg = append(tg, t)
				}
				rep["targets"] = tg
				rep["argv"] = strings.Join(c04Cfg{Targets: oc.targets}.Args("fix"), " ") + "  (repeated), then the same with -f and without option"
				res.AddViolation(Violation{Key: f.Key, What: what, FoundInput: true, Size: small.Size(), Replay: rep})
			}
		}
	}
}

func c16Counts(ps []c16Pass) []int {
	var n []int
	for _, p := range ps {
		n = append(n, len(p.Fixes))
	}
	return n
}

func c16Bucket(n int) string {
	switch {
	case n >= 8:
		return "8+"
	case n >= 4:
		return "4-7"
	}
	return fmt.Sprint(n)
}

func c16Pow2(n int) int {
	p := 16
	for p < n {
		p *= 2
	}
	return p
}

func c16ReplayWhole(ctx *Ctx, res *Result, rep map[string]any) {
	base := c04BaseTree(ctx.Work)
	tf := c04TreeFromReplay(base, rep)
	var targets []string
	if ts, ok := rep["targets"].([]any); ok {
		for _, t := range ts {
			if s, ok := t.(string); ok {
				targets = append(targets, s)
			}
		}
	}
	dir := filepath.Join(ctx.Work, "c16replay")
	fs, obs := c16Evaluate(ctx, dir, tf, targets)
	res.Evaluations++
	if obs.Crashed {
		fmt.Printf("== a run crashed (C01 territory; such trees are skipped by this check): %s\n", obs.CrashOut)
	}
	for p, pass := range obs.Passes {
		fmt.Printf("== pass %d: pkglint %s   (exit %d)\n%s-- rewritten: %v\n", p+1, strings.Join(c04Cfg{Targets: targets}.Args("fix"), " "), pass.Res.Exit, pass.Res.Stdout, pass.Changed)
	}
	if obs.FinalShow != nil {
		fmt.Printf("== final: pkglint -Wall -f -r .\n%s== final: pkglint -Wall -r .\n%s", obs.FinalShow.Res.Stdout, obs.FinalDefault.Res.Stdout)
	}
	for _, f := range fs {
		rep2 := tf.ToReplay(base)
		rep2["kind"] = "whole"
		rep2["targets"] = rep["targets"]
		res.AddViolation(Violation{Key: f.Key, What: f.What, FoundInput: true, Size: tf.Size(), Replay: rep2})
	}
}

func runC16(ctx *Ctx) *Result {
	res := &Result{Rule: "whole runs: one evaluation = one generated tree iterated with pkglint -F -Wall -r . (at most 8 passes), then -f and the default run on the final tree; non-trivial = at least 2 distinct diagnostics with a fix fired on the start tree (distinct by message kind, from pkglint -f)"}
	rng := NewRng(ctx.Seed)
	ntrees := 160
	if ctx.Tier == "thorough" {
		ntrees = 3000
	}
	nunit := 200
	if ctx.Tier == "thorough" {
		nunit = 4000
	}
	c16Unit(ctx, res, rng.Fork(), nunit)
	c16Fixers(ctx, res, rng.Fork())
	c16WholeRun(ctx, res, rng.Fork(), ntrees)
	c16Floors(res, ntrees)
	return res
}

// coverage floors: a generator that stops reaching the fix sites makes the check vacuous
func c16Floors(res *Result, ntrees int) {
	if len(res.Violations) > 0 {
		return // a missed floor next to a violation is explained by the violation
	}
	get := func(k string) int { n, _ := res.Distribution[k].(int); return n }
	if res.DistinctNontrivial < ntrees/2 {
		res.Broken = fmt.Sprintf("only %d of %d trees fired two or more fix kinds", res.DistinctNontrivial, ntrees)
	}
	multi := 0
	for k, v := range res.Distribution {
		if strings.HasPrefix(k, "whole.passes-needed=") && k != "whole.passes-needed=0" && k != "whole.passes-needed=1" {
			multi += v.(int)
		}
	}
	if multi < 3 {
		res.Broken = fmt.Sprintf("only %d trees needed more than one pass: interactions between fixes are not reached", multi)
	}
	for _, k := range []string{"Trailing whitespace.", "Expected _.", "The file should be sorted", "This variable value should be aligned to column _ instead of _."} {
		n := 0
		for d, v := range res.Distribution {
			if strings.HasPrefix(d, "whole.fixsite ") && strings.Contains(d, strings.TrimSuffix(k, ".")) {
				n += v.(int)
			}
		}
		_ = n
		_ = get
	}
	for _, k := range []string{"file Makefile", "file *.mk", "file PLIST", "file distinfo", "file DESCR", "file patch", "file category Makefile", "directory", "several targets"} {
		if n, _ := res.Distribution["whole.target "+k].(int); n < 5 && res.Broken == "" {
			res.Broken = fmt.Sprintf("command-line target kind %q reached only %d times", k, n)
		}
	}
	for _, k := range []string{"file Makefile", "file PLIST", "file distinfo"} {
		if n, _ := res.Distribution["whole.target-with-fix "+k].(int); n < 3 && res.Broken == "" {
			res.Broken = fmt.Sprintf("command-line target kind %q fired a fix only %d times", k, n)
		}
	}
	// the shapes the round-4 criteria need (generator features: independent of the implementation)
	manyGz, idAssign, foreign := 0, get("gen.c16.common-first-id+assignments"), get("gen.c16.common-foreign-users-1")+get("gen.c16.common-foreign-users-2")
	for n := 2; n <= 12; n++ {
		manyGz += get(fmt.Sprintf("gen.c16.plist-man-%d", n))
	}
	if res.Broken == "" && (manyGz < ntrees/4 || idAssign < ntrees/16 || foreign < ntrees/8) {
		res.Broken = fmt.Sprintf("generator: %d PLISTs with two or more compressed manual pages, %d Makefile.common with code in the first paragraph, %d included from another directory (of %d trees)", manyGz, idAssign, foreign, ntrees)
	}
	var kinds []string
	for d := range res.Distribution {
		if strings.HasPrefix(d, "whole.fixsite ") {
			kinds = append(kinds, d)
		}
	}
	sort.Strings(kinds)
	if len(kinds) < 45 && res.Broken == "" {
		res.Broken = fmt.Sprintf("only %d distinct fix sites fired", len(kinds))
	}
}

func replayC16(ctx *Ctx, rep map[string]any) *Result {
	res := &Result{Rule: "replay"}
	switch rep["kind"] {
	case "whole":
		c16ReplayWhole(ctx, res, rep)
	case "unit":
		c16ReplayUnit(ctx, res, rep)
	case "fixer":
		c16ReplayFixer(ctx, res, rep)
	}
	return res
}

func init() { register("C16", runC16, replayC16) }
