package main

// C05 (round 5): symbolic links as save targets / command-line arguments, and the stream
// (stdout or stderr) of the lines that report a failed save.
//
// Model side: Model/FsLinks.v (resolve, lstep, save_one_l, check_exec_l, lrun, plans PNone /
// PFail / PKill, l_unnamed_changed) -- theorems C05_links_unnamed_untouched,
// C05_symlink_target_untouched, ... ; Model/SaveLog.v (error_line) -- theorem
// C05_save_failure_reported_on_stderr.  Here the real binary is started from trees in which
// the package Makefile / distinfo is a symbolic link to a regular file inside or outside the
// tree, or in which links are given as further command-line arguments, through the whole
// programme of harness/c05.go (trace = model with results, final tree = model state, kill
// before every mutating call, every call failing, short write), with Model.FsLinks.lrun as
// the reference and the extracted l_unnamed_changed as an additional judge of every snapshot.

import (
	"fmt"
	"os"
	"os/exec"
	"path/filepath"
	"strings"
	"syscall"
	"time"
)

// quick: two link scenarios per variant, rotating with seed and variant; thorough: all.
var c05LinkSpecs = []string{"single-mk@Makefile:in", "single-mk@Makefile:out", "pkg4@Makefile:in", "pkg4@Makefile:out", "chmod@args", "single-mk@Makefile:in-x"}

// (a symlinked distinfo / PLIST / patch is not loaded at all -- "Invalid symlink name" --: of the
// files of a package only the Makefile, which is loaded by name, can be a link AND a save target)
func c05LinkScenarios(seed uint64, v int, thorough bool) []string {
	if thorough {
		return c05LinkSpecs
	}
	// quick, per run: one single-file Makefile link, the link arguments, one pkg4 with a linked Makefile
	a := []string{"single-mk@Makefile:in", "single-mk@Makefile:out", "single-mk@Makefile:in-x"}
	b := []string{"pkg4@Makefile:in", "pkg4@Makefile:out"}
	i := int(seed%12) + v
	if v%2 == 0 {
		return []string{a[i%len(a)]}
	}
	return []string{"chmod@args", b[(i/2)%len(b)]}
}

// c05PlantLinks turns a file of the base scenario into a symbolic link to a regular file with
// the same content elsewhere ("in": <root>/shared/..., "out": <root>/../outside/...), or adds
// links that are given as further arguments ("args").
func c05PlantLinks(s *c05Scenario, t *Tree, r *Rng, spec string) {
	file, where, _ := strings.Cut(spec, ":")
	if spec == "args" {
		// Pkglint.Check examines each argument with Lstat: a link to an executable file and a
		// link to the package directory are "No such file or directory", nothing is touched
		t.Write("cat/pkg/files/real.sh", "#!/bin/sh\n")
		os.Chmod(t.Path("cat/pkg/files/real.sh"), Pick(r, []os.FileMode{0o755, 0o775, 0o711}))
		os.Symlink("real.sh", t.Path("cat/pkg/files/link.sh"))
		os.Symlink("pkg", t.Path("cat/linked"))
		t.Write("tools/tool.sh", "#!/bin/sh\n")
		os.Chmod(t.Path("tools/tool.sh"), 0o755)
		os.Symlink("../../../tools/tool.sh", t.Path("cat/pkg/files/tool-link.sh"))
		if !contains(s.Args, "cat/pkg") {
			s.Args = append(s.Args, "cat/pkg")
		}
		s.Args = append(s.Args, "cat/pkg/files/link.sh", "cat/pkg/files/tool-link.sh", "cat/linked")
		s.LinkArgs = []string{"cat/pkg/files/link.sh", "cat/pkg/files/tool-link.sh", "cat/linked"}
		return
	}
	p := "cat/pkg/" + file
	data, err := os.ReadFile(t.Path(p))
	if err != nil {
		panic(err)
	}
	mode := Pick(r, []os.FileMode{0o644, 0o600, 0o444, 0o664, 0o640})
	name := Pick(r, []string{"Makefile.package", "common-" + file, file + ".shared"})
	var text string
	switch where {
	case "in":
		t.Write("shared/"+name, string(data))
		os.Chmod(t.Path("shared/"+name), mode)
		text = "../../shared/" + name
	case "in-x": // the target is executable: the new regular file inherits that mode (Stat follows)
		t.Write("shared/"+name, string(data))
		os.Chmod(t.Path("shared/"+name), 0o755)
		text = "../../shared/" + name
	case "out":
		out := filepath.Join(filepath.Dir(t.Root), "outside")
		os.RemoveAll(out)
		os.MkdirAll(out, 0o755)
		os.WriteFile(filepath.Join(out, name), data, 0o644)
		os.Chmod(filepath.Join(out, name), mode)
		text = "../../../outside/" + name
	}
	os.Remove(t.Path(p))
	if err := os.Symlink(text, t.Path(p)); err != nil {
		panic(err)
	}
	s.LinkFile = p
	if len(s.Args) > 0 && s.Args[len(s.Args)-1] == p {
		// a link given by itself is not checked at all: check the package
		s.Args[len(s.Args)-1] = "cat/pkg"
	}
}

func contains(xs []string, x string) bool {
	for _, y := range xs {
		if y == x {
			return true
		}
	}
	return false
}

// c05LinkKey: the entry name a link at path p with text `text` refers to (the model's f_data of
// a KSymlink entry): resolved against the link's directory, lexically (no directory of these
// trees is itself a link).
func c05LinkKey(p, text string) string {
	if filepath.IsAbs(text) {
		return text
	}
	return filepath.Clean(filepath.Join(filepath.Dir(p), text))
}

func c05CanonLinks(m map[string]c05File) map[string]c05File {
	out := map[string]c05File{}
	for p, f := range m {
		if f.Kind == "L" {
			f.Data = c05LinkKey(p, f.Data)
		}
		out[p] = f
	}
	return out
}

func c05LinkInitTokens(old map[string]c05File, umask int) string {
	return c05InitTokens(c05CanonLinks(old), umask)
}

// the program for Model.FsLinks.lrun: saves as observed; every observed mode fix AND every
// command-line argument that is a symbolic link is `X path` = Pkglint.Check -> checkExecutable
// with the mode Lstat reports (for a link: no system call at all).
func c05LinkProgTokens(s *c05Scenario, prog []c05Action) string {
	var ss []string
	for _, a := range s.LinkArgs {
		ss = append(ss, "X "+hx(a))
	}
	for _, a := range prog {
		if a.Kind == "M" {
			ss = append(ss, "X "+hx(a.Path))
		} else {
			ss = append(ss, fmt.Sprintf("%s %s %s", a.Kind, hx(a.Path), hx(a.Data)))
		}
	}
	return strings.Join(ss, " ")
}

func c05RenamedBefore(ops []c05Op, f string) bool {
	for _, o := range ops {
		if o.Kind == "r" && o.B == f && o.Res == "ok" {
			return true
		}
	}
	return false
}

// linkCheck: the extracted Model.FsLinks.l_unnamed_changed on a snapshot of a real run
// (complete, killed or faulty): every entry that the run does not name -- in particular the
// target of every symbolic link, content AND mode -- is exactly as before.
func (st *c05State) linkCheck(s *c05Scenario, prog []c05Action, cur map[string]c05File, phase string, rep map[string]any, size int, where string) bool {
	if !s.Links {
		return false
	}
	req := "lunnamed / " + c05LinkInitTokens(s.Old, st.umask) + " / " + c05LinkProgTokens(s, prog) + " / " + c05LinkInitTokens(cur, st.umask)
	a, err := c05Oracle1(st.ctx, req)
	if err != nil {
		st.broken(err.Error())
		return false
	}
	st.res.Count("link_spec_evaluations_"+phase, 1)
	st.mu.Lock()
	if len(st.lcross) < 400 {
		st.lcross = append(st.lcross, c05LCross{Init: c05CanonLinks(s.Old), Cur: c05CanonLinks(cur), Prog: prog, LinkArgs: s.LinkArgs})
	}
	st.mu.Unlock()
	if a == "ok" {
		return false
	}
	bad := unhx(strings.TrimPrefix(a, "bad "))
	o, was := s.Old[bad]
	n, is := cur[bad]
	what, desc := "modified", fmt.Sprintf("the %s is now a %s", c05EntryDesc(o), c05EntryDesc(n))
	if was && !is {
		what, desc = "removed", fmt.Sprintf("the %s has disappeared", c05EntryDesc(o))
	} else if !was {
		what, desc = "new-entry", fmt.Sprintf("a new %s appeared", c05EntryDesc(n))
	}
	target := ""
	for p, f := range s.Old {
		if f.Kind == "L" && c05LinkKey(p, f.Data) == bad {
			target = " (the target of the symbolic link " + p + ")"
		}
	}
	rep["file"] = bad
	st.res.AddViolation(Violation{Key: "C05/symlink-target/" + phase + "/" + what, FoundInput: true, Size: size, Replay: rep,
		What: fmt.Sprintf("scenario %s, %s: %s%s is not named by this run, but %s", s.Name, where, bad, target, desc)})
	return true
}

// ---------- which stream the report of a failed save goes to ----------

// the oracle knows Model.SaveLog.error_line
const c05HaveErrLine = true

var c05SaveErrTexts = []string{": Cannot write: ", ": Cannot overwrite with autofixed content: ", ": Cannot clear executable bits: "}

func c05SaveErrorLines(out string) []string {
	var ls []string
	for _, l := range strings.Split(out, "\n") {
		for _, t := range c05SaveErrTexts {
			if strings.Contains(l, t) {
				ls = append(ls, l)
				break
			}
		}
	}
	return ls
}

// an ERROR line of the save path (Logger.TechErrorf: "ERROR: <path>: <message>")
func c05HasSaveError(stderr string) bool {
	for _, l := range c05SaveErrorLines(stderr) {
		if strings.HasPrefix(l, "ERROR: ") {
			return true
		}
	}
	return false
}

// streamJudge: no line that reports a failed save may be on stdout (the property: "reported on
// stderr"; Model.SaveLog: TechErrorf writes to the error stream only).  true = violation.
func (st *c05State) streamJudge(s *c05Scenario, phase string, k int, errno, stdout, stderr, where string) bool {
	st.res.Count("stream_judged_"+phase, 1)
	if ls := c05SaveErrorLines(stdout); len(ls) > 0 {
		rep := st.replayMap(s, map[string]string{"complete-run": "plain", "fault": "fault", "short-write": "short"}[phase], k, errno)
		rep["stdout"], rep["stderr"] = c05Short(stdout), c05Short(stderr)
		st.res.AddViolation(Violation{Key: "C05/" + phase + "/error-line-on-stdout", FoundInput: true, Size: 10*k + 20, Replay: rep,
			What: fmt.Sprintf("scenario %s, %s: the failure is reported on stdout: %q", s.Name, where, ls[0])})
		return true
	}
	return false
}

// c05Streams: real I/O failures without strace (an entry at the temporary name: EEXIST;
// RLIMIT_FSIZE through prlimit(1): EFBIG) under every option set that could influence the
// Logger (--only selecting the first fix but not the last one leaves Logger.suppressDiag set
// when the save starts; -q; -g; -s; -e), stdout and stderr judged separately.
func (st *c05State) c05Streams(variant int, thorough bool) {
	ctx := st.ctx
	optsets := [][]string{{}, {"-q"}, {"-g"}, {"--only", "with tabs"}, {"--only", "with tabs", "-q"}, {"--only", "aligned"}, {"-s"}, {"-e"}, {"--only", "with tabs", "-g"}}
	faults := []string{"tmp-taken", "fsize"}
	type job struct {
		opts  []string
		fault string
	}
	var jobs []job
	for i, o := range optsets {
		for j, f := range faults {
			if !thorough && (i+j+variant+int(ctx.Seed))%2 != 0 && len(o) > 0 && o[0] != "--only" {
				continue
			}
			jobs = append(jobs, job{o, f})
		}
	}
	parallelFor(len(jobs), func(i int) {
		st.streamsJob(fmt.Sprintf("streams-%s-%d-%d", jobs[i].fault, variant, i), jobs[i].opts, jobs[i].fault)
	})
}

// one run of the stream scenarios (also the replay of its violations)
func (st *c05State) streamsJob(name string, opts []string, fault string) {
	ctx, res := st.ctx, st.res
	j := struct {
		opts  []string
		fault string
	}{opts, fault}
	{
		root := filepath.Join(ctx.Work, "c05", name, "pkgsrc")
		os.RemoveAll(filepath.Dir(root))
		defer os.RemoveAll(filepath.Dir(root))
		t := NewBaseTree(root)
		// line 9: "should be aligned with tabs, not spaces" (selected by --only "with tabs"),
		// line 10: "should be aligned to column 17" (not selected): the LAST Autofix.Apply before
		// the save belongs to a diagnostic that --only does not select
		mk, _ := os.ReadFile(t.Path("cat/pkg/Makefile"))
		mks := strings.Replace(string(mk), "COMMENT=\t", "COMMENT= ", 1)
		mks = strings.Replace(mks, "LICENSE=\t", "LICENSE=\t\t", 1)
		t.Write("cat/pkg/Makefile", mks)
		planted := "precious\n"
		if j.fault == "tmp-taken" {
			t.Write("cat/pkg/Makefile.pkglint.tmp.x", "") // (keeps the directory listing different per fault kind)
			os.Remove(t.Path("cat/pkg/Makefile.pkglint.tmp.x"))
		}
		args := append(append([]string{"-Wall", "-F"}, j.opts...), "cat/pkg/Makefile")
		// the same run without the fault: the reference for the exit status
		ref := RunPkglint(ctx, root, 30*time.Second, args...)
		t.Write("cat/pkg/Makefile", mks)
		if j.fault == "tmp-taken" {
			t.Write("cat/pkg/Makefile.pkglint.tmp", planted)
		}
		before := c05ReadTree(root)
		var cmd *exec.Cmd
		if j.fault == "fsize" {
			cmd = exec.Command("/usr/bin/prlimit", append([]string{"--fsize=64", ctx.Pkglint}, args...)...)
		} else {
			cmd = exec.Command(ctx.Pkglint, args...)
		}
		cmd.Dir = root
		cmd.Env = append(os.Environ(), "PKGSRCDIR=", "HOME="+root, "GOMAXPROCS=2", "GOMEMLIMIT=2GiB")
		var ob, eb strings.Builder
		cmd.Stdout, cmd.Stderr = &ob, &eb
		done := make(chan error, 1)
		if err := cmd.Start(); err != nil {
			st.broken("streams: " + err.Error())
			return
		}
		go func() { done <- cmd.Wait() }()
		select {
		case <-done:
		case <-time.After(60 * time.Second):
			cmd.Process.Kill()
			<-done
			res.Count("streams_run_timed_out", 1)
			return
		}
		exit := cmd.ProcessState.ExitCode()
		if ws, ok := cmd.ProcessState.Sys().(syscall.WaitStatus); ok && ws.Signaled() {
			exit = -1
		}
		stdout, stderr := ob.String(), eb.String()
		after := c05ReadTree(root)
		st.evals(1, 0)
		res.Count("streams_runs_"+j.fault, 1)
		argv := strings.Join(args, " ")
		rep := map[string]any{"scenario": "streams", "fault": j.fault, "argv": argv, "opts": j.opts, "makefile": hx(mks), "stdout": c05Short(stdout), "stderr": c05Short(stderr)}
		where := fmt.Sprintf("`pkglint %s` on a Makefile with two alignment fixes, %s", argv,
			map[string]string{"tmp-taken": "cat/pkg/Makefile.pkglint.tmp exists (the exclusive open fails with EEXIST)", "fsize": "RLIMIT_FSIZE=64 (the write fails with EFBIG)"}[j.fault])
		size := 1 + len(j.opts)
		if !strings.Contains(stdout, "AUTOFIX: cat/pkg/Makefile:") && !strings.Contains(stdout, "cat/pkg/Makefile:9: autofix: ") {
			rep["broken"] = "coverage floor of the stream scenarios: the run reaches SaveAutofixChanges with a changed Makefile"
			res.AddViolation(Violation{Key: "C05/coverage/streams", FoundInput: false, Size: size, Replay: rep,
				What: fmt.Sprintf("%s: no AUTOFIX line, the save was not attempted (stdout %q)", where, c05Short(stdout))})
			return
		}
		if d := c05DiffFiles(before, after); len(d) > 0 {
			res.AddViolation(Violation{Key: "C05/streams/" + j.fault + "/tree-changed", FoundInput: true, Size: size, Replay: rep,
				What: fmt.Sprintf("%s: the save failed, but the tree changed: %v", where, d)})
			return
		}
		want := "ERROR: cat/pkg/Makefile.pkglint.tmp: Cannot write: "
		if !strings.Contains(stderr, want) {
			res.AddViolation(Violation{Key: "C05/streams/" + j.fault + "/no-error-line-on-stderr", FoundInput: true, Size: size, Replay: rep,
				What: fmt.Sprintf("%s: stderr does not report the failure (stderr %q, stdout %q)", where, c05Short(stderr), c05Short(stdout))})
			return
		}
		if ls := c05SaveErrorLines(stdout); len(ls) > 0 {
			res.AddViolation(Violation{Key: "C05/streams/" + j.fault + "/error-line-on-stdout", FoundInput: true, Size: size, Replay: rep,
				What: fmt.Sprintf("%s: the failure is reported on stdout: %q", where, ls[0])})
			return
		}
		// Model.SaveLog.error_line: the exact bytes of the line
		for _, l := range c05SaveErrorLines(stderr) {
			if !c05HaveErrLine {
				break
			}
			i := strings.Index(l, ": Cannot write: ")
			if i < 0 || !strings.HasPrefix(l, "ERROR: ") {
				continue
			}
			a, err := c05Oracle1(ctx, fmt.Sprintf("errline write %s %s", hx(l[len("ERROR: "):i]), hx(l[i+len(": Cannot write: "):])))
			if err != nil {
				st.broken(err.Error())
				return
			}
			st.evals(1, 1)
			if unhx(a) != l+"\n" {
				rep["broken"] = "correspondence: stderr line = Model.SaveLog.error_line"
				res.AddViolation(Violation{Key: "C05/correspondence/error-line", FoundInput: false, Size: size, Replay: rep,
					What: fmt.Sprintf("%s: stderr line %q, the model's line %q", where, l, unhx(a))})
			}
			res.Count("streams_error_line_equals_model", 1)
			st.mu.Lock()
			if len(st.elines) < 6 {
				st.elines = append(st.elines, l)
			}
			st.mu.Unlock()
		}
		if exit != ref.Exit {
			rep["broken"] = "correspondence: a failed save does not change the exit status (Logger.TechErrorf is not counted)"
			res.AddViolation(Violation{Key: "C05/correspondence/streams-exit-status", FoundInput: false, Size: size, Replay: rep,
				What: fmt.Sprintf("%s: exit status %d, without the fault %d", where, exit, ref.Exit)})
			return
		}
		res.Count("streams_ok_"+j.fault, 1)
		if len(j.opts) > 0 && j.opts[0] == "--only" {
			res.Count("streams_ok_only", 1)
		}
	}
}

// ---------- extraction cross-check of the link-aware model ----------

type c05LCross struct {
	Init, Cur map[string]c05File // links canonical (data = entry name referred to)
	Prog      []c05Action
	LinkArgs  []string
}

// the entries that matter to a link scenario: cat/pkg/, the link targets (shared/, ../outside/, tools/), cat/linked
func c05LSub(m map[string]c05File) map[string]c05File {
	out := map[string]c05File{}
	for p, f := range m {
		if (strings.HasPrefix(p, "cat/pkg/") || strings.HasPrefix(p, "shared/") || strings.HasPrefix(p, "../outside/") || strings.HasPrefix(p, "tools/") || p == "cat/linked") && len(f.Data) <= 1500 {
			out[p] = f
		}
	}
	return out
}

func c05CoqLProg(linkArgs []string, prog []c05Action) string {
	var es []string
	for _, a := range linkArgs {
		es = append(es, "LCheckExec "+c09CoqStr(a))
	}
	for _, a := range prog {
		switch a.Kind {
		case "S":
			es = append(es, fmt.Sprintf("LSave %s %s", c09CoqStr(a.Path), c09CoqStr(a.Data)))
		case "M":
			es = append(es, "LCheckExec "+c09CoqStr(a.Path))
		case "T":
			es = append(es, fmt.Sprintf("LIfSaved true %s %s", c09CoqStr(a.Path), c09CoqStr(a.Data)))
		case "E":
			es = append(es, fmt.Sprintf("LIfSaved false %s %s", c09CoqStr(a.Path), c09CoqStr(a.Data)))
		}
	}
	return "[" + strings.Join(es, "; ") + "]"
}

// c05LinkCrossCheck: up to 24 of the judged link snapshots are re-evaluated by coqc with
// vm_compute: l_unnamed_changed, the final file system of lrun without a plan, under a
// crash point (PKill) and under a failing call (PFail); plus error_line on the lines seen.
func c05LinkCrossCheck(ctx *Ctx, res *Result, umask int, cases []c05LCross, lines []string) {
	if len(cases) > 24 {
		step := len(cases)/24 + 1
		var pick []c05LCross
		for i := 0; i < len(cases); i += step {
			pick = append(pick, cases[i])
		}
		cases = pick
	}
	if len(cases) == 0 && len(lines) == 0 {
		return
	}
	plans := []struct{ tok, coq string }{{"N", "PNone"}, {"K 2 3", "(PKill 2 3)"}, {"F 3 0 EIO", "(PFail 3 (mkfault 0 EIO))"}, {"K 7 0", "(PKill 7 0)"}}
	trim := func(prog []c05Action) []c05Action {
		var out []c05Action
		for _, a := range prog {
			if len(a.Data) > 40 {
				a.Data = a.Data[:40]
			}
			out = append(out, a)
		}
		return out
	}
	var reqs []string
	for i, c := range cases {
		sc := &c05Scenario{LinkArgs: c.LinkArgs}
		init := c05InitTokens(c05LSub(c.Init), umask)
		prog := c05LinkProgTokens(sc, trim(c.Prog))
		reqs = append(reqs, "lunnamed / "+init+" / "+prog+" / "+c05InitTokens(c05LSub(c.Cur), umask))
		reqs = append(reqs, "lfault / "+init+" / "+prog+" / "+plans[i%len(plans)].tok)
	}
	for _, l := range lines {
		i := strings.Index(l, ": Cannot write: ")
		reqs = append(reqs, fmt.Sprintf("errline write %s %s", hx(l[len("ERROR: "):i]), hx(l[i+len(": Cannot write: "):])))
	}
	ans, err := runOracle(ctx, "c05", reqs)
	if err != nil {
		res.Broken = err.Error()
		return
	}
	var sb strings.Builder
	sb.WriteString("From PV Require Import Lib.Bytes Model.FsProto Model.FsLinks Model.SaveLog.\nOpen Scope N_scope.\n")
	entryEq := "(fun fs pe => match lookup (fst pe) fs with Some f => match f_kind f, f_kind (snd pe) with KReg, KReg | KDir, KDir | KSymlink, KSymlink => true | _, _ => false end && str_eqb (f_data f) (f_data (snd pe)) && (f_mode f =? f_mode (snd pe)) | None => false end)"
	for i, c := range cases {
		want := "None"
		if a := ans[2*i]; strings.HasPrefix(a, "bad ") {
			want = "Some " + c09CoqStr(unhx(strings.TrimPrefix(a, "bad ")))
		} else if a != "ok" {
			res.Broken = "oracle answer " + q(a)
			return
		}
		fmt.Fprintf(&sb, "Definition linit_%d : fsmap := %s.\nDefinition lcur_%d : fsmap := %s.\nDefinition lprog_%d : list laction := %s.\n",
			i, c05CoqFs(c05LSub(c.Init)), i, c05CoqFs(c05LSub(c.Cur)), i, c05CoqLProg(c.LinkArgs, trim(c.Prog)))
		fmt.Fprintf(&sb, "Example lunnamed_%d : l_unnamed_changed linit_%d lprog_%d lcur_%d = %s.\nProof. vm_compute. reflexivity. Qed.\n", i, i, i, i, want)
		parts := strings.Split(ans[2*i+1], " / ")
		fin, ok := c05ParseListing(parts[len(parts)-1])
		if !ok {
			res.Broken = "oracle answer " + q(ans[2*i+1])
			return
		}
		fmt.Fprintf(&sb, "Example lrun_%d : let fs := st_fs (lw_st (lrun lprog_%d (init_lworld (mkstate linit_%d [] %d) %s))) in\n  forallb (%s fs) %s && Nat.eqb (length fs) %d = true.\nProof. vm_compute. reflexivity. Qed.\n",
			i, i, i, umask, plans[i%len(plans)].coq, entryEq, c05CoqFs(fin), len(fin))
	}
	for j, l := range lines {
		i := strings.Index(l, ": Cannot write: ")
		fmt.Fprintf(&sb, "Example errline_%d : error_line (CannotWrite, %s) %s = %s.\nProof. vm_compute. reflexivity. Qed.\n",
			j, c09CoqStr(l[len("ERROR: "):i]), c09CoqStr(l[i+len(": Cannot write: "):]), c09CoqStr(unhx(ans[2*len(cases)+j])))
	}
	file := filepath.Join(ctx.Work, "c05linkcases.v")
	if err := os.WriteFile(file, []byte(sb.String()), 0o644); err != nil {
		res.Broken = err.Error()
		return
	}
	cmd := exec.Command("timeout", "600", "coqc", "-Q", filepath.Join(ctx.Verif, "coq"), "PV", file)
	cmd.Dir = ctx.Work
	out, err := cmd.CombinedOutput()
	if err != nil {
		msg := string(out)
		if len(msg) > 600 {
			msg = msg[:600]
		}
		res.AddViolation(Violation{Key: "C05/extraction-vs-vm_compute/links",
			What:       "the extracted oracle and coqc's vm_compute disagree on l_unnamed_changed / lrun / error_line (or coqc failed): " + msg,
			FoundInput: false, Replay: map[string]any{"broken": "extraction cross-check (link-aware model)", "detail": msg}})
		return
	}
	res.Count("vm_compute_cross_checked_links", 2*len(cases)+len(lines))
}
