package main

// Shared by C03 and C02: reading a tree with contents, parsing the printed
// AUTOFIX lines into actions, resolving the printed paths, building trees from
// a replay file.

import (
	"fmt"
	"io/fs"
	"os"
	"path/filepath"
	"regexp"
	"sort"
	"strconv"
	"strings"
)

type fileState struct {
	Kind string // f d l o
	Mode fs.FileMode
	Data string
	Link string
}

// readTree returns every entry below root (relative path -> state), with file contents.
func readTree(root string) map[string]fileState {
	m := map[string]fileState{}
	filepath.Walk(root, func(p string, info fs.FileInfo, err error) error {
		rel, _ := filepath.Rel(root, p)
		if err != nil {
			m[rel] = fileState{Kind: "err"}
			return nil
		}
		st := fileState{Mode: info.Mode().Perm()}
		switch {
		case info.Mode().IsRegular():
			st.Kind = "f"
			b, err := os.ReadFile(p)
			if err != nil {
				st.Kind = "unreadable"
			}
			st.Data = string(b)
		case info.IsDir():
			st.Kind = "d"
		case info.Mode()&fs.ModeSymlink != 0:
			st.Kind = "l"
			st.Link, _ = os.Readlink(p)
		default:
			st.Kind = "o"
		}
		m[rel] = st
		return nil
	})
	return m
}

// writeTree materialises a tree read by readTree (or decoded from a replay).
func writeTree(root string, m map[string]fileState) error {
	paths := sortedKeys(m)
	for _, rel := range paths {
		st := m[rel]
		p := filepath.Join(root, rel)
		switch st.Kind {
		case "d":
			if err := os.MkdirAll(p, 0o755); err != nil {
				return err
			}
		case "f":
			if err := os.MkdirAll(filepath.Dir(p), 0o755); err != nil {
				return err
			}
			if err := os.WriteFile(p, []byte(st.Data), 0o644); err != nil {
				return err
			}
		case "l":
			os.MkdirAll(filepath.Dir(p), 0o755)
			if err := os.Symlink(st.Link, p); err != nil {
				return err
			}
		}
	}
	// modes last (a read-only directory must not block the creation of its entries)
	for i := len(paths) - 1; i >= 0; i-- {
		st := m[paths[i]]
		if st.Kind == "f" || st.Kind == "d" {
			os.Chmod(filepath.Join(root, paths[i]), st.Mode)
		}
	}
	return nil
}

func encodeTree(m map[string]fileState) map[string]any {
	out := map[string]any{}
	for rel, st := range m {
		switch st.Kind {
		case "f":
			out[rel] = fmt.Sprintf("f %o %s", st.Mode, hx(st.Data))
		case "d":
			out[rel] = fmt.Sprintf("d %o -", st.Mode)
		case "l":
			out[rel] = fmt.Sprintf("l 0 %s", hx(st.Link))
		}
	}
	return out
}

func decodeTree(x any) map[string]fileState {
	m := map[string]fileState{}
	mm, _ := x.(map[string]any)
	for rel, v := range mm {
		s, _ := v.(string)
		var kind, data string
		var mode uint32
		if n, _ := fmt.Sscanf(s, "%s %o %s", &kind, &mode, &data); n != 3 {
			continue
		}
		st := fileState{Kind: kind, Mode: fs.FileMode(mode)}
		if kind == "f" {
			st.Data = unhx(data)
		}
		if kind == "l" {
			st.Link = unhx(data)
		}
		m[rel] = st
	}
	return m
}

// ---------- the printed AUTOFIX actions ----------

type logEntry struct {
	Line int
	Kind byte // R A B D S C
	A, B string
}

func (e logEntry) enc() string {
	switch e.Kind {
	case 'R':
		return fmt.Sprintf("%d:R:%s:%s", e.Line, hx(e.A), hx(e.B))
	case 'A', 'B':
		return fmt.Sprintf("%d:%c:%s", e.Line, e.Kind, hx(e.A))
	}
	return fmt.Sprintf("%d:%c", e.Line, e.Kind)
}

func (e logEntry) String() string {
	switch e.Kind {
	case 'R':
		return fmt.Sprintf("%d: Replacing %q with %q.", e.Line, e.A, e.B)
	case 'A':
		return fmt.Sprintf("%d: Inserting a line %q above this line.", e.Line, e.A)
	case 'B':
		return fmt.Sprintf("%d: Inserting a line %q below this line.", e.Line, e.A)
	case 'D':
		return fmt.Sprintf("%d: Deleting this line.", e.Line)
	case 'S':
		return fmt.Sprintf("%d: Sorting the whole file.", e.Line)
	}
	return fmt.Sprintf("%d: Clearing executable bits", e.Line)
}

func decodeEntry(s string) (logEntry, bool) {
	f := strings.Split(s, ":")
	if len(f) < 2 || len(f[1]) != 1 {
		return logEntry{}, false
	}
	n, err := strconv.Atoi(f[0])
	if err != nil {
		return logEntry{}, false
	}
	e := logEntry{Line: n, Kind: f[1][0]}
	if len(f) > 2 {
		e.A = unhx(f[2])
	}
	if len(f) > 3 {
		e.B = unhx(f[3])
	}
	return e, true
}

var reOutEscape = regexp.MustCompile(`<U\+([0-9A-F]{4,6})>`)

// unescapeOutput undoes pkglint's escapePrintable for code points (the bytes
// inside %q are already ASCII except for printable non-ASCII runes).
func unescapeOutput(s string) string {
	return reOutEscape.ReplaceAllStringFunc(s, func(m string) string {
		v, err := strconv.ParseUint(m[3:len(m)-1], 16, 32)
		if err != nil || v > 0x10FFFF {
			return m
		}
		return string(rune(v))
	})
}

// parseAutofixMsg parses the message part of a printed AUTOFIX line.
func parseAutofixMsg(msg string) (logEntry, bool) {
	quoted := func(s string) (string, string, bool) {
		qp, err := strconv.QuotedPrefix(s)
		if err != nil {
			return "", "", false
		}
		u, err := strconv.Unquote(qp)
		if err != nil {
			return "", "", false
		}
		return u, s[len(qp):], true
	}
	switch {
	case msg == "Deleting this line.":
		return logEntry{Kind: 'D'}, true
	case msg == "Sorting the whole file.":
		return logEntry{Kind: 'S'}, true
	case msg == "Clearing executable bits":
		return logEntry{Kind: 'C'}, true
	case strings.HasPrefix(msg, "Replacing "):
		from, rest, ok := quoted(msg[len("Replacing "):])
		if !ok || !strings.HasPrefix(rest, " with ") {
			return logEntry{}, false
		}
		to, rest, ok := quoted(rest[len(" with "):])
		if !ok || rest != "." {
			return logEntry{}, false
		}
		return logEntry{Kind: 'R', A: from, B: to}, true
	case strings.HasPrefix(msg, "Inserting a line "):
		t, rest, ok := quoted(msg[len("Inserting a line "):])
		if !ok {
			return logEntry{}, false
		}
		switch rest {
		case " above this line.":
			return logEntry{Kind: 'A', A: t}, true
		case " below this line.":
			return logEntry{Kind: 'B', A: t}, true
		}
	}
	return logEntry{}, false
}

type fileLog struct {
	Entries []logEntry // parsed after undoing the <U+XXXX> output escapes
	Alt     []logEntry // parsed from the text as printed, when that differs (a file that contains "<U+...>" literally)
	Raw     []string
}

// resolvePrinted turns a path printed by a run with working directory cwd into a path relative to root.
func resolvePrinted(root, cwd, printed string) string {
	p := printed
	if !filepath.IsAbs(p) {
		p = filepath.Join(cwd, p)
	}
	rel, err := filepath.Rel(root, filepath.Clean(p))
	if err != nil {
		return "<outside>/" + printed
	}
	return rel
}

// groupAutofix collects the AUTOFIX lines of a run per file (path relative to root), in output order.
func groupAutofix(stdout, root, cwd string) (map[string]*fileLog, []string) {
	logs := map[string]*fileLog{}
	var unparsed []string
	for _, d := range ParseDiags(stdout) {
		if d.Level != "AUTOFIX" {
			continue
		}
		rel := resolvePrinted(root, cwd, d.Path)
		fl := logs[rel]
		if fl == nil {
			fl = &fileLog{}
			logs[rel] = fl
		}
		e1, ok1 := parseAutofixMsg(unescapeOutput(d.Msg))
		e2, ok2 := parseAutofixMsg(d.Msg)
		if !ok1 && !ok2 {
			unparsed = append(unparsed, d.Raw)
			continue
		}
		if !ok1 {
			e1 = e2
		}
		if !ok2 {
			e2 = e1
		}
		e1.Line, e2.Line = d.Line1, d.Line1
		fl.Entries = append(fl.Entries, e1)
		fl.Alt = append(fl.Alt, e2)
		fl.Raw = append(fl.Raw, d.Raw)
	}
	for _, fl := range logs {
		same := true
		for i := range fl.Entries {
			if fl.Entries[i] != fl.Alt[i] {
				same = false
			}
		}
		if same {
			fl.Alt = nil
		}
	}
	return logs, unparsed
}

func consRequest(reloads int, old string, entries []logEntry, new string) string {
	var sb strings.Builder
	fmt.Fprintf(&sb, "cons %d %s %s", reloads, hx(old), hx(new))
	for _, e := range entries {
		sb.WriteByte(' ')
		sb.WriteString(e.enc())
	}
	return sb.String()
}

func kindsOf(entries []logEntry) string {
	set := map[byte]bool{}
	for _, e := range entries {
		set[e.Kind] = true
	}
	var ks []string
	for k := range set {
		ks = append(ks, string(k))
	}
	sort.Strings(ks)
	return strings.Join(ks, "")
}

// fileClass abstracts a file name for violation keys and distributions.
func fileClass(rel string) string {
	b := filepath.Base(rel)
	switch {
	case b == "Makefile", strings.HasPrefix(b, "Makefile."):
		return "Makefile"
	case strings.HasPrefix(b, "PLIST"):
		return "PLIST"
	case b == "distinfo", b == "DESCR", b == "ALTERNATIVES", b == "buildlink3.mk", b == "options.mk":
		return b
	case strings.HasPrefix(b, "patch-"):
		return "patch"
	case strings.HasSuffix(b, ".mk"):
		return "mk"
	}
	return "other"
}
