package main

// C03: the AUTOFIX log exactly accounts for what --autofix did to each file.
//
//  U  unit correspondence: random fix scripts through the real
//     Line.Autofix()/Apply/SaveAutofixChanges (shim VerifAutofixScript) vs. the
//     extracted model (Model/Autofix.v), and the extracted spec `consistent`
//     evaluated on what the real code logged and wrote    -> c03_unit.go
//  W  whole runs: pkglint -F on generated trees; for every file that changed
//     or was named in an AUTOFIX line, the extracted `consistent` must hold of
//     (old bytes, parsed AUTOFIX lines of that file, new bytes).  This is the
//     property itself: a failure is a found input.

import (
	"bytes"
	"context"
	"crypto/sha512"
	"fmt"
	"os"
	"os/exec"
	"path/filepath"
	"regexp"
	"sort"
	"strings"
	"sync/atomic"
	"time"
)

var reHexRun = regexp.MustCompile(`[0-9a-f]{16,}|patch-[a-z]+`)

type wrConfig struct {
	Cwd  string   // relative to the root
	Args []string // complete argument list
}

func (c wrConfig) String() string { return "cwd=" + c.Cwd + " pkglint " + strings.Join(c.Args, " ") }

type c03Problem struct {
	Key     string
	What    string
	File    string
	Entries []logEntry
	Old     string
	New     string
}

type c03Eval struct {
	Problems        []c03Problem
	Logs            map[string]*fileLog
	Changed         []string
	Abnormal        string
	FilesChecked    int
	Reloads         map[string]int // file -> number of save-and-load-again points needed
	Undecided       []string       // not consistent in one piece, and too many states to try reload points
	UndecidedBudget []string       // the search with reload points ran out of its time budget
	UndecidedSort   []string       // not consistent in one piece, and the log goes on after a sort
	ModeOnly        []string
}

const c03MaxReloads = 2

// budgets: one oracle call of the reload search may take c03FileBudget; all of them
// together c03SearchBudget per check run (quick), after which files stay undecided
const c03FileBudget = 6 * time.Second

var c03SearchSpent int64 // nanoseconds, all workers

func c03SearchBudget(ctx *Ctx) time.Duration {
	if ctx.Tier == "thorough" {
		return 10 * time.Minute
	}
	return 40 * time.Second
}

// oracleTimed runs the requests through the c03 oracle with a wall-clock limit.
func oracleTimed(ctx *Ctx, reqs []string, limit time.Duration) (ans []string, timedOut bool, err error) {
	c, cancel := context.WithTimeout(context.Background(), limit)
	defer cancel()
	cmd := exec.CommandContext(c, filepath.Join(ctx.Oracle, "c03"))
	cmd.Stdin = strings.NewReader(strings.Join(reqs, "\n") + "\n")
	var ob bytes.Buffer
	cmd.Stdout = &ob
	t0 := time.Now()
	runErr := cmd.Run()
	if limit == c03FileBudget { // the search budget is for the reload search, not for the one-piece batches
		atomic.AddInt64(&c03SearchSpent, int64(time.Since(t0)))
	}
	if c.Err() == context.DeadlineExceeded {
		return nil, true, nil
	}
	if runErr != nil {
		return nil, false, fmt.Errorf("oracle c03: %v", runErr)
	}
	ans = strings.Split(strings.TrimRight(ob.String(), "\n"), "\n")
	if len(ans) != len(reqs) {
		return nil, false, fmt.Errorf("oracle c03: %d answers for %d requests", len(ans), len(reqs))
	}
	return ans, false, nil
}

// c03Evaluate applies the extracted specification to one observed run.
func c03Evaluate(ctx *Ctx, root string, cfg wrConfig, before, after map[string]fileState, r RunResult) (*c03Eval, error) {
	ev := &c03Eval{Reloads: map[string]int{}}
	if r.TimedOut || (r.Exit != 0 && r.Exit != 1) || strings.Contains(r.Stderr, "FATAL:") {
		ev.Abnormal = fmt.Sprintf("exit=%d signal=%s timeout=%v", r.Exit, r.Signal, r.TimedOut)
		return ev, nil // crashes are C01's business; the log of an aborted run is not complete
	}
	logs, unparsed := groupAutofix(r.Stdout, root, filepath.Join(root, cfg.Cwd))
	ev.Logs = logs
	for _, u := range unparsed {
		ev.Problems = append(ev.Problems, c03Problem{Key: "C03/unparseable-autofix-line", What: "AUTOFIX line with an unknown action: " + q(u)})
	}
	names := map[string]bool{}
	for rel, a := range after {
		b, ok := before[rel]
		if a.Kind != "f" || !ok || b.Kind != "f" {
			continue
		}
		if a.Data != b.Data {
			names[rel] = true
			ev.Changed = append(ev.Changed, rel)
		} else if a.Mode != b.Mode {
			ev.ModeOnly = append(ev.ModeOnly, rel)
		}
	}
	sort.Strings(ev.Changed)
	// mode changes are changes that need an AUTOFIX line: only "Clearing executable bits",
	// logged for that file, accounts for a different mode, and only for old &^ 0111
	for _, rel := range sortedKeys(after) {
		a, b := after[rel], before[rel]
		if a.Kind != "f" || b.Kind != "f" || a.Mode == b.Mode {
			continue
		}
		chmodLogged := false
		if fl := logs[rel]; fl != nil {
			for _, e := range fl.Entries {
				if e.Kind == 'C' {
					chmodLogged = true
				}
			}
		}
		if !chmodLogged || a.Mode != b.Mode&^0o111 {
			ev.Problems = append(ev.Problems, c03Problem{Key: "C03/unlogged-mode-change/" + fileClass(rel),
				What: fmt.Sprintf("the mode of %s changed from %o to %o but no AUTOFIX line \"Clearing executable bits\" accounts for it", rel, b.Mode, a.Mode), File: rel, Old: b.Data, New: a.Data})
		}
	}
	for rel := range logs {
		names[rel] = true
	}
	var reqs []string
	type pending struct {
		rel     string
		entries []logEntry
	}
	var pend []pending
	for _, rel := range sortedKeys(names) {
		b, okb := before[rel]
		a, oka := after[rel]
		fl := logs[rel]
		if !okb || !oka || b.Kind != "f" || a.Kind != "f" {
			ev.Problems = append(ev.Problems, c03Problem{Key: "C03/autofix-line-for-missing-file", What: "AUTOFIX line names " + rel + ", which is not a regular file before and after the run", File: rel})
			continue
		}
		if fl == nil {
			ev.Problems = append(ev.Problems, c03Problem{Key: "C03/unlogged-change/" + fileClass(rel),
				What: fmt.Sprintf("%s changed on disk but no AUTOFIX line was printed for it", rel), File: rel, Old: b.Data, New: a.Data})
			continue
		}
		ev.FilesChecked++
		for _, e := range fl.Entries {
			if e.Kind == 'C' && a.Mode&0o111 != 0 {
				ev.Problems = append(ev.Problems, c03Problem{Key: "C03/chmod-logged-not-done", What: fmt.Sprintf("%s: \"Clearing executable bits\" was logged but the mode is still %o", rel, a.Mode), File: rel, Entries: fl.Entries})
			}
		}
		reqs = append(reqs, consRequest(0, b.Data, fl.Entries, a.Data))
		pend = append(pend, pending{rel, fl.Entries})
		if fl.Alt != nil {
			reqs = append(reqs, consRequest(0, b.Data, fl.Alt, a.Data))
			pend = append(pend, pending{rel, fl.Alt})
		}
	}
	if len(reqs) == 0 {
		return ev, nil
	}
	ans, late, err := oracleTimed(ctx, reqs, 30*time.Second)
	if err != nil {
		return ev, err
	}
	if late { // never seen; the line-by-line check is linear except for many empty-"from" entries on one line
		for _, p := range pend {
			ev.UndecidedBudget = append(ev.UndecidedBudget, p.rel)
		}
		return ev, nil
	}
	ok := map[string]bool{}
	for i, p := range pend {
		if ans[i] == "1" {
			ok[p.rel] = true
		} else if ans[i] != "0" {
			os.WriteFile(filepath.Join(os.TempDir(), "c03-oracle-exc.txt"), []byte(reqs[i]+"\n"), 0o644)
			return ev, fmt.Errorf("oracle answered %q for %s (%d entries, %d bytes; %s)", ans[i], p.rel, len(p.entries), len(before[p.rel].Data), cfg.String())
		}
	}
	for i, p := range pend {
		if ok[p.rel] || (i+1 < len(pend) && pend[i+1].rel == p.rel) {
			continue
		}
		// not consistent in one piece: was the file saved and loaded again in between?
		b, a := before[p.rel], after[p.rel]
		solved := false
		// the search with reload points enumerates whole-file states: estimate their number
		// (product over the replacements of the largest number of occurrences in any line)
		// and leave the file undecided when that is out of reach
		est := 1.0
		allLines := append(strings.SplitAfter(b.Data, "\n"), strings.SplitAfter(a.Data, "\n")...)
		for _, e := range p.entries {
			if e.Kind != 'R' {
				continue
			}
			occ := 1
			for _, l := range allLines {
				n := strings.Count(l, e.A)
				if e.A == "" {
					n = len(l) + 1
				}
				if n > occ {
					occ = n
				}
			}
			est *= float64(occ)
		}
		if est > 3e5 || len(p.entries) > 40 {
			ev.Undecided = append(ev.Undecided, p.rel)
			continue
		}
		// a file that was sorted, saved and then examined again: the intermediate file is some
		// permutation, which the search with reload points does not enumerate
		sortThenMore := false
		for i, e := range p.entries {
			if e.Kind == 'S' && i+1 < len(p.entries) {
				sortThenMore = true
			}
		}
		if sortThenMore {
			ev.UndecidedSort = append(ev.UndecidedSort, p.rel)
			continue
		}
		outOfBudget := false
		for rl := 1; rl <= c03MaxReloads && !solved && !outOfBudget; rl++ {
			if time.Duration(atomic.LoadInt64(&c03SearchSpent)) > c03SearchBudget(ctx) {
				outOfBudget = true
				break
			}
			ans2, late, err := oracleTimed(ctx, []string{consRequest(rl, b.Data, logs[p.rel].Entries, a.Data)}, c03FileBudget)
			if err != nil {
				return ev, err
			}
			if late {
				outOfBudget = true
			} else if ans2[0] == "1" {
				solved = true
				ev.Reloads[p.rel] = rl
			}
		}
		if solved {
			continue
		}
		if outOfBudget {
			ev.UndecidedBudget = append(ev.UndecidedBudget, p.rel)
			continue
		}
		key := "C03/log-mismatch/" + fileClass(p.rel)
		what := "the new content is not the old content with the printed AUTOFIX actions applied"
		content := false
		for _, e := range p.entries {
			if e.Kind != 'C' {
				content = true
			}
		}
		if content && a.Data == b.Data {
			key = "C03/logged-not-written/" + fileClass(p.rel)
			what = "AUTOFIX actions were printed but the file was not changed on disk"
		}
		ev.Problems = append(ev.Problems, c03Problem{Key: key,
			What: fmt.Sprintf("%s: %s (%d actions)", p.rel, what, len(p.entries)),
			File: p.rel, Entries: logs[p.rel].Entries, Old: b.Data, New: a.Data})
	}
	return ev, nil
}

// c03RunOnce materialises the tree in a fresh directory, runs the binary, evaluates.
func c03RunOnce(ctx *Ctx, dir string, tree map[string]fileState, cfg wrConfig) (*c03Eval, RunResult, error) {
	os.RemoveAll(dir)
	if err := writeTree(dir, tree); err != nil {
		return nil, RunResult{}, err
	}
	before := readTree(dir)
	r := RunPkglint(ctx, filepath.Join(dir, cfg.Cwd), 30*time.Second, cfg.Args...)
	after := readTree(dir)
	ev, err := c03Evaluate(ctx, dir, cfg, before, after, r)
	return ev, r, err
}

func hasProblem(ev *c03Eval, key string) *c03Problem {
	if ev == nil {
		return nil
	}
	for i := range ev.Problems {
		if ev.Problems[i].Key == key {
			return &ev.Problems[i]
		}
	}
	return nil
}

// c03Shrink drops directories, files and lines while the problem with the given key persists.
func c03Shrink(ctx *Ctx, dir string, tree map[string]fileState, cfg wrConfig, key string, budget int) map[string]fileState {
	ev, _, err := c03RunOnce(ctx, dir, tree, cfg)
	if err != nil || hasProblem(ev, key) == nil {
		return tree
	}
	return shrinkTree(tree, cfg.Cwd, hasProblem(ev, key).File, budget, func(cand map[string]fileState) bool {
		ev, _, err := c03RunOnce(ctx, dir, cand, cfg)
		return err == nil && hasProblem(ev, key) != nil
	})
}

// shrinkTree drops directories and files outside the infrastructure, then lines of
// the offending file (last to first), while fails(candidate) stays true.
func shrinkTree(tree map[string]fileState, cwd, file string, budget int, fails func(map[string]fileState) bool) map[string]fileState {
	cur := tree
	try := func(cand map[string]fileState) bool {
		if budget <= 0 {
			return false
		}
		budget--
		return fails(cand)
	}
	without := func(m map[string]fileState, prefix string) map[string]fileState {
		out := map[string]fileState{}
		for k, v := range m {
			if k == prefix || strings.HasPrefix(k, prefix+"/") {
				continue
			}
			out[k] = v
		}
		return out
	}
	for _, rel := range sortedKeys(cur) {
		if _, still := cur[rel]; !still || rel == "." || rel == file || strings.HasPrefix(file, rel+"/") {
			continue
		}
		if strings.HasPrefix(rel, "mk") || strings.HasPrefix(rel, "doc") || strings.HasPrefix(rel, "licenses") {
			continue
		}
		if strings.HasPrefix(filepath.Clean(cwd)+"/", rel+"/") {
			continue
		}
		cand := without(cur, rel)
		if len(cand) < len(cur) && try(cand) {
			cur = cand
		}
	}
	if st, ok := cur[file]; ok && st.Kind == "f" {
		ls := strings.SplitAfter(st.Data, "\n")
		for i := len(ls) - 1; i >= 0 && budget > 0; i-- {
			if ls[i] == "" {
				continue
			}
			nl := append(append([]string{}, ls[:i]...), ls[i+1:]...)
			cand := map[string]fileState{}
			for k, v := range cur {
				cand[k] = v
			}
			st2 := st
			st2.Data = strings.Join(nl, "")
			cand[file] = st2
			if try(cand) {
				cur, ls, st = cand, nl, st2
			}
		}
	}
	return cur
}

func c03Report(ctx *Ctx, res *Result, tree map[string]fileState, cfg wrConfig, p c03Problem, shrinkBudget int) {
	small := tree
	if shrinkBudget > 0 {
		small = c03Shrink(ctx, filepath.Join(ctx.Work, "shrink"), tree, cfg, p.Key, shrinkBudget)
	}
	ev, r, err := c03RunOnce(ctx, filepath.Join(ctx.Work, "confirm"), small, cfg)
	pp := hasProblem(ev, p.Key)
	if err != nil || pp == nil { // not reproducible on the shrunk tree: fall back to the original
		small = tree
		ev, r, err = c03RunOnce(ctx, filepath.Join(ctx.Work, "confirm"), small, cfg)
		pp = hasProblem(ev, p.Key)
	}
	if err != nil || pp == nil {
		res.AddViolation(Violation{Key: p.Key + "/not-reproducible", What: p.What + " (seen once, not reproduced on a second run)", FoundInput: false,
			Replay: map[string]any{"broken": "whole-run observation not reproducible", "config": cfg.String()}})
		return
	}
	var es []string
	for _, e := range pp.Entries {
		es = append(es, e.String())
	}
	size := 0
	for _, st := range small {
		size += 1 + len(st.Data)
	}
	res.AddViolation(Violation{Key: p.Key, What: pp.What + "; " + cfg.String(), FoundInput: true, Size: size,
		Replay: map[string]any{"kind": "tree", "tree": encodeTree(small), "cwd": cfg.Cwd, "args": cfg.Args, "file": pp.File,
			"log": es, "old": pp.Old, "new": pp.New, "stdout": firstLines(r.Stdout, 60)}})
}

// onlyPatternsByKind derives --only arguments from the diagnostics a -f run printed
// directly before AUTOFIX lines (so that the filtered run still has fixes), grouped by
// diagnostic kind, so that a rare kind (a patch fix with its silent follow-up in distinfo)
// is drawn as often as the ubiquitous alignment notes.
func onlyPatternsByKind(stdout string) map[string][]string {
	pats := map[string][]string{}
	ds := ParseDiags(stdout)
	for i, d := range ds {
		if d.Level == "AUTOFIX" || i+1 >= len(ds) || ds[i+1].Level != "AUTOFIX" {
			continue
		}
		kind := MsgKind(reHexRun.ReplaceAllString(d.Msg, "_"))
		if strings.Contains(d.Path, "patches/") || strings.Contains(d.Path, "Makefile.common") {
			pats["@followup "+kind] = []string{"x"}
		}
		for _, seg := range strings.Split(MsgKind(d.Msg), "_") {
			ws := strings.Fields(seg)
			for k := 0; k+1 < len(ws); k++ {
				if len(ws[k])+len(ws[k+1]) >= 8 {
					pats[kind] = append(pats[kind], ws[k]+" "+ws[k+1])
				}
			}
		}
	}
	return pats
}

// pickOnly draws a diagnostic kind, then one of its patterns. Kinds are equally likely,
// except that kinds that fire on a patch or on a Makefile.common count six times: fixing
// those files has a silent follow-up fix elsewhere (distinfo hash, "used by" paragraph).
func pickOnly(r *Rng, byKind map[string][]string) (string, bool) {
	var ks []string
	for _, k := range sortedKeys(byKind) {
		if strings.HasPrefix(k, "@") {
			continue
		}
		w := 1
		if len(byKind["@followup "+k]) > 0 {
			w = 6
		}
		for i := 0; i < w; i++ {
			ks = append(ks, k)
		}
	}
	if len(ks) == 0 {
		return "", false
	}
	return Pick(r, byKind[Pick(r, ks)]), true
}

func onlyPatterns(stdout string) []string {
	var all []string
	byKind := onlyPatternsByKind(stdout)
	for _, k := range sortedKeys(byKind) {
		if !strings.HasPrefix(k, "@") {
			all = append(all, byKind[k]...)
		}
	}
	return all
}

func c03PickConfig(rng *Rng, g *GenTree, fout string) wrConfig {
	extra := []string{}
	if rng.Chance(60) {
		extra = append(extra, "-Wall")
	}
	if rng.Chance(20) {
		extra = append(extra, "-Call")
	}
	switch rng.Intn(6) {
	case 0:
		extra = append(extra, "-s")
	case 1:
		extra = append(extra, "-f")
	case 2:
		extra = append(extra, "-g")
	case 3:
		extra = append(extra, "-f", "-s")
	}
	if rng.Chance(40) {
		byKind := onlyPatternsByKind(fout)
		if p, ok := pickOnly(rng, byKind); ok {
			extra = append(extra, "--only", p)
			if rng.Chance(30) {
				q, _ := pickOnly(rng, byKind)
				extra = append(extra, "--only", q)
			}
		}
	}
	return pickTargets(rng, g, append([]string{"-F"}, extra...))
}

func runC03(ctx *Ctx) *Result {
	res := &Result{Rule: "U: one case = one random fix script (1-12 operations, every kind, both replace flavours, Save and PLIST-sort events) on a random file of 1-8 logical lines in one of the three modes, run through the real Autofix code and through the extracted model; non-trivial = at least one action was logged, distinct by (mode, only, file, script). " +
		"W: one case = one pkglint -F run (with -r / --only drawn per diagnostic kind / -s / -f / -g; from the root, a category or a package directory; targets: directories, single files, repeated targets, non-clean path spellings) on a generated tree; non-trivial = at least one AUTOFIX line was printed; every file that changed or was named in an AUTOFIX line is judged by the extracted `consistent`"}
	rng := NewRng(ctx.Seed)
	c03Unit(ctx, res, rng.Fork())
	c03CrossCheckExtraction(ctx, res)
	if res.Broken != "" {
		return res
	}
	c03Corpus(ctx, res)
	if res.Broken != "" {
		return res
	}
	c03Whole(ctx, res, rng.Fork())
	res.Exhaustive = false
	return res
}

// c03Corpus: the scenarios of the defects this check found (all repaired in /repo), always run first.
func c03Corpus(ctx *Ctx, res *Result) {
	type scenario struct {
		name  string
		files map[string]string
		args  []string
	}
	distfile := "hello\n"
	sum := fmt.Sprintf("%x", sha512.Sum512([]byte(distfile)))
	scs := []scenario{
		{"alternatives-logged-not-written", map[string]string{"cat/pkg/ALTERNATIVES": "bin/other bin/other-1.0\n"}, []string{"-F", "cat/pkg"}},
		{"insert-below-unterminated-last-line", map[string]string{"distfiles/distfile-1.0.tar.gz": distfile,
			"cat/pkg/distinfo": "$" + "NetBSD$\n\nSHA512 (distfile-1.0.tar.gz) = " + sum}, []string{"-F", "cat/pkg"}},
		{"sort-unterminated-last-line", map[string]string{"cat/pkg/PLIST": "@comment $" + "NetBSD$\nbin/b\nbin/a"}, []string{"-F", "cat/pkg"}},
		{"sort-with-inserted-cvs-id", map[string]string{"cat/pkg/PLIST": "bin/program\nbin/another\n"}, []string{"-F", "cat/pkg"}},
		{"sort-with-inserted-cvs-id-examined-twice", map[string]string{"cat/pkg/PLIST": "bin/program\nbin/another\n"}, []string{"-F", "cat/pkg/PLIST", "cat/pkg"}},
		{"silent-sort-under-only", map[string]string{"cat/pkg/PLIST": "@comment $" + "NetBSD$\nbin/b\nbin/a\n"}, []string{"-F", "--only", "sorted before", "cat/pkg"}},
	}
	for i, sc := range scs {
		dir := filepath.Join(ctx.Work, fmt.Sprintf("corpus%d", i))
		t := NewBaseTree(dir)
		for rel, data := range sc.files {
			t.Write(rel, data)
		}
		tree := readTree(dir)
		cfg := wrConfig{Cwd: ".", Args: sc.args}
		ev, _, err := c03RunOnce(ctx, dir, tree, cfg)
		os.RemoveAll(dir)
		if err != nil {
			res.Broken = "corpus: " + err.Error()
			return
		}
		res.Evaluations++
		res.TracesValidated++
		res.Count("W.corpus_scenarios", 1)
		if ev.Abnormal != "" || len(ev.Undecided)+len(ev.UndecidedSort)+len(ev.UndecidedBudget) > 0 {
			res.AddViolation(Violation{Key: "C03/corpus/" + sc.name + "/undecided", What: "corpus scenario " + sc.name + " could not be judged: " + ev.Abnormal, FoundInput: false,
				Replay: map[string]any{"broken": "corpus scenario not decidable", "scenario": sc.name}})
		}
		for _, p := range ev.Problems {
			c03Report(ctx, res, tree, cfg, p, 0)
		}
	}
}

type pendingC03 struct {
	tree map[string]fileState
	cfg  wrConfig
	p    c03Problem
	size int
}

func c03Whole(ctx *Ctx, res *Result, rng *Rng) {
	ntrees := 220
	if ctx.Tier == "thorough" {
		ntrees = 4000
	}
	type job struct {
		g    *GenTree
		root string
		cfg  wrConfig
		tree map[string]fileState
		ev   *c03Eval
		r    RunResult
		err  error
		fixK map[string]int
	}
	jobs := make([]*job, ntrees)
	seeds := make([]*Rng, ntrees)
	for i := range seeds {
		seeds[i] = rng.Fork()
	}
	parallelFor(ntrees, func(i int) {
		r := seeds[i]
		root := filepath.Join(ctx.Work, fmt.Sprintf("w%d", i))
		g := GenerateTreeC03(r, root, GenOpts{Packages: 1 + i%3, Hostile: i%7 == 6, Rich: i%9 == 8, Density: 25 + 10*(i%4)})
		j := &job{g: g, root: root, fixK: map[string]int{}}
		jobs[i] = j
		// which diagnostics have a fix in this tree (also the source of --only patterns)
		f := RunPkglint(ctx, root, 30*time.Second, "-Wall", "-f", "-r", ".")
		ds := ParseDiags(f.Stdout)
		for k, d := range ds {
			if d.Level != "AUTOFIX" && k+1 < len(ds) && ds[k+1].Level == "AUTOFIX" {
				j.fixK[d.Level+" "+MsgKind(reHexRun.ReplaceAllString(d.Msg, "_"))]++
			}
		}
		j.cfg = c03PickConfig(r, g, f.Stdout)
		before := readTree(root)
		j.tree = before
		j.r = RunPkglint(ctx, filepath.Join(root, j.cfg.Cwd), 30*time.Second, j.cfg.Args...)
		after := readTree(root)
		j.ev, j.err = c03Evaluate(ctx, root, j.cfg, before, after, j.r)
		os.RemoveAll(root)
	})
	diagKinds := map[string]bool{}
	actionKinds := map[string]bool{}
	nontrivial := 0
	var reloadExamples []any
	worst := map[string]pendingC03{}
	for _, j := range jobs {
		if j.err != nil {
			res.Broken = "oracle: " + j.err.Error()
			return
		}
		res.Evaluations++
		res.TracesValidated++
		if j.ev.Abnormal != "" {
			res.Count("W.runs_abnormal_skipped", 1)
			continue
		}
		for k := range j.fixK {
			diagKinds[k] = true
		}
		n := 0
		for rel, fl := range j.ev.Logs {
			n += len(fl.Entries)
			for _, e := range fl.Entries {
				actionKinds[string(e.Kind)] = true
				res.Count("W.action."+string(e.Kind), 1)
			}
			res.Count("W.fileclass."+fileClass(rel), 1)
			c03CountSizes(res, "W", fl.Entries) // c03_sizes.go
		}
		if n > 0 {
			nontrivial++
		}
		res.Count("W.files_judged", j.ev.FilesChecked)
		res.Count("W.files_changed", len(j.ev.Changed))
		res.Count("W.mode_only_changes", len(j.ev.ModeOnly))
		res.Count("W.files_undecided_too_many_states", len(j.ev.Undecided))
		res.Count("W.files_undecided_examined_again_after_sort", len(j.ev.UndecidedSort))
		res.Count("W.files_undecided_search_budget", len(j.ev.UndecidedBudget))
		for rel, rl := range j.ev.Reloads {
			res.Count(fmt.Sprintf("W.files_needing_%d_reloads", rl), 1)
			if len(reloadExamples) < 6 {
				reloadExamples = append(reloadExamples, map[string]any{"run": j.cfg.String(), "file": rel, "log": j.ev.Logs[rel].Raw})
			}
		}
		for _, a := range j.cfg.Args {
			if strings.HasPrefix(a, "-") {
				res.Count("W.opt."+a, 1)
			}
		}
		res.Count("W.cwd."+strings.Split(j.cfg.Cwd, "/")[0], 1)
		if n > 0 && len(res.Samples) < 6 {
			var one string
			for _, rel := range sortedKeys(j.ev.Logs) {
				if len(j.ev.Logs[rel].Raw) > 0 {
					one = j.ev.Logs[rel].Raw[0]
					break
				}
			}
			res.Sample(map[string]any{"run": j.cfg.String(), "autofix_lines": n, "files_changed": len(j.ev.Changed), "first": one})
		}
		for _, p := range j.ev.Problems {
			sz := treeSize(j.tree)
			if old, ok := worst[p.Key]; !ok || sz < old.size {
				worst[p.Key] = pendingC03{j.tree, j.cfg, p, sz}
			}
		}
	}
	// one report (and one shrinking) per kind of problem, on the smallest tree that showed it
	for i, k := range sortedKeys(worst) {
		w := worst[k]
		budget := 120
		if i >= 6 {
			budget = 0
		}
		c03Report(ctx, res, w.tree, w.cfg, w.p, budget)
	}
	res.DistinctNontrivial += nontrivial
	res.Count("W.runs", ntrees)
	res.Count("W.oracle_search_ms", int(time.Duration(atomic.LoadInt64(&c03SearchSpent)).Milliseconds()))
	res.Count("W.runs_with_autofix_lines", nontrivial)
	res.Count("W.distinct_diag_kinds_with_fix", len(diagKinds))
	res.Count("W.distinct_action_kinds", len(actionKinds))
	res.Distribution["W.diag_kinds_with_fix"] = sortedKeys(diagKinds)
	if len(reloadExamples) > 0 {
		res.Distribution["W.examples_saved_and_loaded_again"] = reloadExamples
	}
	if len(res.Violations) == 0 {
		c03WholeSizeFloor(ctx, res) // c03_sizes.go: a correspondence violation when missed
	}
	if len(res.Violations) == 0 && (len(actionKinds) < 4 || len(diagKinds) < 15 || nontrivial < ntrees/3) {
		res.Broken = fmt.Sprintf("whole-run generator lost its coverage: %d action kinds (need 4), %d diagnostic kinds with a fix (need 15), %d of %d runs with AUTOFIX lines", len(actionKinds), len(diagKinds), nontrivial, ntrees)
	}
}

func replayC03(ctx *Ctx, rep map[string]any) *Result {
	res := &Result{Rule: "replay"}
	switch rep["kind"] {
	case "tree":
		tree := decodeTree(rep["tree"])
		cfg := wrConfig{}
		cfg.Cwd, _ = rep["cwd"].(string)
		if as, ok := rep["args"].([]any); ok {
			for _, a := range as {
				s, _ := a.(string)
				cfg.Args = append(cfg.Args, s)
			}
		}
		ev, _, err := c03RunOnce(ctx, filepath.Join(ctx.Work, "replay"), tree, cfg)
		if err != nil {
			res.Broken = err.Error()
			return res
		}
		res.Evaluations = 1
		for _, p := range ev.Problems {
			c03Report(ctx, res, tree, cfg, p, 0)
		}
	case "script":
		c03ReplayScript(ctx, res, rep)
	}
	return res
}

func init() {
	register("C03", runC03, replayC03)
	// whole-run part only (debug aid): vharness run tool-c03-whole tier=... seed=...
	register("tool-c03-whole", func(ctx *Ctx) *Result {
		res := &Result{}
		c03Whole(ctx, res, NewRng(ctx.Seed).Fork().Fork())
		return res
	}, nil)
}
