package main

// C10, make half, layer "ml": MkLineParser.matchVarassign on logical lines made of SEVERAL raw
// lines.  Input = the text of a makefile fragment; the real code loads it with
// convertToLogicalLines(…, true) and runs split / tokenize / matchVarassign (+ MkLine.ValueAlign())
// on every logical *Line (shim VerifMatchVarassignLines, in the C10mk worker processes); the model
// is Model/MatchVarassign.v varassign_of_file = C09's convert_to_logical_lines + parse_varassign_ml
// (the guard "the operator must end in line.raw[0]", getRawValueAlign on raw[0]).
//
// On the implementation's own answer the property is evaluated: a multi-line logical line must not
// make the splitter panic; for an accepted line, [#] ++ pre ++ '#'comment is the logical text,
// unescape(pre) = head ++ value ++ blanks, main = head ++ value; ValueAlign() must not panic, must be
// a prefix of the first raw line and must end (before its blanks) with the operator.

import (
	"fmt"
	"os"
	"os/exec"
	"strings"
	"syscall"
	"time"

	pkglint "github.com/rillig/pkglint/v23"
)

var _ = os.Getpid

func c10mlVa(a pkglint.VerifVarassign) string {
	if !a.Matched {
		return "N"
	}
	align := hx(a.ValueAlign)
	if a.ValueAlignPanic != "" {
		align = "P"
	}
	return strings.Join([]string{"M", b01(a.Commented), hx(a.Varname), hx(a.SpaceAfterVarname), hx(a.Op), hx(a.Value),
		hx(a.Main), hx(a.SpaceBeforeComment), b01(a.HasComment), hx(a.Comment), align}, ";")
}

// c10mlImplAnswer runs in the worker process.
func c10mlImplAnswer(raw string) string {
	lines, p := pkglint.VerifMatchVarassignLines(raw)
	if p != "" {
		return "P"
	}
	if len(lines) == 0 {
		return "E"
	}
	out := make([]string, len(lines))
	for i, l := range lines {
		va := "P"
		if l.Panicked == "" {
			va = c10mlVa(l.Res)
		}
		out[i] = fmt.Sprintf("%s:%d:%s", hx(l.Text), l.NRaw, va)
	}
	return strings.Join(out, "|")
}

type c10mlLine struct {
	text string
	nraw int
	va   string
}

func c10mlParse(ans string) ([]c10mlLine, bool) {
	if ans == "E" {
		return nil, true
	}
	var out []c10mlLine
	for _, part := range strings.Split(ans, "|") {
		f := strings.SplitN(part, ":", 3)
		if len(f) != 3 {
			return nil, false
		}
		var n int
		if _, err := fmt.Sscan(f[1], &n); err != nil || n < 1 {
			return nil, false
		}
		out = append(out, c10mlLine{unhx(f[0]), n, f[2]})
	}
	return out, true
}

// the raw lines of a file text as convertToLogicalLines sees them: split after "\n", empty pieces dropped
func c10mlRawLines(in string) []string {
	var out []string
	for _, r := range strings.SplitAfter(in, "\n") {
		if r != "" {
			out = append(out, r)
		}
	}
	return out
}

// c10mlSpec evaluates the property on what the implementation answered for one logical line.
func c10mlSpec(raw0, text string, nraw int, va, modelVa string) (string, string) {
	if nraw <= 1 {
		return c10mkSpec("va", text, va) // the one-raw-line law
	}
	if va == "P" {
		if strings.HasPrefix(text, "\t") { // Parse treats it as a shell command; split asserts
			return "", ""
		}
		if strings.Contains(raw0, "=") { // fixed in /repo; the key of the former known finding
			return "panic-equals-in-first-raw-line-but-operator-in-continuation-line",
				"the guard of matchVarassign looks for any '=' in the first raw line, the operator is in a continuation line: getRawValueAlign asserts"
		}
		return "panic", "split/tokenize/matchVarassign panics on a logical line made of several raw lines"
	}
	if va == "N" {
		return "", ""
	}
	f := strings.Split(va, ";")
	if len(f) != 11 {
		return "format", va
	}
	commented, op, value, main, sp, hc, comment, align := f[1] == "1", unhx(f[4]), unhx(f[5]), unhx(f[6]), unhx(f[7]), f[8] == "1", unhx(f[9]), f[10]
	tail := ""
	if hc {
		tail = "#" + comment
	}
	lead := ""
	if commented {
		lead = "#"
	}
	if !strings.HasPrefix(text, lead) || !strings.HasSuffix(text, tail) || len(lead)+len(tail) > len(text) || (!hc && comment != "") {
		return "recombine", fmt.Sprintf("logical text %q is not %q ++ pre ++ %q", text, lead, tail)
	}
	pre := unescapeHash(text[len(lead) : len(text)-len(tail)])
	if !strings.HasPrefix(pre, main) || !isHspaceStr(pre[len(main):]) || !strings.HasSuffix(main, value) || !isHspaceStr(sp) ||
		(value != "" && pre[len(main):] != sp) {
		return "recombine", fmt.Sprintf("main %q, value %q, space %q, comment %q do not recombine to the logical text %q", main, value, sp, tail, text)
	}
	if align == "P" {
		return "valuealign-panic", "matchVarassign accepts the multi-line line but MkLine.ValueAlign() (VaralignSplitter.split on the first raw line) panics"
	}
	al := unhx(align)
	if !strings.HasPrefix(raw0, al) {
		return "valuealign-not-in-first-raw-line", fmt.Sprintf("ValueAlign() %q is not a prefix of the first raw line %q", al, raw0)
	}
	// the operator lies in the first raw line: the alignment prefix ends, before its blanks, with the operator
	// (for VAR+ = the operator reported is "+=" though the text has "+" and "=" apart: then "=" ends it)
	core := strings.TrimRight(al, " \t")
	if !strings.HasSuffix(core, op) && !(op == "+=" && strings.HasSuffix(core, "=")) {
		return "operator-not-in-first-raw-line", fmt.Sprintf("the alignment prefix %q of the first raw line does not end with the operator %q", al, op)
	}
	return "", ""
}

type c10mlCase struct {
	in   string
	kind string
}

// c10mlBatch: implementation and model on the same file texts, then the verdicts.
func c10mlBatch(ctx *Ctx, res *Result, cases []c10mlCase, limit time.Duration, cross *[][2]string) {
	if len(cases) == 0 || res.Broken != "" {
		return
	}
	reqs := make([]string, len(cases))
	for i, c := range cases {
		reqs[i] = "ml " + hx(c.in)
	}
	var impl, model []string
	var e1, e2 error
	done := make(chan struct{})
	go func() { impl, e1 = c10mkRunImpl(reqs, limit); close(done) }()
	model, e2 = runOracle(ctx, "c10mk", reqs)
	<-done
	if e1 != nil || e2 != nil {
		res.Broken = fmt.Sprintf("ml workers: %v; oracle: %v", e1, e2)
		return
	}
	cnt := map[string]int{}
	guardCand2 := map[string]bool{}
	guardCand := map[string]bool{} // multi-line, rejected, no "=" in the first raw line: is the text alone an assignment?
	for i, c := range cases {
		a, m := impl[i], model[i]
		if a == c10mkHang || a == c10mkCrash {
			one := make([]string, 1)
			c10mkRunOne(reqs[i], one, limit) // confirm once, on a worker of its own
			if one[0] == c10mkHang || one[0] == c10mkCrash {
				res.AddViolation(Violation{Key: "C10/varassign-ml/" + strings.ToLower(one[0]),
					What:       fmt.Sprintf("loading %q and running matchVarassign on its lines: the worker %s (twice)", c.in, strings.ToLower(one[0])),
					FoundInput: true, Size: 1 + len(c.in), Replay: map[string]any{"kind": "ml", "input": hx(c.in), "impl": one[0], "model": m}})
				cnt["ml_violations"]++
				continue
			}
			a = one[0]
		}
		if a == "SKIPPED" {
			cnt["ml_skipped_after_many_hangs"]++
			continue
		}
		il, ok1 := c10mlParse(a)
		ml, ok2 := c10mlParse(m)
		if m == "P" || m == "F" || !ok2 {
			res.Broken = fmt.Sprintf("ml: the model's answer for %q is %q", c.in, m)
			return
		}
		disagree := func(what string) {
			res.AddViolation(Violation{Key: "C10/correspondence/varassign-ml",
				What:       fmt.Sprintf("model and implementation disagree on the logical lines of %q (%s): impl %s, model %s", c.in, what, a, m),
				FoundInput: false, Size: 1 + len(c.in),
				Replay: map[string]any{"kind": "ml", "input": hx(c.in), "impl": a, "model": m,
					"broken": "correspondence convertToLogicalLines + matchVarassign = extracted Model/MatchVarassign.v varassign_of_file"}})
			cnt["ml_disagreements"]++
		}
		if !ok1 || len(il) != len(ml) {
			disagree("the lines themselves")
			continue
		}
		raws := c10mlRawLines(c.in)
		pos := 0
		for k, l := range il {
			mo := ml[k]
			if l.text != mo.text || l.nraw != mo.nraw || pos >= len(raws) {
				disagree(fmt.Sprintf("line %d: text / number of raw lines", k+1))
				break
			}
			raw0 := strings.TrimSuffix(raws[pos], "\n")
			pos += l.nraw
			// the shape the no-panic theorem assumes of a line: the first physical line without its continuation
			// backslash and trailing blanks starts the logical text (one raw line: it is the text)
			firstLine := strings.TrimRight(strings.TrimSuffix(raw0, "\\"), " \t")
			if (l.nraw > 1 && !strings.HasPrefix(l.text, firstLine)) || (l.nraw == 1 && l.text != raw0) {
				res.AddViolation(Violation{Key: "C10/correspondence/varassign-ml-line-shape",
					What:       fmt.Sprintf("logical line %d of %q: text %q does not start with the first physical line %q", k+1, c.in, l.text, firstLine),
					FoundInput: false, Size: 1 + len(c.in),
					Replay: map[string]any{"kind": "ml", "input": hx(c.in), "line": k + 1,
						"broken": "hypothesis ml_shape of C10mk_varassign_ml_no_panic_partial holds for every line convertToLogicalLines builds"}})
				cnt["ml_violations"]++
			} else if l.nraw > 1 {
				cnt["ml_line_shape_checked"]++
			}
			if what, desc := c10mlSpec(raw0, l.text, l.nraw, l.va, mo.va); what != "" {
				res.AddViolation(Violation{Key: "C10/varassign-ml/" + what,
					What:       fmt.Sprintf("matchVarassign on logical line %d of %q (text %q, %d raw lines): %s", k+1, c.in, l.text, l.nraw, desc),
					FoundInput: true, Size: 1 + len(c.in),
					Replay: map[string]any{"kind": "ml", "input": hx(c.in), "line": k + 1, "impl": l.va, "model": mo.va}})
				cnt["ml_violations"]++
				if !(l.va == "P" && mo.va == "P") {
					continue
				}
			}
			if c10mkImplVa(l.va) != c10mkModelVa(mo.va) {
				disagree(fmt.Sprintf("line %d: matchVarassign", k+1))
			}
			cnt["ml_lines"]++
			if l.nraw > 1 {
				cnt["ml_lines_multiline"]++
				if l.nraw >= 3 {
					cnt["ml_three_raw_lines"]++
				}
				first := strings.TrimSuffix(raw0, "\\")
				switch {
				case strings.HasPrefix(l.va, "M;0"):
					cnt["ml_multiline_matched"]++
				case strings.HasPrefix(l.va, "M;1"):
					cnt["ml_multiline_matched_commented"]++
				}
				if !strings.Contains(raw0, "=") && strings.Contains(l.text, "=") {
					cnt["ml_multiline_equals_only_in_continuation"]++
					// rejected by the guard (and by nothing before it): the same text as ONE raw line is an assignment
					if l.va == "N" && len(guardCand) < 20000 {
						guardCand[l.text] = true
					}
				}
				if strings.Contains(raw0, "=") && l.va == "N" && len(guardCand2) < 20000 {
					guardCand2[l.text] = true // "=" in the first raw line, yet rejected: the operator is in a continuation line?
				}
				if strings.Count(first, "${") > strings.Count(first, "}") {
					cnt["ml_multiline_break_inside_expression"]++
				}
				if l.va == "P" {
					cnt["ml_multiline_panic_known_shape"]++
				}
			}
		}
		cnt["ml_cases_"+c.kind]++
		if cross != nil && len(*cross) < 40 && len(c.in) <= 24 && i%(1+len(cases)/30) == 0 {
			*cross = append(*cross, [2]string{c.in, m})
		}
	}
	for pass, cand := range []map[string]bool{guardCand, guardCand2} {
		if len(cand) == 0 {
			continue
		}
		key := "ml_multiline_rejected_by_guard"
		if pass == 1 {
			key = "ml_multiline_rejected_by_guard_despite_equals_in_first_raw_line" // the shape that crashed before the repair
		}
		texts := sortedKeys(cand)
		greqs := make([]string, len(texts))
		for i, t := range texts {
			greqs[i] = "all " + hx(t)
		}
		if ans, err := runOracle(ctx, "c10mk", greqs); err == nil {
			for _, a := range ans {
				if strings.HasPrefix(c10mkSplitSections(a)["va"], "M") {
					cnt[key]++ // the same text as ONE raw line is an assignment (model)
				}
			}
		}
	}
	for k, n := range cnt {
		res.Count(k, n)
	}
	res.Evaluations += len(cases)
	res.TracesValidated += len(cases)
	if i := len(cases) / 2; len(cases[i].in) >= 4 {
		res.Sample(map[string]any{"input": cases[i].in, "generator": "ml-" + cases[i].kind, "impl": impl[i]})
	}
}

var c10mlAlphabet = []byte{'V', '$', '{', '}', '=', '+', '#', '\\', ' ', '\t', '\n'}

// c10mlBreak splits an assignment line into 2 or 3 raw lines at random places (also inside
// expressions and inside the variable name), with indentation and blanks before the backslash.
func c10mlBreak(rng *Rng, s string) string {
	n := 1 + rng.Intn(2)
	for k := 0; k < n && len(s) > 0; k++ {
		var at int
		switch {
		case rng.Chance(35) && strings.ContainsAny(s, "=+?!:"): // around the operator
			at = strings.IndexAny(s, "=+?!:") + rng.Intn(3) - 1
		case rng.Chance(30) && strings.Contains(s, "${"): // inside the first expression
			at = strings.Index(s, "${") + 2 + rng.Intn(6)
		default:
			at = rng.Intn(len(s) + 1)
		}
		if at < 0 {
			at = 0
		}
		if at > len(s) {
			at = len(s)
		}
		before := Pick(rng, []string{"", "", " ", "\t", "  "})
		indent := Pick(rng, []string{"", "", "\t", " ", "\t\t", "#", "# "})
		s = s[:at] + before + "\\\n" + indent + s[at:]
	}
	if rng.Chance(85) {
		s += "\n"
	}
	return s
}

func c10mlRun(ctx *Ctx, res *Result, rng *Rng, g *c10mkGen, limit time.Duration) {
	thorough := ctx.Tier == "thorough"
	t0 := time.Now()
	defer func() { res.Count("ml_wall_ms", int(time.Since(t0).Milliseconds())) }()
	var cross [][2]string
	// corpus: the shapes the guard is about
	var cs []c10mlCase
	for _, s := range []string{"VAR\\\n= value\n", "#VAR\\\n= value\n", "#VAR\\\n#= value\n", "VAR.${PARAM:S,from,\\\nto,}= value\n",
		"VAR.${PARAM:S,=,,}\\\n= value\n", "$=\\\n=\n", "VAR=\\\n\tvalue\n", "VAR= \\\n\tvalue \\\n\tmore # c\n", "#VAR= \\\n#\tvalue\n",
		"VAR+=\\\n", "VAR \\\n+= v\n", "V.\\#=\\\nv\n", "V\\\n\\\n=v\n", "V=a\\\\\n=b\n", "V\\", "\\\n", "V=\\\n\\\n\\\n"} {
		cs = append(cs, c10mlCase{s, "corpus"})
	}
	c10mlBatch(ctx, res, cs, limit, &cross)
	// exhaustive: every text over the alphabet, up to the length bound, that has a continuation ("\\\n" followed by something or not)
	maxLen := 6
	if thorough {
		maxLen = 7
	}
	var batch []c10mlCase
	flush := func() {
		c10mlBatch(ctx, res, batch, limit, &cross)
		batch = batch[:0]
	}
	for l := 2; l <= maxLen; l++ {
		c10mkEnumerate(c10mlAlphabet, l, func(s string) {
			if !strings.Contains(s, "\\\n") {
				return
			}
			batch = append(batch, c10mlCase{s, "exhaustive"})
			if len(batch) >= 200000 {
				flush()
			}
		})
	}
	flush()
	// grammar-guided assignments, broken into 2-3 raw lines
	n := 30000
	if thorough {
		n = 600000
	}
	names := []string{"VAR", "V.${P}", "V.${P:S,=,,}", "V.${P:S,a,b,}", "${V}", "V.\\#", "#VAR", "# VAR", "V+", "V.${P:Mx=y}", " V"}
	ops := []string{"=", "+=", "?=", ":=", "!=", " =", " +=", "\t="}
	for done := 0; done < n; {
		for i := 0; i < 100000 && done < n; i++ {
			var s string
			if rng.Chance(50) {
				s = g.line(1 + rng.Intn(3))
			} else {
				s = Pick(rng, names) + Pick(rng, ops) + Pick(rng, []string{"", " ", "\t"}) + Pick(rng, []string{"", "value", "a b", "${X:S,=,,}", "a\\#b", "v # c", "# c", "a=b"})
			}
			if len(s) > 120 {
				continue
			}
			batch = append(batch, c10mlCase{c10mlBreak(rng, s), "grammar"})
			done++
		}
		flush()
	}
	c10mlCrossCheck(ctx, res, cross)
}

// c10mlCrossCheck: coqc evaluates Model/MatchVarassign.v's varassign_of_file itself (vm_compute) on a
// sample of the file texts; a projection of the result must be what the extracted oracle answered.
func c10mlCrossCheck(ctx *Ctx, res *Result, cross [][2]string) {
	if len(cross) == 0 || res.Broken != "" {
		return
	}
	var sb strings.Builder
	sb.WriteString(`From Coq Require Import List. Import ListNotations.
From PV Require Import Lib.Bytes Model.MkLexPrim Model.MkLineSplit Model.MatchVarassign.
From PV Require Model.Lines.
Open Scope N_scope.
Definition proj (r : res (list (Lines.line * res (option varassign)))) :=
  match r with
  | Ok ls => Some (map (fun lr : Lines.line * res (option varassign) =>
      (Lines.text (fst lr), length (Lines.raws (fst lr)),
       match snd lr with
       | Ok None => (0%nat, false, [])
       | Ok (Some a) => ((if va_commented a then 2 else 1)%nat, sr_has_comment (va_split a),
           [va_varname a; va_space_after_varname a; va_op a; va_value a; sr_main (va_split a);
            sr_space_before_comment (va_split a); sr_comment (va_split a); va_value_align a])
       | Panic => (3%nat, false, [])
       | OutOfFuel => (4%nat, false, [])
       end)) ls)
  | _ => None
  end.
`)
	n := 0
	for i, c := range cross {
		ls, ok := c10mlParse(c[1])
		if !ok {
			res.Broken = "ml cross-check: cannot read the oracle's answer " + q(c[1])
			return
		}
		items := make([]string, len(ls))
		for k, l := range ls {
			tag, hc, fields := "0%nat", "false", "[]"
			switch {
			case l.va == "P":
				tag = "3%nat"
			case l.va == "F":
				tag = "4%nat"
			case l.va == "N":
			default:
				f := strings.Split(l.va, ";")
				if len(f) != 11 {
					res.Broken = "ml cross-check: cannot read the oracle's answer " + q(c[1])
					return
				}
				tag = "1%nat"
				if f[1] == "1" {
					tag = "2%nat"
				}
				if f[8] == "1" {
					hc = "true"
				}
				var fs []string
				for _, x := range []int{2, 3, 4, 5, 6, 7, 9, 10} {
					fs = append(fs, coqStr(unhx(f[x])))
				}
				fields = "[" + strings.Join(fs, "; ") + "]"
			}
			items[k] = fmt.Sprintf("(%s, %d%%nat, (%s, %s, %s))", coqStr(l.text), l.nraw, tag, hc, fields)
		}
		fmt.Fprintf(&sb, "Example ml%d : proj (varassign_of_file %s) = Some [%s].\nProof. vm_compute. reflexivity. Qed.\n", i, coqStr(c[0]), strings.Join(items, "; "))
		n++
	}
	file := ctx.Work + "/mlcases.v"
	if err := os.WriteFile(file, []byte(sb.String()), 0o644); err != nil {
		res.Broken = err.Error()
		return
	}
	lock, err := os.OpenFile(ctx.Verif+"/.cache/coq.lock", os.O_CREATE|os.O_RDWR, 0o644)
	if err == nil {
		syscall.Flock(int(lock.Fd()), syscall.LOCK_EX)
		defer func() { syscall.Flock(int(lock.Fd()), syscall.LOCK_UN); lock.Close() }()
	}
	cmd := exec.Command("timeout", "600", "coqc", "-Q", ctx.Verif+"/coq", "PV", file)
	cmd.Dir = ctx.Work
	out, err := cmd.CombinedOutput()
	if err != nil {
		msg := string(out)
		if len(msg) > 600 {
			msg = msg[:600]
		}
		res.AddViolation(Violation{
			Key:        "C10/correspondence/extraction-ml",
			What:       "the extracted oracle and coqc (vm_compute) evaluate varassign_of_file differently: " + strings.Join(strings.Fields(msg), " "),
			FoundInput: false,
			Replay:     map[string]any{"kind": "extraction", "broken": "extracted OCaml model = Gallina model (vm_compute cross-check on sampled cases)", "coqc": msg},
		})
		return
	}
	res.Count("ml_extraction_cross_checked_by_coqc", n)
}
