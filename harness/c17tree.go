package main

import (
	"encoding/json"
	"fmt"
	"os"
	"path"
	"path/filepath"
	"sort"
	"strconv"
	"strings"
)

// C17, whole-run layer on package TREES.
//
// pkglint decides by itself which files of a package directory it analyses on
// their own (CheckFileMk: only makefile fragments the package does not include)
// and which only as part of the package (Package.checkfilePackageMakefile on
// allLines).  This layer lets it decide: it runs the real binary on a package
// directory, or with -r on a category of two packages that share a fragment,
// varies how the .include is spelled and where the fragment lives, and judges
// EVERY redundant / no-effect / overwritten diagnostic printed for ANY file:
//
//   P  the flagged line is located in every package whose makefile, as make
//      reads it (Makefile with the fragment spliced in, closed world), contains
//      it; the extracted evaluator must give the same final values with and
//      without it.  A line that no package contains is judged in its own file.
//   W  the set of diagnostics must be the one the model predicts: the model on
//      every checked package's spliced program, plus the model on a fragment
//      alone where the pinned code analyses it alone.

type c17TreePkg struct {
	Dir      string  `json:"dir"`      // pa | pb
	Pre      c17Prog `json:"pre"`      // assignments before the .include
	Post     c17Prog `json:"post"`     // assignments after it
	Spelling string  `json:"spelling"` // text inside .include "...", "" = the package does not include the fragment
}

type c17Scenario struct {
	Pkgs     []c17TreePkg `json:"pkgs"`
	FragLoc  string       `json:"frag_loc"`  // own (pa's directory) | other (pb's directory) | shared (CAT/common)
	FragKind string       `json:"frag_kind"` // spelling class of pa's include
	Frag     c17Prog      `json:"frag"`
	Args     []string     `json:"args"` // with CAT for the category directory
	Name     string       `json:"name"`
}

func (sc c17Scenario) fragPath(cat string) string {
	switch sc.FragLoc {
	case "own":
		return cat + "/pa/inc.mk"
	case "other":
		return cat + "/pb/inc.mk"
	}
	return cat + "/common/inc.mk"
}

func (sc c17Scenario) String() string {
	var sb strings.Builder
	fmt.Fprintf(&sb, "pkglint %s; fragment %s = { %s }", strings.Join(sc.Args, " "), sc.fragPath("CAT"), sc.Frag.String())
	for _, p := range sc.Pkgs {
		inc := "(no include)"
		if p.Spelling != "" {
			inc = `.include "` + p.Spelling + `"`
		}
		fmt.Fprintf(&sb, "; CAT/%s/Makefile = { %s ; %s ; %s }", p.Dir, p.Pre.String(), inc, p.Post.String())
	}
	return sb.String()
}

// the program make reads for one package: head, pre, .include line, fragment
// lines (File 1), post, tail
func c17TreeProgram(sc c17Scenario, pk c17TreePkg, cat string) c17Prog {
	var body c17Prog
	body = append(body, pk.Pre...)
	if pk.Spelling != "" {
		body = append(body, c17Line{File: 0, Raw: `.include "` + strings.ReplaceAll(pk.Spelling, "CAT", cat) + `"`})
		for _, l := range sc.Frag {
			l.File = 1
			body = append(body, l)
		}
	}
	for _, l := range pk.Post {
		l.File = 0
		body = append(body, l)
	}
	return c17PackageProgram(body)
}

// the fragment as a program of its own
func c17TreeFragAlone(sc c17Scenario) c17Prog {
	p := make(c17Prog, len(sc.Frag))
	copy(p, sc.Frag)
	for i := range p {
		p[i].File = 0
		p[i].Lineno = 0
	}
	return c17Number(p)
}

// Is the fragment analysed on its own while package pk is checked?  The answer
// comes from Spec/SpellingIndep.analysed_alone (extracted): it is, iff it lies
// in pk's directory and no .include line of pk's Makefile DENOTES it.  The
// request: directories relative to the pkgsrc root, ${.CURDIR} resolved to "."
// (MkLine.ResolveExprsInRelPath).
func c17TreeAloneReq(sc c17Scenario, pk c17TreePkg) c17AloneReq {
	frag := sc.fragPath("cat")
	r := c17AloneReq{pkgdir: "cat/" + pk.Dir, fragdir: path.Dir(frag), fragbase: path.Base(frag)}
	if pk.Spelling != "" {
		sp := strings.ReplaceAll(pk.Spelling, "CAT", "cat")
		sp = strings.ReplaceAll(sp, "${.CURDIR}", ".")
		r.incs = append(r.incs, [2]string{"cat/" + pk.Dir, sp})
	}
	return r
}

type c17PathVerdict struct {
	FFile string
	FLine int
	BFile string
	BLine int
	Kind  byte
}

func (v c17PathVerdict) String() string {
	return fmt.Sprintf("%s:%d<-%s:%d:%c", v.FFile, v.FLine, v.BFile, v.BLine, v.Kind)
}

func c17ParseTreeDiags(out string) (vs []c17PathVerdict) {
	seen := map[c17PathVerdict]bool{}
	for _, ln := range strings.Split(out, "\n") {
		m := c17DiagRe.FindStringSubmatch(ln)
		if m == nil {
			continue
		}
		f := path.Clean(m[2])
		n, _ := strconv.Atoi(m[3])
		kind := byte('R')
		if m[5] != "" {
			kind = 'N'
		} else if m[6] != "" {
			kind = 'O'
		}
		bf, bn := f, 0
		if m[7] != "" {
			bn, _ = strconv.Atoi(m[7])
		} else {
			bf = path.Clean(path.Join(path.Dir(f), m[8]))
			bn, _ = strconv.Atoi(m[9])
		}
		v := c17PathVerdict{f, n, bf, bn, kind}
		if !seen[v] {
			seen[v] = true
			vs = append(vs, v)
		}
	}
	return
}

func c17SortPathVerdicts(vs []c17PathVerdict) {
	sort.Slice(vs, func(i, j int) bool { return vs[i].String() < vs[j].String() })
}

func c17TreeWrite(root, cat string, sc c17Scenario) error {
	os.RemoveAll(filepath.Join(root, cat))
	if err := c17WriteFile(filepath.Join(root, cat, "Makefile"),
		"# $NetBSD$\n\nCOMMENT=\tComment for the category\n\nSUBDIR+=\tpa\nSUBDIR+=\tpb\n\n.include \"../mk/misc/category.mk\"\n"); err != nil {
		return err
	}
	have := map[string]bool{}
	for _, pk := range sc.Pkgs {
		have[pk.Dir] = true
		full := c17TreeProgram(sc, pk, cat)
		text, _, _ := c17FileTexts(full)
		if err := c17WritePackage(filepath.Join(root, cat, pk.Dir), nil); err != nil {
			return err
		}
		if err := c17WriteFile(filepath.Join(root, cat, pk.Dir, "Makefile"), text); err != nil {
			return err
		}
	}
	for _, d := range []string{"pa", "pb"} { // the category Makefile lists both
		if !have[d] {
			if err := c17WritePackage(filepath.Join(root, cat, d), nil); err != nil {
				return err
			}
		}
	}
	text, _, _ := c17FileTexts(c17TreeFragAlone(sc))
	return c17WriteFile(filepath.Join(root, sc.fragPath(cat)), text)
}

type c17TreeRunResult struct {
	sc       c17Scenario
	cat      string
	observed []c17PathVerdict
	crashed  string
}

// one (package program, name of its two files)
type c17TreeCtx struct {
	prog  c17Prog
	files [2]string
	what  string
}

func (c c17TreeCtx) index(file string, lineno int) int {
	for i, l := range c.prog {
		if c.files[l.File] == file && l.Lineno == lineno {
			return i
		}
	}
	return -1
}

func c17TreeContexts(sc c17Scenario, cat string) (pkgs []c17TreeCtx, alone c17TreeCtx) {
	for _, pk := range sc.Pkgs {
		pkgs = append(pkgs, c17TreeCtx{c17TreeProgram(sc, pk, cat), [2]string{cat + "/" + pk.Dir + "/Makefile", sc.fragPath(cat)}, "package " + pk.Dir})
	}
	alone = c17TreeCtx{c17TreeFragAlone(sc), [2]string{sc.fragPath(cat), ""}, "the fragment alone"}
	return
}

func c17TreeChecked(sc c17Scenario, pk c17TreePkg) bool {
	last := sc.Args[len(sc.Args)-1]
	return last == "CAT" || last == "CAT/"+pk.Dir
}

func c17TreeJudge(ctx *Ctx, res *Result, runs []c17TreeRunResult) {
	// 1. what the model predicts for every context
	type ctxRef struct{ run, ctx int } // ctx = index into pkgs, -1 = alone
	var reqs []string
	var refs []ctxRef
	allCtx := make([][]c17TreeCtx, len(runs))
	aloneCtx := make([]c17TreeCtx, len(runs))
	for i, r := range runs {
		allCtx[i], aloneCtx[i] = c17TreeContexts(r.sc, r.cat)
		for k, c := range allCtx[i] {
			reqs = append(reqs, fmt.Sprintf("chk %d %s", c.prog.fuel(), c.prog.words()))
			refs = append(refs, ctxRef{i, k})
		}
		reqs = append(reqs, fmt.Sprintf("chk %d %s", aloneCtx[i].prog.fuel(), aloneCtx[i].prog.words()))
		refs = append(refs, ctxRef{i, -1})
	}
	ans, err := runOracle(ctx, "c17", reqs)
	if err != nil {
		res.Broken = err.Error()
		return
	}
	// which fragments are analysed on their own (by denotation of the include lines)
	var aloneReqs []string
	aloneAt := map[ctxRef]int{}
	for i, r := range runs {
		for k, pk := range r.sc.Pkgs {
			aloneAt[ctxRef{i, k}] = len(aloneReqs)
			aloneReqs = append(aloneReqs, c17TreeAloneReq(r.sc, pk).request())
		}
	}
	aloneAns, err := runOracle(ctx, "c17", aloneReqs)
	if err != nil {
		res.Broken = err.Error()
		return
	}
	for _, a := range aloneAns {
		if a != "0" && a != "1" {
			res.Broken = "oracle answer " + q(a)
			return
		}
	}
	treeAlone := func(i, k int) bool { return aloneAns[aloneAt[ctxRef{i, k}]] == "1" }
	models := map[ctxRef]c17Model{}
	for k, a := range ans {
		m, err := c17ParseModel(a)
		if err != nil || m.panicked {
			res.Broken = fmt.Sprintf("oracle on a tree scenario: %v %q", err, a)
			return
		}
		models[refs[k]] = m
	}
	toPath := func(c c17TreeCtx, v c17Verdict) c17PathVerdict {
		return c17PathVerdict{c.files[c.prog[v.Flagged].File], c.prog[v.Flagged].Lineno,
			c.files[c.prog[v.Because].File], c.prog[v.Because].Lineno, v.Kind}
	}
	// 2. compare, and collect the soundness questions
	type question struct {
		run int
		v   c17PathVerdict
		c   c17TreeCtx
		idx int
		// is the verdict predicted by the model for this very context / at all
		inContext, expected bool
		otherContext        bool // predicted by the model for some checked package
	}
	var qs []question
	var qreqs []string
	for i, r := range runs {
		sc := r.sc
		res.TracesValidated++
		if r.crashed != "" {
			res.AddViolation(Violation{Key: "C17/correspondence/panic-pkgtree",
				What:       fmt.Sprintf("the binary crashed (%s) on %s", r.crashed, sc.String()),
				FoundInput: false, Size: 1000, Replay: c17TreeReplay(sc, map[string]any{"broken": "binary crashed"})})
			continue
		}
		expected := map[c17PathVerdict]bool{}
		inContext := map[c17PathVerdict][]int{} // verdict -> package contexts that predict it
		for k, pk := range sc.Pkgs {
			if !c17TreeChecked(sc, pk) {
				continue
			}
			for _, mv := range models[ctxRef{i, k}].verdicts {
				pv := toPath(allCtx[i][k], mv.c17Verdict)
				expected[pv] = true
				inContext[pv] = append(inContext[pv], k)
			}
			if treeAlone(i, k) {
				res.Count("pkgtree_fragment_analysed_alone", 1)
				for _, mv := range models[ctxRef{i, -1}].verdicts {
					expected[toPath(aloneCtx[i], mv.c17Verdict)] = true
				}
			}
		}
		// the coverage floors measure the generator, hence the predicted verdicts
		if len(expected) > 0 {
			res.Count("pkgtree_runs_with_verdicts", 1)
		}
		for v := range expected {
			res.Count("pkgtree_verdicts_expected", 1)
			if v.FFile == sc.fragPath(r.cat) {
				res.Count("pkgtree_verdicts_on_fragment_lines", 1)
			}
		}
		obs := map[c17PathVerdict]bool{}
		for _, v := range r.observed {
			obs[v] = true
		}
		var missing, extra []string
		for v := range expected {
			if !obs[v] {
				missing = append(missing, v.String())
			}
		}
		for v := range obs {
			if !expected[v] {
				extra = append(extra, v.String())
			}
		}
		sort.Strings(missing)
		sort.Strings(extra)
		if len(missing)+len(extra) > 0 {
			res.AddViolation(Violation{
				Key:        "C17/correspondence/verdicts-pkgtree",
				What:       fmt.Sprintf("diagnostics of the binary differ from the model on %s: not predicted %v, not printed %v", sc.String(), extra, missing),
				FoundInput: false, Size: c17TreeSize(sc),
				Replay: c17TreeReplay(sc, map[string]any{"unpredicted": extra, "missing": missing,
					"broken": "whole-run correspondence: which files are analysed in which context (Package.checkfilePackageMakefile / CheckFileMk) and RedundantScope on them"}),
			})
		}
		for _, v := range r.observed {
			res.Count("pkgtree_verdicts_"+string(v.Kind), 1)
			located := false
			for k, c := range allCtx[i] {
				// the closed world is what pkglint was asked to check
				if !c17TreeChecked(sc, sc.Pkgs[k]) {
					continue
				}
				idx := c.index(v.FFile, v.FLine)
				if idx < 0 {
					continue
				}
				located = true
				in := false
				for _, kk := range inContext[v] {
					if kk == k {
						in = true
					}
				}
				qs = append(qs, question{i, v, c, idx, in, expected[v], len(inContext[v]) > 0})
				qreqs = append(qreqs, fmt.Sprintf("snd %d %d %s", c.prog.fuel(), idx, c.prog.words()))
			}
			if !located {
				c := aloneCtx[i]
				if idx := c.index(v.FFile, v.FLine); idx >= 0 {
					qs = append(qs, question{i, v, c, idx, false, expected[v], false})
					qreqs = append(qreqs, fmt.Sprintf("snd %d %d %s", c.prog.fuel(), idx, c.prog.words()))
				}
			}
		}
	}
	// 3. the property on the implementation's diagnostics
	ans2, err := runOracle(ctx, "c17", qreqs)
	if err != nil {
		res.Broken = err.Error()
		return
	}
	for k, qn := range qs {
		res.Count("pkgtree_verdicts_judged", 1)
		if ans2[k] == "S" {
			continue
		}
		if !strings.HasPrefix(ans2[k], "U:") {
			res.Broken = "oracle answer " + q(ans2[k])
			return
		}
		sc := runs[qn.run].sc
		var vars []string
		for _, h := range strings.Split(ans2[k][2:], ",") {
			vars = append(vars, unhx(h))
		}
		var class string
		if qn.inContext {
			// the analysis of this very package says so: one of the classes of the unit layer
			bi := qn.c.index(qn.v.BFile, qn.v.BLine)
			class = c17Class(qn.c.prog, c17Verdict{qn.idx, bi, qn.v.Kind})
		} else {
			// the verdict comes from an analysis that did not see this package's other lines
			if qn.otherContext {
				// right for the package it was derived in, printed for a file both packages read
				class = "out-of-context-analysis/verdict-of-another-package-on-shared-fragment"
			} else {
				class = "out-of-context-analysis/" + c17TreeReason(sc, qn.v, runs[qn.run].cat)
			}
		}
		key := "C17/unsound/" + class
		if !qn.expected {
			key += "/not-in-model"
		}
		kind := map[byte]string{'R': "is redundant", 'N': "has no effect", 'O': "is overwritten"}[qn.v.Kind]
		res.Count("unsound_pkgtree_"+class, 1)
		res.AddViolation(Violation{
			Key: key,
			What: fmt.Sprintf("pkglint says %s:%d %s (because of %s:%d), but in %s deleting it changes the final value of %s; scenario: %s",
				qn.v.FFile, qn.v.FLine, kind, qn.v.BFile, qn.v.BLine, qn.c.what, strings.Join(vars, ","), sc.String()),
			FoundInput: true, Size: c17TreeSize(sc),
			Replay: c17TreeReplay(sc, map[string]any{"verdict": qn.v.String(), "changed": vars, "context": qn.c.what}),
		})
	}
}

// why a fragment line was judged by an analysis outside the package's context
func c17TreeReason(sc c17Scenario, v c17PathVerdict, cat string) string {
	if v.FFile != sc.fragPath(cat) {
		return "makefile-line"
	}
	var own *c17TreePkg // the package in whose directory the fragment lives
	for i := range sc.Pkgs {
		if (sc.FragLoc == "own" && sc.Pkgs[i].Dir == "pa") || (sc.FragLoc == "other" && sc.Pkgs[i].Dir == "pb") {
			own = &sc.Pkgs[i]
		}
	}
	switch {
	case own == nil:
		return "fragment-in-no-package-directory"
	case own.Spelling == "":
		return "fragment-included-only-by-another-package"
	case own.Spelling == "${.CURDIR}/inc.mk":
		return "fragment-included-as-curdir"
	}
	return "fragment-included-by-its-package"
}

func c17TreeSize(sc c17Scenario) int {
	n := 1000 + 100*len(sc.Frag) + 200*len(sc.Pkgs)
	for _, p := range sc.Pkgs {
		n += 100 * (len(p.Pre) + len(p.Post))
	}
	return n + len(sc.String())/4
}

func c17TreeReplay(sc c17Scenario, extra map[string]any) map[string]any {
	data, _ := json.Marshal(sc)
	r := map[string]any{"kind": "scenario", "layer": "pkgtree", "scenario": hx(string(data)), "text": sc.String()}
	for k, v := range extra {
		r[k] = v
	}
	return r
}

// ---------- scenarios ----------

func c17RandomLines(rng *Rng, nv, n int, focus bool) c17Prog {
	var p c17Prog
	for i := 0; i < n; i++ {
		if rng.Chance(6) {
			p = append(p, c17Line{Raw: Pick(rng, []string{"", "# comment"})})
			continue
		}
		v := rng.Intn(nv)
		if focus && rng.Chance(70) {
			v = 0
		}
		op := c17Ops[rng.Intn(len(c17Ops))]
		if rng.Chance(35) {
			op = "="
		}
		var val []c17Chunk
		switch k := rng.Intn(10); {
		case k < 5:
			val = []c17Chunk{{false, Pick(rng, []string{"a", "b", "a b"})}}
		case k < 8:
			val = []c17Chunk{{true, c17VarNames[rng.Intn(nv)]}}
		case k < 9:
			val = []c17Chunk{{false, "a"}, {true, c17VarNames[rng.Intn(nv)]}}
		default:
			val = nil
		}
		p = append(p, c17Line{Assign: true, Var: c17VarNames[v], Op: op, Val: val})
	}
	return p
}

// spellings of the include of the fragment from package dir, by fragment location
func c17TreeSpellings(loc, dir string) map[string]string {
	switch {
	case (loc == "own" && dir == "pa") || (loc == "other" && dir == "pb"):
		return map[string]string{"plain": "inc.mk", "dot-slash": "./inc.mk", "canonical": "../../CAT/" + dir + "/inc.mk", "curdir": "${.CURDIR}/inc.mk",
			"detour-sibling": "../" + dir + "/inc.mk", "detour-updown": "../../CAT/../CAT/" + dir + "/inc.mk", "curdir-detour": "${.CURDIR}/../" + dir + "/inc.mk"}
	case loc == "own":
		return map[string]string{"sibling": "../pa/inc.mk", "canonical": "../../CAT/pa/inc.mk"}
	case loc == "other":
		return map[string]string{"sibling": "../pb/inc.mk", "canonical": "../../CAT/pb/inc.mk"}
	}
	return map[string]string{"sibling": "../common/inc.mk", "canonical": "../../CAT/common/inc.mk"}
}

func c17RandomScenario(rng *Rng) c17Scenario {
	var sc c17Scenario
	sc.FragLoc = Pick(rng, []string{"own", "own", "own", "other", "shared"})
	nv := 2 + rng.Intn(2)
	focus := rng.Chance(60)
	sc.Frag = c17RandomLines(rng, nv, 1+rng.Intn(4), focus)
	two := rng.Chance(45)
	pick := func(m map[string]string) (string, string) {
		k := Pick(rng, sortedKeys(m))
		return k, m[k]
	}
	kind, sp := pick(c17TreeSpellings(sc.FragLoc, "pa"))
	sc.FragKind = kind
	sc.Pkgs = append(sc.Pkgs, c17TreePkg{"pa", c17RandomLines(rng, nv, rng.Intn(4), focus), c17RandomLines(rng, nv, rng.Intn(3), focus), sp})
	if two {
		_, spb := pick(c17TreeSpellings(sc.FragLoc, "pb"))
		if rng.Chance(25) {
			spb = "" // pb does not include the fragment (it may still own it)
		}
		sc.Pkgs = append(sc.Pkgs, c17TreePkg{"pb", c17RandomLines(rng, nv, rng.Intn(4), focus), c17RandomLines(rng, nv, rng.Intn(3), focus), spb})
		if rng.Chance(75) {
			sc.Args = []string{"-r", "CAT"}
		} else {
			sc.Args = []string{Pick(rng, []string{"CAT/pa", "CAT/pb"})}
		}
	} else {
		sc.Args = []string{"CAT/pa"}
	}
	sc.Name = fmt.Sprintf("random %s/%s/%dpkg", sc.FragLoc, sc.FragKind, len(sc.Pkgs))
	return sc
}

// the situation of the seeded mutation C17-m2, in every spelling and location,
// and the stand-alone analyses of the pinned code
func c17FixedScenarios() []c17Scenario {
	a := func(v, op, s string) c17Line {
		return c17Line{Assign: true, Var: v, Op: op, Val: []c17Chunk{{false, s}}}
	}
	frag := c17Prog{{Raw: "# $NetBSD$"}, {Raw: ""}, a("VA", "?=", "1"), a("VA", "=", "1")}
	var out []c17Scenario
	for _, loc := range []string{"own", "other", "shared"} {
		sp := c17TreeSpellings(loc, "pa")
		for _, kind := range sortedKeys(sp) {
			out = append(out, c17Scenario{
				Pkgs:    []c17TreePkg{{"pa", c17Prog{a("VA", "=", "2")}, nil, sp[kind]}},
				FragLoc: loc, FragKind: kind, Frag: frag, Args: []string{"CAT/pa"}, Name: "fixed " + loc + "/" + kind,
			})
		}
		spb := c17TreeSpellings(loc, "pb")
		for _, kind := range sortedKeys(sp) {
			for _, kb := range sortedKeys(spb) {
				out = append(out, c17Scenario{
					Pkgs: []c17TreePkg{{"pa", c17Prog{a("VA", "=", "2")}, nil, sp[kind]},
						{"pb", c17Prog{a("VA", "=", "3")}, nil, spb[kb]}},
					FragLoc: loc, FragKind: kind, Frag: frag, Args: []string{"-r", "CAT"}, Name: "fixed -r " + loc + "/" + kind + "+" + kb,
				})
			}
		}
	}
	// a fragment shared by two packages: what is right for pa (nothing before the
	// include) is printed for the shared file and is wrong for pb (VA= 2 before)
	out = append(out, c17Scenario{
		Pkgs: []c17TreePkg{{"pa", nil, nil, "../../CAT/common/inc.mk"},
			{"pb", c17Prog{a("VA", "=", "2")}, nil, "../../CAT/common/inc.mk"}},
		FragLoc: "shared", FragKind: "canonical", Frag: frag, Args: []string{"-r", "CAT"}, Name: "fixed -r shared/pa-plain-pb-sets",
	})
	// the fragment lives in pb's directory, only pa includes it
	out = append(out, c17Scenario{
		Pkgs: []c17TreePkg{{"pa", c17Prog{a("VA", "=", "2")}, nil, "../../CAT/pb/inc.mk"},
			{"pb", c17Prog{a("VB", "=", "3")}, nil, ""}},
		FragLoc: "other", FragKind: "canonical", Frag: frag, Args: []string{"-r", "CAT"}, Name: "fixed -r other/only-pa-includes",
	})
	out = append(out, c17Scenario{
		Pkgs: []c17TreePkg{{"pa", c17Prog{a("VA", "=", "2")}, nil, "../pb/inc.mk"},
			{"pb", c17Prog{a("VB", "=", "3")}, nil, ""}},
		FragLoc: "other", FragKind: "sibling", Frag: frag, Args: []string{"-r", "CAT"}, Name: "fixed -r other/only-pa-includes (sibling)",
	}, c17Scenario{
		Pkgs: []c17TreePkg{{"pa", c17Prog{a("VA", "=", "2")}, nil, "../../CAT/pb/inc.mk"},
			{"pb", c17Prog{a("VB", "=", "3")}, nil, ""}},
		FragLoc: "other", FragKind: "canonical", Frag: frag, Args: []string{"CAT/pb"}, Name: "fixed other/only-pa-includes, pb checked",
	})
	return out
}

func c17TreeRunOne(ctx *Ctx, root, cat string, sc c17Scenario) (c17TreeRunResult, error) {
	r := c17TreeRunResult{sc: sc, cat: cat}
	if err := c17TreeWrite(root, cat, sc); err != nil {
		return r, err
	}
	args := []string{"-Wall"}
	for _, a := range sc.Args {
		args = append(args, strings.ReplaceAll(a, "CAT", cat))
	}
	out, crashed, err := c17RunBinaryArgs(ctx, root, args)
	if err != nil {
		return r, fmt.Errorf("%v: %s", err, out)
	}
	r.crashed = crashed
	r.observed = c17ParseTreeDiags(out)
	c17SortPathVerdicts(r.observed)
	return r, nil
}

func c17TreeLayer(ctx *Ctx, res *Result) {
	root, err := c17PrepareTree(ctx)
	if err != nil {
		res.Broken = err.Error()
		return
	}
	nrand := 200
	if ctx.Tier == "thorough" {
		nrand = 4000
	}
	rng := NewRng(ctx.Seed ^ 0x7ee)
	scs := c17FixedScenarios()
	for i := 0; i < nrand; i++ {
		scs = append(scs, c17RandomScenario(rng))
	}
	runs := make([]c17TreeRunResult, len(scs))
	errs := make([]string, len(scs))
	const workers = 16
	parallelFor(workers, func(w int) {
		cat := fmt.Sprintf("cw%d", w)
		for i := w; i < len(scs); i += workers {
			r, err := c17TreeRunOne(ctx, root, cat, scs[i])
			if err != nil {
				errs[i] = err.Error()
			}
			runs[i] = r
		}
	})
	for i, sc := range scs {
		if errs[i] != "" {
			res.Broken = "running the real binary failed: " + errs[i]
			return
		}
		res.Count("pkgtree_runs", 1)
		res.Count("pkgtree_frag_"+sc.FragLoc, 1)
		res.Count("pkgtree_spelling_"+sc.FragKind, 1)
		if sc.Args[0] == "-r" {
			res.Count("pkgtree_runs_recursive", 1)
		}
	}
	res.Evaluations += len(scs)
	c17TreeJudge(ctx, res, runs)
}

func c17TreeReplayRun(ctx *Ctx, res *Result, rep map[string]any) {
	h, _ := rep["scenario"].(string)
	var sc c17Scenario
	if err := json.Unmarshal([]byte(unhx(h)), &sc); err != nil {
		res.Broken = "replay file has no scenario: " + err.Error()
		return
	}
	root, err := c17PrepareTree(ctx)
	if err != nil {
		res.Broken = err.Error()
		return
	}
	r, err := c17TreeRunOne(ctx, root, "cw0", sc)
	if err != nil {
		res.Broken = err.Error()
		return
	}
	c17TreeJudge(ctx, res, []c17TreeRunResult{r})
	res.Evaluations = 1
}
