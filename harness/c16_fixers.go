package main

// C16 unit correspondence, round 4: the fixer models check_cvsid, plist_pass and
// used_by of coq/Model/Settle.v against the real functions, driven in-process
// through shim/verif_c16.go (a fresh Pkglint per pass, the file is loaded from
// disk again for every pass):
//
//   used_by    <-> MkLines.CheckUsedBy on a Makefile.common     (all files of <= L lines over 8 line shapes)
//   plist_pass <-> CheckLinesPlist(nil, …) on a PLIST           (all files of <= L lines over 15 line shapes + an unsortable marker)
//   check_cvsid<-> Lines.CheckCvsID with the arguments of its three kinds of call sites
//
// For every case the real fixer runs four passes; pass i must give what the
// i-th iteration of the model gives (file content; AUTOFIX lines are printed iff
// the file changes), and the model chain must be at its fixed point by then.
// On a mismatch the specification is evaluated on the implementation (6 passes):
// no fixed point, or a pass that repeats the action of the pass before on a
// line that was already there = found input; otherwise a broken correspondence.

import (
	"fmt"
	"os"
	"os/exec"
	"path/filepath"
	"strings"

	pkglint "github.com/rillig/pkglint/v23"
)

type c16FCase struct {
	kind  string // usedby plist cvsid-plain cvsid-mk cvsid-plist
	arg   string // usedby: the relative name of the including file
	lines []string
	noEol bool // the last line is not terminated
}

func (c c16FCase) content() string {
	if len(c.lines) == 0 {
		return ""
	}
	if c.noEol {
		return strings.Join(c.lines, "\n")
	}
	return strings.Join(c.lines, "\n") + "\n"
}

// c16Crlf: the same file with every line ending in \r\n (the \r is part of Line.Text)
func c16Crlf(ls []string) []string {
	out := make([]string, len(ls))
	for i, l := range ls {
		out[i] = l + "\r"
	}
	return out
}

func (c c16FCase) request(ls []string) string {
	var t []string
	switch {
	case c.kind == "usedby":
		t = []string{"usedby", hx(c.arg), fmt.Sprint(len(ls))}
	case c.kind == "plist":
		t = []string{"plist", fmt.Sprint(len(ls))}
	default:
		t = []string{"cvsid", strings.TrimPrefix(c.kind, "cvsid-"), fmt.Sprint(len(ls))}
	}
	for _, l := range ls {
		t = append(t, hx(l))
	}
	return strings.Join(t, " ")
}

func (c c16FCase) real(passes int) []pkglint.VerifC16Pass {
	switch {
	case c.kind == "usedby":
		return pkglint.VerifC16UsedBy(c.content(), c.arg, passes)
	case c.kind == "plist":
		return pkglint.VerifC16Plist(c.content(), passes)
	}
	return pkglint.VerifC16CvsID(strings.TrimPrefix(c.kind, "cvsid-"), c.content(), passes)
}

const c16UsedByName = "cat/p/Makefile"
const c16PlistMarker = "${X}/unsortable"

var c16UsedByAlphabet = []string{"", "#", "# $" + "NetBSD$", "# comment", "# used by " + c16UsedByName, "# used by cat/q/Makefile", "# used by a b", "VAR=\tvalue"}

// further shapes for the line classification (MkLineParser): indented comments, blank lines
var c16UsedByExtra = []string{" # indented", "\t# after a tab", "   ", "\t", "#VAR=\tcommented", "\t# used by " + c16UsedByName,
	// lines of a CRLF file: the \r stays in Line.Text
	"\r", "#\r", "# $" + "NetBSD$\r", "# used by " + c16UsedByName + "\r", "VAR=\tvalue\r"}

var c16PlistAlphabet = []string{"@comment $" + "NetBSD$", "", "bin/a", "man/man1/a.1.gz", "man/man1/b.1", "${PLIST.x}man/man3/c.3.gz",
	"${PKGMANDIR}/man1/d.1.gz", "man/cat1/e.0.gz.gz", "${PLIST.x}", "@comment c", "${PKGMANDIR}/man1/${PKGMANDIR}/f.1", "man/man1/g.gz", "${PLIST.x}${PLIST.y-z}man/manx/h..gz",
	"@unexec rmdir %D/share/x", "@unexec ${RMDIR} %D/y || ${TRUE}"}

var c16PlistExtra = []string{"man/man1/i.1.gz", "man/man8/j.8.gz", "${PLIST.y}man/cat5/k.0.gz", "${PKGMANDIR}", "${PKGMANDIR}/man5/l.5", "man/m.1.gz", "man/man1/n-1.gz", "man/man1/sub/o.1.gz",
	"share/man/man1/p.1.gz", "${PLIST.}man/man1/q.1.gz", "${PLIST.x}bin/r", "lib/s.gz", "man/mann/t.n.gz", "man/man3/u.3.gz.gz.gz", "@pkgdir v",
	"man/man1/README", "man/man1/w.", "/absolute/x.1.gz", "man/man1/", "man",
	"@comment $" + "NetBSD$\r", "bin/a\r", "man/man1/a.1.gz\r", "\r", "${PLIST.x}\r", "${PKGMANDIR}/man1/d.1.gz\r", "@unexec rmdir %D/x\r",
	"@unexec ${RMDIR} %D/share/z", "@unexec rmdir %D/t 2>/dev/null || true", "@unexec\t rmdir", "@unexec echo rmdir", "@exec rmdir %D/u", "@unexec ${RMDIR} /abs", "${PLIST.x}@unexec rmdir %D/v", "@unexec-x rmdir %D/w"}

func c16AllSeqs(alpha []string, maxLen int, f func([]string)) {
	var rec func(cur []string)
	rec = func(cur []string) {
		f(cur)
		if len(cur) == maxLen {
			return
		}
		for _, a := range alpha {
			rec(append(append([]string{}, cur...), a))
		}
	}
	rec(nil)
}

// c16PlistInDomain: the parts of CheckLinesPlist that the model leaves out must not fire:
// no two equal lines (checkDuplicate), the unsortable marker is present (plistLineSorter).
func c16PlistInDomain(ls []string) bool {
	seen := map[string]bool{}
	marker := false
	for _, l := range ls {
		if l == c16PlistMarker || l == c16PlistMarker+"\r" {
			marker = true
		}
		if l != "" && !strings.HasPrefix(l, "@") && seen[l] {
			return false
		}
		seen[l] = true
	}
	return marker
}

func c16FixerCases(ctx *Ctx, rng *Rng) (cases []c16FCase, exhaustiveLen map[string]int) {
	lu, lp, nrand := 4, 3, 500
	if ctx.Tier == "thorough" {
		lu, lp, nrand = 5, 4, 5000
	}
	exhaustiveLen = map[string]int{"usedby": lu, "plist": lp}
	c16AllSeqs(c16UsedByAlphabet, lu, func(ls []string) {
		cases = append(cases, c16FCase{"usedby", c16UsedByName, ls, false})
	})
	allU := append(append([]string{}, c16UsedByAlphabet...), c16UsedByExtra...)
	c16AllSeqs(allU, 3, func(ls []string) {
		for _, l := range ls {
			for _, x := range c16UsedByExtra {
				if l == x {
					cases = append(cases, c16FCase{"usedby", c16UsedByName, ls, false})
					return
				}
			}
		}
	})
	for i := 0; i < nrand; i++ {
		n := lu + 1 + rng.Intn(6)
		ls := make([]string, n)
		for j := range ls {
			if rng.Chance(80) {
				ls[j] = Pick(rng, c16UsedByAlphabet)
			} else {
				ls[j] = Pick(rng, allU)
			}
		}
		cases = append(cases, c16FCase{"usedby", c16UsedByName, ls, false})
	}
	idx := 0
	c16AllSeqs(c16PlistAlphabet, lp, func(ls []string) {
		// the marker at a position that rotates with the index
		idx++
		at := idx % (len(ls) + 1)
		f := append(append(append([]string{}, ls[:at]...), c16PlistMarker), ls[at:]...)
		if c16PlistInDomain(f) {
			cases = append(cases, c16FCase{"plist", "", f, false})
		}
	})
	all := append(append([]string{}, c16PlistAlphabet...), c16PlistExtra...)
	for i := 0; i < nrand; i++ {
		n := 1 + rng.Intn(12)
		ls := make([]string, n)
		for j := range ls {
			ls[j] = Pick(rng, all)
		}
		ls[rng.Intn(n)] = c16PlistMarker
		if rng.Chance(70) {
			ls[0] = "@comment $" + "NetBSD$"
			if n == 1 {
				ls = append(ls, c16PlistMarker)
			}
		}
		if c16PlistInDomain(ls) {
			cases = append(cases, c16FCase{"plist", "", ls, false})
		}
	}
	// the early return of CheckLinesPlist: nothing but the CVS id
	cases = append(cases, c16FCase{"plist", "", []string{"@comment $" + "NetBSD$"}, false}, c16FCase{"plist", "", []string{"@comment $" + "NetBSD: PLIST,v 1.1 2020/01/01 00:00:00 u Exp $"}, false})
	firsts := []string{"$" + "NetBSD$", "# $" + "NetBSD$", "#\t $" + "NetBSD: x $", "#$" + "NetBSD$", "@comment $" + "NetBSD$", "@comment  $" + "NetBSD$",
		"$" + "NetBSD: a$b $", "$" + "NetBSD:$", "", "x", "# $" + "NetBSD", "@comment $" + "NetBSD: f,v 1.1 $", "#  $" + "NetBSD: Makefile,v 1.2 2020/01/01 00:00:00 u Exp $", " # $" + "NetBSD$"}
	for _, k := range []string{"cvsid-plain", "cvsid-mk", "cvsid-plist"} {
		cases = append(cases, c16FCase{k, "", nil, false})
		for _, f := range firsts {
			cases = append(cases, c16FCase{k, "", []string{f}, false}, c16FCase{k, "", []string{f, ""}, false}, c16FCase{k, "", []string{f, "y", "$" + "NetBSD$"}, false})
		}
	}
	// terminators: for a sample of all cases the same file entirely CRLF, and with an unterminated last line
	n0 := len(cases)
	for i := 0; i < n0; i += 5 {
		c := cases[i]
		if len(c.lines) == 0 {
			continue
		}
		cases = append(cases, c16FCase{c.kind, c.arg, c16Crlf(c.lines), false})
		if c.lines[len(c.lines)-1] != "" { // an unterminated last line is never empty
			cases = append(cases, c16FCase{c.kind, c.arg, c.lines, true})
		}
		if i%10 == 0 {
			cases = append(cases, c16FCase{c.kind, c.arg, c16Crlf(c.lines), true})
		}
	}
	return cases, exhaustiveLen
}

// c16ParseModel: "ok <n> line..." | "panic" | "fuel"
func c16ParseModel(ans string) (status string, ls []string) {
	f := strings.Fields(ans)
	if len(f) == 0 {
		return "bad", nil
	}
	if f[0] != "ok" {
		return f[0], nil
	}
	for _, h := range f[2:] {
		ls = append(ls, unhx(h))
	}
	return "ok", ls
}

const c16FixerPasses = 4

func c16Fixers(ctx *Ctx, res *Result, rng *Rng) {
	cases, exLen := c16FixerCases(ctx, rng)
	// the model chain: m[1] = M(input), m[2] = M(m[1]), m[3] = M(m[2])
	type chain struct {
		status [c16FixerPasses + 1]string
		ls     [c16FixerPasses + 1][]string
	}
	chains := make([]chain, len(cases))
	for i, c := range cases {
		chains[i].status[0] = "ok"
		chains[i].ls[0] = c.lines
	}
	var crossReq, crossAns []string
	for p := 1; p <= c16FixerPasses; p++ {
		reqs := make([]string, len(cases))
		for i, c := range cases {
			if chains[i].status[p-1] == "ok" {
				reqs[i] = c.request(chains[i].ls[p-1])
			} else {
				reqs[i] = c.request(nil) // not used
			}
		}
		ans, err := runOracle(ctx, "c16", reqs)
		if err != nil {
			res.Broken = err.Error()
			return
		}
		for i := range cases {
			if chains[i].status[p-1] != "ok" {
				chains[i].status[p] = chains[i].status[p-1]
				continue
			}
			chains[i].status[p], chains[i].ls[p] = c16ParseModel(ans[i])
			if chains[i].status[p] == "bad" || chains[i].status[p] == "fuel" {
				res.Broken = fmt.Sprintf("oracle answered %q to %q", ans[i], reqs[i])
				return
			}
		}
		if p == 1 {
			// a sample for the extraction cross-check
			step := len(cases)/150 + 1
			for i := 0; i < len(cases); i += step {
				crossReq = append(crossReq, reqs[i])
				crossAns = append(crossAns, ans[i])
			}
		}
	}
	// the real code; the shim serialises the calls (global state G)
	reals := make([][]pkglint.VerifC16Pass, len(cases))
	for i, c := range cases {
		reals[i] = c.real(c16FixerPasses)
	}
	// load_file / save_file of the model against the bytes: what the real SaveAutofixChanges wrote in
	// pass 1 must load (model) to the texts the model predicted, and the input file itself to the
	// lines it was made of; save_file of these lines gives the input bytes back
	{
		var lreq []string
		var lidx []int
		for i, c := range cases {
			if i%3 == 0 && len(reals[i]) > 0 && reals[i][0].Panic == "" && chains[i].status[1] == "ok" {
				lreq = append(lreq, "load "+hx(reals[i][0].After), "load "+hx(c.content()), "save "+bit(!c.noEol)+" "+fmt.Sprint(len(c.lines))+c16HexLines(c.lines))
				lidx = append(lidx, i)
			}
		}
		lans, err := runOracle(ctx, "c16", lreq)
		if err != nil {
			res.Broken = err.Error()
			return
		}
		for j, i := range lidx {
			c := cases[i]
			wantAfter := strings.TrimSpace(fmt.Sprint(len(chains[i].ls[1])) + c16HexLines(chains[i].ls[1]))
			gotAfter := strings.TrimSpace(lans[3*j][2:])
			wantIn := bit(!c.noEol || len(c.lines) == 0) + " " + strings.TrimSpace(fmt.Sprint(len(c.lines))+c16HexLines(c.lines))
			if gotAfter != wantAfter || strings.TrimSpace(lans[3*j+1]) != wantIn || unhx(strings.TrimSpace(lans[3*j+2])) != c.content() {
				res.AddViolation(Violation{Key: "C16/correspondence/load-save", FoundInput: false, Size: len(c.content()),
					What:   fmt.Sprintf("%s %q: load_file of the saved file %q gives %q, the model of the fixer %q; load_file of the input %q (expected %q); save_file %q", c.kind, c.lines, reals[i][0].After, gotAfter, wantAfter, lans[3*j+1], wantIn, lans[3*j+2]),
					Replay: map[string]any{"kind": "fixer", "fixer": c.kind, "arg": c.arg, "lines": hx(strings.Join(c.lines, "\n")), "nlines": len(c.lines), "no_eol": c.noEol, "broken": "correspondence Model/Settle.v load_file/save_file = Load/SaveAutofixChanges"}})
				break
			}
			res.Count("fixers.load_file/save_file compared with the bytes on disk", 1)
		}
	}
	reported := map[string]bool{}
	for i, c := range cases {
		ch := chains[i]
		real := reals[i]
		res.Evaluations++
		res.TracesValidated++
		res.Count("fixers."+c.kind+" cases", 1)
		if c.noEol {
			res.Count("fixers."+c.kind+" cases with an unterminated last line", 1)
		}
		if len(c.lines) > 0 && strings.HasSuffix(c.lines[0], "\r") {
			res.Count("fixers."+c.kind+" cases whose first line ends in CR LF", 1)
		}
		changedPasses := 0
		mismatch := ""
		prev := c.content()
		for p := 1; p <= c16FixerPasses; p++ {
			if ch.status[p] == "panic" {
				if p > len(real) || real[p-1].Panic == "" {
					mismatch = fmt.Sprintf("pass %d: the model says the Go code panics, it does not", p)
				} else {
					res.Count("fixers."+c.kind+" panics (model and code)", 1)
				}
				break
			}
			if p > len(real) {
				mismatch = fmt.Sprintf("pass %d was not run: pass %d panicked: %s", p, len(real), real[len(real)-1].Panic)
				break
			}
			r := real[p-1]
			if r.Panic != "" {
				mismatch = fmt.Sprintf("pass %d: the Go code panics (%s), the model does not", p, r.Panic)
				break
			}
			// the model speaks about the texts of the re-loaded file; if every line of the
			// input was terminated, so is every line of the output: compare the bytes
			want := c16FCase{lines: ch.ls[p]}.content()
			if !c.noEol && r.After != want || c.noEol && strings.Join(c16SplitLines(r.After), "\n") != strings.Join(ch.ls[p], "\n") {
				mismatch = fmt.Sprintf("pass %d: the file is %q, the model says the lines %q", p, r.After, ch.ls[p])
				break
			}
			logged := strings.Contains(r.Stdout, "AUTOFIX:")
			if logged != (r.After != prev) {
				mismatch = fmt.Sprintf("pass %d: AUTOFIX lines logged = %v, file changed = %v (%q)", p, logged, r.After != prev, r.Stdout)
				break
			}
			if r.After != prev {
				changedPasses++
			}
			prev = r.After
		}
		if mismatch == "" && ch.status[c16FixerPasses] == "ok" && strings.Join(ch.ls[c16FixerPasses], "\n") != strings.Join(ch.ls[c16FixerPasses-1], "\n") {
			res.Broken = fmt.Sprintf("generator: the model of %s %q is not at its fixed point after %d passes", c.kind, c.lines, c16FixerPasses-1)
			return
		}
		if mismatch == "" {
			res.Count(fmt.Sprintf("fixers.%s changing-passes=%d", c.kind, changedPasses), 1)
			if changedPasses > 0 {
				res.mu.Lock()
				res.DistinctNontrivial++
				res.mu.Unlock()
			}
			if c.kind == "plist" && changedPasses > 0 {
				for _, k := range c16Kinds(c04Canon(ParseDiags(real[0].Stdout))) {
					res.Count("fixers.plist pass1-action "+k, 1)
				}
			}
			continue
		}
		// disagreement: evaluate the specification on the implementation
		rep := map[string]any{"kind": "fixer", "fixer": c.kind, "arg": c.arg, "lines": hx(strings.Join(c.lines, "\n")), "nlines": len(c.lines), "no_eol": c.noEol}
		key, what, found := c16JudgeFixer(c)
		if !found {
			key = "C16/correspondence/" + c.kind
			what = fmt.Sprintf("%s %q: %s", c.kind, c.lines, mismatch)
			rep["broken"] = "correspondence Model/Settle.v " + map[string]string{"usedby": "used_by = MkLines.CheckUsedBy", "plist": "plist_pass = CheckLinesPlist", "cvsid-plain": "check_cvsid = Lines.CheckCvsID", "cvsid-mk": "check_cvsid = Lines.CheckCvsID", "cvsid-plist": "check_cvsid = Lines.CheckCvsID"}[c.kind]
			rep["detail"] = mismatch
		}
		if reported[key] {
			continue
		}
		reported[key] = true
		res.AddViolation(Violation{Key: key, What: what, FoundInput: found, Size: len(c.content()), Replay: rep})
	}
	res.Count("fixers.exhaustive usedby: all files of up to N lines over 8 line shapes, N", exLen["usedby"])
	res.Count("fixers.exhaustive plist: all files of up to N lines over 15 line shapes (+ marker), N", exLen["plist"])
	c16FixerFloors(res)
	c16CrossCheckExtraction(ctx, res, crossReq, crossAns)
}

// c16JudgeFixer evaluates the property on the implementation alone: six passes.
func c16JudgeFixer(c c16FCase) (key, what string, found bool) {
	real := c.real(6)
	var contents []string
	contents = append(contents, c.content())
	for _, r := range real {
		if r.Panic != "" {
			return "", "", false
		}
		contents = append(contents, r.After)
	}
	n := len(real)
	if n == 6 && contents[6] != contents[5] {
		return "C16/unit/fixer-does-not-settle/" + c.kind,
			fmt.Sprintf("%s %q: the file still changes in the sixth pass of the fixer: %q -> %q (logged %q)", c.kind, c.lines, contents[5], contents[6], real[5].Stdout), true
	}
	for p := 2; p <= n; p++ {
		if contents[p] == contents[p-1] {
			continue
		}
		prevIn, curIn := c04Files{"f": contents[p-2]}, c04Files{"f": contents[p-1]}
		mk := func(stdout string) c16Pass {
			var ds []Diag
			for _, d := range ParseDiags(stdout) {
				if d.Level == "AUTOFIX" {
					d.Path = "f"
					ds = append(ds, d)
				}
			}
			return c16Pass{Fixes: ds}
		}
		if fs := c16RepeatedFixes(c04Cfg{}, prevIn, curIn, mk(real[p-2].Stdout), mk(real[p-1].Stdout), p); len(fs) > 0 {
			return "C16/unit/one-pass-per-kind/" + c.kind, fmt.Sprintf("%s %q: %s", c.kind, c.lines, fs[0].What), true
		}
	}
	return "", "", false
}

// a correspondence that stops reaching the branches the theorems name is broken
func c16FixerFloors(res *Result) {
	if len(res.Violations) > 0 {
		return
	}
	get := func(k string) int { n, _ := res.Distribution[k].(int); return n }
	for _, f := range []struct {
		k string
		n int
	}{
		{"fixers.usedby changing-passes=1", 500}, {"fixers.usedby changing-passes=0", 500},
		{"fixers.plist changing-passes=1", 200}, {"fixers.plist changing-passes=2", 200}, {"fixers.plist changing-passes=0", 5},
		{"fixers.plist pass1-action Deleting this line.", 100}, {"fixers.plist pass1-action Replacing _ with _.", 200}, {"fixers.plist pass1-action Inserting a line _ above this line.", 100},
		{"fixers.cvsid-mk changing-passes=1", 10}, {"fixers.cvsid-plain changing-passes=1", 10}, {"fixers.cvsid-plist changing-passes=1", 10},
		{"fixers.cvsid-mk changing-passes=0", 3}, {"fixers.cvsid-plain changing-passes=0", 3}, {"fixers.cvsid-plist changing-passes=0", 3},
	} {
		if get(f.k) < f.n && res.Broken == "" {
			res.Broken = fmt.Sprintf("%s: %d < %d", f.k, get(f.k), f.n)
		}
	}
}

func c16HexLines(ls []string) string {
	var sb strings.Builder
	for _, l := range ls {
		sb.WriteString(" " + hx(l))
	}
	return sb.String()
}

func c16CoqStr(s string) string {
	var b []string
	for i := 0; i < len(s); i++ {
		b = append(b, fmt.Sprint(s[i]))
	}
	return "[" + strings.Join(b, ";") + "]"
}

func c16CoqLines(ls []string) string {
	var b []string
	for _, l := range ls {
		b = append(b, c16CoqStr(l))
	}
	if len(b) == 0 {
		return "(@nil str)"
	}
	return "[" + strings.Join(b, ";") + "]"
}

// c16CrossCheckExtraction: a sample of the oracle's answers is evaluated again
// by coqc with vm_compute on the Gallina definitions themselves.
func c16CrossCheckExtraction(ctx *Ctx, res *Result, reqs, ans []string) {
	if res.Broken != "" {
		return
	}
	var sb strings.Builder
	sb.WriteString("From PV Require Import Lib.Bytes Model.Settle.\nOpen Scope N_scope.\n")
	n := 0
	for i, rq := range reqs {
		f := strings.Fields(rq)
		status, out := c16ParseModel(ans[i])
		var lhs, rhs string
		unhxAll := func(hs []string) []string {
			var ls []string
			for _, h := range hs {
				ls = append(ls, unhx(h))
			}
			return ls
		}
		switch f[0] {
		case "usedby":
			lhs = fmt.Sprintf("used_by %s %s", c16CoqStr(unhx(f[1])), c16CoqLines(unhxAll(f[3:])))
			rhs = "None"
			if status == "ok" {
				rhs = "Some " + c16CoqLines(out)
			}
		case "plist":
			lhs = fmt.Sprintf("plist_pass %s", c16CoqLines(unhxAll(f[2:])))
			rhs = map[string]string{"panic": "PPanic", "fuel": "PFuel"}[status]
			if status == "ok" {
				rhs = "POk " + c16CoqLines(out)
			}
		case "cvsid":
			lhs = fmt.Sprintf("check_cvsid %s %s", map[string]string{"plain": "IdPlain", "mk": "IdMk", "plist": "IdPlist"}[f[1]], c16CoqLines(unhxAll(f[3:])))
			rhs = "None"
			if status == "ok" {
				rhs = "Some " + c16CoqLines(out)
			}
		default:
			continue
		}
		fmt.Fprintf(&sb, "Example case_%d : %s = %s.\nProof. vm_compute. reflexivity. Qed.\n", i, lhs, rhs)
		n++
	}
	file := filepath.Join(ctx.Work, "c16cases.v")
	if err := os.WriteFile(file, []byte(sb.String()), 0o644); err != nil {
		res.Broken = err.Error()
		return
	}
	cmd := exec.Command("timeout", "600", "coqc", "-Q", filepath.Join(ctx.Verif, "coq"), "PV", file)
	cmd.Dir = ctx.Work
	out, err := cmd.CombinedOutput()
	if err != nil {
		msg := string(out)
		if len(msg) > 600 {
			msg = msg[:600]
		}
		res.AddViolation(Violation{Key: "C16/extraction-vs-vm_compute",
			What:       "the extracted oracle and coqc's vm_compute disagree on the model (or coqc failed): " + msg,
			FoundInput: false, Replay: map[string]any{"broken": "extraction cross-check", "detail": msg}})
		return
	}
	res.Count("vm_compute_cross_checked", n)
}

func c16ReplayFixer(ctx *Ctx, res *Result, rep map[string]any) {
	kind, _ := rep["fixer"].(string)
	arg, _ := rep["arg"].(string)
	ls, _ := rep["lines"].(string)
	var lines []string
	if n, _ := rep["nlines"].(float64); n > 0 {
		lines = strings.Split(unhx(ls), "\n")
	}
	noEol, _ := rep["no_eol"].(bool)
	c := c16FCase{kind, arg, lines, noEol}
	fmt.Printf("== %s %q, file:\n%s", kind, arg, c.content())
	for p, r := range c.real(6) {
		fmt.Printf("== pass %d%s\n%s-- file: %q\n", p+1, map[bool]string{true: " PANIC " + r.Panic}[r.Panic != ""], r.Stdout, r.After)
	}
	res.Evaluations++
	if key, what, found := c16JudgeFixer(c); found {
		res.AddViolation(Violation{Key: key, What: what, FoundInput: true, Size: len(c.content()), Replay: rep})
		return
	}
	// a broken correspondence: compare the first pass with the model again
	ans, err := runOracle(ctx, "c16", []string{c.request(c.lines)})
	if err != nil {
		res.Broken = err.Error()
		return
	}
	status, out := c16ParseModel(ans[0])
	real := c.real(1)
	fmt.Printf("== model: %s %q\n", status, out)
	if len(real) == 1 && ((status == "panic") != (real[0].Panic != "") || (status == "ok" && real[0].After != c16FCase{lines: out}.content())) {
		rep["broken"], _ = rep["broken"].(string)
		res.AddViolation(Violation{Key: "C16/correspondence/" + kind, What: fmt.Sprintf("%s %q: the code gives %q, the model %s %q", kind, lines, real[0].After, status, out), FoundInput: false, Replay: rep})
	}
}

// `vharness run tool-c16-fixers …`: only the in-process fixer correspondence (coverage measurements, development).
func init() {
	register("tool-c16-fixers", func(ctx *Ctx) *Result {
		res := &Result{Rule: "tool: in-process fixer correspondence of C16 only"}
		c16Fixers(ctx, res, NewRng(ctx.Seed).Fork())
		return res
	}, nil)
}
