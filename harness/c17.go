package main

import (
	"encoding/json"
	"fmt"
	"os"
	"os/exec"
	"path/filepath"
	"regexp"
	"path"
	"sort"
	"strconv"
	"strings"
	"sync"

	pkglint "github.com/rillig/pkglint/v23"
)

// C17: 'redundant' / 'has no effect' / 'overwritten' verdicts are sound.
//
// Three layers:
//   U  unit correspondence: RedundantScope.Check on the real parser's MkLines
//      (shim VerifC17Redundant) against the extracted model Model/Redundant.v,
//      verdict sets compared, on all small programs and on random longer ones,
//      single file and with one included file
//   P  the property itself on the implementation: for every verdict the real
//      code emits, the extracted make evaluator (Spec/MakeEval.v) is run on the
//      program with and without the flagged line
//   W  whole run: the real binary on a generated package (Makefile + optional
//      included file) and on a stand-alone .mk file, NOTE/WARN lines checked
//      the same way

// ---------- programs ----------

type c17Chunk struct {
	Ref bool   `json:"ref,omitempty"`
	S   string `json:"s"`
}

type c17Line struct {
	File   int        `json:"file"` // 0 = main file, 1 = included file
	Lineno int        `json:"lineno"`
	Assign bool       `json:"assign"`
	Var    string     `json:"var,omitempty"`
	Op     string     `json:"op,omitempty"` // = += ?= := !=
	Val    []c17Chunk `json:"val,omitempty"`
	Raw    string     `json:"raw,omitempty"` // text of a line that is not an assignment
	// Path: the file name the line carries (mkline.Filename()); "" = c17FileNames[File].
	// In a path-labelled ("spelled") program File is the file the path DENOTES
	// (0 Makefile, 1 inc.mk, 2 inc2.mk), Path is how it is spelled.
	Path string `json:"path,omitempty"`
	// Cond: the line is inside a conditional section (.if 1 ... .endif), i.e.
	// Indentation.IsConditional() is true when RedundantScope sees it
	Cond bool `json:"cond,omitempty"`
}

type c17Prog []c17Line

type c17Verdict struct {
	Flagged, Because int
	Kind             byte // R redundant, N no effect, O overwritten
}

func (v c17Verdict) String() string {
	return fmt.Sprintf("%d:%d:%c", v.Flagged, v.Because, v.Kind)
}

var c17OpLetter = map[string]string{"=": "a", "!=": "s", ":=": "e", "+=": "p", "?=": "d"}
var c17Ops = []string{"=", "+=", "?=", ":=", "!="}

func c17Render(val []c17Chunk) string {
	var sb strings.Builder
	for _, c := range val {
		if c.Ref {
			sb.WriteString("${" + c.S + "}")
		} else {
			sb.WriteString(c.S)
		}
	}
	return sb.String()
}

func (l c17Line) Text() string {
	if !l.Assign {
		return l.Raw
	}
	return l.Var + l.Op + "\t" + c17Render(l.Val)
}

func (l c17Line) hasRef() bool {
	for _, c := range l.Val {
		if c.Ref {
			return true
		}
	}
	return false
}

func (l c17Line) uses(v string) bool {
	for _, c := range l.Val {
		if c.Ref && c.S == v {
			return true
		}
	}
	return false
}

func (l c17Line) word() string {
	file := strconv.Itoa(l.File)
	if l.Path != "" {
		file = "P" + hx(l.Path)
	}
	if l.Cond {
		file = "C" + file
	}
	if !l.Assign {
		return fmt.Sprintf("%s:%d:x", file, l.Lineno)
	}
	cs := "-"
	if len(l.Val) > 0 {
		parts := make([]string, len(l.Val))
		for i, c := range l.Val {
			k := "L"
			if c.Ref {
				k = "R"
			}
			h := hx(c.S)
			if h == "-" {
				h = ""
			}
			parts[i] = k + h
		}
		cs = strings.Join(parts, ",")
	}
	return fmt.Sprintf("%s:%d:%s:%s:%s", file, l.Lineno, c17OpLetter[l.Op], hx(l.Var), cs)
}

func (p c17Prog) words() string {
	ws := make([]string, len(p))
	for i, l := range p {
		ws[i] = l.word()
	}
	return strings.Join(ws, " ")
}

func (p c17Prog) String() string {
	ts := make([]string, len(p))
	for i, l := range p {
		t := strings.ReplaceAll(l.Text(), "\t", " ")
		if l.Cond {
			t = "[cond] " + t
		}
		if l.Path != "" {
			t = fmt.Sprintf("[%s:%d] %s", l.Path, l.Lineno, t)
		} else if l.File == 1 {
			t = "[inc] " + t
		}
		ts[i] = t
	}
	return strings.Join(ts, " ; ")
}

func (p c17Prog) fuel() int { return len(p) + 2 }

// spelled: the lines carry path names (oracle requests chkp/sndp instead of chk/snd)
func (p c17Prog) spelled() bool {
	for _, l := range p {
		if l.Path != "" {
			return true
		}
	}
	return false
}

func (p c17Prog) req(cmd string) string {
	if p.spelled() {
		return cmd + "p"
	}
	if cmd == "chk" {
		for _, l := range p {
			if l.Cond {
				return "chkc"
			}
		}
	}
	return cmd
}

func (p c17Prog) nAssign() int {
	n := 0
	for _, l := range p {
		if l.Assign {
			n++
		}
	}
	return n
}

func (p c17Prog) hasInclude() bool {
	for _, l := range p {
		if l.File != 0 {
			return true
		}
	}
	return false
}

var c17FileNames = [2]string{"main.mk", "inc.mk"}

// c17Number gives the lines their line numbers: main lines count up, an
// included block restarts at 1, the .include line itself is a main line.
func c17Number(p c17Prog) c17Prog {
	n := [2]int{0, 0}
	for i := range p {
		n[p[i].File]++
		p[i].Lineno = n[p[i].File]
	}
	return p
}

// ---------- the implementation ----------

var c17DiagRe = regexp.MustCompile(`^(NOTE|WARN): ([^:]+):(\d+): (?:(Definition of \S+ is redundant because of)|(Default assignment of \S+ has no effect because of)|(Variable \S+ is overwritten in)) (?:line (\d+)|([^: ]+):(\d+))\.$`)

// c17ParseDiags turns pkglint output into verdicts; fileID maps a file name in
// the output to 0/1 (or -1: not one of ours).  Lines that are not one of the
// three kinds are returned in other.
func c17ParseDiags(p c17Prog, out string, fileID func(name string) int) (vs []c17Verdict, other []string) {
	index := func(file, lineno int) int {
		for i, l := range p {
			if l.File == file && l.Lineno == lineno {
				return i
			}
		}
		return -1
	}
	for _, ln := range strings.Split(out, "\n") {
		if ln == "" {
			continue
		}
		m := c17DiagRe.FindStringSubmatch(ln)
		if m == nil {
			other = append(other, ln)
			continue
		}
		f := fileID(m[2])
		if f < 0 {
			other = append(other, ln)
			continue
		}
		n, _ := strconv.Atoi(m[3])
		kind := byte('R')
		if m[5] != "" {
			kind = 'N'
		} else if m[6] != "" {
			kind = 'O'
		}
		bf, bn := f, 0
		if m[7] != "" {
			bn, _ = strconv.Atoi(m[7])
		} else {
			bf = fileID(m[8])
			bn, _ = strconv.Atoi(m[9])
		}
		fi, bi := index(f, n), index(bf, bn)
		if fi < 0 || bi < 0 {
			other = append(other, ln)
			continue
		}
		vs = append(vs, c17Verdict{fi, bi, kind})
	}
	return
}

func c17SortVerdicts(vs []c17Verdict) {
	sort.Slice(vs, func(i, j int) bool {
		a, b := vs[i], vs[j]
		if a.Flagged != b.Flagged {
			return a.Flagged < b.Flagged
		}
		if a.Because != b.Because {
			return a.Because < b.Because
		}
		return a.Kind < b.Kind
	})
}

type c17Impl struct {
	verdicts []c17Verdict
	other    []string
	panicked string
}

// c17RunShim: the real parser + RedundantScope.Check.  Not reentrant (global G).
func c17RunShim(p c17Prog) c17Impl {
	lines := make([]pkglint.VerifC17Line, len(p))
	for i, l := range p {
		name := l.Path
		if name == "" {
			name = c17FileNames[l.File]
		}
		lines[i] = pkglint.VerifC17Line{File: name, Lineno: l.Lineno, Text: l.Text()}
	}
	spelled := p.spelled()
	out, pan := pkglint.VerifC17Redundant(lines)
	var r c17Impl
	r.panicked = pan
	r.verdicts, r.other = c17ParseDiags(p, out, func(name string) int {
		if spelled {
			// by what the path denotes; line numbers are unique per denoted file
			switch path.Base(name) {
			case "Makefile":
				return 0
			case "inc.mk":
				return 1
			case "inc2.mk":
				return 2
			}
			return -1
		}
		switch name {
		case "main.mk":
			return 0
		case "inc.mk":
			return 1
		}
		return -1
	})
	c17SortVerdicts(r.verdicts)
	return r
}

// ---------- the model ----------

type c17ModelVerdict struct {
	c17Verdict
	sound   bool
	guarded bool
	changed string
}

type c17Model struct {
	panicked bool
	wf       bool
	verdicts []c17ModelVerdict
}

func c17ParseModel(ans string) (c17Model, error) {
	var m c17Model
	if ans == "panic" {
		m.panicked = true
		m.wf = true // not reported for a panic
		return m, nil
	}
	fs := strings.Fields(ans)
	if len(fs) == 0 || fs[0] != "ok" {
		return m, fmt.Errorf("oracle answer %q", ans)
	}
	m.wf = true
	for _, f := range fs[1:] {
		if f == "wf0" {
			m.wf = false
			continue
		}
		ps := strings.Split(f, ":")
		if len(ps) != 6 {
			return m, fmt.Errorf("oracle verdict %q", f)
		}
		a, _ := strconv.Atoi(ps[0])
		b, _ := strconv.Atoi(ps[1])
		m.verdicts = append(m.verdicts, c17ModelVerdict{c17Verdict{a, b, ps[2][0]}, ps[3] == "S", ps[4] == "G", ps[5]})
	}
	sort.Slice(m.verdicts, func(i, j int) bool {
		a, b := m.verdicts[i].c17Verdict, m.verdicts[j].c17Verdict
		if a.Flagged != b.Flagged {
			return a.Flagged < b.Flagged
		}
		if a.Because != b.Because {
			return a.Because < b.Because
		}
		return a.Kind < b.Kind
	})
	return m, nil
}

// ---------- classification of an unsound verdict (the narrow key) ----------

// c17Class names the shape of a verdict whose flagged line cannot be deleted.
// It looks only at the program and the verdict.
func c17Class(p c17Prog, v c17Verdict) string {
	if v.Flagged < 0 || v.Flagged >= len(p) || v.Because < 0 || v.Because >= len(p) || !p[v.Flagged].Assign {
		return "malformed-verdict"
	}
	x := p[v.Flagged].Var
	fl, be := p[v.Flagged], p[v.Because]
	opName := map[string]string{"=": "assign", "+=": "append", "?=": "default", ":=": "eval", "!=": "shell"}
	switch {
	case v.Kind == 'O':
		// an eager assignment between the two lines that does not mention x itself
		direct, eager := false, false
		lo, hi := v.Flagged, v.Because
		if lo > hi {
			lo, hi = hi, lo
		}
		for i := lo + 1; i < hi; i++ {
			l := p[i]
			if !l.Assign {
				continue
			}
			if l.uses(x) || l.Var == x {
				direct = true
			}
			if (l.Op == ":=" || l.Op == "!=") && l.hasRef() {
				eager = true
			}
		}
		if fl.uses(x) {
			direct = true
		}
		if eager && !direct && v.Flagged < v.Because {
			return "overwritten-indirect-eval-read"
		}
		return "overwritten-other"
	case v.Flagged > v.Because:
		// the current line is said to repeat the remembered value
		if fl.Op == "?=" {
			return "default-has-effect"
		}
		// the last assignment that replaced the whole remembered text
		shell, evalRef := false, false
		nw := 0
		for i := 0; i < v.Flagged; i++ {
			l := p[i]
			if !l.Assign || l.Var != x {
				continue
			}
			nw++
			switch {
			case l.Op == "=" || (l.Op == "?=" && nw == 1):
				shell, evalRef = false, false
			case l.Op == ":=":
				shell, evalRef = false, l.hasRef()
			case l.Op == "!=":
				shell = true
			}
		}
		switch {
		case shell:
			return "redundant-after-shell-assign"
		case evalRef:
			return "redundant-after-eval-assign"
		}
		return "redundant-same-text-other"
	default:
		// an earlier line is flagged because of a later one
		nw := 0
		for i := 0; i < v.Flagged; i++ {
			if p[i].Assign && p[i].Var == x {
				nw++
			}
		}
		switch {
		case be.Op == "!=" && be.uses(x):
			return "earlier-assignment-before-shell-reading-it"
		case be.Op == "?=" && nw > 0:
			return "earlier-nonfirst-assignment-before-default"
		}
		return "earlier-" + opName[fl.Op] + "-before-" + opName[be.Op]
	}
}

// ---------- comparing one batch ----------

type c17Case struct {
	prog c17Prog
	impl c17Impl
	src  string // which generator
}

func c17Replay(c c17Case, extra map[string]any) map[string]any {
	data, _ := json.Marshal(c.prog)
	r := map[string]any{"kind": "program", "layer": "shim", "program": hx(string(data)), "text": c.prog.String(), "source": c.src}
	for k, v := range extra {
		r[k] = v
	}
	return r
}

// c17Judge compares implementation and model on the cases and evaluates the
// property on the implementation's verdicts.  layer = "shim" or "binary".
func c17Judge(ctx *Ctx, res *Result, cases []c17Case, layer string) {
	reqs := make([]string, len(cases))
	for i, c := range cases {
		reqs[i] = fmt.Sprintf("%s %d %s", c.prog.req("chk"), c.prog.fuel(), c.prog.words())
	}
	ans, err := runOracle(ctx, "c17", reqs)
	if err != nil {
		res.mu.Lock()
		res.Broken = err.Error()
		res.mu.Unlock()
		return
	}
	type pending struct {
		ci int
		v  c17Verdict
	}
	var second []pending
	var secondReqs []string
	models := make([]c17Model, len(cases))
	for i, c := range cases {
		m, err := c17ParseModel(ans[i])
		if err != nil {
			res.mu.Lock()
			res.Broken = err.Error() + " for " + c.prog.String()
			res.mu.Unlock()
			return
		}
		models[i] = m
		if !m.wf {
			res.mu.Lock()
			res.Broken = "generator produced a program outside wf_program: " + c.prog.String()
			res.mu.Unlock()
			return
		}
		c17Compare(res, c, m, layer)
		// soundness of the implementation's verdicts; a run that ends in the
		// (modelled) panic of includePath.popUntil is not a completed check
		if c.impl.panicked != "" && m.panicked {
			continue
		}
		for _, v := range c.impl.verdicts {
			known := false
			for _, mv := range m.verdicts {
				if mv.Flagged == v.Flagged {
					known = true
					if !mv.sound {
						c17Unsound(res, c, v, mv.changed, c17HasVerdict(m, v), layer)
					}
					break
				}
			}
			if !known {
				second = append(second, pending{i, v})
				secondReqs = append(secondReqs, fmt.Sprintf("%s %d %d %s", c.prog.req("snd"), c.prog.fuel(), v.Flagged, c.prog.words()))
			}
		}
	}
	if len(second) > 0 {
		ans2, err := runOracle(ctx, "c17", secondReqs)
		if err != nil {
			res.mu.Lock()
			res.Broken = err.Error()
			res.mu.Unlock()
			return
		}
		for k, pd := range second {
			if strings.HasPrefix(ans2[k], "U:") {
				c17Unsound(res, cases[pd.ci], pd.v, ans2[k][2:], false, layer)
			} else if ans2[k] != "S" {
				res.mu.Lock()
				res.Broken = "oracle answer " + q(ans2[k])
				res.mu.Unlock()
				return
			}
		}
	}
}

func c17HasVerdict(m c17Model, v c17Verdict) bool {
	for _, mv := range m.verdicts {
		if mv.c17Verdict == v {
			return true
		}
	}
	return false
}

func c17Unsound(res *Result, c c17Case, v c17Verdict, changed string, predicted bool, layer string) {
	class := c17Class(c.prog, v)
	key := "C17/unsound/" + class
	if !predicted {
		// the faithful model of the pinned code does not emit this verdict
		key += "/not-in-model"
	}
	var vars []string
	for _, h := range strings.Split(changed, ",") {
		vars = append(vars, unhx(h))
	}
	kind := map[byte]string{'R': "is redundant", 'N': "has no effect", 'O': "is overwritten"}[v.Kind]
	res.Count("unsound_verdicts_"+class, 1)
	res.AddViolation(Violation{
		Key: key,
		What: fmt.Sprintf("pkglint says line %d %s (because of line %d) in { %s }, but deleting it changes the final value of %s",
			v.Flagged+1, kind, v.Because+1, c.prog.String(), strings.Join(vars, ",")),
		FoundInput: true, Size: c17Size(c.prog),
		Replay: c17ReplayLayer(c, layer, map[string]any{"verdict": v.String(), "changed": vars}),
	})
}

// c17Size orders witnesses: fewer lines first, then no self references
// (their values are make's "recursive variable" error), then shorter text.
func c17Size(p c17Prog) int {
	n := 100 * len(p)
	for _, l := range p {
		if l.Assign && l.uses(l.Var) {
			n += 20
		}
		if l.File != 0 {
			n += 5
		}
	}
	return n + len(p.String())/4
}

func c17ReplayLayer(c c17Case, layer string, extra map[string]any) map[string]any {
	r := c17Replay(c, extra)
	r["layer"] = layer
	return r
}

func c17Compare(res *Result, c c17Case, m c17Model, layer string) {
	res.mu.Lock()
	res.TracesValidated++
	res.mu.Unlock()
	if (c.impl.panicked != "") != m.panicked {
		res.AddViolation(Violation{
			Key:        "C17/correspondence/panic-" + layer,
			What:       fmt.Sprintf("implementation %q, model panic=%v on { %s }", c.impl.panicked, m.panicked, c.prog.String()),
			FoundInput: false, Size: 10 * len(c.prog),
			Replay: c17ReplayLayer(c, layer, map[string]any{"broken": "correspondence RedundantScope.Check = Model.Redundant.check (panic)"}),
		})
		return
	}
	if m.panicked {
		res.Count(layer+"_both_panic", 1)
		return
	}
	if len(c.impl.other) > 0 {
		res.AddViolation(Violation{
			Key:        "C17/correspondence/unexpected-diagnostic-" + layer,
			What:       fmt.Sprintf("RedundantScope printed %q on { %s }", c.impl.other[0], c.prog.String()),
			FoundInput: false, Size: 10 * len(c.prog),
			Replay: c17ReplayLayer(c, layer, map[string]any{"broken": "correspondence: a diagnostic that is none of the three kinds"}),
		})
	}
	same := len(c.impl.verdicts) == len(m.verdicts)
	if same {
		for i, v := range c.impl.verdicts {
			if v != m.verdicts[i].c17Verdict {
				same = false
			}
		}
	}
	if !same {
		var mv []string
		for _, v := range m.verdicts {
			mv = append(mv, v.String())
		}
		var iv []string
		for _, v := range c.impl.verdicts {
			iv = append(iv, v.String())
		}
		res.AddViolation(Violation{
			Key:        "C17/correspondence/verdicts-" + layer,
			What:       fmt.Sprintf("verdicts differ on { %s }: implementation [%s], model [%s]", c.prog.String(), strings.Join(iv, " "), strings.Join(mv, " ")),
			FoundInput: false, Size: 10 * len(c.prog),
			Replay: c17ReplayLayer(c, layer, map[string]any{"impl": iv, "model": mv,
				"broken": "correspondence RedundantScope.Check = Model.Redundant.check (verdict sets)"}),
		})
	}
	for _, mv := range m.verdicts {
		res.Count(layer+"_verdicts_"+string(mv.Kind), 1)
		if mv.Flagged < mv.Because && mv.Kind != 'O' {
			res.Count(layer+"_verdicts_earlier_line_flagged", 1)
		}
		if mv.guarded {
			res.Count(layer+"_verdicts_inside_guard", 1)
			if !mv.sound {
				res.AddViolation(Violation{
					Key:        "C17/guard-not-sound",
					What:       fmt.Sprintf("the guard of C17_verdict_sound_partial admits an unsound verdict %s on { %s }", mv.String(), c.prog.String()),
					FoundInput: false, Size: 10 * len(c.prog),
					Replay: c17ReplayLayer(c, layer, map[string]any{"broken": "extracted guard/evaluator contradict the theorem"}),
				})
			}
		}
		if !mv.sound {
			res.Count(layer+"_model_unsound", 1)
		}
	}
}

// ---------- generators ----------

var c17VarNames = []string{"VA", "VB", "VC", "VD"}

type c17ValueTmpl struct {
	lit int // -1 none, 0 "a", 1 "b"
	ref int // -1 none, else variable index
}

// c17Enumerate calls emit for every canonical program with exactly n
// assignment lines over at most nvars variables.  Canonical: variables are
// numbered in order of first occurrence (assigned variable first, then the
// reference), literal "a" occurs before "b".  mode selects the value set:
//
//	full:    a  b  ${Vj}  a${Vj}   (j any variable, including the assigned one)
//	reduced: a  b  ${Vj}
func c17Enumerate(n, nvars int, ops []string, full bool, emit func(c17Prog)) {
	var tmpls []c17ValueTmpl
	tmpls = append(tmpls, c17ValueTmpl{0, -1}, c17ValueTmpl{1, -1})
	for j := 0; j < nvars; j++ {
		tmpls = append(tmpls, c17ValueTmpl{-1, j})
	}
	if full {
		for j := 0; j < nvars; j++ {
			tmpls = append(tmpls, c17ValueTmpl{0, j})
		}
	}
	lines := make([]c17Line, n)
	var rec func(i, usedVars, usedLits int)
	rec = func(i, usedVars, usedLits int) {
		if i == n {
			p := make(c17Prog, n)
			copy(p, lines)
			emit(c17Number(p))
			return
		}
		for v := 0; v <= usedVars && v < nvars; v++ {
			uv := usedVars
			if v == usedVars {
				uv++
			}
			for _, op := range ops {
				for _, t := range tmpls {
					uv2, ul2 := uv, usedLits
					if t.lit >= 0 {
						if t.lit > usedLits {
							continue
						}
						if t.lit == usedLits {
							ul2++
						}
					}
					if t.ref >= 0 {
						if t.ref > uv2 {
							continue
						}
						if t.ref == uv2 {
							uv2++
						}
					}
					var val []c17Chunk
					if t.lit >= 0 {
						val = append(val, c17Chunk{false, string(rune('a' + t.lit))})
					}
					if t.ref >= 0 {
						val = append(val, c17Chunk{true, c17VarNames[t.ref]})
					}
					lines[i] = c17Line{File: 0, Assign: true, Var: c17VarNames[v], Op: op, Val: val}
					rec(i+1, uv2, ul2)
				}
			}
		}
	}
	rec(0, 0, 0)
}

// c17WithInclude: every way to put a contiguous block of the program's lines
// (at least one) into an included file; the .include line is inserted before it.
func c17WithInclude(p c17Prog, emit func(c17Prog)) {
	n := len(p)
	for lo := 0; lo < n; lo++ {
		for hi := lo + 1; hi <= n; hi++ {
			q := make(c17Prog, 0, n+1)
			q = append(q, p[:lo]...)
			q = append(q, c17Line{File: 0, Raw: `.include "inc.mk"`})
			for _, l := range p[lo:hi] {
				l.File = 1
				q = append(q, l)
			}
			q = append(q, p[hi:]...)
			for i := range q {
				q[i].Lineno = 0
			}
			emit(c17Number(q))
		}
	}
}

var c17RandLits = []string{"a", "b", "a b", "", "b a"}

func c17RandomProgram(rng *Rng) c17Prog {
	nv := 2 + rng.Intn(3)
	n := 4 + rng.Intn(9)
	var p c17Prog
	incAt, incLen := -1, 0
	if rng.Chance(50) {
		incAt = rng.Intn(n)
		incLen = 1 + rng.Intn(4)
	}
	// a few programs concentrate on one variable, where verdicts are dense
	focus := rng.Chance(40)
	for i := 0; i < n; i++ {
		file := 0
		if incAt >= 0 && i == incAt {
			p = append(p, c17Line{File: 0, Raw: `.include "inc.mk"`})
		}
		if incAt >= 0 && i >= incAt && i < incAt+incLen {
			file = 1
		}
		if rng.Chance(8) {
			p = append(p, c17Line{File: file, Raw: Pick(rng, []string{"", "# comment"})})
			continue
		}
		v := rng.Intn(nv)
		if focus && rng.Chance(60) {
			v = 0
		}
		op := c17Ops[rng.Intn(len(c17Ops))]
		if rng.Chance(30) {
			op = "="
		}
		var val []c17Chunk
		switch k := rng.Intn(10); {
		case k < 4:
			val = []c17Chunk{{false, Pick(rng, c17RandLits)}}
		case k < 7:
			val = []c17Chunk{{true, c17VarNames[rng.Intn(nv)]}}
		case k < 8:
			val = []c17Chunk{{false, "a"}, {true, c17VarNames[rng.Intn(nv)]}}
		case k < 9:
			val = []c17Chunk{{true, c17VarNames[rng.Intn(nv)]}, {false, " b"}}
		default:
			val = []c17Chunk{{true, c17VarNames[rng.Intn(nv)]}, {true, c17VarNames[rng.Intn(nv)]}}
		}
		if len(val) == 1 && !val[0].Ref && val[0].S == "" {
			val = nil
		}
		p = append(p, c17Line{File: file, Assign: true, Var: c17VarNames[v], Op: op, Val: val})
	}
	return c17Number(p)
}

// ---------- sharding over processes (the shim uses the global G) ----------

type c17ShardSpec struct {
	Index, Of int
}

const c17Shards = 16

// c17UnitShard enumerates the unit-correspondence programs and handles those
// with ordinal % Of == Index.
func c17UnitShard(ctx *Ctx, res *Result, spec c17ShardSpec) {
	type stage struct {
		name    string
		n       int
		ops     []string
		full    bool
		include bool
	}
	lazy := []string{"=", "+=", "?=", ":="}
	var stages []stage
	if ctx.Tier == "thorough" {
		stages = []stage{
			{"single<=3 full", 3, c17Ops, true, false},
			{"single=4 full", 4, c17Ops, true, false},
			{"single=5 reduced no-shell", 5, lazy, false, false},
			{"include<=3 full", 3, c17Ops, true, true},
			{"include=4 reduced", 4, c17Ops, false, true},
		}
	} else {
		stages = []stage{
			{"single<=3 full", 3, c17Ops, true, false},
			{"single=4 reduced", 4, c17Ops, false, false},
			{"include<=3 reduced", 3, c17Ops, false, true},
		}
	}
	ord := 0
	var batch []c17Case
	flush := func() {
		if len(batch) > 0 {
			c17Judge(ctx, res, batch, "shim")
			batch = batch[:0]
		}
	}
	add := func(p c17Prog, src string, always bool) {
		ord++
		if !always && ord%spec.Of != spec.Index {
			return
		}
		res.Evaluations++
		res.Count("programs_"+src, 1)
		res.Count(fmt.Sprintf("programs_with_%d_assignments", p.nAssign()), 1)
		c := c17Case{prog: p, impl: c17RunShim(p), src: src}
		if len(c.impl.verdicts) > 0 {
			res.DistinctNontrivial++
		}
		if ord%100003 == 7 || (len(c.impl.verdicts) > 1 && ord%5003 == 11) {
			var iv []string
			for _, v := range c.impl.verdicts {
				iv = append(iv, v.String())
			}
			res.Sample(map[string]any{"program": p.String(), "impl_verdicts": iv})
		}
		batch = append(batch, c)
		if len(batch) >= 20000 {
			flush()
		}
	}
	for _, st := range stages {
		lo := st.n
		if strings.Contains(st.name, "<=") {
			lo = 1
		}
		for n := lo; n <= st.n; n++ {
			c17Enumerate(n, 3, st.ops, st.full, func(p c17Prog) {
				if st.include {
					c17WithInclude(p, func(q c17Prog) { add(q, st.name, false) })
				} else {
					add(p, st.name, false)
				}
			})
		}
	}
	// random longer programs; every shard draws its own
	rng := NewRng(ctx.Seed*1000 + uint64(spec.Index))
	nrand := 4000
	if ctx.Tier == "thorough" {
		nrand = 60000
	}
	for i := 0; i < nrand; i++ {
		p := c17RandomProgram(rng)
		src := "random"
		if p.hasInclude() {
			src = "random+include"
		}
		if rng.Chance(3) {
			// a file that does not start at line 1: includePath.popUntil runs off the stack
			f := rng.Intn(2)
			for k := range p {
				if p[k].File == f {
					p[k].Lineno++
				}
			}
			src = "random-shifted-linenos"
		}
		add(p, src, true)
	}
	flush()
	// path-labelled programs: the same files under different spellings
	nsp := 1500
	if ctx.Tier == "thorough" {
		nsp = 15000
	}
	var sps []c17Prog
	for i := 0; i < nsp; i++ {
		p := c17RandomSpelledProgram(rng)
		sps = append(sps, p)
		add(p, "spelled", true)
	}
	flush()
	c17SpelledExtra(ctx, res, sps)
	// programs with conditional sections
	ncond := 3000
	if ctx.Tier == "thorough" {
		ncond = 30000
	}
	for i := 0; i < ncond; i++ {
		add(c17RandomCondProgram(rng, res), "conditional", true)
	}
	flush()
	// makefiles with directives (Model/RedundantDir.v)
	c17DUnit(ctx, res, rng)
	c17DExhaustive(ctx, res, spec)
}

func runC17Shard(ctx *Ctx) *Result {
	res := &Result{}
	var spec c17ShardSpec
	data, err := os.ReadFile(filepath.Join(ctx.Work, "shard.json"))
	if err != nil || json.Unmarshal(data, &spec) != nil || spec.Of <= 0 {
		res.Broken = "C17shard is an internal worker of C17"
		return res
	}
	c17UnitShard(ctx, res, spec)
	return res
}

func c17Merge(res *Result, part *Result) {
	res.mu.Lock()
	res.Evaluations += part.Evaluations
	res.DistinctNontrivial += part.DistinctNontrivial
	res.TracesValidated += part.TracesValidated
	if part.Broken != "" && res.Broken == "" {
		res.Broken = part.Broken
	}
	res.mu.Unlock()
	for k, v := range part.Distribution {
		switch n := v.(type) {
		case float64:
			res.Count(k, int(n))
		case int:
			res.Count(k, n)
		}
	}
	for _, s := range part.Samples {
		res.Sample(s)
	}
	for _, v := range part.Violations {
		res.AddViolation(v)
	}
}

func c17RunShards(ctx *Ctx, res *Result) {
	self, err := os.Executable()
	if err != nil {
		res.Broken = err.Error()
		return
	}
	parts := make([]*Result, c17Shards)
	errs := make([]string, c17Shards)
	var wg sync.WaitGroup
	for i := 0; i < c17Shards; i++ {
		wg.Add(1)
		go func(i int) {
			defer wg.Done()
			dir := filepath.Join(ctx.Work, fmt.Sprintf("shard%d", i))
			os.MkdirAll(dir, 0o755)
			data, _ := json.Marshal(c17ShardSpec{i, c17Shards})
			os.WriteFile(filepath.Join(dir, "shard.json"), data, 0o644)
			out := filepath.Join(dir, "out.json")
			cmd := exec.Command(self, "run", "C17shard", "tier="+ctx.Tier, fmt.Sprintf("seed=%d", ctx.Seed),
				"oracle="+ctx.Oracle, "pkglint="+ctx.Pkglint, "work="+dir, "verif="+ctx.Verif, "repo="+ctx.Repo, "out="+out)
			if b, err := cmd.CombinedOutput(); err != nil {
				errs[i] = fmt.Sprintf("shard %d: %v: %s", i, err, string(b))
				return
			}
			var r Result
			b, err := os.ReadFile(out)
			if err != nil || json.Unmarshal(b, &r) != nil {
				errs[i] = fmt.Sprintf("shard %d: unreadable result", i)
				return
			}
			parts[i] = &r
		}(i)
	}
	wg.Wait()
	for i := range parts {
		if errs[i] != "" {
			res.Broken = errs[i]
			return
		}
		c17Merge(res, parts[i])
	}
}

// ---------- whole run: the real binary ----------

func c17WriteFile(path, content string) error {
	if err := os.MkdirAll(filepath.Dir(path), 0o755); err != nil {
		return err
	}
	return os.WriteFile(path, []byte(content), 0o644)
}

// c17Tree writes the base fixture of DESIGN.md Appendix A (without cat/pkg).
func c17Tree(root string) error {
	nb := "# $NetBSD$\n"
	files := map[string]string{
		"mk/bsd.pkg.mk":                   nb,
		"mk/bsd.prefs.mk":                 nb,
		"mk/bsd.fast.prefs.mk":            nb,
		"mk/fetch/sites.mk":               nb,
		"mk/fetch/fetch.mk":               nb,
		"mk/defaults/mk.conf":             nb,
		"mk/tools/defaults.mk":            nb,
		"mk/platform/NetBSD.mk":           nb,
		"mk/platform/Linux.mk":            nb,
		"mk/tools/bsd.tools.mk":           ".include \"defaults.mk\"\n",
		"mk/misc/category.mk":             "",
		"mk/defaults/options.description": "example-option   Description\n",
		"mk/compiler.mk": "_CXX_STD_VERSIONS=\tc++ c++14\n" +
			".if ${USE_LANGUAGES:Mada} || ${USE_LANGUAGES:Mc} || ${USE_LANGUAGES:Mc99}\n.endif\n" +
			"_COMPILERS=\tgcc clang\n_PSEUDO_COMPILERS=\tccache\n",
		"mk/compiler/gcc.mk":              nb + ".if ${_PKGSRC_USE_FORTIFY:Mweak}\n.endif\n",
		"mk/java-vm.mk":                   nb + "_PKG_JVMS.8=\topenjdk8 oracle-jdk8\n",
		"mk/mysql.buildlink3.mk":          "MYSQL_VERSIONS_ACCEPTED=\t57 56\n",
		"mk/pgsql.buildlink3.mk":          "PGSQL_VERSIONS_ACCEPTED=\t10 96\nPGSQL_TYPE?=\tpostgresql11-client\n",
		"editors/emacs/modules.mk":        "_EMACS_VERSIONS_ALL=\temacs25 emacs21\n",
		"doc/CHANGES-2018":                "$NetBSD$\n",
		"doc/TODO":                        "$NetBSD$\n",
		"licenses/2-clause-bsd":           "The 2-clause BSD license\n",
		"licenses/gnu-gpl-v2":             "The GNU GPL, version 2\n",
		"lang/lua54/Makefile":             nb,
		"lang/nodejs20/Makefile":          nb,
		"lang/php82/Makefile":             nb,
		"lang/python312/Makefile":         nb,
		"lang/ruby32/Makefile":            nb,
		"emulators/suse131_base/Makefile": nb,
		"cat/Makefile": nb + "\nCOMMENT=\tComment for the category\n\nSUBDIR+=\tpkg\n\n" +
			".include \"../mk/misc/category.mk\"\n",
	}
	for name, content := range files {
		if err := c17WriteFile(filepath.Join(root, name), content); err != nil {
			return err
		}
	}
	return nil
}

var c17PkgHead = []string{
	"# $NetBSD$",
	"",
	"DISTNAME=\tpkg-1.0",
	"CATEGORIES=\tcat",
	"MASTER_SITES=\t# none",
	"",
	"MAINTAINER=\tpkgsrc-users@NetBSD.org",
	"HOMEPAGE=\t# none",
	"COMMENT=\tDummy package",
	"LICENSE=\t2-clause-bsd",
	"",
}

// c17PackageProgram puts the body between the standard head of a package
// Makefile and the final .include of bsd.pkg.mk; this is the program as
// RedundantScope sees it (head and tail lines are "other" lines: assignments to
// unrelated variables without references, comments, the .include).
func c17PackageProgram(body c17Prog) c17Prog {
	var full c17Prog
	for _, t := range c17PkgHead {
		full = append(full, c17Line{File: 0, Raw: t})
	}
	full = append(full, body...)
	full = append(full, c17Line{File: 0, Raw: ""}, c17Line{File: 0, Raw: `.include "../../mk/bsd.pkg.mk"`})
	for i := range full {
		full[i].Lineno = 0
	}
	return c17Number(full)
}

// a .mk file of its own: CVS id, empty line, the body
func c17StandaloneProgram(body c17Prog) c17Prog {
	full := append(c17Prog{{File: 0, Raw: "# $NetBSD$"}, {File: 0, Raw: ""}}, body...)
	for i := range full {
		full[i].Lineno = 0
	}
	return c17Number(full)
}

func c17FileTexts(full c17Prog) (mainText, incText string, hasInc bool) {
	var m, n strings.Builder
	for _, l := range full {
		if l.File == 0 {
			m.WriteString(l.Text() + "\n")
		} else {
			hasInc = true
			n.WriteString(l.Text() + "\n")
		}
	}
	return m.String(), n.String(), hasInc
}

// c17WritePackage writes a package directory; Makefile and inc.mk come from the
// program (nil: the plain fixture package).
func c17WritePackage(dir string, full c17Prog) error {
	if full == nil {
		full = c17PackageProgram(nil)
	}
	mainText, incText, hasInc := c17FileTexts(full)
	files := map[string]string{
		"Makefile": mainText,
		"DESCR":    "Package description\n",
		"PLIST":    "@comment $NetBSD$\nbin/program\n",
		"distinfo": "$NetBSD$\n\nBLAKE2s (distfile-1.0.tar.gz) = 1234\nSHA512 (distfile-1.0.tar.gz) = 1234\nSize (distfile-1.0.tar.gz) = 12341234\n",
	}
	os.Remove(filepath.Join(dir, "inc.mk"))
	os.Remove(filepath.Join(dir, "extra.mk"))
	if hasInc {
		files["inc.mk"] = incText
	}
	for name, content := range files {
		if err := c17WriteFile(filepath.Join(dir, name), content); err != nil {
			return err
		}
	}
	return nil
}

// c17RunBinary runs the real pkglint; exit status 0 and 1 are normal, anything
// else (a Go panic exits with 2) is reported in crashed.
func c17RunBinary(ctx *Ctx, root, arg string) (out string, crashed string, err error) {
	return c17RunBinaryArgs(ctx, root, []string{"-Wall", arg})
}

func c17RunBinaryArgs(ctx *Ctx, root string, args []string) (out string, crashed string, err error) {
	cmd := exec.Command(ctx.Pkglint, args...)
	cmd.Dir = root
	b, err := cmd.CombinedOutput()
	out = string(b)
	if ee, ok := err.(*exec.ExitError); ok {
		err = nil
		if ee.ExitCode() != 1 || strings.Contains(out, "goroutine ") {
			crashed = fmt.Sprintf("exit %d", ee.ExitCode())
		}
	}
	return
}

// c17BinaryCase runs the real binary on one program: as the Makefile (+ inc.mk)
// of the package root/dir, or as a stand-alone extra.mk in that package
// directory (a file the package does not include: CheckFileMk runs its own
// RedundantScope on it).
func c17BinaryCase(ctx *Ctx, root, dir string, full c17Prog, standalone bool) (c17Impl, error) {
	var impl c17Impl
	var out, crashed string
	var err error
	mainName := dir + "/Makefile"
	if standalone {
		mainName = dir + "/extra.mk"
		if err = c17WritePackage(filepath.Join(root, dir), nil); err != nil {
			return impl, err
		}
		text, _, _ := c17FileTexts(full)
		if err = c17WriteFile(filepath.Join(root, mainName), text); err != nil {
			return impl, err
		}
		out, crashed, err = c17RunBinary(ctx, root, mainName)
		os.Remove(filepath.Join(root, mainName))
	} else {
		if err = c17WritePackage(filepath.Join(root, dir), full); err != nil {
			return impl, err
		}
		out, crashed, err = c17RunBinary(ctx, root, dir)
	}
	if err != nil {
		return impl, fmt.Errorf("%v: %s", err, out)
	}
	impl.panicked = crashed
	impl.verdicts, _ = c17ParseDiags(full, out, func(name string) int {
		switch name {
		case mainName:
			return 0
		case dir + "/inc.mk", "inc.mk":
			return 1
		}
		return -1
	})
	c17SortVerdicts(impl.verdicts)
	return impl, nil
}

func c17PrepareTree(ctx *Ctx) (string, error) {
	root := filepath.Join(ctx.Work, "c17tree")
	if err := c17Tree(root); err != nil {
		return "", err
	}
	// the fixture itself must be clean, otherwise nothing else means anything
	if err := c17WritePackage(filepath.Join(root, "cat/pkg"), nil); err != nil {
		return "", err
	}
	out, crashed, err := c17RunBinary(ctx, root, "cat/pkg")
	if err != nil || crashed != "" || !strings.Contains(out, "Looks fine.") {
		return "", fmt.Errorf("the real binary does not accept the base fixture: %v %s %s", err, crashed, out)
	}
	return root, nil
}

func c17WholeRun(ctx *Ctx, res *Result) {
	root, err := c17PrepareTree(ctx)
	if err != nil {
		res.Broken = err.Error()
		return
	}
	nruns := 120
	if ctx.Tier == "thorough" {
		nruns = 1500
	}
	rng := NewRng(ctx.Seed ^ 0xc17)
	type job struct {
		full       c17Prog
		standalone bool
	}
	jobs := make([]job, nruns)
	fixed := c17FixedPrograms()
	for i := range jobs {
		var body c17Prog
		if i < len(fixed) {
			body = fixed[i]
		} else {
			body = c17RandomProgram(rng)
		}
		if !body.hasInclude() && i%3 == 2 {
			jobs[i] = job{c17StandaloneProgram(body), true}
		} else {
			jobs[i] = job{c17PackageProgram(body), false}
		}
	}
	cases := make([]c17Case, nruns)
	errs := make([]string, nruns)
	const workers = 16
	parallelFor(workers, func(w int) {
		dir := fmt.Sprintf("cat/p%d", w)
		for i := w; i < nruns; i += workers {
			j := jobs[i]
			impl, err := c17BinaryCase(ctx, root, dir, j.full, j.standalone)
			if err != nil {
				errs[i] = err.Error()
				continue
			}
			src := "binary-package"
			if j.standalone {
				src = "binary-standalone-mk"
			}
			cases[i] = c17Case{prog: j.full, impl: impl, src: src}
		}
	})
	for i, c := range cases {
		if errs[i] != "" {
			res.Broken = "running the real binary failed: " + errs[i]
			return
		}
		res.Count("runs_"+c.src, 1)
		if len(c.impl.verdicts) > 0 {
			res.Count("runs_with_verdicts", 1)
		}
	}
	res.Evaluations += len(cases)
	c17Judge(ctx, res, cases, "binary")
}

// programs every run looks at first (DESIGN.md section 8 item 7 and relatives)
func c17FixedPrograms() []c17Prog {
	a := func(v, op string, val ...c17Chunk) c17Line {
		return c17Line{Assign: true, Var: v, Op: op, Val: val}
	}
	lit := func(s string) c17Chunk { return c17Chunk{false, s} }
	ref := func(s string) c17Chunk { return c17Chunk{true, s} }
	inc := func(l c17Line) c17Line { l.File = 1; return l }
	incl := c17Line{Raw: `.include "inc.mk"`}
	ps := []c17Prog{
		{a("VB", "=", lit("1")), a("VA", ":=", ref("VB")), a("VA", "=", ref("VB")), a("VB", "=", lit("2"))},
		{a("VC", "=", ref("VA")), a("VA", "=", lit("a")), a("VB", ":=", ref("VC")), a("VA", "=", lit("b"))},
		{a("VA", "=", lit("a")), a("VA", "!=", lit("echo b")), a("VA", "=", lit("a"))},
		{a("VA", "=", lit("b")), a("VA", "=", lit("a")), incl, inc(a("VA", "?=", lit("a")))},
		{a("VA", "=", lit("a")), a("VA", "+=", lit("b")), a("VA", "=", lit("a b")), a("VA", "?=", lit("c"))},
		{a("VA", "=", lit("a")), incl, inc(a("VA", "=", lit("b"))), a("VA", "=", lit("b"))},
	}
	for i := range ps {
		ps[i] = c17Number(ps[i])
	}
	return ps
}

// ---------- second evaluation path: coqc instead of the extracted code ----------

func c17CoqBytes(b string) string {
	parts := make([]string, len(b))
	for i := 0; i < len(b); i++ {
		parts[i] = strconv.Itoa(int(b[i]))
	}
	return "[" + strings.Join(parts, "; ") + "]%N"
}

func c17CoqProgram(p c17Prog) string {
	opName := map[string]string{"=": "OpAssign", "!=": "OpShell", ":=": "OpEval", "+=": "OpAppend", "?=": "OpDefault"}
	ls := make([]string, len(p))
	for i, l := range p {
		body := "None"
		if l.Assign {
			cs := make([]string, len(l.Val))
			for k, c := range l.Val {
				if c.Ref {
					cs[k] = "Ref " + c17CoqBytes(c.S)
				} else {
					cs[k] = "Lit " + c17CoqBytes(c.S)
				}
			}
			body = fmt.Sprintf("(Some (mkAssign %s %s [%s]))", c17CoqBytes(l.Var), opName[l.Op], strings.Join(cs, "; "))
		}
		ls[i] = fmt.Sprintf("mkLine %d %d %s", l.File, l.Lineno, body)
	}
	return "[" + strings.Join(ls, ";\n   ") + "]"
}

// c17CrossCheck lets coqc evaluate model, guard and evaluator by vm_compute on
// a sample of programs and compares with what the extracted oracle answered.
func c17CrossCheck(ctx *Ctx, res *Result) {
	rng := NewRng(ctx.Seed ^ 0xc0c)
	progs := c17FixedPrograms()
	for len(progs) < 40 {
		progs = append(progs, c17RandomProgram(rng))
	}
	reqs := make([]string, len(progs))
	for i, p := range progs {
		reqs[i] = fmt.Sprintf("chk %d %s", p.fuel(), p.words())
	}
	ans, err := runOracle(ctx, "c17", reqs)
	if err != nil {
		res.Broken = err.Error()
		return
	}
	var sb strings.Builder
	sb.WriteString("From PV Require Import Lib.Bytes Model.Redundant Spec.MakeEval Spec.VerdictSound.\n")
	for i, p := range progs {
		m, err := c17ParseModel(ans[i])
		if err != nil {
			res.Broken = err.Error()
			return
		}
		fmt.Fprintf(&sb, "Definition p%d : program :=\n  %s.\n", i, c17CoqProgram(p))
		if m.panicked {
			fmt.Fprintf(&sb, "Goal check p%d = Panic. Proof. vm_compute. reflexivity. Qed.\n", i)
			continue
		}
		// emission order is not kept by the parsed answer; compare as the oracle printed it
		var vs, snd, grd []string
		for _, f := range strings.Fields(ans[i])[1:] {
			ps := strings.Split(f, ":")
			if len(ps) != 6 {
				continue
			}
			kind := map[string]string{"R": "KRedundant", "N": "KNoEffect", "O": "KOverwritten"}[ps[2]]
			vd := fmt.Sprintf("mkVerdict %s %s %s", ps[0], ps[1], kind)
			vs = append(vs, vd)
			snd = append(snd, map[bool]string{true: "true", false: "false"}[ps[3] == "S"])
			grd = append(grd, map[bool]string{true: "true", false: "false"}[ps[4] == "G"])
		}
		fmt.Fprintf(&sb, "Goal check p%d = Ok [%s]. Proof. vm_compute. reflexivity. Qed.\n", i, strings.Join(vs, "; "))
		fmt.Fprintf(&sb, "Goal map (fun vd => deletable_b %d p%d (vd_flagged vd)) [%s] = [%s]. Proof. vm_compute. reflexivity. Qed.\n",
			p.fuel(), i, strings.Join(vs, "; "), strings.Join(snd, "; "))
		fmt.Fprintf(&sb, "Goal map (guard p%d) [%s] = [%s]. Proof. vm_compute. reflexivity. Qed.\n",
			i, strings.Join(vs, "; "), strings.Join(grd, "; "))
	}
	sb.WriteString("From PV Require Import Model.RedundantPaths Model.RedundantCond Spec.PathDenote Spec.SpellingIndep.\n")
	nsp := c17CrossCheckSpelled(ctx, res, &sb)
	if res.Broken != "" {
		return
	}
	ndir := c17DCrossCheck(ctx, res, &sb)
	if res.Broken != "" {
		return
	}
	dir := filepath.Join(ctx.Work, "crosscheck")
	os.MkdirAll(dir, 0o755)
	file := filepath.Join(dir, "c17cases.v")
	if err := os.WriteFile(file, []byte(sb.String()), 0o644); err != nil {
		res.Broken = err.Error()
		return
	}
	cmd := exec.Command("timeout", "600", "coqc", "-Q", filepath.Join(ctx.Verif, "coq"), "PV", file)
	cmd.Dir = dir
	out, err := cmd.CombinedOutput()
	if err != nil {
		msg := string(out)
		if len(msg) > 600 {
			msg = msg[:600]
		}
		res.AddViolation(Violation{
			Key:        "C17/extraction-differs-from-vm_compute",
			What:       "coqc (vm_compute) and the extracted oracle disagree on a sampled program: " + strings.Join(strings.Fields(msg), " "),
			FoundInput: false,
			Replay:     map[string]any{"broken": "extraction cross-check", "coqc": msg},
		})
		return
	}
	res.Count("crosschecked_by_vm_compute", len(progs))
	res.Count("crosschecked_spelled_goals", nsp)
	res.Count("crosschecked_dir_goals", ndir)
}

// ---------- entry points ----------

const c17Rule = "programs: every straight-line makefile with <=3 assignments over 3 variables, ops = += ?= := !=, values a b ${Vj} a${Vj} (quick; thorough: <=4), " +
	"4 assignments with values a b ${other} (thorough: 5, without !=), the same programs with every contiguous block moved into an included file (<=3 assignments; thorough <=4), " +
	"after symmetry reduction (variables and literals numbered by first occurrence), plus seeded random programs of 4-12 lines (2-4 variables, empty/multi-word literals, comment lines, one .include), " +
	"plus runs of the real binary on a generated package Makefile (+ included file) or a stand-alone .mk file. " +
	"Every program is run through the real parser and RedundantScope.Check and through the extracted model; every verdict of the real code is checked with the extracted make evaluator on the program with and without the flagged line. " +
	"non-trivial = the implementation emitted at least one verdict; programs are distinct by construction in the exhaustive part"

func runC17(ctx *Ctx) *Result {
	res := &Result{Rule: c17Rule}
	c17RunShards(ctx, res)
	if res.Broken != "" {
		return res
	}
	c17WholeRun(ctx, res)
	if res.Broken != "" {
		return res
	}
	c17TreeLayer(ctx, res)
	if res.Broken != "" {
		return res
	}
	c17DTreeLayer(ctx, res)
	if res.Broken != "" {
		return res
	}
	c17CrossCheck(ctx, res)
	if res.Broken != "" {
		return res
	}
	res.Exhaustive = false
	res.Assumptions = []string{
		"closed world: no variable is defined outside the files; no modifiers, references only as ${NAME}; directives: .if [!]defined/empty(NAME), .if 0/1, .else, .endif, .undef, .for over literal items whose variable is not used, one level of .include",
		"the shell command of '!=' is a deterministic function of its expanded text",
	}
	// coverage floors: the branches the property names must have been reached
	floors := map[string]int{
		"shim_verdicts_R": 1000, "shim_verdicts_N": 1000, "shim_verdicts_O": 1000,
		"shim_verdicts_earlier_line_flagged": 100, "shim_verdicts_inside_guard": 1000,
		"programs_random": 1000, "programs_random+include": 1000, "shim_both_panic": 100,
		"runs_binary-package": 20, "runs_binary-standalone-mk": 5,
		"binary_verdicts_R": 5, "binary_verdicts_O": 5, "binary_verdicts_N": 5,
		"pkgtree_runs": 100, "pkgtree_runs_recursive": 30, "pkgtree_runs_with_verdicts": 60,
		"pkgtree_verdicts_on_fragment_lines": 50, "pkgtree_verdicts_expected": 150, "pkgtree_fragment_analysed_alone": 3,
		"pkgtree_spelling_plain": 5, "pkgtree_spelling_dot-slash": 5, "pkgtree_spelling_canonical": 10,
		"pkgtree_spelling_curdir": 5, "pkgtree_spelling_sibling": 5,
		"pkgtree_spelling_detour-sibling": 5, "pkgtree_spelling_detour-updown": 5, "pkgtree_spelling_curdir-detour": 5,
		"programs_spelled": 10000, "spelled_one_spelling": 5000, "spelled_one_spelling_non_canonical": 4000,
		"spelled_one_spelling_non_canonical_with_verdicts": 1000, "spelled_file_spelled_in_two_ways": 500,
		"crosschecked_spelled_goals": 75,
		"programs_conditional": 20000, "cond_lines_conditional_assignments": 20000, "cond_programs_with_later_plain_write": 5000,
		"pkgtree_frag_own": 20, "pkgtree_frag_other": 10, "pkgtree_frag_shared": 10,
		// makefiles with directives (the counters come from the generator and the MODEL)
		"dir_cases_pkg": 10000, "dir_cases_file": 10000, "dir_cases_binary": 200,
		"dir_pkg_cases_with_verdicts": 2000, "dir_file_cases_with_verdicts": 1000, "dir_binary_cases_with_verdicts": 25,
		"dir_file_guard_line_found": 3000,
		"dir_pkg_with_verdicts_shape_two-fragments-shared-guard": 50, "dir_pkg_with_verdicts_shape_guard-defined-by-makefile": 50,
		"dir_pkg_with_verdicts_shape_mk-file-undef": 200, "dir_pkg_with_verdicts_shape_mk-file": 200,
		"dir_pkg_with_verdicts_shape_same-file-twice": 100, "dir_pkg_with_verdicts_shape_one-guarded-fragment": 100,
		"dir_binary_shape_two-fragments-shared-guard": 10, "dir_binary_shape_mk-file-undef": 10, "dir_binary_shape_same-file-twice": 10,
		"dir_binary_shape_guard-defined-by-makefile": 8, "dir_binary_shape_condition-in-included-file": 6,
		"crosschecked_dir_goals": 60, "dir_exhaustive_programs": 80000,
		"dir_pkg_shape_indirect-condition": 500, "dir_binary_shape_indirect-condition": 5,
	}
	for _, k := range sortedKeys(floors) {
		n, _ := res.Distribution[k].(int)
		if n < floors[k] {
			// the floors are computed from what the generators and the MODEL predict;
			// missing one on a changed implementation is a broken correspondence
			res.AddViolation(Violation{Key: "C17/coverage-floor/" + k,
				What:       fmt.Sprintf("coverage floor missed: %s = %d < %d", k, n, floors[k]),
				FoundInput: false, Size: 100000,
				Replay: map[string]any{"broken": "coverage floor " + k}})
		}
	}
	return res
}

func replayC17(ctx *Ctx, rep map[string]any) *Result {
	res := &Result{Rule: "replay"}
	if l, _ := rep["layer"].(string); l == "dir" {
		c17DReplayRun(ctx, res, rep)
		return res
	}
	if l, _ := rep["layer"].(string); l == "pkgtree" {
		c17TreeReplayRun(ctx, res, rep)
		return res
	}
	h, _ := rep["program"].(string)
	var p c17Prog
	if err := json.Unmarshal([]byte(unhx(h)), &p); err != nil {
		res.Broken = "replay file has no program: " + err.Error()
		return res
	}
	if l, _ := rep["layer"].(string); l == "pkgtree" {
		c17TreeReplayRun(ctx, res, rep)
		return res
	}
	layer, _ := rep["layer"].(string)
	src, _ := rep["source"].(string)
	c := c17Case{prog: p, src: src}
	if layer == "binary" {
		root, err := c17PrepareTree(ctx)
		if err != nil {
			res.Broken = err.Error()
			return res
		}
		c.impl, err = c17BinaryCase(ctx, root, "cat/p0", p, src == "binary-standalone-mk")
		if err != nil {
			res.Broken = err.Error()
			return res
		}
	} else {
		if layer == "spelled" || p.spelled() {
			c17SpelledExtra(ctx, res, []c17Prog{p})
		}
		layer = "shim"
		c.impl = c17RunShim(p)
	}
	c17Judge(ctx, res, []c17Case{c}, layer)
	res.Evaluations = 1
	return res
}

func init() {
	register("C17", runC17, replayC17)
	register("C17shard", runC17Shard, nil)
}
