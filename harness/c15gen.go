package main

// C15 whole-run part: generated package Makefiles for `pkglint -F`.
// New generator functions only; the shared ones in gentree.go are untouched.

import (
	"fmt"
	"os"
	"path/filepath"
	"strings"
	"time"

	pkglint "github.com/rillig/pkglint/v23"
)

type c15File struct {
	lines      []string // body lines between LICENSE and the final .include
	singleOnly bool     // every assignment is a single line
	features   map[string]int
	// cat/pkg/extra.mk, byte for byte ("" = no such file): a makefile fragment checked in the same run, with
	// CRLF line ends (whole file or single lines), exotic white space, with or without a final newline
	extra string
}

func (f *c15File) feat(s string) { f.features[s]++ }

var c15Words = []string{"value", "a b c", "${PREFIX}/bin", "-DFOO=1 -DBAR", "yes", "no", "1.2.3", "x", "some longer value with several words in it", "${XY_OTHER:Q}", "a\\ b", "'single quoted'"}

func c15GenValue(r *Rng) string {
	switch {
	case r.Chance(8):
		return ""
	case r.Chance(20):
		return c15Value(10 + r.Intn(62))
	default:
		return Pick(r, c15Words)
	}
}

func c15GenComment(r *Rng) string {
	if r.Chance(12) {
		return Pick(r, []string{" ", "\t", "  ", ""}) + "# " + Pick(r, []string{"comment", "none", "see above", "TODO: check"})
	}
	return ""
}

func c15GenVarname(r *Rng) string {
	w := 1 + r.Intn(40)
	if r.Chance(40) {
		w = Pick(r, c15NameWidths)
	}
	if w < 4 {
		return c15Name(w, r.Intn(999))
	}
	return "XY_" + c15Name(w-3, r.Intn(999))
}

func c15GenAssign(r *Rng, f *c15File, cont bool) []string {
	name := c15GenVarname(r)
	op := Pick(r, c15Ops)
	lead := ""
	if r.Chance(12) {
		lead = "#"
		f.feat("commented")
	}
	sp := ""
	if r.Chance(5) {
		sp = Pick(r, []string{" ", "  ", "\t"})
		f.feat("space-after-varname")
		if r.Chance(40) {
			// a name with blanks of its own (inside an expression): only the blank before the operator may go
			name = "XY_ARGS." + Pick(r, []string{"${OPSYS:S, ,_,g}", "${XY_P:S,  ,_,g}", "${XY_P:M* *}", "${XY_P:S,\t,_,}"})
			f.feat("space-after-varname.name-with-blanks")
		}
	}
	val := c15GenValue(r)
	if op == "!=" && val != "" {
		val = "echo " + val
	}
	first := lead + name + sp + op + Pick(r, c15MoreBlanks) + val + c15GenComment(r)
	if r.Chance(5) { // white space that is not blank at the end of the value or comment (pasted NBSP, \f, a stray \r ...)
		first += Pick(r, c15Exotic)
		f.feat("exotic-whitespace")
	}
	if !cont || !r.Chance(35) {
		if r.Chance(6) {
			first += Pick(r, []string{" ", "\t", " \t "})
			f.feat("trailing-blanks")
		} else if r.Chance(4) {
			// a backslash followed by blanks: the line is NOT continued
			first += Pick(r, c15BackslashBlank)
			f.feat("backslash-blank")
		}
		return []string{first}
	}
	f.feat("continuation")
	f.singleOnly = false
	n := 1 + r.Intn(4)
	bs := func(s string) string {
		switch {
		case r.Chance(40):
			return s + " \\"
		case r.Chance(35):
			return s + Pick(r, []string{"\t\\", "\t\t\\", "\t\t\t\t\\", "  \\", "\\", " \t\\"})
		default:
			if c15Width(s) >= 72 {
				return s + " \\"
			}
			for c15Width(s) < 72 {
				s += "\t"
			}
			return s + "\\"
		}
	}
	lines := []string{first}
	if r.Chance(30) {
		lines[0] = lead + name + op
	}
	lines[0] = bs(lines[0])
	for i := 1; i <= n; i++ {
		l := Pick(r, c15MoreBlanks) + Pick(r, c15Words)
		if i < n {
			l = bs(l)
		} else if r.Chance(6) {
			l += Pick(r, c15BackslashBlank) // the last line of a continuation: ends the logical line
			f.feat("backslash-blank")
		}
		lines = append(lines, l)
	}
	return lines
}

// ends of lines that look like a continuation but are none
var c15BackslashBlank = []string{" \\ ", "\\ ", " \\\t", " \\  ", " \\\\ ", "\t\\ \t"}

func c15GenParagraph(r *Rng, f *c15File, cont bool) []string {
	var ls []string
	n := 1 + r.Intn(5)
	for i := 0; i < n; i++ {
		ls = append(ls, c15GenAssign(r, f, cont)...)
		if r.Chance(6) {
			ls = append(ls, "# a comment between the assignments")
		} else if r.Chance(2) {
			ls = append(ls, "# a comment that ends like a continuation"+Pick(r, c15BackslashBlank))
			f.feat("backslash-blank")
		}
	}
	f.feat("paragraph")
	return ls
}

func c15GenDirectives(r *Rng, f *c15File, cont bool, depth int) []string {
	ind := func() string { return Pick(r, []string{"", " ", "  ", "\t", "    ", " \t", "   "}) }
	conds := []string{"defined(XY_FOO)", "!empty(XY_FOO:Mbar)", "${XY_A:Uno} == yes", "exists(/usr/include/x.h)"}
	var ls []string
	ls = append(ls, "."+ind()+"if "+Pick(r, conds))
	ls = append(ls, c15GenAssign(r, f, cont)...)
	if depth < 3 && r.Chance(45) {
		ls = append(ls, c15GenDirectives(r, f, cont, depth+1)...)
		f.feat("directive.nested")
	}
	if r.Chance(30) {
		ls = append(ls, "."+ind()+"else")
		ls = append(ls, c15GenAssign(r, f, cont)...)
	}
	if r.Chance(20) {
		ls = append(ls, "."+ind()+"for xy_i in a b c")
		ls = append(ls, c15GenAssign(r, f, cont)...)
		ls = append(ls, "."+ind()+"endfor")
	}
	ls = append(ls, "."+ind()+"endif")
	f.feat("directive")
	return ls
}

func c15GenTarget(r *Rng, f *c15File) []string {
	t := Pick(r, []string{"post-install", "pre-configure", "post-extract", "do-test"})
	ls := []string{t + ":"}
	for i := 0; i < 1+r.Intn(3); i++ {
		tabs := Pick(r, []string{"\t", "\t\t", "\t\t\t", "\t  ", "\t \t", "\t\t  "})
		ls = append(ls, tabs+Pick(r, []string{"${ECHO} hello", "cd ${WRKSRC} && ${MAKE} all", "${MKDIR} ${DESTDIR}${PREFIX}/share/xy", "@${ECHO} done"}))
	}
	if r.Chance(25) {
		ls = append(ls, "\t\t${ECHO} one \\", "\t\t\ttwo \\", "\t\tthree")
		f.feat("shell.multiline")
	}
	if r.Chance(10) {
		ls = append(ls, Pick(r, []string{"\t", "\t\t"})+"${ECHO} four"+Pick(r, c15BackslashBlank), "\t${ECHO} five")
		f.feat("backslash-blank")
	}
	f.feat("target")
	return ls
}

func c15GenFile(r *Rng, single bool) *c15File {
	f := &c15File{singleOnly: true, features: map[string]int{}}
	nblocks := 2 + r.Intn(5)
	for b := 0; b < nblocks; b++ {
		if b > 0 {
			f.lines = append(f.lines, "")
		}
		switch {
		case r.Chance(60):
			f.lines = append(f.lines, c15GenParagraph(r, f, !single)...)
		case r.Chance(60):
			f.lines = append(f.lines, c15GenDirectives(r, f, !single, 0)...)
		default:
			f.lines = append(f.lines, c15GenTarget(r, f)...)
		}
	}
	return f
}

// c15GenExtra fills f.extra.  variant: bit 0-1 = line ends (0, 1: LF; 2: CRLF everywhere; 3: some lines CRLF),
// bit 2 = no final newline
func c15GenExtra(r *Rng, f *c15File, single bool, variant int) {
	fx := &c15File{singleOnly: true, features: f.features}
	ls := []string{"# $" + "NetBSD$", ""}
	np := 1 + r.Intn(3)
	for p := 0; p < np; p++ {
		if p > 0 {
			ls = append(ls, "")
		}
		ls = append(ls, c15GenParagraph(r, fx, !single)...)
	}
	if variant&4 != 0 && ls[len(ls)-1] == "" {
		ls = append(ls, "XY_LAST= last")
	}
	var sb strings.Builder
	for i, l := range ls {
		sb.WriteString(l)
		if i >= 2 && l != "" && r.Chance(12) {
			sb.WriteString(Pick(r, c15Exotic))
			if r.Chance(40) {
				sb.WriteString(Pick(r, []string{" ", "\t", " \t"}))
			}
			f.feat("extra.exotic-whitespace")
		}
		last := i == len(ls)-1
		if last && variant&4 != 0 {
			f.feat("extra.no-final-newline")
			break
		}
		// (the CVS id line stays LF: "Expected # $NetBSD$" is another fixer's business)
		if i >= 1 && (variant&3 == 2 || (variant&3 == 3 && r.Chance(25))) {
			sb.WriteString("\r")
			f.feat("extra.crlf-line")
		}
		sb.WriteString("\n")
	}
	if variant&3 == 2 {
		f.feat("extra.crlf-file")
	}
	f.feat("extra.file")
	f.extra = sb.String()
	if !fx.singleOnly {
		// the second `pkglint -F` prints the fixes of both files: it must be silent only if neither has continuation lines
		f.singleOnly = false
	}
}

// the raw lines of a file as pkglint sees them (split at "\n" only), and whether the last one lacks its newline
func c15SplitFile(s string) (ls []string, nonl bool) {
	if s == "" {
		return nil, false
	}
	ls = strings.Split(s, "\n")
	if ls[len(ls)-1] == "" {
		return ls[:len(ls)-1], false
	}
	return ls, true
}

const c15Header = 11 // lines written by WritePackage before the extra lines

type c15WholeCase struct {
	idx    int
	file   *c15File
	before []string
	after  []string
	out0   string // --show-autofix output (nothing written)
	out1   string // first -F
	out2   string // second -F
	after2 []string
	bad    string
	// cat/pkg/extra.mk before, after the first and after the second -F
	xbefore, xafter, xafter2 string
}

func c15RunWhole(ctx *Ctx, dir string, body []string, extra string) (c c15WholeCase) {
	root := filepath.Join(dir, "pkgsrc")
	var t *Tree
	if _, err := os.Stat(filepath.Join(root, "mk/bsd.pkg.mk")); err != nil {
		t = NewBaseTree(root)
	} else {
		t = &Tree{Root: root}
	}
	t.WritePackage("cat/pkg", body)
	if extra != "" {
		t.Write("cat/pkg/extra.mk", extra)
	} else {
		os.Remove(t.Path("cat/pkg/extra.mk"))
	}
	readx := func() string {
		if extra == "" {
			return ""
		}
		return t.Read("cat/pkg/extra.mk")
	}
	c.xbefore = extra
	split := func(s string) []string { return strings.Split(strings.TrimSuffix(s, "\n"), "\n") }
	c.before = split(t.Read("cat/pkg/Makefile"))
	r0 := RunPkglint(ctx, root, 20*time.Second, "-Wall", "--show-autofix", "cat/pkg")
	if now := split(t.Read("cat/pkg/Makefile")); strings.Join(now, "\n") != strings.Join(c.before, "\n") {
		c.bad = "--show-autofix changed the file"
	}
	if readx() != extra {
		c.bad = "--show-autofix changed extra.mk"
	}
	c.out0 = r0.Stdout
	r1 := RunPkglint(ctx, root, 20*time.Second, "-Wall", "-F", "cat/pkg")
	c.out1 = r1.Stdout
	c.after = split(t.Read("cat/pkg/Makefile"))
	c.xafter = readx()
	r2 := RunPkglint(ctx, root, 20*time.Second, "-Wall", "-F", "cat/pkg")
	c.out2 = r2.Stdout
	c.after2 = split(t.Read("cat/pkg/Makefile"))
	c.xafter2 = readx()
	for _, r := range []RunResult{r0, r1, r2} {
		if r.TimedOut || r.Signal != "" || r.Exit > 1 || r.Exit < 0 {
			c.bad = fmt.Sprintf("pkglint exit=%d signal=%s timeout=%v stderr=%s", r.Exit, r.Signal, r.TimedOut, r.Stderr)
		}
	}
	return
}

var c15LayoutNotes = []string{
	"This variable value should be aligned", "Variable values should be aligned with tabs, not spaces.",
	"This outlier variable value should be aligned", "This continuation line should be indented with",
	"The continuation backslash should be", "Trailing whitespace.", "This directive should be indented by",
	"Shell programs should be indented with a single tab.", "Unnecessary space after variable name",
}

func c15WholeEvaluate(c *c15Checker, wc c15WholeCase, seedInfo map[string]any) {
	res := c.res
	replay := map[string]any{"kind": "whole", "body": c15hxs(wc.file.lines), "extra": hx(wc.file.extra)}
	for k, v := range seedInfo {
		replay[k] = v
	}
	res.Evaluations++
	res.Count("whole_files", 1)
	if wc.bad != "" {
		c.viol("C15/whole/run-failed", wc.bad, true, c15Size(wc.file.lines), replay)
		return
	}
	nfix := strings.Count(wc.out1, "AUTOFIX: ")
	res.Count("whole_autofix_lines", nfix)
	if nfix > 0 {
		c.distinct["whole\n"+strings.Join(wc.file.lines, "\n")] = true
		if c.nsamples["whole"] < 2 && len(wc.file.lines) < 12 {
			c.nsamples["whole"]++
			c.res.Sample(map[string]any{"kind": "pkglint -F", "body_before": wc.file.lines, "body_after": wc.after[c15Header : len(wc.after)-2], "autofix_lines": nfix, "second_pass_output": wc.out2})
		}
	}
	foreign := ""
	// attribute every AUTOFIX line of the real run to the note printed before it in the -f run
	var lastNote string
	kindAt := map[string]map[int]string{"Makefile": {}, "extra.mk": {}}
	for _, l := range strings.Split(wc.out0, "\n") {
		d, ok := ParseDiag(l)
		if !ok {
			continue
		}
		if d.Level != "AUTOFIX" {
			lastNote = d.Msg
			continue
		}
		if m := kindAt[filepath.Base(d.Path)]; m != nil && d.Line1 > 0 {
			// several fixers may touch one line; the one that works at the end of the line (where a
			// line is joined with the next) names the key, otherwise the first one
			if k := c15FixKindOfNote(lastNote); k != "" {
				for ln := d.Line1; ln <= d.Line2; ln++ {
					if m[ln] == "" || k == "trim" {
						m[ln] = k
					}
				}
			}
		}
		isLayout := false
		for _, n := range c15LayoutNotes {
			if strings.HasPrefix(lastNote, n) {
				isLayout = true
				res.Count("whole_fix:"+n, 1)
			}
		}
		if !isLayout {
			foreign = lastNote + " / " + d.Msg
		}
	}
	if foreign != "" {
		// the generator must not trigger other fixers: a broken check, not a finding
		res.Count("whole_foreign_fix", 1)
		if res.Broken == "" {
			res.Broken = "generated Makefile triggers a fix outside the layout fixers: " + foreign
		}
		return
	}
	pb := pkglint.VerifVaralign(wc.before, "describe")
	pa := pkglint.VerifVaralign(wc.after, "describe")
	if pb.Panicked != "" || pa.Panicked != "" {
		c.viol("C15/whole/reparse-panic", pb.Panicked+pa.Panicked, true, c15Size(wc.file.lines), replay)
		return
	}
	// settle (canonical separation, <= 72) is evaluated per single-line paragraph by property();
	// the silent second pass is demanded for files in which every assignment is a single line
	c.property(c15Opts{what: "wholerun", settle: true, kindAt: kindAt["Makefile"]}, wc.before, wc.after, pb.Before, pa.Before, replay)
	if wc.file.extra != "" {
		// the fragment next to the Makefile, byte for byte: same final-newline state, same line ends,
		// and the property on its lines ("\r" and the other exotic bytes are ordinary bytes of the line)
		xb, nonlB := c15SplitFile(wc.xbefore)
		xa, nonlA := c15SplitFile(wc.xafter)
		res.Count("whole_extra_files", 1)
		if nonlB {
			res.Count("whole_extra_no_final_newline", 1)
		}
		if strings.Contains(wc.xbefore, "\r\n") {
			res.Count("whole_extra_crlf", 1)
		}
		if nonlA != nonlB {
			c.viol("C15/linecount/wholerun", fmt.Sprintf("the final newline of extra.mk changed: %q -> %q", wc.xbefore, wc.xafter), true, c15Size(xb), replay)
		} else {
			sfx := ""
			if nonlB {
				sfx = "/nonl"
			}
			xpb := pkglint.VerifVaralign(xb, "describe"+sfx)
			xpa := pkglint.VerifVaralign(xa, "describe"+sfx)
			if xpb.Panicked != "" || xpa.Panicked != "" {
				c.viol("C15/whole/reparse-panic", xpb.Panicked+xpa.Panicked, true, c15Size(xb), replay)
				return
			}
			c.property(c15Opts{what: "wholerun", settle: true, kindAt: kindAt["extra.mk"]}, xb, xa, xpb.Before, xpa.Before, replay)
		}
	}
	if wc.file.singleOnly {
		res.Count("whole_second_pass_checked", 1)
		if strings.Contains(wc.out2, "AUTOFIX: ") || strings.Join(wc.after2, "\n") != strings.Join(wc.after, "\n") || wc.xafter2 != wc.xafter {
			c.viol("C15/second-pass/wholerun", fmt.Sprintf("a second `pkglint -F` still changes a file with single-line paragraphs only: %q", wc.out2), true, c15Size(wc.file.lines), replay)
		}
	} else if strings.Contains(wc.out2, "AUTOFIX: ") {
		res.Count("whole_multiline_second_pass_not_silent", 1)
	}
	for k, v := range wc.file.features {
		res.Count("whole_feat:"+k, v)
	}
}

func c15WholeRun(c *c15Checker, rng *Rng, thorough bool) {
	n := 320
	if thorough {
		n = 5000
	}
	files := make([]*c15File, n)
	for i := range files {
		files[i] = c15GenFile(rng.Fork(), i%2 == 0)
		if i%5 < 2 { // i%2 and (i/5)%8 are independent: every variant with and without continuation lines
			c15GenExtra(rng.Fork(), files[i], i%2 == 0, (i/5)%8)
		}
	}
	cases := make([]c15WholeCase, n)
	parallelFor(16, func(w int) {
		dir := filepath.Join(c.ctx.Work, fmt.Sprintf("w%d", w))
		for i := w; i < n; i += 16 {
			cases[i] = c15RunWhole(c.ctx, dir, files[i].lines, files[i].extra)
			cases[i].file = files[i]
			cases[i].idx = i
		}
	})
	for i := range cases {
		c15WholeEvaluate(c, cases[i], map[string]any{"index": i})
	}
}

func c15WholeReplay(c *c15Checker, rep map[string]any) {
	body := unhxs(rep["body"])
	xh, _ := rep["extra"].(string)
	extra := unhx(xh)
	single := true
	xl, _ := c15SplitFile(extra)
	for _, l := range append(append([]string{}, body...), xl...) {
		if strings.HasSuffix(l, "\\") {
			single = false
		}
	}
	wc := c15RunWhole(c.ctx, filepath.Join(c.ctx.Work, "replay"), body, extra)
	wc.file = &c15File{lines: body, singleOnly: single, features: map[string]int{}, extra: extra}
	c15WholeEvaluate(c, wc, nil)
}
