package main

// C06log: the Logger-level part of C06.
//  1. escapePrintable (shim) against Model/Escape.v: all byte strings of <= 3 bytes over
//     representative bytes, chosen 4-byte sequences, then random strings; the safety
//     spec (every output byte in XPrint) is evaluated on the implementation's output.
//  2. Logger scripts shared with C08 (c08_logger.go): byte-for-byte correspondence, and
//     on the real output: only XPrint bytes, summary numbers = numbers of ERROR/WARN/NOTE
//     lines, "Looks fine." iff none of the first two.

import (
	"fmt"
	"regexp"
	"strconv"
	"strings"

	pkglint "github.com/rillig/pkglint/v23"
)

var c06Bytes = []byte{'A', ' ', '~', '<', '\t', '\n', '\r', 0x00, 0x1b, 0x7f, 0x80, 0xbf, 0xc2, 0xc3, 0xa9, 0xe0, 0xa0, 0xe2, 0x82, 0xac,
	0xed, 0x9f, 0xef, 0xbd, 0xf0, 0x90, 0xf4, 0x8f, 0xf5, 0xff}

func c06XPrint(b byte) bool { return b == '\n' || b == '\t' || (b >= 0x20 && b <= 0x7e) }

func c06UnsafeByte(s string) int {
	for i := 0; i < len(s); i++ {
		if !c06XPrint(s[i]) {
			return i
		}
	}
	return -1
}

func c06CheckEscape(ctx *Ctx, res *Result, inputs []string) {
	reqs := make([]string, len(inputs))
	impl := make([]string, len(inputs))
	parallelFor(16, func(w int) {
		for i := w; i < len(inputs); i += 16 {
			reqs[i] = "escape " + hx(inputs[i])
			impl[i] = pkglint.VerifEscapePrintable(inputs[i])
		}
	})
	ans, err := runOracle(ctx, "c06log", reqs)
	if err != nil {
		res.Broken = err.Error()
		return
	}
	for i, in := range inputs {
		if p := c06UnsafeByte(impl[i]); p >= 0 {
			res.AddViolation(Violation{
				Key:        "C06/escape/unsafe-byte",
				What:       fmt.Sprintf("escapePrintable(%q) = %q contains the byte 0x%02X, which is not printable ASCII, tab or newline", in, impl[i], impl[i][p]),
				FoundInput: true, Size: 1 + len(in),
				Replay: map[string]any{"kind": "escape", "input": hx(in)},
			})
		} else if unhx(ans[i]) != impl[i] {
			res.AddViolation(Violation{
				Key:        "C06/correspondence/escapePrintable",
				What:       fmt.Sprintf("escapePrintable(%q) = %q, model %q (both XPrint-only)", in, impl[i], unhx(ans[i])),
				FoundInput: false, Size: 1 + len(in),
				Replay: map[string]any{"kind": "escape", "input": hx(in), "broken": "correspondence escapePrintable = Model.Escape.escape_printable"},
			})
		}
		switch {
		case strings.Contains(impl[i], "<0x"):
			res.Count("escape.invalid-byte", 1)
		case strings.Contains(impl[i], "<U+"):
			res.Count("escape.rune", 1)
		default:
			res.Count("escape.unchanged", 1)
		}
	}
	res.Evaluations += len(inputs)
	res.TracesValidated += len(inputs)
}

var c06SummaryRe = regexp.MustCompile(`(?m)^(?:(\d+) errors?)?(?:, | and )?(?:(\d+) warnings?)?(?: and )?(?:(\d+) notes?)? found\.$`)

// c06CheckRealOutput evaluates the C06 statements on what the real Logger printed for a script.
var c06Shrunk = map[string]int{}

func c06CheckRealOutput(res *Result, s lgScript, r pkglint.VerifLoggerResult) {
	if r.Panic != "" {
		return
	}
	viol := func(key, what string) {
		c06Shrunk[key]++
		if c06Shrunk[key] <= 2 && len(s.Events) > 1 {
			// shrink: drop events while the same statement keeps failing on the real Logger
			has := func(t lgScript) (string, bool) {
				tmp := &Result{}
				c06Shrunk[key] += 1000 // no nested shrinking
				c06CheckRealOutput(tmp, t, pkglint.VerifLoggerScript(t.Opts, t.Lines, t.Events))
				c06Shrunk[key] -= 1000
				for _, v := range tmp.Violations {
					if v.Key == key {
						return v.What, true
					}
				}
				return "", false
			}
			small := lgShrink(s, func(t lgScript) bool { _, ok := has(t); return ok })
			if w, ok := has(small); ok {
				res.AddViolation(Violation{Key: key, What: w, FoundInput: true, Size: lgSize(small), Replay: lgReplayMap("logger-c06", small, nil)})
				return
			}
		}
		res.AddViolation(Violation{Key: key, What: what, FoundInput: true, Size: lgSize(s), Replay: lgReplayMap("logger-c06", s, nil)})
	}
	for _, out := range []string{r.Stdout, r.Stderr} {
		if p := c06UnsafeByte(out); p >= 0 {
			lo := p - 30
			if lo < 0 {
				lo = 0
			}
			viol("C06/logger/unsafe-byte", fmt.Sprintf("the real Logger wrote the byte 0x%02X: ...%q", out[p], out[lo:p+1]))
		}
	}
	// counters against the lines actually printed (only without -s / -e / messages containing newlines,
	// where every non-summary line of stdout is a diagnostic line)
	if s.Opts.ShowSource || s.Opts.Explain || lgHasNewlineMsg(s) {
		return
	}
	ne, nw, nn := 0, 0, 0
	for _, k := range lgDiagLines(r.Stdout, s.Opts.GccOutput) {
		switch {
		case strings.HasPrefix(k, "ERROR|"):
			ne++
		case strings.HasPrefix(k, "WARN|"):
			nw++
		case strings.HasPrefix(k, "NOTE|"):
			nn++
		}
	}
	res.Count("logger.c06.counted", 1)
	if ne != r.Errors || nw != r.Warnings || nn != r.Notes {
		viol("C06/logger/counts", fmt.Sprintf("counters %d/%d/%d but %d ERROR, %d WARN, %d NOTE lines were printed", r.Errors, r.Warnings, r.Notes, ne, nw, nn))
	}
	nsummaries := 0
	for _, ev := range s.Events {
		if ev.Kind == 'Y' {
			nsummaries++
		}
	}
	if nsummaries == 1 && s.Events[len(s.Events)-1].Kind == 'Y' && !s.Opts.Quiet && !s.Opts.Autofix {
		res.Count("logger.c06.summary-checked", 1)
		fine := strings.Contains(r.Stdout, "Looks fine.\n")
		if fine != (ne == 0 && nw == 0) {
			viol("C06/logger/looks-fine", fmt.Sprintf("Looks fine. printed: %v, with %d ERROR and %d WARN lines", fine, ne, nw))
		}
		if !fine {
			m := c06SummaryRe.FindStringSubmatch(r.Stdout)
			if m == nil {
				viol("C06/logger/summary-shape", "no `N errors, N warnings and N notes found.` line: "+q(c08Head(r.Stdout)))
			} else {
				a, _ := strconv.Atoi(m[1])
				b, _ := strconv.Atoi(m[2])
				c, _ := strconv.Atoi(m[3])
				if a != ne || b != nw || c != nn {
					viol("C06/logger/summary-counts", fmt.Sprintf("summary says %d/%d/%d, printed lines %d/%d/%d", a, b, c, ne, nw, nn))
				}
			}
		}
	}
}

func runC06log(ctx *Ctx) *Result {
	lgOracle = "c06log"
	res := &Result{Rule: "escapePrintable: all byte strings of <=3 bytes over 30 representative bytes (ASCII printable, tab, LF, CR, NUL, ESC, DEL, continuation bytes, every lead-byte class, 0xF5, 0xFF), all 4-byte strings over the lead/continuation bytes of U+10000..U+10FFFF, then seeded random strings of 0-12 bytes; non-trivial = an input that is changed by escaping, distinct by input; Logger scripts as in C08 (1-40 events over 1-4 lines, all option sets)"}
	rng := NewRng(ctx.Seed)
	var inputs []string
	inputs = append(inputs, "")
	prev := []string{""}
	for n := 1; n <= 3; n++ {
		var next []string
		for _, p := range prev {
			for _, b := range c06Bytes {
				next = append(next, p+string([]byte{b}))
			}
		}
		inputs = append(inputs, next...)
		prev = next
	}
	four := []byte{0xf0, 0xf4, 0x90, 0x8f, 0x80, 0xbf, 0x9f, 'A'}
	for _, a := range four {
		for _, b := range four {
			for _, c := range four {
				for _, d := range four {
					inputs = append(inputs, string([]byte{a, b, c, d}))
				}
			}
		}
	}
	nexh := len(inputs)
	nrand := 10000
	if ctx.Tier == "thorough" {
		nrand = 1000000
	}
	for i := 0; i < nrand; i++ {
		n := rng.Intn(13)
		b := make([]byte, n)
		for j := range b {
			if rng.Chance(70) {
				b[j] = c06Bytes[rng.Intn(len(c06Bytes))]
			} else {
				b[j] = byte(rng.Intn(256))
			}
		}
		inputs = append(inputs, string(b))
	}
	res.Count("escape.exhaustive", nexh)
	res.Count("escape.random", nrand)
	c06CheckEscape(ctx, res, inputs)
	if res.Broken != "" {
		return res
	}
	seen := map[string]bool{}
	for _, in := range inputs {
		if pkglint.VerifEscapePrintable(in) != in {
			seen[in] = true
		}
	}
	res.DistinctNontrivial = len(seen)
	for _, k := range []string{"escape.invalid-byte", "escape.rune", "escape.unchanged"} {
		c08Floor(res, k, 100)
	}
	res.Sample(map[string]any{"input": "a\x1b[0m\xffé", "escapePrintable": pkglint.VerifEscapePrintable("a\x1b[0m\xffé")})

	n := 2500
	if ctx.Tier == "thorough" {
		n = 100000
	}
	lgRunScripts(ctx, res, rng.Fork(), n, "C06", false)
	if res.Broken != "" {
		return res
	}
	for k, min := range map[string]int{"logger.scripts-with-diagnostics": n / 3, "logger.with-escaped-byte": n / 10, "logger.with-counts": n / 10,
		"logger.with-looks-fine": n / 20, "logger.with-hints": n / 20, "logger.c06.counted": n / 8, "logger.c06.summary-checked": n / 20} {
		c08Floor(res, k, min)
	}
	res.Exhaustive = false
	return res
}

func replayC06log(ctx *Ctx, rep map[string]any) *Result {
	lgOracle = "c06log"
	res := &Result{Rule: "replay"}
	switch rep["kind"] {
	case "escape":
		in, _ := rep["input"].(string)
		c06CheckEscape(ctx, res, []string{unhx(in)})
	case "logger":
		rep["key"] = "C06/correspondence/logger"
		c08ReplayLogger(ctx, res, rep)
	case "logger-c06":
		s, ok := lgDecodeScript(rep["script"])
		if !ok {
			res.Broken = "replay file has no script"
			return res
		}
		c06CheckRealOutput(res, s, pkglint.VerifLoggerScript(s.Opts, s.Lines, s.Events))
		res.Evaluations++
	default:
		res.Broken = fmt.Sprintf("unknown replay kind %v", rep["kind"])
	}
	return res
}

func init() { register("C06log", runC06log, replayC06log) }
