package main

// C15: layout fixes change whitespace only and leave single-line paragraphs
// settled.
//
//   unit:  width arithmetic of util.go against Model/Tabs.v (exhaustive grid);
//          VaralignBlock, trailing-whitespace trim, directive re-indentation,
//          shell-tab normalisation and fixSpaceAfterVarname against
//          Model/Varalign.v and Model/LayoutFix.v; the property itself is
//          evaluated on the implementation's output, independently of the model
//   whole: `pkglint -F` on generated package Makefiles (c15gen.go)

import (
	"fmt"
	"strconv"
	"strings"
	"unicode/utf8"

	pkglint "github.com/rillig/pkglint/v23"
)

// ---------- independent helpers (the executable statement of the property) ----------

func c15IsBlank(s string) bool { return strings.Trim(s, " \t") == "" }

// "blank" in C15 means the two bytes 0x20 (space) and 0x09 (tab) and nothing else: not \f \v \r,
// not U+00A0, U+0085, U+2028 (in any encoding), not a lone 0x85 / 0xA0 byte. Byte-exact on purpose
// (strings.Map would fold every invalid byte into U+FFFD).
func c15Strip(s string) string {
	b := make([]byte, 0, len(s))
	for i := 0; i < len(s); i++ {
		if s[i] != ' ' && s[i] != '\t' {
			b = append(b, s[i])
		}
	}
	return string(b)
}

// bytes and runes that C, Go's unicode.IsSpace, strings.Fields/TrimSpace or a regular expression's \s
// call white space, but that are NOT blanks in the sense of C15; every fixer must leave them alone
var c15Exotic = []string{"\f", "\v", "\r", "\u00a0", "\u0085", "\u2028", "\x85", "\xa0"}

// all strings of 1..n tokens over blanks and exotic white space that contain at least one exotic token
func c15ExoticRuns(n int) []string {
	toks := append([]string{" ", "\t"}, c15Exotic...)
	var out []string
	prev := []string{""}
	for k := 1; k <= n; k++ {
		var next []string
		for _, p := range prev {
			for _, t := range toks {
				next = append(next, p+t)
			}
		}
		for _, x := range next {
			if !c15IsBlank(x) {
				out = append(out, x)
			}
		}
		prev = next
	}
	return out
}

// screen width with tab stops every 8 columns, one column per rune (invalid bytes count 1)
func c15Width(s string) int {
	w := 0
	for len(s) > 0 {
		r, n := utf8.DecodeRuneInString(s)
		s = s[n:]
		if r == '\t' {
			w = w/8*8 + 8
		} else {
			w++
		}
	}
	return w
}

func c15AllTabs(s string) bool { return s != "" && strings.Trim(s, "\t") == "" }

func c15hxs(ss []string) []string {
	out := make([]string, len(ss))
	for i, s := range ss {
		out[i] = hx(s)
	}
	return out
}

func unhxs(v any) []string {
	var out []string
	if l, ok := v.([]any); ok {
		for _, x := range l {
			s, _ := x.(string)
			out = append(out, unhx(s))
		}
	}
	return out
}

type c15Checker struct {
	ctx *Ctx
	res *Result
	// oracle batch for fragments in mode "align"
	reqs         []string
	reqImpl      [][]string // implementation's output lines
	reqIn        [][]string
	reqActs      []int
	reqBad       []bool // the property itself already failed on this case
	reqNonl      []bool
	distinct     map[string]bool
	deferred     []c15Deferred
	nsamples     map[string]int
	lastFailKeys []string // keys raised by the last property() call
	sfx          string   // "" or "/nonl": the fragment is a file whose last line has no newline
	cross        []c15CrossCase
	crossSeen    map[string]int
}

func (c *c15Checker) withNoFinalNewline(nonl bool, f func()) {
	old := c.sfx
	if nonl {
		c.sfx = "/nonl"
	}
	f()
	c.sfx = old
}

func (c *c15Checker) viol(key, what string, found bool, size int, replay map[string]any) {
	c.res.AddViolation(Violation{Key: key, What: what, FoundInput: found, Size: size, Replay: replay})
}

func c15Size(lines []string) int {
	n := len(lines)
	for _, l := range lines {
		n += len(l)
	}
	return n
}

// a paragraph (maximal run of non-empty logical lines) that consists only of
// single-line assignments; returns the index ranges into the logical lines
func c15SingleParagraphs(ls []pkglint.VerifLayoutLine) [][2]int {
	var out [][2]int
	start, ok := -1, true
	flush := func(end int) {
		if start >= 0 && ok && end > start {
			out = append(out, [2]int{start, end})
		}
		start, ok = -1, true
	}
	for i, l := range ls {
		if l.Kind == "empty" {
			flush(i)
			continue
		}
		if start < 0 {
			start = i
		}
		if l.Kind != "assign" || len(l.Raw) != 1 {
			ok = false
		}
	}
	flush(len(ls))
	return out
}

// processVarassign's exclusions (stated in the property's guard, see docs/C15.md)
func c15Participates(l pkglint.VerifLayoutLine) bool {
	if l.Kind != "assign" {
		return false
	}
	if l.Op == ":=" && l.Varname != "" && l.Varname[0] >= 'a' && l.Varname[0] <= 'z' {
		return false
	}
	if l.Value == "" && !l.HasComm {
		return false
	}
	return true
}

// words separated by blanks (space and tab only; strings.Fields would also split at \f \v \r U+0085 U+00A0)
func c15Fields(s string) string {
	return strings.Join(strings.FieldsFunc(s, func(r rune) bool { return r == ' ' || r == '\t' }), " ")
}

type c15Opts struct {
	what       string // context for keys: "align", "trim", "dir", "shell", "sav", "wholerun"
	settle     bool   // demand canonical separation, <=72 and a silent second pass for single-line paragraphs
	secondPass func(lines []string) (acts []string, out []string, parsed []pkglint.VerifLayoutLine, panicked string)
	// whole run: which fixer pkglint announced for a raw line (1-based line number of the file), for the key
	kindAt map[int]string
	// only the 72-column clause of the settle clauses (the pass may legitimately have left the
	// alignment to the next run: canonical separation and a silent second pass are not due yet)
	marginOnly bool
}

// c15Structure is the line structure of a file as the real loader sees it: the number of
// physical lines of every logical line, in order.
func c15Structure(ls []pkglint.VerifLayoutLine) []int {
	out := make([]int, len(ls))
	for i, l := range ls {
		out[i] = len(l.Raw)
	}
	return out
}

// the kind of fix named by a note of pkglint
func c15FixKindOfNote(note string) string {
	switch {
	case strings.HasPrefix(note, "Trailing whitespace."):
		return "trim"
	case strings.HasPrefix(note, "This directive should be indented by"):
		return "dir"
	case strings.HasPrefix(note, "Shell programs should be indented with a single tab."):
		return "shell"
	case strings.HasPrefix(note, "Unnecessary space after variable name"):
		return "sav"
	}
	for _, n := range c15LayoutNotes {
		if strings.HasPrefix(note, n) {
			return "align"
		}
	}
	return ""
}

// c15Property evaluates C15 on one observed (before, after) pair of raw line lists.
// parsedBefore / parsedAfter are the real parser's views of both. Returns true when all held.
func (c *c15Checker) property(o c15Opts, before, after []string, pb, pa []pkglint.VerifLayoutLine, replay map[string]any) bool {
	okAll := true
	size := c15Size(before)
	c.lastFailKeys = nil
	fail := func(key, what string) {
		okAll = false
		c.lastFailKeys = append(c.lastFailKeys, key)
		c.viol(key, what, true, size, replay)
	}
	// 1. only blanks differ, line structure is the same
	if len(before) != len(after) {
		fail("C15/linecount/"+o.what, fmt.Sprintf("%s: %d raw lines became %d: %q -> %q", o.what, len(before), len(after), before, after))
		return false
	}
	for i := range before {
		if c15Strip(before[i]) != c15Strip(after[i]) {
			key := "C15/nonblank/" + o.what
			// narrow signature for the one known case: a commented-out assignment loses its '#'
			if strings.HasPrefix(before[i], "#") && c15Strip(before[i]) == "#"+c15Strip(after[i]) {
				key = "C15/nonblank/fixSpaceAfterVarname/commented"
			}
			fail(key, fmt.Sprintf("%s changed more than blanks: %q -> %q", o.what, before[i], after[i]))
			return false
		}
	}
	// 2a. the line structure: the real loader, given the fixed text, groups the physical lines into
	// the same logical lines (same number of logical lines, each with the same number of physical lines)
	if sb, sa := c15Structure(pb), c15Structure(pa); fmt.Sprint(sb) != fmt.Sprint(sa) {
		kind := o.what
		// the first logical line that differs, and what pkglint said it fixes in its physical lines
		// (the last one first: that is where a line is joined with the next)
		raw, at, n := 0, -1, 1
		for i := 0; i < len(sb) && i < len(sa) && at < 0; i++ {
			if sb[i] != sa[i] {
				at, n = raw, sb[i]
			}
			raw += sb[i]
		}
		if at < 0 {
			at = raw
		}
		if o.kindAt != nil {
			kind = "wholerun"
			for ln := at + n; ln >= at+1; ln-- {
				if k := o.kindAt[ln]; k != "" {
					kind = k
					break
				}
			}
		}
		lo, hi := at-1, at+3
		if lo < 0 {
			lo = 0
		}
		if hi > len(before) {
			hi = len(before)
		}
		fail("C15/line-structure-changed/"+kind, fmt.Sprintf("%s: the file loaded again has another line structure: physical lines per logical line %v became %v; around line %d: %q -> %q",
			o.what, sb, sa, at+1, before[lo:hi], after[lo:hi]))
		return false
	}
	// 2. the same lines as re-parsed: kind, name, operator, value words, comment, raw line count
	if len(pb) != len(pa) {
		fail("C15/reparse/"+o.what, fmt.Sprintf("%s: %d logical lines became %d: %q -> %q", o.what, len(pb), len(pa), before, after))
		return false
	}
	for i := range pb {
		a, b := pb[i], pa[i]
		if c15Strip(strings.Join(a.Raw, "")) == "" && c15Strip(strings.Join(b.Raw, "")) == "" && len(a.Raw) == len(b.Raw) {
			continue // a line of blanks only has no name, operator, value or comment
		}
		if a.Kind != b.Kind || a.Commented != b.Commented || a.Varname != b.Varname || a.Op != b.Op ||
			c15Fields(a.Value) != c15Fields(b.Value) || a.HasComm != b.HasComm ||
			strings.TrimRight(a.Comment, " \t") != strings.TrimRight(b.Comment, " \t") || len(a.Raw) != len(b.Raw) {
			key := "C15/reparse/" + o.what
			for _, p := range a.Parts {
				if len(p[5]) > 1 && a.Kind == b.Kind && a.Varname == b.Varname && a.Op == b.Op {
					// the splitter took a run of backslashes as the continuation marker
					key = "C15/reparse/backslash-run-before-continuation"
				}
			}
			fail(key, fmt.Sprintf("%s: line parses differently after the fix: %q (%s %q %q %q #%q) -> %q (%s %q %q %q #%q)",
				o.what, a.Raw, a.Kind, a.Varname, a.Op, a.Value, a.Comment, b.Raw, b.Kind, b.Varname, b.Op, b.Value, b.Comment))
			return false
		}
	}
	if !o.settle {
		return okAll
	}
	// 3. + 4. single-line paragraphs: canonical separation, nothing widened beyond 72
	paras := c15SingleParagraphs(pa)
	// raw index of each logical line
	rawAt := make([]int, len(pa)+1)
	for i, l := range pa {
		rawAt[i+1] = rawAt[i] + len(l.Raw)
	}
	singleOnly := len(paras) > 0
	for _, l := range pa {
		if l.Kind != "empty" && !(l.Kind == "assign" && len(l.Raw) == 1) {
			singleOnly = false
		}
	}
	for _, pr := range paras {
		for i := pr[0]; i < pr[1]; i++ {
			l := pa[i]
			if !c15Participates(l) {
				continue
			}
			sbv := l.Parts[0][2]
			if !(c15AllTabs(sbv) || sbv == " ") && !o.marginOnly {
				fail("C15/noncanonical/"+o.what, fmt.Sprintf("%s: after one pass the value of %q is separated by %q (paragraph %q)", o.what, l.Raw[0], sbv, after))
			}
			bl, al := before[rawAt[i]], after[rawAt[i]]
			if c15Width(bl) <= 72 && c15Width(al) > 72 {
				key := "C15/widen72/other"
				op, ap := pb[i].Parts[0], l.Parts[0]
				rt := func(p [6]string) string { return strings.TrimRight(p[3]+p[4]+p[5], " \t") }
				if len(pb[i].Parts) == 1 && c15Strip(op[0]+op[1]) == c15Strip(ap[0]+ap[1]) && rt(op) == rt(ap) &&
					c15Width(ap[0]+ap[1]) <= c15Width(op[0]+op[1]) {
					// only spaceBeforeValue made the line wider: in a single-line paragraph that is alignValueSingle
					key = "C15/widen72/alignValueSingle"
					if op[2] == "" && (c15Width(op[0]+op[1]+" "+op[3]) > 72 || c15Width(op[0]+op[1]+" "+strings.TrimRight(op[3], " \t")) > 72) {
						// the value follows the operator directly and not even a single space fits
						// into the 72 columns: no canonical separator is possible without widening
						// (the two clauses of the property collide)
						key = "C15/widen72/attached-value-no-room"
					}
				}
				fail(key, fmt.Sprintf("%s: %q (%d columns) became %q (%d columns)", o.what, bl, c15Width(bl), al, c15Width(al)))
			}
		}
	}
	// 5. a second pass changes nothing and reports nothing
	if singleOnly && o.secondPass != nil && !o.marginOnly {
		acts, out, _, pan := o.secondPass(after)
		if pan != "" {
			fail("C15/panic/second-pass/"+o.what, fmt.Sprintf("%s: second pass over %q: %s", o.what, after, pan))
		} else if len(acts) > 0 || strings.Join(out, "\n") != strings.Join(after, "\n") {
			fail("C15/second-pass/"+o.what, fmt.Sprintf("%s: a second pass over %q still changes something: %q %q", o.what, after, acts, out))
		}
		c.res.Count("second_pass_checked", 1)
	}
	return okAll
}

// ---------- model requests ----------

func c15KindCode(l pkglint.VerifLayoutLine) string {
	switch l.Kind {
	case "empty":
		return "E"
	case "assign":
		b := func(x bool) string {
			if x {
				return "1"
			}
			return "0"
		}
		lower := l.Varname != "" && l.Varname[0] >= 'a' && l.Varname[0] <= 'z'
		return "A" + b(l.Op == ":=") + b(lower) + b(l.Value == "") + b(l.HasComm)
	case "comment", "directive":
		return "N"
	}
	return "O"
}

func c15FileRequest(ls []pkglint.VerifLayoutLine) string {
	var sb strings.Builder
	sb.WriteString("file ")
	sb.WriteString(strconv.Itoa(len(ls)))
	for _, l := range ls {
		sb.WriteString(" " + c15KindCode(l) + " " + strconv.Itoa(len(l.Raw)))
		for i, raw := range l.Raw {
			sb.WriteString(" " + hx(raw))
			if l.Kind == "assign" {
				for _, p := range l.Parts[i] {
					sb.WriteString(" " + hx(p))
				}
			} else {
				sb.WriteString(" - - - " + hx(raw) + " - -")
			}
		}
	}
	return sb.String()
}

// ---------- VaralignBlock: one fragment ----------

func c15SecondAlign(sfx string) func(lines []string) ([]string, []string, []pkglint.VerifLayoutLine, string) {
	return func(lines []string) ([]string, []string, []pkglint.VerifLayoutLine, string) {
		r := pkglint.VerifVaralign(lines, "align"+sfx)
		return r.Actions, r.Lines, r.Before, r.Panicked
	}
}

// alignFragment runs the real VaralignBlock over the fragment, evaluates the
// property on the result and queues the model request.
func (c *c15Checker) alignFragment(lines []string, source string) {
	replay := map[string]any{"kind": "align", "lines": c15hxs(lines), "source": source, "nonl": c.sfx != ""}
	c.res.Evaluations++
	if c.sfx != "" {
		c.res.Count("align_no_final_newline", 1)
	}
	r1 := pkglint.VerifVaralign(lines, "align"+c.sfx)
	if r1.Panicked != "" {
		c.viol("C15/panic/align", fmt.Sprintf("VaralignBlock over %q: %s", lines, r1.Panicked), true, c15Size(lines), replay)
		return
	}
	// what the parser did before VaralignBlock ran (fixSpaceAfterVarname) is part of `before`
	var parsedRaw []string
	wf := true
	for _, l := range r1.Before {
		parsedRaw = append(parsedRaw, l.Raw...)
		for i, p := range l.Parts {
			// the splitter's post-condition that the theorems assume
			if !c15IsBlank(p[2]) || !c15IsBlank(p[4]) || (p[3] == "" && p[4] != "") || strings.Join(p[:], "") != l.Raw[i] {
				wf = false
			}
		}
	}
	r2 := pkglint.VerifVaralign(r1.Lines, "describe"+c.sfx)
	good := c.property(c15Opts{what: "align", settle: true, secondPass: c15SecondAlign(c.sfx)}, lines, r1.Lines, r1.Before, r2.Before, replay)
	if !wf {
		// (reported after the property was evaluated on the output: if the fixes then touched a
		// non-blank byte, that is a second, found-input violation of this case)
		c.viol("C15/correspondence/splitter-postcondition", fmt.Sprintf("VaralignSplitter broke its post-condition (space parts blank, no space after an empty value, parts recombine to the raw line) for %q", lines),
			false, c15Size(lines), map[string]any{"kind": "align", "lines": c15hxs(lines), "nonl": c.sfx != "", "broken": "assumption wf: the splitter's space parts are blank and String() == raw"})
		return
	}
	c.res.Count("align_fragments", 1)
	c.res.Count("align_actions", len(r1.Actions))
	for _, a := range r1.Actions {
		switch {
		case strings.Contains(a, `with " ".`):
			c.res.Count("action_to_single_space", 1)
		case strings.Contains(a, `\\" with`):
			c.res.Count("action_continuation_backslash", 1)
		}
	}
	if len(r1.Actions) > 0 {
		c.distinct[strings.Join(lines, "\n")] = true
		if c.nsamples[source] < 2 && source != "exh1" {
			c.nsamples[source]++
			c.res.Sample(map[string]any{"kind": "VaralignBlock " + source, "before": lines, "after": r1.Lines, "autofix": r1.Actions})
		}
	}
	c.reqs = append(c.reqs, c15FileRequest(r1.Before))
	c.reqImpl = append(c.reqImpl, r1.Lines)
	c.reqIn = append(c.reqIn, lines)
	c.reqNonl = append(c.reqNonl, c.sfx != "")
	nact := len(r1.Actions)
	if strings.Join(parsedRaw, "\n") != strings.Join(lines, "\n") {
		// the parser (fixSpaceAfterVarname) already changed something: not VaralignBlock's actions
		nact -= len(pkglint.VerifVaralign(lines, "parse"+c.sfx).Actions)
		c.res.Count("align_after_parser_fix", 1)
	}
	c.reqActs = append(c.reqActs, nact)
	// the model is faithful to the code also where the code violates the 72-column clause or
	// splits a word at a backslash run: keep comparing there; any other property failure
	// already is the finding for this input
	bad := false
	for _, k := range c.lastFailKeys {
		if !strings.HasPrefix(k, "C15/widen72/") && k != "C15/reparse/backslash-run-before-continuation" {
			bad = true
		}
	}
	_ = good
	c.reqBad = append(c.reqBad, bad)
	if len(c.reqs) >= 40000 {
		c.flushModel()
	}
}

func (c *c15Checker) flushModel() {
	if len(c.reqs) == 0 {
		return
	}
	ans, err := runOracle(c.ctx, "c15", c.reqs)
	if err != nil {
		c.res.Broken = err.Error()
		return
	}
	c.crossSample("file", c.reqs, ans, 70)
	for i, a := range ans {
		f := strings.Fields(a)
		implLines := c.reqImpl[i]
		same := false
		modelSilent := false
		var modelLines []string
		if len(f) >= 2 && f[0] == "ok" {
			for _, h := range f[2:] {
				modelLines = append(modelLines, unhx(h))
			}
			modelSilent = f[1] == "0"
			same = strings.Join(modelLines, "\n") == strings.Join(implLines, "\n") && modelSilent == (c.reqActs[i] == 0)
		}
		if a == "P" {
			c.res.Count("model_panic", 1)
		}
		if strings.HasPrefix(a, "ERR") || strings.HasPrefix(a, "EXC") {
			c.res.Broken = "oracle: " + a + " for " + c.reqs[i]
			return
		}
		c.res.TracesValidated++
		if !same && !c.reqBad[i] {
			c.viol("C15/correspondence/varalign", fmt.Sprintf("model and VaralignBlock disagree on %q: real %q (%d actions), model %q (%s)", c.reqIn[i], implLines, c.reqActs[i], modelLines, a[:imin(len(a), 12)]),
				false, c15Size(c.reqIn[i]), map[string]any{"kind": "align", "lines": c15hxs(c.reqIn[i]), "nonl": c.reqNonl[i], "broken": "correspondence VaralignBlock.Finish = Model.Varalign.process_file"})
		}
	}
	c.reqs, c.reqImpl, c.reqIn, c.reqActs, c.reqBad, c.reqNonl = nil, nil, nil, nil, nil, nil
}

// ---------- generators for the unit part ----------

var c15NameWidths = []int{1, 6, 7, 8, 14, 15, 16, 17, 23, 24, 31, 40}
var c15Blanks = []string{"\t", " ", "", "\t\t", "  "}
var c15MoreBlanks = []string{"\t", " ", "", "\t\t", "  ", " \t", "\t ", "   \t", "        ", "\t\t\t", "      "}
var c15ValueWidths = []int{1, 30, 60}
var c15Ops = []string{"=", "+=", "?=", ":=", "!="}

func c15Name(w int, salt int) string {
	const pool = "ABCDEFGHIJKLMNOPQRSTUVWXYZ_0123456789"
	var sb strings.Builder
	sb.WriteByte("VXYLMC"[salt%6])
	for i := 1; i < w; i++ {
		sb.WriteByte(pool[(i*7+salt)%len(pool)])
	}
	return sb.String()
}

func c15Value(w int) string {
	const pool = "value-0123456789/abcdefghijklmnopqrstuvwxyz.ABCDEFGHIJKLMNOPQRSTUVWXYZ"
	var sb strings.Builder
	for i := 0; i < w; i++ {
		sb.WriteByte(pool[i%len(pool)])
	}
	return sb.String()
}

func c15Line(nameW int, op, blank string, valueW int, commented bool, salt int) string {
	s := c15Name(nameW, salt) + op + blank + c15Value(valueW)
	if commented {
		s = "#" + s
	}
	return s
}

// random logical line, possibly with continuation lines
func c15RandomAssign(r *Rng, allowCont bool) []string {
	nameW := 1 + r.Intn(40)
	if r.Chance(60) {
		nameW = Pick(r, c15NameWidths)
	}
	name := c15Name(nameW, r.Intn(1000))
	if r.Chance(5) {
		name = strings.ToLower(name)
	}
	if r.Chance(8) {
		name += "." + Pick(r, []string{"x", "${PARAM}", "long-parameter"})
	}
	op := Pick(r, c15Ops)
	lead := ""
	switch {
	case r.Chance(15):
		lead = "#"
	case r.Chance(3):
		lead = Pick(r, []string{" ", "  "})
	}
	spAfterName := ""
	if r.Chance(6) {
		spAfterName = Pick(r, []string{" ", "  ", "\t"})
	}
	val := func() string {
		switch {
		case r.Chance(10):
			return ""
		case r.Chance(25):
			return c15Value(20 + r.Intn(50))
		case r.Chance(10):
			return Pick(r, []string{"a\\ b", "word\\#nocomment", "[#]", "'a b'", "${VAR:S,a,b,}", "$$x", "a\\\\"})
		default:
			return Pick(r, []string{"value", "a b c", "${PREFIX}/bin", "-DFOO=1 -DBAR", "yes", "1.2.3", "x"})
		}
	}
	comment := func() string {
		if r.Chance(15) {
			return Pick(r, []string{"", " ", "\t", "  "}) + "#" + Pick(r, []string{"", " comment", " none", "comment \\# more"})
		}
		return ""
	}
	// exotic white space (never a blank) directly next to the blanks the fixers work on
	x := func(pct int) string {
		if r.Chance(pct) {
			return Pick(r, c15Exotic)
		}
		return ""
	}
	blank := func() string {
		b := Pick(r, c15MoreBlanks)
		if r.Chance(6) {
			switch r.Intn(3) {
			case 0:
				b = Pick(r, c15Exotic) + b
			case 1:
				b += Pick(r, c15Exotic)
			default:
				b = b[:len(b)/2] + Pick(r, c15Exotic) + b[len(b)/2:]
			}
		}
		return b
	}
	first := lead + name + spAfterName + op + blank() + val() + x(3) + comment() + x(3)
	if !allowCont || !r.Chance(45) {
		if r.Chance(4) {
			first += Pick(r, []string{" ", "\t", "  \t"}) + x(20)
		}
		return []string{first}
	}
	n := 1 + r.Intn(4)
	lines := []string{first}
	if r.Chance(30) { // empty first line: VAR= \
		lines[0] = lead + name + op
	}
	bs := func() string {
		switch {
		case r.Chance(40):
			return " \\"
		case r.Chance(30):
			return Pick(r, []string{"\t\\", "\t\t\\", "\t\t\t\\", "\t\t\t\t\t\\"})
		case r.Chance(30):
			return Pick(r, []string{"\\", "  \\", " \t\\", "   \\"})
		default: // backslash at column 72
			return "\x00"
		}
	}
	finish := func(s string) string {
		b := bs()
		if b != "\x00" {
			if r.Chance(4) {
				return s + Pick(r, c15Exotic) + b
			}
			return s + b
		}
		w := c15Width(s)
		if w >= 72 {
			return s + " \\"
		}
		for c15Width(s) < 72 {
			s += "\t"
		}
		return s + "\\"
	}
	lines[0] = finish(lines[0])
	for i := 1; i <= n; i++ {
		ind := blank()
		l := ind + val()
		if r.Chance(8) {
			l = ind + "# commented continuation"
		}
		if r.Chance(4) {
			l = ""
		}
		if i < n {
			l = finish(l)
		}
		lines = append(lines, l)
	}
	return lines
}

func c15RandomFragment(r *Rng, allowCont bool) []string {
	var ls []string
	nparas := 1
	if r.Chance(25) {
		nparas = 2
	}
	for p := 0; p < nparas; p++ {
		if p > 0 {
			ls = append(ls, "")
		}
		n := 1 + r.Intn(4)
		for i := 0; i < n; i++ {
			ls = append(ls, c15RandomAssign(r, allowCont)...)
			switch {
			case r.Chance(5):
				ls = append(ls, "# a comment line")
			case r.Chance(4):
				ls = append(ls, ".if 1", ".endif")
			case r.Chance(2):
				ls = append(ls, "target: source") // makes VaralignBlock skip the paragraph
			}
		}
	}
	return ls
}

// ---------- the width arithmetic ----------

func blankStrings(maxLen int) []string {
	out := []string{""}
	prev := []string{""}
	for n := 1; n <= maxLen; n++ {
		var next []string
		for _, p := range prev {
			next = append(next, p+" ", p+"\t")
		}
		out = append(out, next...)
		prev = next
	}
	return out
}

type c15TabCase struct {
	op   string
	a, b int
	s, t string
}

func (tc c15TabCase) req() string {
	switch tc.op {
	case "twa":
		return fmt.Sprintf("twa %d %s", tc.a, hx(tc.s))
	case "atw":
		return fmt.Sprintf("atw %d %d", tc.a, tc.b)
	case "ind":
		return fmt.Sprintf("ind %d", tc.a)
	case "aa":
		return fmt.Sprintf("aa %s %d", hx(tc.s), tc.a)
	}
	return fmt.Sprintf("aw %s %s", hx(tc.s), hx(tc.t))
}

func (tc c15TabCase) replay() map[string]any {
	return map[string]any{"kind": "tab", "op": tc.op, "a": tc.a, "b": tc.b, "s": hx(tc.s), "t": hx(tc.t)}
}

func (c *c15Checker) tabCases(cases []c15TabCase) {
	reqs := make([]string, len(cases))
	impl := make([]string, len(cases))
	for i, tc := range cases {
		reqs[i] = tc.req()
		str, n, pan := pkglint.VerifTabOps(tc.op, tc.a, tc.b, tc.s, tc.t)
		switch {
		case pan != "":
			impl[i] = "P"
		case tc.op == "twa":
			impl[i] = strconv.Itoa(n)
		default:
			impl[i] = hx(str)
		}
		// the arithmetic laws, on the implementation itself
		if pan == "" {
			switch tc.op {
			case "ind":
				if tc.a >= 0 && (c15Width(str) != tc.a || !c15IsBlank(str)) {
					c.viol("C15/arith/indent-width", fmt.Sprintf("indent(%d) = %q has width %d", tc.a, str, c15Width(str)), true, 1, tc.replay())
				}
			case "atw":
				if !c15IsBlank(str) {
					c.viol("C15/arith/alignment-blank", fmt.Sprintf("alignmentToWidths(%d,%d) = %q", tc.a, tc.b, str), true, 1, tc.replay())
				}
				if 0 <= tc.a && tc.a <= tc.b {
					_, w, _ := pkglint.VerifTabOps("twa", tc.a, 0, str, "")
					if w != tc.b {
						c.viol("C15/arith/alignment-reaches", fmt.Sprintf("alignmentToWidths(%d,%d) = %q reaches column %d", tc.a, tc.b, str, w), true, 1, tc.replay())
					}
				}
			case "aa":
				if c15Width(tc.s+str) != tc.a || !c15IsBlank(str) {
					c.viol("C15/arith/alignmentAfter-reaches", fmt.Sprintf("alignmentAfter(%q,%d) = %q reaches column %d", tc.s, tc.a, str, c15Width(tc.s+str)), true, 1, tc.replay())
				}
			case "aw":
				if !strings.HasPrefix(str, tc.s) || !c15IsBlank(str[len(tc.s):]) || (c15Width(tc.s) <= c15Width(tc.t) && c15Width(str) != c15Width(tc.t)) {
					c.viol("C15/arith/alignWith", fmt.Sprintf("alignWith(%q,%q) = %q", tc.s, tc.t, str), true, 1, tc.replay())
				}
			case "twa":
				if tc.a >= 0 && utf8.ValidString(tc.s) {
					// independent reference: continue the column count
					pad := strings.Repeat("x", tc.a)
					if c15Width(pad+tc.s) != n {
						c.viol("C15/arith/tabWidthAppend", fmt.Sprintf("tabWidthAppend(%d,%q) = %d, expected %d", tc.a, tc.s, n, c15Width(pad+tc.s)), true, 1, tc.replay())
					}
				}
			}
		}
	}
	ans, err := runOracle(c.ctx, "c15", reqs)
	if err != nil {
		c.res.Broken = err.Error()
		return
	}
	byOp := map[string][2][]string{}
	for i, tc := range cases {
		e := byOp[tc.op]
		e[0], e[1] = append(e[0], reqs[i]), append(e[1], ans[i])
		byOp[tc.op] = e
	}
	for _, op := range []string{"twa", "atw", "ind", "aa", "aw"} {
		c.crossSample(op, byOp[op][0], byOp[op][1], 12)
	}
	for i, tc := range cases {
		c.res.TracesValidated++
		if ans[i] != impl[i] && (tc.a < 0 || tc.b < 0) {
			// widths below zero never reach these helpers; the model's answer there is
			// not an observable of the program (counted, not judged)
			c.res.Count("tab_negative_width_disagreements", 1)
			continue
		}
		if ans[i] != impl[i] {
			c.viol("C15/correspondence/tabs-"+tc.op, fmt.Sprintf("%s: real %s, model %s", reqs[i], impl[i], ans[i]), false, 1,
				map[string]any{"kind": "tab", "op": tc.op, "a": tc.a, "b": tc.b, "s": hx(tc.s), "t": hx(tc.t), "broken": "correspondence util.go width helpers = Model.Tabs"})
		}
		if impl[i] == "P" {
			c.res.Count("tab_panics_"+tc.op, 1)
		}
	}
	c.res.Evaluations += len(cases)
	c.res.Count("tab_cases", len(cases))
}

func c15TabGrid(r *Rng, thorough bool) []c15TabCase {
	var cs []c15TabCase
	blanks := blankStrings(6)
	for w := 0; w <= 200; w++ {
		for _, b := range blanks {
			cs = append(cs, c15TabCase{op: "twa", a: w, s: b})
		}
		for o := 0; o <= 200; o++ {
			cs = append(cs, c15TabCase{op: "atw", a: w, b: o})
		}
	}
	for w := -40; w <= 300; w++ {
		cs = append(cs, c15TabCase{op: "ind", a: w})
	}
	for _, w := range []int{-1000, 1000, 4096, -4097} {
		cs = append(cs, c15TabCase{op: "ind", a: w})
	}
	// negative widths for alignmentToWidths (never produced by the callers; both must agree anyway)
	for a := -20; a < 0; a++ {
		for o := -20; o <= 20; o++ {
			cs = append(cs, c15TabCase{op: "atw", a: a, b: o})
		}
	}
	prefixes := []string{"", "A", "ABCDEFG", "ABCDEFGH", "ABCDEFGHI", "#ABCDEFGHIJKLMNO="}
	for _, p := range prefixes {
		for _, b := range blankStrings(3) {
			for w := 0; w <= 80; w++ {
				cs = append(cs, c15TabCase{op: "aa", a: w, s: p + b})
			}
			for _, p2 := range []string{"A=", "ABCDEF=", "ABCDEFG=", "ABCDEFGHIJKLMNOPQRST+="} {
				cs = append(cs, c15TabCase{op: "aw", s: p2, t: p + b})
				cs = append(cs, c15TabCase{op: "aw", s: p2, t: p2 + b + p})
			}
		}
	}
	// non-ASCII, invalid UTF-8 and newline bytes
	alpha := []string{"A", "\t", " ", "\xc3", "\xa9", "\xe2", "\x82", "\xac", "\xf0", "\x9f", "\x98", "\x80", "\xff", "\xed", "\xa0", "\xc0", "\xf4", "\x90",
		"\f", "\v", "\r", "\x85", "\xc2", "\xa8", "\n"} // incl. the bytes of U+00A0, U+0085, U+2028; "\n" stays last
	var strs []string
	strs = append(strs, "")
	for _, a := range alpha {
		strs = append(strs, a)
		for _, b := range alpha {
			strs = append(strs, a+b)
			for _, c := range alpha {
				strs = append(strs, a+b+c)
			}
		}
	}
	for _, s := range strs {
		cs = append(cs, c15TabCase{op: "twa", a: r.Intn(20), s: s})
	}
	n4 := 4000
	if thorough {
		n4 = 100000
	}
	for i := 0; i < n4; i++ {
		var sb strings.Builder
		for k := 0; k < 4+r.Intn(5); k++ {
			sb.WriteString(Pick(r, alpha[:len(alpha)-1]))
		}
		cs = append(cs, c15TabCase{op: "twa", a: r.Intn(100), s: sb.String()})
		if i%10 == 0 {
			cs = append(cs, c15TabCase{op: "aa", a: r.Intn(40), s: sb.String()}, c15TabCase{op: "aw", s: sb.String(), t: "ABC\t" + sb.String()})
		}
	}
	return cs
}

// ---------- the compact fixers ----------

// model requests for the compact fixers are queued and answered in one oracle batch
type c15Deferred struct {
	reqs []string
	then func(answers []string)
}

func (c *c15Checker) later(reqs []string, then func(answers []string)) {
	c.deferred = append(c.deferred, c15Deferred{reqs, then})
}

func (c *c15Checker) flushDeferred() {
	var all []string
	for _, d := range c.deferred {
		all = append(all, d.reqs...)
	}
	if len(all) == 0 {
		return
	}
	ans, err := runOracle(c.ctx, "c15", all)
	if err != nil {
		c.res.Broken = err.Error()
		return
	}
	byKind := map[string][2][]string{}
	for k, r := range all {
		kind := strings.Fields(r)[0]
		e := byKind[kind]
		e[0], e[1] = append(e[0], r), append(e[1], ans[k])
		byKind[kind] = e
	}
	for _, kind := range []string{"trim", "dir", "shell", "sav"} {
		c.crossSample(kind, byKind[kind][0], byKind[kind][1], 17)
	}
	i := 0
	for _, d := range c.deferred {
		for _, a := range ans[i : i+len(d.reqs)] {
			if strings.HasPrefix(a, "ERR") || strings.HasPrefix(a, "EXC") {
				c.res.Broken = "oracle: " + a
				return
			}
		}
		d.then(ans[i : i+len(d.reqs)])
		i += len(d.reqs)
	}
	c.deferred = nil
}

func okLines(ans string) ([]string, bool) {
	f := strings.Fields(ans)
	if len(f) < 1 || f[0] != "ok" {
		return []string{"<model panic>"}, false
	}
	var out []string
	for _, h := range f[1:] {
		out = append(out, unhx(h))
	}
	return out, true
}

// simpleFix runs one compact fixer on the real code and evaluates the property on its output.
func (c *c15Checker) simpleFix(kind string, lines []string, replay map[string]any, run func(ls []string) pkglint.VerifLayoutResult, settle bool) (out pkglint.VerifLayoutResult, good bool) {
	c.res.Evaluations++
	r1 := run(lines)
	if r1.Panicked != "" {
		c.viol("C15/panic/"+kind, fmt.Sprintf("%s over %q: %s", kind, lines, r1.Panicked), true, c15Size(lines), replay)
		return r1, false
	}
	pb := pkglint.VerifVaralign(lines, "describe"+c.sfx)
	pa := pkglint.VerifVaralign(r1.Lines, "describe"+c.sfx)
	good = c.property(c15Opts{what: kind}, lines, r1.Lines, pb.Before, pa.Before, replay)
	if len(r1.Actions) > 0 {
		c.res.Count(kind+"_fixed", 1)
		c.distinct[kind+"\n"+strings.Join(lines, "\n")] = true
	}
	c.res.Count(kind+"_cases", 1)
	if settle && good { // these fixers settle in one pass
		rr := run(r1.Lines)
		if len(rr.Actions) > 0 || strings.Join(rr.Lines, "\n") != strings.Join(r1.Lines, "\n") {
			c.viol("C15/second-pass/"+kind, fmt.Sprintf("%s: a second pass over %q still changes something: %q", kind, r1.Lines, rr.Actions), true, c15Size(lines), replay)
		}
	}
	return r1, good
}

func (c *c15Checker) compare(kind string, lines []string, replay map[string]any, real []string, want []string, broken string) {
	c.res.TracesValidated++
	if strings.Join(want, "\n") != strings.Join(real, "\n") {
		rep := map[string]any{"broken": broken}
		for k, v := range replay {
			rep[k] = v
		}
		c.viol("C15/correspondence/"+kind, fmt.Sprintf("model and %s disagree on %q: real %q, model %q", kind, lines, real, want), false, c15Size(lines), rep)
	}
}

func (c *c15Checker) trimCase(lines []string) {
	sfx := c.sfx
	replay := map[string]any{"kind": "trim", "lines": c15hxs(lines), "nonl": sfx != ""}
	r1, good := c.simpleFix("trim", lines, replay, func(ls []string) pkglint.VerifLayoutResult { return pkglint.VerifVaralign(ls, "trim"+sfx) }, true)
	if !good {
		return
	}
	// trailing blanks are gone from the last raw line of every logical line
	if d := pkglint.VerifVaralign(r1.Lines, "describe"+sfx); d.Panicked == "" {
		for _, l := range d.Before {
			last := l.Raw[len(l.Raw)-1]
			// (a line whose text without the blanks would end in a backslash keeps them: /repo a0c5e27)
			if t := strings.TrimRight(last, " \t"); t != last && !strings.HasSuffix(t, "\\") {
				c.viol("C15/trim/left-over", fmt.Sprintf("CheckTrailingWhitespace left %q", last), true, c15Size(lines), replay)
			}
		}
	}
	// ... and nothing but a suffix of spaces and tabs was removed from any raw line
	// (compared with the lines as parsed: fixSpaceAfterVarname runs inside the parser)
	var parsed []string
	for _, l := range r1.Before {
		parsed = append(parsed, l.Raw...)
	}
	if len(r1.Lines) == len(parsed) {
		for i := range parsed {
			if !strings.HasPrefix(parsed[i], r1.Lines[i]) || !c15IsBlank(parsed[i][len(r1.Lines[i]):]) {
				c.viol("C15/trim/not-a-blank-suffix", fmt.Sprintf("CheckTrailingWhitespace turned %q into %q", parsed[i], r1.Lines[i]), true, c15Size(lines), replay)
			}
		}
	}
	var reqs []string
	for _, l := range r1.Before { // the model works per logical line
		reqs = append(reqs, "trim "+strconv.Itoa(len(l.Raw))+" "+strings.Join(c15hxs(l.Raw), " "))
	}
	c.later(reqs, func(ans []string) {
		var want []string
		for _, a := range ans {
			ls, _ := okLines(a)
			want = append(want, ls...)
		}
		c.compare("trim", lines, replay, r1.Lines, want, "correspondence CheckTrailingWhitespace = Model.LayoutFix.checkTrailingWhitespace")
	})
}

func (c *c15Checker) shellCase(lines []string) {
	replay := map[string]any{"kind": "shell", "lines": c15hxs(lines)}
	r1, good := c.simpleFix("shell", lines, replay, func(ls []string) pkglint.VerifLayoutResult { return pkglint.VerifVaralign(ls, "shell") }, true)
	if !good {
		return
	}
	var reqs []string
	for _, l := range r1.Before {
		if l.Kind == "shell" {
			flag := "0"
			if strings.HasPrefix(l.Raw[0], "\t\t") {
				flag = "1"
			}
			reqs = append(reqs, "shell "+flag+" "+strconv.Itoa(len(l.Raw))+" "+strings.Join(c15hxs(l.Raw), " "))
		}
	}
	c.later(reqs, func(ans []string) {
		var want []string
		k := 0
		for _, l := range r1.Before {
			if l.Kind != "shell" {
				want = append(want, l.Raw...)
				continue
			}
			ls, _ := okLines(ans[k])
			k++
			want = append(want, ls...)
		}
		c.compare("shell", lines, replay, r1.Lines, want, "correspondence checkShellCommand (tabs) = Model.LayoutFix.shellTabs")
	})
}

func (c *c15Checker) dirCase(lines []string, depths []int) {
	replay := map[string]any{"kind": "dir", "lines": c15hxs(lines), "depths": depths}
	r1, good := c.simpleFix("dir", lines, replay, func(ls []string) pkglint.VerifLayoutResult { return pkglint.VerifDirectiveIndent(ls, depths) }, true)
	if !good {
		return
	}
	isDir := func(i int, l pkglint.VerifLayoutLine) bool {
		return (l.Kind == "directive" || l.Kind == "include") && i < len(depths) && depths[i] >= 0
	}
	// the fixed directive is indented as demanded
	for i, l := range pkglint.VerifVaralign(r1.Lines, "describe").Before {
		if isDir(i, l) && !r1.StmtsNil && i < len(r1.Before) && strings.HasPrefix(r1.Before[i].Raw[0], "."+r1.Before[i].Indent) && l.Indent != strings.Repeat(" ", depths[i]) {
			c.viol("C15/dir/not-indented", fmt.Sprintf("checkDirectiveIndentation(%d) left %q", depths[i], l.Raw[0]), true, c15Size(lines), replay)
		}
	}
	var reqs []string
	nilFlag := "0"
	if r1.StmtsNil {
		nilFlag = "1"
	}
	for i, l := range r1.Before {
		if isDir(i, l) {
			reqs = append(reqs, fmt.Sprintf("dir %s %s %s %d", nilFlag, hx(l.Raw[0]), hx(l.Indent), depths[i]))
		}
	}
	c.later(reqs, func(ans []string) {
		var want []string
		k := 0
		for i, l := range r1.Before {
			if !isDir(i, l) {
				want = append(want, l.Raw...)
				continue
			}
			if ans[k] == "P" {
				want = append(want, "<model panic>")
			} else {
				want = append(want, unhx(ans[k]))
			}
			k++
			want = append(want, l.Raw[1:]...)
		}
		c.compare("dir", lines, replay, r1.Lines, want, "correspondence checkDirectiveIndentation = Model.LayoutFix")
	})
}

// fixSpaceAfterVarname runs inside the parser: mode "parse"
func (c *c15Checker) savCase(lines []string, varname, space, op string) {
	replay := map[string]any{"kind": "sav", "lines": c15hxs(lines), "varname": hx(varname), "space": hx(space), "op": hx(op)}
	r1, _ := c.simpleFix("sav", lines, replay, func(ls []string) pkglint.VerifLayoutResult { return pkglint.VerifVaralign(ls, "parse") }, false)
	if r1.Panicked != "" {
		return
	}
	pb := pkglint.VerifVaralign(lines, "describe") // the parts of the first raw line before the fix
	if len(pb.Before) != 1 || pb.Before[0].Kind != "assign" {
		c.res.Count("sav_not_an_assignment", 1)
		return
	}
	p := pb.Before[0].Parts[0]
	req := "sav " + strconv.Itoa(len(lines)) + " " + strings.Join(c15hxs(lines), " ") + " " + hx(varname) + " " + hx(space) + " " + hx(op) + " " + strings.Join(c15hxs(p[:]), " ")
	c.later([]string{req}, func(ans []string) {
		want, _ := okLines(ans[0])
		// the model is faithful to the code, including the known defect
		c.compare("sav", lines, replay, r1.Lines, want, "correspondence fixSpaceAfterVarname = Model.LayoutFix")
	})
}

// ---------- run ----------

// inputs that once showed a defect or a disagreement; always run first
var c15Corpus = [][]string{
	{"LONG_VARNAME_1=\tx", "A=\t" + "123456789012345678901234567890123456789012345678901234567890"}, // DESIGN 8-8
	{"X=\tv \\", "        a\\\\\\", "\tw"},                                                          // backslash run before the continuation
	{"V != "},
	{"LONG_VARNAME_1=\tx", "E=" + "1234567890123456789012345678901234567890123456789012345678901234567890"}, // attached value, 72 columns
	{"#VAR =\tvalue", "OTHER=\tx"},
}

func (c *c15Checker) unitVaralign(rng *Rng, thorough bool) {
	for _, ls := range c15Corpus {
		c.alignFragment(ls, "corpus")
	}
	// 1. all 1-line paragraphs
	for _, nw := range c15NameWidths {
		for _, op := range c15Ops {
			for _, b := range c15Blanks {
				for _, vw := range c15ValueWidths {
					for _, com := range []bool{false, true} {
						c.alignFragment([]string{c15Line(nw, op, b, vw, com, 0)}, "exh1")
					}
				}
			}
		}
	}
	c.res.Count("paragraphs_1line_exhaustive", c.res.Evaluations)
	// 1a. the same 1-line paragraphs as a file without final newline
	c.withNoFinalNewline(true, func() {
		for _, nw := range c15NameWidths {
			for _, op := range c15Ops {
				for _, b := range c15Blanks {
					for _, com := range []bool{false, true} {
						c.alignFragment([]string{c15Line(nw, op, b, 30, com, 0)}, "exh1-nonl")
						c.alignFragment([]string{c15Line(8, "=", "\t", 1, false, 1), c15Line(nw, op, b, 30, com, 0)}, "exh1-nonl")
					}
				}
			}
		}
	})
	// 1b. the right margin: lines of exactly 70..74 columns before the alignment, and lines that are
	// exactly 70..74 columns wide after it, next to a line that dictates the common column; every
	// separator, also tabs that end exactly at column 72
	nb := 0
	for _, other := range []int{6, 14, 22, 30} { // common column 8, 16, 24, 32
		for _, nw := range []int{1, 3, 7, 8, 15, 16} {
			for _, b := range c15MoreBlanks {
				for _, com := range []bool{false, true} {
					head := c15Line(nw, "=", b, 0, com, 3)
					hw := c15Width(head)
					aligned := (other + 1 + 8) / 8 * 8
					if com {
						aligned = (other + 2 + 8) / 8 * 8
					}
					for target := 70; target <= 74; target++ {
						for _, vw := range []int{target - hw, target - aligned} {
							if vw < 1 {
								continue
							}
							o := c15Line(other, "=", "\t", 5, com, 4)
							c.alignFragment([]string{o, head + c15Value(vw)}, "margin")
							nb++
							if target == 72 {
								c.alignFragment([]string{head + c15Value(vw), o, c15Line(2, "+=", " ", 3, false, 5)}, "margin")
								nb++
							}
						}
					}
				}
			}
		}
		// tabs from the operator to column 64 / 72, a value that ends at or next to column 72
		for _, stop := range []int{64, 72} {
			for d := -1; d <= 1; d++ {
				head := "V="
				for c15Width(head) < stop {
					head += "\t"
				}
				vw := 72 + d - stop
				if stop == 72 {
					vw = 1 + (d + 1)
				}
				c.alignFragment([]string{c15Line(other, "=", " ", 5, false, 4), head + c15Value(vw)}, "margin")
				nb++
			}
		}
	}
	c.res.Count("paragraphs_right_margin", nb)
	// 1c. exotic white space where the blanks are: it belongs to the value (or to the name), never to the separator
	nx := 0
	for _, xs := range c15Exotic {
		for _, sep := range []string{xs, " " + xs, xs + " ", "\t" + xs, xs + "\t", "\t" + xs + "\t", "  " + xs + "  "} {
			for _, nw := range []int{1, 7, 8, 15} {
				for _, op := range []string{"=", "+="} {
					for _, vw := range []int{1, 60} {
						l := c15Line(nw, op, sep, vw, nw == 7, 6)
						c.alignFragment([]string{c15Line(14, "=", "\t", 5, false, 7), l}, "exotic")
						c.alignFragment([]string{l + " " + xs, c15Line(3, "=", "  ", 5, false, 7) + xs + " # c" + xs}, "exotic")
						c.alignFragment([]string{c15Line(nw, op, " ", 3, false, 6) + xs + " \\", sep + "cont" + xs + "\t\\", xs + "\tlast" + xs}, "exotic")
						nx += 3
					}
				}
			}
		}
	}
	c.res.Count("paragraphs_exotic_whitespace", nx)
	// 1d. the history of the one VaralignBlock that serves a whole file: what the paragraph before a
	// paragraph of assignments leaves behind (skip flag, collected lines) must not reach the next one
	nh := 0
	for _, pre := range [][]string{{"target: source"}, {".include \"other.mk\""}, {"pre-configure:", "\t${ECHO} hello"},
		{"# only a comment"}, {".if 1", ".endif"}, {"A=\tb"}, {"target: source", "B=  c"}, {"#COMMENTED=  x"},
		{"\t${ECHO} shell line without target"}, {"target: source", "", "# comment"}} {
		for _, nw := range []int{1, 8, 15} {
			for _, b := range c15MoreBlanks {
				c.alignFragment(append(append([]string{}, pre...), "", c15Line(nw, "=", b, 5, false, 8), c15Line(12, "+=", "  ", 5, nw == 8, 9)), "history")
				c.alignFragment(append(append([]string{}, pre...), "", "", c15Line(nw, "=", b, 5, false, 8)), "history")
				nh += 2
			}
		}
	}
	c.res.Count("paragraphs_after_history", nh)
	// 2. all 2-line paragraphs over name widths x blanks x value widths x {=, +=}
	type lk struct {
		nw, vw int
		op, b  string
	}
	var keys []lk
	for _, nw := range c15NameWidths {
		for _, op := range []string{"=", "+="} {
			for _, b := range c15Blanks {
				for _, vw := range c15ValueWidths {
					keys = append(keys, lk{nw, vw, op, b})
				}
			}
		}
	}
	n2 := 0
	for i, k1 := range keys {
		for j, k2 := range keys {
			com1 := (i*31+j*17)%7 == 0
			com2 := (i*13+j*29)%7 == 1
			c.alignFragment([]string{c15Line(k1.nw, k1.op, k1.b, k1.vw, com1, 1), c15Line(k2.nw, k2.op, k2.b, k2.vw, com2, 2)}, "exh2")
			n2++
		}
	}
	c.res.Count("paragraphs_2line_exhaustive", n2)
	// 3. 3-line paragraphs: all operators, commented-out lines, more blank strings
	n3 := 100000
	nr := 50000
	if thorough {
		n3, nr = 1500000, 400000
	}
	for i := 0; i < n3; i++ {
		var ls []string
		for k := 0; k < 3; k++ {
			b := Pick(rng, c15Blanks)
			if rng.Chance(20) {
				b = Pick(rng, c15MoreBlanks)
			}
			ls = append(ls, c15Line(Pick(rng, c15NameWidths), Pick(rng, c15Ops), b, Pick(rng, c15ValueWidths), rng.Chance(15), k+3))
		}
		c.withNoFinalNewline(i%8 == 5, func() { c.alignFragment(ls, "rand3") })
	}
	c.res.Count("paragraphs_3line_random", n3)
	// 4. random fragments: continuation lines, comments, directives, several paragraphs, skipped paragraphs
	for i := 0; i < nr; i++ {
		frag := c15RandomFragment(rng, i%4 != 0)
		c.withNoFinalNewline(i%8 == 6 || i%8 == 7, func() { c.alignFragment(frag, "randfrag") })
	}
	c.res.Count("fragments_random", nr)
	c.flushModel()
}

func (c *c15Checker) unitOthers(rng *Rng, thorough bool) {
	n := 1
	if thorough {
		n = 10
	}
	trails := blankStrings(3)
	for rep := 0; rep < n; rep++ {
		for _, tr := range trails {
			for _, body := range []string{"VAR=\tvalue", "# comment", "", "VAR=", "\techo hello", ".if 1", "VAR= a \\", "VAR=\tvalue # comment", "\xc3\xa9"} {
				c.trimCase([]string{body + tr})
				c.trimCase([]string{"CONT=\ta \\", "\tb" + tr + " \\", "\t" + body + tr})
			}
		}
		for i := 0; i < 300; i++ {
			ls := append(c15RandomAssign(rng, true), Pick(rng, []string{"", " ", "\t", "# x \t"}))
			c.withNoFinalNewline(i%3 == 0, func() { c.trimCase(ls) })
		}
		// trailing white space that is not blank: \f \v \r (CRLF line ends), U+00A0, U+0085, U+2028, lone
		// 0x85 / 0xA0, alone and mixed with blanks (all runs of <= 2 tokens, random longer ones); only the
		// spaces and tabs after the last other byte may go
		runs := c15ExoticRuns(2)
		for i := 0; i < 200; i++ {
			var sb strings.Builder
			for k := 0; k < 3+rng.Intn(3); k++ {
				sb.WriteString(Pick(rng, append([]string{" ", "\t"}, c15Exotic...)))
			}
			if !c15IsBlank(sb.String()) {
				runs = append(runs, sb.String())
			}
		}
		for i, tr := range runs {
			for j, body := range []string{"VAR=\tvalue", "# comment", "", "VAR=", "\techo hello", ".if 1", "VAR= a \\", "VAR=\tvalue # comment", "\xc3\xa9"} {
				c.withNoFinalNewline((i+j)%5 == 0, func() {
					c.trimCase([]string{body + tr})
					c.trimCase([]string{"CONT=\ta \\", "\tb" + tr + " \\", "\t" + body + tr})
				})
				c.res.Count("trim_exotic_cases", 2)
			}
		}
		// directives (inside a balanced file: without statements checkDirectiveIndentation does nothing)
		dirInds := []string{"", " ", "  ", "\t", "   ", " \t", "      "}
		for _, xs := range c15Exotic { // whether these are directives at all is the parser's decision
			dirInds = append(dirInds, xs, " "+xs, xs+" ", " "+xs+"\t")
		}
		for _, ind := range dirInds {
			for depth := 0; depth <= 6; depth++ {
				if !c15IsBlank(ind) {
					c.dirCase([]string{"." + ind + "if 1" + ind, "." + ind + "endif" + ind}, []int{depth, depth})
					c.res.Count("dir_exotic_cases", 1)
				}
				c.dirCase([]string{"." + ind + "if ${A}", ".endif"}, []int{depth, -1})
				c.dirCase([]string{".if 1", "." + ind + "endif"}, []int{-1, depth})
				c.dirCase([]string{".if 1", "." + ind + "else", ".endif"}, []int{-1, depth, -1})
				c.dirCase([]string{".if 1", "." + ind + "elif 1 # c", ".endif"}, []int{-1, depth, -1})
				c.dirCase([]string{"." + ind + "for i in 1 2", ".endfor"}, []int{depth, -1})
				c.dirCase([]string{"." + ind + "include \"x.mk\""}, []int{depth})
				c.dirCase([]string{"." + ind + "undef X"}, []int{depth})
				c.dirCase([]string{"." + ind + "else"}, []int{depth}) // unbalanced: no statements, no fix
			}
		}
		c.dirCase([]string{".  if 1 \\", "  && 2", ". endif"}, []int{0, 2})
		// shell lines
		shellTabs := []string{"\t", "\t\t", "\t\t\t", "\t \t", "\t\t ", "\t\t\t\t\t"}
		for _, xs := range c15Exotic {
			shellTabs = append(shellTabs, "\t"+xs, "\t\t"+xs, "\t"+xs+"\t", "\t\t"+xs+"\t", "\t\t\t"+xs+" ")
		}
		for _, tabs := range shellTabs {
			for _, cmd := range []string{"echo hello", "cd dir && make", "@true", "-false"} {
				c.shellCase([]string{"target:", tabs + cmd})
				c.shellCase([]string{"target:", tabs + cmd + " \\", tabs + "\tmore \\", "\tlast"})
				c.shellCase([]string{"target:", tabs + cmd + " \\", tabs + "more"})
			}
		}
		// fixSpaceAfterVarname
		for _, lead := range []string{"", "#", " ", "  "} {
			for _, name := range []string{"V", "VARNAME", "VAR.param", "VARNAME+", "lower", "ABCDEFGHIJKLMNOP", "ABCDEF.${P}"} {
				for _, sp := range []string{"", " ", "  ", "\t", " \t", "\f", " \u00a0", "\r ", " \v ", "\u0085", " \u2028", "\xa0 ", " \x85"} {
					for _, op := range c15Ops {
						for _, b := range []string{"", " ", "\t", "  \t", "\t\t", " \f", "\u00a0\t", "\t\r"} {
							if name == "VARNAME+" && op != "=" && op != "+=" {
								continue
							}
							c.savCase([]string{lead + name + sp + op + b + "value"}, name, sp, op)
						}
					}
				}
			}
		}
		// variable names with blanks of their own inside ${...}: only the blanks in front of the operator may go,
		// the name as re-parsed must be the same (several blank strings, also the one that occurs inside the name)
		for _, name := range []string{"CONFIGURE_ARGS.${OPSYS:S, ,_,g}", "V.${X:M* *}", "A.${B:C/ /_/g}", "N.${P:S,\t,_,}", "W.${Q:S,  ,_,g}", "ESC\\#.${R:S, ,,}", "X.${Y:S, ,_,:S,  ,-,}"} {
			for _, sp := range []string{" ", "  ", "\t", " \t", "\t "} {
				for _, op := range []string{"=", "+=", "?="} {
					for _, b := range []string{"", "\t", " ", "\t\t"} {
						c.savCase([]string{name + sp + op + b + "--enable-x"}, name, sp, op)
						c.savCase([]string{"#" + name + sp + op + b + "--enable-x", "OTHER=\tv"}, name, sp, op)
						c.res.Count("sav_name_with_blanks", 2)
					}
				}
			}
		}
		c.savCase([]string{"VAR =\tvalue \\", "\tVAR =\tmore"}, "VAR", " ", "=")
		c.savCase([]string{" A = A = x"}, "A", " ", "=")
	}
	c.flushDeferred()
}

// unitBackslashBlank: lines that end in a backslash followed by blanks.  Such a line is NOT continued
// (the loader looks at the very end of the line); a fixer that removes or moves those blanks changes the
// line structure.  Every fixer gets them: as a line followed by another assignment, by a comment, as the
// last line (with and without final newline), inside a continuation line, with one, two and three backslashes.
func (c *c15Checker) unitBackslashBlank(rng *Rng, thorough bool) {
	ends := []string{"\\ ", "\\\t", "\\  ", "\\ \t", "\\\\ ", "\\\\\\ ", "\\\\\t "}
	bodies := []string{"VAR=\tvalue ", "VAR=\tvalue", "VAR=", "VAR=\t", "# comment ", "#", "\techo hello ", ".if 1 ", "VAR =\tvalue ", "LONGER_NAME=   value\t", "V+=a "}
	follow := [][]string{{"OTHER=\tx"}, {"# comment"}, {""}, {"OTHER=\tx \\", "\ty"}, {"\techo next"}, nil}
	for _, end := range ends {
		for _, body := range bodies {
			l := body + end
			c.res.Count("backslash_blank_cases", 1)
			for _, fo := range follow {
				ls := append([]string{l}, fo...)
				c.trimCase(ls)
				c.alignFragment(append([]string{"A=\t1"}, ls...), "backslash-blank")
				c.alignFragment(ls, "backslash-blank")
				if fo == nil {
					c.withNoFinalNewline(true, func() { c.trimCase(ls); c.alignFragment(ls, "backslash-blank") })
				}
			}
			// inside a continuation line: as a middle line it ends the logical line early, as the last line it is the end
			c.trimCase([]string{"CONT=\ta \\", "\tb " + end, "OTHER=\tx"})
			c.trimCase([]string{"CONT=\ta \\", "\tb \\", "\t" + l, "# comment"})
			c.alignFragment([]string{"CONT=\ta \\", "\tb " + end, "OTHER=\tx"}, "backslash-blank")
			c.alignFragment([]string{"CONT=\ta \\", "\tb \\", "\tc " + end, "OTHER=\tx"}, "backslash-blank")
			c.alignFragment([]string{"SHORT=\tv", "CONT=\ta \\", "    b " + end, "LONGER_NAME=\tx"}, "backslash-blank")
		}
		// the other compact fixers on such lines
		for depth := 0; depth <= 2; depth++ {
			c.dirCase([]string{".  if 1 " + end, ". endif"}, []int{depth, depth})
			c.dirCase([]string{".if 1", ".   else " + end, ".endif " + end}, []int{-1, depth, depth})
			c.dirCase([]string{".if 1", ".\tinclude \"x.mk\" " + end, ".endif"}, []int{-1, depth, -1})
		}
		for _, tabs := range []string{"\t", "\t\t", "\t\t\t"} {
			c.shellCase([]string{"target:", tabs + "echo hello " + end, tabs + "echo next"})
			c.shellCase([]string{"target:", tabs + "echo hello \\", tabs + "\tmore " + end, "\tlast"})
			c.shellCase([]string{"target:", tabs + end, "OTHER=\tx"})
		}
		for _, sp := range []string{" ", "\t", "  "} {
			c.savCase([]string{"VAR" + sp + "=\tvalue " + end, "OTHER=\tx"}, "VAR", sp, "=")
			c.savCase([]string{"VAR" + sp + "=" + end, "OTHER=\tx"}, "VAR", sp, "=")
			c.savCase([]string{"#VAR" + sp + "+=\tvalue " + end}, "VAR", sp, "+=")
		}
	}
	n := 300
	if thorough {
		n = 6000
	}
	for i := 0; i < n; i++ {
		var ls []string
		for k := 0; k < 1+rng.Intn(3); k++ {
			as := c15RandomAssign(rng, true)
			j := rng.Intn(len(as))
			as[j] = strings.TrimRight(as[j], "\\ \t") + Pick(rng, []string{" ", "", "\t"}) + Pick(rng, ends)
			ls = append(ls, as...)
		}
		c.withNoFinalNewline(i%7 == 0, func() {
			c.trimCase(ls)
			c.alignFragment(ls, "backslash-blank-random")
		})
		c.res.Count("backslash_blank_cases", 1)
	}
	c.flushModel()
	c.flushDeferred()
}

// alignAfterValueFix: another fix changes the VALUE of a line after VaralignBlock.Process has split
// it (in pkglint: SubstContext turns SUBST_STAGE.x= post-patch into pre-configure, 3 bytes longer).
// Finish then works on parts that are out of date.  The property is judged on the final lines of
// the pass against the lines with only the value fix applied (what the file would be without
// VaralignBlock); the model gets the changed texts with the parts of the split.
func (c *c15Checker) alignAfterValueFix(lines []string) {
	replay := map[string]any{"kind": "align+valuefix", "lines": c15hxs(lines)}
	c.res.Evaluations++
	c.res.Count("align_after_value_fix", 1)
	r1 := pkglint.VerifVaralign(lines, "align+valuefix")
	if r1.Panicked != "" {
		c.viol("C15/panic/align", fmt.Sprintf("VaralignBlock after a value fix over %q: %s", lines, r1.Panicked), true, c15Size(lines), replay)
		return
	}
	fixed := make([]string, len(lines))
	for i, l := range lines {
		fixed[i] = l
		if strings.Count(l, "post-patch") == 1 {
			fixed[i] = strings.Replace(l, "post-patch", "pre-configure", 1)
		}
	}
	pb := pkglint.VerifVaralign(fixed, "describe")
	pa := pkglint.VerifVaralign(r1.Lines, "describe")
	if pb.Panicked != "" || pa.Panicked != "" {
		return
	}
	c.property(c15Opts{what: "align", settle: true, marginOnly: true}, fixed, r1.Lines, pb.Before, pa.Before, replay)
	bad := false
	for _, k := range c.lastFailKeys {
		if !strings.HasPrefix(k, "C15/widen72/") {
			bad = true
		}
	}
	// the model: the parts as split from the original lines, the texts as the value fix left them
	view := make([]pkglint.VerifLayoutLine, len(r1.Before))
	at := 0
	for i, l := range r1.Before {
		v := l
		v.Raw = append([]string{}, l.Raw...)
		for k := range v.Raw {
			if at < len(fixed) {
				v.Raw[k] = fixed[at]
			}
			at++
		}
		view[i] = v
	}
	if at != len(fixed) {
		return
	}
	if len(r1.Actions) > 0 {
		c.distinct["valuefix\n"+strings.Join(lines, "\n")] = true
	}
	c.reqs = append(c.reqs, c15FileRequest(view))
	c.reqImpl = append(c.reqImpl, r1.Lines)
	c.reqIn = append(c.reqIn, lines)
	c.reqNonl = append(c.reqNonl, false)
	nact := 0
	for _, a := range r1.Actions {
		if !strings.Contains(a, "post-patch") { // the value fix itself is not VaralignBlock's action
			nact++
		}
	}
	c.reqActs = append(c.reqActs, nact)
	c.reqBad = append(c.reqBad, bad)
}

// unitValueFix: paragraphs in which a value grows by 3 bytes between Process and Finish, around the
// right margin: the line with the old value would end at column 66..76 after the alignment
func (c *c15Checker) unitValueFix(rng *Rng, thorough bool) {
	for _, stage := range []string{"SUBST_STAGE.x", "SUBST_STAGE.abc", "ST.x"} {
		for _, other := range []string{"SUBST_MESSAGE.x", "SUBST_MESSAGE.abc", "SUBST_FILES.x", "A_VERY_LONG_VARIABLE_NAME.x", "B"} {
			for n := 10; n <= 48; n++ {
				for _, sep := range []string{"\t", " ", "\t\t"} {
					first := stage + "=" + sep + "post-patch # " + strings.Repeat("c", n)
					c.alignAfterValueFix([]string{"SUBST_CLASSES+=\tx", first, other + "=\tFixing the paths.", "SUBST_SED.x=\t-e s,from,to,"})
					c.alignAfterValueFix([]string{first, other + "=\tv"})
					c.alignAfterValueFix([]string{other + "=\tv", stage + "=" + sep + "post-patch " + strings.Repeat("w", n)})
				}
			}
		}
	}
	// the value fix on a continuation line, on a commented-out line, twice in a paragraph
	c.alignAfterValueFix([]string{"SUBST_STAGE.x=\tpost-patch \\", "\tmore", "SUBST_MESSAGE.x=\tv"})
	c.alignAfterValueFix([]string{"#SUBST_STAGE.x=\tpost-patch", "SUBST_MESSAGE.x=\tv"})
	c.alignAfterValueFix([]string{"SUBST_STAGE.x=\tpost-patch", "SUBST_STAGE.y=\tpost-patch", "SUBST_MESSAGE.x=\tv"})
	c.flushModel()
}

func runC15(ctx *Ctx) *Result {
	res := &Result{Rule: "unit: width helpers on widths 0..200 x all blank strings <=6 (exhaustive) + non-ASCII/invalid byte strings; VaralignBlock on all 1-line paragraphs (12 name widths x 5 ops x 5 blanks x 3 value widths x commented), all 2-line paragraphs over (12 x {=,+=} x 5 x 3)^2, seeded random 3-line paragraphs and random fragments with continuation lines; the other fixers on their own grids; whole-run: pkglint -F on generated package Makefiles. non-trivial = a distinct input on which at least one AUTOFIX action was logged"}
	c := &c15Checker{ctx: ctx, res: res, distinct: map[string]bool{}, nsamples: map[string]int{}}
	rng := NewRng(ctx.Seed)
	thorough := ctx.Tier == "thorough"
	c.tabCases(c15TabGrid(rng.Fork(), thorough))
	if res.Broken != "" {
		return res
	}
	c.unitVaralign(rng.Fork(), thorough)
	if res.Broken != "" {
		return res
	}
	c.unitOthers(rng.Fork(), thorough)
	if res.Broken != "" {
		return res
	}
	c.unitBackslashBlank(rng.Fork(), thorough)
	if res.Broken != "" {
		return res
	}
	c.unitValueFix(rng.Fork(), thorough)
	if res.Broken != "" {
		return res
	}
	c15CrossCheckExtraction(c)
	if res.Broken != "" {
		return res
	}
	c15WholeRun(c, rng.Fork(), thorough)
	res.DistinctNontrivial = len(c.distinct)
	res.Exhaustive = false
	// coverage floors: the branches the property names must have been reached
	dist := func(k string) int { v, _ := res.Distribution[k].(int); return v }
	for _, f := range []struct {
		key string
		min int
	}{{"align_actions", 10000}, {"action_to_single_space", 200}, {"action_continuation_backslash", 100}, {"second_pass_checked", 50000},
		{"trim_fixed", 50}, {"dir_fixed", 100}, {"shell_fixed", 20}, {"sav_fixed", 200},
		{"whole_files", 50}, {"whole_autofix_lines", 300}, {"whole_second_pass_checked", 20},
		// round 4: the byte-exact blank class, the right margin, files without final newline
		{"trim_exotic_cases", 1500}, {"align_no_final_newline", 5000}, {"paragraphs_right_margin", 2000}, {"paragraphs_exotic_whitespace", 2000}, {"paragraphs_after_history", 600},
		{"dir_exotic_cases", 100}, {"vm_compute_cross_checked", 150}, {"whole_extra_files", 50}, {"whole_extra_no_final_newline", 15}, {"whole_extra_crlf", 15},
		// round 5: lines ending in backslash + blanks (not continued), in every fixer and in the whole run
		{"backslash_blank_cases", 300}, {"whole_feat:backslash-blank", 20}, {"sav_name_with_blanks", 500}, {"align_after_value_fix", 1000}} {
		if dist(f.key) < f.min && res.Broken == "" && len(res.Violations) == 0 {
			res.Broken = fmt.Sprintf("coverage floor missed: %s = %d < %d", f.key, dist(f.key), f.min)
		}
	}
	res.Assumptions = []string{
		"VaralignSplitter.split is taken as given (its six parts are the model's input; spaceBeforeValue/spaceAfterValue blank is asserted on every case)",
		"no --only option (Autofix.skip() false); --autofix semantics",
		"canonical separation / <=72 / silent second pass are demanded for paragraphs made only of single-line assignments that take part in the alignment (processVarassign skips `name:=` with a lower-case name and empty values without comment)",
	}
	return res
}

func replayC15(ctx *Ctx, rep map[string]any) *Result {
	res := &Result{Rule: "replay"}
	c := &c15Checker{ctx: ctx, res: res, distinct: map[string]bool{}, nsamples: map[string]int{}}
	lines := unhxs(rep["lines"])
	kind, _ := rep["kind"].(string)
	if nonl, _ := rep["nonl"].(bool); nonl {
		c.sfx = "/nonl"
	}
	switch kind {
	case "align":
		c.alignFragment(lines, "replay")
		c.flushModel()
	case "align+valuefix":
		c.alignAfterValueFix(lines)
		c.flushModel()
	case "trim":
		c.trimCase(lines)
		c.flushDeferred()
	case "shell":
		c.shellCase(lines)
		c.flushDeferred()
	case "dir":
		var depths []int
		if l, ok := rep["depths"].([]any); ok {
			for _, x := range l {
				f, _ := x.(float64)
				depths = append(depths, int(f))
			}
		}
		c.dirCase(lines, depths)
		c.flushDeferred()
	case "sav":
		vn, _ := rep["varname"].(string)
		sp, _ := rep["space"].(string)
		op, _ := rep["op"].(string)
		c.savCase(lines, unhx(vn), unhx(sp), unhx(op))
		c.flushDeferred()
	case "tab":
		op, _ := rep["op"].(string)
		a, _ := rep["a"].(float64)
		b, _ := rep["b"].(float64)
		s, _ := rep["s"].(string)
		t, _ := rep["t"].(string)
		c.tabCases([]c15TabCase{{op: op, a: int(a), b: int(b), s: unhx(s), t: unhx(t)}})
	case "whole":
		c15WholeReplay(c, rep)
	}
	return res
}

func init() { register("C15", runC15, replayC15) }
