package main

// C16 unit correspondence: two of the fixer models of coq/Model/Settle.v
// against the real binary on one-file experiments:
//   trim_file  <-> the trailing-whitespace fix on the lines of a DESCR file
//   fix_header <-> CVS id / empty line insertion at the top of a distinfo file
// The spec (one application settles) is also evaluated on the implementation:
// a second pkglint -F must leave the file alone.

import (
	"fmt"
	"os"
	"path/filepath"
	"strings"
	"time"
)

type c16Exp struct {
	kind  string // trim | header
	file  string
	lines []string
}

func c16SplitLines(content string) []string {
	ls := strings.Split(content, "\n")
	if len(ls) > 0 && ls[len(ls)-1] == "" {
		ls = ls[:len(ls)-1]
	}
	return ls
}

func c16Unit(ctx *Ctx, res *Result, rng *Rng, n int) {
	base := c04BaseTree(ctx.Work)
	var exps []c16Exp
	for i := 0; i < n; i++ {
		if i%2 == 0 {
			var ls []string
			for j := 0; j < 1+rng.Intn(6); j++ {
				var sb strings.Builder
				for k := 0; k < rng.Intn(5); k++ {
					sb.WriteString(Pick(rng, []string{"a", "b", " ", "\t", "word", "  ", " \t "}))
				}
				ls = append(ls, sb.String())
			}
			if strings.TrimSpace(strings.Join(ls, "")) == "" {
				ls = append(ls, "text")
			}
			exps = append(exps, c16Exp{"trim", "cat/pkg/DESCR", ls})
		} else {
			var ls []string
			first := Pick(rng, []string{"$" + "NetBSD$", "$" + "NetBSD: distinfo,v 1.1 2020/01/01 00:00:00 x Exp $", "", "$" + "NetBSD", "# $" + "NetBSD$", " $" + "NetBSD$", "$" + "NetBSD:$", "$" + "NetBSD: a$b $", "-"})
			if first != "-" {
				ls = append(ls, first)
			}
			switch rng.Intn(3) {
			case 0:
				ls = append(ls, "")
			case 1:
				ls = append(ls, "x")
			}
			if rng.Chance(85) || len(ls) == 0 {
				ls = append(ls, "BLAKE2s (distfile-1.0.tar.gz) = 12341234", "SHA512 (distfile-1.0.tar.gz) = 12341234", "Size (distfile-1.0.tar.gz) = 12341234 bytes")
			}
			exps = append(exps, c16Exp{"header", "cat/pkg/distinfo", ls})
		}
	}
	reqs := make([]string, len(exps))
	for i, e := range exps {
		var t []string
		if e.kind == "trim" {
			t = []string{"trim", fmt.Sprint(len(e.lines))}
		} else {
			t = []string{"header", "-", fmt.Sprint(len(e.lines))}
		}
		for _, l := range e.lines {
			t = append(t, hx(l))
		}
		reqs[i] = strings.Join(t, " ")
	}
	ans, err := runOracle(ctx, "c16", reqs)
	if err != nil {
		res.Broken = err.Error()
		return
	}
	type outc struct {
		after, again []string
		crashed      bool
	}
	outs := make([]outc, len(exps))
	parallelFor(len(exps), func(i int) {
		e := exps[i]
		dir := filepath.Join(ctx.Work, fmt.Sprintf("c16u%d", i))
		defer os.RemoveAll(dir)
		tf := base.Clone()
		tf[e.file] = strings.Join(e.lines, "\n") + "\n"
		tf.Materialize(dir)
		r := RunPkglint(ctx, dir, 20*time.Second, "-Wall", "-F", "cat/pkg")
		if c16Crashed(r) {
			outs[i].crashed = true
			return
		}
		b, _ := os.ReadFile(filepath.Join(dir, e.file))
		outs[i].after = c16SplitLines(string(b))
		r = RunPkglint(ctx, dir, 20*time.Second, "-Wall", "-F", "cat/pkg")
		b, _ = os.ReadFile(filepath.Join(dir, e.file))
		outs[i].again = c16SplitLines(string(b))
	})
	for i, e := range exps {
		if outs[i].crashed {
			res.Count("unit.crashed(skipped)", 1)
			continue
		}
		res.TracesValidated++
		res.Evaluations++
		f := strings.Fields(ans[i])
		var model []string
		for _, h := range f[1:] {
			model = append(model, unhx(h))
		}
		changed := strings.Join(outs[i].after, "\n") != strings.Join(e.lines, "\n")
		res.Count("unit."+e.kind+" experiments", 1)
		if changed {
			res.Count("unit."+e.kind+" experiments in which the fixer fired", 1)
		}
		rep := map[string]any{"kind": "unit", "fixer": e.kind, "file": e.file, "lines": hx(strings.Join(e.lines, "\n"))}
		if strings.Join(outs[i].again, "\n") != strings.Join(outs[i].after, "\n") {
			res.AddViolation(Violation{Key: "C16/unit/fixer-does-not-settle/" + e.kind, FoundInput: true, Size: len(strings.Join(e.lines, "\n")),
				What:   fmt.Sprintf("%s %q: after pkglint -F it is %q, after a second pkglint -F %q", e.file, e.lines, outs[i].after, outs[i].again),
				Replay: rep})
			continue
		}
		if strings.Join(model, "\n") != strings.Join(outs[i].after, "\n") {
			rep["broken"] = "correspondence Model/Settle.v " + map[string]string{"trim": "trim_file = CheckTrailingWhitespace on DESCR", "header": "fix_header = CheckCvsID + SkipEmptyOrNote on distinfo"}[e.kind]
			rep["real"] = hx(strings.Join(outs[i].after, "\n"))
			rep["model"] = hx(strings.Join(model, "\n"))
			res.AddViolation(Violation{Key: "C16/correspondence/" + e.kind, FoundInput: false, Size: len(strings.Join(e.lines, "\n")),
				What:   fmt.Sprintf("%s %q: pkglint -F gives %q, the model %q", e.file, e.lines, outs[i].after, model),
				Replay: rep})
		}
	}
}

func c16ReplayUnit(ctx *Ctx, res *Result, rep map[string]any) {
	// re-run the single experiment through the same code path
	kind, _ := rep["fixer"].(string)
	file, _ := rep["file"].(string)
	ls, _ := rep["lines"].(string)
	base := c04BaseTree(ctx.Work)
	dir := filepath.Join(ctx.Work, "c16ureplay")
	tf := base.Clone()
	lines := strings.Split(unhx(ls), "\n")
	tf[file] = strings.Join(lines, "\n") + "\n"
	tf.Materialize(dir)
	r := RunPkglint(ctx, dir, 20*time.Second, "-Wall", "-F", "cat/pkg")
	b1, _ := os.ReadFile(filepath.Join(dir, file))
	r2 := RunPkglint(ctx, dir, 20*time.Second, "-Wall", "-F", "cat/pkg")
	b2, _ := os.ReadFile(filepath.Join(dir, file))
	fmt.Printf("== pass 1\n%s-- %s: %q\n== pass 2\n%s-- %s: %q\n", r.Stdout, file, string(b1), r2.Stdout, file, string(b2))
	if string(b1) != string(b2) {
		res.AddViolation(Violation{Key: "C16/unit/fixer-does-not-settle/" + kind, FoundInput: true, What: fmt.Sprintf("%s: %q then %q", file, string(b1), string(b2)), Replay: rep})
	}
}
