package main

// C07, environment layer: "the result is a function of tree and arguments" -- so it must NOT be a
// function of the process environment. Every case (tree, cwd, argv) of this stage is run in a
// base environment (TZ=UTC, LANG=C, HOME, PWD = cwd, umask 022) and in a list of variants that each
// change ONE thing (time zone, locale, HOME, umask, the spelling of the cwd through a symlink,
// PWD, USER/LOGNAME, unrelated variables); stdout, stderr and exit status of the two runs of a pair
// must be byte-identical. A confirmed difference is `C07/environment/<what was varied>/<message kind>`.
//
// The trees of this stage reach the code that is gated by isLocallyModified (util.go):
// package directories that are CVS checkouts (CVS/Entries, CVS/Entries.Log) whose entries carry
// timestamps equal and unequal to the files' modification times (set explicitly with os.Chtimes),
// pkgsrc in a freeze (doc/CHANGES-*), OWNER/MAINTAINER set to somebody else, a package version newer
// than doc/CHANGES. The harness predicts from its own bookkeeping for which files the NOTE "Pkgsrc
// is frozen since" must appear and compares that with the base run (a broken prediction is a broken
// correspondence), and asserts floors: the gated diagnostics really appear for modified files AND
// are really absent for unmodified ones.

import (
	"bytes"
	"context"
	"fmt"
	"os"
	"os/exec"
	"os/user"
	"path/filepath"
	"sort"
	"strconv"
	"strings"
	"syscall"
	"time"
)

// ---------- environments ----------

type c07Env struct {
	Name    string            `json:"name"`    // what is varied, becomes part of the violation key
	Vars    map[string]string `json:"vars"`    // variables set (a value "\x00unset" removes the variable)
	Umask   int               `json:"umask"`   // -1: inherit (no sh wrapper)
	Symlink bool              `json:"symlink"` // cwd (and PWD) spelled through a symbolic link to the tree's root
	NoPwd   bool              `json:"nopwd"`   // PWD not set at all
}

const c07Unset = "\x00unset"

func c07BaseEnv() c07Env {
	return c07Env{Name: "base", Vars: map[string]string{"TZ": "UTC", "LANG": "C", "LC_ALL": "C"}, Umask: -1}
}

// c07EnvVariants: every variant differs from the base in one respect.
func c07EnvVariants(userIrrelevant bool) []c07Env {
	v := func(name string, kv ...string) c07Env {
		e := c07BaseEnv()
		e.Name = name
		for i := 0; i+1 < len(kv); i += 2 {
			e.Vars[kv[i]] = kv[i+1]
		}
		return e
	}
	vs := []c07Env{
		v("TZ", "TZ", "Europe/Berlin"),
		v("TZ", "TZ", "America/St_Johns"),
		v("TZ", "TZ", "Pacific/Kiritimati"),
		v("TZ", "TZ", "XYZ-5"),           // POSIX form, honoured by Go without zoneinfo: 5 hours east
		v("TZ", "TZ", "ABC3:30"),         // 3.5 hours west
		v("TZ", "TZ", ":Asia/Kathmandu"), // +05:45
		v("TZ", "TZ", c07Unset),          // /etc/localtime
		v("LANG", "LANG", "de_DE.UTF-8", "LC_ALL", "tr_TR.UTF-8", "LC_TIME", "ja_JP.UTF-8", "LANGUAGE", "fr"),
		v("HOME", "HOME", "/nonexistent-c07-home"),
		v("HOME", "HOME", c07Unset),
		v("unrelated-variables", "PKGSRCDIR", "/nonexistent-c07", "PKGLINT_OPTIONS", "-q", "TMPDIR", "/nonexistent-c07-tmp", "GOMAXPROCS", "1", "COLUMNS", "20", "TERM", "dumb", "NO_COLOR", "1"),
	}
	for _, um := range []int{0o077, 0o000} {
		e := c07BaseEnv()
		e.Name, e.Umask = "umask", um
		vs = append(vs, e)
	}
	sl := c07BaseEnv()
	sl.Name, sl.Symlink = "cwd-symlink", true
	np := c07BaseEnv()
	np.Name, np.NoPwd = "PWD", true
	vs = append(vs, sl, np, v("PWD", "PWD", "/nonexistent-c07-pwd"))
	if userIrrelevant {
		vs = append(vs, v("USER", "USER", "c07-somebody", "LOGNAME", "c07-somebody", "USERNAME", "c07-somebody"), v("USER", "USER", c07Unset, "LOGNAME", c07Unset))
	}
	return vs
}

// c07UserFromPasswd: does user.Current() find the uid in the user database? Then (os/user, both the
// cgo and the pure Go implementation) $USER is not consulted and may be varied.
func c07UserFromPasswd() (string, bool) {
	u, err := user.LookupId(strconv.Itoa(os.Getuid()))
	if err != nil || u.Username == "" {
		return "", false
	}
	return u.Username, true
}

type c07EnvCase struct {
	Tree int      `json:"tree"`
	Root string   `json:"root"`
	Link string   `json:"link"` // symbolic link to Root
	Cwd  string   `json:"cwd"`
	Args []string `json:"args"`
	Fix  bool     `json:"fix"` // -F: runs on a copy, resulting tree compared as well
	// DirLink: absolute path of a symbolic link to Root/Cwd; when set, the process is started there
	// (chdir through the link; PWD = the link's path, as a shell sets it after `cd link`)
	DirLink string `json:"dirlink"`
}

// c07EnvRun runs the real binary once for the case in the environment.
func c07EnvRun(ctx *Ctx, c c07EnvCase, e c07Env, run string) c07Out {
	root, link := c.Root, c.Link
	if c.Fix {
		root = c.Root + ".envcopy." + run
		os.RemoveAll(root)
		if err := c07CopyTreeTimes(c.Root, root); err != nil {
			return c07Out{Panic: "copy: " + err.Error()}
		}
		defer os.RemoveAll(root)
		link = root + ".lnk"
		os.Remove(link)
		if err := os.Symlink(root, link); err != nil {
			return c07Out{Panic: "symlink: " + err.Error()}
		}
		defer os.Remove(link)
	}
	base := root
	if e.Symlink {
		base = link
	}
	cwd := filepath.Join(base, c.Cwd)
	if c.DirLink != "" {
		cwd = c.DirLink
	}
	tctx, cancel := context.WithTimeout(context.Background(), 60*time.Second)
	defer cancel()
	var cmd *exec.Cmd
	if e.Umask >= 0 {
		cmd = exec.CommandContext(tctx, "/bin/sh", append([]string{"-c", fmt.Sprintf("umask %04o; exec \"$@\"", e.Umask), "sh", ctx.Pkglint}, c.Args...)...)
	} else {
		cmd = exec.CommandContext(tctx, ctx.Pkglint, c.Args...)
	}
	cmd.Dir = cwd
	drop := map[string]bool{"TZ": true, "LANG": true, "LANGUAGE": true, "HOME": true, "PWD": true, "OLDPWD": true, "PKGSRCDIR": true, "TMPDIR": true, "COLUMNS": true, "TERM": true, "NO_COLOR": true, "PKGLINT_OPTIONS": true}
	for k := range e.Vars {
		drop[k] = true
	}
	env := []string{}
	for _, kv := range os.Environ() {
		k, _, _ := strings.Cut(kv, "=")
		if !drop[k] && !strings.HasPrefix(k, "LC_") {
			env = append(env, kv)
		}
	}
	vars := map[string]string{"HOME": filepath.Join(root, c.Cwd), "GOMAXPROCS": "2", "GOMEMLIMIT": "2GiB"}
	if !e.NoPwd {
		vars["PWD"] = cwd
	}
	for k, v := range e.Vars {
		vars[k] = v
	}
	for _, k := range sortedKeys(vars) {
		if vars[k] != c07Unset {
			env = append(env, k+"="+vars[k])
		}
	}
	cmd.Env = env
	var ob, eb bytes.Buffer
	cmd.Stdout, cmd.Stderr = &limitedWriter{b: &ob, max: 16 << 20}, &limitedWriter{b: &eb, max: 4 << 20}
	err := cmd.Run()
	o := c07Out{Stdout: ob.String(), Stderr: eb.String()}
	if cmd.ProcessState != nil {
		if ws, ok := cmd.ProcessState.Sys().(syscall.WaitStatus); ok && ws.Signaled() {
			o.Signal, o.Exit = ws.Signal().String(), -1
		} else {
			o.Exit = cmd.ProcessState.ExitCode()
		}
	} else if err != nil {
		o.Exit = -2
		o.Stderr += "\n<exec error: " + err.Error() + ">"
	}
	o.TimedOut = tctx.Err() == context.DeadlineExceeded
	if c.Fix {
		o.TreeSum = c07TreeSum(root)
	}
	return o
}

// c07CopyTreeTimes: CopyTree + the modification times of regular files (they are an input here).
func c07CopyTreeTimes(src, dst string) error {
	if err := CopyTree(src, dst); err != nil {
		return err
	}
	return filepath.Walk(src, func(p string, fi os.FileInfo, err error) error {
		if err != nil {
			return err
		}
		if fi.Mode().IsRegular() {
			rel, _ := filepath.Rel(src, p)
			return os.Chtimes(filepath.Join(dst, rel), fi.ModTime(), fi.ModTime())
		}
		return nil
	})
}

// ---------- trees ----------

// instants worth trying: day < 10 (`_2` padding), late evening / early morning UTC (another civil day
// east / west of Greenwich), daylight-saving switches of Europe/Berlin, year and leap-day boundaries
var c07Instants = []int64{
	1521633600, // Wed Mar 21 12:00:00 2018
	1520132645, // Sun Mar  4 03:04:05 2018
	1520206200, // Sun Mar  4 23:30:00 2018 (Mar 5 east of Greenwich)
	1522541700, // Sun Apr  1 00:15:00 2018 (Mar 31 west of Greenwich)
	1521939600, // Sun Mar 25 01:00:00 2018 (Berlin switches to summer time)
	1540686600, // Sun Oct 28 00:30:00 2018 (Berlin: 02:30 for the first time)
	1540690200, // Sun Oct 28 01:30:00 2018 (Berlin: 02:30 for the second time)
	1546300799, // Mon Dec 31 23:59:59 2018
	1546300800, // Tue Jan  1 00:00:00 2019
	1582977600, // Sat Feb 29 12:00:00 2020
	951782400,  // Tue Feb 29 00:00:00 2000
	1,          // Thu Jan  1 00:00:01 1970
	2147483647, // Tue Jan 19 03:14:07 2038
	4102444799, // Thu Dec 31 23:59:59 2099
}

var c07ZoneOffsets = []int64{3600, 7200, -12600, -9000, 50400, 18000, 20700}

type c07EnvFile struct {
	Rel       string // relative to the root
	Mtime     int64
	Nanos     int64
	Listed    bool   // in the final entries map
	Timestamp string // of the final entry
}

type c07EnvTree struct {
	Root, Link string
	Frozen     bool
	Pkgs       []string
	Owner      map[string]string // pkg -> "owner" | "maintainer" | "self" | "none"
	Files      []c07EnvFile      // the files of the packages' directories with their bookkeeping
	Kinds      map[string]int
}

func c07Ansic(sec int64) string { return time.Unix(sec, 0).UTC().Format(time.ANSIC) }

// c07GenEnvTree writes a small tree with CVS checkouts.
func c07GenEnvTree(r *Rng, root string, index int, username string) *c07EnvTree {
	t := NewBaseTree(root)
	et := &c07EnvTree{Root: root, Link: root + ".lnk", Frozen: index%3 != 2, Owner: map[string]string{}, Kinds: map[string]int{}}
	os.Remove(et.Link)
	if err := os.Symlink(root, et.Link); err != nil {
		panic(err)
	}
	os.RemoveAll(t.Path("cat/pkg"))
	t.Write("mk/bsd.options.mk", cvsID+"\n")
	npkg := 2 + index%2
	var subdirs, changes []string
	changes = append(changes, "$"+"NetBSD$", "", "Changes to the packages collection and infrastructure in 2018:", "")
	for i := 0; i < npkg; i++ {
		p := fmt.Sprintf("cat/e%d", i)
		et.Pkgs = append(et.Pkgs, p)
		subdirs = append(subdirs, fmt.Sprintf("SUBDIR+=\te%d", i))
		var extra []string
		switch (i + index) % 4 {
		case 0:
			extra = append(extra, "OWNER=\t\tsomebody-else@example.org")
			et.Owner[p] = "owner"
		case 1:
			et.Owner[p] = "maintainer" // MAINTAINER replaced below
		case 2:
			et.Owner[p] = "none"
		case 3:
			if username != "" {
				extra = append(extra, "OWNER=\t\t"+username+"@NetBSD.org")
				et.Owner[p] = "self"
			} else {
				et.Owner[p] = "none"
			}
		}
		t.WritePackage(p, extra)
		if et.Owner[p] == "maintainer" {
			mk := t.Read(p + "/Makefile")
			t.Write(p+"/Makefile", strings.Replace(mk, "pkgsrc-users@NetBSD.org", "maint@example.org", 1))
		}
		// DISTNAME is <name>-1.0; doc/CHANGES knows an older, the same or a newer version
		switch (i + index/2) % 3 {
		case 0:
			changes = append(changes, fmt.Sprintf("\tUpdated %s to 0.9 [user 2018-01-%02d]", p, 2+i))
			et.Kinds["changes.older"]++
		case 1:
			changes = append(changes, fmt.Sprintf("\tUpdated %s to 1.0 [user 2018-01-%02d]", p, 2+i))
		case 2:
			changes = append(changes, fmt.Sprintf("\tAdded %s version 1.0 [user 2018-01-%02d]", p, 2+i))
		}
		if r.Chance(50) {
			t.Write(p+"/options.mk", lines(cvsID, "", "PKG_OPTIONS_VAR=\tPKG_OPTIONS.e", "PKG_SUPPORTED_OPTIONS=\t# none", "", ".include \"../../mk/bsd.options.mk\""))
			mk := t.Read(p + "/Makefile")
			t.Write(p+"/Makefile", strings.Replace(mk, ".include \"../../mk/bsd.pkg.mk\"", ".include \"options.mk\"\n.include \"../../mk/bsd.pkg.mk\"", 1))
		}
		// the CVS checkout
		var names []string
		ents, _ := os.ReadDir(t.Path(p))
		for _, e := range ents {
			names = append(names, e.Name())
		}
		sort.Strings(names)
		var entries, log []string
		final := map[string]string{} // name -> timestamp of the final entry
		for fi, name := range names {
			sec := Pick(r, c07Instants)
			if r.Chance(30) {
				sec = 946684800 + int64(r.Intn(1200000000)) // 2000 .. 2038
			}
			nanos := int64(0)
			if r.Chance(30) {
				nanos = int64(r.Intn(999999999))
			}
			f := c07EnvFile{Rel: p + "/" + name, Mtime: sec, Nanos: nanos}
			var ts string
			kind := (fi + i + index + r.Intn(2)) % 9
			if name == "Makefile" {
				kind = []int{0, 1, 0, 5, 0, 2}[(i+index)%6] // the Makefile also gates the version note: mostly unmodified
			}
			switch kind {
			case 0, 1, 2:
				ts = c07Ansic(sec)
				et.Kinds["ts.equal"]++
			case 3:
				ts = c07Ansic(sec + []int64{1, -1, 60, 86400}[r.Intn(4)])
				et.Kinds["ts.off-by-little"]++
			case 4:
				ts = c07Ansic(sec + Pick(r, c07ZoneOffsets)) // what the file time looks like in some local time zone
				et.Kinds["ts.local-time-of-a-zone"]++
			case 5:
				ts = Pick(r, []string{"Result of merge", "dummy timestamp", "Result of merge+" + c07Ansic(sec), "modified", ""})
				et.Kinds["ts.special"]++
			case 6:
				ts = strings.Replace(c07Ansic(sec), "  ", " 0", 1) // zero-padded day: another string (equal only for days >= 10)
				et.Kinds["ts.zero-padded-day"]++
			case 7:
				ts = "" // not listed at all
				et.Kinds["unlisted"]++
			case 8:
				ts = c07Ansic(sec) + Pick(r, []string{" ", " UTC", " +0000"})
				et.Kinds["ts.suffix"]++
			}
			if kind != 7 {
				line := fmt.Sprintf("/%s/1.%d/%s/%s/", name, 1+fi, ts, Pick(r, []string{"", "", "", "-kb"}))
				switch {
				case r.Chance(12): // added through Entries.Log only
					log = append(log, "A "+line)
					et.Kinds["log.added"]++
				case r.Chance(10): // listed, then removed by Entries.Log
					entries = append(entries, line)
					log = append(log, "R "+line)
					et.Kinds["log.removed"]++
					final[name] = "\x00removed"
				default:
					entries = append(entries, line)
				}
				if final[name] == "\x00removed" {
					delete(final, name)
				} else {
					final[name] = ts
					f.Listed, f.Timestamp = true, ts
				}
			}
			et.Files = append(et.Files, f)
		}
		entries = append(entries, "D/files////", "D")
		if r.Chance(25) {
			entries = append(entries, "/too/few/fields/", "/Makefile/1.1/x/y/z/one-too-many", "garbage")
			et.Kinds["entries.invalid-lines"]++
		}
		if r.Chance(20) {
			log = append(log, "X ignored", "A /gone/1.1/dummy timestamp//", "R /gone/1.1/dummy timestamp//")
		}
		t.Write(p+"/CVS/Entries", lines(entries...))
		t.Write(p+"/CVS/Repository", "pkgsrc/"+p+"\n")
		t.Write(p+"/CVS/Root", "anoncvs@anoncvs.NetBSD.org:/cvsroot\n")
		if len(log) > 0 {
			t.Write(p+"/CVS/Entries.Log", lines(log...))
		}
	}
	if et.Frozen {
		changes = append(changes, "\tmk/bsd.pkg.mk: started freeze for pkgsrc-2018Q1 branch [freezer 2018-03-20]")
		if index%2 == 0 {
			changes = append(changes, "\tUpdated cat/other to 1.0 [user 2018-03-22]")
		}
	} else {
		changes = append(changes, "\tmk/bsd.pkg.mk: started freeze for pkgsrc-2018Q1 branch [freezer 2018-03-20]",
			"\tmk/bsd.pkg.mk: freeze ended for pkgsrc-2018Q1 branch [freezer 2018-03-29]")
	}
	t.Write("doc/CHANGES-2018", lines(changes...))
	t.Write("cat/Makefile", lines(append(append([]string{cvsID, "", "COMMENT=\tComment for the category", ""}, subdirs...), "", ".include \"../mk/misc/category.mk\"")...))
	t.Write("Makefile", lines(cvsID, "", "SUBDIR+=\tcat", ""))
	for _, f := range et.Files {
		mt := time.Unix(f.Mtime, f.Nanos)
		if err := os.Chtimes(t.Path(f.Rel), mt, mt); err != nil {
			panic(err)
		}
	}
	return et
}

// expected "locally modified" by the harness's own bookkeeping (the text of util.go isLocallyModified)
func (f c07EnvFile) modified() bool { return f.Listed && f.Timestamp != c07Ansic(f.Mtime) }

// ---------- the stage ----------

func c07EnvKindOf(msg string) string {
	switch {
	case strings.HasPrefix(msg, "Pkgsrc is frozen since"):
		return "frozen"
	case strings.HasPrefix(msg, "Don't commit changes to this file without asking the OWNER"):
		return "owner"
	case strings.HasPrefix(msg, "Only commit changes that"):
		return "maintainer"
	case strings.HasPrefix(msg, "Package version") && strings.Contains(msg, "is greater than the latest"):
		return "version"
	case strings.HasPrefix(msg, "Invalid line:"):
		return "invalid-line"
	}
	return ""
}

func c07EnvStage(ctx *Ctx, res *Result, rng *Rng) {
	ntrees := 12
	if ctx.Tier == "thorough" {
		ntrees = 60
	}
	username, userOK := c07UserFromPasswd()
	if userOK {
		res.Count("env.user-from-passwd", 1)
	}
	variants := c07EnvVariants(userOK)
	trees := make([]*c07EnvTree, ntrees)
	rngs := make([]*Rng, ntrees)
	for i := range rngs {
		rngs[i] = rng.Fork()
	}
	parallelFor(ntrees, func(i int) {
		trees[i] = c07GenEnvTree(rngs[i], filepath.Join(ctx.Work, fmt.Sprintf("env%d", i)), i, username)
	})
	var cases []c07EnvCase
	for i, t := range trees {
		mk := func(cwd string, fix bool, args ...string) {
			cases = append(cases, c07EnvCase{Tree: i, Root: t.Root, Link: t.Link, Cwd: cwd, Args: args, Fix: fix})
		}
		mk(".", false, "-Wall", "-Cglobal", "-r", ".")
		p := t.Pkgs[i%len(t.Pkgs)]
		switch i % 4 {
		case 0:
			mk(p, false, "-Wall")
		case 1:
			mk(".", false, "-Wall", "--debug", p)
		case 2:
			mk("cat", false, "-Wall", "-Cglobal", "-e", "-s", filepath.Base(p), filepath.Base(t.Pkgs[0]))
		case 3:
			mk(".", true, "-Wall", "-Cglobal", "-r", "-F", ".")
		}
		for k, v := range t.Kinds {
			res.Count("env.tree."+k, v)
		}
	}
	base := c07BaseEnv()
	nv := len(variants)
	outs := make([][]c07Out, len(cases)) // [case][0 = base, 1 = base again, 2+k = variant k]
	for i := range outs {
		outs[i] = make([]c07Out, nv+2)
	}
	parallelFor(len(cases)*(nv+2), func(j int) {
		ci, k := j/(nv+2), j%(nv+2)
		e := base
		if k >= 2 {
			e = variants[k-2]
		}
		outs[ci][k] = c07EnvRun(ctx, cases[ci], e, fmt.Sprintf("e%d", j))
	})
	res.Evaluations += len(cases) * (nv + 2)
	res.Count("env.cases", len(cases))
	res.Count("env.variants", nv)
	// umask pairs compare sh-wrapped runs with each other: the base for them is the umask 022 run through sh
	shBase := make([]c07Out, len(cases))
	sb := c07BaseEnv()
	sb.Umask = 0o022
	parallelFor(len(cases), func(ci int) { shBase[ci] = c07EnvRun(ctx, cases[ci], sb, fmt.Sprintf("sb%d", ci)) })
	res.Evaluations += len(cases)

	for ci, c := range cases {
		b := outs[ci][0]
		if !b.same(outs[ci][1]) {
			c07ReportEnvNondet(ctx, res, trees[c.Tree], c, b, outs[ci][1])
			continue
		}
		if b.TimedOut || b.Signal != "" || (b.Exit != 0 && b.Exit != 1) || b.Panic != "" {
			res.Count("env.runs.abnormal", 1)
		}
		if !b.same(shBase[ci]) {
			c07ConfirmEnvDiff(ctx, res, trees[c.Tree], c, base, sb, "sh-wrapper")
		}
		for k, e := range variants {
			o := outs[ci][2+k]
			res.TracesValidated++
			ref, refEnv := b, base
			if e.Umask >= 0 {
				ref, refEnv = shBase[ci], sb
			}
			if !o.same(ref) {
				c07ConfirmEnvDiff(ctx, res, trees[c.Tree], c, refEnv, e, e.Name)
			}
		}
		res.Count("env.diagnostics", len(ParseDiags(b.Stdout)))
	}

	// prediction + floors on the base runs of the whole-tree cases (-Wall -Cglobal -r .)
	for ci, c := range cases {
		if c.Fix || c.Cwd != "." || len(c.Args) != 4 {
			continue
		}
		t := trees[c.Tree]
		got := map[string]map[string]bool{} // kind -> path -> seen
		for _, d := range ParseDiags(outs[ci][0].Stdout) {
			if k := c07EnvKindOf(d.Msg); k != "" {
				if got[k] == nil {
					got[k] = map[string]bool{}
				}
				got[k][filepath.Clean(d.Path)] = true
				res.Count("env.gated."+k, 1)
			}
		}
		for _, f := range t.Files {
			pkg := filepath.Dir(f.Rel)
			wantFrozen := t.Frozen && f.modified()
			switch {
			case wantFrozen:
				res.Count("env.predicted.frozen-note", 1)
			case t.Frozen && f.Listed:
				res.Count("env.predicted.no-frozen-note-for-unmodified-file", 1)
			case t.Frozen:
				res.Count("env.predicted.no-frozen-note-for-unlisted-file", 1)
			}
			if got["frozen"][f.Rel] != wantFrozen {
				c07EnvBroken(res, "C07/correspondence/locally-modified/frozen-note", t, c,
					fmt.Sprintf("tree %d %s: mtime %s, CVS/Entries timestamp %q (listed %v), pkgsrc frozen %v: NOTE \"Pkgsrc is frozen since\" expected %v, printed %v",
						c.Tree, f.Rel, c07Ansic(f.Mtime), f.Timestamp, f.Listed, t.Frozen, wantFrozen, got["frozen"][f.Rel]))
			}
			wantOwner := t.Owner[pkg] == "owner" && f.modified()
			if wantOwner {
				res.Count("env.predicted.owner-warning", 1)
			} else if t.Owner[pkg] == "owner" && f.Listed {
				res.Count("env.predicted.no-owner-warning-for-unmodified-file", 1)
			} else if t.Owner[pkg] == "self" && f.modified() {
				res.Count("env.predicted.no-owner-warning-for-own-package", 1)
			}
			if got["owner"][f.Rel] != wantOwner {
				c07EnvBroken(res, "C07/correspondence/locally-modified/owner-warning", t, c,
					fmt.Sprintf("%s: mtime %s, CVS/Entries timestamp %q (listed %v), OWNER kind %s: WARN \"Don't commit changes ... OWNER\" expected %v, printed %v",
						f.Rel, c07Ansic(f.Mtime), f.Timestamp, f.Listed, t.Owner[pkg], wantOwner, got["owner"][f.Rel]))
			}
		}
		for _, p := range t.Pkgs {
			any := false
			for _, f := range t.Files {
				if filepath.Dir(f.Rel) == p && f.modified() {
					any = true
				}
			}
			want := t.Owner[p] == "maintainer" && any
			if want {
				res.Count("env.predicted.maintainer-note", 1)
			} else if t.Owner[p] == "maintainer" {
				res.Count("env.predicted.no-maintainer-note", 1)
			}
			if got["maintainer"][p] != want {
				c07EnvBroken(res, "C07/correspondence/locally-modified/maintainer-note", t, c,
					fmt.Sprintf("%s: MAINTAINER is somebody else, some file modified: %v, NOTE \"Only commit changes that ... would approve\" printed %v", p, any, got["maintainer"][p]))
			}
		}
	}
	if len(res.Violations) == 0 {
		floors := map[string]int{
			"env.predicted.frozen-note": 3 * ntrees / 2, "env.predicted.no-frozen-note-for-unmodified-file": 3 * ntrees / 2,
			"env.predicted.owner-warning": ntrees / 4, "env.predicted.no-owner-warning-for-unmodified-file": ntrees / 4,
			"env.gated.version": 1, "env.gated.invalid-line": 1, "env.tree.ts.equal": 4 * ntrees, "env.tree.ts.local-time-of-a-zone": ntrees / 2,
			"env.tree.ts.special": ntrees / 2,
		}
		for _, k := range sortedKeys(floors) {
			if n, _ := res.Distribution[k].(int); n < floors[k] {
				res.AddViolation(Violation{Key: "C07/correspondence/environment-floor/" + k, FoundInput: false,
					What:   fmt.Sprintf("the environment stage reached %q only %d times (floor %d): the diagnostics gated by isLocallyModified no longer appear/disappear as the generator intends", k, n, floors[k]),
					Replay: map[string]any{"broken": "generator of CVS checkouts reaches the code gated by isLocallyModified", "kind": "floor", "counter": k}})
			}
		}
	}
}

func c07EnvBroken(res *Result, key string, t *c07EnvTree, c c07EnvCase, what string) {
	res.AddViolation(Violation{Key: key, FoundInput: false, What: what,
		Replay: map[string]any{"broken": "util.go isLocallyModified = (listed in CVS/Entries and timestamp != mtime formatted in UTC as time.ANSIC)", "kind": "env-prediction",
			"args": c.Args, "cwd": c.Cwd, "files": c07TreeFiles(t.Root), "mtimes": c07TreeMtimes(t.Root)}})
}

func c07TreeMtimes(root string) map[string]int64 {
	m := map[string]int64{}
	filepath.Walk(root, func(p string, fi os.FileInfo, err error) error {
		if err == nil && fi.Mode().IsRegular() {
			rel, _ := filepath.Rel(root, p)
			m[hx(rel)] = fi.ModTime().UnixNano()
		}
		return nil
	})
	return m
}

func c07ReportEnvNondet(ctx *Ctx, res *Result, t *c07EnvTree, c c07EnvCase, a, b c07Out) {
	for _, d := range c07Compare(a, b) {
		res.AddViolation(Violation{Key: "C07/nondeterministic/" + d.key(), FoundInput: true, Size: len(a.Stdout),
			What: fmt.Sprintf("two runs of `pkglint %s` (cwd %s) in the same environment differ: %s", strings.Join(c.Args, " "), c.Cwd, c07Where(a, b)),
			Replay: map[string]any{"kind": "env", "var": "none", "cwd": c.Cwd, "args": c.Args, "fix": c.Fix, "files": c07TreeFiles(t.Root), "mtimes": c07TreeMtimes(t.Root),
				"env_a": c07BaseEnv(), "env_b": c07BaseEnv(), "stdout_a": a.Stdout, "stdout_b": b.Stdout}})
	}
}

// c07ConfirmEnvDiff: the case gave different results in ea and eb. Re-execute both twice more; only a
// difference that separates the environments (all runs in ea agree, all in eb agree, ea != eb) is an
// environment dependence; anything else is plain nondeterminism.
func c07ConfirmEnvDiff(ctx *Ctx, res *Result, t *c07EnvTree, c c07EnvCase, ea, eb c07Env, what string) bool {
	var as, bs []c07Out
	for k := 0; k < 3; k++ {
		as = append(as, c07EnvRun(ctx, c, ea, fmt.Sprintf("ca%d", k)))
		bs = append(bs, c07EnvRun(ctx, c, eb, fmt.Sprintf("cb%d", k)))
	}
	for k := 1; k < 3; k++ {
		if !as[0].same(as[k]) {
			c07ReportEnvNondet(ctx, res, t, c, as[0], as[k])
			return true
		}
		if !bs[0].same(bs[k]) {
			c07ReportEnvNondet(ctx, res, t, c, bs[0], bs[k])
			return true
		}
	}
	if as[0].same(bs[0]) {
		res.AddViolation(Violation{Key: "C07/environment-unstable/" + what, FoundInput: false,
			What:   fmt.Sprintf("`pkglint %s` differed once between two environments (%s) and could not be repeated", strings.Join(c.Args, " "), what),
			Replay: map[string]any{"broken": "run in a varied environment = run in the base environment (not reproducible)", "kind": "env-once", "args": c.Args, "cwd": c.Cwd}})
		return true
	}
	varied := what
	if what == "TZ" || what == "HOME" || what == "PWD" || what == "USER" {
		varied = what + "=" + eb.Vars[what]
		if eb.Vars[what] == c07Unset {
			varied = what + " unset"
		}
		if eb.NoPwd {
			varied = "PWD unset"
		}
	} else if what == "umask" {
		varied = fmt.Sprintf("umask %04o vs %04o", ea.Umask, eb.Umask)
	}
	for _, d := range c07Compare(as[0], bs[0]) {
		res.AddViolation(Violation{Key: "C07/environment/" + what + "/" + d.key(), FoundInput: true, Size: len(as[0].Stdout) + len(bs[0].Stdout),
			What: fmt.Sprintf("`pkglint %s` (cwd %s) on the same tree gives a different result when only the environment differs (%s): %s",
				strings.Join(c.Args, " "), c.Cwd, varied, c07Where(as[0], bs[0])),
			Replay: map[string]any{"kind": "env", "var": what, "cwd": c.Cwd, "args": c.Args, "fix": c.Fix, "dirlink": filepath.Base(c.DirLink), "files": c07TreeFiles(t.Root), "mtimes": c07TreeMtimes(t.Root),
				"env_a": ea, "env_b": eb, "stdout_a": as[0].Stdout, "stdout_b": bs[0].Stdout, "exit_a": as[0].Exit, "exit_b": bs[0].Exit, "diff": d.what + "/" + d.kind}})
	}
	return true
}

// c07CwdLinkStage: the working directory is a package directory reached through a symbolic link with
// another name (`ln -s pkgsrc/cat/pkg t/Pkg; cd t/Pkg; pkglint -Wall .`). The kernel's working directory
// is the same in both runs of a pair, so are tree and arguments; only $PWD differs (set to the link's
// path as a shell does / unset / stale). os.Getwd returns $PWD when it names the working directory.
func c07CwdLinkStage(ctx *Ctx, res *Result) {
	base := c07BaseEnv()
	for i, name := range []string{"Pkg", "other"} {
		root := filepath.Join(ctx.Work, fmt.Sprintf("cwdlink%d", i))
		t := NewBaseTree(root)
		et := &c07EnvTree{Root: root, Link: root + ".lnk"}
		dl := filepath.Join(root+".dl", "t", name)
		os.MkdirAll(filepath.Dir(dl), 0o755)
		os.Remove(dl)
		if err := os.Symlink(t.Path("cat/pkg"), dl); err != nil {
			res.Broken = err.Error()
			return
		}
		c := c07EnvCase{Tree: i, Root: root, Link: et.Link, Cwd: "cat/pkg", Args: []string{"-Wall", "."}, DirLink: dl}
		for _, e := range c07EnvVariants(false) {
			if e.Name != "PWD" {
				continue
			}
			a, b := c07EnvRun(ctx, c, base, "la"), c07EnvRun(ctx, c, e, "lb")
			res.Evaluations += 2
			res.Count("env.cwd-link.pairs", 1)
			if !a.same(b) {
				res.Count("env.cwd-link.differ", 1)
				c07ConfirmEnvDiff(ctx, res, et, c, base, e, "PWD")
			}
		}
	}
}

// ---------- replay ----------

func c07EnvFromJSON(v any) c07Env {
	e := c07Env{Vars: map[string]string{}, Umask: -1}
	m, _ := v.(map[string]any)
	e.Name, _ = m["name"].(string)
	if vs, ok := m["vars"].(map[string]any); ok {
		for k, x := range vs {
			e.Vars[k], _ = x.(string)
		}
	}
	if u, ok := m["umask"].(float64); ok {
		e.Umask = int(u)
	}
	e.Symlink, _ = m["symlink"].(bool)
	e.NoPwd, _ = m["nopwd"].(bool)
	return e
}

func replayC07Env(ctx *Ctx, rep map[string]any) *Result {
	res := &Result{Rule: "replay"}
	root := filepath.Join(ctx.Work, "replay-env")
	files, _ := rep["files"].(map[string]any)
	c07WriteFiles(root, files)
	if mts, ok := rep["mtimes"].(map[string]any); ok {
		for k, v := range mts {
			if ns, ok := v.(float64); ok {
				mt := time.Unix(0, int64(ns))
				os.Chtimes(filepath.Join(root, unhx(k)), mt, mt)
			}
		}
	}
	os.Remove(root + ".lnk")
	os.Symlink(root, root+".lnk")
	cwd, _ := rep["cwd"].(string)
	fix, _ := rep["fix"].(bool)
	c := c07EnvCase{Root: root, Link: root + ".lnk", Cwd: cwd, Args: c07Strings(rep["args"]), Fix: fix}
	if dl, _ := rep["dirlink"].(string); dl != "" && dl != "." {
		os.MkdirAll(root+".dl", 0o755)
		c.DirLink = filepath.Join(root+".dl", dl)
		os.Remove(c.DirLink)
		os.Symlink(filepath.Join(root, cwd), c.DirLink)
	}
	ea, eb := c07EnvFromJSON(rep["env_a"]), c07EnvFromJSON(rep["env_b"])
	what, _ := rep["var"].(string)
	t := &c07EnvTree{Root: root, Link: root + ".lnk"}
	a, b := c07EnvRun(ctx, c, ea, "ra"), c07EnvRun(ctx, c, eb, "rb")
	res.Evaluations = 2
	if !a.same(b) {
		c07ConfirmEnvDiff(ctx, res, t, c, ea, eb, what)
	}
	return res
}

func init() {
	// `vharness run tool-c07env …`: the environment stage alone (development aid)
	register("tool-c07env", func(ctx *Ctx) *Result {
		res := &Result{}
		c07CvsUnit(ctx, res, NewRng(ctx.Seed^0xc07c5))
		if os.Getenv("C07_UNIT_ONLY") == "" {
			c07EnvStage(ctx, res, NewRng(ctx.Seed))
			c07CwdLinkStage(ctx, res)
		}
		return res
	}, nil)
}
