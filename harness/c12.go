package main

import (
	"encoding/json"
	"fmt"
	"os"
	"os/exec"
	"path/filepath"
	"strings"

	"github.com/rillig/pkglint/v23/pkgver"
)

// C12: pkgver.Compare against the extracted model (Model/Vercmp.v) and the
// extracted dewey.c transcription (Spec/Dewey.v); the order axioms are also
// evaluated directly on the implementation.

var c12Tokens = []string{"0", "1", "2", "9", "10", ".", "_", "a", "b", "z", "A", "alpha", "beta", "pre", "rc", "pl", "nb", "-", "+"}
var c12Reduced = []string{"1", "2", ".", "a", "alpha", "rc", "nb"}

func tokenStrings(tokens []string, maxTok int) []string {
	out := []string{""}
	prev := []string{""}
	for n := 1; n <= maxTok; n++ {
		var next []string
		for _, p := range prev {
			for _, t := range tokens {
				next = append(next, p+t)
			}
		}
		out = append(out, next...)
		prev = next
	}
	// distinct only (e.g. "1"+"0" = "10")
	seen := map[string]bool{}
	var res []string
	for _, s := range out {
		if !seen[s] {
			seen[s] = true
			res = append(res, s)
		}
	}
	return res
}

func sgn(i int) int {
	if i < 0 {
		return -1
	}
	if i > 0 {
		return 1
	}
	return 0
}

func c12Nontrivial(a, b string) bool {
	return strings.ContainsAny(strings.ToLower(a+b), "abcdefghijklmnopqrstuvwxyz")
}

type c12Pair struct{ a, b string }

// c12CheckPairs compares the implementation with model and spec on the given pairs.
func c12CheckPairs(ctx *Ctx, res *Result, pairs []c12Pair, kind string) {
	reqs := make([]string, len(pairs))
	impl := make([]int, len(pairs))
	// sequential on purpose: pkglint is single-threaded, so an implementation that is a function of its
	// arguments but not safe for concurrent use (e.g. a correct unsynchronised memo table) is not a violation
	for i, p := range pairs {
		reqs[i] = "cmp " + hx(p.a) + " " + hx(p.b)
		impl[i] = sgn(pkgver.Compare(p.a, p.b))
	}
	ans, err := runOracle(ctx, "c12", reqs)
	if err != nil {
		res.Broken = err.Error()
		return
	}
	for i, p := range pairs {
		var m, d, inr int
		if n, _ := fmt.Sscan(ans[i], &m, &d, &inr); n != 3 {
			res.Broken = "oracle answer " + q(ans[i])
			return
		}
		if inr == 1 && impl[i] != d {
			// the property itself fails on the implementation: Compare differs from dewey
			res.AddViolation(Violation{
				Key:        "C12/differs-from-dewey",
				What:       fmt.Sprintf("Compare(%q,%q)=%d but dewey.c gives %d", p.a, p.b, impl[i], d),
				FoundInput: true, Size: 1 + len(p.a) + len(p.b),
				Replay: map[string]any{"kind": "pair", "a": hx(p.a), "b": hx(p.b), "impl": impl[i], "dewey": d},
			})
		} else if impl[i] != m {
			res.AddViolation(Violation{
				Key:        "C12/correspondence/compare-" + kind,
				What:       fmt.Sprintf("model/implementation disagree outside dewey's range: Compare(%q,%q)=%d, model %d", p.a, p.b, impl[i], m),
				FoundInput: false, Size: 1 + len(p.a) + len(p.b),
				Replay: map[string]any{"kind": "pair", "a": hx(p.a), "b": hx(p.b), "impl": impl[i], "model": m, "broken": "correspondence pkgver.Compare = Model.Vercmp.compare_sign"},
			})
		}
		if inr == 1 {
			res.Count("pairs_in_dewey_range", 1)
		} else {
			res.Count("pairs_saturating", 1)
		}
	}
	res.Evaluations += len(pairs)
}

// order axioms evaluated on the implementation itself
func c12Axioms(res *Result, strs []string) {
	n := len(strs)
	cmp := make([][]int8, n)
	for i := 0; i < n; i++ { // sequential, see c12CheckPairs
		cmp[i] = make([]int8, n)
		for j := 0; j < n; j++ {
			cmp[i][j] = int8(sgn(pkgver.Compare(strs[i], strs[j])))
		}
	}
	for i := 0; i < n; i++ {
		if cmp[i][i] != 0 {
			res.AddViolation(Violation{Key: "C12/axiom/refl", What: fmt.Sprintf("Compare(%q,%q)!=0", strs[i], strs[i]), FoundInput: true,
				Replay: map[string]any{"kind": "triple", "a": hx(strs[i]), "b": hx(strs[i]), "c": hx(strs[i])}})
		}
		for j := 0; j < n; j++ {
			if cmp[i][j] != -cmp[j][i] {
				res.AddViolation(Violation{Key: "C12/axiom/antisym", What: fmt.Sprintf("Compare(%q,%q)=%d but Compare(%q,%q)=%d", strs[i], strs[j], cmp[i][j], strs[j], strs[i], cmp[j][i]), FoundInput: true,
					Replay: map[string]any{"kind": "triple", "a": hx(strs[i]), "b": hx(strs[j]), "c": hx(strs[i])}})
			}
		}
	}
	var bad [3]int = [3]int{-1, -1, -1}
	for i := 0; i < n && bad[0] < 0; i++ {
		for j := 0; j < n && bad[0] < 0; j++ {
			if cmp[i][j] > 0 {
				continue
			}
			for k := 0; k < n; k++ {
				if cmp[j][k] <= 0 && cmp[i][k] > 0 {
					bad = [3]int{i, j, k}
					break
				}
			}
		}
	}
	if bad[0] >= 0 {
		a, b, c := strs[bad[0]], strs[bad[1]], strs[bad[2]]
		res.AddViolation(Violation{Key: "C12/axiom/trans", What: fmt.Sprintf("%q<=%q<=%q but not %q<=%q", a, b, c, a, c), FoundInput: true,
			Replay: map[string]any{"kind": "triple", "a": hx(a), "b": hx(b), "c": hx(c)}})
	}
	res.Evaluations += n * n * n
	res.Count("triples_on_impl", n*n*n)
}

// c12MixCase flips the case of some letters.
func c12MixCase(s string, rng *Rng) string {
	b := []byte(s)
	for i, c := range b {
		if rng.Bool() {
			switch {
			case 'a' <= c && c <= 'z':
				b[i] = c - 32
			case 'A' <= c && c <= 'Z':
				b[i] = c + 32
			}
		}
	}
	return string(b)
}

func c12Random(rng *Rng, n int) []c12Pair {
	pairs := make([]c12Pair, 0, n)
	gen := func() string {
		var sb strings.Builder
		k := 3 + rng.Intn(6)
		for i := 0; i < k; i++ {
			switch {
			case rng.Chance(6): // long digit run around the saturation point
				for d := 0; d < 17+rng.Intn(5); d++ {
					sb.WriteByte(byte('0' + rng.Intn(10)))
				}
			case rng.Chance(5): // arbitrary ASCII byte
				sb.WriteByte(byte(1 + rng.Intn(127)))
			case rng.Chance(15): // a token in upper or mixed case
				sb.WriteString(c12MixCase(strings.ToUpper(Pick(rng, c12Tokens)), rng))
			default:
				sb.WriteString(Pick(rng, c12Tokens))
			}
		}
		return sb.String()
	}
	for i := 0; i < n; i++ {
		a := gen()
		b := gen()
		if rng.Chance(30) { // near-equal pairs: mutate one token
			b = a + Pick(rng, c12Tokens)
		}
		pairs = append(pairs, c12Pair{a, b})
	}
	return pairs
}


// ---------- purity over call histories ----------
//
// The model's compare is a function; the implementation must be one too: the result of a call
// must not depend on the calls made before it in the same process. One long call sequence is
// evaluated strictly sequentially at the very start of the run (the process is fresh, nothing
// has called pkgver.Compare yet): adversarial groups first (all splits a'+b' of one concatenation
// a+b, forwards then backwards, each followed by the swapped pair), then the whole exhaustive pair
// domain in two different seeded permutations. Every single result must equal the oracle's.
// A disagreement is re-executed in fresh child processes (this binary, "replay" mode) and the
// prefix is shrunk (ddmin) to the shortest call sequence that still makes the last call wrong.

const c12HistoryKey = "C12/history/result-depends-on-earlier-calls"

func c12EvalSeq(calls []c12Pair) []int8 {
	out := make([]int8, len(calls))
	for i, p := range calls {
		out[i] = int8(sgn(pkgver.Compare(p.a, p.b)))
	}
	return out
}

// c12Want asks the oracle: per call the expected sign (dewey inside its range, the model outside) and the in-range flag.
func c12Want(ctx *Ctx, calls []c12Pair) ([]int8, []bool, error) {
	idx := map[c12Pair]int{}
	var reqs []string
	for _, p := range calls {
		if _, ok := idx[p]; !ok {
			idx[p] = len(reqs)
			reqs = append(reqs, "cmp "+hx(p.a)+" "+hx(p.b))
		}
	}
	ans, err := runOracle(ctx, "c12", reqs)
	if err != nil {
		return nil, nil, err
	}
	want := make([]int8, len(calls))
	inr := make([]bool, len(calls))
	for i, p := range calls {
		var m, d, r int
		if n, _ := fmt.Sscan(ans[idx[p]], &m, &d, &r); n != 3 {
			return nil, nil, fmt.Errorf("oracle answer %q", ans[idx[p]])
		}
		if r == 1 {
			want[i], inr[i] = int8(d), true
		} else {
			want[i] = int8(m)
		}
	}
	return want, inr, nil
}

func c12Perm(rng *Rng, pairs []c12Pair) []c12Pair {
	out := append([]c12Pair(nil), pairs...)
	for i := len(out) - 1; i > 0; i-- {
		j := rng.Intn(i + 1)
		out[i], out[j] = out[j], out[i]
	}
	return out
}

// c12SplitGroup: every split of s into (s[:k], s[k:]), k = 0..len(s), each followed by the swapped pair.
func c12SplitGroup(s string, backwards bool) []c12Pair {
	var g []c12Pair
	for k := 0; k <= len(s); k++ {
		j := k
		if backwards {
			j = len(s) - k
		}
		g = append(g, c12Pair{s[:j], s[j:]}, c12Pair{s[j:], s[:j]})
	}
	return g
}

func c12CallsJSON(calls []c12Pair) []any {
	out := make([]any, len(calls))
	for i, p := range calls {
		out[i] = []any{hx(p.a), hx(p.b)}
	}
	return out
}

// c12FreshLastWrong runs the call sequence in a fresh process and says whether its LAST call
// returns something else than want. ok=false: the child could not be run at all.
func c12FreshLastWrong(ctx *Ctx, calls []c12Pair, want int8, n *int) (wrong bool, got int, ok bool) {
	*n++
	dir := ctx.Work
	if dir == "" {
		dir = os.TempDir()
	}
	in := filepath.Join(dir, fmt.Sprintf("c12hist-%d-%d.json", os.Getpid(), *n))
	out := in + ".out"
	defer os.Remove(in)
	defer os.Remove(out)
	data, _ := json.Marshal(map[string]any{"kind": "history", "calls": c12CallsJSON(calls), "only_last": true, "want_last": int(want)})
	if err := os.WriteFile(in, data, 0o644); err != nil {
		return false, 0, false
	}
	exe, err := os.Executable()
	if err != nil {
		return false, 0, false
	}
	cmd := exec.Command(exe, "replay", "C12", "tier=quick", fmt.Sprintf("seed=%d", ctx.Seed), "oracle="+ctx.Oracle, "work="+dir, "replay="+in, "out="+out)
	if b, err := cmd.CombinedOutput(); err != nil {
		// the child died inside the code under test: as wrong as a wrong answer, but not a usable reduction step
		_ = b
		return false, 0, false
	}
	var r struct {
		Distribution map[string]any `json:"distribution"`
	}
	rd, err := os.ReadFile(out)
	if err != nil || json.Unmarshal(rd, &r) != nil {
		return false, 0, false
	}
	g, has := r.Distribution["history_last_result"].(float64)
	if !has {
		return false, 0, false
	}
	return int8(g) != want, int(g), true
}

// c12Shrink: ddmin over the prefix (everything before the failing call), re-executing in fresh processes.
func c12Shrink(ctx *Ctx, prefix []c12Pair, target c12Pair, want int8, budget int) (best []c12Pair, runs int, reproduced bool) {
	test := func(pre []c12Pair) bool {
		if runs >= budget {
			return false
		}
		w, _, ok := c12FreshLastWrong(ctx, append(append([]c12Pair(nil), pre...), target), want, &runs)
		return ok && w
	}
	if !test(prefix) {
		return prefix, runs, false
	}
	seq := prefix
	n := 2
	for len(seq) >= 2 && runs < budget {
		sz := (len(seq) + n - 1) / n
		reduced := false
		for lo := 0; lo < len(seq); lo += sz {
			hi := lo + sz
			if hi > len(seq) {
				hi = len(seq)
			}
			if test(seq[lo:hi]) {
				seq, n, reduced = append([]c12Pair(nil), seq[lo:hi]...), 2, true
				break
			}
		}
		if !reduced && n > 2 {
			for lo := 0; lo < len(seq); lo += sz {
				hi := lo + sz
				if hi > len(seq) {
					hi = len(seq)
				}
				compl := append(append([]c12Pair(nil), seq[:lo]...), seq[hi:]...)
				if test(compl) {
					seq, reduced = compl, true
					if n > 2 {
						n--
					}
					break
				}
			}
		}
		if !reduced {
			if n >= len(seq) {
				break
			}
			n *= 2
			if n > len(seq) {
				n = len(seq)
			}
		}
	}
	return seq, runs, true
}

// c12ReportHistory turns "call i of the sequence is wrong" into a violation; the sequence is re-executed in
// fresh processes (so the report does not depend on what this process did before) and shrunk.
func c12ReportHistory(ctx *Ctx, res *Result, calls []c12Pair, i int, got, want int8, inRange bool) {
	target := calls[i]
	runs := 0
	aloneWrong, aloneGot, aloneOK := c12FreshLastWrong(ctx, []c12Pair{target}, want, &runs)
	if aloneOK && aloneWrong {
		// wrong even as the first call of a fresh process: an ordinary wrong pair, no history needed
		key, found := "C12/differs-from-dewey", true
		rep := map[string]any{"kind": "pair", "a": hx(target.a), "b": hx(target.b), "impl": aloneGot, "dewey": int(want)}
		if !inRange {
			key, found = "C12/correspondence/compare-pairs", false
			rep["broken"] = "correspondence pkgver.Compare = Model.Vercmp.compare_sign"
		}
		res.AddViolation(Violation{Key: key, What: fmt.Sprintf("Compare(%q,%q)=%d but the oracle gives %d (first call of a fresh process)", target.a, target.b, aloneGot, want),
			FoundInput: found, Size: 1 + len(target.a) + len(target.b), Replay: rep})
		return
	}
	pre, sruns, reproduced := c12Shrink(ctx, calls[:i], target, want, 400)
	runs += sruns
	seq := append(append([]c12Pair(nil), pre...), target)
	if !reproduced {
		// wrong inside this process but right when the same calls are made in a fresh process
		res.AddViolation(Violation{Key: c12HistoryKey + "/not-reproduced-in-fresh-process",
			What:       fmt.Sprintf("call #%d of the sequential history, Compare(%q,%q), returned %d but the oracle gives %d; the same %d calls in a fresh process did not reproduce it", i, target.a, target.b, got, want, i+1),
			FoundInput: false, Size: i + 1,
			Replay: map[string]any{"kind": "pair", "a": hx(target.a), "b": hx(target.b), "impl": int(got), "want": int(want), "index": i,
				"broken": "pkgver.Compare is a function of its arguments (results along one sequential call history = oracle)"}})
		return
	}
	var sb strings.Builder
	for k, p := range seq {
		if k > 0 {
			sb.WriteString("; ")
		}
		if k >= 6 && k < len(seq)-1 {
			if k == 6 {
				fmt.Fprintf(&sb, "… %d more calls …", len(seq)-7)
			}
			continue
		}
		fmt.Fprintf(&sb, "Compare(%q,%q)", p.a, p.b)
	}
	v := Violation{Key: c12HistoryKey,
		What: fmt.Sprintf("the result of Compare depends on earlier calls: in a fresh process the %d call(s) %s make the last one return %d; dewey.c (and the same call alone in a fresh process) gives %d",
			len(seq), sb.String(), c12LastGot(ctx, seq, want), want),
		FoundInput: inRange, Size: len(seq),
		Replay: map[string]any{"kind": "history", "calls": c12CallsJSON(seq), "want_last": int(want), "alone": aloneGot, "fresh_process_runs": runs, "index_in_run": i}}
	if !inRange {
		v.Replay["broken"] = "pkgver.Compare is a function of its arguments (outside dewey's range: = Model.Vercmp.compare_sign)"
	}
	res.AddViolation(v)
}

func c12LastGot(ctx *Ctx, seq []c12Pair, want int8) int {
	n := 0
	_, g, _ := c12FreshLastWrong(ctx, seq, want, &n)
	return g
}

// c12Histories: returns false if the run should stop (a history violation was reported or the machinery failed).
func c12Histories(ctx *Ctx, res *Result, rng *Rng, exh []c12Pair, random []c12Pair) bool {
	var calls []c12Pair
	// adversarial groups: concatenations of exhaustive pairs (sampled) and of random pairs, all splits
	ngroups, nsplit := 0, 0
	addGroup := func(s string) {
		if len(s) < 2 || len(s) > 40 {
			return
		}
		g := c12SplitGroup(s, false)
		g = append(g, c12SplitGroup(s, true)...)
		calls = append(calls, g...)
		ngroups++
		nsplit += len(g)
	}
	want1 := 3000
	if ctx.Tier == "thorough" {
		want1 = 30000
	}
	for k := 0; k < want1; k++ {
		p := Pick(rng, exh)
		addGroup(p.a + p.b)
	}
	for k := 0; k < want1/3 && k < len(random); k++ {
		p := random[rng.Intn(len(random))]
		addGroup(p.a + p.b)
	}
	// the exhaustive pair domain, twice, in two different orders
	p1 := c12Perm(rng, exh)
	p2 := c12Perm(rng, exh)
	calls = append(calls, p1...)
	calls = append(calls, p2...)
	// generator floor (a property of the generator, not of the implementation): pairs that share their concatenation with a different pair
	byCat := map[string]map[c12Pair]bool{}
	for _, p := range exh {
		k := p.a + p.b
		if byCat[k] == nil {
			byCat[k] = map[c12Pair]bool{}
		}
		byCat[k][p] = true
	}
	coll := 0
	for _, m := range byCat {
		if len(m) > 1 {
			coll += len(m)
		}
	}
	res.Count("history_calls", len(calls))
	res.Count("history_split_groups", ngroups)
	res.Count("history_split_calls", nsplit)
	res.Count("history_exhaustive_pairs_sharing_a_concatenation", coll)
	if coll < 1000 || ngroups < want1/2 {
		res.Broken = fmt.Sprintf("C12 history generator: only %d exhaustive pairs share a concatenation, %d split groups", coll, ngroups)
		return false
	}
	got := c12EvalSeq(calls) // strictly sequential, first use of pkgver.Compare in this process
	want, inr, err := c12Want(ctx, calls)
	if err != nil {
		res.Broken = err.Error()
		return false
	}
	res.Evaluations += len(calls)
	// the same pair evaluated at several positions must give one result (independent of the oracle)
	first := map[c12Pair]int{}
	repeated := 0
	for i, p := range calls {
		if j, ok := first[p]; ok {
			_ = j
			repeated++
		} else {
			first[p] = i
		}
	}
	res.Count("history_repeated_calls", repeated)
	for i := range calls {
		if got[i] != want[i] {
			c12ReportHistory(ctx, res, calls, i, got[i], want[i], inr[i])
			res.Count("history_first_wrong_index", i)
			return false
		}
	}
	return true
}

func runC12(ctx *Ctx) *Result {
	res := &Result{Rule: "pairs: all pairs of strings of <=K tokens over the property's 19-token alphabet (exhaustive), then seeded random pairs of 3-8 tokens incl. long digit runs and arbitrary ASCII bytes; non-trivial = a pair containing at least one letter (keyword or letter component), distinct by (a,b); triples over the reduced alphabet {1,2,.,a,alpha,rc,nb} evaluate refl/antisym/trans on the implementation"}
	rng := NewRng(ctx.Seed)
	maxTok, nrand, redTok := 2, 100000, 2
	if ctx.Tier == "thorough" {
		maxTok, nrand, redTok = 2, 1500000, 3
	}
	strs := tokenStrings(c12Tokens, maxTok)
	var pairs []c12Pair
	for _, a := range strs {
		for _, b := range strs {
			pairs = append(pairs, c12Pair{a, b})
		}
	}
	if ctx.Tier == "thorough" {
		// all strings of <=3 tokens against all of <=1 token and a random subset of partners
		s3 := tokenStrings(c12Tokens, 3)
		s1 := tokenStrings(c12Tokens, 1)
		for _, a := range s3 {
			for _, b := range s1 {
				pairs = append(pairs, c12Pair{a, b}, c12Pair{b, a})
			}
			for k := 0; k < 40; k++ {
				pairs = append(pairs, c12Pair{a, Pick(rng, s3)})
			}
		}
	}
	// case-insensitivity: every string against its upper-case and mixed-case spellings, and
	// those spellings against other strings (keywords such as ALPHA, Rc, NB are not in the alphabet)
	for i, a := range strs {
		up := strings.ToUpper(a)
		mixed := c12MixCase(a, rng)
		pairs = append(pairs, c12Pair{a, up}, c12Pair{up, a}, c12Pair{mixed, a}, c12Pair{up, strs[(i*7+3)%len(strs)]}, c12Pair{strs[(i*11+5)%len(strs)], mixed})
	}
	nexh := len(pairs)
	pairs = append(pairs, c12Random(rng, nrand)...)
	seen := map[c12Pair]bool{}
	for _, p := range pairs {
		if c12Nontrivial(p.a, p.b) && !seen[p] {
			seen[p] = true
		}
	}
	res.DistinctNontrivial = len(seen)
	res.Count("exhaustive_pairs", nexh)
	res.Count("random_pairs", len(pairs)-nexh)
	// purity over call histories: must come first (sequential, fresh process)
	if !c12Histories(ctx, res, rng.Fork(), pairs[:len(strs)*len(strs)], pairs[nexh:]) {
		res.Count("later_phases_skipped_after_history_violation", 1)
		res.Assumptions = []string{"inputs are ASCII (strings.ToLower on non-ASCII is outside the model)"}
		return res
	}
	c12CheckPairs(ctx, res, pairs, "pairs")
	c12Axioms(res, tokenStrings(c12Reduced, redTok))
	res.TracesValidated = len(pairs)
	res.Exhaustive = false
	for _, i := range []int{17, 5000, nexh + 3, nexh + 77} {
		if i < len(pairs) {
			res.Sample(map[string]any{"a": pairs[i].a, "b": pairs[i].b, "impl": sgn(pkgver.Compare(pairs[i].a, pairs[i].b))})
		}
	}
	res.Assumptions = []string{"inputs are ASCII (strings.ToLower on non-ASCII is outside the model)"}
	return res
}

func replayC12(ctx *Ctx, rep map[string]any) *Result {
	res := &Result{Rule: "replay"}
	a, _ := rep["a"].(string)
	b, _ := rep["b"].(string)
	switch rep["kind"] {
	case "pair":
		c12CheckPairs(ctx, res, []c12Pair{{unhx(a), unhx(b)}}, "pairs")
	case "triple":
		c, _ := rep["c"].(string)
		c12Axioms(res, []string{unhx(a), unhx(b), unhx(c)})
	case "history":
		// this process is fresh: evaluate the calls in order
		var calls []c12Pair
		raw, _ := rep["calls"].([]any)
		for _, x := range raw {
			if ab, ok := x.([]any); ok && len(ab) == 2 {
				sa, _ := ab[0].(string)
				sb, _ := ab[1].(string)
				calls = append(calls, c12Pair{unhx(sa), unhx(sb)})
			}
		}
		if len(calls) == 0 {
			res.Broken = "history replay without calls"
			return res
		}
		got := c12EvalSeq(calls)
		res.Evaluations = len(calls)
		res.Count("history_last_result", int(got[len(got)-1]))
		if only, _ := rep["only_last"].(bool); only {
			return res
		}
		want, inr, err := c12Want(ctx, calls)
		if err != nil {
			res.Broken = err.Error()
			return res
		}
		for i := range calls {
			if got[i] != want[i] {
				v := Violation{Key: c12HistoryKey, FoundInput: inr[i], Size: i + 1,
					What:   fmt.Sprintf("call #%d of the replayed history, Compare(%q,%q), returns %d; the oracle gives %d", i+1, calls[i].a, calls[i].b, got[i], want[i]),
					Replay: map[string]any{"kind": "history", "calls": c12CallsJSON(calls[:i+1]), "want_last": int(want[i])}}
				if !inr[i] {
					v.Replay["broken"] = "pkgver.Compare is a function of its arguments"
				}
				res.AddViolation(v)
				break
			}
		}
	}
	return res
}

func init() { register("C12", runC12, replayC12) }
