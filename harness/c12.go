package main

import (
	"fmt"
	"strings"

	"github.com/rillig/pkglint/v23/pkgver"
)

// C12: pkgver.Compare against the extracted model (Model/Vercmp.v) and the
// extracted dewey.c transcription (Spec/Dewey.v); the order axioms are also
// evaluated directly on the implementation.

var c12Tokens = []string{"0", "1", "2", "9", "10", ".", "_", "a", "b", "z", "A", "alpha", "beta", "pre", "rc", "pl", "nb", "-", "+"}
var c12Reduced = []string{"1", "2", ".", "a", "alpha", "rc", "nb"}

func tokenStrings(tokens []string, maxTok int) []string {
	out := []string{""}
	prev := []string{""}
	for n := 1; n <= maxTok; n++ {
		var next []string
		for _, p := range prev {
			for _, t := range tokens {
				next = append(next, p+t)
			}
		}
		out = append(out, next...)
		prev = next
	}
	// distinct only (e.g. "1"+"0" = "10")
	seen := map[string]bool{}
	var res []string
	for _, s := range out {
		if !seen[s] {
			seen[s] = true
			res = append(res, s)
		}
	}
	return res
}

func sgn(i int) int {
	if i < 0 {
		return -1
	}
	if i > 0 {
		return 1
	}
	return 0
}

func c12Nontrivial(a, b string) bool {
	return strings.ContainsAny(strings.ToLower(a+b), "abcdefghijklmnopqrstuvwxyz")
}

type c12Pair struct{ a, b string }

// c12CheckPairs compares the implementation with model and spec on the given pairs.
func c12CheckPairs(ctx *Ctx, res *Result, pairs []c12Pair, kind string) {
	reqs := make([]string, len(pairs))
	impl := make([]int, len(pairs))
	parallelFor(16, func(w int) {
		for i := w; i < len(pairs); i += 16 {
			p := pairs[i]
			reqs[i] = "cmp " + hx(p.a) + " " + hx(p.b)
			impl[i] = sgn(pkgver.Compare(p.a, p.b))
		}
	})
	ans, err := runOracle(ctx, "c12", reqs)
	if err != nil {
		res.Broken = err.Error()
		return
	}
	for i, p := range pairs {
		var m, d, inr int
		if n, _ := fmt.Sscan(ans[i], &m, &d, &inr); n != 3 {
			res.Broken = "oracle answer " + q(ans[i])
			return
		}
		if inr == 1 && impl[i] != d {
			// the property itself fails on the implementation: Compare differs from dewey
			res.AddViolation(Violation{
				Key:        "C12/differs-from-dewey",
				What:       fmt.Sprintf("Compare(%q,%q)=%d but dewey.c gives %d", p.a, p.b, impl[i], d),
				FoundInput: true, Size: 1 + len(p.a) + len(p.b),
				Replay: map[string]any{"kind": "pair", "a": hx(p.a), "b": hx(p.b), "impl": impl[i], "dewey": d},
			})
		} else if impl[i] != m {
			res.AddViolation(Violation{
				Key:        "C12/correspondence/compare-" + kind,
				What:       fmt.Sprintf("model/implementation disagree outside dewey's range: Compare(%q,%q)=%d, model %d", p.a, p.b, impl[i], m),
				FoundInput: false, Size: 1 + len(p.a) + len(p.b),
				Replay: map[string]any{"kind": "pair", "a": hx(p.a), "b": hx(p.b), "impl": impl[i], "model": m, "broken": "correspondence pkgver.Compare = Model.Vercmp.compare_sign"},
			})
		}
		if inr == 1 {
			res.Count("pairs_in_dewey_range", 1)
		} else {
			res.Count("pairs_saturating", 1)
		}
	}
	res.Evaluations += len(pairs)
}

// order axioms evaluated on the implementation itself
func c12Axioms(res *Result, strs []string) {
	n := len(strs)
	cmp := make([][]int8, n)
	parallelFor(n, func(i int) {
		cmp[i] = make([]int8, n)
		for j := 0; j < n; j++ {
			cmp[i][j] = int8(sgn(pkgver.Compare(strs[i], strs[j])))
		}
	})
	for i := 0; i < n; i++ {
		if cmp[i][i] != 0 {
			res.AddViolation(Violation{Key: "C12/axiom/refl", What: fmt.Sprintf("Compare(%q,%q)!=0", strs[i], strs[i]), FoundInput: true,
				Replay: map[string]any{"kind": "triple", "a": hx(strs[i]), "b": hx(strs[i]), "c": hx(strs[i])}})
		}
		for j := 0; j < n; j++ {
			if cmp[i][j] != -cmp[j][i] {
				res.AddViolation(Violation{Key: "C12/axiom/antisym", What: fmt.Sprintf("Compare(%q,%q)=%d but Compare(%q,%q)=%d", strs[i], strs[j], cmp[i][j], strs[j], strs[i], cmp[j][i]), FoundInput: true,
					Replay: map[string]any{"kind": "triple", "a": hx(strs[i]), "b": hx(strs[j]), "c": hx(strs[i])}})
			}
		}
	}
	var bad [3]int = [3]int{-1, -1, -1}
	for i := 0; i < n && bad[0] < 0; i++ {
		for j := 0; j < n && bad[0] < 0; j++ {
			if cmp[i][j] > 0 {
				continue
			}
			for k := 0; k < n; k++ {
				if cmp[j][k] <= 0 && cmp[i][k] > 0 {
					bad = [3]int{i, j, k}
					break
				}
			}
		}
	}
	if bad[0] >= 0 {
		a, b, c := strs[bad[0]], strs[bad[1]], strs[bad[2]]
		res.AddViolation(Violation{Key: "C12/axiom/trans", What: fmt.Sprintf("%q<=%q<=%q but not %q<=%q", a, b, c, a, c), FoundInput: true,
			Replay: map[string]any{"kind": "triple", "a": hx(a), "b": hx(b), "c": hx(c)}})
	}
	res.Evaluations += n * n * n
	res.Count("triples_on_impl", n*n*n)
}

// c12MixCase flips the case of some letters.
func c12MixCase(s string, rng *Rng) string {
	b := []byte(s)
	for i, c := range b {
		if rng.Bool() {
			switch {
			case 'a' <= c && c <= 'z':
				b[i] = c - 32
			case 'A' <= c && c <= 'Z':
				b[i] = c + 32
			}
		}
	}
	return string(b)
}

func c12Random(rng *Rng, n int) []c12Pair {
	pairs := make([]c12Pair, 0, n)
	gen := func() string {
		var sb strings.Builder
		k := 3 + rng.Intn(6)
		for i := 0; i < k; i++ {
			switch {
			case rng.Chance(6): // long digit run around the saturation point
				for d := 0; d < 17+rng.Intn(5); d++ {
					sb.WriteByte(byte('0' + rng.Intn(10)))
				}
			case rng.Chance(5): // arbitrary ASCII byte
				sb.WriteByte(byte(1 + rng.Intn(127)))
			case rng.Chance(15): // a token in upper or mixed case
				sb.WriteString(c12MixCase(strings.ToUpper(Pick(rng, c12Tokens)), rng))
			default:
				sb.WriteString(Pick(rng, c12Tokens))
			}
		}
		return sb.String()
	}
	for i := 0; i < n; i++ {
		a := gen()
		b := gen()
		if rng.Chance(30) { // near-equal pairs: mutate one token
			b = a + Pick(rng, c12Tokens)
		}
		pairs = append(pairs, c12Pair{a, b})
	}
	return pairs
}

func runC12(ctx *Ctx) *Result {
	res := &Result{Rule: "pairs: all pairs of strings of <=K tokens over the property's 19-token alphabet (exhaustive), then seeded random pairs of 3-8 tokens incl. long digit runs and arbitrary ASCII bytes; non-trivial = a pair containing at least one letter (keyword or letter component), distinct by (a,b); triples over the reduced alphabet {1,2,.,a,alpha,rc,nb} evaluate refl/antisym/trans on the implementation"}
	rng := NewRng(ctx.Seed)
	maxTok, nrand, redTok := 2, 100000, 2
	if ctx.Tier == "thorough" {
		maxTok, nrand, redTok = 2, 1500000, 3
	}
	strs := tokenStrings(c12Tokens, maxTok)
	var pairs []c12Pair
	for _, a := range strs {
		for _, b := range strs {
			pairs = append(pairs, c12Pair{a, b})
		}
	}
	if ctx.Tier == "thorough" {
		// all strings of <=3 tokens against all of <=1 token and a random subset of partners
		s3 := tokenStrings(c12Tokens, 3)
		s1 := tokenStrings(c12Tokens, 1)
		for _, a := range s3 {
			for _, b := range s1 {
				pairs = append(pairs, c12Pair{a, b}, c12Pair{b, a})
			}
			for k := 0; k < 40; k++ {
				pairs = append(pairs, c12Pair{a, Pick(rng, s3)})
			}
		}
	}
	// case-insensitivity: every string against its upper-case and mixed-case spellings, and
	// those spellings against other strings (keywords such as ALPHA, Rc, NB are not in the alphabet)
	for i, a := range strs {
		up := strings.ToUpper(a)
		mixed := c12MixCase(a, rng)
		pairs = append(pairs, c12Pair{a, up}, c12Pair{up, a}, c12Pair{mixed, a}, c12Pair{up, strs[(i*7+3)%len(strs)]}, c12Pair{strs[(i*11+5)%len(strs)], mixed})
	}
	nexh := len(pairs)
	pairs = append(pairs, c12Random(rng, nrand)...)
	seen := map[c12Pair]bool{}
	for _, p := range pairs {
		if c12Nontrivial(p.a, p.b) && !seen[p] {
			seen[p] = true
		}
	}
	res.DistinctNontrivial = len(seen)
	res.Count("exhaustive_pairs", nexh)
	res.Count("random_pairs", len(pairs)-nexh)
	c12CheckPairs(ctx, res, pairs, "pairs")
	c12Axioms(res, tokenStrings(c12Reduced, redTok))
	res.TracesValidated = len(pairs)
	res.Exhaustive = false
	for _, i := range []int{17, 5000, nexh + 3, nexh + 77} {
		if i < len(pairs) {
			res.Sample(map[string]any{"a": pairs[i].a, "b": pairs[i].b, "impl": sgn(pkgver.Compare(pairs[i].a, pairs[i].b))})
		}
	}
	res.Assumptions = []string{"inputs are ASCII (strings.ToLower on non-ASCII is outside the model)"}
	return res
}

func replayC12(ctx *Ctx, rep map[string]any) *Result {
	res := &Result{Rule: "replay"}
	a, _ := rep["a"].(string)
	b, _ := rep["b"].(string)
	switch rep["kind"] {
	case "pair":
		c12CheckPairs(ctx, res, []c12Pair{{unhx(a), unhx(b)}}, "pairs")
	case "triple":
		c, _ := rep["c"].(string)
		c12Axioms(res, []string{unhx(a), unhx(b), unhx(c)})
	}
	return res
}

func init() { register("C12", runC12, replayC12) }
