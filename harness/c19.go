package main

import (
	"fmt"
	"path"
	"path/filepath"
	"strings"
	"sync"

	pkglint "github.com/rillig/pkglint/v23"
)

// C19: the path functions of path.go, Pkglint.Abs, Pkgsrc.Relpath and Line.Rel
// against the extracted model (Model/Paths.v); path.Clean and filepath.Rel of
// the Go standard library against the model's `clean` and `rel_go`; and the
// property itself (Spec/PathDenote.v: denote, components, list prefix / infix /
// suffix) evaluated on what the implementation returned.

var c19Components = []string{"a", "b", "pkg", "mk", "wip", ".", "..", ""}

// c19Paths: "", and every path of 1..maxComp components joined by "/", relative
// and with a leading "/". An empty component gives a doubled or trailing slash.
func c19Paths(maxComp int) []string {
	seen := map[string]bool{"": true}
	out := []string{""}
	prev := []string{""}
	for n := 1; n <= maxComp; n++ {
		var next []string
		for _, p := range prev {
			for _, c := range c19Components {
				if n == 1 {
					next = append(next, c)
				} else {
					next = append(next, p+"/"+c)
				}
			}
		}
		for _, rel := range next {
			for _, s := range []string{rel, "/" + rel} {
				if !seen[s] {
					seen[s] = true
					out = append(out, s)
				}
			}
		}
		prev = next
	}
	return out
}

// c19PathsOver: every path of 1..maxComp components over comps, relative and rooted.
func c19PathsOver(comps []string, maxComp int) []string {
	var out []string
	prev := []string{""}
	for n := 1; n <= maxComp; n++ {
		var next []string
		for _, p := range prev {
			for _, c := range comps {
				if n == 1 {
					next = append(next, c)
				} else {
					next = append(next, p+"/"+c)
				}
			}
		}
		for _, rel := range next {
			out = append(out, rel, "/"+rel)
		}
		prev = next
	}
	return out
}

// ---------- classification helpers (they only name the key of a violation) ----------

func c19Names(p string) (rooted bool, names []string) {
	rooted = strings.HasPrefix(p, "/")
	for _, c := range strings.Split(p, "/") {
		if c != "" && c != "." {
			names = append(names, c)
		}
	}
	return
}

// canonical text of a path: names joined by "/", "/" in front if rooted, "." if nothing is left
func c19Canonical(p string) string {
	rooted, names := c19Names(p)
	s := strings.Join(names, "/")
	if rooted {
		return "/" + s
	}
	if s == "" {
		return "."
	}
	return s
}

func c19NoComponent(p string) bool { // ".", "./", "./." ...: relative and without a name
	rooted, names := c19Names(p)
	return !rooted && len(names) == 0
}

func c19DotOnly(p string) bool { // relative, no names, but not the text "."
	rooted, names := c19Names(p)
	return !rooted && len(names) == 0 && p != "." && p != ""
}

func c19Oracle(ctx *Ctx, res *Result, reqs []string) []string {
	// runOracle uses one process per 20000 requests; spread smaller batches too
	const groups = 16
	n := len(reqs)
	out := make([]string, n)
	if n < 64 {
		ans, err := runOracle(ctx, "c19", reqs)
		if err != nil {
			res.Broken = err.Error()
			return nil
		}
		return ans
	}
	var wg sync.WaitGroup
	var mu sync.Mutex
	for g := 0; g < groups; g++ {
		lo, hi := g*n/groups, (g+1)*n/groups
		if lo == hi {
			continue
		}
		wg.Add(1)
		go func(lo, hi int) {
			defer wg.Done()
			ans, err := runOracle(ctx, "c19", reqs[lo:hi])
			if err != nil {
				mu.Lock()
				res.Broken = err.Error()
				mu.Unlock()
				return
			}
			copy(out[lo:hi], ans)
		}(lo, hi)
	}
	wg.Wait()
	if res.Broken != "" {
		return nil
	}
	return out
}

func hxlist(l []string) string {
	if len(l) == 0 {
		return "~"
	}
	h := make([]string, len(l))
	for i, s := range l {
		h[i] = hx(s)
	}
	return strings.Join(h, ",")
}

// ---------- unary functions ----------

func c19CheckOps(ctx *Ctx, res *Result, paths []string) {
	impl := make([]pkglint.VerifPathOpsResult, len(paths))
	reqs := make([]string, len(paths))
	parallelFor(16, func(w int) {
		for i := w; i < len(paths); i += 16 {
			impl[i] = pkglint.VerifPathOps(paths[i])
			reqs[i] = "ops " + hx(paths[i]) + " " + hx(impl[i].Clean) + " " + hx(impl[i].CleanDot) + " " + hx(impl[i].CleanPath)
		}
	})
	ans := c19Oracle(ctx, res, reqs)
	if ans == nil {
		return
	}
	for i, p := range paths {
		f := strings.Fields(ans[i])
		if len(f) != 7 || len(f[6]) != 3 {
			res.Broken = "oracle answer " + q(ans[i]) + " to " + q(reqs[i])
			return
		}
		rep := map[string]any{"kind": "ops", "p": hx(p)}
		r := impl[i]
		if r.Panic != "" {
			res.AddViolation(Violation{Key: "C19/correspondence/panic-in-unary-function", What: fmt.Sprintf("a path function panicked on %q: %s", p, r.Panic),
				Size: len(p) + 1, Replay: merge(rep, map[string]any{"broken": "the model has no panic in Parts/Dir/Clean/CleanDot/CleanPath"})})
			continue
		}
		// the standard library against the model
		if g1, g2 := path.Clean(p), filepath.Clean(p); hx(g1) != f[3] || hx(g2) != f[3] {
			res.AddViolation(Violation{Key: "C19/correspondence/path.Clean", What: fmt.Sprintf("path.Clean(%q)=%q, filepath.Clean=%q, model %q", p, g1, g2, unhx(f[3])),
				Size: len(p) + 1, Replay: merge(rep, map[string]any{"broken": "correspondence Go path.Clean = Model.Paths.clean"})})
		}
		// the property on the implementation's results
		rooted, names := c19Names(p)
		rootOnly := rooted && len(names) == 0
		for k, fn := range []string{"Clean", "CleanDot", "CleanPath"} {
			got := []string{r.Clean, r.CleanDot, r.CleanPath}[k]
			if f[6][k] == '1' {
				continue
			}
			key := "C19/" + fn + "/changes-denotation"
			if rootOnly && got == "" {
				key = "C19/" + fn + "/root-becomes-empty"
			}
			res.AddViolation(Violation{Key: key, What: fmt.Sprintf("NewPath(%q).%s() = %q does not denote the same file as %q", p, fn, got, p),
				FoundInput: true, Size: len(p) + 1, Replay: merge(rep, map[string]any{"fn": fn, "impl": hx(got)})})
		}
		// the implementation against the model
		cmp := func(fn, got, want string) {
			if got != want {
				res.AddViolation(Violation{Key: "C19/correspondence/" + fn, What: fmt.Sprintf("%s(%q): implementation %q, model %q", fn, p, unhxAny(got), unhxAny(want)),
					Size: len(p) + 1, Replay: merge(rep, map[string]any{"fn": fn, "impl": got, "model": want, "broken": "correspondence " + fn + " = Model.Paths"})})
			}
		}
		cmp("Parts", hxlist(r.Parts), f[0])
		cmp("Dir", hx(r.Dir), f[1])
		cmp("IsAbs", map[bool]string{true: "1", false: "0"}[r.IsAbs], f[2])
		cmp("Clean", hx(r.Clean), f[3])
		cmp("CleanDot", hx(r.CleanDot), f[4])
		cmp("CleanPath", hx(r.CleanPath), f[5])
		if rootOnly {
			res.Count("ops_root_only", 1)
		}
		if len(r.Parts) >= 6 {
			res.Count("ops_cleanpath_loop_entered", 1)
		}
		if n := len(strings.Split(r.CleanPath, "/")); len(r.Parts) >= 4 && n <= len(r.Parts)-4 {
			res.Count("ops_cleanpath_removed_a_pair", 1)
		}
		if strings.Contains(p, "..") {
			res.Count("ops_with_dotdot", 1)
		}
		if strings.Contains(p, "//") {
			res.Count("ops_with_double_slash", 1)
		}
	}
	res.Evaluations += len(paths)
	res.TracesValidated += len(paths)
	res.Count("ops_paths", len(paths))
}

func unhxAny(s string) string {
	if s == "~" || s == "0" || s == "1" {
		return s
	}
	var out []string
	for _, h := range strings.Split(s, ",") {
		out = append(out, unhx(h))
	}
	return strings.Join(out, "|")
}

func merge(a, b map[string]any) map[string]any {
	m := map[string]any{}
	for k, v := range a {
		m[k] = v
	}
	for k, v := range b {
		m[k] = v
	}
	return m
}

// ---------- the three predicates ----------

var c19PredNames = []string{"HasPrefixPath", "ContainsPath", "HasSuffixPath"}

// c19PredKey names the class of a disagreement between the implementation and the
// component-list reading of the property.
func c19PredKey(k int, p, sub string, impl, spec bool) string {
	rooted, _ := c19Names(sub)
	switch k {
	case 0:
		if c19DotOnly(sub) {
			return "C19/HasPrefixPath/dot-only-prefix"
		}
	case 1:
		if c19DotOnly(sub) {
			return "C19/ContainsPath/dot-only-sub"
		}
		if rooted && impl && !spec && strings.Contains(p, "//") {
			return "C19/ContainsPath/rooted-sub-after-double-slash"
		}
		if sub != c19Canonical(sub) && !impl && spec {
			return "C19/ContainsPath/length-limit-with-redundant-sub"
		}
	case 2:
		if p != c19Canonical(p) || sub != c19Canonical(sub) {
			return "C19/HasSuffixPath/text-comparison-of-redundant-paths"
		}
	}
	return "C19/" + c19PredNames[k] + "/differs-from-component-lists"
}

type c19Seen struct {
	mu sync.Mutex
	n  int
}

// c19CheckPreds runs the predicates on ps x qs.
func c19CheckPreds(ctx *Ctx, res *Result, ps, qs []string, nontrivial *c19Seen) {
	if len(ps) == 0 || len(qs) == 0 {
		return
	}
	var sb strings.Builder
	for _, s := range qs {
		sb.WriteByte(' ')
		sb.WriteString(hx(s))
	}
	tail := sb.String()
	reqs := make([]string, len(ps))
	impl := make([][]byte, len(ps))
	parallelFor(16, func(w int) {
		for i := w; i < len(ps); i += 16 {
			reqs[i] = "row " + hx(ps[i]) + tail
			row := make([]byte, len(qs))
			for j, s := range qs {
				row[j] = byte(pkglint.VerifPathPreds(ps[i], s))
			}
			impl[i] = row
		}
	})
	ans := c19Oracle(ctx, res, reqs)
	if ans == nil {
		return
	}
	counts := make([]map[string]int, 16)
	parallelFor(16, func(w int) {
		cnt := map[string]int{}
		counts[w] = cnt
		for i := w; i < len(ps); i += 16 {
			p := ps[i]
			if len(ans[i]) != len(qs) {
				res.mu.Lock()
				res.Broken = fmt.Sprintf("oracle row answer has %d verdicts for %d paths", len(ans[i]), len(qs))
				res.mu.Unlock()
				return
			}
			for j, s := range qs {
				im := int(impl[i][j])
				v := int(ans[i][j]) - 48
				model, spec := v&7, (v>>3)&7
				rep := map[string]any{"kind": "pair", "p": hx(p), "q": hx(s)}
				if im&64 != 0 {
					res.AddViolation(Violation{Key: "C19/correspondence/panic-in-predicate", What: fmt.Sprintf("a predicate panicked on (%q, %q)", p, s),
						Size: len(p) + len(s) + 1, Replay: merge(rep, map[string]any{"broken": "the model has no panic in the predicates"})})
					continue
				}
				if im != 0 || spec != 0 {
					cnt["nontrivial"]++
				}
				for k := 0; k < 3; k++ {
					ib, mb, sbit := im>>k&1 == 1, model>>k&1 == 1, spec>>k&1 == 1
					if ib {
						cnt[c19PredNames[k]+"_true"]++
					}
					// the property: only for non-empty paths (an empty path denotes nothing);
					// HasSuffixPath only for a suffix that has a component: "it doesn't really make
					// sense to ask whether a path ends with the current directory" (path_test.go,
					// which fixes "dir".HasSuffixPath(".") == false)
					if p != "" && s != "" && !(k == 2 && c19NoComponent(s)) {
						if ib != sbit {
							key := c19PredKey(k, p, s, ib, sbit)
							cnt["deviation "+key]++
							res.AddViolation(Violation{Key: key,
								What:       fmt.Sprintf("NewPath(%q).%s(%q) = %v, but comparing the component lists gives %v", p, c19PredNames[k], s, ib, sbit),
								FoundInput: true, Size: len(p) + len(s) + 1,
								Replay: merge(rep, map[string]any{"fn": c19PredNames[k], "impl": ib, "spec": sbit})})
						}
					}
					if ib != mb {
						res.AddViolation(Violation{Key: "C19/correspondence/" + c19PredNames[k],
							What:   fmt.Sprintf("NewPath(%q).%s(%q) = %v, model %v", p, c19PredNames[k], s, ib, mb),
							Size:   len(p) + len(s) + 1,
							Replay: merge(rep, map[string]any{"fn": c19PredNames[k], "impl": ib, "model": mb, "broken": "correspondence " + c19PredNames[k] + " = Model.Paths"})})
					}
				}
			}
		}
	})
	for _, cnt := range counts {
		for k, v := range cnt {
			if k == "nontrivial" {
				nontrivial.mu.Lock()
				nontrivial.n += v
				nontrivial.mu.Unlock()
			} else {
				res.Count("pred_"+k, v)
			}
		}
	}
	n := len(ps) * len(qs)
	res.Evaluations += n
	res.TracesValidated += n
	res.Count("pred_pairs", n)
}

// ---------- filepath.Rel and Path.Rel ----------

type c19Pair struct{ a, b string }

func c19CheckRel(ctx *Ctx, res *Result, pairs []c19Pair) {
	reqs := make([]string, 0, 2*len(pairs))
	goRel := make([]string, len(pairs))
	plRel := make([]string, len(pairs))
	parallelFor(16, func(w int) {
		for i := w; i < len(pairs); i += 16 {
			r, err := filepath.Rel(pairs[i].a, pairs[i].b)
			if err != nil {
				goRel[i] = "err"
			} else {
				goRel[i] = "ok:" + hx(r)
			}
			pr := pkglint.VerifPathRel(pairs[i].a, pairs[i].b)
			if strings.HasPrefix(pr, "ok:") {
				pr = "ok:" + hx(pr[3:])
			}
			plRel[i] = pr
		}
	})
	for _, p := range pairs {
		reqs = append(reqs, "rel "+hx(p.a)+" "+hx(p.b), "prel "+hx(p.a)+" "+hx(p.b))
	}
	ans := c19Oracle(ctx, res, reqs)
	if ans == nil {
		return
	}
	for i, p := range pairs {
		rep := map[string]any{"kind": "rel", "a": hx(p.a), "b": hx(p.b)}
		if ans[2*i] != goRel[i] {
			res.AddViolation(Violation{Key: "C19/correspondence/filepath.Rel", What: fmt.Sprintf("filepath.Rel(%q, %q) = %s, model %s", p.a, p.b, goRel[i], ans[2*i]),
				Size: len(p.a) + len(p.b) + 1, Replay: merge(rep, map[string]any{"broken": "correspondence Go filepath.Rel = Model.Paths.rel_go"})})
		}
		if ans[2*i+1] != plRel[i] {
			res.AddViolation(Violation{Key: "C19/correspondence/Path.Rel", What: fmt.Sprintf("NewPath(%q).Rel(%q) = %s, model %s", p.a, p.b, plRel[i], ans[2*i+1]),
				Size: len(p.a) + len(p.b) + 1, Replay: merge(rep, map[string]any{"broken": "correspondence Path.Rel = Model.Paths.path_rel"})})
		}
		if strings.HasPrefix(goRel[i], "ok") {
			res.Count("rel_ok", 1)
		} else {
			res.Count("rel_error", 1)
		}
	}
	res.Evaluations += len(pairs)
	res.TracesValidated += len(pairs)
}

// ---------- Pkgsrc.Relpath ----------

type c19Quad struct{ cwd, top, from, to string }

type c19Config struct {
	cwd  string
	tops []string
}

// the pkgsrc root at depth 0..3 above the working directory, given relatively,
// absolutely, and with redundant elements
var c19Configs = []c19Config{
	{"/wip/a/b/pkg", []string{".", "..", "../..", "../../..", "/wip/a/b/pkg", "/wip/a/b", "/wip/a", "/wip", "../.././", "..//..", "/wip//a/"}},
	{"/a/b/pkg", []string{"../../..", "/", "../..", "/a"}},
	{"/a/b", []string{".", "..", "../..", "/a/b", "/a", "/"}},
	{"/", []string{".", "/"}},
}

func c19CheckRelpath(ctx *Ctx, res *Result, quads []c19Quad, nontrivial *c19Seen) {
	impl := make([]string, len(quads))
	// group by cwd: G.cwd is global state
	byCwd := map[string][]int{}
	var order []string
	for i, qd := range quads {
		if _, ok := byCwd[qd.cwd]; !ok {
			order = append(order, qd.cwd)
		}
		byCwd[qd.cwd] = append(byCwd[qd.cwd], i)
	}
	for _, cwd := range order {
		idx := byCwd[cwd]
		pkglint.VerifSetCwd(cwd)
		parallelFor(16, func(w int) {
			for k := w; k < len(idx); k += 16 {
				qd := quads[idx[k]]
				r := pkglint.VerifRelpath(qd.cwd, qd.top, qd.from, qd.to)
				if strings.HasPrefix(r, "ok:") {
					r = "ok:" + hx(r[3:])
				}
				impl[idx[k]] = r
			}
		})
	}
	reqs := make([]string, len(quads))
	for i, qd := range quads {
		reqs[i] = "relpath " + hx(qd.cwd) + " " + hx(qd.top) + " " + hx(qd.from) + " " + hx(qd.to) + " " + impl[i]
	}
	ans := c19Oracle(ctx, res, reqs)
	if ans == nil {
		return
	}
	for i, qd := range quads {
		f := strings.Fields(ans[i])
		if len(f) != 5 {
			res.Broken = "oracle answer " + q(ans[i]) + " to " + q(reqs[i])
			return
		}
		branch, model, inside, implOK := f[0], f[1], f[2] == "1", f[4] == "1"
		size := len(qd.cwd) + len(qd.top) + len(qd.from) + len(qd.to) + 1
		rep := map[string]any{"kind": "relpath", "cwd": hx(qd.cwd), "top": hx(qd.top), "from": hx(qd.from), "to": hx(qd.to)}
		res.Count("relpath_branch_"+branch, 1)
		if inside && qd.from != "" {
			res.Count("relpath_inside_branch_"+branch, 1)
			if branch != "1" {
				nontrivial.n++
			}
			// the property: from/result denotes the target
			if !implOK {
				what := "Relpath panicked"
				key := "C19/Relpath/panic/branch-" + branch
				if impl[i] != "panic" {
					key = "C19/Relpath/wrong-target/branch-" + branch
					what = fmt.Sprintf("%q does not lead from %q to %q", unhx(strings.TrimPrefix(impl[i], "ok:")), qd.from, qd.to)
				}
				res.AddViolation(Violation{Key: key, What: fmt.Sprintf("cwd %q, pkgsrc root %q: Relpath(%q, %q): %s", qd.cwd, qd.top, qd.from, qd.to, what),
					FoundInput: true, Size: size, Replay: merge(rep, map[string]any{"impl": impl[i]})})
			}
		} else {
			res.Count("relpath_from_outside_or_empty", 1)
		}
		if impl[i] != model {
			res.AddViolation(Violation{Key: "C19/correspondence/Relpath", What: fmt.Sprintf("cwd %q, pkgsrc root %q: Relpath(%q, %q) = %s, model %s (branch %s)", qd.cwd, qd.top, qd.from, qd.to, impl[i], model, branch),
				Size: size, Replay: merge(rep, map[string]any{"impl": impl[i], "model": model, "broken": "correspondence Pkgsrc.Relpath = Model.Paths.relpath"})})
		}
	}
	res.Evaluations += len(quads)
	res.TracesValidated += len(quads)
	res.Count("relpath_quadruples", len(quads))
}

// ---------- Line.Rel ----------

func c19CheckLineRel(ctx *Ctx, res *Result, quads []c19Quad) {
	reqs := make([]string, len(quads))
	impl := make([]string, len(quads))
	for i, qd := range quads { // sequential: G.Pkgsrc is global state
		dir, r := pkglint.VerifLineRel(qd.cwd, qd.top, qd.from, qd.to)
		if strings.HasPrefix(r, "ok:") {
			r = "ok:" + hx(r[3:])
		}
		impl[i] = r
		reqs[i] = "linerel " + hx(qd.cwd) + " " + hx(qd.top) + " " + hx(qd.from) + " " + hx(qd.to) + " " + hx(dir) + " " + r
	}
	ans := c19Oracle(ctx, res, reqs)
	if ans == nil {
		return
	}
	for i, qd := range quads {
		f := strings.Fields(ans[i])
		if len(f) != 3 {
			res.Broken = "oracle answer " + q(ans[i]) + " to " + q(reqs[i])
			return
		}
		size := len(qd.cwd) + len(qd.top) + len(qd.from) + len(qd.to) + 1
		rep := map[string]any{"kind": "linerel", "cwd": hx(qd.cwd), "top": hx(qd.top), "from": hx(qd.from), "to": hx(qd.to)}
		if f[1] == "1" {
			res.Count("linerel_inside", 1)
			if f[2] != "1" {
				res.AddViolation(Violation{Key: "C19/Line.Rel/wrong-target", What: fmt.Sprintf("cwd %q, pkgsrc root %q: a line of %q refers to %q as %s, which does not lead there", qd.cwd, qd.top, qd.from, qd.to, impl[i]),
					FoundInput: true, Size: size, Replay: merge(rep, map[string]any{"impl": impl[i]})})
			}
		}
		if f[0] != impl[i] {
			res.AddViolation(Violation{Key: "C19/correspondence/Line.Rel", What: fmt.Sprintf("cwd %q, pkgsrc root %q: Line(%q).Rel(%q) = %s, model %s", qd.cwd, qd.top, qd.from, qd.to, impl[i], f[0]),
				Size: size, Replay: merge(rep, map[string]any{"impl": impl[i], "model": f[0], "broken": "correspondence Line.Rel = Model.Paths.line_rel"})})
		}
	}
	res.Evaluations += len(quads)
	res.TracesValidated += len(quads)
	res.Count("linerel_cases", len(quads))
}

// ---------- driver ----------

func runC19(ctx *Ctx) *Result {
	res := &Result{Rule: "paths: every path of <=K components over {a,b,pkg,mk,wip,.,..,\"\"} joined by '/', relative and with a leading '/', plus the empty path (K=3 quick, 4 thorough); unary functions on all of them and on all paths of <=9 (11) components over {a,..} and <=6 (7) over {a,pkg,..,.,\"\"} (CleanPath acts from 6 parts on); the three predicates on all ordered pairs (thorough: all pairs of <=4-component paths); filepath.Rel/Path.Rel on all pairs of <=2-component paths plus random pairs; Relpath on every (from,to) of <=2-component (thorough: <=3-component) paths for every (cwd, pkgsrc root) configuration (root at depth 0..3 above cwd, relative/absolute/redundant) plus random quadruples of <=K-component paths; Line.Rel on a sample. Non-trivial = a predicate pair with at least one of the six verdicts (3 implementation, 3 specification) true, or a Relpath quadruple with `from` inside the tree and cfrom != cto; all counted cases are distinct by construction (exhaustive part) "}
	rng := NewRng(ctx.Seed)
	maxComp, nrandRel, nrandQuad := 3, 20000, 60000
	if ctx.Tier == "thorough" {
		maxComp, nrandRel, nrandQuad = 4, 300000, 3000000
	}
	paths := c19Paths(maxComp)
	small := c19Paths(2)
	res.Count("paths", len(paths))
	nontrivial := &c19Seen{}

	c19CheckOps(ctx, res, paths)
	if res.Broken != "" {
		return res
	}
	// CleanPath only acts on paths of >= 6 parts ("a/b/c/d/../.."): longer paths over smaller alphabets
	longN, midN := 9, 6
	if ctx.Tier == "thorough" {
		longN, midN = 11, 7
	}
	seenLong := map[string]bool{}
	for _, s := range paths {
		seenLong[s] = true
	}
	var long []string
	for _, s := range append(c19PathsOver([]string{"a", ".."}, longN), c19PathsOver([]string{"a", "pkg", "..", ".", ""}, midN)...) {
		if !seenLong[s] {
			seenLong[s] = true
			long = append(long, s)
		}
	}
	res.Count("long_paths", len(long))
	c19CheckOps(ctx, res, long)
	if res.Broken != "" {
		return res
	}

	if ctx.Tier == "thorough" {
		// all ordered pairs, in slices of rows to bound the memory
		for lo := 0; lo < len(paths) && res.Broken == ""; lo += 1024 {
			hi := lo + 1024
			if hi > len(paths) {
				hi = len(paths)
			}
			c19CheckPreds(ctx, res, paths[lo:hi], paths, nontrivial)
		}
	} else {
		c19CheckPreds(ctx, res, paths, paths, nontrivial)
	}
	if res.Broken != "" {
		return res
	}

	var pairs []c19Pair
	for _, a := range small {
		for _, b := range small {
			pairs = append(pairs, c19Pair{a, b})
		}
	}
	for i := 0; i < nrandRel; i++ {
		pairs = append(pairs, c19Pair{Pick(rng, paths), Pick(rng, paths)})
	}
	c19CheckRel(ctx, res, pairs)
	if res.Broken != "" {
		return res
	}

	var quads []c19Quad
	nexh := 0
	exh := small
	if ctx.Tier == "thorough" {
		exh = c19Paths(3)
	}
	for _, cfg := range c19Configs {
		for _, top := range cfg.tops {
			for _, from := range exh {
				for _, to := range exh {
					quads = append(quads, c19Quad{cfg.cwd, top, from, to})
				}
			}
			if ctx.Tier == "thorough" { // one configuration at a time: 1.2 * 10^6 quadruples each
				nexh += len(quads)
				c19CheckRelpath(ctx, res, quads, nontrivial)
				quads = quads[:0]
				if res.Broken != "" {
					return res
				}
			}
		}
	}
	nexh += len(quads)
	small = exh
	seenQuad := map[c19Quad]bool{}
	isSmall := map[string]bool{}
	for _, s := range small {
		isSmall[s] = true
	}
	for i := 0; i < nrandQuad; i++ {
		cfg := Pick(rng, c19Configs)
		qd := c19Quad{cfg.cwd, Pick(rng, cfg.tops), Pick(rng, paths), Pick(rng, paths)}
		if seenQuad[qd] || (isSmall[qd.from] && isSmall[qd.to]) { // distinct, and not in the exhaustive part
			continue
		}
		seenQuad[qd] = true
		quads = append(quads, qd)
	}
	res.Count("relpath_exhaustive_quadruples", nexh)
	c19CheckRelpath(ctx, res, quads, nontrivial)
	if res.Broken != "" {
		return res
	}
	// every branch of Relpath must really have been exercised with `from` inside the tree
	// (branch 4, cfrom == "." && !cto.IsAbs(), is dead code: branch 2 takes every such pair;
	// proved as C19_relpath_branch4_dead, and counted here to notice if it ever comes alive)
	for b := 1; b <= 7; b++ {
		if b == 4 {
			continue
		}
		k := fmt.Sprintf("relpath_inside_branch_%d", b)
		if n, _ := res.Distribution[k].(int); n < 100 {
			res.Broken = fmt.Sprintf("Relpath branch %d was reached only %d times with `from` inside the tree (floor 100): the generator no longer covers it", b, n)
			return res
		}
	}

	// the other parts of the domain must be populated too
	for _, fl := range []struct {
		key string
		min int
	}{{"pred_HasPrefixPath_true", 1000}, {"pred_ContainsPath_true", 1000}, {"pred_HasSuffixPath_true", 500},
		{"rel_ok", 1000}, {"rel_error", 100}, {"ops_root_only", 4}, {"ops_with_dotdot", 100}, {"ops_with_double_slash", 50},
		{"ops_cleanpath_loop_entered", 1000}, {"ops_cleanpath_removed_a_pair", 200}} {
		if n, _ := res.Distribution[fl.key].(int); n < fl.min {
			res.Broken = fmt.Sprintf("coverage floor missed: %s = %d < %d", fl.key, n, fl.min)
			return res
		}
	}

	var lquads []c19Quad
	for _, cfg := range c19Configs[:3] {
		for _, top := range cfg.tops[:3] {
			for _, dir := range small {
				for _, to := range []string{"Makefile", "../../mk/bsd.pkg.mk", "a/b", ".", "/wip/mk", "../b/Makefile"} {
					fn := "Makefile"
					if dir != "" {
						fn = dir + "/Makefile"
					}
					lquads = append(lquads, c19Quad{cfg.cwd, top, fn, to}, c19Quad{cfg.cwd, top, dir, to})
				}
				// targets derived from the line's own directory: the directory itself in several spellings
				// (trailing slash, "/.", doubled slash), entries below it, its parent and siblings
				d := dir
				if d == "" {
					d = "."
				}
				fn := d + "/Makefile"
				parent := path.Dir(d)
				for _, to := range []string{d, d + "/", d + "/.", d + "/./", d + "//", d + "/sub", d + "/sub/", d + "//sub", d + "/distinfo", d + "/../" + path.Base(d), d + "/../" + path.Base(d) + "/",
					parent, parent + "/", parent + "/other", parent + "/other/"} {
					lquads = append(lquads, c19Quad{cfg.cwd, top, fn, to})
				}
			}
		}
	}
	c19CheckLineRel(ctx, res, lquads)
	if n, _ := res.Distribution["linerel_inside"].(int); n < 1000 && res.Broken == "" {
		res.Broken = fmt.Sprintf("coverage floor missed: linerel_inside = %d < 1000", n)
	}

	res.DistinctNontrivial = nontrivial.n
	res.Exhaustive = false
	for _, s := range []string{"a//b/../.", "/..", "pkg/../../mk/"} {
		r := pkglint.VerifPathOps(s)
		res.Sample(map[string]any{"path": s, "Parts": r.Parts, "Dir": r.Dir, "Clean": r.Clean, "CleanDot": r.CleanDot, "CleanPath": r.CleanPath})
	}
	res.Sample(map[string]any{"p": "a/./b", "q": "a/b", "HasPrefixPath|ContainsPath<<1|HasSuffixPath<<2": pkglint.VerifPathPreds("a/./b", "a/b")})
	for _, i := range []int{len(quads) / 3, len(quads) / 2, len(quads) - 5} {
		if i >= 0 && i < len(quads) {
			qd := quads[i]
			res.Sample(map[string]any{"cwd": qd.cwd, "topdir": qd.top, "from": qd.from, "to": qd.to, "Relpath": pkglint.VerifRelpath(qd.cwd, qd.top, qd.from, qd.to)})
		}
	}
	res.Assumptions = []string{
		"paths are byte strings without a Windows drive prefix (X:/), which Path.IsAbs treats as absolute",
		"the working directory G.cwd is absolute and clean, as os.Getwd returns it",
		"resolution is lexical: no symbolic links",
	}
	return res
}

func replayC19(ctx *Ctx, rep map[string]any) *Result {
	res := &Result{Rule: "replay"}
	s := func(k string) string { v, _ := rep[k].(string); return unhx(v) }
	nt := &c19Seen{}
	switch rep["kind"] {
	case "ops":
		c19CheckOps(ctx, res, []string{s("p")})
	case "pair":
		c19CheckPreds(ctx, res, []string{s("p")}, []string{s("q")}, nt)
	case "rel":
		c19CheckRel(ctx, res, []c19Pair{{s("a"), s("b")}})
	case "relpath":
		c19CheckRelpath(ctx, res, []c19Quad{{s("cwd"), s("top"), s("from"), s("to")}}, nt)
	case "linerel":
		c19CheckLineRel(ctx, res, []c19Quad{{s("cwd"), s("top"), s("from"), s("to")}})
	}
	return res
}

func init() { register("C19", runC19, replayC19) }
