package main

// Generator features added for C04/C16 on top of gentree.go (which is not
// modified): they work on the in-memory tree.
//
//  shared.mk      a makefile fragment outside every package directory
//                 (cat/common/shared.mk) with parse-time fix sites
//                 (`VAR =\tvalue`, `$(VAR)`), included by one or more
//                 packages: the file is loaded several times in one run, and
//                 -F rewrites it at the first load
//  pkg.common     the package's own Makefile.common is really included
//  mk.fragment    a second fragment inside the package directory
//  quoting        ${VAR:Q} / :M patterns that mkexprchecker.go rewrites
//  distinfo.header a distinfo file without CVS id and/or the empty line below
//                 it: fixes that are also made when the file is checked on its own

import (
	"fmt"
	"strings"
)

func c04InsertBeforeFinalInclude(mk string, block ...string) string {
	const final = ".include \"../../mk/bsd.pkg.mk\""
	i := strings.LastIndex(mk, final)
	if i < 0 {
		return mk
	}
	return mk[:i] + strings.Join(block, "\n") + "\n" + mk[i:]
}

func c04Augment(r *Rng, tf c04Files, pkgs []string, density int, feats map[string]int) {
	if density == 0 {
		density = 35
	}
	feat := func(n string) { feats[n]++ }
	// shared fragment outside the package directories
	if r.Chance(density + 15) {
		var ls []string
		ls = append(ls, cvsID, "")
		switch r.Intn(4) {
		case 0:
			ls = append(ls, "SHARED_VAR =\tvalue")
			feat("shared.space-after-varname")
		case 1:
			ls = append(ls, "SHARED_VAR=\t$(PREFIX)/share")
			feat("shared.parens")
		case 2:
			ls = append(ls, "SHARED_VAR =\tvalue", "OTHER_SHARED=  $(LOCALBASE)/x ")
			feat("shared.space-after-varname")
			feat("shared.parens")
		case 3:
			ls = append(ls, "SHARED_VAR=\tvalue", "SHARED_LONG_NAME= value")
			feat("shared.align")
		}
		tf["cat/common/shared.mk"] = strings.Join(ls, "\n") + "\n"
		n := 0
		for _, p := range pkgs {
			if n == 0 || r.Chance(70) {
				if mk, ok := tf[p+"/Makefile"]; ok {
					tf[p+"/Makefile"] = c04InsertBeforeFinalInclude(mk, ".include \"../../cat/common/shared.mk\"")
					n++
				}
			}
		}
		feats[fmt.Sprintf("shared.included-by-%d", n)]++
	}
	for _, p := range pkgs {
		mk, ok := tf[p+"/Makefile"]
		if !ok {
			continue
		}
		if _, has := tf[p+"/Makefile.common"]; has && r.Chance(70) {
			mk = c04InsertBeforeFinalInclude(mk, ".include \"Makefile.common\"")
			feat("pkg.common-included")
		}
		if di, has := tf[p+"/distinfo"]; has && r.Chance(density/2) {
			// fix sites of a distinfo file that do not need the package
			ls := strings.SplitAfter(di, "\n")
			switch r.Intn(3) {
			case 0:
				if len(ls) > 2 {
					tf[p+"/distinfo"] = strings.Join(ls[1:], "") // no CVS id
				}
			case 1:
				if len(ls) > 2 && ls[1] == "\n" {
					tf[p+"/distinfo"] = ls[0] + strings.Join(ls[2:], "") // no empty line
				}
			case 2:
				if len(ls) > 2 {
					tf[p+"/distinfo"] = strings.Join(ls[2:], "") // neither
				}
			}
			feat("distinfo.header")
		}
		if r.Chance(density / 2) {
			tf[p+"/fragment.mk"] = lines(cvsID, "", "FRAGMENT_VAR =  a b", "FRAG2=\t$(PREFIX)")
			mk = c04InsertBeforeFinalInclude(mk, ".include \"fragment.mk\"")
			feat("mk.fragment")
		}
		if r.Chance(density / 2) {
			mk = c04InsertBeforeFinalInclude(mk,
				Pick(r, []string{
					"CONFIGURE_ENV+=\tX=${PREFIX:Q}",
					".if ${OPSYS:MNetBSD} == NetBSD\n.endif",
					".if !empty(PKG_OPTIONS:Mfoo) && !empty(PKG_OPTIONS:Mfoo)\n.endif",
					"CFLAGS+=\t-I${LOCALBASE:Q}/include",
					"MASTER_SITES+=\thttp://ftp.gnu.org/gnu/hello/",
				}), "")
			feat("quoting")
		}
		tf[p+"/Makefile"] = mk
	}
}
