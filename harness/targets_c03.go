package main

// Command-line targets for the whole-run checks of C02/C03: directories and
// single files, several targets, the same target repeated, and spellings of a
// path that path.Clean would change (./x, a//b, a/../a/b, a/./b, dir/.).
// The judges resolve every printed path against the cwd of the run and
// normalise it (resolvePrinted), so the spelling does not matter to them.

import (
	"os"
	"strings"
)

// uncleanPath returns another spelling of the relative path rel.
func uncleanPath(r *Rng, rel string, isDir bool) string {
	switch r.Intn(5) {
	case 0:
		return "./" + rel
	case 1:
		if i := strings.Index(rel, "/"); i > 0 {
			return rel[:i] + "//" + rel[i+1:]
		}
	case 2:
		if i := strings.Index(rel, "/"); i > 0 {
			return rel[:i] + "/../" + rel
		}
	case 3:
		if i := strings.LastIndex(rel, "/"); i > 0 {
			return rel[:i] + "/./" + rel[i+1:]
		}
	default:
		if isDir {
			return rel + "/."
		}
	}
	return "./" + rel
}

// pickTargets chooses the working directory and the targets of one run; opts are the options.
func pickTargets(r *Rng, g *GenTree, opts []string) wrConfig {
	args := append([]string{}, opts...)
	switch r.Intn(10) {
	case 0, 1:
		return wrConfig{Cwd: ".", Args: append(args, "-r", Pick(r, []string{".", ".", "./", "cat/.."}))}
	case 2:
		return wrConfig{Cwd: "cat", Args: append(args, "-r", ".")}
	case 3:
		cwd := Pick(r, g.Pkgs)
		if r.Chance(30) {
			return wrConfig{Cwd: cwd, Args: append(args, Pick(r, []string{".", "./", "../" + cwd[strings.Index(cwd, "/")+1:]}))}
		}
		return wrConfig{Cwd: cwd, Args: args}
	case 4:
		return wrConfig{Cwd: ".", Args: append(args, g.Pkgs...)}
	}
	// an explicit list of files and directories
	type cand struct {
		rel string
		dir bool
	}
	var files, mks, execs []cand
	for _, f := range g.Files {
		st, err := os.Stat(g.Path(f))
		if err != nil || !st.Mode().IsRegular() || !strings.HasPrefix(f, "cat/") {
			continue
		}
		c := cand{f, false}
		files = append(files, c)
		if strings.HasSuffix(f, ".mk") || strings.Contains(f, "Makefile") {
			mks = append(mks, c)
		}
		if st.Mode()&0o111 != 0 {
			execs = append(execs, c)
		}
	}
	// the same makefile fragment twice, the first time under a non-clean spelling
	// (*.mk files go through the file cache, which is keyed by the cleaned path)
	var frags []cand
	for _, c := range mks {
		if strings.HasSuffix(c.rel, ".mk") {
			frags = append(frags, c)
		}
	}
	if len(frags) > 0 && r.Chance(30) {
		f := Pick(r, frags)
		args = append(args, uncleanPath(r, f.rel, false))
		if r.Chance(60) {
			args = append(args, uncleanPath(r, f.rel, false))
		} else {
			args = append(args, f.rel)
		}
		if r.Chance(30) {
			args = append(args, f.rel[:strings.LastIndex(f.rel, "/")])
		}
		return wrConfig{Cwd: ".", Args: args}
	}
	var ts []cand
	n := 1 + r.Intn(3)
	for i := 0; i < n; i++ {
		switch {
		case len(mks) > 0 && r.Chance(40):
			ts = append(ts, Pick(r, mks))
		case len(files) > 0 && r.Chance(50):
			ts = append(ts, Pick(r, files))
		default:
			ts = append(ts, cand{Pick(r, g.Pkgs), true})
		}
	}
	ts = append(ts, execs...)
	if r.Chance(50) { // the same target again
		ts = append(ts, ts[r.Intn(len(ts))])
	}
	if r.Chance(30) { // a file and its package
		ts = append(ts, cand{Pick(r, g.Pkgs), true})
	}
	cwd := "."
	strip := ""
	if r.Chance(20) {
		cwd, strip = "cat", "cat/"
	}
	for _, t := range ts {
		p := strings.TrimPrefix(t.rel, strip)
		if r.Chance(45) {
			p = uncleanPath(r, p, t.dir)
		}
		args = append(args, p)
	}
	return wrConfig{Cwd: cwd, Args: args}
}
